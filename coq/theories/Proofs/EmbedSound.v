(* EmbedSound.v -- C02 for ALL valid signatures: embed(outer, inner) against
   "calling outer, which forwards its surplus to inner".
     C02_sound   every non-colliding call accepted by the result is chain-accepted;
     C02_exact   and conversely, as long as no default of the outer signature had
                 to be cleared (in particular when outer has no defaulted positional);
     C02_raises  IncompatibleSignatures only for a shared parameter name or when
                 no call at all is chain-accepted.
   Route: closed form of the inner signature merged against the forwarded stars
   (EmbedSoundStars.v), acceptance of the concatenation (EmbedSoundAcc.v). *)
From Sigtools.Model Require Import Base Bind Roles Algebra.
From Sigtools.Proofs Require Import SmallModel Basics MaskLaws MaskExact MergeNeutral MergeIdem
     MaskNamesLib MergeSoundBase MergeSoundInv MergeSound SweepDefs2 EmbedSoundStars EmbedSoundAcc.
From Coq Require Import Lia.

(* ------------------------------------------------------------------ *)
(* small facts                                                          *)

Lemma bind_err' {A B} (x : res A) (f : A -> res B) e :
  bind x f = Err e -> x = Err e \/ exists a, x = Ok a /\ f a = Err e.
Proof. destruct x as [a|e']; cbn [bind]; intros H; [right; eauto|left; inversion H; reflexivity]. Qed.

Lemma check_ok seen ps n :
  check_no_dupes seen ps = Ok n -> n = seen ++ names_of ps /\ forall p, In p ps -> ~ In (pname p) seen.
Proof.
  unfold check_no_dupes. destruct (existsb (fun p => mem (pname p) seen) ps) eqn:E; [discriminate|].
  intros H. inversion H; subst. split; [reflexivity|]. intros p Hp Hc.
  assert (X : existsb (fun p => mem (pname p) seen) ps = true).
  { apply existsb_exists. exists p. split; [exact Hp|apply mem_In; exact Hc]. }
  congruence.
Qed.

Lemma check_err seen ps e :
  check_no_dupes seen ps = Err e -> exists p, In p ps /\ In (pname p) seen.
Proof.
  unfold check_no_dupes. destruct (existsb (fun p => mem (pname p) seen) ps) eqn:E; [|discriminate].
  intros _. apply existsb_exists in E. destruct E as [p [Hp Hm]]. exists p. split; [exact Hp|apply mem_In; exact Hm].
Qed.

Lemma names_inj (l : list param) a b :
  NoDup (names_of l) -> In a l -> In b l -> pname a = pname b -> a = b.
Proof.
  induction l as [|x l IH]; intros Hn Ha Hb E; [destruct Ha|].
  cbn [names_of map] in Hn. inversion Hn as [|? ? Hx Hn']; subst.
  destruct Ha as [->|Ha], Hb as [->|Hb]; auto.
  - exfalso. apply Hx. rewrite E. apply in_names. exact Hb.
  - exfalso. apply Hx. rewrite <- E. apply in_names. exact Ha.
Qed.

Lemma clear_defaults_app a b : clear_defaults (a ++ b) = clear_defaults a ++ clear_defaults b.
Proof. unfold clear_defaults. apply map_app. Qed.

Lemma clear_defaults_id ps : forallb (fun p => negb (has_def p)) ps = true -> clear_defaults ps = ps.
Proof.
  induction ps as [|p ps IH]; [reflexivity|]. cbn [forallb clear_defaults map]. intros H.
  apply andb_true_iff in H. destruct H as [H1 H2]. fold (clear_defaults ps). rewrite (IH H2). f_equal.
  destruct p as [nm k d an ua]. unfold has_def in H1. cbn in *. destruct d; [discriminate|reflexivity].
Qed.

(* clearing defaults only makes a signature stricter *)
Lemma req_pos_clear P : forall n ks, req_pos (clear_defaults P) n ks = true -> req_pos P n ks = true.
Proof.
  induction P as [|p P IH]; intros n ks; [auto|]. cbn [clear_defaults map req_pos]. fold (clear_defaults P).
  destruct n as [|n]; [|apply IH]. intros H. apply andb_true_iff in H. destruct H as [H1 H2].
  apply andb_true_iff. split; [|apply IH; exact H2].
  change (has_def (set_def None p)) with false in H1. cbn [orb] in H1.
  change (is_kind PK (set_def None p)) with (is_kind PK p) in H1. change (pname (set_def None p)) with (pname p) in H1.
  rewrite H1. apply orb_true_r.
Qed.

Lemma kcp_clear P : forall n k, kw_class_pos (clear_defaults P) n k = kw_class_pos P n k.
Proof.
  induction P as [|p P IH]; intros n k; [reflexivity|]. cbn [clear_defaults map kw_class_pos]. fold (clear_defaults P).
  change (pname (set_def None p)) with (pname p). change (pkind (set_def None p)) with (pkind p). rewrite IH. reflexivity.
Qed.

Lemma firstn_len_app {A} (a b : list A) : firstn (length a) (a ++ b) = a.
Proof. induction a as [|x a IH]; [reflexivity|]. cbn [length app firstn]. rewrite IH. reflexivity. Qed.

Lemma clear_length P : length (clear_defaults P) = length P.
Proof. unfold clear_defaults. apply map_length. Qed.

Lemma acc5_clear PX PY K va vk n ks :
  acc5 (clear_defaults PX ++ PY) K va vk n ks = true -> acc5 (PX ++ PY) K va vk n ks = true.
Proof.
  unfold acc5. rewrite !app_length, clear_length, !req_pos_app, clear_length.
  assert (EB : forallb (fun k => ok5 (cls5 (clear_defaults PX ++ PY) K n k) vk) ks =
               forallb (fun k => ok5 (cls5 (PX ++ PY) K n k) vk) ks).
  { apply forallb_ext. intros k. unfold cls5. rewrite !kw_class_pos_app, kcp_clear, clear_length. reflexivity. }
  rewrite EB. destruct (req_pos (clear_defaults PX) n ks) eqn:EC.
  - rewrite (req_pos_clear PX n ks EC). auto.
  - cbn [andb]. rewrite andb_false_r. cbn [andb]. discriminate.
Qed.

(* ------------------------------------------------------------------ *)
(* the shape of one _embed step                                         *)

Definition starsO (O : sorted) (uva uvk : bool) : sorted :=
  starsig (opt_if uva (varargs O)) (opt_if uvk (varkwargs O)) [] [].

(* the outer positionals as they enter the result *)
Definition xpos (O Y : sorted) : list param :=
  match posargs Y with
  | _ :: _ => posargs O ++ map (set_kind PO) (pokargs O)
  | [] => posargs O ++ pokargs O
  end.
(* are the outer defaults cleared? *)
Definition clr (Y : sorted) : bool :=
  match posargs Y with
  | ip0 :: _ => negb (has_def ip0)
  | [] => match pokargs Y with ik0 :: _ => negb (has_def ik0) | [] => false end
  end.

Lemma embed_step_ok O I uva uvk d res :
  embed_step O I uva uvk d = Ok res ->
  exists Y, merger I (starsO O uva uvk) = Ok Y /\
    Pz res = (if clr Y then clear_defaults (xpos O Y) else xpos O Y) ++ Pz Y /\
    kwoargs res = od_update (od_update [] (kwoargs O)) (kwoargs Y) /\
    varargs res = (if uva then varargs Y else varargs O) /\
    varkwargs res = (if uvk then varkwargs Y else varkwargs O) /\
    (forall x, In x (names_of (Pz Y ++ kwoargs Y)) -> ~ In x (names_of (Pz O ++ kwoargs O))).
Proof.
  unfold embed_step. fold (starsO O uva uvk). intros E.
  apply bind_ok in E. destruct E as [Y [EY E]]. exists Y. split; [exact EY|].
  apply bind_ok in E. destruct E as [n1 [C1 E]]. apply bind_ok in E. destruct E as [n2 [C2 E]].
  apply bind_ok in E. destruct E as [[[e_pos e_pok] n3] [Ee E]].
  apply bind_ok in E. destruct E as [n4 [C4 E]]. apply bind_ok in E. destruct E as [n5 [C5 E]].
  apply bind_ok in E. destruct E as [n6 [C6 E]]. inversion E; subst res; clear E.
  cbn [posargs pokargs kwoargs varargs varkwargs]. unfold Pz at 1. cbn [posargs pokargs].
  apply check_ok in C1. destruct C1 as [-> _]. apply check_ok in C2. destruct C2 as [-> _]. cbn [app] in *.
  apply check_ok in C4. destruct C4 as [-> D4]. apply check_ok in C5. destruct C5 as [-> D5].
  apply check_ok in C6. destruct C6 as [_ D6].
  set (nO := names_of (posargs O) ++ names_of (pokargs O)) in *.
  assert (Main : e_pos ++ e_pok ++ pokargs Y = (if clr Y then clear_defaults (xpos O Y) else xpos O Y) ++ Pz Y /\
                 n3 = nO ++ names_of (posargs Y) /\
                 (forall p, In p (posargs Y) -> ~ In (pname p) nO)).
  { unfold clr, xpos, Pz. destruct (posargs Y) as [|ip0 ipr] eqn:Ep.
    - cbn [names_of map]. rewrite app_nil_r. destruct (pokargs Y) as [|ik0 ikr] eqn:Ek.
      + inversion Ee; subst. rewrite !app_nil_r. split; [reflexivity|]. split; [reflexivity|]. intros p [].
      + destruct (has_def ik0); inversion Ee; subst; cbn [negb app].
        * rewrite <- app_assoc. split; [reflexivity|]. split; [reflexivity|]. intros p [].
        * rewrite clear_defaults_app, <- app_assoc. split; [reflexivity|]. split; [reflexivity|]. intros p [].
    - apply bind_ok in Ee. destruct Ee as [n3' [C3 Ee]]. apply check_ok in C3. destruct C3 as [-> D3].
      destruct (has_def ip0); inversion Ee; subst; cbn [negb app]; rewrite <- !app_assoc; cbn [app];
        (split; [reflexivity|]); (split; [reflexivity|]); exact D3. }
  destruct Main as (M1 & M2 & M3). subst n3.
  split; [exact M1|].
  split; [reflexivity|]. split; [reflexivity|]. split; [reflexivity|].
  intros x Hx Hc. rewrite names_app in Hx, Hc. unfold Pz in Hx, Hc. rewrite names_app in Hx, Hc. fold nO in Hc.
  apply in_app_or in Hx. destruct Hx as [Hx|Hx].
  - (* x names a positional parameter of Y *)
    apply in_app_or in Hc. destruct Hc as [Hc|Hc].
    + apply in_app_or in Hx. destruct Hx as [Hx|Hx]; apply names_in in Hx; destruct Hx as [p [Hp <-]].
      * exact (M3 p Hp Hc).
      * apply (D4 p Hp). apply in_or_app. left. exact Hc.
    + apply names_in in Hc. destruct Hc as [q [Hq Eq]]. apply (D5 q Hq). rewrite Eq.
      rewrite <- app_assoc. apply in_or_app. right. exact Hx.
  - (* x names a keyword-only parameter of Y *)
    apply names_in in Hx. destruct Hx as [p [Hp <-]]. apply (D6 p Hp).
    apply in_app_or in Hc. destruct Hc as [Hc|Hc].
    + apply in_or_app. left. apply in_or_app. left. apply in_or_app. left. exact Hc.
    + apply in_or_app. right. exact Hc.
Qed.

Lemma embed_step_err O I uva uvk d e :
  NoDup (names_of (Pz O ++ kwoargs O)) ->
  (forall Y, merger I (starsO O uva uvk) = Ok Y -> NoDup (names_of (Pz Y ++ kwoargs Y))) ->
  embed_step O I uva uvk d = Err e ->
  (exists e', merger I (starsO O uva uvk) = Err e') \/
  (exists Y x, merger I (starsO O uva uvk) = Ok Y /\
               In x (names_of (Pz Y ++ kwoargs Y)) /\ In x (names_of (Pz O ++ kwoargs O))).
Proof.
  intros NO NY. unfold embed_step. fold (starsO O uva uvk). intros E.
  apply bind_err' in E. destruct E as [E|[Y [EY E]]]; [left; eauto|]. right. exists Y.
  specialize (NY Y EY).
  assert (Shared : forall x, In x (names_of (Pz Y ++ kwoargs Y)) -> In x (names_of (Pz O ++ kwoargs O)) ->
                   exists x, merger I (starsO O uva uvk) = Ok Y /\
                             In x (names_of (Pz Y ++ kwoargs Y)) /\ In x (names_of (Pz O ++ kwoargs O)))
    by (intros x H1 H2; exists x; auto).
  set (nO := names_of (posargs O) ++ names_of (pokargs O)) in *.
  assert (InO : forall x, In x nO -> In x (names_of (Pz O ++ kwoargs O))).
  { intros x Hx. rewrite names_app. apply in_or_app. left. unfold Pz. rewrite names_app. exact Hx. }
  assert (InY1 : forall p, In p (posargs Y) -> In (pname p) (names_of (Pz Y ++ kwoargs Y))).
  { intros p Hp. apply in_names. apply in_or_app. left. unfold Pz. apply in_or_app. left. exact Hp. }
  assert (InY2 : forall p, In p (pokargs Y) -> In (pname p) (names_of (Pz Y ++ kwoargs Y))).
  { intros p Hp. apply in_names. apply in_or_app. left. unfold Pz. apply in_or_app. right. exact Hp. }
  assert (InY3 : forall p, In p (kwoargs Y) -> In (pname p) (names_of (Pz Y ++ kwoargs Y))).
  { intros p Hp. apply in_names. apply in_or_app. right. exact Hp. }
  apply bind_err' in E. destruct E as [E|[n1 [C1 E]]].
  { apply check_err in E. destruct E as [p [_ []]]. }
  apply check_ok in C1. destruct C1 as [-> _]. cbn [app] in E.
  apply bind_err' in E. destruct E as [E|[n2 [C2 E]]].
  { exfalso. apply check_err in E. destruct E as [p [Hp Hc]].
    rewrite names_app in NO. apply nodup_app_l in NO. unfold Pz in NO. rewrite names_app in NO.
    exact (nodup_app_disjoint _ _ (pname p) NO Hc (in_names _ _ Hp)). }
  apply check_ok in C2. destruct C2 as [-> _]. fold nO in E.
  apply bind_err' in E. destruct E as [E|[[[e_pos e_pok] n3] [Ee E]]].
  { destruct (posargs Y) as [|ip0 ipr] eqn:Ep.
    - destruct (pokargs Y) as [|ik0 ikr]; [discriminate|]. destruct (has_def ik0); discriminate.
    - apply bind_err' in E. destruct E as [E|[n3 [_ E]]]; [|discriminate].
      apply check_err in E. destruct E as [p [Hp Hc]]. apply (Shared (pname p)); [|apply InO; exact Hc].
      apply InY1. exact Hp. }
  assert (N3 : n3 = nO ++ names_of (posargs Y)).
  { destruct (posargs Y) as [|ip0 ipr] eqn:Ep.
    - cbn [names_of map]. rewrite app_nil_r. destruct (pokargs Y) as [|ik0 ikr]; [inversion Ee; reflexivity|].
      destruct (has_def ik0); inversion Ee; reflexivity.
    - apply bind_ok in Ee. destruct Ee as [n3' [C3 Ee]]. apply check_ok in C3. destruct C3 as [-> _].
      inversion Ee; reflexivity. }
  subst n3. clear Ee.
  assert (NYp : forall p q, In p (pokargs Y) -> In q (posargs Y) -> pname p <> pname q).
  { intros p q Hp Hq Ec. rewrite names_app in NY. apply nodup_app_l in NY. unfold Pz in NY. rewrite names_app in NY.
    apply (nodup_app_disjoint _ _ (pname p) NY); [rewrite Ec; apply in_names; exact Hq|apply in_names; exact Hp]. }
  apply bind_err' in E. destruct E as [E|[n4 [C4 E]]].
  { apply check_err in E. destruct E as [p [Hp Hc]]. apply in_app_or in Hc. destruct Hc as [Hc|Hc].
    - apply (Shared (pname p)); [apply InY2; exact Hp|apply InO; exact Hc].
    - exfalso. apply names_in in Hc. destruct Hc as [q [Hq Eq]]. exact (NYp p q Hp Hq (eq_sym Eq)). }
  apply check_ok in C4. destruct C4 as [-> _].
  apply bind_err' in E. destruct E as [E|[n5 [C5 E]]].
  { apply check_err in E. destruct E as [p [Hp Hc]]. apply in_app_or in Hc. destruct Hc as [Hc|Hc].
    - apply in_app_or in Hc. destruct Hc as [Hc|Hc].
      + exfalso. rewrite names_app in NO. unfold Pz in NO. rewrite names_app in NO. fold nO in NO.
        exact (nodup_app_disjoint _ _ (pname p) NO Hc (in_names _ _ Hp)).
      + apply (Shared (pname p)).
        * rewrite names_app. apply in_or_app. left. unfold Pz. rewrite names_app. apply in_or_app. left. exact Hc.
        * rewrite names_app. apply in_or_app. right. apply in_names. exact Hp.
    - apply (Shared (pname p)).
      + rewrite names_app. apply in_or_app. left. unfold Pz. rewrite names_app. apply in_or_app. right. exact Hc.
      + rewrite names_app. apply in_or_app. right. apply in_names. exact Hp. }
  apply check_ok in C5. destruct C5 as [-> _].
  apply bind_err' in E. destruct E as [E|[n6 [_ E]]]; [|discriminate].
  apply check_err in E. destruct E as [p [Hp Hc]]. apply in_app_or in Hc. destruct Hc as [Hc|Hc].
  - apply in_app_or in Hc. destruct Hc as [Hc|Hc].
    + apply in_app_or in Hc. destruct Hc as [Hc|Hc].
      * apply (Shared (pname p)); [apply InY3; exact Hp|apply InO; exact Hc].
      * exfalso. rewrite names_app in NY. apply (nodup_app_disjoint _ _ (pname p) NY); [|apply in_names; exact Hp].
        unfold Pz. rewrite names_app. apply in_or_app. left. exact Hc.
    + exfalso. rewrite names_app in NY. apply (nodup_app_disjoint _ _ (pname p) NY); [|apply in_names; exact Hp].
      unfold Pz. rewrite names_app. apply in_or_app. right. exact Hc.
  - apply (Shared (pname p)); [apply InY3; exact Hp|]. rewrite names_app. apply in_or_app. right. exact Hc.
Qed.

(* ------------------------------------------------------------------ *)
(* facts about the reachable part of the inner signature                *)

Lemma isSome_opt_if {A} b (o : option A) : isSome (opt_if b o) = b && isSome o.
Proof. destruct b, o; reflexivity. Qed.

Section ReachFacts.
Variable I : sorted.
Hypothesis KI : kinds_ok I.
Hypothesis NI : NoDup (names_of (posargs I ++ pokargs I ++ kwoargs I)).

Lemma reach_nodup hva hvk :
  NoDup (names_of ((reach_pos I hva hvk ++ reach_pok I hva hvk) ++ reach_kwo I hva hvk)).
Proof.
  unfold reach_pos, reach_pok, reach_kwo. destruct hva, hvk; cbn [andb app]; rewrite ?app_nil_r.
  - rewrite <- app_assoc. exact NI.
  - rewrite names_app, names_of_set_kind, <- names_app. rewrite app_assoc in NI. rewrite names_app in NI.
    eapply nodup_app_l. exact NI.
  - rewrite names_app, names_of_set_kind, <- names_app. rewrite names_app in NI. eapply nodup_app_r. exact NI.
  - constructor.
Qed.

Lemma reach_incl hva hvk x :
  In x (names_of ((reach_pos I hva hvk ++ reach_pok I hva hvk) ++ reach_kwo I hva hvk)) ->
  In x (names_of (posargs I ++ pokargs I ++ kwoargs I)).
Proof.
  unfold reach_pos, reach_pok, reach_kwo. destruct hva, hvk; cbn [andb app]; rewrite ?app_nil_r.
  - rewrite <- app_assoc. auto.
  - rewrite names_app, names_of_set_kind, <- names_app. intros H. rewrite app_assoc, names_app. apply in_or_app. left. exact H.
  - rewrite names_app, names_of_set_kind, <- names_app. intros H. rewrite names_app. apply in_or_app. right. exact H.
  - intros [].
Qed.

Lemma reach_kinds hva hvk :
  (forall q, In q (reach_pos I hva hvk ++ reach_pok I hva hvk) -> is_positional q = true) /\
  (forall q, In q (reach_kwo I hva hvk) -> pkind q = KO).
Proof.
  destruct KI as (K1 & K2 & _ & K4 & _). rewrite Forall_forall in K1, K2, K4.
  unfold reach_pos, reach_pok, reach_kwo. split.
  - intros q Hq. unfold is_positional.
    destruct hva, hvk; cbn [andb app] in Hq; rewrite ?app_nil_r in Hq; try (destruct Hq; fail);
      apply in_app_or in Hq; destruct Hq as [Hq|Hq];
      try (rewrite (K1 q Hq); reflexivity); try (rewrite (K2 q Hq); reflexivity).
    apply in_map_iff in Hq. destruct Hq as [q0 [<- _]]. reflexivity.
  - intros q Hq. destruct hva, hvk; cbn [app] in Hq; try (destruct Hq; fail); auto.
    apply in_app_or in Hq. destruct Hq as [Hq|Hq]; [|auto]. apply in_map_iff in Hq. destruct Hq as [q0 [<- _]]. reflexivity.
Qed.

Lemma reach_HY1 hvk : reach_pos I false hvk ++ reach_pok I false hvk = [].
Proof. reflexivity. Qed.

Lemma reach_HY2 hva :
  (forall q, In q (reach_pos I hva false ++ reach_pok I hva false) -> pkind q <> PK) /\ reach_kwo I hva false = [].
Proof.
  destruct KI as (K1 & _). rewrite Forall_forall in K1. split; [|reflexivity].
  unfold reach_pos, reach_pok. rewrite andb_false_r, app_nil_r. destruct hva; [|intros q []].
  intros q Hq. apply in_app_or in Hq. destruct Hq as [Hq|Hq]; [rewrite (K1 q Hq); discriminate|].
  apply in_map_iff in Hq. destruct Hq as [q0 [<- _]]. cbn. discriminate.
Qed.
End ReachFacts.

Lemma Forall2_refl_rkn ks (P : list param) : Forall2 (rkn ks) P P.
Proof. induction P; constructor; auto. repeat split; auto. Qed.

(* ------------------------------------------------------------------ *)
(* one _embed step against the chain                                    *)
Section Embed2.
Variables (O I : sorted) (uva uvk : bool).
Hypothesis KO_ : kinds_ok O.
Hypothesis KI : kinds_ok I.
Hypothesis NO : NoDup (names_of (posargs O ++ pokargs O ++ kwoargs O)).
Hypothesis NI : NoDup (names_of (posargs I ++ pokargs I ++ kwoargs I)).
Let hva := uva && isSome (varargs O).
Let hvk := uvk && isSome (varkwargs O).
Let vaO := isSome (varargs O). Let vkO := isSome (varkwargs O).
Let vaI := isSome (varargs I). Let vkI := isSome (varkwargs I).

Lemma NO' : NoDup (names_of (Pz O ++ kwoargs O)).
Proof. unfold Pz. rewrite <- app_assoc. exact NO. Qed.

Lemma closedY Y :
  merger I (starsO O uva uvk) = Ok Y ->
  reach_ok I hva hvk = true /\
  posargs Y = reach_pos I hva hvk /\ pokargs Y = reach_pok I hva hvk /\ kwoargs Y = reach_kwo I hva hvk /\
  isSome (varargs Y) = vaI && hva /\ isSome (varkwargs Y) = vkI && hvk /\
  star_kinds (varargs Y) (varkwargs Y).
Proof.
  intros E. destruct KI as (_ & K2 & K3 & _ & K5). destruct KO_ as (_ & _ & Q3 & _ & Q5).
  assert (Hnd : NoDup (names_of (pokargs I ++ kwoargs I))) by (rewrite names_app in NI; eapply nodup_app_r; exact NI).
  assert (Ks : star_kinds (opt_if uva (varargs O)) (opt_if uvk (varkwargs O))).
  { split; intros p Hp; [destruct uva|destruct uvk]; cbn in Hp; try discriminate; auto. }
  pose proof (merger_stars_closed I (opt_if uva (varargs O)) (opt_if uvk (varkwargs O)) [] [] K2 Hnd (conj K3 K5) Ks) as H.
  unfold starsO in E. rewrite E in H. rewrite !isSome_opt_if in H. exact H.
Qed.

Lemma errY e : merger I (starsO O uva uvk) = Err e -> reach_ok I hva hvk = false.
Proof.
  intros E. destruct KI as (_ & K2 & K3 & _ & K5). destruct KO_ as (_ & _ & Q3 & _ & Q5).
  assert (Hnd : NoDup (names_of (pokargs I ++ kwoargs I))) by (rewrite names_app in NI; eapply nodup_app_r; exact NI).
  assert (Ks : star_kinds (opt_if uva (varargs O)) (opt_if uvk (varkwargs O))).
  { split; intros p Hp; [destruct uva|destruct uvk]; cbn in Hp; try discriminate; auto. }
  pose proof (merger_stars_closed I (opt_if uva (varargs O)) (opt_if uvk (varkwargs O)) [] [] K2 Hnd (conj K3 K5) Ks) as H.
  unfold starsO in E. rewrite E in H. rewrite !isSome_opt_if in H. apply H.
Qed.

(* the chain, on the buckets *)
Definition chain5 (n : nat) (ks : list name) : bool :=
  acc5 (Pz O) (kwoargs O) vaO vkO n ks &&
  acc5 (Pz I) (kwoargs I) vaI vkI (m_in (Pz O) uva n) (ks_in (Pz O) (kwoargs O) uvk n ks).

Theorem step_chain res d n ks :
  embed_step O I uva uvk d = Ok res -> NoDup (names_of (flatten res)) ->
  (forall k, In k ks -> In k (names_of (Pz O)) -> kwpassable_name (flatten res) k = true) ->
  wk res /\
  (accepts (flatten res) (mkCall n ks) = true -> chain5 n ks = true) /\
  (forallb (fun p => negb (has_def p)) (Pz O) = true \/
   map has_def (firstn (length (Pz O)) (Pz res)) = map has_def (Pz O) ->
   accepts (flatten res) (mkCall n ks) = chain5 n ks).
Proof.
  intros E Nres NC.
  destruct (embed_step_ok O I uva uvk d res E) as (Y & EY & EP & EK & Eva & Evk & Hdis).
  destruct (closedY Y EY) as (Hok & Y1 & Y2 & Y3 & Y4 & Y5 & [Y6 Y7]).
  assert (EPY : Pz Y = reach_pos I hva hvk ++ reach_pok I hva hvk) by (unfold Pz; rewrite Y1, Y2; reflexivity).
  destruct (reach_kinds I KI hva hvk) as [RK1 RK2].
  pose proof (reach_nodup I NI hva hvk) as RN. rewrite <- EPY, <- Y3 in RN.
  destruct KO_ as (Q1 & Q2 & Q3 & Q4 & Q5). rewrite Forall_forall in Q1, Q2, Q4.
  (* the keyword-only bucket is a plain concatenation *)
  assert (EK' : kwoargs res = kwoargs O ++ kwoargs Y).
  { rewrite EK. rewrite (od_update_nil_fresh (kwoargs O)).
    - apply od_update_fresh.
      + rewrite names_app in RN. eapply nodup_app_r. exact RN.
      + intros x Hx Hc. apply (Hdis x); rewrite names_app; apply in_or_app; right; assumption.
    - rewrite app_assoc, names_app in NO. eapply nodup_app_r. exact NO. }
  (* kinds of the result *)
  assert (Kx : forall q, In q (xpos O Y) -> is_positional q = true).
  { intros q Hq. unfold xpos in Hq. unfold is_positional.
    destruct (posargs Y); apply in_app_or in Hq; destruct Hq as [Hq|Hq];
      try (rewrite (Q1 q Hq); reflexivity); try (rewrite (Q2 q Hq); reflexivity).
    apply in_map_iff in Hq. destruct Hq as [q0 [<- _]]. reflexivity. }
  assert (Wres : wk res).
  { unfold wk. fold (Pz res). rewrite EP, EK', Eva, Evk. repeat split.
    - intros q Hq. apply in_app_or in Hq. destruct Hq as [Hq|Hq].
      + destruct (clr Y); [|apply Kx; exact Hq]. unfold clear_defaults in Hq. apply in_map_iff in Hq.
        destruct Hq as [q0 [<- Hq0]]. exact (Kx q0 Hq0).
      + rewrite EPY in Hq. apply RK1. exact Hq.
    - intros q Hq. apply in_app_or in Hq. destruct Hq as [Hq|Hq]; [apply Q4; exact Hq|apply RK2; rewrite <- Y3; exact Hq].
    - intros q Hq. destruct uva; auto.
    - intros q Hq. destruct uvk; auto. }
  split; [exact Wres|].
  rewrite (accepts_acc5 res n ks Wres), EK'.
  assert (Sva : isSome (varargs res) = if uva then isSome (varargs Y) else vaO) by (rewrite Eva; destruct uva; reflexivity).
  assert (Svk : isSome (varkwargs res) = if uvk then isSome (varkwargs Y) else vkO) by (rewrite Evk; destruct uvk; reflexivity).
  rewrite Sva, Svk.
  (* the outer positionals in the result *)
  assert (InRes : forall q, In q (Pz res) -> In q (flatten res)).
  { intros q Hq. rewrite flatten_regroup. apply in_or_app. left. exact Hq. }
  assert (Hrk : Forall2 (rkn ks) (Pz O) (xpos O Y)).
  { unfold Pz, xpos. destruct (posargs Y) as [|ip0 ipr] eqn:Ep; [apply Forall2_refl_rkn|].
    apply Forall2_app; [apply Forall2_refl_rkn|].
    assert (G : forall sub, incl sub (pokargs O) -> Forall2 (rkn ks) sub (map (set_kind PO) sub)).
    { induction sub as [|p sub IH]; intros Hi; [constructor|]. cbn [map]. constructor.
      - repeat split; auto. right. split; [reflexivity|]. intros Hin.
        assert (Hp : In p (pokargs O)) by (apply Hi; left; reflexivity).
        assert (HpP : In (pname p) (names_of (Pz O))).
        { unfold Pz. rewrite names_app. apply in_or_app. right. apply in_names. exact Hp. }
        pose proof (NC (pname p) Hin HpP) as Hkp. unfold kwpassable_name in Hkp.
        apply existsb_exists in Hkp. destruct Hkp as [q [Hq Hq2]]. apply andb_true_iff in Hq2.
        destruct Hq2 as [Hq2 Hq3]. apply N.eqb_eq in Hq3.
        set (e' := if clr Y then set_def None (set_kind PO p) else set_kind PO p).
        assert (He' : In e' (flatten res)).
        { apply InRes. rewrite EP. apply in_or_app. left. unfold xpos. rewrite Ep.
          assert (Hx : In (set_kind PO p) (posargs O ++ map (set_kind PO) (pokargs O))).
          { apply in_or_app. right. apply in_map. exact Hp. }
          unfold e'. destruct (clr Y); [|exact Hx]. unfold clear_defaults. apply in_map. exact Hx. }
        assert (q = e').
        { apply (names_inj (flatten res) q e' Nres Hq He'). rewrite <- Hq3. unfold e'. destruct (clr Y); reflexivity. }
        subst q. unfold e' in Hq2. destruct (clr Y); cbn in Hq2; discriminate.
      - apply IH. intros x Hx. apply Hi. right. exact Hx. }
    apply G. apply incl_refl. }
  assert (HY1 : uva && vaO = false -> Pz Y = [] /\ isSome (varargs Y) = false).
  { intros H. change (hva = false) in H. rewrite EPY, Y4, H. rewrite andb_false_r. split; reflexivity. }
  assert (HY2 : uvk && vkO = false -> (forall q, In q (Pz Y) -> pkind q <> PK) /\ kwoargs Y = [] /\ isSome (varkwargs Y) = false).
  { intros H. change (hvk = false) in H. rewrite EPY, Y3, Y5, H. rewrite andb_false_r.
    destruct (reach_HY2 I KI hva) as [A B]. repeat split; auto. }
  pose proof (concat_acc (Pz O) (xpos O Y) (Pz Y) (kwoargs O) (kwoargs Y) vaO vkO
                (isSome (varargs Y)) (isSome (varkwargs Y)) uva uvk n ks Hrk Hdis HY1 HY2) as HC.
  (* the reachable part against the inner signature *)
  assert (HRe : acc5 (Pz Y) (kwoargs Y) (isSome (varargs Y)) (isSome (varkwargs Y))
                     (m_in (Pz O) uva n) (ks_in (Pz O) (kwoargs O) uvk n ks) =
                acc5 (Pz I) (kwoargs I) vaI vkI (m_in (Pz O) uva n) (ks_in (Pz O) (kwoargs O) uvk n ks) &&
                acc5 [] [] hva hvk (m_in (Pz O) uva n) (ks_in (Pz O) (kwoargs O) uvk n ks)).
  { rewrite EPY, Y3, Y4, Y5. exact (reach_acc I KI NI hva hvk _ _ Hok). }
  assert (HR0 : acc5 (xpos O Y ++ Pz Y) (kwoargs O ++ kwoargs Y)
                     (if uva then isSome (varargs Y) else vaO) (if uvk then isSome (varkwargs Y) else vkO) n ks
                = chain5 n ks).
  { rewrite HC, HRe. unfold chain5.
    destruct (acc5 (Pz O) (kwoargs O) vaO vkO n ks) eqn:EX; [|reflexivity]. cbn [andb].
    pose proof (stars_accept_surplus (Pz O) (kwoargs O) vaO vkO uva uvk n ks EX) as HS.
    change (uva && vaO) with hva in HS. change (uvk && vkO) with hvk in HS. rewrite HS. apply andb_true_r. }
  split.
  - intros H. rewrite <- HR0. rewrite EP in H. destruct (clr Y); [apply acc5_clear; exact H|exact H].
  - intros Hc. rewrite <- HR0. rewrite EP. destruct (clr Y) eqn:Ec; [|reflexivity].
    assert (Hnd : forallb (fun p => negb (has_def p)) (Pz O) = true).
    { destruct Hc as [Hc|Hc]; [exact Hc|].
      rewrite EP in Hc. rewrite <- (rkn_len ks _ _ Hrk), <- (clear_length (xpos O Y)), firstn_len_app in Hc.
      apply forallb_forall. intros p Hp.
      assert (X : In (has_def p) (map has_def (clear_defaults (xpos O Y)))) by (rewrite Hc; apply in_map; exact Hp).
      unfold clear_defaults in X. rewrite map_map in X. apply in_map_iff in X. destruct X as [q [Eq _]].
      rewrite <- Eq. reflexivity. }
    rewrite clear_defaults_id; [reflexivity|].
    (* xpos has the defaults of the outer positionals *)
    clear -Hnd. unfold xpos, Pz in *. destruct (posargs Y); [exact Hnd|].
    rewrite forallb_app in *. apply andb_true_iff in Hnd. destruct Hnd as [H1 H2]. rewrite H1. cbn [andb].
    rewrite forallb_map. exact H2.
Qed.

(* when the step fails: a shared name, or no chain-accepted call *)
Theorem step_raises d e :
  embed_step O I uva uvk d = Err e ->
  (exists x, In x (names_of (posargs I ++ pokargs I ++ kwoargs I)) /\ In x (names_of (Pz O ++ kwoargs O)))
  \/ forall n ks, chain5 n ks = false.
Proof.
  intros E.
  assert (NY : forall Y, merger I (starsO O uva uvk) = Ok Y -> NoDup (names_of (Pz Y ++ kwoargs Y))).
  { intros Y EY. destruct (closedY Y EY) as (_ & Y1 & Y2 & Y3 & _). unfold Pz. rewrite Y1, Y2, Y3. apply reach_nodup; assumption. }
  destruct (embed_step_err O I uva uvk d e NO' NY E) as [[e' EY]|(Y & x & EY & Hx & Hc)].
  - right. intros n ks. unfold chain5.
    destruct (acc5 (Pz O) (kwoargs O) vaO vkO n ks) eqn:EX; [|reflexivity]. cbn [andb].
    pose proof (stars_accept_surplus (Pz O) (kwoargs O) vaO vkO uva uvk n ks EX) as HS.
    change (uva && vaO) with hva in HS. change (uvk && vkO) with hvk in HS.
    pose proof (reach_none I KI hva hvk (m_in (Pz O) uva n) (ks_in (Pz O) (kwoargs O) uvk n ks) (errY e' EY)) as HN.
    rewrite HS, andb_true_r in HN. exact HN.
  - left. exists x. split; [|exact Hc]. destruct (closedY Y EY) as (_ & Y1 & Y2 & Y3 & _).
    unfold Pz in Hx. rewrite Y1, Y2, Y3 in Hx. apply (reach_incl I hva hvk x Hx).
Qed.
End Embed2.

(* ------------------------------------------------------------------ *)
(* embed [o; i] on valid signatures                                     *)

Lemma embed2_ok o i uva uvk r :
  embed [o; i] uva uvk = Ok r ->
  exists res, embed_step (sort_params o) (sort_params i) uva uvk 1 = Ok res /\ params r = flatten res.
Proof.
  cbn [embed embed_steps]. intros H. apply bind_ok in H. destruct H as [acc [H1 H2]].
  apply bind_ok in H1. destruct H1 as [res [H1 H3]]. inversion H3; subst acc. exists res.
  split; [apply to_incompatible_ok; exact H1|].
  unfold apply_params in H2. destruct (validate (flatten res)); inversion H2; reflexivity.
Qed.

Lemma embed2_incompat o i uva uvk :
  embed [o; i] uva uvk = Err Incompatible ->
  exists e, embed_step (sort_params o) (sort_params i) uva uvk 1 = Err e.
Proof.
  cbn [embed embed_steps]. intros H. apply bind_err' in H. destruct H as [H|[acc [H1 H2]]].
  - apply bind_err' in H. destruct H as [H|[res [_ H]]]; [|discriminate].
    destruct (embed_step (sort_params o) (sort_params i) uva uvk 1) as [x|e]; [discriminate|eauto].
  - unfold apply_params in H2. destruct (validate (flatten acc)); discriminate.
Qed.

Lemma chain_chain5 o i uva uvk n ks :
  valid_sig (params o) = true -> valid_sig (params i) = true ->
  chain (params o) (params i) uva uvk 0 [] (mkCall n ks) =
  chain5 (sort_params o) (sort_params i) uva uvk n ks.
Proof.
  intros Vo Vi. unfold chain, chain5. cbn [Nat.add app].
  pose proof (kinds_ok_wk _ (sort_params_kinds o)) as Wo. pose proof (kinds_ok_wk _ (sort_params_kinds i)) as Wi.
  rewrite <- (sort_flatten_roundtrip o Vo), <- (sort_flatten_roundtrip i Vi).
  rewrite (accepts_acc5 _ n ks Wo). f_equal.
  assert (E1 : (if uva then surplus_pos (flatten (sort_params o)) (mkCall n ks) else 0%nat) = m_in (Pz (sort_params o)) uva n).
  { unfold m_in, surplus_pos. cbn [npos]. rewrite (flat_positional _ Wo). reflexivity. }
  assert (E2 : (if uvk then surplus_kws (flatten (sort_params o)) (mkCall n ks) else []) =
               ks_in (Pz (sort_params o)) (kwoargs (sort_params o)) uvk n ks).
  { unfold ks_in, surplus_kws. cbn [npos kws]. destruct uvk; [|reflexivity]. apply filter_ext. intros k.
    unfold SKf. rewrite (kw_class_flat _ n k Wo). reflexivity. }
  rewrite E1, E2. apply (accepts_acc5 _ _ _ Wi).
Qed.

Lemma noncolliding_nc (O : sorted) (o i rp : list param) c :
  (forall p, In p (Pz O) -> In p o) ->
  noncolliding c rp [o; i] = true ->
  forall k, In k (kws c) -> In k (names_of (Pz O)) -> kwpassable_name rp k = true.
Proof.
  intros Hin Hnc k Hk HkO. unfold noncolliding in Hnc. rewrite forallb_forall in Hnc. specialize (Hnc k Hk).
  apply orb_true_iff in Hnc. destruct Hnc as [Hnc|Hnc]; [exact Hnc|]. exfalso.
  apply negb_true_iff in Hnc. apply mem_false_In in Hnc. apply Hnc. unfold all_names. cbn [flat_map].
  apply in_or_app. left. apply names_in in HkO. destruct HkO as [p [Hp <-]]. apply in_names. apply Hin. exact Hp.
Qed.

Lemma Pz_in_params s p : valid_sig (params s) = true -> In p (Pz (sort_params s)) -> In p (params s).
Proof. intros V Hp. rewrite <- (sort_flatten_roundtrip s V), flatten_regroup. apply in_or_app. left. exact Hp. Qed.

(* C02_sound: every non-colliding call the result accepts is accepted by
   calling outer, which forwards its surplus to inner *)
Theorem C02_sound o i uva uvk r c :
  valid_sig (params o) = true -> valid_sig (params i) = true ->
  embed [o; i] uva uvk = Ok r ->
  noncolliding c (params r) [params o; params i] = true ->
  accepts (params r) c = true ->
  chain (params o) (params i) uva uvk 0 [] c = true.
Proof.
  intros Vo Vi E Hnc Hc. destruct (embed2_ok o i uva uvk r E) as [res [Es Hr]].
  pose proof (validate_nodup _ (embed_wf _ _ _ _ E)) as Nres. rewrite Hr in Nres, Hc, Hnc.
  destruct c as [n ks]. rewrite (chain_chain5 o i uva uvk n ks Vo Vi).
  pose proof (noncolliding_nc (sort_params o) _ _ _ _ (fun p => Pz_in_params o p Vo) Hnc) as NC. cbn [kws] in NC.
  destruct (step_chain (sort_params o) (sort_params i) uva uvk (sort_params_kinds o) (sort_params_kinds i)
              (sorted_named_nodup o Vo) (sorted_named_nodup i Vi) res 1 n ks Es Nres NC) as (_ & S & _).
  exact (S Hc).
Qed.

Lemma no_default_pos o :
  valid_sig (params o) = true -> has_default_pos (params o) = false ->
  forallb (fun p => negb (has_def p)) (Pz (sort_params o)) = true.
Proof.
  intros Vo H. apply forallb_forall. intros p Hp.
  assert (Hpos : is_positional p = true) by (apply (proj1 (kinds_ok_wk _ (sort_params_kinds o))); exact Hp).
  unfold has_default_pos in H. destruct (has_def p) eqn:Hd; [|reflexivity]. exfalso.
  assert (X : existsb (fun p => is_positional p && has_def p) (params o) = true).
  { apply existsb_exists. exists p. split; [apply Pz_in_params; assumption|]. rewrite Hpos, Hd. reflexivity. }
  congruence.
Qed.

(* C02_exact: ... and conversely, when the outer signature has no defaulted
   positional parameter (the side condition of the bounded theorem) *)
Theorem C02_exact o i uva uvk r c :
  valid_sig (params o) = true -> valid_sig (params i) = true ->
  embed [o; i] uva uvk = Ok r ->
  has_default_pos (params o) = false ->
  noncolliding c (params r) [params o; params i] = true ->
  accepts (params r) c = chain (params o) (params i) uva uvk 0 [] c.
Proof.
  intros Vo Vi E Hdp Hnc. destruct (embed2_ok o i uva uvk r E) as [res [Es Hr]].
  pose proof (validate_nodup _ (embed_wf _ _ _ _ E)) as Nres. rewrite Hr in Nres, Hnc. rewrite Hr.
  destruct c as [n ks]. rewrite (chain_chain5 o i uva uvk n ks Vo Vi).
  pose proof (noncolliding_nc (sort_params o) _ _ _ _ (fun p => Pz_in_params o p Vo) Hnc) as NC. cbn [kws] in NC.
  destruct (step_chain (sort_params o) (sort_params i) uva uvk (sort_params_kinds o) (sort_params_kinds i)
              (sorted_named_nodup o Vo) (sorted_named_nodup i Vi) res 1 n ks Es Nres NC) as (_ & _ & X).
  apply X. left. apply no_default_pos; assumption.
Qed.

(* the weakest form: exactness holds as long as no default of the outer
   positionals was cleared in the result *)
Theorem C02_exact_defaults_kept o i uva uvk r c :
  valid_sig (params o) = true -> valid_sig (params i) = true ->
  embed [o; i] uva uvk = Ok r ->
  map has_def (firstn (length (positional (params o))) (positional (params r))) =
  map has_def (positional (params o)) ->
  noncolliding c (params r) [params o; params i] = true ->
  accepts (params r) c = chain (params o) (params i) uva uvk 0 [] c.
Proof.
  intros Vo Vi E Hkept Hnc. destruct (embed2_ok o i uva uvk r E) as [res [Es Hr]].
  pose proof (validate_nodup _ (embed_wf _ _ _ _ E)) as Nres. rewrite Hr in Nres, Hnc, Hkept. rewrite Hr.
  destruct c as [n ks]. rewrite (chain_chain5 o i uva uvk n ks Vo Vi).
  pose proof (noncolliding_nc (sort_params o) _ _ _ _ (fun p => Pz_in_params o p Vo) Hnc) as NC. cbn [kws] in NC.
  destruct (step_chain (sort_params o) (sort_params i) uva uvk (sort_params_kinds o) (sort_params_kinds i)
              (sorted_named_nodup o Vo) (sorted_named_nodup i Vi) res 1 n ks Es Nres NC) as (W & _ & X).
  apply X. right.
  rewrite <- (sort_flatten_roundtrip o Vo) in Hkept.
  rewrite (flat_positional _ (kinds_ok_wk _ (sort_params_kinds o))), (flat_positional _ W) in Hkept. exact Hkept.
Qed.

(* C02_raises: IncompatibleSignatures only for a parameter name shared by outer
   and inner, or when no call at all is chain-accepted *)
Theorem C02_raises o i uva uvk :
  valid_sig (params o) = true -> valid_sig (params i) = true ->
  embed [o; i] uva uvk = Err Incompatible ->
  existsb (fun p => is_named p && mem (pname p) (names_of (filter is_named (params i)))) (params o) = true
  \/ forall c, chain (params o) (params i) uva uvk 0 [] c = false.
Proof.
  intros Vo Vi E. destruct (embed2_incompat o i uva uvk E) as [e Es].
  set (O := sort_params o) in *. set (I := sort_params i) in *.
  pose proof (sort_params_kinds o) as KO_. pose proof (sort_params_kinds i) as KI. fold O in KO_. fold I in KI.
  destruct (step_raises O I uva uvk KO_ KI (sorted_named_nodup o Vo) (sorted_named_nodup i Vi) 1 e Es)
    as [[x [HxI HxO]]|Hnone].
  - left. apply existsb_exists.
    apply names_in in HxO. destruct HxO as [p [Hp Ep]]. apply names_in in HxI. destruct HxI as [q [Hq Eq]].
    destruct KO_ as (Q1 & Q2 & _ & Q4 & _). destruct KI as (R1 & R2 & _ & R4 & _).
    rewrite Forall_forall in Q1, Q2, Q4, R1, R2, R4.
    assert (Np : is_named p = true /\ In p (params o)).
    { rewrite <- (sort_flatten_roundtrip o Vo). fold O. unfold is_named, flatten. unfold Pz in Hp.
      apply in_app_or in Hp. destruct Hp as [Hp|Hp]; [apply in_app_or in Hp; destruct Hp as [Hp|Hp]|].
      - rewrite (Q1 p Hp). split; [reflexivity|]. apply in_or_app. left. exact Hp.
      - rewrite (Q2 p Hp). split; [reflexivity|]. apply in_or_app. right. apply in_or_app. left. exact Hp.
      - rewrite (Q4 p Hp). split; [reflexivity|]. apply in_or_app. right. apply in_or_app. right.
        apply in_or_app. right. apply in_or_app. left. exact Hp. }
    assert (Nq : is_named q = true /\ In q (params i)).
    { rewrite <- (sort_flatten_roundtrip i Vi). fold I. unfold is_named, flatten.
      apply in_app_or in Hq. destruct Hq as [Hq|Hq]; [|apply in_app_or in Hq; destruct Hq as [Hq|Hq]].
      - rewrite (R1 q Hq). split; [reflexivity|]. apply in_or_app. left. exact Hq.
      - rewrite (R2 q Hq). split; [reflexivity|]. apply in_or_app. right. apply in_or_app. left. exact Hq.
      - rewrite (R4 q Hq). split; [reflexivity|]. apply in_or_app. right. apply in_or_app. right.
        apply in_or_app. right. apply in_or_app. left. exact Hq. }
    exists p. split; [apply Np|]. rewrite (proj1 Np). cbn [andb]. apply mem_In. rewrite Ep, <- Eq.
    apply in_names. apply filter_In. split; [apply Nq|apply Nq].
  - right. intros [n ks]. rewrite (chain_chain5 o i uva uvk n ks Vo Vi). apply Hnone.
Qed.

(* in the shape of Props/C02.v (C02_embed_chain_U2) without the universe membership *)
Corollary C02_embed_chain (o i : list param) uva uvk :
  valid_sig o = true -> valid_sig i = true ->
  match embed [mkSig o None UEmpty [] []; mkSig i None UEmpty [] []] uva uvk with
  | Ok r =>
      (forall c, noncolliding c (params r) [o; i] = true -> accepts (params r) c = true ->
                 chain o i uva uvk 0 [] c = true) /\
      (has_default_pos o = false ->
       forall c, noncolliding c (params r) [o; i] = true ->
                 accepts (params r) c = chain o i uva uvk 0 [] c)
  | Err Incompatible =>
      existsb (fun p => is_named p && mem (pname p) (names_of (filter is_named i))) o = true
      \/ forall c, chain o i uva uvk 0 [] c = false
  | Err _ => True
  end.
Proof.
  intros Vo Vi. set (so := mkSig o None UEmpty [] []). set (si := mkSig i None UEmpty [] []).
  destruct (embed [so; si] uva uvk) as [r|[| |t]] eqn:E; auto.
  - split.
    + intros c Hnc Hc. exact (C02_sound so si uva uvk r c Vo Vi E Hnc Hc).
    + intros Hd c Hnc. exact (C02_exact so si uva uvk r c Vo Vi E Hd Hnc).
  - exact (C02_raises so si uva uvk Vo Vi E).
Qed.

(* the side condition of exactness is needed: (a=1, *args, **kw) embedding (x)
   gives (a, x): the default of a had to be cleared, the call f(x=..) is
   chain-accepted but not accepted by the result *)
Example C02_exact_needs_side_condition :
  let o := mkSig [mkParam 1 PK (Some 1) None UEmpty; mkParam 9 VP None None UEmpty;
                  mkParam 10 VK None None UEmpty] None UEmpty [] [] in
  let i := mkSig [mkParam 3 PK None None UEmpty] None UEmpty [] [] in
  let c := mkCall 0 [3] in
  valid_sig (params o) = true /\ valid_sig (params i) = true /\
  exists r, embed [o; i] true true = Ok r /\
            params r = [mkParam 1 PK None None UEmpty; mkParam 3 PK None None UEmpty] /\
            noncolliding c (params r) [params o; params i] = true /\
            accepts (params r) c = false /\ chain (params o) (params i) true true 0 [] c = true.
Proof. vm_compute. repeat split. eexists. repeat split. Qed.

(* the hypotheses are satisfiable on non-trivial inputs *)
Example C02_nonvacuous :
  let o := mkSig [mkParam 1 PO None None UEmpty; mkParam 2 PK None None UEmpty;
                  mkParam 9 VP None None UEmpty; mkParam 10 VK None None UEmpty] None UEmpty [] [] in
  let i := mkSig [mkParam 3 PK None None UEmpty; mkParam 4 KO (Some 1) None UEmpty] None UEmpty [] [] in
  let c := mkCall 2 [3; 4] in
  valid_sig (params o) = true /\ valid_sig (params i) = true /\ has_default_pos (params o) = false /\
  exists r, embed [o; i] true true = Ok r /\
            noncolliding c (params r) [params o; params i] = true /\ accepts (params r) c = true /\
            chain (params o) (params i) true true 0 [] c = true.
Proof. vm_compute. repeat split. eexists. repeat split. Qed.

Example C02_raises_nonvacuous :
  let o := mkSig [mkParam 1 PK None None UEmpty] None UEmpty [] [] in
  let i := mkSig [mkParam 3 PK None None UEmpty] None UEmpty [] [] in
  embed [o; i] true true = Err Incompatible.
Proof. vm_compute. reflexivity. Qed.

Print Assumptions step_chain.
Print Assumptions step_raises.
Print Assumptions C02_sound.
Print Assumptions C02_exact.
Print Assumptions C02_exact_defaults_kept.
Print Assumptions C02_raises.
Print Assumptions C02_embed_chain.
Print Assumptions C02_exact_needs_side_condition.
Print Assumptions C02_nonvacuous.
Print Assumptions C02_raises_nonvacuous.
