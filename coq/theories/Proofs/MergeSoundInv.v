(* MergeSoundInv.v -- the summary invariants carried through every stage of the
   binary merger (kwo_match, zip_pos, zip_pok, unmatched_kwo, normalise_pok,
   add_star), generic in the observed side.  Used by MergeSound.v (C01). *)
From Sigtools.Model Require Import Base Bind Roles Algebra.
From Sigtools.Proofs Require Import SmallModel Basics MaskLaws MaskExact MergeNeutral MergeIdem MergeSoundBase.
From Coq Require Import Lia.

(* ------------------------------------------------------------------ *)
(* result positionals evolve by appending and by re-kinding to PO       *)

Definition cv (u v : param) : Prop := v = u \/ v = set_kind PO u.
Definition convl : list param -> list param -> Prop := Forall2 cv.

Lemma convl_refl xs : convl xs xs.
Proof. induction xs; constructor; [left; reflexivity|assumption]. Qed.

Lemma convl_map xs : convl xs (map (set_kind PO) xs).
Proof. induction xs; cbn [map]; constructor; [right; reflexivity|assumption]. Qed.

Lemma convl_app a a' b b' : convl a a' -> convl b b' -> convl (a ++ b) (a' ++ b').
Proof. apply Forall2_app. Qed.

Lemma cv_has_def u v : cv u v -> has_def v = has_def u.
Proof. intros [->| ->]; reflexivity. Qed.

Lemma cv_name u v : cv u v -> pname v = pname u.
Proof. intros [->| ->]; reflexivity. Qed.

Lemma convl_nreq xs ys : convl xs ys -> nreq ys = nreq xs.
Proof.
  induction 1 as [|u v xs ys Huv _ IH]; [reflexivity|].
  rewrite !nreq_cons, IH, (cv_has_def _ _ Huv). reflexivity.
Qed.

Lemma convl_length xs ys : convl xs ys -> length ys = length xs.
Proof. induction 1 as [|u v xs ys _ _ IH]; [reflexivity|]. cbn [length]. rewrite IH. reflexivity. Qed.

Lemma convl_fwd xs ys u : convl xs ys -> In u xs -> exists v, In v ys /\ cv u v.
Proof.
  induction 1 as [|u0 v0 xs ys Huv _ IH]; intros Hu; [destruct Hu|].
  destruct Hu as [->|Hu]; [exists v0; split; [left; reflexivity|exact Huv]|].
  destruct (IH Hu) as [v [Hv Hc]]. exists v. split; [right; exact Hv|exact Hc].
Qed.

Lemma convl_bwd xs ys v : convl xs ys -> In v ys -> exists u, In u xs /\ cv u v.
Proof.
  induction 1 as [|u0 v0 xs ys Huv _ IH]; intros Hv; [destruct Hv|].
  destruct Hv as [->|Hv]; [exists u0; split; [left; reflexivity|exact Huv]|].
  destruct (IH Hv) as [u [Hu Hc]]. exists u. split; [right; exact Hu|exact Hc].
Qed.

Definition pstep (xs ys newP : list param) : Prop :=
  exists a b a' b', xs = a ++ b /\ ys = a' ++ newP ++ b' /\ convl a a' /\ convl b b'.

Lemma pstep_nreq xs ys n : pstep xs ys n -> nreq ys = (nreq xs + nreq n)%nat.
Proof.
  intros (a & b & a' & b' & -> & -> & Ha & Hb).
  rewrite !nreq_app, (convl_nreq _ _ Ha), (convl_nreq _ _ Hb). lia.
Qed.

Lemma pstep_length xs ys n : pstep xs ys n -> length ys = (length xs + length n)%nat.
Proof.
  intros (a & b & a' & b' & -> & -> & Ha & Hb).
  rewrite !app_length, (convl_length _ _ Ha), (convl_length _ _ Hb). lia.
Qed.

Lemma pstep_fwd xs ys n u : pstep xs ys n -> In u xs -> exists v, In v ys /\ cv u v.
Proof.
  intros (a & b & a' & b' & -> & -> & Ha & Hb) Hu. apply in_app_or in Hu. destruct Hu as [Hu|Hu].
  - destruct (convl_fwd _ _ _ Ha Hu) as [v [Hv Hc]]. exists v. split; [|exact Hc].
    apply in_or_app. left. exact Hv.
  - destruct (convl_fwd _ _ _ Hb Hu) as [v [Hv Hc]]. exists v. split; [|exact Hc].
    apply in_or_app. right. apply in_or_app. right. exact Hv.
Qed.

Lemma pstep_new xs ys n q : pstep xs ys n -> In q n -> In q ys.
Proof.
  intros (a & b & a' & b' & -> & -> & Ha & Hb) Hq.
  apply in_or_app. right. apply in_or_app. left. exact Hq.
Qed.

Lemma pstep_bwd xs ys n v : pstep xs ys n -> In v ys -> In v n \/ exists u, In u xs /\ cv u v.
Proof.
  intros (a & b & a' & b' & -> & -> & Ha & Hb) Hv. apply in_app_or in Hv. destruct Hv as [Hv|Hv].
  - destruct (convl_bwd _ _ _ Ha Hv) as [u [Hu Hc]]. right. exists u. split; [|exact Hc].
    apply in_or_app. left. exact Hu.
  - apply in_app_or in Hv. destruct Hv as [Hv|Hv]; [left; exact Hv|].
    destruct (convl_bwd _ _ _ Hb Hv) as [u [Hu Hc]]. right. exists u. split; [|exact Hc].
    apply in_or_app. right. exact Hu.
Qed.

Lemma pstep_refl xs : pstep xs xs [].
Proof. exists xs, [], xs, []. rewrite !app_nil_r. repeat split; apply convl_refl. Qed.

Definition flip (s : side) : side := match s with L => R | R => L end.

Definition RP (st : mstate) : list param := m_pos st ++ m_pok st.

Lemma pstep_pos st st' newP :
  m_pos st' = m_pos st ++ newP -> m_pok st' = m_pok st -> pstep (RP st) (RP st') newP.
Proof.
  intros E1 E2. exists (m_pos st), (m_pok st), (m_pos st), (m_pok st). unfold RP. rewrite E1, E2, <- app_assoc.
  repeat split; apply convl_refl.
Qed.

Lemma pstep_pok st st' newP :
  m_pos st' = m_pos st -> m_pok st' = m_pok st ++ newP -> pstep (RP st) (RP st') newP.
Proof.
  intros E1 E2. exists (RP st), [], (RP st), []. unfold RP. rewrite E1, E2, !app_nil_r, <- app_assoc.
  repeat split; apply convl_refl.
Qed.

Lemma pstep_conv_pok st st' newP :
  m_pos st' = m_pos st -> m_pok st' = map (set_kind PO) (m_pok st) ++ newP -> pstep (RP st) (RP st') newP.
Proof.
  intros E1 E2. exists (RP st), [], (m_pos st ++ map (set_kind PO) (m_pok st)), [].
  unfold RP. rewrite E1, E2, !app_nil_r, <- app_assoc. repeat split.
  - apply convl_app; [apply convl_refl|apply convl_map].
  - apply convl_refl.
Qed.

Lemma pstep_conv_pos st st' newP :
  m_pos st' = m_pos st ++ map (set_kind PO) (m_pok st) ++ newP -> m_pok st' = [] ->
  pstep (RP st) (RP st') newP.
Proof.
  intros E1 E2. exists (RP st), [], (m_pos st ++ map (set_kind PO) (m_pok st)), [].
  unfold RP. rewrite E1, E2, !app_nil_r, <- !app_assoc. repeat split.
  - apply convl_app; [apply convl_refl|apply convl_map].
  - apply convl_refl.
Qed.

Lemma pstep_same st st' : RP st' = RP st -> pstep (RP st) (RP st') [].
Proof. intros ->. apply pstep_refl. Qed.

(* ------------------------------------------------------------------ *)
Section MS.
Variables l r : sorted.
Hypothesis Kl : kinds_ok l.
Hypothesis Kr : kinds_ok r.
(* only the names that can be passed by keyword need to be distinct: this is
   what every accumulator of the n-ary fold satisfies, validated or not *)
Hypothesis Nl : NoDup (names_of (pokargs l ++ kwoargs l)).
Hypothesis Nr : NoDup (names_of (pokargs r ++ kwoargs r)).

Notation myS := (my l r).

Lemma other_flip s : other l r s = myS (flip s).
Proof. destruct s; reflexivity. Qed.

Lemma K_my o : kinds_ok (myS o).
Proof. destruct o; assumption. Qed.

Lemma N_my o : NoDup (names_of (pokargs (myS o) ++ kwoargs (myS o))).
Proof. destruct o; assumption. Qed.

Lemma po_kind o p : In p (posargs (myS o)) -> pkind p = PO.
Proof. destruct (K_my o) as (H & _). rewrite Forall_forall in H. apply H. Qed.

Lemma pk_kind o p : In p (pokargs (myS o)) -> pkind p = PK.
Proof. destruct (K_my o) as (_ & H & _). rewrite Forall_forall in H. apply H. Qed.

Lemma ko_kind o p : In p (kwoargs (myS o)) -> pkind p = KO.
Proof. destruct (K_my o) as (_ & _ & _ & H & _). rewrite Forall_forall in H. apply H. Qed.

Lemma pk_ko_disj o e p : In e (pokargs (myS o)) -> In p (kwoargs (myS o)) -> pname e <> pname p.
Proof.
  intros He Hp E. pose proof (N_my o) as H.
  rewrite names_app in H. apply (nodup_app_disjoint _ _ (pname e) H); [apply in_names; exact He|].
  rewrite E. apply in_names. exact Hp.
Qed.

Lemma N_ko o : NoDup (names_of (kwoargs (myS o))).
Proof.
  pose proof (N_my o) as H.
  rewrite names_app in H. apply nodup_app_r in H. exact H.
Qed.

Lemma N_pk o : NoDup (names_of (pokargs (myS o))).
Proof.
  pose proof (N_my o) as H.
  rewrite names_app in H. apply nodup_app_l in H. exact H.
Qed.

Definition kwp_in (o : side) (x : name) : Prop :=
  In x (names_of (pokargs (myS o) ++ kwoargs (myS o))).

Lemma kwp_pk o e : In e (pokargs (myS o)) -> kwp_in o (pname e).
Proof. intros H. unfold kwp_in. apply in_names. apply in_or_app. left. exact H. Qed.

Lemma kwp_ko o e : In e (kwoargs (myS o)) -> kwp_in o (pname e).
Proof. intros H. unfold kwp_in. apply in_names. apply in_or_app. right. exact H. Qed.

(* ---- the invariants ---- *)
Record GK (st : mstate) : Prop := mkGK {
  g_pos : forall q, In q (RP st) -> is_positional q = true;
  g_kwo : forall q, In q (m_kwo st) -> pkind q = KO
}.

Record GU (o : side) (st : mstate) : Prop := mkGU {
  g_fa : forall y, In y (names_of (unm st o)) -> ~ In y (names_of (m_kwo st));
  g_fb : NoDup (names_of (unm st o));
  g_fc : forall p, In p (unm st o) -> In p (kwoargs (myS o))
}.

Definition GD (st : mstate) : Prop :=
  forall y, In y (names_of (m_lunm st)) -> ~ In y (names_of (m_runm st)).

Definition GInv (st : mstate) : Prop := GK st /\ GU L st /\ GU R st /\ GD st.

Record SInv (o : side) (st : mstate) (d : list param) : Prop := mkS {
  s_p1 : (nreq d <= nreq (RP st))%nat \/ (exists q, In q (m_kwo st) /\ has_def q = false);
  s_p3 : (length (RP st) <= length d)%nat \/ isSome (varargs (myS o)) = true;
  s_k : forall p, In p d -> has_def p = false ->
        (exists q, In q (RP st) /\ has_def q = false /\
                   (pkind q = PO \/ (pkind p = PK /\ pname q = pname p)))
        \/ (pkind p = PK /\ exists q, In q (m_kwo st) /\ has_def q = false /\ pname q = pname p);
  s_c : forall q, (In q (RP st) /\ pkind q = PK) \/ In q (m_kwo st) ->
        kwp_in o (pname q) \/ isSome (varkwargs (myS o)) = true;
  s_ko : forall p, In p (kwoargs (myS o)) -> has_def p = false ->
        (exists q, In q (m_kwo st) /\ has_def q = false /\ pname q = pname p)
        \/ find_param (pname p) (unm st o) = Some p
}.

(* ---- generic preservation lemmas ---- *)
Lemma gk_grow st st' newP newK :
  pstep (RP st) (RP st') newP -> m_kwo st' = m_kwo st ++ newK ->
  (forall q, In q newP -> is_positional q = true) ->
  (forall q, In q newK -> pkind q = KO) ->
  GK st -> GK st'.
Proof.
  intros Hp Hk HP HK [G1 G2]. constructor.
  - intros q Hq. destruct (pstep_bwd _ _ _ _ Hp Hq) as [Hn|[u [Hu [->| ->]]]]; auto.
  - intros q Hq. rewrite Hk in Hq. apply in_app_or in Hq. destruct Hq; auto.
Qed.

Lemma gu_grow o st st' newK :
  m_kwo st' = m_kwo st ++ newK ->
  (forall p, In p (unm st' o) -> In p (unm st o)) ->
  NoDup (names_of (unm st' o)) ->
  (forall y, In y (names_of (unm st' o)) -> ~ In y (names_of newK)) ->
  GU o st -> GU o st'.
Proof.
  intros Hk Hin Hnd Hfr [G1 G2 G3]. constructor.
  - intros y Hy. rewrite Hk, names_app. intros Hc. apply in_app_or in Hc. destruct Hc as [Hc|Hc].
    + apply (G1 y); [|exact Hc]. apply names_in in Hy. destruct Hy as [p [Hp <-]].
      apply in_names. apply Hin. exact Hp.
    + exact (Hfr y Hy Hc).
  - exact Hnd.
  - intros p Hp. apply G3. apply Hin. exact Hp.
Qed.

Lemma gd_grow st st' :
  (forall o p, In p (unm st' o) -> In p (unm st o)) -> GD st -> GD st'.
Proof.
  intros Hin G y Hy Hy'. apply names_in in Hy. destruct Hy as [p [Hp <-]].
  apply names_in in Hy'. destruct Hy' as [p' [Hp' E]].
  apply (G (pname p)).
  - apply in_names. exact (Hin L p Hp).
  - rewrite <- E. apply in_names. exact (Hin R p' Hp').
Qed.

Lemma sinv_grow o st st' d dn newP newK :
  pstep (RP st) (RP st') newP ->
  m_kwo st' = m_kwo st ++ newK ->
  ((nreq dn <= nreq newP)%nat \/ exists q, In q newK /\ has_def q = false) ->
  ((length newP <= length dn)%nat \/ isSome (varargs (myS o)) = true) ->
  (forall p, In p dn -> has_def p = false ->
     (exists q, In q newP /\ has_def q = false /\ (pkind q = PO \/ (pkind p = PK /\ pname q = pname p)))
     \/ (pkind p = PK /\ exists q, In q newK /\ has_def q = false /\ pname q = pname p)) ->
  (forall q, (In q newP /\ pkind q = PK) \/ In q newK ->
     kwp_in o (pname q) \/ isSome (varkwargs (myS o)) = true) ->
  (forall p, In p (kwoargs (myS o)) -> has_def p = false ->
     find_param (pname p) (unm st o) = Some p ->
     find_param (pname p) (unm st' o) = Some p \/
     exists q, In q newK /\ has_def q = false /\ pname q = pname p) ->
  SInv o st d -> SInv o st' (d ++ dn).
Proof.
  intros Hp Hk C1 C3 Ck Cc Cko [S1 S3 Sk Sc Sko]. constructor.
  - rewrite nreq_app, (pstep_nreq _ _ _ Hp), Hk.
    destruct S1 as [S1|[q [Hq Hd]]].
    + destruct C1 as [C1|[q [Hq Hd]]]; [left; lia|].
      right. exists q. split; [apply in_or_app; right; exact Hq|exact Hd].
    + right. exists q. split; [apply in_or_app; left; exact Hq|exact Hd].
  - rewrite app_length, (pstep_length _ _ _ Hp).
    destruct S3 as [S3|S3]; [|right; exact S3]. destruct C3 as [C3|C3]; [left; lia|right; exact C3].
  - intros p Hin Hd. apply in_app_or in Hin. destruct Hin as [Hin|Hin].
    + destruct (Sk p Hin Hd) as [[q [Hq [Hqd Hqk]]]|[Hpk [q [Hq Hr]]]].
      * left. destruct (pstep_fwd _ _ _ _ Hp Hq) as [v [Hv Hc]]. exists v. split; [exact Hv|].
        split; [rewrite (cv_has_def _ _ Hc); exact Hqd|].
        destruct Hc as [->| ->]; [exact Hqk|left; reflexivity].
      * right. split; [exact Hpk|]. exists q. split; [rewrite Hk; apply in_or_app; left; exact Hq|exact Hr].
    + destruct (Ck p Hin Hd) as [[q [Hq Hr]]|[Hpk [q [Hq Hr]]]].
      * left. exists q. split; [exact (pstep_new _ _ _ _ Hp Hq)|exact Hr].
      * right. split; [exact Hpk|]. exists q. split; [rewrite Hk; apply in_or_app; right; exact Hq|exact Hr].
  - intros q [[Hq Hqk]|Hq].
    + destruct (pstep_bwd _ _ _ _ Hp Hq) as [Hn|[u [Hu [->| E]]]].
      * apply Cc. left. auto.
      * apply Sc. left. auto.
      * subst q. cbn in Hqk. discriminate.
    + rewrite Hk in Hq. apply in_app_or in Hq. destruct Hq as [Hq|Hq]; [apply Sc; right; exact Hq|].
      apply Cc. right. exact Hq.
  - intros p Hp' Hd. destruct (Sko p Hp' Hd) as [[q [Hq Hr]]|Hf].
    + left. exists q. split; [rewrite Hk; apply in_or_app; left; exact Hq|exact Hr].
    + destruct (Cko p Hp' Hd Hf) as [Hf'|[q [Hq Hr]]]; [right; exact Hf'|].
      left. exists q. split; [rewrite Hk; apply in_or_app; right; exact Hq|exact Hr].
Qed.

(* the state changed in ways the invariants do not see *)
Lemma sinv_same o st st' d :
  RP st' = RP st -> m_kwo st' = m_kwo st -> unm st' o = unm st o -> SInv o st d -> SInv o st' d.
Proof.
  intros E1 E2 E3 [S1 S3 Sk Sc Sko]. constructor; rewrite ?E1, ?E2, ?E3; assumption.
Qed.

Lemma gk_same st st' : RP st' = RP st -> m_kwo st' = m_kwo st -> GK st -> GK st'.
Proof. intros E1 E2 [G1 G2]. constructor; rewrite ?E1, ?E2; assumption. Qed.

Lemma gu_same o st st' : m_kwo st' = m_kwo st -> unm st' o = unm st o -> GU o st -> GU o st'.
Proof. intros E2 E3 [G1 G2 G3]. constructor; rewrite ?E2, ?E3; assumption. Qed.

Lemma ginv_same st st' :
  RP st' = RP st -> m_kwo st' = m_kwo st -> (forall o, unm st' o = unm st o) -> GInv st -> GInv st'.
Proof.
  intros E1 E2 E3 (G1 & G2 & G3 & G4). split; [|split; [|split]].
  - apply (gk_same st); assumption.
  - apply (gu_same L st); auto.
  - apply (gu_same R st); auto.
  - unfold GD. pose proof (E3 L) as EL. pose proof (E3 R) as ER. cbn [unm] in EL, ER.
    rewrite EL, ER. exact G4.
Qed.

(* a step that leaves the unmatched keyword-only lists alone *)
Lemma ginv_grow_pos st st' newP :
  pstep (RP st) (RP st') newP -> m_kwo st' = m_kwo st -> (forall o, unm st' o = unm st o) ->
  (forall q, In q newP -> is_positional q = true) ->
  GInv st -> GInv st'.
Proof.
  intros Hp Hk Hu HP (G1 & G2 & G3 & G4). split; [|split; [|split]].
  - apply (gk_grow st st' newP []); auto; [rewrite app_nil_r; exact Hk|intros q []].
  - apply (gu_same L st); auto.
  - apply (gu_same R st); auto.
  - unfold GD. pose proof (Hu L) as EL. pose proof (Hu R) as ER. cbn [unm] in EL, ER.
    rewrite EL, ER. exact G4.
Qed.

(* a positional step seen from side o: dn are the parameters of o consumed *)
Lemma sinv_grow_pos o st st' d dn newP :
  pstep (RP st) (RP st') newP -> m_kwo st' = m_kwo st -> unm st' o = unm st o ->
  (nreq dn <= nreq newP)%nat ->
  ((length newP <= length dn)%nat \/ isSome (varargs (myS o)) = true) ->
  (forall p, In p dn -> has_def p = false ->
     exists q, In q newP /\ has_def q = false /\ (pkind q = PO \/ (pkind p = PK /\ pname q = pname p))) ->
  (forall q, In q newP -> pkind q = PK -> kwp_in o (pname q) \/ isSome (varkwargs (myS o)) = true) ->
  SInv o st d -> SInv o st' (d ++ dn).
Proof.
  intros Hp Hk Hu C1 C3 Ck Cc HS.
  apply (sinv_grow o st st' d dn newP []); auto.
  - rewrite app_nil_r. exact Hk.
  - intros q [[Hq Hqk]|[]]. auto.
  - intros p _ _ Hf. left. rewrite Hu. exact Hf.
Qed.


(* ------------------------------------------------------------------ *)
(* small facts used by the stage lemmas                                 *)

Lemma side_cases (o s : side) : o = s \/ o = flip s.
Proof. destruct o, s; auto. Qed.

Lemma flip_flip s : flip (flip s) = s.
Proof. destruct s; reflexivity. Qed.

Lemma nreq_single_le e c : (has_def e = false -> has_def c = false) -> (nreq [e] <= nreq [c])%nat.
Proof.
  intros H. rewrite !nreq_cons, nreq_nil. destruct (has_def e); [lia|]. rewrite (H eq_refl). lia.
Qed.

Lemma concile_req_l a b : has_def a = false -> has_def (concile a b) = false.
Proof. intros H. rewrite concile_optional_iff, H. reflexivity. Qed.

Lemma concile_req_r a b : has_def b = false -> has_def (concile a b) = false.
Proof. intros H. rewrite concile_optional_iff, H. apply andb_false_r. Qed.

Lemma positional_kind q : pkind q = PO \/ pkind q = PK -> is_positional q = true.
Proof. unfold is_positional. intros [-> | ->]; reflexivity. Qed.

Lemma incl_cons_l {A} (a : A) l1 l2 : incl (a :: l1) l2 -> In a l2 /\ incl l1 l2.
Proof. intros H. split; [apply H; left; reflexivity|intros x Hx; apply H; right; exact Hx]. Qed.

Lemma incl_app_r_inv {A} (a b c : list A) : incl (a ++ b) c -> incl b c.
Proof. intros H x Hx. apply H. apply in_or_app. right. exact Hx. Qed.

(* ------------------------------------------------------------------ *)
(* zip_pos                                                              *)

Lemma unb_pos1_inv s e conv st st' conv' ds dt :
  In e (posargs (myS s)) -> incl conv (pokargs (myS (flip s))) ->
  unb_pos1 l r s e conv st = Ok (st', conv') ->
  GInv st -> SInv s st ds -> SInv (flip s) st dt ->
  exists pc, conv = pc ++ conv' /\ GInv st' /\ SInv s st' (ds ++ [e]) /\
             SInv (flip s) st' (dt ++ pc) /\ m_kwo st' = m_kwo st.
Proof.
  intros He Hc E G Ss St. pose proof (po_kind s e He) as Hek.
  unfold unb_pos1 in E. destruct conv as [|o conv0].
  - destruct (isSome (varargs (other l r s))) eqn:Eva.
    + remember (excl_va (add_src1 l r (set_pos st (m_pos st ++ [e])) (pname e) s)
                        (match s with L => R | R => L end)) as st1 eqn:Est.
      inversion E; subst st' conv'; clear E. exists [].
      assert (P : pstep (RP st) (RP st1) [e]) by (apply pstep_pos; rewrite Est; destruct s; reflexivity).
      assert (K : m_kwo st1 = m_kwo st) by (rewrite Est; destruct s; reflexivity).
      assert (U : forall o, unm st1 o = unm st o) by (intros o; rewrite Est; destruct s, o; reflexivity).
      clear Est. split; [reflexivity|]. split; [|split; [|split]].
      * apply (ginv_grow_pos st st1 [e]); auto.
        intros q [<-|[]]. apply positional_kind. auto.
      * apply (sinv_grow_pos s st st1 ds [e] [e]); auto.
        -- intros p [<-|[]] Hd. exists e. split; [left; reflexivity|]. split; [exact Hd|left; exact Hek].
        -- intros q [<-|[]] Hk. congruence.
      * apply (sinv_grow_pos (flip s) st st1 dt [] [e]); auto.
        -- rewrite nreq_nil. lia.
        -- right. rewrite <- other_flip. exact Eva.
        -- intros p [].
        -- intros q [<-|[]] Hk. congruence.
      * exact K.
    + destruct (negb (has_def e)) eqn:Ed; [discriminate|]. inversion E; subst st' conv'; clear E.
      apply negb_false_iff in Ed. exists [].
      split; [reflexivity|]. split; [exact G|]. split; [|split].
      * apply (sinv_grow_pos s st st ds [e] []); auto using pstep_refl.
        -- rewrite nreq_cons, Ed, nreq_nil. lia.
        -- left. cbn. lia.
        -- intros p [<-|[]] Hd. congruence.
      * rewrite app_nil_r. exact St.
      * reflexivity.
  - remember (if N.eqb (pname o) (pname e)
              then add_src2 l r (set_pos st (m_pos st ++ [concile e o])) (pname e) s
                            (match s with L => R | R => L end)
              else add_src1 l r (set_pos st (m_pos st ++ [concile e o])) (pname e) s) as st1 eqn:Est.
    inversion E; subst st' conv'; clear E. exists [o].
    assert (P : pstep (RP st) (RP st1) [concile e o])
      by (apply pstep_pos; rewrite Est; destruct (N.eqb (pname o) (pname e)); reflexivity).
    assert (K : m_kwo st1 = m_kwo st) by (rewrite Est; destruct (N.eqb (pname o) (pname e)); reflexivity).
    assert (U : forall o', unm st1 o' = unm st o')
      by (intros o'; rewrite Est; destruct (N.eqb (pname o) (pname e)); destruct o'; reflexivity).
    clear Est.
    assert (Hck : pkind (concile e o) = PO) by exact Hek.
    split; [reflexivity|]. split; [|split; [|split]].
    + apply (ginv_grow_pos st st1 [concile e o]); auto.
      intros q [<-|[]]. apply positional_kind. auto.
    + apply (sinv_grow_pos s st st1 ds [e] [concile e o]); auto.
      * apply nreq_single_le. apply concile_req_l.
      * intros p [<-|[]] Hd. exists (concile e o). split; [left; reflexivity|].
        split; [apply concile_req_l; exact Hd|left; exact Hck].
      * intros q [<-|[]] Hk. congruence.
    + apply (sinv_grow_pos (flip s) st st1 dt [o] [concile e o]); auto.
      * apply nreq_single_le. apply concile_req_r.
      * intros p [<-|[]] Hd. exists (concile e o). split; [left; reflexivity|].
        split; [apply concile_req_r; exact Hd|left; exact Hck].
      * intros q [<-|[]] Hk. congruence.
    + exact K.
Qed.

Lemma unb_pos_all_inv s ps : forall conv st st' conv' ds dt,
  incl ps (posargs (myS s)) -> incl conv (pokargs (myS (flip s))) ->
  unb_pos_all l r s ps conv st = Ok (st', conv') ->
  GInv st -> SInv s st ds -> SInv (flip s) st dt ->
  exists pc, conv = pc ++ conv' /\ GInv st' /\ SInv s st' (ds ++ ps) /\
             SInv (flip s) st' (dt ++ pc) /\ m_kwo st' = m_kwo st.
Proof.
  induction ps as [|e ps IH]; intros conv st st' conv' ds dt Hps Hc E G Ss St.
  - cbn [unb_pos_all] in E. inversion E; subst st' conv'. exists []. rewrite !app_nil_r. auto.
  - cbn [unb_pos_all] in E. apply bind_ok in E. destruct E as [[st1 conv1] [E1 E2]]. cbn [fst snd] in E2.
    apply incl_cons_l in Hps. destruct Hps as [He Hps].
    destruct (unb_pos1_inv s e conv st st1 conv1 ds dt He Hc E1 G Ss St) as [pc1 (C1 & G1 & S1 & T1 & K1)].
    assert (Hc1 : incl conv1 (pokargs (myS (flip s)))) by (rewrite C1 in Hc; eapply incl_app_r_inv; exact Hc).
    destruct (IH conv1 st1 st' conv' (ds ++ [e]) (dt ++ pc1) Hps Hc1 E2 G1 S1 T1) as [pc2 (C2 & G2 & S2 & T2 & K2)].
    exists (pc1 ++ pc2). rewrite <- app_assoc in S2, T2. cbn [app] in S2.
    split; [rewrite C1, C2, app_assoc; reflexivity|]. split; [exact G2|]. split; [exact S2|].
    split; [exact T2|]. rewrite K2. exact K1.
Qed.

Lemma zip_pos_inv lp : forall rp il ir st st' il' ir' dl dr,
  incl lp (posargs l) -> incl rp (posargs r) -> incl il (pokargs l) -> incl ir (pokargs r) ->
  zip_pos l r lp rp il ir st = Ok (st', il', ir') ->
  GInv st -> SInv L st dl -> SInv R st dr ->
  exists pl pr, il = pl ++ il' /\ ir = pr ++ ir' /\
    GInv st' /\ SInv L st' (dl ++ lp ++ pl) /\ SInv R st' (dr ++ rp ++ pr) /\ m_kwo st' = m_kwo st.
Proof.
  induction lp as [|a lp IH]; intros rp il ir st st' il' ir' dl dr Hlp Hrp Hil Hir E G SL SR.
  - cbn [zip_pos] in E. apply bind_ok in E. destruct E as [[st1 conv1] [E1 E2]]. cbn [fst snd] in E2.
    inversion E2; subst st' il' ir'; clear E2.
    destruct (unb_pos_all_inv R rp il st st1 conv1 dr dl Hrp Hil E1 G SR SL) as [pc (C & G1 & S1 & T1 & K1)].
    exists pc, []. cbn [app]. rewrite app_nil_r. auto 10.
  - destruct rp as [|b rp].
    + cbn [zip_pos] in E. apply bind_ok in E. destruct E as [[st1 conv1] [E1 E2]]. cbn [fst snd] in E2.
      inversion E2; subst st' il' ir'; clear E2.
      destruct (unb_pos_all_inv L (a :: lp) ir st st1 conv1 dl dr Hlp Hir E1 G SL SR) as [pc (C & G1 & S1 & T1 & K1)].
      exists [], pc. cbn [app]. rewrite app_nil_r. auto 10.
    + cbn [zip_pos] in E.
      apply incl_cons_l in Hlp. destruct Hlp as [Ha Hlp]. apply incl_cons_l in Hrp. destruct Hrp as [Hb Hrp].
      pose proof (po_kind L a Ha) as Hak.
      remember (if N.eqb (pname a) (pname b)
                then add_src2 l r (set_pos st (m_pos st ++ [concile a b])) (pname a) L R
                else add_src1 l r (set_pos st (m_pos st ++ [concile a b])) (pname a) L) as st1 eqn:Est.
      assert (P : pstep (RP st) (RP st1) [concile a b])
        by (apply pstep_pos; rewrite Est; destruct (N.eqb (pname a) (pname b)); reflexivity).
      assert (K : m_kwo st1 = m_kwo st) by (rewrite Est; destruct (N.eqb (pname a) (pname b)); reflexivity).
      assert (U : forall o', unm st1 o' = unm st o')
        by (intros o'; rewrite Est; destruct (N.eqb (pname a) (pname b)); destruct o'; reflexivity).
      clear Est.
      assert (Hck : pkind (concile a b) = PO) by exact Hak.
      assert (G1 : GInv st1).
      { apply (ginv_grow_pos st st1 [concile a b]); auto.
        intros q [<-|[]]. apply positional_kind. auto. }
      assert (S1 : SInv L st1 (dl ++ [a])).
      { apply (sinv_grow_pos L st st1 dl [a] [concile a b]); auto.
        - apply nreq_single_le. apply concile_req_l.
        - intros p [<-|[]] Hd. exists (concile a b). split; [left; reflexivity|].
          split; [apply concile_req_l; exact Hd|left; exact Hck].
        - intros q [<-|[]] Hk. congruence. }
      assert (T1 : SInv R st1 (dr ++ [b])).
      { apply (sinv_grow_pos R st st1 dr [b] [concile a b]); auto.
        - apply nreq_single_le. apply concile_req_r.
        - intros p [<-|[]] Hd. exists (concile a b). split; [left; reflexivity|].
          split; [apply concile_req_r; exact Hd|left; exact Hck].
        - intros q [<-|[]] Hk. congruence. }
      destruct (IH rp il ir st1 st' il' ir' (dl ++ [a]) (dr ++ [b]) Hlp Hrp Hil Hir E G1 S1 T1)
        as [pl [pr (C1 & C2 & G2 & S2 & T2 & K2)]].
      exists pl, pr. rewrite <- app_assoc in S2, T2. cbn [app] in S2, T2.
      split; [exact C1|]. split; [exact C2|]. split; [exact G2|]. split; [exact S2|]. split; [exact T2|].
      rewrite K2. exact K.
Qed.


(* ------------------------------------------------------------------ *)
(* zip_pok                                                              *)

Lemma ginv_sides s st : GK st -> GU s st -> GU (flip s) st -> GD st -> GInv st.
Proof. intros A B C D. unfold GInv. destruct s; cbn [flip] in *; auto. Qed.

Lemma ginv_gu o st : GInv st -> GU o st.
Proof. intros (_ & A & B & _). destruct o; assumption. Qed.

Lemma unb_pok1_inv s e st st' ds dt :
  In e (pokargs (myS s)) -> ~ In (pname e) (names_of (m_kwo st)) ->
  unb_pok1 l r s e st = Ok st' ->
  GInv st -> SInv s st ds -> SInv (flip s) st dt ->
  GInv st' /\ SInv s st' (ds ++ [e]) /\ SInv (flip s) st' dt /\
  (forall x, In x (names_of (m_kwo st')) -> In x (names_of (m_kwo st)) \/ x = pname e).
Proof.
  intros He Hfr E G Ss St. pose proof (pk_kind s e He) as Hek.
  destruct G as (GKst & GL & GR & GDst).
  assert (GUs : GU s st) by (destruct s; assumption).
  assert (GUf : GU (flip s) st) by (destruct s; assumption).
  assert (Hstatic : forall y, In y (names_of (unm st s)) -> y <> pname e).
  { intros y Hy E'. apply names_in in Hy. destruct Hy as [p' [Hp' Ey]].
    apply (pk_ko_disj s e p' He); [apply (g_fc _ _ GUs); exact Hp'|congruence]. }
  unfold unb_pok1 in E.
  change (match s with L => R | R => L end) with (flip s) in E.
  destruct (find_param (pname e) (unm st (flip s))) as [q|] eqn:Ef.
  - (* the other side has an unmatched keyword-only parameter of that name *)
    destruct (find_param_In _ _ _ Ef) as [Hq Hqn].
    pose proof (g_fc _ _ GUf q Hq) as Hqko.
    set (c := set_kind KO (concile e q)) in *.
    remember (add_src2 l r
                (set_kwo (set_unm st (flip s) (remove_param (pname e) (unm st (flip s))))
                   (od_set (m_kwo (set_unm st (flip s) (remove_param (pname e) (unm st (flip s))))) c))
                (pname e) (flip s) s) as st1 eqn:Est.
    inversion E; subst st'; clear E.
    assert (K0 : m_kwo st1 = od_set (m_kwo st) c) by (rewrite Est; destruct s; reflexivity).
    assert (K : m_kwo st1 = m_kwo st ++ [c]) by (rewrite K0; apply od_set_snoc; exact Hfr).
    assert (P : RP st1 = RP st) by (rewrite Est; destruct s; reflexivity).
    assert (Us : unm st1 s = unm st s) by (rewrite Est; destruct s; reflexivity).
    assert (Uf : unm st1 (flip s) = remove_param (pname e) (unm st (flip s)))
      by (rewrite Est; destruct s; reflexivity).
    clear Est K0.
    assert (Hcd : has_def e = false \/ has_def q = false -> has_def c = false).
    { intros [H|H]; unfold c; cbn [set_kind has_def pdef];
        [apply (concile_req_l e q H)|apply (concile_req_r e q H)]. }
    assert (Hin : forall o p, In p (unm st1 o) -> In p (unm st o)).
    { intros o p Hp. destruct (side_cases o s) as [-> | ->].
      - rewrite Us in Hp. exact Hp.
      - rewrite Uf in Hp. eapply In_remove. exact Hp. }
    split; [|split; [|split]].
    + apply (ginv_sides s).
      * apply (gk_grow st st1 [] [c]); auto using pstep_same.
        intros p [<-|[]]. reflexivity.
      * apply (gu_grow s st st1 [c]); auto.
        -- rewrite Us. apply (g_fb _ _ GUs).
        -- rewrite Us. intros y Hy [Hc|[]]. apply (Hstatic y Hy). symmetry. exact Hc.
      * apply (gu_grow (flip s) st st1 [c]); auto.
        -- rewrite Uf. apply NoDup_names_remove. apply (g_fb _ _ GUf).
        -- rewrite Uf. intros y Hy [Hc|[]]. apply names_remove in Hy. destruct Hy as [Hy _].
           apply Hy. symmetry. exact Hc.
      * apply (gd_grow st st1); auto.
    + apply (sinv_grow s st st1 ds [e] [] [c]); auto using pstep_same.
      * destruct (has_def e) eqn:Ed.
        -- left. rewrite nreq_cons, Ed, nreq_nil. lia.
        -- right. exists c. split; [left; reflexivity|apply Hcd; left; reflexivity].
      * left. cbn. lia.
      * intros p [<-|[]] Hd. right. split; [exact Hek|]. exists c.
        split; [left; reflexivity|]. split; [apply Hcd; left; exact Hd|reflexivity].
      * intros p [[[] _]|[<-|[]]]. left. apply (kwp_pk s e He).
      * intros p _ _ Hf. left. rewrite Us. exact Hf.
    + rewrite <- (app_nil_r dt). apply (sinv_grow (flip s) st st1 dt [] [] [c]); auto using pstep_same.
      * intros p [].
      * intros p [[[] _]|[<-|[]]]. left. change (pname c) with (pname e). rewrite <- Hqn.
        apply (kwp_ko (flip s) q Hqko).
      * intros p Hp Hd Hf. destruct (N.eq_dec (pname p) (pname e)) as [En|En].
        -- right. rewrite En, Ef in Hf. inversion Hf; subst q. exists c.
           split; [left; reflexivity|]. split; [apply Hcd; right; exact Hd|]. symmetry. exact En.
        -- left. rewrite Uf. rewrite find_param_remove_other; [exact Hf|]. intros En'. apply En. symmetry. exact En'.
    + intros x Hx. rewrite K, names_app in Hx. apply in_app_or in Hx. destruct Hx as [Hx|[Hx|[]]]; [left; exact Hx|].
      right. symmetry. exact Hx.
  - destruct (isSome (varargs (other l r s)) && isSome (varkwargs (other l r s))) eqn:Eb.
    + (* both stars on the other side: stays positional-or-keyword *)
      apply andb_true_iff in Eb. destruct Eb as [Eva Evk]. rewrite other_flip in Eva, Evk.
      remember (add_src1 l r (set_pok st (m_pok st ++ [e])) (pname e) s) as st1 eqn:Est.
      inversion E; subst st'; clear E.
      assert (P : pstep (RP st) (RP st1) [e]) by (apply pstep_pok; rewrite Est; reflexivity).
      assert (K : m_kwo st1 = m_kwo st) by (rewrite Est; reflexivity).
      assert (U : forall o, unm st1 o = unm st o) by (intros o; rewrite Est; destruct o; reflexivity).
      clear Est. split; [|split; [|split]].
      * apply (ginv_grow_pos st st1 [e]); auto; [|unfold GInv; auto].
        intros p [<-|[]]. apply positional_kind. auto.
      * apply (sinv_grow_pos s st st1 ds [e] [e]); auto.
        -- intros p [<-|[]] Hd. exists e. split; [left; reflexivity|]. split; [exact Hd|right; auto].
        -- intros p [<-|[]] _. left. apply (kwp_pk s e He).
      * rewrite <- (app_nil_r dt). apply (sinv_grow_pos (flip s) st st1 dt [] [e]); auto.
        -- rewrite nreq_nil. lia.
        -- intros p [].
      * intros x Hx. left. rewrite K in Hx. exact Hx.
    + destruct (isSome (varkwargs (other l r s))) eqn:Evk.
      * (* star-kwargs only: becomes keyword-only *)
        rewrite other_flip in Evk.
        set (c := set_kind KO e) in *.
        remember (add_src1 l r (set_kwo st (od_set (m_kwo st) c)) (pname e) s) as st1 eqn:Est.
        inversion E; subst st'; clear E.
        assert (K0 : m_kwo st1 = od_set (m_kwo st) c) by (rewrite Est; reflexivity).
        assert (K : m_kwo st1 = m_kwo st ++ [c]) by (rewrite K0; apply od_set_snoc; exact Hfr).
        assert (P : RP st1 = RP st) by (rewrite Est; reflexivity).
        assert (U : forall o, unm st1 o = unm st o) by (intros o; rewrite Est; destruct o; reflexivity).
        clear Est K0.
        apply find_param_None in Ef.
        split; [|split; [|split]].
        -- apply (ginv_sides s).
           ++ apply (gk_grow st st1 [] [c]); auto using pstep_same.
              intros p [<-|[]]. reflexivity.
           ++ apply (gu_grow s st st1 [c]); auto.
              ** rewrite U. auto.
              ** rewrite U. apply (g_fb _ _ GUs).
              ** rewrite U. intros y Hy [Hc|[]]. apply (Hstatic y Hy). symmetry. exact Hc.
           ++ apply (gu_grow (flip s) st st1 [c]); auto.
              ** rewrite U. auto.
              ** rewrite U. apply (g_fb _ _ GUf).
              ** rewrite U. intros y Hy [Hc|[]]. apply Ef. change (pname c) with (pname e) in Hc.
                 rewrite Hc. exact Hy.
           ++ apply (gd_grow st st1); auto. intros o p. rewrite U. auto.
        -- apply (sinv_grow s st st1 ds [e] [] [c]); auto using pstep_same.
           ++ destruct (has_def e) eqn:Ed.
              ** left. rewrite nreq_cons, Ed, nreq_nil. lia.
              ** right. exists c. split; [left; reflexivity|exact Ed].
           ++ left. cbn. lia.
           ++ intros p [<-|[]] Hd. right. split; [exact Hek|]. exists c.
              split; [left; reflexivity|]. split; [exact Hd|reflexivity].
           ++ intros p [[[] _]|[<-|[]]]. left. apply (kwp_pk s e He).
           ++ intros p _ _ Hf. left. rewrite U. exact Hf.
        -- rewrite <- (app_nil_r dt). apply (sinv_grow (flip s) st st1 dt [] [] [c]); auto using pstep_same.
           ++ intros p [].
           ++ intros p _ _ Hf. left. rewrite U. exact Hf.
        -- intros x Hx. rewrite K, names_app in Hx. apply in_app_or in Hx.
           destruct Hx as [Hx|[Hx|[]]]; [left; exact Hx|]. right. symmetry. exact Hx.
      * destruct (isSome (varargs (other l r s))) eqn:Eva.
        -- (* star-args only: everything so far becomes positional-only *)
           rewrite other_flip in Eva.
           remember (add_src1 l r
                       (set_pok (set_pos st (m_pos st ++ map (set_kind PO) (m_pok st) ++ [set_kind PO e])) [])
                       (pname e) s) as st1 eqn:Est.
           inversion E; subst st'; clear E.
           assert (P : pstep (RP st) (RP st1) [set_kind PO e])
             by (apply pstep_conv_pos; rewrite Est; reflexivity).
           assert (K : m_kwo st1 = m_kwo st) by (rewrite Est; reflexivity).
           assert (U : forall o, unm st1 o = unm st o) by (intros o; rewrite Est; destruct o; reflexivity).
           clear Est. split; [|split; [|split]].
           ++ apply (ginv_grow_pos st st1 [set_kind PO e]); auto; [|unfold GInv; auto].
              intros p [<-|[]]. reflexivity.
           ++ apply (sinv_grow_pos s st st1 ds [e] [set_kind PO e]); auto.
              ** apply nreq_single_le. intros H. exact H.
              ** intros p [<-|[]] Hd. exists (set_kind PO e). split; [left; reflexivity|].
                 split; [exact Hd|left; reflexivity].
              ** intros p [<-|[]] Hk. cbn in Hk. discriminate.
           ++ rewrite <- (app_nil_r dt). apply (sinv_grow_pos (flip s) st st1 dt [] [set_kind PO e]); auto.
              ** rewrite nreq_nil. lia.
              ** intros p [].
              ** intros p [<-|[]] Hk. cbn in Hk. discriminate.
           ++ intros x Hx. left. rewrite K in Hx. exact Hx.
        -- destruct (negb (has_def e)) eqn:Ed; [discriminate|]. inversion E; subst st'; clear E.
           apply negb_false_iff in Ed.
           split; [unfold GInv; auto|]. split; [|split; [exact St|auto]].
           apply (sinv_grow_pos s st st ds [e] []); auto using pstep_refl.
           ++ rewrite nreq_cons, Ed, nreq_nil. lia.
           ++ left. cbn. lia.
           ++ intros p [<-|[]] Hd. congruence.
Qed.

(* ------------------------------------------------------------------ *)
(* what the next fold step needs of a result: bucket kinds and distinct
   keyword-passable names                                               *)

Lemma NoDup_app_intro {A} (a b : list A) :
  NoDup a -> NoDup b -> (forall x, In x a -> ~ In x b) -> NoDup (a ++ b).
Proof.
  induction a as [|x a IH]; intros Ha Hb Hd; [exact Hb|].
  inversion Ha as [|? ? Hx Ha']; subst. cbn [app]. constructor.
  - intros Hin. apply in_app_or in Hin. destruct Hin as [Hin|Hin]; [contradiction|].
    apply (Hd x); [left; reflexivity|exact Hin].
  - apply IH; auto. intros y Hy. apply Hd. right. exact Hy.
Qed.

Lemma NoDup_single {A} (x : A) : NoDup [x].
Proof. constructor; [intros []|constructor]. Qed.

Lemma NoDup_end_snoc {A} (a b : list A) x :
  NoDup (a ++ b) -> ~ In x a -> ~ In x b -> NoDup (a ++ b ++ [x]).
Proof.
  intros H Ha Hb. rewrite app_assoc. apply NoDup_app_intro; [exact H|apply NoDup_single|].
  intros y Hy [<-|[]]. apply in_app_or in Hy. tauto.
Qed.

Lemma NoDup_mid_snoc {A} (a b : list A) x :
  NoDup (a ++ b) -> ~ In x a -> ~ In x b -> NoDup ((a ++ [x]) ++ b).
Proof.
  intros H Ha Hb. apply NoDup_app_intro.
  - apply NoDup_app_intro; [eapply nodup_app_l; exact H|apply NoDup_single|].
    intros y Hy [<-|[]]. contradiction.
  - eapply nodup_app_r. exact H.
  - intros y Hy Hyb. apply in_app_or in Hy. destruct Hy as [Hy|[<-|[]]]; [|contradiction].
    exact (nodup_app_disjoint _ _ y H Hy Hyb).
Qed.

Definition isPO (p : param) : Prop := pkind p = PO.
Definition isPK (p : param) : Prop := pkind p = PK.

Lemma filter_pk_po a : Forall isPO a -> filter (is_kind PK) a = [].
Proof.
  intros H. apply filter_none. rewrite Forall_forall in H. intros x Hx.
  unfold is_kind. rewrite (H x Hx). reflexivity.
Qed.

Lemma filter_pk_pk b : Forall isPK b -> filter (is_kind PK) b = b.
Proof.
  intros H. apply filter_all. rewrite Forall_forall in H. intros x Hx.
  unfold is_kind. rewrite (H x Hx). reflexivity.
Qed.

Lemma Forall_map_po (xs : list param) : Forall isPO (map (set_kind PO) xs).
Proof. induction xs; cbn [map]; constructor; [reflexivity|assumption]. Qed.

Definition pkn (st : mstate) : list name := names_of (filter (is_kind PK) (m_pok st)).
Definition pkpat (ps : list param) : Prop :=
  exists a b, ps = a ++ b /\ Forall isPO a /\ Forall isPK b.

Record AInv (st : mstate) (rem : list param) : Prop := mkA {
  a_pos : Forall isPO (m_pos st);
  a_pat : pkpat (m_pok st);
  a_nd : NoDup (pkn st ++ names_of (m_kwo st));
  a_rem : forall x, In x (pkn st) -> ~ In x (names_of rem);
  a_unm : forall o y, In y (names_of (unm st o)) -> ~ In y (pkn st)
}.

Lemma ainv_weaken st rem rem' : incl rem' rem -> AInv st rem -> AInv st rem'.
Proof.
  intros Hi [A1 A2 A3 A4 A5]. constructor; auto.
  intros x Hx Hc. apply (A4 x Hx). apply names_in in Hc. destruct Hc as [p [Hp <-]].
  apply in_names. apply Hi. exact Hp.
Qed.

(* the positional-only zip leaves m_pok, m_kwo and the unmatched lists alone *)
Lemma unb_pos1_frame s e conv st st' conv' :
  pkind e = PO -> unb_pos1 l r s e conv st = Ok (st', conv') -> Forall isPO (m_pos st) ->
  Forall isPO (m_pos st') /\ m_pok st' = m_pok st /\ m_kwo st' = m_kwo st /\
  (forall o, unm st' o = unm st o).
Proof.
  intros Hek E HP. unfold unb_pos1 in E. destruct conv as [|o conv0].
  - destruct (isSome (varargs (other l r s))).
    + inversion E; subst st' conv'; clear E. split; [|split; [|split]].
      * destruct s; cbn; apply Forall_app; split; auto; constructor; auto.
      * destruct s; reflexivity.
      * destruct s; reflexivity.
      * intros o; destruct s, o; reflexivity.
    + destruct (negb (has_def e)); [discriminate|]. inversion E; subst st' conv'. auto.
  - inversion E; subst st' conv'; clear E.
    destruct (N.eqb (pname o) (pname e)); (split; [|split; [|split]]);
      try reflexivity; try (intros o'; destruct o'; reflexivity);
      cbn; apply Forall_app; split; auto; constructor; auto; exact Hek.
Qed.

Lemma unb_pos_all_frame s ps : forall conv st st' conv',
  incl ps (posargs (myS s)) -> unb_pos_all l r s ps conv st = Ok (st', conv') -> Forall isPO (m_pos st) ->
  Forall isPO (m_pos st') /\ m_pok st' = m_pok st /\ m_kwo st' = m_kwo st /\
  (forall o, unm st' o = unm st o).
Proof.
  induction ps as [|e ps IH]; intros conv st st' conv' Hps E HP.
  - cbn [unb_pos_all] in E. inversion E; subst. auto.
  - cbn [unb_pos_all] in E. apply bind_ok in E. destruct E as [[st1 conv1] [E1 E2]]. cbn [fst snd] in E2.
    apply incl_cons_l in Hps. destruct Hps as [He Hps].
    destruct (unb_pos1_frame s e conv st st1 conv1 (po_kind s e He) E1 HP) as (A & B & C & D).
    destruct (IH conv1 st1 st' conv' Hps E2 A) as (A' & B' & C' & D').
    split; [exact A'|]. split; [congruence|]. split; [congruence|]. intros o. rewrite D', D. reflexivity.
Qed.

Lemma zip_pos_frame lp : forall rp il ir st st' il' ir',
  incl lp (posargs l) -> incl rp (posargs r) ->
  zip_pos l r lp rp il ir st = Ok (st', il', ir') -> Forall isPO (m_pos st) ->
  Forall isPO (m_pos st') /\ m_pok st' = m_pok st /\ m_kwo st' = m_kwo st /\
  (forall o, unm st' o = unm st o).
Proof.
  induction lp as [|a lp IH]; intros rp il ir st st' il' ir' Hlp Hrp E HP.
  - cbn [zip_pos] in E. apply bind_ok in E. destruct E as [[st1 conv1] [E1 E2]]. cbn [fst snd] in E2.
    inversion E2; subst st' il' ir'. exact (unb_pos_all_frame R rp il st st1 conv1 Hrp E1 HP).
  - destruct rp as [|b rp].
    + cbn [zip_pos] in E. apply bind_ok in E. destruct E as [[st1 conv1] [E1 E2]]. cbn [fst snd] in E2.
      inversion E2; subst st' il' ir'. exact (unb_pos_all_frame L (a :: lp) ir st st1 conv1 Hlp E1 HP).
    + cbn [zip_pos] in E.
      apply incl_cons_l in Hlp. destruct Hlp as [Ha Hlp]. apply incl_cons_l in Hrp. destruct Hrp as [Hb Hrp].
      pose proof (po_kind L a Ha) as Hak.
      match type of E with zip_pos l r lp rp il ir ?s = _ => remember s as st1 eqn:Est end.
      assert (F : Forall isPO (m_pos st1) /\ m_pok st1 = m_pok st /\ m_kwo st1 = m_kwo st /\
                  (forall o, unm st1 o = unm st o)).
      { rewrite Est. destruct (N.eqb (pname a) (pname b)); (split; [|split; [|split]]);
          try reflexivity; try (intros o'; destruct o'; reflexivity);
          cbn; apply Forall_app; split; auto; constructor; auto; exact Hak. }
      clear Est. destruct F as (A & B & C & D).
      destruct (IH rp il ir st1 st' il' ir' Hlp Hrp E A) as (A' & B' & C' & D').
      split; [exact A'|]. split; [congruence|]. split; [congruence|]. intros o. rewrite D', D. reflexivity.
Qed.

(* the four outcomes of _merge_unbalanced_pok *)
Lemma unb_pok1_shape s e st st' :
  unb_pok1 l r s e st = Ok st' ->
  (exists q, find_param (pname e) (unm st (flip s)) = Some q /\
     m_pos st' = m_pos st /\ m_pok st' = m_pok st /\
     m_kwo st' = od_set (m_kwo st) (set_kind KO (concile e q)) /\
     unm st' s = unm st s /\ unm st' (flip s) = remove_param (pname e) (unm st (flip s)))
  \/ (find_param (pname e) (unm st (flip s)) = None /\ (forall o, unm st' o = unm st o) /\
      ((m_pos st' = m_pos st /\ m_pok st' = m_pok st ++ [e] /\ m_kwo st' = m_kwo st)
       \/ (m_pos st' = m_pos st /\ m_pok st' = m_pok st /\ m_kwo st' = od_set (m_kwo st) (set_kind KO e))
       \/ (m_pos st' = m_pos st ++ map (set_kind PO) (m_pok st) ++ [set_kind PO e] /\ m_pok st' = [] /\
           m_kwo st' = m_kwo st)
       \/ st' = st)).
Proof.
  unfold unb_pok1. change (match s with L => R | R => L end) with (flip s).
  destruct (find_param (pname e) (unm st (flip s))) as [q|] eqn:Ef.
  - intros E. inversion E; subst st'; clear E. left. exists q. split; [reflexivity|].
    destruct s; cbn; auto 10.
  - intros E. right. split; [reflexivity|].
    destruct (isSome (varargs (other l r s)) && isSome (varkwargs (other l r s))).
    { inversion E; subst st'. split; [intros o; destruct o; reflexivity|]. left. auto. }
    destruct (isSome (varkwargs (other l r s))).
    { inversion E; subst st'. split; [intros o; destruct o; reflexivity|]. right. left. auto. }
    destruct (isSome (varargs (other l r s))).
    { inversion E; subst st'. split; [intros o; destruct o; reflexivity|]. right. right. left. auto. }
    destruct (negb (has_def e)); [discriminate|]. inversion E; subst st'. auto 10.
Qed.

Lemma pkn_same st st' : m_pok st' = m_pok st -> pkn st' = pkn st.
Proof. unfold pkn. intros ->. reflexivity. Qed.

Lemma pkn_snoc st st' e : m_pok st' = m_pok st ++ [e] -> pkind e = PK -> pkn st' = pkn st ++ [pname e].
Proof.
  unfold pkn. intros -> Hk. rewrite filter_app, names_app. cbn [filter]. unfold is_kind at 2.
  rewrite Hk. reflexivity.
Qed.

Lemma pkpat_snoc ps e : pkpat ps -> pkind e = PK -> pkpat (ps ++ [e]).
Proof.
  intros (a & b & -> & Ha & Hb) Hk. exists a, (b ++ [e]). rewrite app_assoc. split; [reflexivity|].
  split; [exact Ha|]. apply Forall_app. split; [exact Hb|constructor; [exact Hk|constructor]].
Qed.

Lemma pkpat_po ps : Forall isPO ps -> pkpat ps.
Proof. intros H. exists ps, []. rewrite app_nil_r. repeat split; auto. Qed.

Lemma unb_pok1_acc s e ps st st' :
  In e (pokargs (myS s)) -> NoDup (names_of (e :: ps)) ->
  ~ In (pname e) (names_of (m_kwo st)) ->
  unb_pok1 l r s e st = Ok st' ->
  GU s st -> AInv st (e :: ps) -> AInv st' ps.
Proof.
  intros He Hn Hfr E GUs [A1 A2 A3 A4 A5]. pose proof (pk_kind s e He) as Hek.
  cbn [names_of map] in Hn. inversion Hn as [|? ? Hne Hn']; subst.
  assert (Hx : ~ In (pname e) (pkn st)).
  { intros Hc. apply (A4 _ Hc). left. reflexivity. }
  assert (A4' : forall x, In x (pkn st) -> ~ In x (names_of ps)).
  { intros x Hx' Hc. apply (A4 x Hx'). right. exact Hc. }
  destruct (unb_pok1_shape s e st st' E) as [[q (Ef & P1 & P2 & K & Us & Uf)]|(Ef & U & Hcases)].
  - rewrite (od_set_snoc (m_kwo st) (set_kind KO (concile e q)) Hfr) in K. constructor.
    + rewrite P1. exact A1.
    + rewrite P2. exact A2.
    + rewrite (pkn_same _ _ P2), K, names_app. apply NoDup_end_snoc; assumption.
    + rewrite (pkn_same _ _ P2). exact A4'.
    + rewrite (pkn_same _ _ P2). intros o y Hy. apply (A5 o).
      destruct (side_cases o s) as [-> | ->]; [rewrite Us in Hy; exact Hy|].
      rewrite Uf in Hy. apply names_remove in Hy. tauto.
  - destruct Hcases as [(P1 & P2 & K)|[(P1 & P2 & K)|[(P1 & P2 & K)| ->]]].
    + (* stays positional-or-keyword *)
      constructor.
      * rewrite P1. exact A1.
      * rewrite P2. apply pkpat_snoc; assumption.
      * rewrite (pkn_snoc _ _ _ P2 Hek), K. apply NoDup_mid_snoc; assumption.
      * rewrite (pkn_snoc _ _ _ P2 Hek). intros x Hx' Hc. apply in_app_or in Hx'.
        destruct Hx' as [Hx'|[<-|[]]]; [exact (A4' x Hx' Hc)|contradiction].
      * rewrite (pkn_snoc _ _ _ P2 Hek). intros o y Hy Hc. rewrite U in Hy. apply in_app_or in Hc.
        destruct Hc as [Hc|[<-|[]]]; [exact (A5 o y Hy Hc)|].
        destruct (side_cases o s) as [-> | ->].
        -- apply names_in in Hy. destruct Hy as [p' [Hp' Ey]].
           apply (pk_ko_disj s e p' He); [apply (g_fc _ _ GUs); exact Hp'|congruence].
        -- apply find_param_None in Ef. contradiction.
    + (* becomes keyword-only *)
      rewrite (od_set_snoc (m_kwo st) (set_kind KO e) Hfr) in K. constructor.
      * rewrite P1. exact A1.
      * rewrite P2. exact A2.
      * rewrite (pkn_same _ _ P2), K, names_app. apply NoDup_end_snoc; assumption.
      * rewrite (pkn_same _ _ P2). exact A4'.
      * rewrite (pkn_same _ _ P2). intros o y Hy. rewrite U in Hy. exact (A5 o y Hy).
    + (* everything becomes positional-only *)
      assert (Epk : pkn st' = []) by (unfold pkn; rewrite P2; reflexivity).
      constructor.
      * rewrite P1. apply Forall_app. split; [exact A1|]. apply Forall_app. split; [apply Forall_map_po|].
        constructor; [reflexivity|constructor].
      * rewrite P2. apply pkpat_po. constructor.
      * rewrite Epk, K. cbn [app]. eapply nodup_app_r. exact A3.
      * rewrite Epk. intros x [].
      * rewrite Epk. intros o y _ [].
    + constructor; auto.
Qed.


Lemma unb_pok_all_inv s ps : forall st st' ds dt,
  NoDup (names_of ps) -> incl ps (pokargs (myS s)) ->
  (forall x, In x (names_of ps) -> ~ In x (names_of (m_kwo st))) ->
  unb_pok_all l r s ps st = Ok st' ->
  GInv st -> SInv s st ds -> SInv (flip s) st dt -> AInv st ps ->
  GInv st' /\ SInv s st' (ds ++ ps) /\ SInv (flip s) st' dt /\ AInv st' [].
Proof.
  induction ps as [|e ps IH]; intros st st' ds dt Hn Hps Hfr E G Ss St A.
  - cbn [unb_pok_all] in E. inversion E; subst st'. rewrite app_nil_r. auto.
  - cbn [unb_pok_all] in E. apply bind_ok in E. destruct E as [st1 [E1 E2]].
    apply incl_cons_l in Hps. destruct Hps as [He Hps].
    assert (Hfe : ~ In (pname e) (names_of (m_kwo st))) by (apply Hfr; left; reflexivity).
    pose proof (unb_pok1_acc s e ps st st1 He Hn Hfe E1 (ginv_gu s st G) A) as A1.
    cbn [names_of map] in Hn. inversion Hn as [|? ? Hne Hn']; subst.
    destruct (unb_pok1_inv s e st st1 ds dt He Hfe E1 G Ss St) as (G1 & S1 & T1 & Hk1).
    assert (Hfr1 : forall x, In x (names_of ps) -> ~ In x (names_of (m_kwo st1))).
    { intros x Hx Hc. destruct (Hk1 x Hc) as [Hc'| ->].
      - apply (Hfr x); [right; exact Hx|exact Hc'].
      - apply Hne. exact Hx. }
    destruct (IH st1 st' (ds ++ [e]) dt Hn' Hps Hfr1 E2 G1 S1 T1 A1) as (G2 & S2 & T2 & A2).
    rewrite <- app_assoc in S2. cbn [app] in S2. auto.
Qed.

Lemma nodup_names_cons (p : param) ps : NoDup (names_of (p :: ps)) -> NoDup (names_of ps).
Proof. cbn [names_of map]. intros H. inversion H; assumption. Qed.

Lemma zip_pok_inv il : forall ir st st' dl dr,
  NoDup (names_of il) -> NoDup (names_of ir) -> incl il (pokargs l) -> incl ir (pokargs r) ->
  (forall x, In x (names_of (m_kwo st)) -> In x (names_of (kwoargs l)) /\ In x (names_of (kwoargs r))) ->
  zip_pok l r il ir st = Ok st' ->
  GInv st -> SInv L st dl -> SInv R st dr -> AInv st (il ++ ir) ->
  GInv st' /\ SInv L st' (dl ++ il) /\ SInv R st' (dr ++ ir) /\ AInv st' [].
Proof.
  assert (Hfresh : forall o ps st,
            incl ps (pokargs (myS o)) ->
            (forall x, In x (names_of (m_kwo st)) -> In x (names_of (kwoargs l)) /\ In x (names_of (kwoargs r))) ->
            forall x, In x (names_of ps) -> ~ In x (names_of (m_kwo st))).
  { intros o ps st Hps Hk x Hx Hc. apply names_in in Hx. destruct Hx as [e [He <-]].
    assert (Hko : In (pname e) (names_of (kwoargs (myS o)))) by (destruct (Hk _ Hc); destruct o; assumption).
    apply names_in in Hko. destruct Hko as [p [Hp Ep]].
    apply (pk_ko_disj o e p (Hps e He) Hp). symmetry. exact Ep. }
  induction il as [|a il IH]; intros ir st st' dl dr Nil Nir Hil Hir Hk E G SL SR A.
  - cbn [zip_pok] in E. cbn [app] in A.
    destruct (unb_pok_all_inv R ir st st' dr dl Nir Hir (Hfresh R ir st Hir Hk) E G SR SL A) as (G1 & S1 & T1 & A1).
    rewrite app_nil_r. auto.
  - destruct ir as [|b ir].
    + cbn [zip_pok] in E. rewrite app_nil_r in A.
      destruct (unb_pok_all_inv L (a :: il) st st' dl dr Nil Hil (Hfresh L (a :: il) st Hil Hk) E G SL SR A)
        as (G1 & S1 & T1 & A1).
      rewrite app_nil_r. auto.
    + cbn [zip_pok] in E.
      pose proof (Hfresh L (a :: il) st Hil Hk (pname a) (or_introl eq_refl)) as Hfa.
      apply incl_cons_l in Hil. destruct Hil as [Ha Hil]. apply incl_cons_l in Hir. destruct Hir as [Hb Hir].
      pose proof (pk_kind L a Ha) as Hak. pose proof (pk_kind R b Hb) as Hbk.
      assert (Hna : ~ In (pname a) (names_of il)) by (cbn [names_of map] in Nil; inversion Nil; assumption).
      assert (Hnb : ~ In (pname b) (names_of ir)) by (cbn [names_of map] in Nir; inversion Nir; assumption).
      apply nodup_names_cons in Nil. apply nodup_names_cons in Nir.
      destruct A as [A1 A2 A3 A4 A5].
      assert (A4' : forall x, In x (pkn st) -> ~ In x (names_of (il ++ ir))).
      { intros x Hx Hc. apply (A4 x Hx). rewrite names_app in Hc. rewrite names_app. cbn [names_of map].
        apply in_app_or in Hc. destruct Hc as [Hc|Hc]; [apply in_or_app; left; right; exact Hc|].
        apply in_or_app. right. right. exact Hc. }
      destruct (N.eqb_spec (pname a) (pname b)) as [Eab|Nab].
      * remember (add_src2 l r (set_pok st (m_pok st ++ [concile a b])) (pname a) L R) as st1 eqn:Est.
        assert (P1 : m_pos st1 = m_pos st) by (rewrite Est; reflexivity).
        assert (P2 : m_pok st1 = m_pok st ++ [concile a b]) by (rewrite Est; reflexivity).
        assert (P : pstep (RP st) (RP st1) [concile a b]) by (apply pstep_pok; assumption).
        assert (K : m_kwo st1 = m_kwo st) by (rewrite Est; reflexivity).
        assert (U : forall o', unm st1 o' = unm st o') by (intros o'; rewrite Est; destruct o'; reflexivity).
        clear Est.
        assert (Hck : pkind (concile a b) = PK) by exact Hak.
        assert (G1 : GInv st1).
        { apply (ginv_grow_pos st st1 [concile a b]); auto.
          intros q [<-|[]]. apply positional_kind. auto. }
        assert (S1 : SInv L st1 (dl ++ [a])).
        { apply (sinv_grow_pos L st st1 dl [a] [concile a b]); auto.
          - apply nreq_single_le. apply concile_req_l.
          - intros p [<-|[]] Hd. exists (concile a b). split; [left; reflexivity|].
            split; [apply concile_req_l; exact Hd|right; auto].
          - intros q [<-|[]] _. left. apply (kwp_pk L a Ha). }
        assert (T1 : SInv R st1 (dr ++ [b])).
        { apply (sinv_grow_pos R st st1 dr [b] [concile a b]); auto.
          - apply nreq_single_le. apply concile_req_r.
          - intros p [<-|[]] Hd. exists (concile a b). split; [left; reflexivity|].
            split; [apply concile_req_r; exact Hd|right; auto].
          - intros q [<-|[]] _. left. change (pname (concile a b)) with (pname a). rewrite Eab.
            apply (kwp_pk R b Hb). }
        assert (B1 : AInv st1 (il ++ ir)).
        { assert (Epk : pkn st1 = pkn st ++ [pname a]) by (apply (pkn_snoc st st1 (concile a b) P2 Hck)).
          assert (Hx : ~ In (pname a) (pkn st)).
          { intros Hc. apply (A4 _ Hc). rewrite names_app. apply in_or_app. left. left. reflexivity. }
          constructor.
          - rewrite P1. exact A1.
          - rewrite P2. apply pkpat_snoc; assumption.
          - rewrite Epk, K. apply NoDup_mid_snoc; assumption.
          - rewrite Epk. intros x Hx' Hc. apply in_app_or in Hx'.
            destruct Hx' as [Hx'|[<-|[]]]; [exact (A4' x Hx' Hc)|].
            rewrite names_app in Hc. apply in_app_or in Hc. destruct Hc as [Hc|Hc]; [contradiction|].
            rewrite Eab in Hc. contradiction.
          - rewrite Epk. intros o y Hy Hc. rewrite U in Hy. apply in_app_or in Hc.
            destruct Hc as [Hc|[<-|[]]]; [exact (A5 o y Hy Hc)|].
            apply names_in in Hy. destruct Hy as [p' [Hp' Ey]].
            pose proof (g_fc _ _ (ginv_gu o st G) p' Hp') as Hko. destruct o.
            + apply (pk_ko_disj L a p' Ha Hko). congruence.
            + apply (pk_ko_disj R b p' Hb Hko). congruence. }
        assert (Hk1 : forall x, In x (names_of (m_kwo st1)) ->
                                In x (names_of (kwoargs l)) /\ In x (names_of (kwoargs r)))
          by (rewrite K; exact Hk).
        destruct (IH ir st1 st' (dl ++ [a]) (dr ++ [b]) Nil Nir Hil Hir Hk1 E G1 S1 T1 B1) as (G2 & S2 & T2 & B2).
        rewrite <- app_assoc in S2, T2. cbn [app] in S2, T2. auto.
      * remember (add_src1 l r
                    (set_pok st (map (set_kind PO) (m_pok st) ++ [set_kind PO (concile a b)]))
                    (pname a) L) as st1 eqn:Est.
        assert (P1 : m_pos st1 = m_pos st) by (rewrite Est; reflexivity).
        assert (P2 : m_pok st1 = map (set_kind PO) (m_pok st) ++ [set_kind PO (concile a b)])
          by (rewrite Est; reflexivity).
        assert (P : pstep (RP st) (RP st1) [set_kind PO (concile a b)])
          by (apply pstep_conv_pok; assumption).
        assert (K : m_kwo st1 = m_kwo st) by (rewrite Est; reflexivity).
        assert (U : forall o', unm st1 o' = unm st o') by (intros o'; rewrite Est; destruct o'; reflexivity).
        clear Est.
        assert (G1 : GInv st1).
        { apply (ginv_grow_pos st st1 [set_kind PO (concile a b)]); auto.
          intros q [<-|[]]. reflexivity. }
        assert (S1 : SInv L st1 (dl ++ [a])).
        { apply (sinv_grow_pos L st st1 dl [a] [set_kind PO (concile a b)]); auto.
          - apply nreq_single_le. intros H. apply (concile_req_l a b H).
          - intros p [<-|[]] Hd. exists (set_kind PO (concile a b)). split; [left; reflexivity|].
            split; [apply (concile_req_l a b Hd)|left; reflexivity].
          - intros q [<-|[]] Hq. cbn in Hq. discriminate. }
        assert (T1 : SInv R st1 (dr ++ [b])).
        { apply (sinv_grow_pos R st st1 dr [b] [set_kind PO (concile a b)]); auto.
          - apply nreq_single_le. intros H. apply (concile_req_r a b H).
          - intros p [<-|[]] Hd. exists (set_kind PO (concile a b)). split; [left; reflexivity|].
            split; [apply (concile_req_r a b Hd)|left; reflexivity].
          - intros q [<-|[]] Hq. cbn in Hq. discriminate. }
        assert (B1 : AInv st1 (il ++ ir)).
        { assert (HPO : Forall isPO (m_pok st1)).
          { rewrite P2. apply Forall_app. split; [apply Forall_map_po|constructor; [reflexivity|constructor]]. }
          assert (Epk : pkn st1 = []) by (unfold pkn; rewrite (filter_pk_po _ HPO); reflexivity).
          constructor.
          - rewrite P1. exact A1.
          - apply pkpat_po. exact HPO.
          - rewrite Epk, K. cbn [app]. eapply nodup_app_r. exact A3.
          - rewrite Epk. intros x [].
          - rewrite Epk. intros o y _ []. }
        assert (Hk1 : forall x, In x (names_of (m_kwo st1)) ->
                                In x (names_of (kwoargs l)) /\ In x (names_of (kwoargs r)))
          by (rewrite K; exact Hk).
        destruct (IH ir st1 st' (dl ++ [a]) (dr ++ [b]) Nil Nir Hil Hir Hk1 E G1 S1 T1 B1) as (G2 & S2 & T2 & B2).
        rewrite <- app_assoc in S2, T2. cbn [app] in S2, T2. auto.
Qed.

(* ------------------------------------------------------------------ *)
(* the keyword-only matching stage: initial invariants                  *)

Definition matched (lk : list param) : list param :=
  flat_map (fun p => match find_param (pname p) (kwoargs r) with
                     | Some q => [concile p q] | None => [] end) lk.
Definition lunmatched (lk : list param) : list param :=
  filter (fun p => negb (isSome (find_param (pname p) (kwoargs r)))) lk.

Lemma kwo_match_spec lk : forall st,
  NoDup (names_of lk) ->
  (forall x, In x (names_of lk) -> ~ In x (names_of (m_kwo st)) /\ ~ In x (names_of (m_lunm st))) ->
  m_kwo (kwo_match l r lk st) = m_kwo st ++ matched lk /\
  m_lunm (kwo_match l r lk st) = m_lunm st ++ lunmatched lk /\
  m_pos (kwo_match l r lk st) = m_pos st /\ m_pok (kwo_match l r lk st) = m_pok st /\
  m_runm (kwo_match l r lk st) = m_runm st.
Proof.
  induction lk as [|p lk IH]; intros st Hn Hfr.
  - cbn [kwo_match matched lunmatched flat_map filter]. rewrite !app_nil_r. auto.
  - cbn [names_of map] in Hn. inversion Hn as [|? ? Hp Hn']; subst.
    destruct (Hfr (pname p) (or_introl eq_refl)) as [F1 F2].
    cbn [kwo_match matched lunmatched flat_map filter].
    destruct (find_param (pname p) (kwoargs r)) as [q|] eqn:Ef; cbn [isSome negb].
    + match goal with |- context [kwo_match l r lk ?s] => set (st1 := s) end.
      assert (K1 : m_kwo st1 = m_kwo st ++ [concile p q]).
      { unfold st1. cbn [set_src set_kwo m_kwo]. apply od_set_snoc. exact F1. }
      assert (L1 : m_lunm st1 = m_lunm st) by reflexivity.
      destruct (IH st1 Hn') as (A & B & C & D & E).
      { intros x Hx. rewrite K1, L1, names_app. split.
        - intros Hc. apply in_app_or in Hc. destruct Hc as [Hc|[Hc|[]]].
          + apply (proj1 (Hfr x (or_intror Hx))). exact Hc.
          + apply Hp. change (pname (concile p q)) with (pname p) in Hc. rewrite Hc. exact Hx.
        - apply (proj2 (Hfr x (or_intror Hx))). }
      rewrite A, B, C, D, E, K1, L1. fold (matched lk). fold (lunmatched lk).
      rewrite <- app_assoc. repeat split; reflexivity.
    + match goal with |- context [kwo_match l r lk ?s] => set (st1 := s) end.
      assert (K1 : m_kwo st1 = m_kwo st) by reflexivity.
      assert (L1 : m_lunm st1 = m_lunm st ++ [p]).
      { unfold st1. cbn [set_unm m_lunm]. apply od_set_snoc. exact F2. }
      destruct (IH st1 Hn') as (A & B & C & D & E).
      { intros x Hx. rewrite K1, L1, names_app. split.
        - apply (proj1 (Hfr x (or_intror Hx))).
        - intros Hc. apply in_app_or in Hc. destruct Hc as [Hc|[Hc|[]]].
          + apply (proj2 (Hfr x (or_intror Hx))). exact Hc.
          + apply Hp. rewrite Hc. exact Hx. }
      rewrite A, B, C, D, E, K1, L1. fold (matched lk). fold (lunmatched lk).
      rewrite <- app_assoc. repeat split; reflexivity.
Qed.

Lemma in_matched c lk :
  In c (matched lk) ->
  exists p q, In p lk /\ find_param (pname p) (kwoargs r) = Some q /\ c = concile p q.
Proof.
  unfold matched. rewrite in_flat_map. intros [p [Hp Hc]].
  destruct (find_param (pname p) (kwoargs r)) as [q|] eqn:Ef; [|destruct Hc].
  destruct Hc as [<-|[]]. exists p, q. auto.
Qed.

Lemma matched_in p q lk :
  In p lk -> find_param (pname p) (kwoargs r) = Some q -> In (concile p q) (matched lk).
Proof.
  intros Hp Ef. unfold matched. rewrite in_flat_map. exists p. split; [exact Hp|].
  rewrite Ef. left. reflexivity.
Qed.

Definition st0 : mstate := mkM [] [] [] [] false false false false [] [].
Definition st_init : mstate := set_unm (kwo_match l r (kwoargs l) st0) R (r_unmatched l r).

Lemma init_fields :
  m_pos st_init = [] /\ m_pok st_init = [] /\ m_kwo st_init = matched (kwoargs l) /\
  m_lunm st_init = lunmatched (kwoargs l) /\ m_runm st_init = r_unmatched l r.
Proof.
  destruct (kwo_match_spec (kwoargs l) st0 (N_ko L)) as (A & B & C & D & E).
  { intros x _. cbn. tauto. }
  unfold st_init. cbn [set_unm m_pos m_pok m_kwo m_lunm m_runm]. rewrite A, B, C, D. auto.
Qed.

Lemma init_inv :
  GInv st_init /\ SInv L st_init [] /\ SInv R st_init [] /\
  (forall x, In x (names_of (m_kwo st_init)) ->
             In x (names_of (kwoargs l)) /\ In x (names_of (kwoargs r))).
Proof.
  destruct init_fields as (F1 & F2 & F3 & F4 & F5).
  assert (FRP : RP st_init = []) by (unfold RP; rewrite F1, F2; reflexivity).
  assert (HL : forall p, In p (m_lunm st_init) ->
                         In p (kwoargs l) /\ find_param (pname p) (kwoargs r) = None).
  { intros p Hp. rewrite F4 in Hp. unfold lunmatched in Hp. apply filter_In in Hp.
    destruct Hp as [Hp Hf]. split; [exact Hp|]. destruct (find_param (pname p) (kwoargs r)); [discriminate|reflexivity]. }
  assert (HR : forall p, In p (m_runm st_init) ->
                         In p (kwoargs r) /\ find_param (pname p) (kwoargs l) = None).
  { intros p Hp. rewrite F5 in Hp. unfold r_unmatched in Hp. apply filter_In in Hp.
    destruct Hp as [Hp Hf]. split; [exact Hp|]. destruct (find_param (pname p) (kwoargs l)); [discriminate|reflexivity]. }
  assert (HM : forall c, In c (m_kwo st_init) ->
             exists p q, In p (kwoargs l) /\ In q (kwoargs r) /\ pname q = pname p /\
                         find_param (pname p) (kwoargs r) = Some q /\ c = concile p q).
  { intros c Hc. rewrite F3 in Hc. apply in_matched in Hc. destruct Hc as [p [q (Hp & Ef & ->)]].
    destruct (find_param_In _ _ _ Ef) as [Hq Hqn]. exists p, q. auto 10. }
  assert (HMn : forall x, In x (names_of (m_kwo st_init)) ->
                In x (names_of (kwoargs l)) /\ In x (names_of (kwoargs r))).
  { intros x Hx. apply names_in in Hx. destruct Hx as [c [Hc <-]].
    destruct (HM c Hc) as [p [q (Hp & Hq & Hn & _ & ->)]]. change (pname (concile p q)) with (pname p).
    split; [apply in_names; exact Hp|rewrite <- Hn; apply in_names; exact Hq]. }
  assert (NL : NoDup (names_of (m_lunm st_init))) by (rewrite F4; apply NoDup_names_filter; apply (N_ko L)).
  assert (NR : NoDup (names_of (m_runm st_init))) by (rewrite F5; apply NoDup_names_filter; apply (N_ko R)).
  split; [|split; [|split]].
  - unfold GInv. split; [|split; [|split]].
    + constructor.
      * rewrite FRP. intros q [].
      * intros c Hc. destruct (HM c Hc) as [p [q (Hp & _ & _ & _ & ->)]]. exact (ko_kind L p Hp).
    + constructor; cbn [unm].
      * intros y Hy Hc. apply names_in in Hy. destruct Hy as [p [Hp <-]]. destruct (HL p Hp) as [_ Hnone].
        apply find_param_None in Hnone. apply Hnone. apply (HMn _ Hc).
      * exact NL.
      * intros p Hp. apply (HL p Hp).
    + constructor; cbn [unm].
      * intros y Hy Hc. apply names_in in Hy. destruct Hy as [p [Hp <-]]. destruct (HR p Hp) as [_ Hnone].
        apply find_param_None in Hnone. apply Hnone. apply (HMn _ Hc).
      * exact NR.
      * intros p Hp. apply (HR p Hp).
    + intros y Hy Hc. apply names_in in Hy. destruct Hy as [p [Hp <-]]. destruct (HL p Hp) as [_ Hnone].
      apply find_param_None in Hnone. apply Hnone.
      apply names_in in Hc. destruct Hc as [p' [Hp' <-]]. apply in_names. apply (HR p' Hp').
  - constructor.
    + left. rewrite nreq_nil. lia.
    + left. rewrite FRP. cbn. lia.
    + intros p [].
    + intros c [[Hc _]|Hc]; [rewrite FRP in Hc; destruct Hc|].
      destruct (HM c Hc) as [p [q (Hp & _ & _ & _ & ->)]]. left. exact (kwp_ko L p Hp).
    + intros p Hp Hd. cbn [unm my] in *. destruct (find_param (pname p) (kwoargs r)) as [q|] eqn:Ef.
      * left. exists (concile p q). rewrite F3. split; [apply matched_in; assumption|].
        split; [apply concile_req_l; exact Hd|reflexivity].
      * right. apply find_param_self; [exact NL|]. rewrite F4. unfold lunmatched. apply filter_In.
        rewrite Ef. auto.
  - constructor.
    + left. rewrite nreq_nil. lia.
    + left. rewrite FRP. cbn. lia.
    + intros p [].
    + intros c [[Hc _]|Hc]; [rewrite FRP in Hc; destruct Hc|].
      destruct (HM c Hc) as [p [q (_ & Hq & Hn & _ & ->)]]. left.
      change (pname (concile p q)) with (pname p). rewrite <- Hn. exact (kwp_ko R q Hq).
    + intros q Hq Hd. cbn [unm my] in *. destruct (find_param (pname q) (kwoargs l)) as [p|] eqn:Ef.
      * left. destruct (find_param_In _ _ _ Ef) as [Hp Hn].
        assert (Ef' : find_param (pname p) (kwoargs r) = Some q).
        { rewrite Hn. apply find_param_self; [apply (N_ko R)|exact Hq]. }
        exists (concile p q). rewrite F3. split; [apply matched_in; assumption|].
        split; [apply concile_req_r; exact Hd|exact Hn].
      * right. apply find_param_self; [exact NR|]. rewrite F5. unfold r_unmatched. apply filter_In.
        rewrite Ef. auto.
  - exact HMn.
Qed.

(* ------------------------------------------------------------------ *)
(* leftover keyword-only parameters                                     *)

Lemma fold_src_fields (s : side) u : forall st,
  let st' := fold_left (fun a p => add_src1 l r a (pname p) s) u st in
  m_pos st' = m_pos st /\ m_pok st' = m_pok st /\ m_kwo st' = m_kwo st /\
  m_lunm st' = m_lunm st /\ m_runm st' = m_runm st.
Proof.
  induction u as [|p u IH]; intros st; cbn [fold_left]; [auto 10|].
  destruct (IH (add_src1 l r st (pname p) s)) as (A & B & C & D & E).
  cbv zeta. rewrite A, B, C, D, E. auto 10.
Qed.

Lemma excl_vk_fields st x :
  m_pos (excl_vk st x) = m_pos st /\ m_pok (excl_vk st x) = m_pok st /\ m_kwo (excl_vk st x) = m_kwo st /\
  m_lunm (excl_vk st x) = m_lunm st /\ m_runm (excl_vk st x) = m_runm st.
Proof. destruct x; cbn; auto 10. Qed.

Lemma unm_fields st st' :
  m_lunm st' = m_lunm st -> m_runm st' = m_runm st -> forall o, unm st' o = unm st o.
Proof. intros A B o. destruct o; cbn [unm]; assumption. Qed.

Lemma unmatched_kwo_inv s st st' d1 d2 :
  unmatched_kwo l r s st = Ok st' ->
  GK st -> GU s st ->
  (forall y, In y (names_of (unm st s)) -> ~ In y (names_of (unm st (flip s)))) ->
  SInv s st d1 -> SInv (flip s) st d2 ->
  GK st' /\ (GU (flip s) st -> GU (flip s) st') /\ SInv s st' d1 /\ SInv (flip s) st' d2 /\
  (forall p, In p (kwoargs (myS s)) -> has_def p = false ->
             exists q, In q (m_kwo st') /\ has_def q = false /\ pname q = pname p) /\
  (forall q, In q (m_kwo st) -> In q (m_kwo st')) /\
  (forall o, unm st' o = unm st o).
Proof.
  intros E G GUs Hdis Ss St. unfold unmatched_kwo in E.
  destruct (unm st s) as [|u0 u] eqn:Eu.
  - inversion E; subst st'.
    split; [assumption|]. split; [auto|]. split; [assumption|]. split; [assumption|]. split; [|auto].
    intros p Hp Hd. destruct (s_ko _ _ _ Ss p Hp Hd) as [H|H]; [exact H|]. rewrite Eu in H. discriminate.
  - rewrite <- Eu in *. pose proof (s_ko _ _ _ Ss) as Sko. destruct (isSome (varkwargs (other l r s))) eqn:Evk.
    + rewrite other_flip in Evk.
      remember (excl_vk (fold_left (fun a p => add_src1 l r a (pname p) s) (unm st s)
                                   (set_kwo st (od_update (m_kwo st) (unm st s))))
                        (match s with L => R | R => L end)) as st1 eqn:Est.
      inversion E; subst st'; clear E.
      destruct (fold_src_fields s (unm st s) (set_kwo st (od_update (m_kwo st) (unm st s)))) as (A & B & C & D & F).
      cbv zeta in A, B, C, D, F. cbn [set_kwo m_pos m_pok m_kwo m_lunm m_runm] in A, B, C, D, F.
      destruct (excl_vk_fields (fold_left (fun a p => add_src1 l r a (pname p) s) (unm st s)
                                   (set_kwo st (od_update (m_kwo st) (unm st s))))
                               (match s with L => R | R => L end)) as (A' & B' & C' & D' & F').
      rewrite <- Est in A', B', C', D', F'.
      assert (K0 : m_kwo st1 = od_update (m_kwo st) (unm st s)) by (rewrite C'; exact C).
      assert (P : RP st1 = RP st) by (unfold RP; rewrite A', B', A, B; reflexivity).
      assert (U : forall o, unm st1 o = unm st o) by (apply unm_fields; [rewrite D'; exact D|rewrite F'; exact F]).
      clear A' B' C' D' F'.
      clear Est A B C D F.
      assert (K : m_kwo st1 = m_kwo st ++ unm st s).
      { rewrite K0. apply od_update_fresh; [apply (g_fb _ _ GUs)|apply (g_fa _ _ GUs)]. }
      clear K0.
      split; [|split; [|split; [|split; [|split; [|split]]]]]; [| | | | | |exact U].
      * apply (gk_grow st st1 [] (unm st s)); auto using pstep_same.
        intros q Hq. apply (ko_kind s). apply (g_fc _ _ GUs). exact Hq.
      * intros GUf. apply (gu_grow (flip s) st st1 (unm st s)); auto.
        -- rewrite U. auto.
        -- rewrite U. apply (g_fb _ _ GUf).
        -- rewrite U. intros y Hy Hc. exact (Hdis y Hc Hy).
      * rewrite <- (app_nil_r d1).
        apply (sinv_grow s st st1 d1 [] [] (unm st s)); auto using pstep_same; try solve [intros ? []].
        -- intros q [[[] _]|Hq]. left. apply (kwp_ko s). apply (g_fc _ _ GUs). exact Hq.
        -- intros p _ _ Hf. left. rewrite U. exact Hf.
      * rewrite <- (app_nil_r d2).
        apply (sinv_grow (flip s) st st1 d2 [] [] (unm st s)); auto using pstep_same; try solve [intros ? []].
        intros p _ _ Hf. left. rewrite U. exact Hf.
      * intros p Hp Hd. destruct (Sko p Hp Hd) as [[q [Hq Hr]]|Hf].
        -- exists q. split; [rewrite K; apply in_or_app; left; exact Hq|exact Hr].
        -- exists p. destruct (find_param_In _ _ _ Hf) as [Hin _].
           split; [rewrite K; apply in_or_app; right; exact Hin|auto].
      * intros q Hq. rewrite K. apply in_or_app. left. exact Hq.
    + destruct (forallb has_def (unm st s)) eqn:Eall; [|discriminate].
      inversion E; subst st'.
      split; [assumption|]. split; [auto|]. split; [assumption|]. split; [assumption|]. split; [|auto].
      intros p Hp Hd. destruct (Sko p Hp Hd) as [H|H]; [exact H|].
      destruct (find_param_In _ _ _ H) as [Hin _]. rewrite forallb_forall in Eall.
      rewrite (Eall p Hin) in Hd. discriminate.
Qed.

(* ------------------------------------------------------------------ *)
(* normalise_pok and add_star do not change what the invariants see     *)

Lemma split_po_prefix_app ps : fst (split_po_prefix ps) ++ snd (split_po_prefix ps) = ps.
Proof.
  induction ps as [|p ps IH]; [reflexivity|]. cbn [split_po_prefix].
  destruct (is_kind PO p); [|reflexivity].
  destruct (split_po_prefix ps) as [a b]. cbn [fst snd app] in *. rewrite IH. reflexivity.
Qed.

Lemma normalise_fields st :
  RP (normalise_pok st) = RP st /\ m_kwo (normalise_pok st) = m_kwo st /\
  (forall o, unm (normalise_pok st) o = unm st o) /\
  m_xva_l (normalise_pok st) = m_xva_l st /\ m_xva_r (normalise_pok st) = m_xva_r st.
Proof.
  unfold normalise_pok. pose proof (split_po_prefix_app (m_pok st)) as H.
  destruct (split_po_prefix (m_pok st)) as [a b]. cbn [fst snd] in H.
  unfold RP. cbn [set_pok set_pos m_pos m_pok m_kwo]. rewrite <- app_assoc, H.
  repeat split; try (intros o; destruct o; reflexivity).
Qed.

Lemma add_star_fields xl xr sl sr st :
  m_pos (snd (add_star l r xl xr sl sr st)) = m_pos st /\
  m_pok (snd (add_star l r xl xr sl sr st)) = m_pok st /\
  m_kwo (snd (add_star l r xl xr sl sr st)) = m_kwo st /\
  (forall o, unm (snd (add_star l r xl xr sl sr st)) o = unm st o) /\
  isSome (fst (add_star l r xl xr sl sr st)) = isSome sl && isSome sr /\
  (forall p, fst (add_star l r xl xr sl sr st) = Some p ->
             (exists a, sl = Some a /\ pkind p = pkind a) \/ (exists b, sr = Some b /\ pkind p = pkind b)).
Proof.
  unfold add_star. destruct sl as [a|], sr as [b|]; cbn [fst snd isSome andb];
    try (repeat split; try (intros o; destruct o; reflexivity); intros p Hp; discriminate).
  destruct (negb xl && negb xr); [|destruct (negb xl)]; cbn [fst snd];
    try destruct (N.eqb (pname a) (pname b)); cbn [fst snd];
    (repeat split; try (intros o; destruct o; reflexivity));
    intros p Hp; inversion Hp; subst p; eauto.
Qed.

(* ---- accumulator facts for the remaining stages ---- *)
Lemma names_matched_incl lk x : In x (names_of (matched lk)) -> In x (names_of lk).
Proof.
  intros H. apply names_in in H. destruct H as [c [Hc <-]]. apply in_matched in Hc.
  destruct Hc as [p [q (Hp & _ & ->)]]. change (pname (concile p q)) with (pname p). apply in_names. exact Hp.
Qed.

Lemma matched_names_nodup lk : NoDup (names_of lk) -> NoDup (names_of (matched lk)).
Proof.
  induction lk as [|p lk IH]; intros H; [constructor|].
  cbn [names_of map] in H. inversion H as [|? ? Hp Hn]; subst.
  unfold matched. cbn [flat_map]. fold (matched lk).
  destruct (find_param (pname p) (kwoargs r)) as [q|]; [|apply IH; exact Hn].
  cbn [app names_of map]. constructor; [|apply IH; exact Hn].
  change (pname (concile p q)) with (pname p). intros Hc. apply Hp. apply names_matched_incl. exact Hc.
Qed.

Lemma unmatched_kwo_shape s st st' :
  unmatched_kwo l r s st = Ok st' ->
  m_pos st' = m_pos st /\ m_pok st' = m_pok st /\ (forall o, unm st' o = unm st o) /\
  (m_kwo st' = m_kwo st \/ m_kwo st' = od_update (m_kwo st) (unm st s)).
Proof.
  unfold unmatched_kwo. destruct (unm st s) as [|u0 u] eqn:Eu.
  - intros E. inversion E; subst st'. auto.
  - rewrite <- Eu. destruct (isSome (varkwargs (other l r s))).
    + intros E.
      remember (excl_vk (fold_left (fun a p => add_src1 l r a (pname p) s) (unm st s)
                                   (set_kwo st (od_update (m_kwo st) (unm st s))))
                        (match s with L => R | R => L end)) as st1 eqn:Est.
      inversion E; subst st'; clear E.
      destruct (fold_src_fields s (unm st s) (set_kwo st (od_update (m_kwo st) (unm st s)))) as (A & B & C & D & F).
      cbv zeta in A, B, C, D, F. cbn [set_kwo m_pos m_pok m_kwo m_lunm m_runm] in A, B, C, D, F.
      destruct (excl_vk_fields (fold_left (fun a p => add_src1 l r a (pname p) s) (unm st s)
                                   (set_kwo st (od_update (m_kwo st) (unm st s))))
                               (match s with L => R | R => L end)) as (A' & B' & C' & D' & F').
      rewrite <- Est in A', B', C', D', F'.
      split; [congruence|]. split; [congruence|].
      split; [apply unm_fields; congruence|]. right. congruence.
    + destruct (forallb has_def (unm st s)); [|discriminate]. intros E. inversion E; subst st'. auto.
Qed.

Lemma unmatched_kwo_acc s st st' :
  unmatched_kwo l r s st = Ok st' -> GU s st -> AInv st [] -> AInv st' [].
Proof.
  intros E GUs [A1 A2 A3 A4 A5].
  destruct (unmatched_kwo_shape s st st' E) as (P1 & P2 & U & [K|K]).
  - constructor; rewrite ?P1, ?(pkn_same _ _ P2), ?K; auto.
    + rewrite P2. exact A2.
    + intros o y Hy. rewrite U in Hy. exact (A5 o y Hy).
  - rewrite (od_update_fresh _ _ (g_fb _ _ GUs) (g_fa _ _ GUs)) in K.
    constructor; rewrite ?P1, ?(pkn_same _ _ P2); auto.
    + rewrite P2. exact A2.
    + rewrite K, names_app, app_assoc. apply NoDup_app_intro; [exact A3|apply (g_fb _ _ GUs)|].
      intros y Hy Hc. apply in_app_or in Hy. destruct Hy as [Hy|Hy].
      * exact (A5 s y Hc Hy).
      * exact (g_fa _ _ GUs y Hc Hy).
    + intros o y Hy. rewrite U in Hy. exact (A5 o y Hy).
Qed.

Lemma split_pat a : forall b, Forall isPO a -> Forall isPK b -> split_po_prefix (a ++ b) = (a, b).
Proof.
  induction a as [|p a IH]; intros b Ha Hb.
  - cbn [app]. destruct b as [|q b]; [reflexivity|]. cbn [split_po_prefix].
    inversion Hb as [|? ? Hq _]; subst. unfold is_kind. rewrite Hq. reflexivity.
  - inversion Ha as [|? ? Hp Ha']; subst. cbn [app split_po_prefix]. unfold is_kind. rewrite Hp. cbn.
    rewrite (IH b Ha' Hb). reflexivity.
Qed.

(* ------------------------------------------------------------------ *)
(* the whole merger                                                     *)

Theorem merger_summary res :
  merger l r = Ok res ->
  (exists st, posargs res = m_pos st /\ pokargs res = m_pok st /\ kwoargs res = m_kwo st /\
    isSome (varargs res) = isSome (varargs l) && isSome (varargs r) /\
    isSome (varkwargs res) = isSome (varkwargs l) && isSome (varkwargs r) /\
    (forall p, varargs res = Some p -> pkind p = VP) /\
    (forall p, varkwargs res = Some p -> pkind p = VK) /\
    GK st /\
    (forall o, SInv o st (posargs (myS o) ++ pokargs (myS o))) /\
    (forall o p, In p (kwoargs (myS o)) -> has_def p = false ->
                 exists q, In q (m_kwo st) /\ has_def q = false /\ pname q = pname p)) /\
  kinds_ok res /\ NoDup (names_of (pokargs res ++ kwoargs res)).
Proof.
  unfold merger. fold st0. fold st_init. intros E.
  destruct init_inv as (G2 & SL2 & SR2 & Hk2).
  destruct init_fields as (F1 & F2 & F3 & F4 & F5).
  apply bind_ok in E. destruct E as [[[st3 il] ir] [E3 E]].
  destruct (zip_pos_inv (posargs l) (posargs r) (pokargs l) (pokargs r) st_init st3 il ir [] []
              (incl_refl _) (incl_refl _) (incl_refl _) (incl_refl _) E3 G2 SL2 SR2)
    as [pl [pr (Cl & Cr & G3 & SL3 & SR3 & K3)]].
  cbn [app] in SL3, SR3.
  assert (HP0 : Forall isPO (m_pos st_init)) by (rewrite F1; constructor).
  destruct (zip_pos_frame (posargs l) (posargs r) (pokargs l) (pokargs r) st_init st3 il ir
              (incl_refl _) (incl_refl _) E3 HP0) as (Z1 & Z2 & _ & _).
  assert (A3 : AInv st3 (il ++ ir)).
  { assert (Epk : pkn st3 = []) by (unfold pkn; rewrite Z2, F2; reflexivity).
    constructor.
    - exact Z1.
    - rewrite Z2, F2. apply pkpat_po. constructor.
    - rewrite Epk, K3, F3. cbn [app]. apply matched_names_nodup. apply (N_ko L).
    - rewrite Epk. intros x [].
    - rewrite Epk. intros o y _ []. }
  apply bind_ok in E. destruct E as [st4 [E4 E]].
  assert (Nil : NoDup (names_of il)).
  { pose proof (N_pk L) as H. cbn [my] in H. rewrite Cl, names_app in H. apply nodup_app_r in H. exact H. }
  assert (Nir : NoDup (names_of ir)).
  { pose proof (N_pk R) as H. cbn [my] in H. rewrite Cr, names_app in H. apply nodup_app_r in H. exact H. }
  assert (Hil : incl il (pokargs l)) by (rewrite Cl; apply incl_appr; apply incl_refl).
  assert (Hir : incl ir (pokargs r)) by (rewrite Cr; apply incl_appr; apply incl_refl).
  assert (Hk3 : forall x, In x (names_of (m_kwo st3)) ->
                          In x (names_of (kwoargs l)) /\ In x (names_of (kwoargs r)))
    by (rewrite K3; exact Hk2).
  destruct (zip_pok_inv il ir st3 st4 _ _ Nil Nir Hil Hir Hk3 E4 G3 SL3 SR3 A3) as (G4 & SL4 & SR4 & A4).
  rewrite <- app_assoc, <- Cl in SL4. rewrite <- app_assoc, <- Cr in SR4.
  apply bind_ok in E. destruct E as [st5 [E5 E]].
  destruct G4 as (GK4 & GL4 & GR4 & GD4).
  destruct (unmatched_kwo_inv L st4 st5 _ _ E5 GK4 GL4 GD4 SL4 SR4) as (GK5 & GR5 & SL5 & SR5 & RL5 & M5 & U5).
  specialize (GR5 GR4).
  pose proof (unmatched_kwo_acc L st4 st5 E5 GL4 A4) as A5.
  apply bind_ok in E. destruct E as [st6 [E6 E]].
  assert (Hdis6 : forall y, In y (names_of (unm st5 R)) -> ~ In y (names_of (unm st5 (flip R)))).
  { intros y Hy Hc. rewrite U5 in Hy, Hc. cbn [unm flip] in Hy, Hc. exact (GD4 y Hc Hy). }
  destruct (unmatched_kwo_inv R st5 st6 _ _ E6 GK5 GR5 Hdis6 SR5 SL5) as (GK6 & _ & SR6 & SL6 & RR6 & M6 & _).
  pose proof (unmatched_kwo_acc R st5 st6 E6 GR5 A5) as A6.
  cbn [flip] in SL6.
  (* normalise_pok, add_star *)
  destruct (normalise_fields st6) as (N1 & N2 & N3 & _).
  destruct A6 as [A61 (pa & pb & Epat & Hpa & Hpb) A63 _ _].
  assert (N4 : m_pos (normalise_pok st6) = m_pos st6 ++ pa /\ m_pok (normalise_pok st6) = pb).
  { unfold normalise_pok. rewrite Epat, (split_pat pa pb Hpa Hpb). split; reflexivity. }
  destruct N4 as [N4 N5].
  set (st7 := normalise_pok st6) in *.
  pose proof (add_star_fields (m_xva_l st7) (m_xva_r st7) (varargs l) (varargs r) st7) as A8.
  destruct (add_star l r (m_xva_l st7) (m_xva_r st7) (varargs l) (varargs r) st7) as [va st8].
  cbn [fst snd] in A8. destruct A8 as (A1 & A1' & A2 & A3' & A4' & A5').
  pose proof (add_star_fields (m_xvk_l st8) (m_xvk_r st8) (varkwargs l) (varkwargs r) st8) as A9.
  destruct (add_star l r (m_xvk_l st8) (m_xvk_r st8) (varkwargs l) (varkwargs r) st8) as [vk st9].
  cbn [fst snd] in A9. destruct A9 as (B1 & B1' & B2 & B3 & B4 & B5).
  inversion E; subst res; clear E. cbn [posargs pokargs varargs kwoargs varkwargs].
  assert (ERP : RP st9 = RP st6) by (unfold RP; rewrite B1, B1', A1, A1'; exact N1).
  assert (EK : m_kwo st9 = m_kwo st6) by (rewrite B2, A2, N2; reflexivity).
  assert (EU : forall o, unm st9 o = unm st6 o) by (intros o; rewrite B3, A3', N3; reflexivity).
  destruct Kl as (_ & _ & Kl3 & _ & Kl5). destruct Kr as (_ & _ & Kr3 & _ & Kr5).
  assert (Hva : forall p, va = Some p -> pkind p = VP).
  { intros p Hp. destruct (A5' p Hp) as [[a [Ha ->]]|[b [Hb ->]]]; auto. }
  assert (Hvk : forall p, vk = Some p -> pkind p = VK).
  { intros p Hp. destruct (B5 p Hp) as [[a [Ha ->]]|[b [Hb ->]]]; auto. }
  split; [|split].
  - exists st9. repeat (split; [reflexivity|]).
    split; [exact A4'|]. split; [exact B4|]. split; [exact Hva|]. split; [exact Hvk|].
    split; [apply (gk_same st6); assumption|].
    split.
    + intros o. apply (sinv_same o st6); auto. destruct o; assumption.
    + intros o p Hp Hd. rewrite EK. destruct o.
      * destruct (RL5 p Hp Hd) as [q [Hq Hr]]. exists q. split; [apply M6; exact Hq|exact Hr].
      * apply (RR6 p Hp Hd).
  - unfold kinds_ok. cbn [posargs pokargs varargs kwoargs varkwargs].
    rewrite B1, A1, N4, B1', A1', N5, EK.
    split; [apply Forall_app; split; assumption|]. split; [exact Hpb|]. split; [exact Hva|].
    split; [|exact Hvk]. apply Forall_forall. apply (g_kwo _ GK6).
  - rewrite B1', A1', N5, EK, names_app.
    assert (Epk : pkn st6 = names_of pb).
    { unfold pkn. rewrite Epat, filter_app, (filter_pk_po _ Hpa), (filter_pk_pk _ Hpb). reflexivity. }
    rewrite <- Epk. exact A63.
Qed.


(* the same walk, exposing the intermediate states (used by MergeSoundMixed.v) *)
Theorem merger_walk res :
  merger l r = Ok res ->
  exists st3 il ir st4 st5 st6 pl pr,
    zip_pos l r (posargs l) (posargs r) (pokargs l) (pokargs r) st_init = Ok (st3, il, ir) /\
    pokargs l = pl ++ il /\ pokargs r = pr ++ ir /\
    zip_pok l r il ir st3 = Ok st4 /\ unmatched_kwo l r L st4 = Ok st5 /\ unmatched_kwo l r R st5 = Ok st6 /\
    GInv st_init /\ GInv st3 /\ GInv st4 /\ GU R st5 /\
    posargs res ++ pokargs res = RP st6 /\ kwoargs res = m_kwo st6.
Proof.
  unfold merger. fold st0. fold st_init. intros E.
  destruct init_inv as (G2 & SL2 & SR2 & Hk2).
  destruct init_fields as (F1 & F2 & F3 & F4 & F5).
  apply bind_ok in E. destruct E as [[[st3 il] ir] [E3 E]].
  destruct (zip_pos_inv (posargs l) (posargs r) (pokargs l) (pokargs r) st_init st3 il ir [] []
              (incl_refl _) (incl_refl _) (incl_refl _) (incl_refl _) E3 G2 SL2 SR2)
    as [pl [pr (Cl & Cr & G3 & SL3 & SR3 & K3)]].
  cbn [app] in SL3, SR3.
  assert (HP0 : Forall isPO (m_pos st_init)) by (rewrite F1; constructor).
  destruct (zip_pos_frame (posargs l) (posargs r) (pokargs l) (pokargs r) st_init st3 il ir
              (incl_refl _) (incl_refl _) E3 HP0) as (Z1 & Z2 & _ & _).
  assert (A3 : AInv st3 (il ++ ir)).
  { assert (Epk : pkn st3 = []) by (unfold pkn; rewrite Z2, F2; reflexivity).
    constructor.
    - exact Z1.
    - rewrite Z2, F2. apply pkpat_po. constructor.
    - rewrite Epk, K3, F3. cbn [app]. apply matched_names_nodup. apply (N_ko L).
    - rewrite Epk. intros x [].
    - rewrite Epk. intros o y _ []. }
  apply bind_ok in E. destruct E as [st4 [E4 E]].
  assert (Nil : NoDup (names_of il)).
  { pose proof (N_pk L) as H. cbn [my] in H. rewrite Cl, names_app in H. apply nodup_app_r in H. exact H. }
  assert (Nir : NoDup (names_of ir)).
  { pose proof (N_pk R) as H. cbn [my] in H. rewrite Cr, names_app in H. apply nodup_app_r in H. exact H. }
  assert (Hil : incl il (pokargs l)) by (rewrite Cl; apply incl_appr; apply incl_refl).
  assert (Hir : incl ir (pokargs r)) by (rewrite Cr; apply incl_appr; apply incl_refl).
  assert (Hk3 : forall x, In x (names_of (m_kwo st3)) ->
                          In x (names_of (kwoargs l)) /\ In x (names_of (kwoargs r)))
    by (rewrite K3; exact Hk2).
  destruct (zip_pok_inv il ir st3 st4 _ _ Nil Nir Hil Hir Hk3 E4 G3 SL3 SR3 A3) as (G4 & SL4 & SR4 & A4).
  apply bind_ok in E. destruct E as [st5 [E5 E]].
  pose proof G4 as (GK4 & GL4 & GR4 & GD4).
  destruct (unmatched_kwo_inv L st4 st5 _ _ E5 GK4 GL4 GD4 SL4 SR4) as (GK5 & GR5 & SL5 & SR5 & RL5 & M5 & U5).
  specialize (GR5 GR4).
  apply bind_ok in E. destruct E as [st6 [E6 E]].
  destruct (normalise_fields st6) as (N1 & N2 & N3 & _).
  set (st7 := normalise_pok st6) in *.
  pose proof (add_star_fields (m_xva_l st7) (m_xva_r st7) (varargs l) (varargs r) st7) as A8.
  destruct (add_star l r (m_xva_l st7) (m_xva_r st7) (varargs l) (varargs r) st7) as [va st8].
  cbn [fst snd] in A8. destruct A8 as (A1 & A1' & A2 & _).
  pose proof (add_star_fields (m_xvk_l st8) (m_xvk_r st8) (varkwargs l) (varkwargs r) st8) as A9.
  destruct (add_star l r (m_xvk_l st8) (m_xvk_r st8) (varkwargs l) (varkwargs r) st8) as [vk st9].
  cbn [fst snd] in A9. destruct A9 as (B1 & B1' & B2 & _).
  inversion E; subst res; clear E. cbn [posargs pokargs kwoargs].
  exists st3, il, ir, st4, st5, st6, pl, pr.
  repeat (split; [assumption|]). split.
  - fold (RP st9). unfold RP. rewrite B1, B1', A1, A1'. exact N1.
  - rewrite B2, A2, N2. reflexivity.
Qed.

End MS.

Print Assumptions merger_summary.
Print Assumptions merger_walk.
