(* MergeSoundInv.v -- the summary invariants carried through every stage of the
   binary merger (kwo_match, zip_pos, zip_pok, unmatched_kwo, normalise_pok,
   add_star), generic in the observed side.  Used by MergeSound.v (C01). *)
From Sigtools.Model Require Import Base Bind Roles Algebra.
From Sigtools.Proofs Require Import SmallModel Basics MaskLaws MaskExact MergeNeutral MergeIdem MergeSoundBase.
From Coq Require Import Lia.

(* ------------------------------------------------------------------ *)
(* result positionals evolve by appending and by re-kinding to PO       *)

Definition cv (u v : param) : Prop := v = u \/ v = set_kind PO u.
Definition convl : list param -> list param -> Prop := Forall2 cv.

Lemma convl_refl xs : convl xs xs.
Proof. induction xs; constructor; [left; reflexivity|assumption]. Qed.

Lemma convl_map xs : convl xs (map (set_kind PO) xs).
Proof. induction xs; cbn [map]; constructor; [right; reflexivity|assumption]. Qed.

Lemma convl_app a a' b b' : convl a a' -> convl b b' -> convl (a ++ b) (a' ++ b').
Proof. apply Forall2_app. Qed.

Lemma cv_has_def u v : cv u v -> has_def v = has_def u.
Proof. intros [->| ->]; reflexivity. Qed.

Lemma cv_name u v : cv u v -> pname v = pname u.
Proof. intros [->| ->]; reflexivity. Qed.

Lemma convl_nreq xs ys : convl xs ys -> nreq ys = nreq xs.
Proof.
  induction 1 as [|u v xs ys Huv _ IH]; [reflexivity|].
  rewrite !nreq_cons, IH, (cv_has_def _ _ Huv). reflexivity.
Qed.

Lemma convl_length xs ys : convl xs ys -> length ys = length xs.
Proof. induction 1 as [|u v xs ys _ _ IH]; [reflexivity|]. cbn [length]. rewrite IH. reflexivity. Qed.

Lemma convl_fwd xs ys u : convl xs ys -> In u xs -> exists v, In v ys /\ cv u v.
Proof.
  induction 1 as [|u0 v0 xs ys Huv _ IH]; intros Hu; [destruct Hu|].
  destruct Hu as [->|Hu]; [exists v0; split; [left; reflexivity|exact Huv]|].
  destruct (IH Hu) as [v [Hv Hc]]. exists v. split; [right; exact Hv|exact Hc].
Qed.

Lemma convl_bwd xs ys v : convl xs ys -> In v ys -> exists u, In u xs /\ cv u v.
Proof.
  induction 1 as [|u0 v0 xs ys Huv _ IH]; intros Hv; [destruct Hv|].
  destruct Hv as [->|Hv]; [exists u0; split; [left; reflexivity|exact Huv]|].
  destruct (IH Hv) as [u [Hu Hc]]. exists u. split; [right; exact Hu|exact Hc].
Qed.

Definition pstep (xs ys newP : list param) : Prop :=
  exists a b a' b', xs = a ++ b /\ ys = a' ++ newP ++ b' /\ convl a a' /\ convl b b'.

Lemma pstep_nreq xs ys n : pstep xs ys n -> nreq ys = (nreq xs + nreq n)%nat.
Proof.
  intros (a & b & a' & b' & -> & -> & Ha & Hb).
  rewrite !nreq_app, (convl_nreq _ _ Ha), (convl_nreq _ _ Hb). lia.
Qed.

Lemma pstep_length xs ys n : pstep xs ys n -> length ys = (length xs + length n)%nat.
Proof.
  intros (a & b & a' & b' & -> & -> & Ha & Hb).
  rewrite !app_length, (convl_length _ _ Ha), (convl_length _ _ Hb). lia.
Qed.

Lemma pstep_fwd xs ys n u : pstep xs ys n -> In u xs -> exists v, In v ys /\ cv u v.
Proof.
  intros (a & b & a' & b' & -> & -> & Ha & Hb) Hu. apply in_app_or in Hu. destruct Hu as [Hu|Hu].
  - destruct (convl_fwd _ _ _ Ha Hu) as [v [Hv Hc]]. exists v. split; [|exact Hc].
    apply in_or_app. left. exact Hv.
  - destruct (convl_fwd _ _ _ Hb Hu) as [v [Hv Hc]]. exists v. split; [|exact Hc].
    apply in_or_app. right. apply in_or_app. right. exact Hv.
Qed.

Lemma pstep_new xs ys n q : pstep xs ys n -> In q n -> In q ys.
Proof.
  intros (a & b & a' & b' & -> & -> & Ha & Hb) Hq.
  apply in_or_app. right. apply in_or_app. left. exact Hq.
Qed.

Lemma pstep_bwd xs ys n v : pstep xs ys n -> In v ys -> In v n \/ exists u, In u xs /\ cv u v.
Proof.
  intros (a & b & a' & b' & -> & -> & Ha & Hb) Hv. apply in_app_or in Hv. destruct Hv as [Hv|Hv].
  - destruct (convl_bwd _ _ _ Ha Hv) as [u [Hu Hc]]. right. exists u. split; [|exact Hc].
    apply in_or_app. left. exact Hu.
  - apply in_app_or in Hv. destruct Hv as [Hv|Hv]; [left; exact Hv|].
    destruct (convl_bwd _ _ _ Hb Hv) as [u [Hu Hc]]. right. exists u. split; [|exact Hc].
    apply in_or_app. right. exact Hu.
Qed.

Lemma pstep_refl xs : pstep xs xs [].
Proof. exists xs, [], xs, []. rewrite !app_nil_r. repeat split; apply convl_refl. Qed.

Definition flip (s : side) : side := match s with L => R | R => L end.

Definition RP (st : mstate) : list param := m_pos st ++ m_pok st.

Lemma pstep_pos st st' newP :
  m_pos st' = m_pos st ++ newP -> m_pok st' = m_pok st -> pstep (RP st) (RP st') newP.
Proof.
  intros E1 E2. exists (m_pos st), (m_pok st), (m_pos st), (m_pok st). unfold RP. rewrite E1, E2, <- app_assoc.
  repeat split; apply convl_refl.
Qed.

Lemma pstep_pok st st' newP :
  m_pos st' = m_pos st -> m_pok st' = m_pok st ++ newP -> pstep (RP st) (RP st') newP.
Proof.
  intros E1 E2. exists (RP st), [], (RP st), []. unfold RP. rewrite E1, E2, !app_nil_r, <- app_assoc.
  repeat split; apply convl_refl.
Qed.

Lemma pstep_conv_pok st st' newP :
  m_pos st' = m_pos st -> m_pok st' = map (set_kind PO) (m_pok st) ++ newP -> pstep (RP st) (RP st') newP.
Proof.
  intros E1 E2. exists (RP st), [], (m_pos st ++ map (set_kind PO) (m_pok st)), [].
  unfold RP. rewrite E1, E2, !app_nil_r, <- app_assoc. repeat split.
  - apply convl_app; [apply convl_refl|apply convl_map].
  - apply convl_refl.
Qed.

Lemma pstep_conv_pos st st' newP :
  m_pos st' = m_pos st ++ map (set_kind PO) (m_pok st) ++ newP -> m_pok st' = [] ->
  pstep (RP st) (RP st') newP.
Proof.
  intros E1 E2. exists (RP st), [], (m_pos st ++ map (set_kind PO) (m_pok st)), [].
  unfold RP. rewrite E1, E2, !app_nil_r, <- !app_assoc. repeat split.
  - apply convl_app; [apply convl_refl|apply convl_map].
  - apply convl_refl.
Qed.

Lemma pstep_same st st' : RP st' = RP st -> pstep (RP st) (RP st') [].
Proof. intros ->. apply pstep_refl. Qed.

(* ------------------------------------------------------------------ *)
Section MS.
Variables l r : sorted.
Hypothesis Kl : kinds_ok l.
Hypothesis Kr : kinds_ok r.
Hypothesis Nl : NoDup (names_of (posargs l ++ pokargs l ++ kwoargs l)).
Hypothesis Nr : NoDup (names_of (posargs r ++ pokargs r ++ kwoargs r)).

Notation myS := (my l r).

Lemma other_flip s : other l r s = myS (flip s).
Proof. destruct s; reflexivity. Qed.

Lemma K_my o : kinds_ok (myS o).
Proof. destruct o; assumption. Qed.

Lemma N_my o : NoDup (names_of (posargs (myS o) ++ pokargs (myS o) ++ kwoargs (myS o))).
Proof. destruct o; assumption. Qed.

Lemma po_kind o p : In p (posargs (myS o)) -> pkind p = PO.
Proof. destruct (K_my o) as (H & _). rewrite Forall_forall in H. apply H. Qed.

Lemma pk_kind o p : In p (pokargs (myS o)) -> pkind p = PK.
Proof. destruct (K_my o) as (_ & H & _). rewrite Forall_forall in H. apply H. Qed.

Lemma ko_kind o p : In p (kwoargs (myS o)) -> pkind p = KO.
Proof. destruct (K_my o) as (_ & _ & _ & H & _). rewrite Forall_forall in H. apply H. Qed.

Lemma pk_ko_disj o e p : In e (pokargs (myS o)) -> In p (kwoargs (myS o)) -> pname e <> pname p.
Proof.
  intros He Hp E. pose proof (N_my o) as H. rewrite names_app in H. apply nodup_app_r in H.
  rewrite names_app in H. apply (nodup_app_disjoint _ _ (pname e) H); [apply in_names; exact He|].
  rewrite E. apply in_names. exact Hp.
Qed.

Lemma N_ko o : NoDup (names_of (kwoargs (myS o))).
Proof.
  pose proof (N_my o) as H. rewrite names_app in H. apply nodup_app_r in H.
  rewrite names_app in H. apply nodup_app_r in H. exact H.
Qed.

Lemma N_pk o : NoDup (names_of (pokargs (myS o))).
Proof.
  pose proof (N_my o) as H. rewrite names_app in H. apply nodup_app_r in H.
  rewrite names_app in H. apply nodup_app_l in H. exact H.
Qed.

Definition kwp_in (o : side) (x : name) : Prop :=
  In x (names_of (pokargs (myS o) ++ kwoargs (myS o))).

Lemma kwp_pk o e : In e (pokargs (myS o)) -> kwp_in o (pname e).
Proof. intros H. unfold kwp_in. apply in_names. apply in_or_app. left. exact H. Qed.

Lemma kwp_ko o e : In e (kwoargs (myS o)) -> kwp_in o (pname e).
Proof. intros H. unfold kwp_in. apply in_names. apply in_or_app. right. exact H. Qed.

(* ---- the invariants ---- *)
Record GK (st : mstate) : Prop := mkGK {
  g_pos : forall q, In q (RP st) -> is_positional q = true;
  g_kwo : forall q, In q (m_kwo st) -> pkind q = KO
}.

Record GU (o : side) (st : mstate) : Prop := mkGU {
  g_fa : forall y, In y (names_of (unm st o)) -> ~ In y (names_of (m_kwo st));
  g_fb : NoDup (names_of (unm st o));
  g_fc : forall p, In p (unm st o) -> In p (kwoargs (myS o))
}.

Definition GD (st : mstate) : Prop :=
  forall y, In y (names_of (m_lunm st)) -> ~ In y (names_of (m_runm st)).

Definition GInv (st : mstate) : Prop := GK st /\ GU L st /\ GU R st /\ GD st.

Record SInv (o : side) (st : mstate) (d : list param) : Prop := mkS {
  s_p1 : (nreq d <= nreq (RP st))%nat \/ (exists q, In q (m_kwo st) /\ has_def q = false);
  s_p3 : (length (RP st) <= length d)%nat \/ isSome (varargs (myS o)) = true;
  s_k : forall p, In p d -> has_def p = false ->
        (exists q, In q (RP st) /\ has_def q = false /\
                   (pkind q = PO \/ (pkind p = PK /\ pname q = pname p)))
        \/ (pkind p = PK /\ exists q, In q (m_kwo st) /\ has_def q = false /\ pname q = pname p);
  s_c : forall q, (In q (RP st) /\ pkind q = PK) \/ In q (m_kwo st) ->
        kwp_in o (pname q) \/ isSome (varkwargs (myS o)) = true;
  s_ko : forall p, In p (kwoargs (myS o)) -> has_def p = false ->
        (exists q, In q (m_kwo st) /\ has_def q = false /\ pname q = pname p)
        \/ find_param (pname p) (unm st o) = Some p
}.

(* ---- generic preservation lemmas ---- *)
Lemma gk_grow st st' newP newK :
  pstep (RP st) (RP st') newP -> m_kwo st' = m_kwo st ++ newK ->
  (forall q, In q newP -> is_positional q = true) ->
  (forall q, In q newK -> pkind q = KO) ->
  GK st -> GK st'.
Proof.
  intros Hp Hk HP HK [G1 G2]. constructor.
  - intros q Hq. destruct (pstep_bwd _ _ _ _ Hp Hq) as [Hn|[u [Hu [->| ->]]]]; auto.
  - intros q Hq. rewrite Hk in Hq. apply in_app_or in Hq. destruct Hq; auto.
Qed.

Lemma gu_grow o st st' newK :
  m_kwo st' = m_kwo st ++ newK ->
  (forall p, In p (unm st' o) -> In p (unm st o)) ->
  NoDup (names_of (unm st' o)) ->
  (forall y, In y (names_of (unm st' o)) -> ~ In y (names_of newK)) ->
  GU o st -> GU o st'.
Proof.
  intros Hk Hin Hnd Hfr [G1 G2 G3]. constructor.
  - intros y Hy. rewrite Hk, names_app. intros Hc. apply in_app_or in Hc. destruct Hc as [Hc|Hc].
    + apply (G1 y); [|exact Hc]. apply names_in in Hy. destruct Hy as [p [Hp <-]].
      apply in_names. apply Hin. exact Hp.
    + exact (Hfr y Hy Hc).
  - exact Hnd.
  - intros p Hp. apply G3. apply Hin. exact Hp.
Qed.

Lemma gd_grow st st' :
  (forall o p, In p (unm st' o) -> In p (unm st o)) -> GD st -> GD st'.
Proof.
  intros Hin G y Hy Hy'. apply names_in in Hy. destruct Hy as [p [Hp <-]].
  apply names_in in Hy'. destruct Hy' as [p' [Hp' E]].
  apply (G (pname p)).
  - apply in_names. exact (Hin L p Hp).
  - rewrite <- E. apply in_names. exact (Hin R p' Hp').
Qed.

Lemma sinv_grow o st st' d dn newP newK :
  pstep (RP st) (RP st') newP ->
  m_kwo st' = m_kwo st ++ newK ->
  ((nreq dn <= nreq newP)%nat \/ exists q, In q newK /\ has_def q = false) ->
  ((length newP <= length dn)%nat \/ isSome (varargs (myS o)) = true) ->
  (forall p, In p dn -> has_def p = false ->
     (exists q, In q newP /\ has_def q = false /\ (pkind q = PO \/ (pkind p = PK /\ pname q = pname p)))
     \/ (pkind p = PK /\ exists q, In q newK /\ has_def q = false /\ pname q = pname p)) ->
  (forall q, (In q newP /\ pkind q = PK) \/ In q newK ->
     kwp_in o (pname q) \/ isSome (varkwargs (myS o)) = true) ->
  (forall p, In p (kwoargs (myS o)) -> has_def p = false ->
     find_param (pname p) (unm st o) = Some p ->
     find_param (pname p) (unm st' o) = Some p \/
     exists q, In q newK /\ has_def q = false /\ pname q = pname p) ->
  SInv o st d -> SInv o st' (d ++ dn).
Proof.
  intros Hp Hk C1 C3 Ck Cc Cko [S1 S3 Sk Sc Sko]. constructor.
  - rewrite nreq_app, (pstep_nreq _ _ _ Hp), Hk.
    destruct S1 as [S1|[q [Hq Hd]]].
    + destruct C1 as [C1|[q [Hq Hd]]]; [left; lia|].
      right. exists q. split; [apply in_or_app; right; exact Hq|exact Hd].
    + right. exists q. split; [apply in_or_app; left; exact Hq|exact Hd].
  - rewrite app_length, (pstep_length _ _ _ Hp).
    destruct S3 as [S3|S3]; [|right; exact S3]. destruct C3 as [C3|C3]; [left; lia|right; exact C3].
  - intros p Hin Hd. apply in_app_or in Hin. destruct Hin as [Hin|Hin].
    + destruct (Sk p Hin Hd) as [[q [Hq [Hqd Hqk]]]|[Hpk [q [Hq Hr]]]].
      * left. destruct (pstep_fwd _ _ _ _ Hp Hq) as [v [Hv Hc]]. exists v. split; [exact Hv|].
        split; [rewrite (cv_has_def _ _ Hc); exact Hqd|].
        destruct Hc as [->| ->]; [exact Hqk|left; reflexivity].
      * right. split; [exact Hpk|]. exists q. split; [rewrite Hk; apply in_or_app; left; exact Hq|exact Hr].
    + destruct (Ck p Hin Hd) as [[q [Hq Hr]]|[Hpk [q [Hq Hr]]]].
      * left. exists q. split; [exact (pstep_new _ _ _ _ Hp Hq)|exact Hr].
      * right. split; [exact Hpk|]. exists q. split; [rewrite Hk; apply in_or_app; right; exact Hq|exact Hr].
  - intros q [[Hq Hqk]|Hq].
    + destruct (pstep_bwd _ _ _ _ Hp Hq) as [Hn|[u [Hu [->| E]]]].
      * apply Cc. left. auto.
      * apply Sc. left. auto.
      * subst q. cbn in Hqk. discriminate.
    + rewrite Hk in Hq. apply in_app_or in Hq. destruct Hq as [Hq|Hq]; [apply Sc; right; exact Hq|].
      apply Cc. right. exact Hq.
  - intros p Hp' Hd. destruct (Sko p Hp' Hd) as [[q [Hq Hr]]|Hf].
    + left. exists q. split; [rewrite Hk; apply in_or_app; left; exact Hq|exact Hr].
    + destruct (Cko p Hp' Hd Hf) as [Hf'|[q [Hq Hr]]]; [right; exact Hf'|].
      left. exists q. split; [rewrite Hk; apply in_or_app; right; exact Hq|exact Hr].
Qed.

(* the state changed in ways the invariants do not see *)
Lemma sinv_same o st st' d :
  RP st' = RP st -> m_kwo st' = m_kwo st -> unm st' o = unm st o -> SInv o st d -> SInv o st' d.
Proof.
  intros E1 E2 E3 [S1 S3 Sk Sc Sko]. constructor; rewrite ?E1, ?E2, ?E3; assumption.
Qed.

Lemma gk_same st st' : RP st' = RP st -> m_kwo st' = m_kwo st -> GK st -> GK st'.
Proof. intros E1 E2 [G1 G2]. constructor; rewrite ?E1, ?E2; assumption. Qed.

Lemma gu_same o st st' : m_kwo st' = m_kwo st -> unm st' o = unm st o -> GU o st -> GU o st'.
Proof. intros E2 E3 [G1 G2 G3]. constructor; rewrite ?E2, ?E3; assumption. Qed.

Lemma ginv_same st st' :
  RP st' = RP st -> m_kwo st' = m_kwo st -> (forall o, unm st' o = unm st o) -> GInv st -> GInv st'.
Proof.
  intros E1 E2 E3 (G1 & G2 & G3 & G4). split; [|split; [|split]].
  - apply (gk_same st); assumption.
  - apply (gu_same L st); auto.
  - apply (gu_same R st); auto.
  - unfold GD. pose proof (E3 L) as EL. pose proof (E3 R) as ER. cbn [unm] in EL, ER.
    rewrite EL, ER. exact G4.
Qed.

(* a step that leaves the unmatched keyword-only lists alone *)
Lemma ginv_grow_pos st st' newP :
  pstep (RP st) (RP st') newP -> m_kwo st' = m_kwo st -> (forall o, unm st' o = unm st o) ->
  (forall q, In q newP -> is_positional q = true) ->
  GInv st -> GInv st'.
Proof.
  intros Hp Hk Hu HP (G1 & G2 & G3 & G4). split; [|split; [|split]].
  - apply (gk_grow st st' newP []); auto; [rewrite app_nil_r; exact Hk|intros q []].
  - apply (gu_same L st); auto.
  - apply (gu_same R st); auto.
  - unfold GD. pose proof (Hu L) as EL. pose proof (Hu R) as ER. cbn [unm] in EL, ER.
    rewrite EL, ER. exact G4.
Qed.

(* a positional step seen from side o: dn are the parameters of o consumed *)
Lemma sinv_grow_pos o st st' d dn newP :
  pstep (RP st) (RP st') newP -> m_kwo st' = m_kwo st -> unm st' o = unm st o ->
  (nreq dn <= nreq newP)%nat ->
  ((length newP <= length dn)%nat \/ isSome (varargs (myS o)) = true) ->
  (forall p, In p dn -> has_def p = false ->
     exists q, In q newP /\ has_def q = false /\ (pkind q = PO \/ (pkind p = PK /\ pname q = pname p))) ->
  (forall q, In q newP -> pkind q = PK -> kwp_in o (pname q) \/ isSome (varkwargs (myS o)) = true) ->
  SInv o st d -> SInv o st' (d ++ dn).
Proof.
  intros Hp Hk Hu C1 C3 Ck Cc HS.
  apply (sinv_grow o st st' d dn newP []); auto.
  - rewrite app_nil_r. exact Hk.
  - intros q [[Hq Hqk]|[]]. auto.
  - intros p _ _ Hf. left. rewrite Hu. exact Hf.
Qed.


(* ------------------------------------------------------------------ *)
(* small facts used by the stage lemmas                                 *)

Lemma side_cases (o s : side) : o = s \/ o = flip s.
Proof. destruct o, s; auto. Qed.

Lemma flip_flip s : flip (flip s) = s.
Proof. destruct s; reflexivity. Qed.

Lemma nreq_single_le e c : (has_def e = false -> has_def c = false) -> (nreq [e] <= nreq [c])%nat.
Proof.
  intros H. rewrite !nreq_cons, nreq_nil. destruct (has_def e); [lia|]. rewrite (H eq_refl). lia.
Qed.

Lemma concile_req_l a b : has_def a = false -> has_def (concile a b) = false.
Proof. intros H. rewrite concile_optional_iff, H. reflexivity. Qed.

Lemma concile_req_r a b : has_def b = false -> has_def (concile a b) = false.
Proof. intros H. rewrite concile_optional_iff, H. apply andb_false_r. Qed.

Lemma positional_kind q : pkind q = PO \/ pkind q = PK -> is_positional q = true.
Proof. unfold is_positional. intros [-> | ->]; reflexivity. Qed.

Lemma incl_cons_l {A} (a : A) l1 l2 : incl (a :: l1) l2 -> In a l2 /\ incl l1 l2.
Proof. intros H. split; [apply H; left; reflexivity|intros x Hx; apply H; right; exact Hx]. Qed.

Lemma incl_app_r_inv {A} (a b c : list A) : incl (a ++ b) c -> incl b c.
Proof. intros H x Hx. apply H. apply in_or_app. right. exact Hx. Qed.

(* ------------------------------------------------------------------ *)
(* zip_pos                                                              *)

Lemma unb_pos1_inv s e conv st st' conv' ds dt :
  In e (posargs (myS s)) -> incl conv (pokargs (myS (flip s))) ->
  unb_pos1 l r s e conv st = Ok (st', conv') ->
  GInv st -> SInv s st ds -> SInv (flip s) st dt ->
  exists pc, conv = pc ++ conv' /\ GInv st' /\ SInv s st' (ds ++ [e]) /\
             SInv (flip s) st' (dt ++ pc) /\ m_kwo st' = m_kwo st.
Proof.
  intros He Hc E G Ss St. pose proof (po_kind s e He) as Hek.
  unfold unb_pos1 in E. destruct conv as [|o conv0].
  - destruct (isSome (varargs (other l r s))) eqn:Eva.
    + remember (excl_va (add_src1 l r (set_pos st (m_pos st ++ [e])) (pname e) s)
                        (match s with L => R | R => L end)) as st1 eqn:Est.
      inversion E; subst st' conv'; clear E. exists [].
      assert (P : pstep (RP st) (RP st1) [e]) by (apply pstep_pos; rewrite Est; destruct s; reflexivity).
      assert (K : m_kwo st1 = m_kwo st) by (rewrite Est; destruct s; reflexivity).
      assert (U : forall o, unm st1 o = unm st o) by (intros o; rewrite Est; destruct s, o; reflexivity).
      clear Est. split; [reflexivity|]. split; [|split; [|split]].
      * apply (ginv_grow_pos st st1 [e]); auto.
        intros q [<-|[]]. apply positional_kind. auto.
      * apply (sinv_grow_pos s st st1 ds [e] [e]); auto.
        -- intros p [<-|[]] Hd. exists e. split; [left; reflexivity|]. split; [exact Hd|left; exact Hek].
        -- intros q [<-|[]] Hk. congruence.
      * apply (sinv_grow_pos (flip s) st st1 dt [] [e]); auto.
        -- rewrite nreq_nil. lia.
        -- right. rewrite <- other_flip. exact Eva.
        -- intros p [].
        -- intros q [<-|[]] Hk. congruence.
      * exact K.
    + destruct (negb (has_def e)) eqn:Ed; [discriminate|]. inversion E; subst st' conv'; clear E.
      apply negb_false_iff in Ed. exists [].
      split; [reflexivity|]. split; [exact G|]. split; [|split].
      * apply (sinv_grow_pos s st st ds [e] []); auto using pstep_refl.
        -- rewrite nreq_cons, Ed, nreq_nil. lia.
        -- left. cbn. lia.
        -- intros p [<-|[]] Hd. congruence.
      * rewrite app_nil_r. exact St.
      * reflexivity.
  - remember (if N.eqb (pname o) (pname e)
              then add_src2 l r (set_pos st (m_pos st ++ [concile e o])) (pname e) s
                            (match s with L => R | R => L end)
              else add_src1 l r (set_pos st (m_pos st ++ [concile e o])) (pname e) s) as st1 eqn:Est.
    inversion E; subst st' conv'; clear E. exists [o].
    assert (P : pstep (RP st) (RP st1) [concile e o])
      by (apply pstep_pos; rewrite Est; destruct (N.eqb (pname o) (pname e)); reflexivity).
    assert (K : m_kwo st1 = m_kwo st) by (rewrite Est; destruct (N.eqb (pname o) (pname e)); reflexivity).
    assert (U : forall o', unm st1 o' = unm st o')
      by (intros o'; rewrite Est; destruct (N.eqb (pname o) (pname e)); destruct o'; reflexivity).
    clear Est.
    assert (Hck : pkind (concile e o) = PO) by exact Hek.
    split; [reflexivity|]. split; [|split; [|split]].
    + apply (ginv_grow_pos st st1 [concile e o]); auto.
      intros q [<-|[]]. apply positional_kind. auto.
    + apply (sinv_grow_pos s st st1 ds [e] [concile e o]); auto.
      * apply nreq_single_le. apply concile_req_l.
      * intros p [<-|[]] Hd. exists (concile e o). split; [left; reflexivity|].
        split; [apply concile_req_l; exact Hd|left; exact Hck].
      * intros q [<-|[]] Hk. congruence.
    + apply (sinv_grow_pos (flip s) st st1 dt [o] [concile e o]); auto.
      * apply nreq_single_le. apply concile_req_r.
      * intros p [<-|[]] Hd. exists (concile e o). split; [left; reflexivity|].
        split; [apply concile_req_r; exact Hd|left; exact Hck].
      * intros q [<-|[]] Hk. congruence.
    + exact K.
Qed.

Lemma unb_pos_all_inv s ps : forall conv st st' conv' ds dt,
  incl ps (posargs (myS s)) -> incl conv (pokargs (myS (flip s))) ->
  unb_pos_all l r s ps conv st = Ok (st', conv') ->
  GInv st -> SInv s st ds -> SInv (flip s) st dt ->
  exists pc, conv = pc ++ conv' /\ GInv st' /\ SInv s st' (ds ++ ps) /\
             SInv (flip s) st' (dt ++ pc) /\ m_kwo st' = m_kwo st.
Proof.
  induction ps as [|e ps IH]; intros conv st st' conv' ds dt Hps Hc E G Ss St.
  - cbn [unb_pos_all] in E. inversion E; subst st' conv'. exists []. rewrite !app_nil_r. auto.
  - cbn [unb_pos_all] in E. apply bind_ok in E. destruct E as [[st1 conv1] [E1 E2]]. cbn [fst snd] in E2.
    apply incl_cons_l in Hps. destruct Hps as [He Hps].
    destruct (unb_pos1_inv s e conv st st1 conv1 ds dt He Hc E1 G Ss St) as [pc1 (C1 & G1 & S1 & T1 & K1)].
    assert (Hc1 : incl conv1 (pokargs (myS (flip s)))) by (rewrite C1 in Hc; eapply incl_app_r_inv; exact Hc).
    destruct (IH conv1 st1 st' conv' (ds ++ [e]) (dt ++ pc1) Hps Hc1 E2 G1 S1 T1) as [pc2 (C2 & G2 & S2 & T2 & K2)].
    exists (pc1 ++ pc2). rewrite <- app_assoc in S2, T2. cbn [app] in S2.
    split; [rewrite C1, C2, app_assoc; reflexivity|]. split; [exact G2|]. split; [exact S2|].
    split; [exact T2|]. rewrite K2. exact K1.
Qed.

Lemma zip_pos_inv lp : forall rp il ir st st' il' ir' dl dr,
  incl lp (posargs l) -> incl rp (posargs r) -> incl il (pokargs l) -> incl ir (pokargs r) ->
  zip_pos l r lp rp il ir st = Ok (st', il', ir') ->
  GInv st -> SInv L st dl -> SInv R st dr ->
  exists pl pr, il = pl ++ il' /\ ir = pr ++ ir' /\
    GInv st' /\ SInv L st' (dl ++ lp ++ pl) /\ SInv R st' (dr ++ rp ++ pr) /\ m_kwo st' = m_kwo st.
Proof.
  induction lp as [|a lp IH]; intros rp il ir st st' il' ir' dl dr Hlp Hrp Hil Hir E G SL SR.
  - cbn [zip_pos] in E. apply bind_ok in E. destruct E as [[st1 conv1] [E1 E2]]. cbn [fst snd] in E2.
    inversion E2; subst st' il' ir'; clear E2.
    destruct (unb_pos_all_inv R rp il st st1 conv1 dr dl Hrp Hil E1 G SR SL) as [pc (C & G1 & S1 & T1 & K1)].
    exists pc, []. cbn [app]. rewrite app_nil_r. auto 10.
  - destruct rp as [|b rp].
    + cbn [zip_pos] in E. apply bind_ok in E. destruct E as [[st1 conv1] [E1 E2]]. cbn [fst snd] in E2.
      inversion E2; subst st' il' ir'; clear E2.
      destruct (unb_pos_all_inv L (a :: lp) ir st st1 conv1 dl dr Hlp Hir E1 G SL SR) as [pc (C & G1 & S1 & T1 & K1)].
      exists [], pc. cbn [app]. rewrite app_nil_r. auto 10.
    + cbn [zip_pos] in E.
      apply incl_cons_l in Hlp. destruct Hlp as [Ha Hlp]. apply incl_cons_l in Hrp. destruct Hrp as [Hb Hrp].
      pose proof (po_kind L a Ha) as Hak.
      remember (if N.eqb (pname a) (pname b)
                then add_src2 l r (set_pos st (m_pos st ++ [concile a b])) (pname a) L R
                else add_src1 l r (set_pos st (m_pos st ++ [concile a b])) (pname a) L) as st1 eqn:Est.
      assert (P : pstep (RP st) (RP st1) [concile a b])
        by (apply pstep_pos; rewrite Est; destruct (N.eqb (pname a) (pname b)); reflexivity).
      assert (K : m_kwo st1 = m_kwo st) by (rewrite Est; destruct (N.eqb (pname a) (pname b)); reflexivity).
      assert (U : forall o', unm st1 o' = unm st o')
        by (intros o'; rewrite Est; destruct (N.eqb (pname a) (pname b)); destruct o'; reflexivity).
      clear Est.
      assert (Hck : pkind (concile a b) = PO) by exact Hak.
      assert (G1 : GInv st1).
      { apply (ginv_grow_pos st st1 [concile a b]); auto.
        intros q [<-|[]]. apply positional_kind. auto. }
      assert (S1 : SInv L st1 (dl ++ [a])).
      { apply (sinv_grow_pos L st st1 dl [a] [concile a b]); auto.
        - apply nreq_single_le. apply concile_req_l.
        - intros p [<-|[]] Hd. exists (concile a b). split; [left; reflexivity|].
          split; [apply concile_req_l; exact Hd|left; exact Hck].
        - intros q [<-|[]] Hk. congruence. }
      assert (T1 : SInv R st1 (dr ++ [b])).
      { apply (sinv_grow_pos R st st1 dr [b] [concile a b]); auto.
        - apply nreq_single_le. apply concile_req_r.
        - intros p [<-|[]] Hd. exists (concile a b). split; [left; reflexivity|].
          split; [apply concile_req_r; exact Hd|left; exact Hck].
        - intros q [<-|[]] Hk. congruence. }
      destruct (IH rp il ir st1 st' il' ir' (dl ++ [a]) (dr ++ [b]) Hlp Hrp Hil Hir E G1 S1 T1)
        as [pl [pr (C1 & C2 & G2 & S2 & T2 & K2)]].
      exists pl, pr. rewrite <- app_assoc in S2, T2. cbn [app] in S2, T2.
      split; [exact C1|]. split; [exact C2|]. split; [exact G2|]. split; [exact S2|]. split; [exact T2|].
      rewrite K2. exact K.
Qed.


(* ------------------------------------------------------------------ *)
(* zip_pok                                                              *)

Lemma ginv_sides s st : GK st -> GU s st -> GU (flip s) st -> GD st -> GInv st.
Proof. intros A B C D. unfold GInv. destruct s; cbn [flip] in *; auto. Qed.

Lemma ginv_gu o st : GInv st -> GU o st.
Proof. intros (_ & A & B & _). destruct o; assumption. Qed.

Lemma unb_pok1_inv s e st st' ds dt :
  In e (pokargs (myS s)) -> ~ In (pname e) (names_of (m_kwo st)) ->
  unb_pok1 l r s e st = Ok st' ->
  GInv st -> SInv s st ds -> SInv (flip s) st dt ->
  GInv st' /\ SInv s st' (ds ++ [e]) /\ SInv (flip s) st' dt /\
  (forall x, In x (names_of (m_kwo st')) -> In x (names_of (m_kwo st)) \/ x = pname e).
Proof.
  intros He Hfr E G Ss St. pose proof (pk_kind s e He) as Hek.
  destruct G as (GKst & GL & GR & GDst).
  assert (GUs : GU s st) by (destruct s; assumption).
  assert (GUf : GU (flip s) st) by (destruct s; assumption).
  assert (Hstatic : forall y, In y (names_of (unm st s)) -> y <> pname e).
  { intros y Hy E'. apply names_in in Hy. destruct Hy as [p' [Hp' Ey]].
    apply (pk_ko_disj s e p' He); [apply (g_fc _ _ GUs); exact Hp'|congruence]. }
  unfold unb_pok1 in E.
  change (match s with L => R | R => L end) with (flip s) in E.
  destruct (find_param (pname e) (unm st (flip s))) as [q|] eqn:Ef.
  - (* the other side has an unmatched keyword-only parameter of that name *)
    destruct (find_param_In _ _ _ Ef) as [Hq Hqn].
    pose proof (g_fc _ _ GUf q Hq) as Hqko.
    set (c := set_kind KO (concile e q)) in *.
    remember (add_src2 l r
                (set_kwo (set_unm st (flip s) (remove_param (pname e) (unm st (flip s))))
                   (od_set (m_kwo (set_unm st (flip s) (remove_param (pname e) (unm st (flip s))))) c))
                (pname e) (flip s) s) as st1 eqn:Est.
    inversion E; subst st'; clear E.
    assert (K0 : m_kwo st1 = od_set (m_kwo st) c) by (rewrite Est; destruct s; reflexivity).
    assert (K : m_kwo st1 = m_kwo st ++ [c]) by (rewrite K0; apply od_set_snoc; exact Hfr).
    assert (P : RP st1 = RP st) by (rewrite Est; destruct s; reflexivity).
    assert (Us : unm st1 s = unm st s) by (rewrite Est; destruct s; reflexivity).
    assert (Uf : unm st1 (flip s) = remove_param (pname e) (unm st (flip s)))
      by (rewrite Est; destruct s; reflexivity).
    clear Est K0.
    assert (Hcd : has_def e = false \/ has_def q = false -> has_def c = false).
    { intros [H|H]; unfold c; cbn [set_kind has_def pdef];
        [apply (concile_req_l e q H)|apply (concile_req_r e q H)]. }
    assert (Hin : forall o p, In p (unm st1 o) -> In p (unm st o)).
    { intros o p Hp. destruct (side_cases o s) as [-> | ->].
      - rewrite Us in Hp. exact Hp.
      - rewrite Uf in Hp. eapply In_remove. exact Hp. }
    split; [|split; [|split]].
    + apply (ginv_sides s).
      * apply (gk_grow st st1 [] [c]); auto using pstep_same.
        intros p [<-|[]]. reflexivity.
      * apply (gu_grow s st st1 [c]); auto.
        -- rewrite Us. apply (g_fb _ _ GUs).
        -- rewrite Us. intros y Hy [Hc|[]]. apply (Hstatic y Hy). symmetry. exact Hc.
      * apply (gu_grow (flip s) st st1 [c]); auto.
        -- rewrite Uf. apply NoDup_names_remove. apply (g_fb _ _ GUf).
        -- rewrite Uf. intros y Hy [Hc|[]]. apply names_remove in Hy. destruct Hy as [Hy _].
           apply Hy. symmetry. exact Hc.
      * apply (gd_grow st st1); auto.
    + apply (sinv_grow s st st1 ds [e] [] [c]); auto using pstep_same.
      * destruct (has_def e) eqn:Ed.
        -- left. rewrite nreq_cons, Ed, nreq_nil. lia.
        -- right. exists c. split; [left; reflexivity|apply Hcd; left; reflexivity].
      * left. cbn. lia.
      * intros p [<-|[]] Hd. right. split; [exact Hek|]. exists c.
        split; [left; reflexivity|]. split; [apply Hcd; left; exact Hd|reflexivity].
      * intros p [[[] _]|[<-|[]]]. left. apply (kwp_pk s e He).
      * intros p _ _ Hf. left. rewrite Us. exact Hf.
    + rewrite <- (app_nil_r dt). apply (sinv_grow (flip s) st st1 dt [] [] [c]); auto using pstep_same.
      * intros p [].
      * intros p [[[] _]|[<-|[]]]. left. change (pname c) with (pname e). rewrite <- Hqn.
        apply (kwp_ko (flip s) q Hqko).
      * intros p Hp Hd Hf. destruct (N.eq_dec (pname p) (pname e)) as [En|En].
        -- right. rewrite En, Ef in Hf. inversion Hf; subst q. exists c.
           split; [left; reflexivity|]. split; [apply Hcd; right; exact Hd|]. symmetry. exact En.
        -- left. rewrite Uf. rewrite find_param_remove_other; [exact Hf|]. intros En'. apply En. symmetry. exact En'.
    + intros x Hx. rewrite K, names_app in Hx. apply in_app_or in Hx. destruct Hx as [Hx|[Hx|[]]]; [left; exact Hx|].
      right. symmetry. exact Hx.
  - destruct (isSome (varargs (other l r s)) && isSome (varkwargs (other l r s))) eqn:Eb.
    + (* both stars on the other side: stays positional-or-keyword *)
      apply andb_true_iff in Eb. destruct Eb as [Eva Evk]. rewrite other_flip in Eva, Evk.
      remember (add_src1 l r (set_pok st (m_pok st ++ [e])) (pname e) s) as st1 eqn:Est.
      inversion E; subst st'; clear E.
      assert (P : pstep (RP st) (RP st1) [e]) by (apply pstep_pok; rewrite Est; reflexivity).
      assert (K : m_kwo st1 = m_kwo st) by (rewrite Est; reflexivity).
      assert (U : forall o, unm st1 o = unm st o) by (intros o; rewrite Est; destruct o; reflexivity).
      clear Est. split; [|split; [|split]].
      * apply (ginv_grow_pos st st1 [e]); auto; [|unfold GInv; auto].
        intros p [<-|[]]. apply positional_kind. auto.
      * apply (sinv_grow_pos s st st1 ds [e] [e]); auto.
        -- intros p [<-|[]] Hd. exists e. split; [left; reflexivity|]. split; [exact Hd|right; auto].
        -- intros p [<-|[]] _. left. apply (kwp_pk s e He).
      * rewrite <- (app_nil_r dt). apply (sinv_grow_pos (flip s) st st1 dt [] [e]); auto.
        -- rewrite nreq_nil. lia.
        -- intros p [].
      * intros x Hx. left. rewrite K in Hx. exact Hx.
    + destruct (isSome (varkwargs (other l r s))) eqn:Evk.
      * (* star-kwargs only: becomes keyword-only *)
        rewrite other_flip in Evk.
        set (c := set_kind KO e) in *.
        remember (add_src1 l r (set_kwo st (od_set (m_kwo st) c)) (pname e) s) as st1 eqn:Est.
        inversion E; subst st'; clear E.
        assert (K0 : m_kwo st1 = od_set (m_kwo st) c) by (rewrite Est; reflexivity).
        assert (K : m_kwo st1 = m_kwo st ++ [c]) by (rewrite K0; apply od_set_snoc; exact Hfr).
        assert (P : RP st1 = RP st) by (rewrite Est; reflexivity).
        assert (U : forall o, unm st1 o = unm st o) by (intros o; rewrite Est; destruct o; reflexivity).
        clear Est K0.
        apply find_param_None in Ef.
        split; [|split; [|split]].
        -- apply (ginv_sides s).
           ++ apply (gk_grow st st1 [] [c]); auto using pstep_same.
              intros p [<-|[]]. reflexivity.
           ++ apply (gu_grow s st st1 [c]); auto.
              ** rewrite U. auto.
              ** rewrite U. apply (g_fb _ _ GUs).
              ** rewrite U. intros y Hy [Hc|[]]. apply (Hstatic y Hy). symmetry. exact Hc.
           ++ apply (gu_grow (flip s) st st1 [c]); auto.
              ** rewrite U. auto.
              ** rewrite U. apply (g_fb _ _ GUf).
              ** rewrite U. intros y Hy [Hc|[]]. apply Ef. change (pname c) with (pname e) in Hc.
                 rewrite Hc. exact Hy.
           ++ apply (gd_grow st st1); auto. intros o p. rewrite U. auto.
        -- apply (sinv_grow s st st1 ds [e] [] [c]); auto using pstep_same.
           ++ destruct (has_def e) eqn:Ed.
              ** left. rewrite nreq_cons, Ed, nreq_nil. lia.
              ** right. exists c. split; [left; reflexivity|exact Ed].
           ++ left. cbn. lia.
           ++ intros p [<-|[]] Hd. right. split; [exact Hek|]. exists c.
              split; [left; reflexivity|]. split; [exact Hd|reflexivity].
           ++ intros p [[[] _]|[<-|[]]]. left. apply (kwp_pk s e He).
           ++ intros p _ _ Hf. left. rewrite U. exact Hf.
        -- rewrite <- (app_nil_r dt). apply (sinv_grow (flip s) st st1 dt [] [] [c]); auto using pstep_same.
           ++ intros p [].
           ++ intros p _ _ Hf. left. rewrite U. exact Hf.
        -- intros x Hx. rewrite K, names_app in Hx. apply in_app_or in Hx.
           destruct Hx as [Hx|[Hx|[]]]; [left; exact Hx|]. right. symmetry. exact Hx.
      * destruct (isSome (varargs (other l r s))) eqn:Eva.
        -- (* star-args only: everything so far becomes positional-only *)
           rewrite other_flip in Eva.
           remember (add_src1 l r
                       (set_pok (set_pos st (m_pos st ++ map (set_kind PO) (m_pok st) ++ [set_kind PO e])) [])
                       (pname e) s) as st1 eqn:Est.
           inversion E; subst st'; clear E.
           assert (P : pstep (RP st) (RP st1) [set_kind PO e])
             by (apply pstep_conv_pos; rewrite Est; reflexivity).
           assert (K : m_kwo st1 = m_kwo st) by (rewrite Est; reflexivity).
           assert (U : forall o, unm st1 o = unm st o) by (intros o; rewrite Est; destruct o; reflexivity).
           clear Est. split; [|split; [|split]].
           ++ apply (ginv_grow_pos st st1 [set_kind PO e]); auto; [|unfold GInv; auto].
              intros p [<-|[]]. reflexivity.
           ++ apply (sinv_grow_pos s st st1 ds [e] [set_kind PO e]); auto.
              ** apply nreq_single_le. intros H. exact H.
              ** intros p [<-|[]] Hd. exists (set_kind PO e). split; [left; reflexivity|].
                 split; [exact Hd|left; reflexivity].
              ** intros p [<-|[]] Hk. cbn in Hk. discriminate.
           ++ rewrite <- (app_nil_r dt). apply (sinv_grow_pos (flip s) st st1 dt [] [set_kind PO e]); auto.
              ** rewrite nreq_nil. lia.
              ** intros p [].
              ** intros p [<-|[]] Hk. cbn in Hk. discriminate.
           ++ intros x Hx. left. rewrite K in Hx. exact Hx.
        -- destruct (negb (has_def e)) eqn:Ed; [discriminate|]. inversion E; subst st'; clear E.
           apply negb_false_iff in Ed.
           split; [unfold GInv; auto|]. split; [|split; [exact St|auto]].
           apply (sinv_grow_pos s st st ds [e] []); auto using pstep_refl.
           ++ rewrite nreq_cons, Ed, nreq_nil. lia.
           ++ left. cbn. lia.
           ++ intros p [<-|[]] Hd. congruence.
Qed.

Lemma unb_pok_all_inv s ps : forall st st' ds dt,
  NoDup (names_of ps) -> incl ps (pokargs (myS s)) ->
  (forall x, In x (names_of ps) -> ~ In x (names_of (m_kwo st))) ->
  unb_pok_all l r s ps st = Ok st' ->
  GInv st -> SInv s st ds -> SInv (flip s) st dt ->
  GInv st' /\ SInv s st' (ds ++ ps) /\ SInv (flip s) st' dt.
Proof.
  induction ps as [|e ps IH]; intros st st' ds dt Hn Hps Hfr E G Ss St.
  - cbn [unb_pok_all] in E. inversion E; subst st'. rewrite app_nil_r. auto.
  - cbn [unb_pok_all] in E. apply bind_ok in E. destruct E as [st1 [E1 E2]].
    apply incl_cons_l in Hps. destruct Hps as [He Hps].
    cbn [names_of map] in Hn. inversion Hn as [|? ? Hne Hn']; subst.
    assert (Hfe : ~ In (pname e) (names_of (m_kwo st))) by (apply Hfr; left; reflexivity).
    destruct (unb_pok1_inv s e st st1 ds dt He Hfe E1 G Ss St) as (G1 & S1 & T1 & Hk1).
    assert (Hfr1 : forall x, In x (names_of ps) -> ~ In x (names_of (m_kwo st1))).
    { intros x Hx Hc. destruct (Hk1 x Hc) as [Hc'| ->].
      - apply (Hfr x); [right; exact Hx|exact Hc'].
      - apply Hne. exact Hx. }
    destruct (IH st1 st' (ds ++ [e]) dt Hn' Hps Hfr1 E2 G1 S1 T1) as (G2 & S2 & T2).
    rewrite <- app_assoc in S2. cbn [app] in S2. auto.
Qed.

Lemma nodup_names_cons (p : param) ps : NoDup (names_of (p :: ps)) -> NoDup (names_of ps).
Proof. cbn [names_of map]. intros H. inversion H; assumption. Qed.

Lemma zip_pok_inv il : forall ir st st' dl dr,
  NoDup (names_of il) -> NoDup (names_of ir) -> incl il (pokargs l) -> incl ir (pokargs r) ->
  (forall x, In x (names_of (m_kwo st)) -> In x (names_of (kwoargs l)) /\ In x (names_of (kwoargs r))) ->
  zip_pok l r il ir st = Ok st' ->
  GInv st -> SInv L st dl -> SInv R st dr ->
  GInv st' /\ SInv L st' (dl ++ il) /\ SInv R st' (dr ++ ir).
Proof.
  assert (Hfresh : forall o ps st,
            incl ps (pokargs (myS o)) ->
            (forall x, In x (names_of (m_kwo st)) -> In x (names_of (kwoargs l)) /\ In x (names_of (kwoargs r))) ->
            forall x, In x (names_of ps) -> ~ In x (names_of (m_kwo st))).
  { intros o ps st Hps Hk x Hx Hc. apply names_in in Hx. destruct Hx as [e [He <-]].
    assert (Hko : In (pname e) (names_of (kwoargs (myS o)))) by (destruct (Hk _ Hc); destruct o; assumption).
    apply names_in in Hko. destruct Hko as [p [Hp Ep]].
    apply (pk_ko_disj o e p (Hps e He) Hp). symmetry. exact Ep. }
  induction il as [|a il IH]; intros ir st st' dl dr Nil Nir Hil Hir Hk E G SL SR.
  - cbn [zip_pok] in E.
    destruct (unb_pok_all_inv R ir st st' dr dl Nir Hir (Hfresh R ir st Hir Hk) E G SR SL) as (G1 & S1 & T1).
    rewrite app_nil_r. auto.
  - destruct ir as [|b ir].
    + cbn [zip_pok] in E.
      destruct (unb_pok_all_inv L (a :: il) st st' dl dr Nil Hil (Hfresh L (a :: il) st Hil Hk) E G SL SR)
        as (G1 & S1 & T1).
      rewrite app_nil_r. auto.
    + cbn [zip_pok] in E.
      apply incl_cons_l in Hil. destruct Hil as [Ha Hil]. apply incl_cons_l in Hir. destruct Hir as [Hb Hir].
      pose proof (pk_kind L a Ha) as Hak. pose proof (pk_kind R b Hb) as Hbk.
      apply nodup_names_cons in Nil. apply nodup_names_cons in Nir.
      destruct (N.eqb_spec (pname a) (pname b)) as [Eab|Nab].
      * remember (add_src2 l r (set_pok st (m_pok st ++ [concile a b])) (pname a) L R) as st1 eqn:Est.
        assert (P : pstep (RP st) (RP st1) [concile a b]) by (apply pstep_pok; rewrite Est; reflexivity).
        assert (K : m_kwo st1 = m_kwo st) by (rewrite Est; reflexivity).
        assert (U : forall o', unm st1 o' = unm st o') by (intros o'; rewrite Est; destruct o'; reflexivity).
        clear Est.
        assert (Hck : pkind (concile a b) = PK) by exact Hak.
        assert (G1 : GInv st1).
        { apply (ginv_grow_pos st st1 [concile a b]); auto.
          intros q [<-|[]]. apply positional_kind. auto. }
        assert (S1 : SInv L st1 (dl ++ [a])).
        { apply (sinv_grow_pos L st st1 dl [a] [concile a b]); auto.
          - apply nreq_single_le. apply concile_req_l.
          - intros p [<-|[]] Hd. exists (concile a b). split; [left; reflexivity|].
            split; [apply concile_req_l; exact Hd|right; auto].
          - intros q [<-|[]] _. left. apply (kwp_pk L a Ha). }
        assert (T1 : SInv R st1 (dr ++ [b])).
        { apply (sinv_grow_pos R st st1 dr [b] [concile a b]); auto.
          - apply nreq_single_le. apply concile_req_r.
          - intros p [<-|[]] Hd. exists (concile a b). split; [left; reflexivity|].
            split; [apply concile_req_r; exact Hd|right; auto].
          - intros q [<-|[]] _. left. change (pname (concile a b)) with (pname a). rewrite Eab.
            apply (kwp_pk R b Hb). }
        assert (Hk1 : forall x, In x (names_of (m_kwo st1)) ->
                                In x (names_of (kwoargs l)) /\ In x (names_of (kwoargs r)))
          by (rewrite K; exact Hk).
        destruct (IH ir st1 st' (dl ++ [a]) (dr ++ [b]) Nil Nir Hil Hir Hk1 E G1 S1 T1) as (G2 & S2 & T2).
        rewrite <- app_assoc in S2, T2. cbn [app] in S2, T2. auto.
      * remember (add_src1 l r
                    (set_pok st (map (set_kind PO) (m_pok st) ++ [set_kind PO (concile a b)]))
                    (pname a) L) as st1 eqn:Est.
        assert (P : pstep (RP st) (RP st1) [set_kind PO (concile a b)])
          by (apply pstep_conv_pok; rewrite Est; reflexivity).
        assert (K : m_kwo st1 = m_kwo st) by (rewrite Est; reflexivity).
        assert (U : forall o', unm st1 o' = unm st o') by (intros o'; rewrite Est; destruct o'; reflexivity).
        clear Est.
        assert (G1 : GInv st1).
        { apply (ginv_grow_pos st st1 [set_kind PO (concile a b)]); auto.
          intros q [<-|[]]. reflexivity. }
        assert (S1 : SInv L st1 (dl ++ [a])).
        { apply (sinv_grow_pos L st st1 dl [a] [set_kind PO (concile a b)]); auto.
          - apply nreq_single_le. intros H. apply (concile_req_l a b H).
          - intros p [<-|[]] Hd. exists (set_kind PO (concile a b)). split; [left; reflexivity|].
            split; [apply (concile_req_l a b Hd)|left; reflexivity].
          - intros q [<-|[]] Hq. cbn in Hq. discriminate. }
        assert (T1 : SInv R st1 (dr ++ [b])).
        { apply (sinv_grow_pos R st st1 dr [b] [set_kind PO (concile a b)]); auto.
          - apply nreq_single_le. intros H. apply (concile_req_r a b H).
          - intros p [<-|[]] Hd. exists (set_kind PO (concile a b)). split; [left; reflexivity|].
            split; [apply (concile_req_r a b Hd)|left; reflexivity].
          - intros q [<-|[]] Hq. cbn in Hq. discriminate. }
        assert (Hk1 : forall x, In x (names_of (m_kwo st1)) ->
                                In x (names_of (kwoargs l)) /\ In x (names_of (kwoargs r)))
          by (rewrite K; exact Hk).
        destruct (IH ir st1 st' (dl ++ [a]) (dr ++ [b]) Nil Nir Hil Hir Hk1 E G1 S1 T1) as (G2 & S2 & T2).
        rewrite <- app_assoc in S2, T2. cbn [app] in S2, T2. auto.
Qed.

End MS.
