(* Deciders.v — completeness of the extracted deciders that transform the call
   before asking `accepts` (mask / partial / forwarding chain).  A call is
   characterised, as far as a family of signatures can tell, by
   min(npos, M+1), which of the family's names it uses, and whether it uses any
   other keyword; the transformations respect that equivalence. *)
From Sigtools.Model Require Import Base Bind Roles Algebra.
From Sigtools.Proofs Require Import SmallModel.
From Coq Require Import Lia Btauto.

Definition has_foreign (ns ks : list name) : bool := existsb (fun k => negb (mem k ns)) ks.

Definition call_equiv (M : nat) (ns : list name) (c c' : call) : Prop :=
  Nat.min (npos c) (S M) = Nat.min (npos c') (S M) /\
  (forall k, In k ns -> mem k (kws c) = mem k (kws c')) /\
  has_foreign ns (kws c) = has_foreign ns (kws c').

Lemma call_equiv_sym M ns c c' : call_equiv M ns c c' -> call_equiv M ns c' c.
Proof. intros [A [B C]]. repeat split; auto. intros k Hk. symmetry. auto. Qed.

Lemma mem_fresh_norm ns fresh ks :
  ~ In fresh ns -> mem fresh (norm_kws ns fresh ks) = has_foreign ns ks.
Proof.
  intros Hf. unfold norm_kws, has_foreign. induction ks as [|k ks IH]; simpl; [reflexivity|].
  rewrite IH. f_equal. destruct (mem k ns) eqn:Hk; simpl.
  - apply mem_In in Hk. destruct (N.eqb_spec fresh k) as [->|]; [contradiction|reflexivity].
  - apply N.eqb_refl.
Qed.

Lemma filter_ext_in' {A} (f g : A -> bool) l :
  (forall x, In x l -> f x = g x) -> filter f l = filter g l.
Proof.
  induction l as [|x l IH]; intros H; simpl; [reflexivity|].
  rewrite (H x) by (left; reflexivity). rewrite IH; [reflexivity|].
  intros y Hy. apply H. right. exact Hy.
Qed.

Lemma canon_equiv M ns fresh c c' :
  ~ In fresh ns -> call_equiv M ns c c' -> canon M ns fresh c = canon M ns fresh c'.
Proof.
  intros Hf [A [B C]]. unfold canon. rewrite A. f_equal.
  apply filter_ext_in'. intros x Hx. apply in_app_or in Hx. destruct Hx as [Hx|[<-|[]]].
  - rewrite !mem_norm_kws by assumption. apply B. exact Hx.
  - rewrite !mem_fresh_norm by assumption. exact C.
Qed.

(* acceptance cannot tell equivalent calls apart *)
Theorem accepts_equiv ps M ns c c' :
  (length (positional ps) <= M)%nat -> incl (names_of ps) ns ->
  call_equiv M ns c c' -> accepts ps c = accepts ps c'.
Proof.
  intros HM Hi He.
  rewrite <- (accepts_canon ps M ns (fresh_for ns) c) by (auto using fresh_for_not_in).
  rewrite <- (accepts_canon ps M ns (fresh_for ns) c') by (auto using fresh_for_not_in).
  rewrite (canon_equiv M ns (fresh_for ns) c c' (fresh_for_not_in ns) He). reflexivity.
Qed.

Lemma existsb_app' {A} (f : A -> bool) l l' : existsb f (l ++ l') = existsb f l || existsb f l'.
Proof. induction l; simpl; [reflexivity|]. rewrite IHl, orb_assoc. reflexivity. Qed.

Lemma has_foreign_filter_own ns fresh (f : name -> bool) :
  ~ In fresh ns -> has_foreign ns (filter f (ns ++ [fresh])) = f fresh.
Proof.
  intros Hf. unfold has_foreign.
  assert (E : forall l, incl l ns -> existsb (fun k => negb (mem k ns)) (filter f l) = false).
  { induction l as [|x l IH]; intros Hl; simpl; [reflexivity|].
    assert (Hx : mem x ns = true) by (apply mem_In; apply Hl; left; reflexivity).
    assert (Hl' : incl l ns) by (intros y Hy; apply Hl; right; exact Hy).
    destruct (f x); simpl.
    - rewrite Hx. simpl. apply IH. exact Hl'.
    - apply IH. exact Hl'. }
  rewrite filter_app, existsb_app', (E ns (incl_refl _)). simpl.
  destruct (f fresh); simpl; [|reflexivity].
  assert (Hm : mem fresh ns = false) by (apply mem_false_In; exact Hf). rewrite Hm. reflexivity.
Qed.

(* the canonical representative is equivalent to the call it stands for *)
Lemma canon_is_equiv M ns fresh c :
  ~ In fresh ns -> call_equiv M ns (canon M ns fresh c) c.
Proof.
  intros Hf. unfold call_equiv, canon; cbn [npos kws]. repeat split.
  - lia.
  - intros k Hk. rewrite mem_filter, mem_app.
    assert (Hm : mem k ns = true) by (apply mem_In; exact Hk). rewrite Hm. simpl.
    apply mem_norm_kws; assumption.
  - rewrite has_foreign_filter_own by exact Hf. apply mem_fresh_norm. exact Hf.
Qed.

Lemma rep_is_equiv sigs c :
  call_equiv (max_pos sigs) (dedup (all_names sigs)) (rep_for sigs c) c.
Proof. apply canon_is_equiv. apply fresh_for_not_in. Qed.

(* ---- transformations respect the equivalence ---- *)
Lemma has_foreign_app ns a b : has_foreign ns (a ++ b) = has_foreign ns a || has_foreign ns b.
Proof. apply existsb_app'. Qed.

Lemma shift_equiv M ns n names0 c c' :
  call_equiv M ns c c' -> call_equiv M ns (shift_call n names0 c) (shift_call n names0 c').
Proof.
  intros [A [B C]]. unfold shift_call, call_equiv; cbn [npos kws]. repeat split.
  - lia.
  - intros k Hk. rewrite !mem_app, (B k Hk). reflexivity.
  - rewrite !has_foreign_app, C. reflexivity.
Qed.

Lemma existsb_const_false (l : list name) : existsb (fun _ : N => false) l = false.
Proof. induction l; simpl; auto. Qed.

Lemma disjointb_alt ks names0 :
  disjointb ks names0 = negb (existsb (fun x => mem x ks) names0).
Proof.
  unfold disjointb. induction ks as [|k ks IH]; simpl.
  - rewrite existsb_const_false. reflexivity.
  - rewrite IH. clear IH.
    induction names0 as [|y l IHl]; simpl; [reflexivity|].
    rewrite !negb_orb, <- IHl, (N.eqb_sym y k). btauto.
Qed.

Lemma existsb_ext_in {A} (f g : A -> bool) l :
  (forall x, In x l -> f x = g x) -> existsb f l = existsb g l.
Proof.
  induction l as [|x l IH]; intros H; simpl; [reflexivity|].
  rewrite (H x) by (left; reflexivity). rewrite IH; [reflexivity|].
  intros y Hy. apply H. right. exact Hy.
Qed.

Lemma disjointb_equiv M ns names0 c c' :
  call_equiv M ns c c' -> incl names0 ns ->
  disjointb (kws c) names0 = disjointb (kws c') names0.
Proof.
  intros [_ [B _]] Hi. rewrite !disjointb_alt. f_equal.
  apply existsb_ext_in. intros x Hx. apply B. apply Hi. exact Hx.
Qed.

(* keywords may be overridden by the call (functools.partial) *)
Lemma partial_equiv M ns n names0 c c' :
  call_equiv M ns c c' -> call_equiv M ns (partial_call n names0 c) (partial_call n names0 c').
Proof.
  intros [A [B C]]. unfold partial_call, call_equiv; cbn [npos kws]. repeat split.
  - lia.
  - intros k Hk. rewrite !mem_app, !mem_filter, (B k Hk). reflexivity.
  - rewrite !has_foreign_app, C.
    destruct (has_foreign ns (kws c')) eqn:Hfc; [rewrite !orb_true_r; reflexivity|].
    rewrite !orb_false_r.
    (* neither call uses a foreign keyword: the filters agree on every name *)
    assert (Hc : forall ks, has_foreign ns ks = false -> forall k, mem k ns = false -> mem k ks = false).
    { unfold has_foreign. induction ks as [|y ks IH]; simpl; intros H k Hk; [reflexivity|].
      apply orb_false_iff in H. destruct H as [H1 H2]. rewrite (IH H2 k Hk).
      destruct (N.eqb_spec k y) as [->|]; [|reflexivity]. rewrite Hk in H1. discriminate. }
    f_equal. apply filter_ext_in'. intros k Hk. f_equal.
    destruct (mem k ns) eqn:Hm.
    + apply B. apply mem_In. exact Hm.
    + rewrite (Hc (kws c) C k Hm), (Hc (kws c') Hfc k Hm). reflexivity.
Qed.

(* noncolliding only looks at the names of the inputs *)
Lemma noncolliding_alt c r inputs :
  noncolliding c r inputs =
  negb (existsb (fun x => mem x (kws c) && negb (kwpassable_name r x)) (all_names inputs)).
Proof.
  unfold noncolliding. generalize (all_names inputs) as l. intros l.
  induction (kws c) as [|k ks IH]; simpl.
  - rewrite existsb_const_false. reflexivity.
  - rewrite IH. clear IH.
    induction l as [|y l IHl]; simpl.
    + rewrite orb_true_r. reflexivity.
    + rewrite !negb_orb, <- IHl, (N.eqb_sym y k).
      destruct (N.eqb_spec k y) as [->|Hky]; simpl; btauto.
Qed.

Lemma noncolliding_equiv M ns r inputs c c' :
  incl (all_names inputs) ns ->
  call_equiv M ns c c' ->
  noncolliding c r inputs = noncolliding c' r inputs.
Proof.
  intros Hi [_ [B _]]. rewrite !noncolliding_alt. f_equal.
  apply existsb_ext_in. intros x Hx. rewrite (B x) by (apply Hi; exact Hx). reflexivity.
Qed.

(* ---- completeness of the mask / partial deciders ---- *)
Lemma disjoint_rep sigs names0 c :
  ~ In (fresh_for (dedup (all_names sigs))) names0 ->
  disjointb (kws c) names0 = true -> disjointb (kws (rep_for sigs c)) names0 = true.
Proof.
  intros Hf H. unfold disjointb in *. rewrite forallb_forall in *. intros k Hk.
  unfold rep_for in Hk.
  destruct (canon_kws_spec _ _ _ _ _ (fresh_for_not_in _) Hk) as [[_ Hin]| ->].
  - apply H. exact Hin.
  - apply negb_true_iff. apply mem_false_In. exact Hf.
Qed.

Section Family.
Variable sigs : list (list param).
Let M := max_pos sigs.
Let ns := dedup (all_names sigs).

Lemma family_accepts_equiv s c c' :
  In s sigs -> call_equiv M ns c c' -> accepts s c = accepts s c'.
Proof.
  intros Hs He. eapply accepts_equiv; [|apply all_names_incl; exact Hs|exact He].
  apply max_pos_ge. exact Hs.
Qed.
End Family.

(* mask: r accepts c  <->  s accepts c shifted by the n positionals and the names *)
Theorem mask_exact_cex_complete r s n names0 :
  ~ In (fresh_for (dedup (all_names [r; s]))) names0 ->
  mask_exact_cex r s n names0 = None ->
  forall c, disjointb (kws c) names0 = true -> noncolliding c r [s] = true ->
            accepts r c = accepts s (shift_call n names0 c).
Proof.
  intros Hf H c Hd Hn. unfold mask_exact_cex in H.
  set (sigs := [r; s]) in *.
  pose proof (find_cex_none _ _ H (rep_for sigs c) (rep_in_shapes sigs c)) as HP.
  cbv beta in HP.
  assert (Hr : In r sigs) by (left; reflexivity).
  assert (Hs : In s sigs) by (right; left; reflexivity).
  assert (Hi : incl [s] sigs) by (intros x [<-|[]]; exact Hs).
  rewrite (disjoint_rep sigs names0 c Hf Hd) in HP.
  rewrite (noncolliding_rep sigs r [s] c Hr Hi Hn) in HP. cbn [andb negb orb] in HP.
  apply eqb_prop in HP.
  rewrite (accepts_rep sigs r c Hr) in HP. rewrite HP.
  apply (family_accepts_equiv sigs s _ _ Hs). apply shift_equiv. apply rep_is_equiv.
Qed.

(* mask raises exactly when sig could not be passed those arguments at all *)
Theorem mask_none_cex_complete s n names0 :
  ~ In (fresh_for (dedup (all_names [s]))) names0 ->
  mask_none_cex s n names0 = None ->
  forall c, disjointb (kws c) names0 = true -> accepts s (shift_call n names0 c) = false.
Proof.
  intros Hf H c Hd. unfold mask_none_cex in H.
  set (sigs := [s]) in *.
  pose proof (find_cex_none _ _ H (rep_for sigs c) (rep_in_shapes sigs c)) as HP.
  cbv beta in HP.
  assert (Hs : In s sigs) by (left; reflexivity).
  rewrite (disjoint_rep sigs names0 c Hf Hd) in HP. cbn [negb orb] in HP.
  apply negb_true_iff in HP. rewrite <- HP.
  apply (family_accepts_equiv sigs s _ _ Hs). apply call_equiv_sym. apply shift_equiv. apply rep_is_equiv.
Qed.

(* functools.partial: keywords may be overridden by the call *)
Theorem partial_exact_cex_complete r s n names0 :
  partial_exact_cex r s n names0 = None ->
  forall c, noncolliding c r [s] = true ->
            accepts r c = accepts s (partial_call n names0 c).
Proof.
  intros H c Hn. unfold partial_exact_cex in H.
  set (sigs := [r; s]) in *.
  pose proof (find_cex_none _ _ H (rep_for sigs c) (rep_in_shapes sigs c)) as HP.
  cbv beta in HP.
  assert (Hr : In r sigs) by (left; reflexivity).
  assert (Hs : In s sigs) by (right; left; reflexivity).
  assert (Hi : incl [s] sigs) by (intros x [<-|[]]; exact Hs).
  rewrite (noncolliding_rep sigs r [s] c Hr Hi Hn) in HP. cbn [negb orb] in HP.
  apply eqb_prop in HP.
  rewrite (accepts_rep sigs r c Hr) in HP. rewrite HP.
  apply (family_accepts_equiv sigs s _ _ Hs). apply partial_equiv. apply rep_is_equiv.
Qed.

Theorem partial_none_cex_complete s n names0 :
  partial_none_cex s n names0 = None ->
  forall c, accepts s (partial_call n names0 c) = false.
Proof.
  intros H c. unfold partial_none_cex in H.
  set (sigs := [s]) in *.
  pose proof (find_cex_none _ _ H (rep_for sigs c) (rep_in_shapes sigs c)) as HP.
  cbv beta in HP.
  assert (Hs : In s sigs) by (left; reflexivity).
  apply negb_true_iff in HP. rewrite <- HP.
  apply (family_accepts_equiv sigs s _ _ Hs). apply call_equiv_sym. apply partial_equiv. apply rep_is_equiv.
Qed.

(* ---- the forwarding chain ---- *)
Definition inner_call (o : list param) (uva uvk : bool) (n0 : nat) (names0 : list name) (c : call) : call :=
  mkCall (n0 + (if uva then surplus_pos o c else 0))
         (names0 ++ (if uvk then surplus_kws o c else [])).

Lemma chain_unfold o i uva uvk n0 names0 c :
  chain o i uva uvk n0 names0 c = accepts o c && accepts i (inner_call o uva uvk n0 names0 c).
Proof. reflexivity. Qed.

Lemma kw_class_npos_equiv ps M a b k :
  (length (positional ps) <= M)%nat -> Nat.min a (S M) = Nat.min b (S M) ->
  kw_class ps a k = kw_class ps b k.
Proof.
  intros HM H. unfold kw_class.
  destruct (Nat.eq_dec a b) as [->|Hne]; [reflexivity|].
  rewrite (kw_class_pos_clamp (positional ps) a b k) by lia. reflexivity.
Qed.

Lemma has_foreign_filter ns (g : name -> bool) ks :
  (forall k, mem k ns = false -> g k = true) ->
  has_foreign ns (filter g ks) = has_foreign ns ks.
Proof.
  intros Hg. unfold has_foreign. induction ks as [|k ks IH]; simpl; [reflexivity|].
  destruct (g k) eqn:Hk; simpl; rewrite IH; [reflexivity|].
  destruct (mem k ns) eqn:Hm; [reflexivity|]. rewrite (Hg k Hm) in Hk. discriminate.
Qed.

Lemma inner_equiv M Mi ns o uva uvk n0 names0 c c' :
  (length (positional o) + Mi <= M)%nat -> incl (names_of o) ns ->
  call_equiv M ns c c' ->
  call_equiv Mi ns (inner_call o uva uvk n0 names0 c) (inner_call o uva uvk n0 names0 c').
Proof.
  intros HM Hi [A [B C]]. unfold inner_call, call_equiv; cbn [npos kws]. repeat split.
  - unfold surplus_pos. destruct uva; lia.
  - intros k Hk. rewrite !mem_app. f_equal. destruct uvk; [|reflexivity].
    unfold surplus_kws. rewrite !mem_filter, (B k Hk).
    rewrite (kw_class_npos_equiv o M (npos c) (npos c') k) by (try exact A; lia). reflexivity.
  - rewrite !has_foreign_app. f_equal. destruct uvk; [|reflexivity].
    unfold surplus_kws.
    rewrite !has_foreign_filter; [exact C| |].
    + intros k Hk. rewrite kw_class_foreign; [reflexivity|].
      intros HH. apply Hi in HH. apply mem_In in HH. congruence.
    + intros k Hk. rewrite kw_class_foreign; [reflexivity|].
      intros HH. apply Hi in HH. apply mem_In in HH. congruence.
Qed.

Lemma fold_add_acc l a : fold_left Nat.add l a = (a + fold_left Nat.add l 0)%nat.
Proof.
  revert a. induction l as [|x l IH]; intros a; simpl; [lia|].
  rewrite (IH (a + x)%nat), (IH x). lia.
Qed.

Lemma sum_pos_cons s sigs : sum_pos (s :: sigs) = (length (positional s) + sum_pos sigs)%nat.
Proof. unfold sum_pos. simpl. rewrite fold_add_acc. reflexivity. Qed.

Lemma sum_pos_ge sigs s : In s sigs -> (length (positional s) <= sum_pos sigs)%nat.
Proof.
  induction sigs as [|t sigs IH]; intros H; [destruct H|].
  rewrite sum_pos_cons. destruct H as [->|H]; [lia|]. specialize (IH H). lia.
Qed.

Definition rep_chain (sigs : list (list param)) (c : call) : call :=
  let ns := dedup (all_names sigs) in canon (sum_pos sigs) ns (fresh_for ns) c.

Lemma rep_chain_in sigs c : In (rep_chain sigs c) (shapes_chain sigs).
Proof. apply canon_in_shapes. Qed.

Lemma rep_chain_equiv sigs c :
  call_equiv (sum_pos sigs) (dedup (all_names sigs)) (rep_chain sigs c) c.
Proof. apply canon_is_equiv. apply fresh_for_not_in. Qed.

Lemma chain_accepts_rep sigs s c : In s sigs -> accepts s (rep_chain sigs c) = accepts s c.
Proof.
  intros Hs. eapply accepts_equiv; [apply sum_pos_ge; exact Hs | apply all_names_incl; exact Hs |].
  apply rep_chain_equiv.
Qed.

Lemma all_names_sub inputs sigs :
  incl inputs sigs -> incl (all_names inputs) (dedup (all_names sigs)).
Proof.
  intros Hi x Hx. apply dedup_In. unfold all_names in *. apply in_flat_map in Hx.
  destruct Hx as [s [Hs Hx]]. apply in_flat_map. exists s. split; [apply Hi; exact Hs|exact Hx].
Qed.

Lemma chain_rep r o i extra uva uvk n0 names0 c :
  let sigs := r :: o :: i :: extra in
  chain o i uva uvk n0 names0 (rep_chain sigs c) = chain o i uva uvk n0 names0 c.
Proof.
  intros sigs. rewrite !chain_unfold.
  assert (Ho : In o sigs) by (right; left; reflexivity).
  assert (Hi : In i sigs) by (right; right; left; reflexivity).
  rewrite (chain_accepts_rep sigs o c Ho). f_equal.
  eapply (accepts_equiv i (length (positional i))); [lia | apply all_names_incl; exact Hi |].
  eapply inner_equiv; [| apply all_names_incl; exact Ho | apply rep_chain_equiv].
  unfold sigs. rewrite !sum_pos_cons. lia.
Qed.

Theorem chain_sound_cex_complete r o i uva uvk n0 names0 extra :
  chain_sound_cex r o i uva uvk n0 names0 extra = None ->
  forall c, noncolliding c r (o :: i :: extra) = true -> accepts r c = true ->
            chain o i uva uvk n0 names0 c = true.
Proof.
  intros H c Hn Ha. unfold chain_sound_cex in H.
  set (sigs := r :: o :: i :: extra) in *.
  pose proof (find_cex_none _ _ H (rep_chain sigs c) (rep_chain_in sigs c)) as HP. cbv beta in HP.
  assert (Hr : In r sigs) by (left; reflexivity).
  assert (Hsub : incl (o :: i :: extra) sigs) by (intros x Hx; right; exact Hx).
  rewrite (noncolliding_equiv (sum_pos sigs) (dedup (all_names sigs)) r (o :: i :: extra)
             (rep_chain sigs c) c (all_names_sub _ _ Hsub) (rep_chain_equiv sigs c)) in HP.
  rewrite Hn, (chain_accepts_rep sigs r c Hr), Ha in HP. cbn [andb negb orb] in HP.
  rewrite <- HP. symmetry. apply chain_rep.
Qed.

Theorem chain_exact_cex_complete r o i uva uvk n0 names0 extra :
  chain_exact_cex r o i uva uvk n0 names0 extra = None ->
  forall c, noncolliding c r (o :: i :: extra) = true ->
            accepts r c = chain o i uva uvk n0 names0 c.
Proof.
  intros H c Hn. unfold chain_exact_cex in H.
  set (sigs := r :: o :: i :: extra) in *.
  pose proof (find_cex_none _ _ H (rep_chain sigs c) (rep_chain_in sigs c)) as HP. cbv beta in HP.
  assert (Hr : In r sigs) by (left; reflexivity).
  assert (Hsub : incl (o :: i :: extra) sigs) by (intros x Hx; right; exact Hx).
  rewrite (noncolliding_equiv (sum_pos sigs) (dedup (all_names sigs)) r (o :: i :: extra)
             (rep_chain sigs c) c (all_names_sub _ _ Hsub) (rep_chain_equiv sigs c)) in HP.
  rewrite Hn in HP. cbn [negb orb] in HP. apply eqb_prop in HP.
  rewrite (chain_accepts_rep sigs r c Hr) in HP. rewrite HP. apply chain_rep.
Qed.

Theorem chain_none_cex_complete o i uva uvk n0 names0 :
  chain_none_cex o i uva uvk n0 names0 = None ->
  forall c, chain o i uva uvk n0 names0 c = false.
Proof.
  intros H c. unfold chain_none_cex in H.
  set (sigs := [o; i]) in *.
  pose proof (find_cex_none _ _ H (rep_chain sigs c) (rep_chain_in sigs c)) as HP. cbv beta in HP.
  apply negb_true_iff in HP. rewrite <- HP. symmetry.
  (* same argument as chain_rep, for the two-element family *)
  rewrite !chain_unfold.
  assert (Ho : In o sigs) by (left; reflexivity).
  assert (Hi : In i sigs) by (right; left; reflexivity).
  rewrite (chain_accepts_rep sigs o c Ho). f_equal.
  eapply (accepts_equiv i (length (positional i))); [lia | apply all_names_incl; exact Hi |].
  eapply inner_equiv; [| apply all_names_incl; exact Ho | apply rep_chain_equiv].
  unfold sigs. rewrite !sum_pos_cons. lia.
Qed.
