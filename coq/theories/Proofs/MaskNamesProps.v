(* MaskNamesProps.v — the theorems of Proofs/MaskNames.v in the form of the
   bounded theorems C03_mask_exact_U2 / C19_partial_exact_U2 of Props/C03.v and
   Props/C19.v (same extended call), with the universe membership replaced by
   valid_sig + NoDup, and with the weakest side conditions on the names that are
   true of the model (after the repair of _mask: a consumed positional-only
   parameter is not "already bound"). *)
From Sigtools.Model Require Import Universe.
From Sigtools.Proofs Require Import SmallModel Basics MaskLaws MaskExact SweepDefs SweepDefs2
     MaskNamesLib MaskNamesStep MaskNames.

(* C03_exact + C03_raises for ALL signatures and ALL duplicate-free name tuples:
   C03_mask_exact_U2 without the bound and without names_avoid_po *)
Theorem C03_names_exact ps n names0 :
  valid_sig ps = true -> NoDup names0 ->
  match mask (mk ps) n names0 nohide with
  | Ok r => forall c, disjointb (kws c) names0 = true -> noncolliding c (params r) [ps] = true ->
                      accepts (params r) c = accepts ps (shift_call n names0 c)
  | Err e => e = ValueErr /\
             forall c, disjointb (kws c) names0 = true -> accepts ps (shift_call n names0 c) = false
  end.
Proof. intros Hv Hnd. exact (mask_names_exact (mk ps) n names0 Hv Hnd). Qed.

(* the side conditions of the bounded theorem imply the one needed in general *)
Lemma names_avoid_passable_n ps n names0 :
  names_avoid_po ps names0 = true -> names_avoid_stars ps names0 = true ->
  names_passable_n ps n names0 = true.
Proof.
  unfold names_avoid_po, names_passable_n, avoid_remaining_po. intros H1 H2. rewrite H2, andb_true_r.
  apply andb_true_iff in H1. destruct H1 as [H1 _].
  rewrite forallb_forall in *. intros x Hx. specialize (H1 x Hx).
  apply negb_true_iff in H1. apply negb_true_iff.
  destruct (existsb (fun p => is_kind PO p && N.eqb x (pname p)) (skipn n ps)) eqn:E; [|reflexivity].
  apply existsb_exists in E. destruct E as [q [Hq E]].
  assert (X : existsb (fun p => is_kind PO p && N.eqb x (pname p)) ps = true).
  { apply existsb_exists. exists q. split; [|exact E].
    rewrite <- (firstn_skipn n ps). apply in_or_app. right. exact Hq. }
  rewrite X in H1. discriminate.
Qed.

(* C19_exact for ALL functions, any bound values, any partial object: the bound
   keywords may be keyword-passable parameters, foreign names (with **kwargs) and
   the names of positional-only parameters among the n bound positionals; not a
   remaining positional-only parameter, nor a star parameter (refutations in
   Proofs/MaskNames.v).  Over U(2,{a,b}) names_avoid_po and names_avoid_stars give
   the condition (names_avoid_passable_n). *)
Theorem C19_names_exact ps n names0 (v : name -> N) pobj :
  valid_sig ps = true -> NoDup names0 -> names_passable_n ps n names0 = true ->
  match sig_partial (mk ps) n (map (fun k => (k, v k)) names0) pobj with
  | Ok r => forall c, noncolliding c (params r) [ps] = true ->
                      accepts (params r) c = accepts ps (partial_call n names0 c)
  | Err e => e = ValueErr /\ forall c, accepts ps (partial_call n names0 c) = false
  end.
Proof.
  intros Hv Hnd Hp.
  pose proof (map_fst_pair v names0) as Emap.
  assert (Hnd' : NoDup (map fst (map (fun k => (k, v k)) names0))) by (rewrite Emap; exact Hnd).
  assert (Hp' : names_passable_n (params (mk ps)) n (map fst (map (fun k => (k, v k)) names0)) = true)
    by (rewrite Emap; exact Hp).
  pose proof (partial_names_exact (mk ps) n (map (fun k => (k, v k)) names0) pobj Hv Hnd' Hp') as M.
  rewrite Emap in M. exact M.
Qed.

Example C03_names_exact_nonvacuous :
  valid_sig (params ex_sig) = true /\ NoDup [3; 1; 77].
Proof. split; [vm_compute; reflexivity|apply nodup3; discriminate]. Qed.

Example C19_names_exact_nonvacuous :
  valid_sig (params ex_sig) = true /\ NoDup [3; 1; 77] /\ names_passable_n (params ex_sig) 1 [3; 1; 77] = true /\
  names_avoid_po (params ex_sig) [3; 1; 77] = false.
Proof.
  split; [vm_compute; reflexivity|]. split; [apply nodup3; discriminate|].
  split; vm_compute; reflexivity.
Qed.

Print Assumptions C03_names_exact.
Print Assumptions C19_names_exact.
Print Assumptions names_avoid_passable_n.
Print Assumptions C03_names_exact_nonvacuous.
Print Assumptions C19_names_exact_nonvacuous.
