(* MaskNamesProps.v — the theorems of Proofs/MaskNames.v in the exact form of the
   bounded theorems C03_mask_exact_U2 / C19_partial_exact_U2 of Props/C03.v and
   Props/C19.v (same extended call, same side conditions), with the universe
   membership replaced by valid_sig + NoDup. *)
From Sigtools.Model Require Import Universe.
From Sigtools.Proofs Require Import SmallModel Basics MaskLaws MaskExact SweepDefs SweepDefs2
     MaskNamesLib MaskNamesStep MaskNames.

Lemma names_avoid_po_consumed ps n names0 :
  names_avoid_po ps names0 = true -> avoid_consumed_po ps n names0 = true.
Proof.
  unfold names_avoid_po, avoid_consumed_po. intros H. apply andb_true_iff in H. destruct H as [H _].
  rewrite forallb_forall in *. intros x Hx. specialize (H x Hx). apply negb_true_iff in H. apply negb_true_iff.
  destruct (existsb (fun p => is_kind PO p && N.eqb x (pname p)) (firstn n ps)) eqn:E; [|reflexivity].
  apply existsb_exists in E. destruct E as [q [Hq E]].
  assert (X : existsb (fun p => is_kind PO p && N.eqb x (pname p)) ps = true).
  { apply existsb_exists. exists q. split; [|exact E].
    rewrite <- (firstn_skipn n ps). apply in_or_app. left. exact Hq. }
  rewrite X in H. discriminate.
Qed.

(* C03_exact + C03_raises for ALL signatures: C03_mask_exact_U2 without the bound *)
Theorem C03_names_exact ps n names0 :
  valid_sig ps = true -> NoDup names0 -> names_avoid_po ps names0 = true ->
  match mask (mk ps) n names0 nohide with
  | Ok r => forall c, disjointb (kws c) names0 = true -> noncolliding c (params r) [ps] = true ->
                      accepts (params r) c = accepts ps (shift_call n names0 c)
  | Err e => e = ValueErr /\
             forall c, disjointb (kws c) names0 = true -> accepts ps (shift_call n names0 c) = false
  end.
Proof.
  intros Hv Hnd Hav.
  exact (mask_names_exact (mk ps) n names0 Hv Hnd (names_avoid_po_consumed ps n names0 Hav)).
Qed.

(* no name is the name of a star parameter *)
Definition names_avoid_stars (ps : list param) (names0 : list name) : bool :=
  forallb (fun k => negb (existsb (fun p => (is_kind VP p || is_kind VK p) && N.eqb k (pname p)) ps)) names0.

Lemma names_avoid_passable ps names0 :
  names_avoid_po ps names0 = true -> names_avoid_stars ps names0 = true -> names_passable ps names0 = true.
Proof.
  unfold names_avoid_po, names_avoid_stars, names_passable. intros H1 H2.
  apply andb_true_iff in H1. destruct H1 as [H1 _].
  rewrite forallb_forall in *. intros x Hx. specialize (H1 x Hx). specialize (H2 x Hx).
  apply negb_true_iff in H1. apply negb_true_iff in H2. apply negb_true_iff.
  destruct (existsb (fun p => negb (is_kwpassable p) && N.eqb x (pname p)) ps) eqn:E; [|reflexivity].
  apply existsb_exists in E. destruct E as [q [Hq E]]. apply andb_true_iff in E. destruct E as [E1 E2].
  unfold is_kwpassable in E1. destruct (pkind q) eqn:Ek; try discriminate.
  - assert (X : existsb (fun p => is_kind PO p && N.eqb x (pname p)) ps = true).
    { apply existsb_exists. exists q. split; [exact Hq|]. unfold is_kind. rewrite Ek, E2. reflexivity. }
    rewrite X in H1. discriminate.
  - assert (X : existsb (fun p => (is_kind VP p || is_kind VK p) && N.eqb x (pname p)) ps = true).
    { apply existsb_exists. exists q. split; [exact Hq|]. unfold is_kind. rewrite Ek, E2. reflexivity. }
    rewrite X in H2. discriminate.
  - assert (X : existsb (fun p => (is_kind VP p || is_kind VK p) && N.eqb x (pname p)) ps = true).
    { apply existsb_exists. exists q. split; [exact Hq|]. unfold is_kind. rewrite Ek, E2. reflexivity. }
    rewrite X in H2. discriminate.
Qed.

(* C19_exact for ALL functions: C19_partial_exact_U2 without the bound (any bound
   values, any partial object); over U(2,{a,b}) names_avoid_stars holds for every
   tuple of the sweep, the star parameters being named 9 and 10 there *)
Theorem C19_names_exact ps n names0 (v : name -> N) pobj :
  valid_sig ps = true -> NoDup names0 -> names_avoid_po ps names0 = true ->
  names_avoid_stars ps names0 = true ->
  match sig_partial (mk ps) n (map (fun k => (k, v k)) names0) pobj with
  | Ok r => forall c, noncolliding c (params r) [ps] = true ->
                      accepts (params r) c = accepts ps (partial_call n names0 c)
  | Err e => e = ValueErr /\ forall c, accepts ps (partial_call n names0 c) = false
  end.
Proof.
  intros Hv Hnd Hav Hst.
  pose proof (map_fst_pair v names0) as Emap.
  assert (Hnd' : NoDup (map fst (map (fun k => (k, v k)) names0))) by (rewrite Emap; exact Hnd).
  assert (Hp : names_passable (params (mk ps)) (map fst (map (fun k => (k, v k)) names0)) = true).
  { rewrite Emap. exact (names_avoid_passable ps names0 Hav Hst). }
  pose proof (partial_names_exact (mk ps) n (map (fun k => (k, v k)) names0) pobj Hv Hnd' Hp) as M.
  rewrite Emap in M. exact M.
Qed.

Example C03_names_exact_nonvacuous :
  valid_sig (params ex_sig) = true /\ NoDup [3; 4; 2] /\ names_avoid_po (params ex_sig) [3; 4; 2] = true.
Proof. split; [vm_compute; reflexivity|]. split; [apply nodup3; discriminate|vm_compute; reflexivity]. Qed.

Example C19_names_exact_nonvacuous :
  valid_sig (params ex_sig) = true /\ NoDup [3; 4; 2] /\ names_avoid_po (params ex_sig) [3; 4; 2] = true /\
  names_avoid_stars (params ex_sig) [3; 4; 2] = true.
Proof.
  split; [vm_compute; reflexivity|]. split; [apply nodup3; discriminate|].
  split; vm_compute; reflexivity.
Qed.

Print Assumptions C03_names_exact.
Print Assumptions C19_names_exact.
Print Assumptions C03_names_exact_nonvacuous.
Print Assumptions C19_names_exact_nonvacuous.
