(* MergeExactN.v -- C09 exactness for more than two inputs.

   For valid, pairwise name-aligned, role-consistent inputs ss:
     merge ss = Ok r  ->  r accepts exactly the non-colliding calls every input accepts
                          ([merge_exact_n_ok]);
   the Err branch of the binary theorem does NOT carry over: merge may raise
   IncompatibleSignatures although a call is accepted by every input
   ([merge_exact_n_err_refuted]: (x, y=1), (x, *args), ( **kw ) -- the first step makes x
   positional-only, the second cannot keep a required positional-only x against ( **kw ),
   yet  x=..  is accepted by all three; in another order the merge succeeds).  What holds
   for an error is [merge_exact_n_err_partial]: some step fails, and no call is accepted
   by the accumulator reached so far and the next input.

   "result accepts => every input accepts" is MergeSoundN.v.  The converse is proved
   here with an origin relation [CI acc done]: every demand of the accumulator (a
   required parameter, a parameter that can be passed by name, a missing star) is
   a demand of some input merged so far.  It holds for one input, is preserved by a
   step (one more walk through the merger, for the origin of "required"), and with
   non-collision forces acceptance. *)
From Sigtools.Model Require Import Base Bind Roles Algebra.
From Sigtools.Proofs Require Import SmallModel Basics MaskLaws MaskExact MergeNeutral MergeIdem
     MergeSoundBase MergeSoundInv MergeSound MergeSoundMixed ValidateSpec RcValid FoldLaw RcValidN
     MergeExactSem MergeExact MergeSoundN.
From Coq Require Import Lia.

Ltac prj1 :=
  unfold pn, pd, kn, outs, names_of;
  cbn [m_pos m_pok m_kwo set_pos set_pok set_kwo set_src add_src1 add_src2 excl_va excl_vk set_unm].
Ltac prj2 :=
  rewrite ?app_nil_r, ?map_app, ?pnames_set_kind, ?defs_set_kind; cbn [map];
  rewrite ?has_def_set_kind, ?has_def_concile; cbn [pname set_kind concile];
  rewrite <- ?app_assoc, ?app_nil_r; try reflexivity.
Ltac prj Hk := prj1; rewrite ?Hk; prj2.
Ltac prj0 := prj1; prj2.

(* ================================================================== *)
(* 1. where "required" comes from: one more walk through the merger     *)

Lemma ninv_idx_l PA PB POKL POKR KL KR val var on kn a ra rb :
  NInv PA PB POKL POKR KL KR val var on kn (a :: ra) rb -> (rb <> [] \/ var <> None) ->
  nth_error PA (length on) = Some a.
Proof.
  intros [] H. destruct n_sufl as [pre E]. rewrite E.
  assert (L : length on = length pre).
  { destruct n_lenl as [X|[X|[X Y]]]; [discriminate| |destruct H; contradiction].
    rewrite E, app_length in X. cbn [length] in X. lia. }
  rewrite L. apply nth_suffix.
Qed.

Lemma ninv_idx_r PA PB POKL POKR KL KR val var on kn ra b rb :
  NInv PA PB POKL POKR KL KR val var on kn ra (b :: rb) -> (ra <> [] \/ val <> None) ->
  nth_error PB (length on) = Some b.
Proof.
  intros [] H. destruct n_sufr as [pre E]. rewrite E.
  assert (L : length on = length pre).
  { destruct n_lenr as [X|[X|[X Y]]]; [discriminate| |destruct H; contradiction].
    rewrite E, app_length in X. cbn [length] in X. lia. }
  rewrite L. apply nth_suffix.
Qed.

Lemma dem_nth xs ys i y : dem xs ys -> nth_error ys i = Some y -> exists x, nth_error xs i = Some x /\ dem1 x y.
Proof.
  intros H. revert i. induction H as [|x0 y0 xs ys H0 _ IH]; intros [|i] Hy; cbn [nth_error] in *; try discriminate.
  - inversion Hy; subst. eauto.
  - apply IH. exact Hy.
Qed.

Lemma in_od_set d q x : In x (od_set d q) -> x = q \/ In x d.
Proof.
  induction d as [|p d IH]; cbn [od_set]; [intros [<-|[]]; auto|].
  destruct (N.eqb (pname q) (pname p)).
  - intros [<-|H]; [left; reflexivity|right; right; exact H].
  - intros [<-|H]; [right; left; reflexivity|]. destruct (IH H); [left; assumption|right; right; assumption].
Qed.

Lemma in_od_update u : forall d x, In x (od_update d u) -> In x d \/ In x u.
Proof.
  unfold od_update. induction u as [|q u IH]; intros d x H; cbn [fold_left] in H; [left; exact H|].
  destruct (IH _ _ H) as [H1|H1]; [|right; right; exact H1].
  destruct (in_od_set _ _ _ H1) as [->|H2]; [right; left; reflexivity|left; exact H2].
Qed.

Section OWalk.
Variables l r : sorted.
Let PA := posargs l ++ pokargs l.
Let PB := posargs r ++ pokargs r.

Definition rqo (i : nat) : Prop :=
  (exists a, nth_error PA i = Some a /\ has_def a = false) \/ (exists b, nth_error PB i = Some b /\ has_def b = false).
Definition OIp (st : mstate) : Prop :=
  forall i c, nth_error (outs st) i = Some c -> has_def c = false -> rqo i.
Definition kso (q : param) : Prop :=
  exists q0, In q0 (kwoargs l ++ kwoargs r ++ pokargs l ++ pokargs r) /\ pname q0 = pname q /\ has_def q0 = false.
Definition OIk (st : mstate) : Prop := forall q, In q (m_kwo st) -> has_def q = false -> kso q.
Definition OI (st : mstate) : Prop := OIp st /\ OIk st.

Lemma OIp_snoc st st' c :
  OIp st -> dem (outs st ++ [c]) (outs st') -> (has_def c = false -> rqo (length (outs st))) -> OIp st'.
Proof.
  intros H HD Hc i c' Hi Hd. destruct (dem_nth _ _ i c' HD Hi) as [x [Hx (_ & Dx & _)]].
  rewrite Dx in Hd. destruct (Nat.lt_ge_cases i (length (outs st))) as [Lt|Ge].
  - rewrite nth_error_app1 in Hx by exact Lt. exact (H i x Hx Hd).
  - rewrite nth_error_app2 in Hx by exact Ge. destruct (i - length (outs st))%nat as [|k] eqn:Ek; cbn in Hx.
    + inversion Hx; subst x. assert (i = length (outs st)) by lia. subst i. exact (Hc Hd).
    + destruct k; discriminate.
Qed.

Lemma OI_snoc st st' c :
  OI st -> dem (outs st ++ [c]) (outs st') -> m_kwo st' = m_kwo st ->
  (has_def c = false -> rqo (length (outs st))) -> OI st'.
Proof. intros [H1 H2] HD Ek Hc. split; [eapply OIp_snoc; eauto|]. unfold OIk. rewrite Ek. exact H2. Qed.

Lemma OI_kwo st st' q :
  OI st -> outs st' = outs st -> m_kwo st' = od_set (m_kwo st) q -> (has_def q = false -> kso q) -> OI st'.
Proof.
  intros [H1 H2] Eo Ek Hq. split.
  - unfold OIp. rewrite Eo. exact H1.
  - intros x Hx Hd. rewrite Ek in Hx. destruct (in_od_set _ _ _ Hx) as [->|Hx']; [exact (Hq Hd)|exact (H2 x Hx' Hd)].
Qed.

Lemma pn_len st : length (pn st) = length (outs st).
Proof. unfold pn, names_of. apply map_length. Qed.

Lemma idx_mine s st e x y : NIs l r s st (e :: x) y -> (y <> [] \/ varargs (other l r s) <> None) ->
  match s with L => nth_error PA (length (outs st)) = Some e | R => nth_error PB (length (outs st)) = Some e end.
Proof.
  intros H G. rewrite <- pn_len. destruct s; cbn [NIs other] in *.
  - exact (ninv_idx_l _ _ _ _ _ _ _ _ _ _ _ _ _ H G).
  - exact (ninv_idx_r _ _ _ _ _ _ _ _ _ _ _ _ _ H G).
Qed.

Lemma idx_oth s st x o y : NIs l r s st x (o :: y) -> x <> [] ->
  match s with L => nth_error PB (length (outs st)) = Some o | R => nth_error PA (length (outs st)) = Some o end.
Proof.
  intros H G. rewrite <- pn_len. destruct s; cbn [NIs] in *.
  - exact (ninv_idx_r _ _ _ _ _ _ _ _ _ _ _ _ _ H (or_introl G)).
  - exact (ninv_idx_l _ _ _ _ _ _ _ _ _ _ _ _ _ H (or_introl G)).
Qed.

Lemma rqo_mine s i e : match s with L => nth_error PA i = Some e | R => nth_error PB i = Some e end ->
  has_def e = false -> rqo i.
Proof. destruct s; intros H Hd; [left|right]; exists e; auto. Qed.
Lemma rqo_oth s i o : match s with L => nth_error PB i = Some o | R => nth_error PA i = Some o end ->
  has_def o = false -> rqo i.
Proof. destruct s; intros H Hd; [right|left]; exists o; auto. Qed.

Lemma concile_rq a b : has_def (concile a b) = false -> has_def a = false \/ has_def b = false.
Proof. rewrite has_def_concile. destruct (has_def a); auto. Qed.

Lemma O_unb_pos1 s e x y st st' y' :
  m_pok st = [] -> NIs l r s st (e :: x) y -> OI st ->
  unb_pos1 l r s e y st = Ok (st', y') -> OI st'.
Proof.
  intros Hk HN HO E. unfold unb_pos1 in E. destruct y as [|o conv'].
  - destruct (isSome (varargs (other l r s))) eqn:G.
    + inversion E; subst. pose proof (idx_mine s st e x [] HN (or_intror (isSome_true _ G))) as Hi.
      eapply (OI_snoc st _ e HO); [|destruct s; reflexivity|intros Hd; exact (rqo_mine s _ e Hi Hd)].
      destruct s; unfold outs; cbn [m_pos m_pok excl_va add_src1 set_src set_pos]; rewrite Hk, !app_nil_r; apply dem_refl.
    + destruct (negb (has_def e)); [discriminate|]. inversion E; subst. exact HO.
  - injection E as Est Ey. subst y'.
    assert (Hne1 : o :: conv' <> []) by discriminate. assert (Hne2 : e :: x <> []) by discriminate.
    pose proof (idx_mine s st e x (o :: conv') HN (or_introl Hne1)) as Hi.
    pose proof (idx_oth s st (e :: x) o conv' HN Hne2) as Ho.
    eapply (OI_snoc st st' (concile e o) HO).
    + rewrite <- Est. destruct (N.eqb (pname o) (pname e)); destruct s; unfold outs;
        cbn [m_pos m_pok add_src1 add_src2 set_src set_pos]; rewrite Hk, !app_nil_r; apply dem_refl.
    + rewrite <- Est. destruct (N.eqb (pname o) (pname e)); reflexivity.
    + intros Hd. destruct (concile_rq _ _ Hd) as [X|X]; [exact (rqo_mine s _ e Hi X)|exact (rqo_oth s _ o Ho X)].
Qed.

Lemma pok_nil_unb_pos1 s e y st st' y' : m_pok st = [] -> unb_pos1 l r s e y st = Ok (st', y') -> m_pok st' = [].
Proof.
  intros Hk E1. unfold unb_pos1 in E1. destruct y as [|o c].
  - destruct (isSome (varargs (other l r s))); [inversion E1; subst; destruct s; exact Hk|].
    destruct (negb (has_def e)); [discriminate|]. inversion E1; subst. exact Hk.
  - inversion E1; subst. destruct (N.eqb (pname o) (pname e)); destruct s; exact Hk.
Qed.

Lemma O_unb_pos_all s ps : forall x y st st' y',
  m_pok st = [] -> NIs l r s st (ps ++ x) y -> OI st ->
  unb_pos_all l r s ps y st = Ok (st', y') -> OI st'.
Proof.
  induction ps as [|p ps IH]; intros x y st st' y' Hk HN HO E; cbn [unb_pos_all] in E.
  - inversion E; subst. exact HO.
  - apply bind_ok in E. destruct E as [[st1 y1] [E1 E2]]. cbn [fst snd] in E2.
    exact (IH x y1 st1 st' y' (pok_nil_unb_pos1 _ _ _ _ _ _ Hk E1)
             (N_unb_pos1 l r s p (ps ++ x) y st st1 y1 Hk HN E1)
             (O_unb_pos1 s p (ps ++ x) y st st1 y1 Hk HN HO E1) E2).
Qed.

Lemma O_zip_pos lp : forall rp il ir st st' il' ir',
  m_pok st = [] -> NIc l r st (lp ++ il) (rp ++ ir) -> OI st ->
  zip_pos l r lp rp il ir st = Ok (st', il', ir') -> OI st'.
Proof.
  induction lp as [|a lp IH]; intros rp il ir st st' il' ir' Hk HN HO E.
  - cbn [zip_pos] in E. apply bind_ok in E. destruct E as [[st1 y1] [E1 E2]]. cbn [fst snd] in E2.
    inversion E2; subst. exact (O_unb_pos_all R rp ir' il st st' il' Hk HN HO E1).
  - destruct rp as [|b rp]; cbn [zip_pos] in E.
    + apply bind_ok in E. destruct E as [[st1 y1] [E1 E2]]. cbn [fst snd] in E2. inversion E2; subst.
      exact (O_unb_pos_all L (a :: lp) il' ir st st' ir' Hk HN HO E1).
    + set (st1 := if N.eqb (pname a) (pname b)
                  then add_src2 l r (set_pos st (m_pos st ++ [concile a b])) (pname a) L R
                  else add_src1 l r (set_pos st (m_pos st ++ [concile a b])) (pname a) L) in *.
      assert (Hk1 : m_pok st1 = []) by (unfold st1; destruct (N.eqb (pname a) (pname b)); exact Hk).
      assert (Hne1 : (b :: rp) ++ ir <> []) by discriminate. assert (Hne2 : (a :: lp) ++ il <> []) by discriminate.
      pose proof (idx_mine L st a (lp ++ il) ((b :: rp) ++ ir) HN (or_introl Hne1)) as Hi.
      pose proof (idx_oth L st ((a :: lp) ++ il) b (rp ++ ir) HN Hne2) as Ho.
      apply (IH rp il ir st1 st' il' ir' Hk1); [| |exact E].
      * eapply (NIs_pair l r L); [exact HN| | ]; unfold st1; destruct (N.eqb (pname a) (pname b)); prj Hk.
      * eapply (OI_snoc st st1 (concile a b) HO).
        -- unfold st1. destruct (N.eqb (pname a) (pname b)); unfold outs;
             cbn [m_pos m_pok add_src1 add_src2 set_src set_pos]; rewrite Hk, !app_nil_r; apply dem_refl.
        -- unfold st1. destruct (N.eqb (pname a) (pname b)); reflexivity.
        -- intros Hd. destruct (concile_rq _ _ Hd) as [X|X]; [exact (rqo_mine L _ a Hi X)|exact (rqo_oth L _ b Ho X)].
Qed.

Hypothesis c_pk' : forall p q, In p PA -> In q (kwoargs r) -> pname p <> pname q.
Hypothesis c_kp_va : forall p q, In p (kwoargs l) -> In q PB -> pname p = pname q -> varargs l = None.

Lemma kso_pok s e : In e (pokargs (my l r s)) -> has_def e = false -> forall q, pname q = pname e -> kso q.
Proof.
  intros He Hd q Eq. exists e. split; [|auto]. destruct s; cbn [my] in He; apply in_or_app; right; apply in_or_app; right;
    apply in_or_app; [left|right]; exact He.
Qed.
Lemma kso_kwo s q0 : In q0 (kwoargs (my l r s)) -> has_def q0 = false -> forall q, pname q = pname q0 -> kso q.
Proof.
  intros He Hd q Eq. exists q0. split; [|auto]. destruct s; cbn [my] in He; [apply in_or_app; left; exact He|].
  apply in_or_app. right. apply in_or_app. left. exact He.
Qed.

Lemma O_unb_pok1 s e x st st' :
  KI l r st -> In e (pokargs (my l r s)) -> NIs l r s st (e :: x) [] -> OI st ->
  unb_pok1 l r s e st = Ok st' -> OI st'.
Proof.
  intros HK He HN HO E. unfold unb_pok1 in E.
  destruct (find_param (pname e) (unm st match s with L => R | R => L end)) as [q|] eqn:F.
  - apply find_param_in in F. destruct F as [Fq Nq]. inversion E; subst st'.
    assert (Hq : In q (kwoargs (my l r (match s with L => R | R => L end)))).
    { destruct HK as [_ _ _ _ Klu Kru]. destruct s; cbn [unm my] in *; auto. }
    eapply (OI_kwo st _ (set_kind KO (concile e q)) HO); [destruct s; reflexivity|destruct s; reflexivity|].
    intros Hd. change (has_def (concile e q) = false) in Hd. destruct (concile_rq _ _ Hd) as [X|X].
    + exact (kso_pok s e He X _ eq_refl).
    + apply (kso_kwo _ q Hq X). cbn. congruence.
  - destruct (isSome (varargs (other l r s))) eqn:Gva; destruct (isSome (varkwargs (other l r s))) eqn:Gvk; cbn [andb] in E.
    + inversion E; subst. pose proof (idx_mine s st e x [] HN (or_intror (isSome_true _ Gva))) as Hi.
      eapply (OI_snoc st _ e HO); [|destruct s; reflexivity|intros Hd; exact (rqo_mine s _ e Hi Hd)].
      destruct s; unfold outs; cbn [m_pos m_pok add_src1 set_src set_pok]; rewrite app_assoc; apply dem_refl.
    + inversion E; subst. pose proof (idx_mine s st e x [] HN (or_intror (isSome_true _ Gva))) as Hi.
      eapply (OI_snoc st _ (set_kind PO e) HO); [|destruct s; reflexivity|intros Hd; exact (rqo_mine s _ e Hi Hd)].
      destruct s; unfold outs; cbn [m_pos m_pok add_src1 set_src set_pok set_pos]; rewrite app_nil_r, <- !app_assoc;
        (apply dem_app; [apply dem_refl|]; apply dem_app; [apply dem_PO|apply dem_refl]).
    + inversion E; subst.
      eapply (OI_kwo st _ (set_kind KO e) HO); [destruct s; reflexivity|destruct s; reflexivity|].
      intros Hd. exact (kso_pok s e He Hd _ eq_refl).
    + destruct (negb (has_def e)); [discriminate|]. inversion E; subst. exact HO.
Qed.

Lemma O_unb_pok_all s ps : forall st st',
  KI l r st -> Forall isPK ps -> incl ps (pokargs (my l r s)) -> NIs l r s st ps [] -> OI st ->
  unb_pok_all l r s ps st = Ok st' -> OI st'.
Proof.
  induction ps as [|p ps IH]; intros st st' HK HF Hi HN HO E; cbn [unb_pok_all] in E.
  - inversion E; subst. exact HO.
  - apply bind_ok in E. destruct E as [st1 [E1 E2]].
    assert (Hp : In p (pokargs (my l r s))) by (apply Hi; left; reflexivity).
    apply (IH st1 st'); [exact (K_unb_pok1 l r s p st st1 HK (Forall_inv HF) E1)|exact (Forall_inv_tail HF)| | | |exact E2].
    + intros z Hz. apply Hi. right. exact Hz.
    + exact (N_unb_pok1 l r c_pk' c_kp_va s p ps st st1 HK Hp HN E1).
    + exact (O_unb_pok1 s p ps st st1 HK Hp HN HO E1).
Qed.

Lemma O_zip_pok il : forall ir st st',
  KI l r st -> Forall isPK il -> Forall isPK ir -> incl il (pokargs l) -> incl ir (pokargs r) ->
  NIc l r st il ir -> OI st -> zip_pok l r il ir st = Ok st' -> OI st'.
Proof.
  induction il as [|a il IH]; intros ir st st' HK Hl Hr Il Ir HN HO E.
  - cbn [zip_pok] in E. exact (O_unb_pok_all R ir st st' HK Hr Ir HN HO E).
  - destruct ir as [|b ir]; cbn [zip_pok] in E.
    + exact (O_unb_pok_all L (a :: il) st st' HK Hl Il HN HO E).
    + set (st1 := if N.eqb (pname a) (pname b)
                  then add_src2 l r (set_pok st (m_pok st ++ [concile a b])) (pname a) L R
                  else add_src1 l r (set_pok st (map (set_kind PO) (m_pok st) ++ [set_kind PO (concile a b)])) (pname a) L) in *.
      assert (Hne1 : b :: ir <> []) by discriminate. assert (Hne2 : a :: il <> []) by discriminate.
      pose proof (idx_mine L st a il (b :: ir) HN (or_introl Hne1)) as Hi.
      pose proof (idx_oth L st (a :: il) b ir HN Hne2) as Ho.
      apply (IH ir st1 st'); [|exact (Forall_inv_tail Hl)|exact (Forall_inv_tail Hr)| | | | |exact E].
      * unfold st1. destruct (N.eqb (pname a) (pname b)); unfold KI;
          cbn [m_pos m_pok m_kwo m_lunm m_runm set_pos set_pok set_kwo set_src add_src1 add_src2];
          [apply KIc_pok_snoc|apply KIc_pok_po]; try exact HK. exact (Forall_inv Hl).
      * intros z Hz. apply Il. right. exact Hz.
      * intros z Hz. apply Ir. right. exact Hz.
      * eapply (NIs_pair l r L); [exact HN| | ]; unfold st1; destruct (N.eqb (pname a) (pname b)); prj0.
      * unfold st1. destruct (N.eqb (pname a) (pname b)).
        -- eapply (OI_snoc st _ (concile a b) HO); [|reflexivity|].
           ++ unfold outs. cbn [m_pos m_pok add_src2 set_src set_pok]. rewrite app_assoc. apply dem_refl.
           ++ intros Hd. destruct (concile_rq _ _ Hd) as [X|X]; [exact (rqo_mine L _ a Hi X)|exact (rqo_oth L _ b Ho X)].
        -- eapply (OI_snoc st _ (set_kind PO (concile a b)) HO); [|reflexivity|].
           ++ unfold outs. cbn [m_pos m_pok add_src1 set_src set_pok]. rewrite <- !app_assoc.
              apply dem_app; [apply dem_refl|]. apply dem_app; [apply dem_PO|apply dem_refl].
           ++ intros Hd. change (has_def (concile a b) = false) in Hd.
              destruct (concile_rq _ _ Hd) as [X|X]; [exact (rqo_mine L _ a Hi X)|exact (rqo_oth L _ b Ho X)].
Qed.
End OWalk.

(* ================================================================== *)
(* 2. one step: where the demands of the result come from               *)

Section OStep.
Variables l r : sorted.
Hypothesis HKl : kinds_ok l.
Hypothesis HKr : kinds_ok r.
Hypothesis HNl : NoDup (names_of (flatten l)).
Hypothesis HNr : NoDup (names_of (flatten r)).
Hypothesis HDl : dsuf (posl l).
Hypothesis HDr : dsuf (posl r).
Hypothesis HC : compatA l r.

Record StepOrig (res : sorted) : Prop := {
  so_rq : forall i c, nth_error (Pz res) i = Some c -> has_def c = false -> rqo l r i;
  so_ko : forall q, In q (kwoargs res) -> has_def q = false -> kso l r q;
  so_min : (length (Pz l) <= length (Pz res))%nat \/ (length (Pz r) <= length (Pz res))%nat;
  so_va : isSome (varargs res) = isSome (varargs l) && isSome (varargs r);
  so_vk : isSome (varkwargs res) = isSome (varkwargs l) && isSome (varkwargs r)
}.

Lemma OI_unmatched s st st' : KI l r st -> OI l r st -> unmatched_kwo l r s st = Ok st' -> OI l r st'.
Proof.
  intros HK [H1 H2] E. destruct (unmatched_fine l r s st st' E) as (A & B & _ & _ & K & _). split.
  - unfold OIp, outs. rewrite A, B. exact H1.
  - intros q Hq Hd. rewrite K in Hq. destruct (in_od_update _ _ _ Hq) as [X|X]; [exact (H2 q X Hd)|].
    assert (Y : In q (unm st s)) by (destruct (isSome (varkwargs (other l r s))); [exact X|destruct X]).
    apply (unm_incl l r st s HK) in Y. exact (kso_kwo l r s q Y Hd q eq_refl).
Qed.

Theorem step_origin res : merger l r = Ok res -> StepOrig res.
Proof.
  intros E0. destruct (merger_stars l r res E0) as [V1 V2].
  assert (Hmin : (length (Pz l) <= length (Pz res))%nat \/ (length (Pz r) <= length (Pz res))%nat).
  { pose proof (merger_facts l r HKl HKr HNl HNr HDl HDr HC res E0) as F.
    pose proof (named_nodup l HNl) as NlF. pose proof (named_nodup r HNr) as NrF.
    assert (RCkL : forall p q, In p (pokargs l) -> In q (kwoargs r) -> pname p <> pname q).
    { intros p q Hp Hq. apply (c_pk' l r HC); [unfold posl; apply in_or_app; right; exact Hp|exact Hq]. }
    assert (CKP : forall p q, In p (pokargs r) -> In q (kwoargs l) -> pname p = pname q ->
              varargs l = None /\ forall j, nth_error (Pz r) j = Some p -> (length (Pz l) <= j)%nat).
    { intros p q Hp Hq En.
      assert (Hp' : In p (posl r)) by (unfold posl; apply in_or_app; right; exact Hp).
      destruct (c_kp l r HC q p Hq Hp' (eq_sym En)) as (_ & Hs & Hv). split; [exact Hv|].
      intros j Hj. exact (skipn_index (posl r) p _ j (nodup_Pz r HNr) Hs Hj). }
    destruct (merger_mixed_summaryC l r HKl HKr NlF NrF RCkL CKP (pos_agree_both l r HC) res
                (mf_bndl l r res F) E0) as (st & EP & _ & _ & _ & PH).
    rewrite EP. destruct PH as [(A & _)|(A & _)]; [right|left]; exact A. }
  revert E0. unfold merger. fold st0. fold (st2 l r). intros E.
  apply bind_ok in E. destruct E as [[[st3 il] ir] [E3 E]].
  apply bind_ok in E. destruct E as [st4 [E4 E]].
  apply bind_ok in E. destruct E as [st5 [E5 E]].
  apply bind_ok in E. destruct E as [st6 [E6 E]].
  destruct (add_star l r (m_xva_l (normalise_pok st6)) (m_xva_r (normalise_pok st6)) (varargs l) (varargs r)
                     (normalise_pok st6)) as [va st8] eqn:E8.
  destruct (add_star l r (m_xvk_l st8) (m_xvk_r st8) (varkwargs l) (varkwargs r) st8) as [vk st9] eqn:E9.
  inversion E; subst res; clear E.
  pose proof (KI_st2 l r HKl) as K2. destruct (NI_st2 l r) as [N2 _].
  destruct (st2_fields l r HNl) as (M2 & _ & _).
  destruct (kwo_match_proj l r (kwoargs l) st0) as (Q1 & Q2 & _).
  assert (P2 : m_pok (st2 l r) = []) by (unfold st2; cbn [m_pok set_unm]; exact Q2).
  assert (O2 : OI l r (st2 l r)).
  { split.
    - intros i c Hc. unfold outs, st2 in Hc. cbn [m_pos m_pok set_unm] in Hc. rewrite Q1, Q2 in Hc. destruct i; discriminate.
    - intros q Hq Hd. rewrite M2 in Hq. apply in_matched in Hq. destruct Hq as [p [q0 [Hp [F ->]]]].
      apply find_param_in in F. destruct F as [Fq Nq].
      destruct (concile_rq _ _ Hd) as [X|X].
      + exact (kso_kwo l r L p Hp X _ eq_refl).
      + apply (kso_kwo l r R q0 Fq X). cbn. congruence. }
  pose proof HKl as (L1 & L2 & _). pose proof HKr as (R1 & R2 & _).
  destruct (K_zip_pos l r (posargs l) (posargs r) (pokargs l) (pokargs r) _ st3 il ir K2 L1 R1 E3) as (K3 & Il & Ir).
  pose proof (N_zip_pos l r (posargs l) (posargs r) (pokargs l) (pokargs r) _ st3 il ir P2 N2 E3) as N3.
  pose proof (O_zip_pos l r (posargs l) (posargs r) (pokargs l) (pokargs r) _ st3 il ir P2 N2 O2 E3) as O3.
  assert (Hil : Forall isPK il) by (apply Forall_forall; intros q Hq; rewrite Forall_forall in L2; apply L2, Il, Hq).
  assert (Hir : Forall isPK ir) by (apply Forall_forall; intros q Hq; rewrite Forall_forall in R2; apply R2, Ir, Hq).
  pose proof (K_zip_pok l r il ir st3 st4 K3 Hil Hir E4) as K4.
  assert (Cva : forall p q, In p (kwoargs l) -> In q (posargs r ++ pokargs r) -> pname p = pname q -> varargs l = None).
  { intros p q Hp Hq Epq. apply (c_kp l r HC p q Hp Hq Epq). }
  pose proof (O_zip_pok l r (c_pk' l r HC) Cva il ir st3 st4 K3 Hil Hir Il Ir N3 O3 E4) as O4.
  pose proof (OI_unmatched L st4 st5 K4 O4 E5) as O5. pose proof (K_unmatched l r HKl HKr L st4 st5 K4 E5) as K5.
  pose proof (OI_unmatched R st5 st6 K5 O5 E6) as O6. pose proof (K_unmatched l r HKl HKr R st5 st6 K5 E6) as K6.
  destruct (normalise_spec l r st6 K6) as (_ & _ & Q3 & Q4).
  destruct (add_star_spec _ _ _ _ _ _ _ _ _ E8) as (S1 & S2 & S3 & _).
  destruct (add_star_spec _ _ _ _ _ _ _ _ _ E9) as (T1 & T2 & T3 & _).
  destruct O6 as [Op Ok6].
  constructor; auto.
  - intros i c Hc Hd. unfold Pz in Hc. cbn [posargs pokargs] in Hc. rewrite T1, T2, S1, S2 in Hc.
    fold (outs (normalise_pok st6)) in Hc. rewrite Q3 in Hc. exact (Op i c Hc Hd).
  - intros q Hq Hd. cbn [kwoargs] in Hq. rewrite T3, S3, Q4 in Hq. exact (Ok6 q Hq Hd).
Qed.
End OStep.

(* ================================================================== *)
(* 3. the origin relation carried by the fold                          *)

Definition sP (s : sigT) : list param := Pz (sort_params s).

Record CI (A : sorted) (F : list sigT) : Prop := mkCI {
  ci_va : varargs A = None ->
          exists s, In s F /\ varargs (sort_params s) = None /\ (length (sP s) <= length (Pz A))%nat;
  ci_vk : (forall s, In s F -> varkwargs (sort_params s) <> None) -> varkwargs A <> None;
  ci_pk : forall i c, nth_error (Pz A) i = Some c -> pkind c = PK ->
          exists s p, In s F /\ nth_error (sP s) i = Some p /\ pkind p = PK /\ pname p = pname c;
  ci_rq : forall i c, nth_error (Pz A) i = Some c -> has_def c = false ->
          exists s p, In s F /\ nth_error (sP s) i = Some p /\ has_def p = false /\ pname p = pname c;
  ci_ko : forall q, In q (kwoargs A) -> has_def q = false ->
          exists s, In s F /\
            ((exists q', In q' (kwoargs (sort_params s)) /\ has_def q' = false /\ pname q' = pname q) \/
             (exists j p, nth_error (sP s) j = Some p /\ has_def p = false /\ pkind p = PK /\ pname p = pname q /\
                          (length (Pz A) <= j)%nat /\ varargs A = None));
  ci_nm : forall x, In x (names_of (Pz A ++ kwoargs A)) -> exists s, In s F /\ In x (names_of (params s))
}.

(* positional parameters at the same index carry the same name *)
Definition AL (A B : sorted) : Prop :=
  forall i a b, nth_error (Pz A) i = Some a -> nth_error (Pz B) i = Some b -> pname a = pname b.

Lemma aligned_lists_nth xs : forall ys i a b,
  aligned_lists xs ys = true -> nth_error xs i = Some a -> nth_error ys i = Some b -> pname a = pname b.
Proof.
  induction xs as [|x xs IH]; intros [|y ys] i a b H Ha Hb; try (destruct i; discriminate).
  cbn [aligned_lists] in H. apply andb_true_iff in H. destruct H as [H1 H2]. destruct i as [|i]; cbn [nth_error] in *.
  - inversion Ha; inversion Hb; subst. apply N.eqb_eq. exact H1.
  - exact (IH ys i a b H2 Ha Hb).
Qed.

Lemma AL_inputs a b :
  valid_sig (params a) = true -> valid_sig (params b) = true -> name_aligned (params a) (params b) = true ->
  AL (sort_params a) (sort_params b).
Proof.
  intros Va Vb H i x y Hx Hy. pose proof (aligned_of_name_aligned a b Va Vb H) as HA.
  exact (aligned_lists_nth _ _ i x y HA Hx Hy).
Qed.

Lemma params_named s p : valid_sig (params s) = true -> In p (Pz (sort_params s) ++ kwoargs (sort_params s)) ->
  In (pname p) (names_of (params s)).
Proof.
  intros V Hp. rewrite <- (sort_flatten_roundtrip s V). apply in_names.
  apply (named_in_flatten (sort_params s) p (sort_params_kinds s)). exact Hp.
Qed.

Lemma CI_input s : valid_sig (params s) = true -> CI (sort_params s) [s].
Proof.
  intros V. constructor.
  - intros Hv. exists s. split; [left; reflexivity|]. split; [exact Hv|unfold sP; lia].
  - intros H. apply H. left. reflexivity.
  - intros i c Hc Hk. exists s, c. split; [left; reflexivity|]. auto.
  - intros i c Hc Hd. exists s, c. split; [left; reflexivity|]. auto.
  - intros q Hq Hd. exists s. split; [left; reflexivity|]. left. exists q. auto.
  - intros x Hx. exists s. split; [left; reflexivity|]. apply names_in in Hx. destruct Hx as [p [Hp <-]].
    apply params_named; assumption.
Qed.

Section CStep.
Variables (l : sorted) (c : sigT) (F : list sigT).
Let r := sort_params c.
Hypothesis HKl : kinds_ok l.
Hypothesis HNl : NoDup (names_of (flatten l)).
Hypothesis HDl : dsuf (posl l).
Hypothesis Vc : valid_sig (params c) = true.
Hypothesis HC : compatA l r.
Hypothesis HAL : AL l r.
Hypothesis HCI : CI l F.
Hypothesis HSI : forall s, In s F -> SI l (sort_params s).

Lemma in_app4 {A} (x : A) (a b c0 d : list A) : In x (a ++ b ++ c0 ++ d) -> In x a \/ In x b \/ In x c0 \/ In x d.
Proof. intros H. apply in_app_or in H. destruct H as [H|H]; [auto|]. apply in_app_or in H. destruct H as [H|H]; [auto|].
  apply in_app_or in H. tauto. Qed.

Theorem CI_step res : merger l r = Ok res -> CI res (F ++ [c]).
Proof.
  intros E.
  pose proof (sort_params_kinds c) as HKr. fold r in HKr.
  assert (HNr : NoDup (names_of (flatten r))).
  { unfold r. rewrite (sort_flatten_roundtrip c Vc). apply validate_nodup. apply (valid_sig_parts _ Vc). }
  pose proof (dsuf_of_valid c Vc) as HDr. fold r in HDr.
  pose proof (merger_facts l r HKl HKr HNl HNr HDl HDr HC res E) as MFr.
  destruct (step_facts l r HKl HKr HNl HNr HDl HDr HC res E) as [_ _ _ Al Ar _ _ Lbl Lbr].
  destruct (step_origin l r HKl HKr HNl HNr HDl HDr HC res E) as [Orq Oko Omin Ova Ovk].
  pose proof (step_SI_new l r HKl HKr HNl HNr HDl HDr HC res E) as SIr.
  destruct HCI as [Cva Cvk Cpk Crq Cko Cnm].
  assert (Hc_in : In c (F ++ [c])) by (apply in_or_app; right; left; reflexivity).
  assert (HF_in : forall s, In s F -> In s (F ++ [c])) by (intros s Hs; apply in_or_app; left; exact Hs).
  pose proof (nodup_Pz l HNl) as NPl.
  (* the name of a positional parameter of the result is the name at that index on either side *)
  assert (NameL : forall i c0 a, nth_error (Pz res) i = Some c0 -> nth_error (Pz l) i = Some a -> pname a = pname c0).
  { intros i c0 a Hc Ha. destruct (mf_faith l r res MFr i c0 Hc) as [[a' [Ha' Na']]|[b' [Hb' Nb']]].
    - unfold Pz in Ha. rewrite Ha in Ha'. inversion Ha'; subst. exact Na'.
    - rewrite <- Nb'. exact (HAL i a b' Ha Hb'). }
  assert (NameR : forall i c0 b, nth_error (Pz res) i = Some c0 -> nth_error (Pz r) i = Some b -> pname b = pname c0).
  { intros i c0 b Hc Hb. destruct (mf_faith l r res MFr i c0 Hc) as [[a' [Ha' Na']]|[b' [Hb' Nb']]].
    - rewrite <- Na'. symmetry. exact (HAL i a' b Ha' Hb).
    - unfold Pz in Hb. rewrite Hb in Hb'. inversion Hb'; subst. exact Nb'. }
  constructor.
  - (* star-args missing *)
    intros Hv. rewrite Hv in Ova. cbn [isSome] in Ova. symmetry in Ova. apply andb_false_iff in Ova.
    assert (Wc : varargs r = None -> (length (Pz r) <= length (Pz res))%nat ->
                 exists s, In s (F ++ [c]) /\ varargs (sort_params s) = None /\ (length (sP s) <= length (Pz res))%nat).
    { intros X Y. exists c. auto. }
    assert (Wl : varargs l = None -> (length (Pz l) <= length (Pz res))%nat ->
                 exists s, In s (F ++ [c]) /\ varargs (sort_params s) = None /\ (length (sP s) <= length (Pz res))%nat).
    { intros X Y. destruct (Cva X) as [s [Hs [Vs Ls]]]. exists s. split; [apply HF_in; exact Hs|]. split; [exact Vs|lia]. }
    destruct (varargs l) as [vl|] eqn:El, (varargs r) as [vr|] eqn:Er; cbn [isSome] in *.
    + destruct Ova; discriminate.
    + apply Wc; [reflexivity|]. apply Lbr. reflexivity.
    + apply Wl; [reflexivity|]. apply Lbl. reflexivity.
    + destruct Omin as [X|X]; [apply Wl; [reflexivity|exact X]|apply Wc; [reflexivity|exact X]].
  - (* star-kwargs *)
    intros H. assert (X : varkwargs l <> None) by (apply Cvk; intros s Hs; apply H; apply HF_in; exact Hs).
    assert (Y : varkwargs r <> None) by (apply (H c Hc_in)).
    destruct (varkwargs l), (varkwargs r), (varkwargs res); cbn in Ovk; congruence.
  - (* passed by name *)
    intros i c0 Hc Hk. destruct (nth_error (Pz l) i) as [a|] eqn:Ea.
    + destruct (Al i c0 a Hc Ea) as [_ R2]. destruct (R2 Hk) as [Ka Na].
      destruct (Cpk i a Ea Ka) as [s [p [Hs [Hp [Kp Np]]]]]. exists s, p. split; [apply HF_in; exact Hs|].
      split; [exact Hp|]. split; [exact Kp|congruence].
    + destruct (mf_faith l r res MFr i c0 Hc) as [[a' [Ha' _]]|[b [Hb Nb]]]; [unfold Pz in Ea; congruence|].
      destruct (Ar i c0 b Hc Hb) as [_ R2]. destruct (R2 Hk) as [Kb _].
      exists c, b. split; [exact Hc_in|]. split; [exact Hb|]. split; [exact Kb|exact Nb].
  - (* required positional *)
    intros i c0 Hc Hd. destruct (Orq i c0 Hc Hd) as [[a [Ha Da]]|[b [Hb Db]]].
    + destruct (Crq i a Ha Da) as [s [p [Hs [Hp [Dp Np]]]]]. exists s, p. split; [apply HF_in; exact Hs|].
      split; [exact Hp|]. split; [exact Dp|]. rewrite Np. exact (NameL i c0 a Hc Ha).
    + exists c, b. split; [exact Hc_in|]. split; [exact Hb|]. split; [exact Db|exact (NameR i c0 b Hc Hb)].
  - (* required keyword-only *)
    intros q Hq Hd. destruct (Oko q Hq Hd) as [q0 [H0 [N0 D0]]]. apply in_app4 in H0.
    destruct H0 as [H0|[H0|[H0|H0]]].
    + destruct (Cko q0 H0 D0) as [s [Hs [[q' [Hq' [Dq' Nq']]]|[j [p [Hp [Dp [Kp [Np [Lj Vl]]]]]]]]]];
        exists s; (split; [apply HF_in; exact Hs|]).
      * left. exists q'. split; [exact Hq'|]. split; [exact Dq'|congruence].
      * right. exists j, p. split; [exact Hp|]. split; [exact Dp|]. split; [exact Kp|]. split; [congruence|].
        split; [pose proof (mf_bndl l r res MFr Vl); unfold posl, Pz in *; lia|apply (mf_va_none l r res MFr); left; exact Vl].
    + exists c. split; [exact Hc_in|]. left. exists q0. auto.
    + (* converted from a positional-or-keyword parameter of the accumulator *)
      assert (H0' : In q0 (Pz l)) by (unfold Pz; apply in_or_app; right; exact H0).
      destruct (In_nth_error _ _ H0') as [j Hj].
      assert (Kq0 : pkind q0 = PK) by (destruct HKl as (_ & K2 & _); rewrite Forall_forall in K2; exact (K2 q0 H0)).
      assert (Lost : (length (Pz res) <= j)%nat /\ varargs res = None).
      { destruct (mf_kwo l r res MFr q Hq) as [H|[H|[H|H]]].
        - exfalso. apply in_map_iff in H. destruct H as [q1 [E1 H1]].
          apply (Pz_kwo_sep l q0 q1 HKl HNl H0' H1). congruence.
        - exfalso. apply in_map_iff in H. destruct H as [q1 [E1 H1]].
          apply (c_pk' l r HC q0 q1 H0' H1). congruence.
        - destruct H as [Hv [e [Hs [He Ne]]]]. destruct (in_skipn_nth _ _ _ Hs) as [i [Hi Hn]].
          assert (i = j) by (apply (nth_error_names_inj (Pz l) i j e q0 NPl Hn Hj); congruence). subst i.
          split; [pose proof (mf_bndr l r res MFr Hv); unfold posl, Pz in *; lia|apply (mf_va_none l r res MFr); right; exact Hv].
        - exfalso. destruct H as [Hv [e [Hs [He Ne]]]]. destruct (in_skipn_nth _ _ _ Hs) as [i [Hi Hn]].
          assert (j = i) by (apply (c_pos l r HC j i q0 e Hj Hn); congruence). subst i.
          assert (j < length (Pz l))%nat by (apply nth_error_Some; congruence). unfold Pz in *. lia. }
      destruct (Crq j q0 Hj D0) as [s [p [Hs [Hp [Dp Np]]]]].
      destruct (si_al _ _ (HSI s Hs) j q0 p Hj Hp) as [_ R2]. destruct (R2 Kq0) as [Kp _].
      exists s. split; [apply HF_in; exact Hs|]. right. exists j, p. split; [exact Hp|]. split; [exact Dp|].
      split; [exact Kp|]. split; [congruence|exact Lost].
    + (* converted from a positional-or-keyword parameter of the new input *)
      assert (H0' : In q0 (Pz r)) by (unfold Pz; apply in_or_app; right; exact H0).
      destruct (In_nth_error _ _ H0') as [j Hj].
      destruct (si_ko _ _ SIr q j q0 Hq Hj N0) as (Lj & Vr & Kq0).
      exists c. split; [exact Hc_in|]. right. exists j, q0. split; [exact Hj|]. auto 10.
  - (* names *)
    intros x Hx.
    assert (HK : In x (names_of (posl l ++ posl r) ++ names_of (kwoargs l) ++ names_of (kwoargs r))).
    { rewrite names_app in Hx. apply in_app_or in Hx. destruct Hx as [Hx|Hx].
      - apply in_or_app. left. apply (mf_pn l r res MFr). exact Hx.
      - apply (mf_kn l r res MFr). exact Hx. }
    assert (FromL : In x (names_of (Pz l ++ kwoargs l)) -> exists s, In s (F ++ [c]) /\ In x (names_of (params s))).
    { intros X. destruct (Cnm x X) as [s [Hs Hn]]. exists s. split; [apply HF_in; exact Hs|exact Hn]. }
    assert (FromR : In x (names_of (Pz r ++ kwoargs r)) -> exists s, In s (F ++ [c]) /\ In x (names_of (params s))).
    { intros X. exists c. split; [exact Hc_in|]. apply names_in in X. destruct X as [p [Hp <-]]. apply params_named; assumption. }
    apply in_app_or in HK. destruct HK as [HK|HK].
    + rewrite names_app in HK. apply in_app_or in HK. destruct HK as [HK|HK];
        [apply FromL|apply FromR]; rewrite names_app; apply in_or_app; left; exact HK.
    + apply in_app_or in HK. destruct HK as [HK|HK]; [apply FromL|apply FromR]; rewrite names_app; apply in_or_app; right; exact HK.
Qed.

(* alignment with an input still to come *)
Lemma AL_step res d : merger l r = Ok res -> AL l d -> AL r d -> AL res d.
Proof.
  intros E H1 H2 i c0 b Hc Hb.
  pose proof (sort_params_kinds c) as HKr. fold r in HKr.
  assert (HNr : NoDup (names_of (flatten r))).
  { unfold r. rewrite (sort_flatten_roundtrip c Vc). apply validate_nodup. apply (valid_sig_parts _ Vc). }
  pose proof (dsuf_of_valid c Vc) as HDr. fold r in HDr.
  pose proof (merger_facts l r HKl HKr HNl HNr HDl HDr HC res E) as MFr.
  destruct (mf_faith l r res MFr i c0 Hc) as [[a' [Ha' Na']]|[b' [Hb' Nb']]].
  - rewrite <- Na'. exact (H1 i a' b Ha' Hb).
  - rewrite <- Nb'. exact (H2 i b' b Hb' Hb).
Qed.
End CStep.

(* ================================================================== *)
(* 4. the origin relation and non-collision force acceptance           *)

Lemma input_parts s n ks :
  valid_sig (params s) = true -> accepts (params s) (mkCall n ks) = true ->
  let S := sort_params s in
  ((n <= length (Pz S))%nat \/ isSome (varargs S) = true) /\
  (forall k, In k ks -> kw_ok (flatten S) n k = true) /\
  (forall j p, nth_error (Pz S) j = Some p -> (n <= j)%nat ->
               has_def p || is_kind PK p && mem (pname p) ks = true) /\
  (forall p, In p (kwoargs S) -> has_def p || mem (pname p) ks = true).
Proof.
  intros V H. cbv zeta. rewrite <- (sort_flatten_roundtrip s V) in H.
  pose proof (kinds_ok_wk _ (sort_params_kinds s)) as W.
  rewrite (accepts_closed (sort_params s) n ks W) in H.
  apply andb_true_iff in H. destruct H as [H H4]. apply andb_true_iff in H. destruct H as [H H3].
  apply andb_true_iff in H. destruct H as [H1 H2].
  rewrite forallb_forall in H2, H4. rewrite forallb_skipn_nth in H3.
  split; [|auto]. apply orb_true_iff in H1. destruct H1 as [H1|H1]; [left; apply Nat.leb_le; exact H1|right; exact H1].
Qed.

Theorem CI_complete A F n ks :
  kinds_ok A -> NoDup (names_of (flatten A)) -> CI A F ->
  (forall s, In s F -> valid_sig (params s) = true /\ accepts (params s) (mkCall n ks) = true) ->
  noncolliding (mkCall n ks) (flatten A) (map params F) = true ->
  accepts (flatten A) (mkCall n ks) = true.
Proof.
  intros KA NA [Cva Cvk Cpk Crq Cko Cnm] Hin Hnc.
  pose proof (kinds_ok_wk _ KA) as Wr. pose proof (named_nodup A NA) as No.
  assert (NPo : NoDup (names_of (Pz A ++ kwoargs A))) by (unfold Pz; rewrite <- app_assoc; exact No).
  pose proof (nodup_Pz A NA) as NPr.
  unfold noncolliding in Hnc. cbn [kws] in Hnc. rewrite forallb_forall in Hnc.
  (* a keyword naming a parameter of the result can be passed by name *)
  assert (NCn : forall k, In k ks -> In k (names_of (Pz A ++ kwoargs A)) -> kwpassable_name (flatten A) k = true).
  { intros k Hk Hn. specialize (Hnc k Hk). apply orb_true_iff in Hnc. destruct Hnc as [X|X]; [exact X|]. exfalso.
    apply negb_true_iff in X. apply mem_false_In in X. apply X. destruct (Cnm k Hn) as [s [Hs Hx]].
    unfold all_names. apply in_flat_map. exists (params s). split; [apply in_map; exact Hs|exact Hx]. }
  assert (NCpk : forall k j p, In k ks -> nth_error (Pz A) j = Some p -> pname p = k -> pkind p = PK).
  { intros k j p Hk Hj En.
    assert (Hn : In k (names_of (Pz A ++ kwoargs A))).
    { rewrite names_app. apply in_or_app. left. rewrite <- En. apply in_names. eapply nth_error_In. exact Hj. }
    destruct (kwpassable_name_inv A k Wr (NCn k Hk Hn)) as [[q [Hq [Hqk Hqn]]]|[q [Hq Hqn]]].
    - destruct (In_nth_error _ _ Hq) as [i Hi].
      assert (i = j) by (apply (nth_error_names_inj (Pz A) i j q p NPr Hi Hj); congruence). subst i.
      assert (q = p) by congruence. subst q. exact Hqk.
    - exfalso. apply (Pz_kwo_sep A p q KA NA (nth_error_In _ _ Hj) Hq). congruence. }
  (* at most as many positional arguments as the result can take *)
  assert (Hpos : (n <= length (Pz A))%nat \/ isSome (varargs A) = true).
  { destruct (varargs A) as [v|] eqn:Ev; [right; reflexivity|left].
    destruct (Cva eq_refl) as [s [Hs [Vs Ls]]]. destruct (Hin s Hs) as [V Hacc].
    destruct (input_parts s n ks V Hacc) as ([X|X] & _); [unfold sP in Ls; lia|rewrite Vs in X; discriminate]. }
  rewrite (accepts_closed A n ks Wr).
  apply andb_true_iff. split; [apply andb_true_iff; split; [apply andb_true_iff; split|]|].
  - apply orb_true_iff. destruct Hpos as [X|X]; [left; apply Nat.leb_le; exact X|right; exact X].
  - apply forallb_forall. intros k Hk. apply (kw_ok_intro A n k Wr NPo).
    destruct (in_dec N.eq_dec k (names_of (Pz A))) as [Hin'|Hnot].
    + left. apply names_in in Hin'. destruct Hin' as [p [Hp En]]. destruct (In_nth_error _ _ Hp) as [j Hj].
      exists j, p. split; [exact Hj|]. split; [exact En|]. left.
      pose proof (NCpk k j p Hk Hj En) as Kp. split; [exact Kp|].
      destruct (Cpk j p Hj Kp) as [s [p' [Hs [Hp' [Kp' Np']]]]]. destruct (Hin s Hs) as [V Hacc].
      destruct (input_parts s n ks V Hacc) as (_ & X2 & _).
      apply (kw_ok_pk_idx (sort_params s) n j p' (kinds_ok_wk _ (sort_params_kinds s))); [| exact Hp' | exact Kp' |].
      * apply nodup_Pz. rewrite (sort_flatten_roundtrip s V). apply validate_nodup. apply (valid_sig_parts _ V).
      * rewrite Np', En. exact (X2 k Hk).
    + right. split; [exact Hnot|].
      destruct (in_dec N.eq_dec k (names_of (kwoargs A))) as [Hko|Hnko]; [left; exact Hko|right].
      (* a keyword foreign to every input: every input has star-kwargs *)
      assert (Hfor : ~ In k (names_of (Pz A ++ kwoargs A))).
      { rewrite names_app. intros X. apply in_app_or in X. tauto. }
      assert (Hall : ~ In k (all_names (map params F))).
      { specialize (Hnc k Hk). apply orb_true_iff in Hnc. destruct Hnc as [X|X].
        - exfalso. destruct (kwpassable_name_inv A k Wr X) as [[q [Hq [_ Hqn]]]|[q [Hq Hqn]]]; apply Hfor;
            rewrite names_app; apply in_or_app; [left|right]; rewrite <- Hqn; apply in_names; exact Hq.
        - apply negb_true_iff in X. apply mem_false_In in X. exact X. }
      assert (Z : varkwargs A <> None).
      { apply Cvk. intros s Hs. destruct (Hin s Hs) as [V Hacc].
        destruct (input_parts s n ks V Hacc) as (_ & X2 & _). specialize (X2 k Hk).
        assert (Hns : ~ In k (names_of (params s))).
        { intros X. apply Hall. unfold all_names. apply in_flat_map. exists (params s). split; [apply in_map; exact Hs|exact X]. }
        destruct (kw_ok_inv (sort_params s) n k (kinds_ok_wk _ (sort_params_kinds s)) X2) as [Y|[[q [Hq [_ Hqn]]]|Y]].
        - destruct (varkwargs (sort_params s)); [discriminate|discriminate].
        - exfalso. apply Hns. rewrite <- Hqn. apply params_named; [exact V|apply in_or_app; left; exact Hq].
        - exfalso. apply Hns. apply names_in in Y. destruct Y as [q [Hq <-]].
          apply params_named; [exact V|apply in_or_app; right; exact Hq]. }
      destruct (varkwargs A); [reflexivity|congruence].
  - apply forallb_skipn_nth. intros j p Hj Hnj. destruct (has_def p) eqn:Hd; [reflexivity|]. cbn [orb].
    destruct (Crq j p Hj Hd) as [s [p' [Hs [Hp' [Dp' Np']]]]]. destruct (Hin s Hs) as [V Hacc].
    destruct (input_parts s n ks V Hacc) as (_ & _ & X3 & _). specialize (X3 j p' Hp' Hnj).
    rewrite Dp' in X3. cbn [orb] in X3. apply andb_true_iff in X3. destruct X3 as [_ X3]. rewrite Np' in X3.
    apply mem_In in X3. rewrite (proj2 (mem_In _ _) X3). unfold is_kind.
    rewrite (NCpk (pname p) j p X3 Hj eq_refl). reflexivity.
  - apply forallb_forall. intros q Hq. destruct (has_def q) eqn:Hd; [reflexivity|]. cbn [orb].
    destruct (Cko q Hq Hd) as [s [Hs [[q' [Hq' [Dq' Nq']]]|[j [p [Hp [Dp [Kp [Np [Lj Vl]]]]]]]]]]; destruct (Hin s Hs) as [V Hacc].
    + destruct (input_parts s n ks V Hacc) as (_ & _ & _ & X4). specialize (X4 q' Hq'). rewrite Dq' in X4. cbn [orb] in X4.
      rewrite <- Nq'. exact X4.
    + destruct (input_parts s n ks V Hacc) as (_ & _ & X3 & _).
      assert (Hnj : (n <= j)%nat) by (destruct Hpos as [X|X]; [lia|rewrite Vl in X; discriminate]).
      specialize (X3 j p Hp Hnj). rewrite Dp in X3. cbn [orb] in X3. apply andb_true_iff in X3. destruct X3 as [_ X3].
      rewrite <- Np. exact X3.
Qed.

(* ================================================================== *)
(* 5. the fold                                                         *)

Lemma all_aligned_cons s ss :
  all_aligned (s :: ss) = true -> Forall (fun t => name_aligned s t = true) ss /\ all_aligned ss = true.
Proof.
  cbn [all_aligned]. intros H. apply andb_true_iff in H. destruct H as [H1 H2]. split; [|exact H2].
  apply Forall_forall. intros t Ht. rewrite forallb_forall in H1. exact (H1 t Ht).
Qed.

Lemma fold_all rest : forall acc done accN,
  Wacc acc -> all_valid done -> all_valid rest ->
  Forall (fun d => compatA acc (sort_params d)) rest ->
  Forall (fun d => AL acc (sort_params d)) rest ->
  Forall (fun s => SI acc (sort_params s)) done -> CI acc done ->
  role_consistent (map params rest) = true -> all_aligned (map params rest) = true ->
  (forall s d, In s done -> In d rest -> roles_agree (params s) (params d) = true) ->
  merge_steps acc rest = Ok accN ->
  Forall (fun s => SI accN (sort_params s)) (done ++ rest) /\ CI accN (done ++ rest) /\ Wacc accN.
Proof.
  induction rest as [|c rest IH]; intros acc done accN HW Vd Vr Cr Ar Sd Cd Hrc Hal Hag E; cbn [merge_steps] in E.
  - inversion E; subst accN. rewrite app_nil_r. auto.
  - apply bind_ok in E. destruct E as [acc1 [E1 E2]]. apply to_incompatible_ok in E1.
    inversion Vr as [|? ? Vc Vr']; subst. inversion Cr as [|? ? Cc Cr']; subst. inversion Ar as [|? ? Ac Ar']; subst.
    cbn [map] in Hrc, Hal.
    destruct (fold_step acc c rest acc1 HW Vc Vr' Cc Cr' Hrc E1) as [HW1 Cr1].
    pose proof HW as [Ka Va]. pose proof (Wacc_nodup acc HW) as Na. pose proof (dsuf_of_validate acc Ka Va) as Da.
    pose proof (sort_params_kinds c) as Kc. pose proof (sort_flatten_roundtrip c Vc) as Fc.
    assert (Nc : NoDup (names_of (flatten (sort_params c)))).
    { rewrite Fc. apply validate_nodup. apply (valid_sig_parts _ Vc). }
    pose proof (dsuf_of_valid c Vc) as Dc.
    assert (Sd1 : Forall (fun s => SI acc1 (sort_params s)) (done ++ [c])).
    { apply Forall_app. split.
      - apply Forall_forall. intros s Hs. rewrite Forall_forall in Sd. unfold all_valid in Vd. rewrite Forall_forall in Vd.
        pose proof (Hag s c Hs (or_introl eq_refl)) as Hsc.
        exact (step_SI_old acc (sort_params c) (sort_params s) Ka Kc (sort_params_kinds s) Na Nc Da Dc Cc (Sd s Hs)
                 (orig_pos s c (Vd s Hs) Vc Hsc) (orig_kinds s c (Vd s Hs) Vc Hsc) acc1 E1).
      - constructor; [|constructor].
        exact (step_SI_new acc (sort_params c) Ka Kc Na Nc Da Dc Cc acc1 E1). }
    assert (Cd1 : CI acc1 (done ++ [c])).
    { apply (CI_step acc c done Ka Na Da Vc Cc Ac Cd); [|exact E1]. intros s Hs. rewrite Forall_forall in Sd. exact (Sd s Hs). }
    destruct (rc_cons _ _ Hrc) as [Hcr Hrc']. destruct (all_aligned_cons _ _ Hal) as [Hca Hal'].
    assert (Ar1 : Forall (fun d => AL acc1 (sort_params d)) rest).
    { apply Forall_forall. intros d Hd. rewrite Forall_forall in Ar', Hca. unfold all_valid in Vr'. rewrite Forall_forall in Vr'.
      apply (AL_step acc c Ka Na Da Vc Cc acc1 (sort_params d) E1 (Ar' d Hd)).
      apply (AL_inputs c d Vc (Vr' d Hd)). apply (Hca (params d)). apply in_map. exact Hd. }
    destruct (IH acc1 (done ++ [c]) accN HW1) as (X & Y & Z); auto.
    + apply Forall_app. split; [exact Vd|constructor; [exact Vc|constructor]].
    + intros s d Hs Hd. apply in_app_or in Hs. destruct Hs as [Hs|[<-|[]]]; [apply Hag; [exact Hs|right; exact Hd]|].
      rewrite Forall_forall in Hcr. apply (Hcr (params d)). apply in_map. exact Hd.
    + rewrite <- app_assoc in X, Y. cbn [app] in X, Y. auto.
Qed.

(* ---- C09: exactness for any number of name-aligned, role-consistent inputs ---- *)
Theorem merge_exact_n_ok ss r :
  all_valid ss -> all_aligned (map params ss) = true -> role_consistent (map params ss) = true ->
  merge ss = Ok r ->
  forall c, noncolliding c (params r) (map params ss) = true ->
            accepts (params r) c = forallb (fun s => accepts (params s) c) ss.
Proof.
  intros V Hal Hrc Hm c Hnc. apply eq_true_iff_eq. split.
  - intros Hc. apply forallb_forall. pose proof (merge_sound_mixed_n ss r c V Hrc Hm Hnc Hc) as H.
    rewrite Forall_forall in H. exact H.
  - intros Hall. rewrite forallb_forall in Hall.
    destruct ss as [|s0 rest]; [discriminate|].
    cbn [merge] in Hm. apply bind_ok in Hm. destruct Hm as [accN [E1 E2]].
    inversion V as [|? ? V0 Vr]; subst. cbn [map] in Hrc, Hal.
    destruct (rc_cons _ _ Hrc) as [H0r Hrc']. destruct (all_aligned_cons _ _ Hal) as [H0a Hal'].
    assert (Hr : params r = flatten accN).
    { unfold apply_params in E2. destruct (validate (flatten accN)); inversion E2; reflexivity. }
    pose proof (Wacc_input s0 V0) as HW0.
    assert (N0 : NoDup (names_of (flatten (sort_params s0)))).
    { rewrite (sort_flatten_roundtrip s0 V0). apply validate_nodup. apply (valid_sig_parts _ V0). }
    assert (A0 : Forall (fun d => AL (sort_params s0) (sort_params d)) rest).
    { apply Forall_forall. intros d Hd. rewrite Forall_forall in H0a. unfold all_valid in Vr. rewrite Forall_forall in Vr.
      apply (AL_inputs s0 d V0 (Vr d Hd)). apply (H0a (params d)). apply in_map. exact Hd. }
    destruct (fold_all rest (sort_params s0) [s0] accN HW0 (Forall_cons _ V0 (Forall_nil _)) Vr
                (compat_inputs s0 rest V0 Vr Hrc) A0
                (Forall_cons _ (SI_refl _ (sort_params_kinds s0) N0) (Forall_nil _)) (CI_input s0 V0) Hrc' Hal')
      as (_ & HCI & HWN); [| exact E1 |].
    { intros s d [<-|[]] Hd. rewrite Forall_forall in H0r. apply (H0r (params d)). apply in_map. exact Hd. }
    cbn [app] in HCI. rewrite Hr. rewrite Hr in Hnc. destruct c as [n ks].
    apply (CI_complete accN (s0 :: rest) n ks (proj1 HWN) (Wacc_nodup _ HWN) HCI); [|exact Hnc].
    intros s Hs. split; [unfold all_valid in V; rewrite Forall_forall in V; exact (V s Hs)|exact (Hall s Hs)].
Qed.

(* the same through the nested form *)
Corollary merge_nested_exact_n_ok ss r :
  all_valid ss -> all_aligned (map params ss) = true -> role_consistent (map params ss) = true ->
  merge_nested ss = Ok r ->
  forall c, noncolliding c (params r) (map params ss) = true ->
            accepts (params r) c = forallb (fun s => accepts (params s) c) ss.
Proof. intros V Hal Hrc Hm. rewrite (merge_nested_eq_rc ss V Hrc) in Hm. exact (merge_exact_n_ok ss r V Hal Hrc Hm). Qed.

(* ---- the Err branch of the binary theorem fails for three inputs
   (names x=1 y=2 args=9 kw=10): (x, y=1), (x, *args), ( **kw ) ---- *)
Theorem merge_exact_n_err_refuted :
  exists ss c,
    all_valid ss /\ all_aligned (map params ss) = true /\ role_consistent (map params ss) = true /\
    merge ss = Err Incompatible /\ forallb (fun s => accepts (params s) c) ss = true.
Proof.
  exists [mkSig [mkParam 1 PK None None UEmpty; mkParam 2 PK (Some 1) None UEmpty] None UEmpty [] [];
          mkSig [mkParam 1 PK None None UEmpty; mkParam 9 VP None None UEmpty] None UEmpty [] [];
          mkSig [mkParam 10 VK None None UEmpty] None UEmpty [] []], (mkCall 0 [1]).
  split; [repeat constructor|]. repeat split; vm_compute; reflexivity.
Qed.

(* the same three inputs in another order merge: whether merge raises depends on the order *)
Theorem merge_raise_depends_on_order :
  exists a b c,
    all_valid [a; b; c] /\ all_aligned (map params [a; b; c]) = true /\ role_consistent (map params [a; b; c]) = true /\
    merge [a; b; c] = Err Incompatible /\
    exists r, merge [a; c; b] = Ok r /\ params r = [mkParam 1 KO None None UEmpty].
Proof.
  exists (mkSig [mkParam 1 PK None None UEmpty; mkParam 2 PK (Some 1) None UEmpty] None UEmpty [] []),
         (mkSig [mkParam 1 PK None None UEmpty; mkParam 9 VP None None UEmpty] None UEmpty [] []),
         (mkSig [mkParam 10 VK None None UEmpty] None UEmpty [] []).
  split; [repeat constructor|]. split; [vm_compute; reflexivity|]. split; [vm_compute; reflexivity|].
  split; [vm_compute; reflexivity|]. eexists. split; vm_compute; reflexivity.
Qed.

(* what an error does say: it is IncompatibleSignatures, raised by one step of the fold; up to
   that step the fold is exact (the prefix satisfies [merge_exact_n_ok]) *)
Lemma merge_steps_err rest : forall acc e,
  merge_steps acc rest = Err e ->
  exists done c rest' acc1 e1, rest = done ++ c :: rest' /\ merge_steps acc done = Ok acc1 /\
                               merger acc1 (sort_params c) = Err e1.
Proof.
  induction rest as [|c rest IH]; intros acc e E; cbn [merge_steps] in E; [discriminate|].
  destruct (merger acc (sort_params c)) as [acc1|e1] eqn:E1; cbn [to_incompatible bind] in E.
  - destruct (IH acc1 e E) as (done & c' & rest' & acc2 & e2 & -> & X & Y).
    exists (c :: done), c', rest', acc2, e2. split; [reflexivity|]. split; [|exact Y].
    cbn [merge_steps]. rewrite E1. cbn [to_incompatible bind]. exact X.
  - exists [], c, rest, acc, e1. split; [reflexivity|]. split; [reflexivity|exact E1].
Qed.

Theorem merge_exact_n_err_partial s0 ss e :
  all_valid (s0 :: ss) -> role_consistent (map params (s0 :: ss)) = true ->
  merge (s0 :: ss) = Err e ->
  e = Incompatible /\
  exists done c rest acc1 e1 r1,
    ss = done ++ c :: rest /\ merge_steps (sort_params s0) done = Ok acc1 /\
    merge (s0 :: done) = Ok r1 /\ params r1 = flatten acc1 /\
    merger acc1 (sort_params c) = Err e1.
Proof.
  intros V Hrc E. split; [exact (merge_rc_only_incompatible_n s0 ss e V Hrc E)|].
  cbn [merge] in E. destruct (merge_steps (sort_params s0) ss) as [accN|e0] eqn:E0; cbn [bind] in E.
  - exfalso. inversion V as [|? ? V0 Vr]; subst. cbn [map] in Hrc.
    destruct (merge_steps_rc_valid ss (sort_params s0) accN (Wacc_input s0 V0) Vr
                (compat_inputs s0 ss V0 Vr Hrc) (proj2 (rc_cons _ _ Hrc)) E0) as [_ X].
    unfold apply_params in E. rewrite X in E. discriminate.
  - destruct (merge_steps_err ss (sort_params s0) e0 E0) as (done & c & rest & acc1 & e1 & -> & X & Y).
    inversion V as [|? ? V0 Vr]; subst. cbn [map] in Hrc.
    assert (Vd : all_valid done) by (unfold all_valid in *; apply Forall_app in Vr; tauto).
    assert (Hrcd : role_consistent (map params done) = true).
    { destruct (rc_cons _ _ Hrc) as [_ H]. clear -H. induction done as [|d done IH]; [reflexivity|].
      cbn [app map] in H. destruct (rc_cons _ _ H) as [H1 H2]. cbn [map role_consistent]. apply andb_true_iff. split; [|apply IH; exact H2].
      apply forallb_forall. intros t Ht. rewrite Forall_forall in H1. apply andb_true_iff. apply H1.
      rewrite map_app. apply in_or_app. left. exact Ht. }
    assert (C0 : Forall (fun d => compatA (sort_params s0) (sort_params d)) done).
    { pose proof (compat_inputs s0 (done ++ c :: rest) V0 Vr Hrc) as H. apply Forall_app in H. tauto. }
    destruct (merge_steps_rc_valid done (sort_params s0) acc1 (Wacc_input s0 V0) Vd C0 Hrcd X) as [_ Vacc].
    exists done, c, rest, acc1, e1, (mkSig (flatten acc1) (ret s0) (uret s0) (ssrc acc1) (sdep acc1)).
    split; [reflexivity|]. split; [exact X|]. split; [|split; [reflexivity|exact Y]].
    cbn [merge]. rewrite X. cbn [bind]. unfold apply_params. rewrite Vacc. reflexivity.
Qed.

(* non-vacuity of the positive theorem: three inputs, a conversion to keyword-only on the way *)
Example merge_exact_n_example :
  let a := mkSig [mkParam 1 PK None None UEmpty; mkParam 2 PK (Some 1) None UEmpty] None UEmpty [] [] in
  let c := mkSig [mkParam 10 VK None None UEmpty] None UEmpty [] [] in
  let b := mkSig [mkParam 1 PK None None UEmpty; mkParam 9 VP None None UEmpty] None UEmpty [] [] in
  all_valid [a; c; b] /\ all_aligned (map params [a; c; b]) = true /\ role_consistent (map params [a; c; b]) = true /\
  exists r, merge [a; c; b] = Ok r /\ params r = [mkParam 1 KO None None UEmpty] /\
            noncolliding (mkCall 0 [1]) (params r) (map params [a; c; b]) = true /\
            accepts (params r) (mkCall 0 [1]) = true.
Proof.
  cbv zeta. split; [repeat constructor|]. split; [vm_compute; reflexivity|]. split; [vm_compute; reflexivity|].
  eexists. split; [vm_compute; reflexivity|]. split; [vm_compute; reflexivity|]. split; vm_compute; reflexivity.
Qed.

Print Assumptions step_origin.
Print Assumptions CI_step.
Print Assumptions CI_complete.
Print Assumptions merge_exact_n_ok.
Print Assumptions merge_nested_exact_n_ok.
Print Assumptions merge_exact_n_err_refuted.
Print Assumptions merge_raise_depends_on_order.
Print Assumptions merge_exact_n_err_partial.
Print Assumptions merge_exact_n_example.
