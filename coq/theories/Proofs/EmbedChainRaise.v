(* EmbedChainRaise.v — C02, the raise clause of the flat n-ary chain, for ALL
   valid signatures.  embed(s1, ..., sn) = IncompatibleSignatures is raised at
   one identifiable level of the fold: the prefix s1..sk embeds to a signature r
   (every shorter prefix too), the step with the next signature b fails, and at
   that level C02_raises applies: a non-star parameter name of b is shared with
   one of s1..sk, or no call at all is chain-accepted by (r, b) — hence, for
   every call on which no default was cleared in the prefix (levels_kept), by
   the flat chain of the whole list.  The other possibility is that a prefix
   result is not a signature of its own (plain ValueError: a star named like a
   parameter), in which case the fold went on with an unvalidated intermediate
   result and nothing is claimed. *)
From Sigtools.Model Require Import Base Bind Roles Algebra.
From Sigtools.Proofs Require Import SmallModel Basics MaskLaws MaskExact MergeNeutral MergeIdem
     MaskNamesLib MergeSoundBase MergeSoundInv MergeSound SweepDefs2 EmbedSoundStars EmbedSoundAcc
     EmbedSound EmbedSoundAssoc EmbedChainN.
From Coq Require Import Lia Btauto.

(* the names of the non-star parameters *)
Definition nnames (ps : list param) : list name := names_of (filter is_named ps).

(* the "shared name" clause of C02_raises *)
Definition shares_name (o i : list param) : bool :=
  existsb (fun p => is_named p && mem (pname p) (nnames i)) o.

Lemma shares_name_spec o i :
  shares_name o i = true <-> exists x, In x (nnames o) /\ In x (nnames i).
Proof.
  unfold shares_name. rewrite existsb_exists. split.
  - intros [p [Hp H]]. apply andb_true_iff in H. destruct H as [H1 H2]. apply mem_In in H2.
    exists (pname p). split; [|exact H2]. unfold nnames. apply in_names. apply filter_In. auto.
  - intros [x [H1 H2]]. unfold nnames in H1. apply names_in in H1. destruct H1 as [p [Hp <-]].
    apply filter_In in Hp. destruct Hp as [Hp Hn]. exists p. split; [exact Hp|].
    rewrite Hn. cbn [andb]. apply mem_In. exact H2.
Qed.

Lemma is_named_split p : is_named p = is_positional p || is_kind KO p.
Proof. unfold is_named, is_positional, is_kind, kind_eqb. destruct (pkind p); reflexivity. Qed.

(* the non-star names of embed(a, b) are non-star names of a or of b *)
Lemma embed2_nnames a b uva uvk ab x :
  valid_sig (params a) = true -> valid_sig (params b) = true ->
  embed [a; b] uva uvk = Ok ab ->
  In x (nnames (params ab)) -> In x (nnames (params a)) \/ In x (nnames (params b)).
Proof.
  intros Va Vb E Hx. destruct (embed2_struct a b uva uvk ab Va Vb E) as (_ & S2 & _).
  unfold nnames in Hx. apply names_in in Hx. destruct Hx as [q [Hq <-]].
  apply filter_In in Hq. destruct Hq as [Hq Hn]. rewrite is_named_split in Hn.
  assert (Hq' : In q (positional (params ab) ++ kwonly (params ab))).
  { apply in_or_app. apply orb_true_iff in Hn. destruct Hn as [Hn|Hn]; [left|right]; apply filter_In; auto. }
  assert (G : forall s, valid_sig (params s) = true ->
            In (pname q) (names_of (Pz (sort_params s) ++ kwoargs (sort_params s))) -> In (pname q) (nnames (params s))).
  { intros s Vs H. apply names_in in H. destruct H as [p [Hp En]]. rewrite <- En. unfold nnames.
    apply in_names. apply filter_In.
    destruct (sort_params_kinds s) as (K1 & K2 & _ & K4 & _). rewrite Forall_forall in K1, K2, K4.
    apply in_app_or in Hp. destruct Hp as [Hp|Hp].
    - split; [apply Pz_in_params; assumption|]. unfold Pz in Hp. apply in_app_or in Hp. unfold is_named.
      destruct Hp as [Hp|Hp]; [rewrite (K1 p Hp)|rewrite (K2 p Hp)]; reflexivity.
    - split; [|unfold is_named; rewrite (K4 p Hp); reflexivity].
      rewrite <- (sort_flatten_roundtrip s Vs). unfold flatten.
      apply in_or_app. right. apply in_or_app. right. apply in_or_app. right. apply in_or_app. left. exact Hp. }
  destruct (S2 q Hq') as [H|H]; [left; exact (G a Va H)|right; exact (G b Vb H)].
Qed.

Lemma embed_one a uva uvk : valid_sig (params a) = true -> embed [a] uva uvk = Ok a.
Proof. intros Va. cbn [embed embed_steps bind]. apply apply_sort_roundtrip. exact Va. Qed.

Lemma same_sig_err x y e : same_sig x y -> x = Err e -> y = Err e.
Proof. destruct x as [r|e1], y as [r'|e2]; cbn [same_sig]; intros H E; try contradiction; try discriminate. inversion E; subst. reflexivity. Qed.

Lemma same_sig_err' x y e : same_sig x y -> y = Err e -> x = Err e.
Proof. destruct x as [r|e1], y as [r'|e2]; cbn [same_sig]; intros H E; try contradiction; try discriminate. inversion E; subst. reflexivity. Qed.

(* ------------------------------------------------------------------ *)
(* the failing level                                                    *)

Theorem C02_chain_raises_level rest : forall a uva uvk,
  valid_sig (params a) = true -> Forall (fun s => valid_sig (params s) = true) rest ->
  embed (a :: rest) uva uvk = Err Incompatible ->
  exists pre b post,
    rest = pre ++ b :: post /\
    (embed (a :: pre ++ [b]) uva uvk = Err ValueErr
     \/ exists r,
          embed (a :: pre) uva uvk = Ok r /\
          embed (a :: pre ++ [b]) uva uvk = Err Incompatible /\
          (forall x, In x (nnames (params r)) -> exists s, In s (a :: pre) /\ In x (nnames (params s))) /\
          (shares_name (params r) (params b) = true
           \/ forall c, chain (params r) (params b) uva uvk 0 [] c = false)).
Proof.
  induction rest as [|b rest IH]; intros a uva uvk Va Vrest H.
  - rewrite (embed_one a uva uvk Va) in H. discriminate.
  - inversion Vrest as [|? ? Vb Vrest']; subst.
    destruct (embed [a; b] uva uvk) as [ab|e] eqn:Eab.
    + pose proof (C02_assoc a b rest uva uvk ab Vb Eab) as HA.
      pose proof (same_sig_err _ _ _ HA H) as H'.
      destruct (IH ab uva uvk (embed2_valid a b uva uvk ab Vb Eab) Vrest' H')
        as (pre & b' & post & Er & Alt).
      exists (b :: pre), b', post. split; [rewrite Er; reflexivity|]. cbn [app].
      destruct Alt as [Hv|(r' & E1 & E2 & Hn & Hd)].
      * left. exact (same_sig_err' _ _ _ (C02_assoc a b (pre ++ [b']) uva uvk ab Vb Eab) Hv).
      * right. pose proof (C02_assoc a b pre uva uvk ab Vb Eab) as HA1. rewrite E1 in HA1.
        destruct (embed (a :: b :: pre) uva uvk) as [r|e] eqn:Er1; [|contradiction]. cbn [same_sig] in HA1.
        exists r. split; [reflexivity|].
        split; [exact (same_sig_err' _ _ _ (C02_assoc a b (pre ++ [b']) uva uvk ab Vb Eab) E2)|].
        rewrite HA1. split; [|exact Hd].
        intros x Hx. destruct (Hn x Hx) as (s & [<-|Hs] & Hxs).
        -- destruct (embed2_nnames a b uva uvk ab x Va Vb Eab Hxs) as [X|X].
           ++ exists a. split; [left; reflexivity|exact X].
           ++ exists b. split; [right; left; reflexivity|exact X].
        -- exists s. split; [right; right; exact Hs|exact Hxs].
    + pose proof (embed_only_value_errors a [b] uva uvk) as Hb. rewrite Eab in Hb.
      exists [], b, rest. split; [reflexivity|]. cbn [app].
      destruct e as [| |t]; [|left; exact Eab|destruct Hb].
      right. exists a. split; [exact (embed_one a uva uvk Va)|]. split; [exact Eab|].
      split; [intros x Hx; exists a; split; [left; reflexivity|exact Hx]|].
      exact (C02_raises a b uva uvk Va Vb Eab).
Qed.

(* ------------------------------------------------------------------ *)
(* from the failing level to the flat chain                             *)

(* the chain through the embedded prefix is the chain through its members,
   on calls for which no default was cleared in the prefix *)
Lemma chain_n_fold pre : forall a uva uvk r R c,
  valid_sig (params a) = true -> Forall (fun s => valid_sig (params s) = true) pre ->
  embed (a :: pre) uva uvk = Ok r -> levels_kept a pre uva uvk c ->
  chain_n (params r :: R) uva uvk c = chain_n (map params (a :: pre) ++ R) uva uvk c.
Proof.
  induction pre as [|b pre IH]; intros a uva uvk r R c Va Vpre Er Hlev.
  - rewrite (embed_one a uva uvk Va) in Er. inversion Er; subst r. reflexivity.
  - cbn [levels_kept] in Hlev. destruct Hlev as (ab & Eab & Hnc & Hkept & Hlev).
    inversion Vpre as [|? ? Vb Vpre']; subst.
    pose proof (C02_assoc a b pre uva uvk ab Vb Eab) as HA. rewrite Er in HA.
    destruct (embed (ab :: pre) uva uvk) as [r'|e] eqn:Er'; [|contradiction]. cbn [same_sig] in HA.
    rewrite HA. rewrite (IH ab uva uvk r' R c (embed2_valid a b uva uvk ab Vb Eab) Vpre' Er' Hlev).
    cbn [map app]. apply (chain_n_level a b ab (map params pre ++ R) uva uvk c Va Vb Eab Hnc).
    rewrite (C02_exact_defaults_kept a b uva uvk ab c Va Vb Eab Hkept Hnc). reflexivity.
Qed.

Lemma chain_n_prefix l : forall l' uva uvk c, chain_n (l ++ l') uva uvk c = true -> chain_n l uva uvk c = true.
Proof.
  induction l as [|s l IH]; intros l' uva uvk c H; [reflexivity|].
  cbn [app chain_n] in *. apply andb_true_iff in H. destruct H as [H1 H2]. rewrite H1. cbn [andb].
  destruct l as [|t l]; [reflexivity|]. cbn [app] in H2. exact (IH l' uva uvk _ H2).
Qed.

(* C02, flat n-ary chain: the raise clause *)
Theorem C02_chain_raises rest a uva uvk :
  valid_sig (params a) = true -> Forall (fun s => valid_sig (params s) = true) rest ->
  embed (a :: rest) uva uvk = Err Incompatible ->
  exists pre b post,
    rest = pre ++ b :: post /\
    (* the step that fails is the one embedding b into the result of a :: pre *)
    (embed (a :: pre ++ [b]) uva uvk = Err ValueErr
     \/ (embed (a :: pre ++ [b]) uva uvk = Err Incompatible /\
         exists r, embed (a :: pre) uva uvk = Ok r /\
           ((exists s, In s (a :: pre) /\ shares_name (params s) (params b) = true)
            \/ ((forall c, chain (params r) (params b) uva uvk 0 [] c = false) /\
                forall c, levels_kept a pre uva uvk c ->
                          chain_n (map params (a :: rest)) uva uvk c = false)))).
Proof.
  intros Va Vrest H.
  destruct (C02_chain_raises_level rest a uva uvk Va Vrest H) as (pre & b & post & Er & Alt).
  exists pre, b, post. split; [exact Er|]. destruct Alt as [Hv|(r & E1 & E2 & Hn & Hd)]; [left; exact Hv|].
  right. split; [exact E2|]. exists r. split; [exact E1|]. destruct Hd as [Hs|Hnone].
  - left. apply shares_name_spec in Hs. destruct Hs as (x & Hx1 & Hx2).
    destruct (Hn x Hx1) as (s & Hs & Hxs). exists s. split; [exact Hs|].
    apply shares_name_spec. exists x. auto.
  - right. split; [exact Hnone|]. intros c Hlev.
    assert (Vpre : Forall (fun s => valid_sig (params s) = true) pre).
    { rewrite Er in Vrest. apply Forall_app in Vrest. tauto. }
    destruct (chain_n (map params (a :: rest)) uva uvk c) eqn:Ec; [|reflexivity]. exfalso.
    rewrite Er in Ec.
    assert (Em : map params (a :: pre ++ b :: post) = (map params (a :: pre) ++ [params b]) ++ map params post).
    { cbn [map]. rewrite map_app. cbn [map app]. rewrite <- app_assoc. reflexivity. }
    rewrite Em in Ec. apply chain_n_prefix in Ec.
    rewrite <- (chain_n_fold pre a uva uvk r [params b] c Va Vpre E1 Hlev), chain_n_pair, Hnone in Ec.
    discriminate.
Qed.

(* the level can be anywhere: here the pair (a, b) embeds, the third signature
   has a required positional-only parameter that nothing can reach *)
Example C02_chain_raises_nonvacuous :
  let a := mkSig [mkParam 1 PK None None UEmpty; mkParam 9 VP None None UEmpty; mkParam 10 VK None None UEmpty]
                 None UEmpty [] [] in
  let b := mkSig [mkParam 2 PK None None UEmpty; mkParam 10 VK None None UEmpty] None UEmpty [] [] in
  let c := mkSig [mkParam 3 PO None None UEmpty] None UEmpty [] [] in
  valid_sig (params a) = true /\ valid_sig (params b) = true /\ valid_sig (params c) = true /\
  embed [a; b; c] true true = Err Incompatible /\
  (exists r, embed [a; b] true true = Ok r /\ shares_name (params r) (params c) = false) /\
  shares_name (params a) (params c) = false /\ shares_name (params b) (params c) = false.
Proof. vm_compute. repeat split; try reflexivity. eexists. split; reflexivity. Qed.

Print Assumptions C02_chain_raises_level.
Print Assumptions chain_n_fold.
Print Assumptions C02_chain_raises.
Print Assumptions C02_chain_raises_nonvacuous.

(* ------------------------------------------------------------------ *)
(* the unconditional clause: when no name is shared, NO call is accepted *)
(* by the flat chain (no kept-defaults condition, no non-collision)      *)

(* what can reach the k-th signature: positionals only through star-args
   parameters all along, keywords only through double-star parameters *)
Definition sa (h k : bool) (c : call) : Prop := (npos c = 0%nat \/ h = true) /\ (kws c = [] \/ k = true).

Lemma accepts_npos_le ps c : accepts ps c = true -> has_kind VP ps = false -> (npos c <= length (positional ps))%nat.
Proof.
  unfold accepts. intros H Hv. rewrite Hv, orb_false_r in H.
  apply andb_true_iff in H. destruct H as [H _]. apply andb_true_iff in H. destruct H as [H _].
  apply andb_true_iff in H. destruct H as [H _]. apply Nat.leb_le. exact H.
Qed.

Lemma accepts_no_extra ps c k :
  accepts ps c = true -> has_kind VK ps = false -> In k (kws c) -> is_extra ps (npos c) k = false.
Proof.
  unfold accepts. intros H Hv Hk.
  apply andb_true_iff in H. destruct H as [H _]. apply andb_true_iff in H. destruct H as [H _].
  apply andb_true_iff in H. destruct H as [_ H]. rewrite forallb_forall in H. specialize (H k Hk).
  unfold kw_ok in H. unfold is_extra. destruct (kw_class ps (npos c) k); try reflexivity. congruence.
Qed.

Lemma sa_surplus s uva uvk h k c :
  accepts s c = true -> sa h k c ->
  sa (h && (uva && has_kind VP s)) (k && (uvk && has_kind VK s)) (surplus s uva uvk c).
Proof.
  intros Ha [S1 S2]. unfold sa, surplus. cbn [npos kws]. split.
  - destruct uva; [|left; reflexivity]. unfold surplus_pos.
    destruct S1 as [S1|S1]; [left; rewrite S1; reflexivity|]. subst h. cbn [andb].
    destruct (has_kind VP s) eqn:Ev; [right; reflexivity|left].
    pose proof (accepts_npos_le s c Ha Ev). lia.
  - destruct uvk; [|left; reflexivity]. rewrite surplus_kws_filter.
    destruct S2 as [S2|S2]; [left; rewrite S2; reflexivity|]. subst k. cbn [andb].
    destruct (has_kind VK s) eqn:Ev; [right; reflexivity|left].
    assert (E : forall x, In x (kws c) -> is_extra s (npos c) x = false)
      by (intros x Hx; exact (accepts_no_extra s c x Ha Ev Hx)).
    induction (kws c) as [|x l IH]; [reflexivity|]. cbn [filter].
    rewrite (E x (or_introl eq_refl)). apply IH. intros y Hy. apply E. right. exact Hy.
Qed.

Lemma chain_n_last pb uva uvk l : forall c h k,
  sa h k c -> chain_n (l ++ [pb]) uva uvk c = true ->
  exists cb, accepts pb cb = true /\
             sa (h && forallb (fun s => uva && has_kind VP s) l) (k && forallb (fun s => uvk && has_kind VK s) l) cb.
Proof.
  induction l as [|s l IH]; intros c h k Hs H.
  - cbn [app chain_n forallb] in *. rewrite !andb_true_r in *. exists c. auto.
  - assert (E : chain_n ((s :: l) ++ [pb]) uva uvk c = accepts s c && chain_n (l ++ [pb]) uva uvk (surplus s uva uvk c)).
    { cbn [app chain_n]. destruct (l ++ [pb]) eqn:El; [destruct l; discriminate|reflexivity]. }
    rewrite E in H. apply andb_true_iff in H. destruct H as [Ha Ht].
    destruct (IH _ _ _ (sa_surplus s uva uvk h k c Ha Hs) Ht) as (cb & Hb & Hsa).
    exists cb. split; [exact Hb|]. cbn [forallb].
    destruct Hsa as [X1 X2]. split; [destruct X1 as [X1|X1]; [left; exact X1|right; rewrite <- X1; btauto]
                                    |destruct X2 as [X2|X2]; [left; exact X2|right; rewrite <- X2; btauto]].
Qed.

Lemma sorted_nnames s x :
  valid_sig (params s) = true ->
  In x (names_of (Pz (sort_params s) ++ kwoargs (sort_params s))) -> In x (nnames (params s)).
Proof.
  intros Vs H. apply names_in in H. destruct H as [p [Hp En]]. rewrite <- En. unfold nnames.
  apply in_names. apply filter_In.
  destruct (sort_params_kinds s) as (K1 & K2 & _ & K4 & _). rewrite Forall_forall in K1, K2, K4.
  apply in_app_or in Hp. destruct Hp as [Hp|Hp].
  - split; [apply Pz_in_params; assumption|]. unfold Pz in Hp. apply in_app_or in Hp. unfold is_named.
    destruct Hp as [Hp|Hp]; [rewrite (K1 p Hp)|rewrite (K2 p Hp)]; reflexivity.
  - split; [|unfold is_named; rewrite (K4 p Hp); reflexivity].
    rewrite <- (sort_flatten_roundtrip s Vs). unfold flatten.
    apply in_or_app. right. apply in_or_app. right. apply in_or_app. right. apply in_or_app. left. exact Hp.
Qed.

Lemma sorted_vp s : valid_sig (params s) = true ->
  isSome (varargs (sort_params s)) = has_kind VP (params s) /\
  isSome (varkwargs (sort_params s)) = has_kind VK (params s).
Proof.
  intros Vs. pose proof (kinds_ok_wk _ (sort_params_kinds s)) as W.
  pose proof (flat_vp _ W) as E1. pose proof (flat_vk _ W) as E2.
  rewrite (sort_flatten_roundtrip s Vs) in E1, E2. auto.
Qed.

(* a failing pair: a shared non-star name, or a required parameter of b that
   nothing forwarded by a can reach *)
Lemma embed2_raise_reach a b uva uvk :
  valid_sig (params a) = true -> valid_sig (params b) = true ->
  embed [a; b] uva uvk = Err Incompatible ->
  shares_name (params a) (params b) = true \/
  reach_ok (sort_params b) (uva && has_kind VP (params a)) (uvk && has_kind VK (params a)) = false.
Proof.
  intros Va Vb E. destruct (embed2_incompat a b uva uvk E) as [e Es].
  pose proof (sort_params_kinds a) as KO_. pose proof (sort_params_kinds b) as KI.
  pose proof (sorted_named_nodup a Va) as NO_. pose proof (sorted_named_nodup b Vb) as NI.
  destruct (sorted_vp a Va) as [Ea1 Ea2]. rewrite <- Ea1, <- Ea2.
  set (O := sort_params a) in *. set (I := sort_params b) in *.
  assert (NY : forall Y, merger I (starsO O uva uvk) = Ok Y -> NoDup (names_of (Pz Y ++ kwoargs Y))).
  { intros Y EY. destruct (closedY O I uva uvk KO_ KI NI Y EY) as (_ & Y1 & Y2 & Y3 & _).
    unfold Pz. rewrite Y1, Y2, Y3. apply reach_nodup. exact NI. }
  destruct (embed_step_err O I uva uvk 1 e (NO' O NO_) NY Es) as [[e' EY]|(Y & x & EY & Hx & Hc)].
  - right. exact (errY O I uva uvk KO_ KI NI e' EY).
  - left. apply shares_name_spec. exists x. split; [exact (sorted_nnames a x Va Hc)|].
    destruct (closedY O I uva uvk KO_ KI NI Y EY) as (_ & Y1 & Y2 & Y3 & _).
    unfold Pz in Hx. rewrite Y1, Y2, Y3 in Hx. apply reach_incl in Hx.
    apply (sorted_nnames b x Vb). unfold Pz. rewrite <- app_assoc. exact Hx.
Qed.

(* the star parameters of embed(a, b) *)
Lemma embed2_stars a b uva uvk ab :
  valid_sig (params a) = true -> valid_sig (params b) = true -> embed [a; b] uva uvk = Ok ab ->
  has_kind VP (params ab) = (if uva then has_kind VP (params a) && has_kind VP (params b) else has_kind VP (params a)) /\
  has_kind VK (params ab) = (if uvk then has_kind VK (params a) && has_kind VK (params b) else has_kind VK (params a)).
Proof.
  intros Va Vb E. destruct (embed2_ok a b uva uvk ab E) as [res [Es Hr]].
  pose proof (sort_params_kinds a) as KO_. pose proof (sort_params_kinds b) as KI.
  pose proof (sorted_named_nodup b Vb) as NI.
  pose proof (kinds_ok_wk _ (embed_step_kinds _ _ uva uvk 1 res KO_ KI NI Es)) as Wres.
  destruct (embed_step_ok _ _ uva uvk 1 res Es) as (Y & EY & _ & _ & HV & HK & _).
  destruct (closedY _ _ uva uvk KO_ KI NI Y EY) as (_ & _ & _ & _ & Y4 & Y5 & _).
  destruct (sorted_vp a Va) as [Ea1 Ea2]. destruct (sorted_vp b Vb) as [Eb1 Eb2].
  rewrite Hr, (flat_vp res Wres), (flat_vk res Wres), HV, HK. split.
  - destruct uva; [rewrite Y4, Ea1, Eb1; cbn [andb]; apply andb_comm|exact Ea1].
  - destruct uvk; [rewrite Y5, Ea2, Eb2; cbn [andb]; apply andb_comm|exact Ea2].
Qed.

Definition all_vp (l : list sigT) : Prop := Forall (fun s => has_kind VP (params s) = true) l.
Definition all_vk (l : list sigT) : Prop := Forall (fun s => has_kind VK (params s) = true) l.

(* the failing level again, with the reason in terms of what can reach b *)
Theorem C02_chain_raises_reach rest : forall a uva uvk,
  valid_sig (params a) = true -> Forall (fun s => valid_sig (params s) = true) rest ->
  embed (a :: rest) uva uvk = Err Incompatible ->
  exists pre b post,
    rest = pre ++ b :: post /\
    (embed (a :: pre ++ [b]) uva uvk = Err ValueErr
     \/ exists r,
          embed (a :: pre) uva uvk = Ok r /\
          embed (a :: pre ++ [b]) uva uvk = Err Incompatible /\
          ((exists s, In s (a :: pre) /\ shares_name (params s) (params b) = true)
           \/ exists h k, reach_ok (sort_params b) h k = false /\
                          (uva = true -> all_vp (a :: pre) -> h = true) /\
                          (uvk = true -> all_vk (a :: pre) -> k = true))).
Proof.
  induction rest as [|b rest IH]; intros a uva uvk Va Vrest H.
  - rewrite (embed_one a uva uvk Va) in H. discriminate.
  - inversion Vrest as [|? ? Vb Vrest']; subst.
    destruct (embed [a; b] uva uvk) as [ab|e] eqn:Eab.
    + pose proof (C02_assoc a b rest uva uvk ab Vb Eab) as HA.
      pose proof (same_sig_err _ _ _ HA H) as H'.
      destruct (IH ab uva uvk (embed2_valid a b uva uvk ab Vb Eab) Vrest' H')
        as (pre & b' & post & Er & Alt).
      exists (b :: pre), b', post. split; [rewrite Er; reflexivity|]. cbn [app].
      destruct Alt as [Hv|(r' & E1 & E2 & Hd)].
      * left. exact (same_sig_err' _ _ _ (C02_assoc a b (pre ++ [b']) uva uvk ab Vb Eab) Hv).
      * right. pose proof (C02_assoc a b pre uva uvk ab Vb Eab) as HA1. rewrite E1 in HA1.
        destruct (embed (a :: b :: pre) uva uvk) as [r|e] eqn:Er1; [|contradiction].
        exists r. split; [reflexivity|].
        split; [exact (same_sig_err' _ _ _ (C02_assoc a b (pre ++ [b']) uva uvk ab Vb Eab) E2)|].
        destruct (embed2_stars a b uva uvk ab Va Vb Eab) as [SV SK].
        destruct Hd as [(s & [<-|Hs] & Hsh)|(h & k & Hr & Hh & Hk)].
        -- left. apply shares_name_spec in Hsh. destruct Hsh as (x & Hx1 & Hx2).
           destruct (embed2_nnames a b uva uvk ab x Va Vb Eab Hx1) as [X|X].
           ++ exists a. split; [left; reflexivity|]. apply shares_name_spec. exists x. auto.
           ++ exists b. split; [right; left; reflexivity|]. apply shares_name_spec. exists x. auto.
        -- left. exists s. split; [right; right; exact Hs|exact Hsh].
        -- right. exists h, k. split; [exact Hr|]. split.
           ++ intros Hu Hall. apply (Hh Hu). pose proof (Forall_inv Hall) as Pa.
              pose proof (Forall_inv (Forall_inv_tail Hall)) as Pb. cbv beta in Pa, Pb.
              constructor; [|exact (Forall_inv_tail (Forall_inv_tail Hall))].
              rewrite SV, Hu, Pa, Pb. reflexivity.
           ++ intros Hu Hall. apply (Hk Hu). pose proof (Forall_inv Hall) as Pa.
              pose proof (Forall_inv (Forall_inv_tail Hall)) as Pb. cbv beta in Pa, Pb.
              constructor; [|exact (Forall_inv_tail (Forall_inv_tail Hall))].
              rewrite SK, Hu, Pa, Pb. reflexivity.
    + pose proof (embed_only_value_errors a [b] uva uvk) as Hb. rewrite Eab in Hb.
      exists [], b, rest. split; [reflexivity|]. cbn [app].
      destruct e as [| |t]; [|left; exact Eab|destruct Hb].
      right. exists a. split; [exact (embed_one a uva uvk Va)|]. split; [exact Eab|].
      destruct (embed2_raise_reach a b uva uvk Va Vb Eab) as [Hs|Hr].
      * left. exists a. split; [left; reflexivity|exact Hs].
      * right. exists (uva && has_kind VP (params a)), (uvk && has_kind VK (params a)).
        split; [exact Hr|]. split.
        -- intros Hu Hall. pose proof (Forall_inv Hall) as Pa. cbv beta in Pa. rewrite Hu, Pa. reflexivity.
        -- intros Hu Hall. pose proof (Forall_inv Hall) as Pa. cbv beta in Pa. rewrite Hu, Pa. reflexivity.
Qed.

Lemma forallb_stars (f : list param -> bool) (u : bool) (l : list sigT) :
  forallb (fun s => u && f s) (map params l) = true ->
  l <> [] -> u = true /\ Forall (fun s => f (params s) = true) l.
Proof.
  intros H Hne. assert (G : Forall (fun s => u && f (params s) = true) l).
  { apply Forall_forall. intros s Hs. rewrite forallb_forall in H. apply (H (params s)). apply in_map. exact Hs. }
  split.
  - destruct l as [|s l]; [contradiction|]. inversion G as [|? ? X _]; subst. apply andb_true_iff in X. tauto.
  - eapply Forall_impl; [|exact G]. cbv beta. intros s X. apply andb_true_iff in X. tauto.
Qed.

(* C02, flat n-ary chain, the raise clause WITHOUT side condition on the calls:
   IncompatibleSignatures means that, unless an intermediate result is not a
   signature, a non-star name of the signature that fails to embed is shared
   with an earlier one, or NO call at all is accepted by the flat chain *)
Theorem C02_chain_raises_all rest a uva uvk :
  valid_sig (params a) = true -> Forall (fun s => valid_sig (params s) = true) rest ->
  embed (a :: rest) uva uvk = Err Incompatible ->
  exists pre b post,
    rest = pre ++ b :: post /\
    (embed (a :: pre ++ [b]) uva uvk = Err ValueErr
     \/ (embed (a :: pre ++ [b]) uva uvk = Err Incompatible /\
         exists r, embed (a :: pre) uva uvk = Ok r /\
           ((exists s, In s (a :: pre) /\ shares_name (params s) (params b) = true)
            \/ forall c, chain_n (map params (a :: rest)) uva uvk c = false))).
Proof.
  intros Va Vrest H.
  destruct (C02_chain_raises_reach rest a uva uvk Va Vrest H) as (pre & b & post & Er & Alt).
  exists pre, b, post. split; [exact Er|]. destruct Alt as [Hv|(r & E1 & E2 & Hd)]; [left; exact Hv|].
  right. split; [exact E2|]. exists r. split; [exact E1|].
  destruct Hd as [Hs|(h & k & Hr & Hh & Hk)]; [left; exact Hs|]. right. intros c.
  destruct (chain_n (map params (a :: rest)) uva uvk c) eqn:Ec; [|reflexivity]. exfalso.
  assert (Vb : valid_sig (params b) = true).
  { rewrite Er in Vrest. apply Forall_app in Vrest. destruct Vrest as [_ V]. inversion V; assumption. }
  rewrite Er in Ec.
  assert (Em : map params (a :: pre ++ b :: post) = (map params (a :: pre) ++ [params b]) ++ map params post).
  { cbn [map]. rewrite map_app. cbn [map app]. rewrite <- app_assoc. reflexivity. }
  rewrite Em in Ec. apply chain_n_prefix in Ec.
  destruct (chain_n_last (params b) uva uvk (map params (a :: pre)) c true true
              (conj (or_intror eq_refl) (or_intror eq_refl)) Ec) as (cb & Hb & [S1 S2]).
  cbn [andb] in S1, S2.
  pose proof (kinds_ok_wk _ (sort_params_kinds b)) as Wb.
  destruct cb as [m ks]. cbn [npos kws] in *.
  rewrite <- (sort_flatten_roundtrip b Vb), (accepts_acc5 _ m ks Wb) in Hb.
  pose proof (reach_none (sort_params b) (sort_params_kinds b) h k m ks Hr) as HN.
  unfold Pz in Hb. rewrite Hb in HN. cbn [andb] in HN.
  assert (Hst : acc5 [] [] h k m ks = true).
  { unfold acc5. cbn [length req_pos forallb]. rewrite !andb_true_r. apply andb_true_iff. split.
    - destruct S1 as [->|S1]; [reflexivity|].
      destruct (forallb_stars (has_kind VP) uva (a :: pre) S1 ltac:(discriminate)) as [Hu Hall].
      rewrite (Hh Hu Hall). apply orb_true_r.
    - destruct S2 as [->|S2]; [reflexivity|].
      destruct (forallb_stars (has_kind VK) uvk (a :: pre) S2 ltac:(discriminate)) as [Hu Hall].
      rewrite (Hk Hu Hall). apply forallb_forall. intros x _. unfold cls5. cbn [kw_class_pos names_of map mem ok5].
      reflexivity. }
  rewrite Hst in HN. discriminate.
Qed.

Print Assumptions C02_chain_raises_reach.
Print Assumptions C02_chain_raises_all.

(* ------------------------------------------------------------------ *)
(* the fold on unvalidated intermediate results: the raise clause with  *)
(* no exception at all                                                  *)
From Coq Require Import Permutation.

Definition nm (S : sorted) : list name := names_of (Pz S ++ kwoargs S).

Lemma names_clear l : names_of (clear_defaults l) = names_of l.
Proof. unfold clear_defaults, names_of. rewrite map_map. reflexivity. Qed.

Lemma names_xpos O Y : names_of (xpos O Y) = names_of (Pz O).
Proof.
  unfold xpos, Pz. destruct (posargs Y); [reflexivity|].
  rewrite !names_app. f_equal. unfold names_of. rewrite map_map. reflexivity.
Qed.

Lemma NoDup_app_intro {A} (l1 l2 : list A) :
  NoDup l1 -> NoDup l2 -> (forall x, In x l1 -> ~ In x l2) -> NoDup (l1 ++ l2).
Proof.
  induction l1 as [|a l1 IH]; intros H1 H2 Hd; [exact H2|]. cbn [app]. inversion H1 as [|? ? Ha H1']; subst.
  constructor.
  - intros X. apply in_app_or in X. destruct X as [X|X]; [exact (Ha X)|exact (Hd a (or_introl eq_refl) X)].
  - apply IH; [exact H1'|exact H2|]. intros x Hx. apply Hd. right. exact Hx.
Qed.

(* what the fold maintains about the accumulated (possibly unvalidated) result,
   with respect to the signatures l embedded so far *)
Definition acc_inv (uva uvk : bool) (acc : sorted) (l : list sigT) : Prop :=
  kinds_ok acc /\ NoDup (nm acc) /\
  (forall x, In x (nm acc) -> exists s, In s l /\ In x (nnames (params s))) /\
  (uva = true -> all_vp l -> isSome (varargs acc) = true) /\
  (uvk = true -> all_vk l -> isSome (varkwargs acc) = true).

Lemma acc_inv_init a uva uvk : valid_sig (params a) = true -> acc_inv uva uvk (sort_params a) [a].
Proof.
  intros Va. destruct (sorted_vp a Va) as [E1 E2]. split; [apply sort_params_kinds|]. split; [|split; [|split]].
  - unfold nm. apply NO'. apply sorted_named_nodup. exact Va.
  - intros x Hx. exists a. split; [left; reflexivity|]. exact (sorted_nnames a x Va Hx).
  - intros _ Hall. rewrite E1. exact (Forall_inv Hall).
  - intros _ Hall. rewrite E2. exact (Forall_inv Hall).
Qed.

Lemma all_app {P : sigT -> Prop} (l : list sigT) b : Forall P (l ++ [b]) -> Forall P l /\ P b.
Proof. intros H. apply Forall_app in H. destruct H as [H1 H2]. split; [exact H1|exact (Forall_inv H2)]. Qed.

Lemma acc_inv_step uva uvk acc l b d res :
  acc_inv uva uvk acc l -> valid_sig (params b) = true ->
  embed_step acc (sort_params b) uva uvk d = Ok res -> acc_inv uva uvk res (l ++ [b]).
Proof.
  intros (KA & NA & IA & VA & VKA) Vb Es.
  pose proof (sort_params_kinds b) as KI. pose proof (sorted_named_nodup b Vb) as NI.
  destruct (sorted_vp b Vb) as [Eb1 Eb2].
  set (I := sort_params b) in *.
  pose proof (embed_step_kinds acc I uva uvk d res KA KI NI Es) as Kres.
  destruct (embed_step_ok acc I uva uvk d res Es) as (Y & EY & HP & HKw & HV & HK & Hdisj).
  destruct (closedY acc I uva uvk KA KI NI Y EY) as (_ & Y1 & Y2 & Y3 & Y4 & Y5 & _).
  assert (NY : NoDup (nm Y)).
  { unfold nm, Pz. rewrite Y1, Y2, Y3. apply reach_nodup. exact NI. }
  assert (IY : forall x, In x (nm Y) -> In x (nnames (params b))).
  { intros x Hx. unfold nm, Pz in Hx. rewrite Y1, Y2, Y3 in Hx. apply reach_incl in Hx.
    apply (sorted_nnames b x Vb). fold I. unfold Pz. rewrite <- app_assoc. exact Hx. }
  assert (NkO : NoDup (names_of (kwoargs acc))).
  { unfold nm in NA. rewrite names_app in NA. apply nodup_app_r in NA. exact NA. }
  assert (NkY : NoDup (names_of (kwoargs Y))).
  { unfold nm in NY. rewrite names_app in NY. apply nodup_app_r in NY. exact NY. }
  assert (Ekw : kwoargs res = kwoargs acc ++ kwoargs Y).
  { rewrite HKw, (od_update_nil_fresh _ NkO). apply od_update_fresh; [exact NkY|].
    intros x Hx Hc. apply (Hdisj x); rewrite names_app; apply in_or_app; right; assumption. }
  assert (Enm : Permutation (nm res) (nm acc ++ nm Y)).
  { unfold nm. rewrite !names_app, HP, Ekw, !names_app.
    assert (EX : names_of (if clr Y then clear_defaults (xpos acc Y) else xpos acc Y) = names_of (Pz acc)).
    { destruct (clr Y); [rewrite names_clear|]; apply names_xpos. }
    rewrite EX, <- !app_assoc. apply Permutation_app_head. apply Permutation_app_swap_app. }
  split; [exact Kres|]. split; [|split; [|split]].
  - apply (Permutation_NoDup (Permutation_sym Enm)). apply NoDup_app_intro; [exact NA|exact NY|].
    intros x Hx Hy. exact (Hdisj x Hy Hx).
  - intros x Hx. apply (Permutation_in _ Enm) in Hx. apply in_app_or in Hx. destruct Hx as [Hx|Hx].
    + destruct (IA x Hx) as (s & Hs & Hxs). exists s. split; [apply in_or_app; left; exact Hs|exact Hxs].
    + exists b. split; [apply in_or_app; right; left; reflexivity|exact (IY x Hx)].
  - intros Hu Hall. unfold all_vp in Hall. apply all_app in Hall. destruct Hall as [Hl Hb].
    rewrite HV, Hu, Y4, Eb1, Hb, Hu, (VA Hu Hl). reflexivity.
  - intros Hu Hall. unfold all_vk in Hall. apply all_app in Hall. destruct Hall as [Hl Hb].
    rewrite HK, Hu, Y5, Eb2, Hb, Hu, (VKA Hu Hl). reflexivity.
Qed.

Lemma to_incompatible_err {A} (x : res A) e : to_incompatible x = Err e -> exists e', x = Err e'.
Proof. destruct x as [a|e']; cbn; [discriminate|eauto]. Qed.

Lemma embed_steps_raise rest : forall acc l uva uvk d,
  acc_inv uva uvk acc l -> Forall (fun s => valid_sig (params s) = true) rest ->
  embed_steps acc rest uva uvk d = Err Incompatible ->
  exists pre b post,
    rest = pre ++ b :: post /\
    ((exists s, In s (l ++ pre) /\ shares_name (params s) (params b) = true)
     \/ exists h k, reach_ok (sort_params b) h k = false /\
                    (uva = true -> all_vp (l ++ pre) -> h = true) /\
                    (uvk = true -> all_vk (l ++ pre) -> k = true)).
Proof.
  induction rest as [|b rest IH]; intros acc l uva uvk d Hinv Vrest H; [discriminate|].
  inversion Vrest as [|? ? Vb Vrest']; subst. cbn [embed_steps] in H.
  destruct (embed_step acc (sort_params b) uva uvk d) as [res|e] eqn:Es.
  - cbn [to_incompatible bind] in H.
    destruct (IH res (l ++ [b]) uva uvk (d + 1) (acc_inv_step uva uvk acc l b d res Hinv Vb Es) Vrest' H)
      as (pre & b' & post & Er & Alt).
    exists (b :: pre), b', post. split; [rewrite Er; reflexivity|].
    rewrite <- app_assoc in Alt. exact Alt.
  - exists [], b, rest. split; [reflexivity|]. rewrite app_nil_r.
    destruct Hinv as (KA & NA & IA & VA & VKA).
    pose proof (sort_params_kinds b) as KI. pose proof (sorted_named_nodup b Vb) as NI.
    set (I := sort_params b) in *.
    assert (NY : forall Y, merger I (starsO acc uva uvk) = Ok Y -> NoDup (names_of (Pz Y ++ kwoargs Y))).
    { intros Y EY. destruct (closedY acc I uva uvk KA KI NI Y EY) as (_ & Y1 & Y2 & Y3 & _).
      unfold Pz. rewrite Y1, Y2, Y3. apply reach_nodup. exact NI. }
    destruct (embed_step_err acc I uva uvk d e NA NY Es) as [[e' EY]|(Y & x & EY & Hx & Hc)].
    + right. exists (uva && isSome (varargs acc)), (uvk && isSome (varkwargs acc)).
      split; [exact (errY acc I uva uvk KA KI NI e' EY)|]. split.
      * intros Hu Hall. rewrite Hu, (VA Hu Hall). reflexivity.
      * intros Hu Hall. rewrite Hu, (VKA Hu Hall). reflexivity.
    + left. destruct (IA x Hc) as (s & Hs & Hxs). exists s. split; [exact Hs|].
      apply shares_name_spec. exists x. split; [exact Hxs|].
      destruct (closedY acc I uva uvk KA KI NI Y EY) as (_ & Y1 & Y2 & Y3 & _).
      unfold Pz in Hx. rewrite Y1, Y2, Y3 in Hx. apply reach_incl in Hx.
      apply (sorted_nnames b x Vb). fold I. unfold Pz. rewrite <- app_assoc. exact Hx.
Qed.

(* C02, flat n-ary chain, the raise clause with NO side condition: when
   embed(a, s1, ..., sn) raises IncompatibleSignatures, the signature b at which
   the fold fails shares a non-star parameter name with an earlier one, or NO
   call at all is accepted by the flat chain *)
Theorem C02_chain_raises_unconditional rest a uva uvk :
  valid_sig (params a) = true -> Forall (fun s => valid_sig (params s) = true) rest ->
  embed (a :: rest) uva uvk = Err Incompatible ->
  exists pre b post,
    rest = pre ++ b :: post /\
    ((exists s, In s (a :: pre) /\ shares_name (params s) (params b) = true)
     \/ forall c, chain_n (map params (a :: rest)) uva uvk c = false).
Proof.
  intros Va Vrest H. cbn [embed] in H.
  destruct (embed_steps (sort_params a) rest uva uvk 1) as [acc|e] eqn:Est; cbn [bind] in H.
  { unfold apply_params in H. destruct (validate (flatten acc)); discriminate. }
  inversion H; subst e. clear H.
  destruct (embed_steps_raise rest (sort_params a) [a] uva uvk 1 (acc_inv_init a uva uvk Va) Vrest Est)
    as (pre & b & post & Er & Alt).
  exists pre, b, post. split; [exact Er|]. cbn [app] in Alt.
  destruct Alt as [Hs|(h & k & Hr & Hh & Hk)]; [left; exact Hs|]. right. intros c.
  destruct (chain_n (map params (a :: rest)) uva uvk c) eqn:Ec; [|reflexivity]. exfalso.
  assert (Vb : valid_sig (params b) = true).
  { rewrite Er in Vrest. apply Forall_app in Vrest. destruct Vrest as [_ V]. inversion V; assumption. }
  rewrite Er in Ec.
  assert (Em : map params (a :: pre ++ b :: post) = (map params (a :: pre) ++ [params b]) ++ map params post).
  { cbn [map]. rewrite map_app. cbn [map app]. rewrite <- app_assoc. reflexivity. }
  rewrite Em in Ec. apply chain_n_prefix in Ec.
  destruct (chain_n_last (params b) uva uvk (map params (a :: pre)) c true true
              (conj (or_intror eq_refl) (or_intror eq_refl)) Ec) as (cb & Hb & [S1 S2]).
  cbn [andb] in S1, S2.
  pose proof (kinds_ok_wk _ (sort_params_kinds b)) as Wb.
  destruct cb as [m ks]. cbn [npos kws] in *.
  rewrite <- (sort_flatten_roundtrip b Vb), (accepts_acc5 _ m ks Wb) in Hb.
  pose proof (reach_none (sort_params b) (sort_params_kinds b) h k m ks Hr) as HN.
  unfold Pz in Hb. rewrite Hb in HN. cbn [andb] in HN.
  assert (Hst : acc5 [] [] h k m ks = true).
  { unfold acc5. cbn [length req_pos forallb]. rewrite !andb_true_r. apply andb_true_iff. split.
    - destruct S1 as [->|S1]; [reflexivity|].
      destruct (forallb_stars (has_kind VP) uva (a :: pre) S1 ltac:(discriminate)) as [Hu Hall].
      rewrite (Hh Hu Hall). apply orb_true_r.
    - destruct S2 as [->|S2]; [reflexivity|].
      destruct (forallb_stars (has_kind VK) uvk (a :: pre) S2 ltac:(discriminate)) as [Hu Hall].
      rewrite (Hk Hu Hall). apply forallb_forall. intros x _. unfold cls5. cbn [kw_class_pos names_of map mem ok5].
      reflexivity. }
  rewrite Hst in HN. discriminate.
Qed.

(* an instance where an intermediate result is NOT a signature (embed(a, b) is a
   plain ValueError: the double-star parameter of b is named like a parameter of
   a) and the fold still ends in IncompatibleSignatures at the third signature *)
Example C02_chain_raises_unvalidated :
  let a := mkSig [mkParam 1 PK None None UEmpty; mkParam 10 VK None None UEmpty] None UEmpty [] [] in
  let b := mkSig [mkParam 1 VK None None UEmpty] None UEmpty [] [] in
  let c := mkSig [mkParam 3 PO None None UEmpty] None UEmpty [] [] in
  valid_sig (params a) = true /\ valid_sig (params b) = true /\ valid_sig (params c) = true /\
  embed [a; b] true true = Err ValueErr /\ embed [a; b; c] true true = Err Incompatible /\
  shares_name (params a) (params c) = false /\ shares_name (params b) (params c) = false.
Proof. vm_compute. repeat split; reflexivity. Qed.

Print Assumptions embed_steps_raise.
Print Assumptions C02_chain_raises_unconditional.
Print Assumptions C02_chain_raises_unvalidated.
