(* Proofs/CacheExact.v -- C18: exact characterisations for the caching
   descriptor (DPok) of Model/Cache.v, for ALL histories:

   * reclaim_exact    : after any history, dropping the instance of a slot is
                        observed as "reclaimed" IFF the instance is not a key of
                        the cache (the leak is not one witness but the rule);
   * refines_exact    : the observations of a history equal those of the
                        cache-less specification IFF the history never asks a
                        wrapper that was cached before a later re-decoration for
                        its signature (stale_free); this is the weakest premise
                        for C18_history (it is necessary and sufficient). *)
From Coq Require Import Lia.
From Sigtools.Model Require Import Base Cache.
From Sigtools.Proofs Require Import Cache.

(* ------------------------------------------------------------------ *)
(* closure: what is reachable in few steps is found                    *)
(* ------------------------------------------------------------------ *)

Lemma step_reach_incl : forall es seen y, In y seen -> In y (step_reach es seen).
Proof. intros es seen y H. unfold step_reach. apply in_or_app. left. exact H. Qed.

Lemma step_reach_edge : forall es seen a b,
  In a seen -> In (a, b) es -> In b (step_reach es seen).
Proof.
  intros es seen a b Ha He. unfold step_reach. apply in_or_app.
  destruct (mem b seen) eqn:Eb.
  - left. apply mem_In. exact Eb.
  - right. apply filter_In. split.
    + apply in_map_iff. exists (a, b). split; [reflexivity|].
      apply filter_In. split; [exact He|]. cbn [fst]. apply mem_In. exact Ha.
    + rewrite Eb. reflexivity.
Qed.

Lemma closure_incl : forall fuel es seen y, In y seen -> In y (closure fuel es seen).
Proof.
  induction fuel as [|f IH]; intros es seen y H; cbn [closure]; [exact H|].
  apply IH. apply step_reach_incl. exact H.
Qed.

Lemma closure_edge : forall fuel es seen a b,
  In a (closure fuel es seen) -> In (a, b) es -> In b (closure (S fuel) es seen).
Proof.
  induction fuel as [|f IH]; intros es seen a b Ha He.
  - cbn [closure] in *. eapply step_reach_edge; eauto.
  - cbn [closure] in Ha. change (closure (S (S f)) es seen) with (closure (S f) es (step_reach es seen)).
    eapply IH; eauto.
Qed.

Lemma closure_more : forall j fuel es seen y,
  In y (closure fuel es seen) -> In y (closure (j + fuel) es seen).
Proof.
  intros j fuel. revert j. induction fuel as [|f IH]; intros j es seen y H.
  - cbn [closure] in H. apply closure_incl. exact H.
  - replace (j + S f)%nat with (S (j + f)) by lia. cbn [closure] in *. apply IH. exact H.
Qed.

Lemma closure_ge : forall n m es seen y,
  (n <= m)%nat -> In y (closure n es seen) -> In y (closure m es seen).
Proof.
  intros n m es seen y Hle H. replace m with ((m - n) + n)%nat by lia. apply closure_more. exact H.
Qed.

(* ------------------------------------------------------------------ *)
(* the invariant of the caching descriptor                             *)
(* ------------------------------------------------------------------ *)

Definition init_strong : list edge := [(n_class, n_desc); (n_desc, n_dict); (n_desc, n_func)].

Record jinv (st : cstate) : Prop := mkJ {
  j_strong : exists pre, c_strong st = pre ++ init_strong;
  j_cache : forall x w, In (x, w) (c_cache st) ->
      w_inst w = x /\ x < c_next st /\ w_ver w <= c_ver st /\
      exists b, In (mkWE b (w_id w)) (c_weak st) /\ In (w_id w, b) (c_strong st)
                /\ In (b, x) (c_strong st);
  j_weak : forall we, In we (c_weak st) -> In (we_val we, we_key we) (c_strong st);
  j_slots : c_slot0 st < c_next st /\ c_slot1 st < c_next st /\ c_slot0 st <> c_slot1 st
}.

Lemma jinv_init : jinv c_init.
Proof.
  constructor; cbn.
  - exists []. reflexivity.
  - intros x w H. destruct H.
  - intros we H. destruct H.
  - lia.
Qed.

Lemma j_fixed_edges : forall st, jinv st ->
  In (n_class, n_desc) (c_strong st) /\ In (n_desc, n_dict) (c_strong st)
  /\ (3 <= length (c_strong st))%nat.
Proof.
  intros st J. destruct (j_strong st J) as [pre E]. rewrite E.
  repeat split; try (apply in_or_app; right; cbn; tauto).
  rewrite app_length. cbn. lia.
Qed.

Lemma slot_lt : forall st s, jinv st -> slot_inst st s < c_next st.
Proof. intros st s J. destruct (j_slots st J) as [A [B _]]. destruct s; assumption. Qed.

Lemma touch_jinv : forall st s keep,
  jinv st -> jinv (fst (touch DPok st (slot_inst st s) keep)).
Proof.
  intros st s keep J. pose proof (slot_lt st s J) as Hx.
  destruct (j_slots st J) as [S0 [S1 S2]].
  cbn [touch]. destruct (cache_find (c_cache st) (slot_inst st s)) as [w|] eqn:E; cbn [fst].
  - destruct J as [A B C D]. constructor; cbn; auto.
  - constructor; cbn [c_strong c_cache c_weak c_next c_ver c_slot0 c_slot1].
    + destruct (j_strong st J) as [pre Ep]. rewrite Ep.
      exists ((N.succ (c_next st), c_next st) :: (N.succ (c_next st), n_desc)
              :: (c_next st, slot_inst st s) :: (c_next st, n_func) :: pre). reflexivity.
    + intros x w [H|H].
      * inversion H; subst x w. cbn [w_inst w_ver w_id].
        split; [reflexivity|]. split; [lia|]. split; [lia|].
        exists (c_next st). cbn. tauto.
      * destruct (j_cache st J x w H) as [I1 [I2 [I3 [b [I4 [I5 I6]]]]]].
        split; [exact I1|]. split; [lia|]. split; [exact I3|].
        exists b. cbn. tauto.
    + intros we [H|H].
      * subst we. cbn. tauto.
      * pose proof (j_weak st J we H). cbn. tauto.
    + lia.
Qed.

(* every key of the weak dictionary is strongly reachable: the dictionary
   holds the wrapper, the wrapper holds its own key *)
Lemma keys_live : forall st roots we,
  jinv st -> In n_class roots -> In we (c_weak st) ->
  In (we_key we) (live (c_strong st) (c_weak st) roots)
  /\ In (we_val we) (closure 3 (all_edges (c_strong st) (c_weak st)) roots).
Proof.
  intros st roots we J Hr Hw.
  destruct (j_fixed_edges st J) as [E1 [E2 E3]].
  set (es := all_edges (c_strong st) (c_weak st)).
  assert (A1 : In (n_class, n_desc) es) by (apply in_or_app; left; exact E1).
  assert (A2 : In (n_desc, n_dict) es) by (apply in_or_app; left; exact E2).
  assert (A3 : In (n_dict, we_val we) es).
  { apply in_or_app. right. unfold weak_edges. apply in_map_iff. exists we. split; [reflexivity|exact Hw]. }
  assert (A4 : In (we_val we, we_key we) es) by (apply in_or_app; left; apply (j_weak st J we Hw)).
  assert (C0 : In n_class (closure 0 es roots)) by exact Hr.
  pose proof (closure_edge _ _ _ _ _ C0 A1) as C1.
  pose proof (closure_edge _ _ _ _ _ C1 A2) as C2.
  pose proof (closure_edge _ _ _ _ _ C2 A3) as C3.
  pose proof (closure_edge _ _ _ _ _ C3 A4) as C4.
  split; [|exact C3].
  unfold live. fold es. eapply closure_ge; [|exact C4].
  unfold es, all_edges. rewrite app_length. lia.
Qed.

Lemma filter_all : forall (A : Type) (f : A -> bool) l,
  (forall x, In x l -> f x = true) -> filter f l = l.
Proof.
  intros A f l H. induction l as [|a l IH]; cbn; [reflexivity|].
  rewrite (H a (or_introl eq_refl)). f_equal. apply IH. intros x Hx. apply H. right. exact Hx.
Qed.

(* gc.collect() never removes an entry of insts *)
Lemma collect_keeps : forall st roots,
  jinv st -> In n_class roots ->
  collect (length (c_weak st)) (c_strong st) (c_weak st) roots
  = (c_weak st, live (c_strong st) (c_weak st) roots).
Proof.
  intros st roots J Hr. destruct (length (c_weak st)) as [|f] eqn:El; cbn [collect]; [reflexivity|].
  rewrite filter_all.
  - rewrite Nat.eqb_refl. reflexivity.
  - intros we Hw. apply mem_In. apply (keys_live st roots we J Hr Hw).
Qed.

Lemma drop_cache_same : forall st,
  jinv st ->
  filter (fun e : N * wrapper => existsb (fun w => N.eqb (we_val w) (w_id (snd e))) (c_weak st)) (c_cache st)
  = c_cache st.
Proof.
  intros st J. apply filter_all. intros [x w] Hin. cbn [snd].
  destruct (j_cache st J x w Hin) as [_ [_ [_ [b [Hb _]]]]].
  apply existsb_exists. exists (mkWE b (w_id w)). split; [exact Hb|]. cbn. apply N.eqb_refl.
Qed.

Definition drop_roots (st : cstate) (s : bool) : list N :=
  n_class :: filter (fun y => negb (owned_by st y (slot_inst st s))) (c_locals st).

Lemma drop_state : forall st s,
  jinv st ->
  fst (impl_step DPok st (OpDrop s)) =
  mkC (N.succ (c_next st)) (c_ver st) (if s then c_slot0 st else c_next st)
      (if s then c_next st else c_slot1 st) (c_cache st) (c_strong st) (c_weak st) (c_owner st)
      (c_next st :: filter (fun y => negb (owned_by st y (slot_inst st s))) (c_locals st)).
Proof.
  intros st s J. cbn [impl_step fst].
  pose proof (collect_keeps st (drop_roots st s) J (or_introl eq_refl)) as Hck.
  unfold drop_roots in Hck. rewrite Hck. cbn [fst snd].
  rewrite (drop_cache_same st J). reflexivity.
Qed.

Lemma drop_jinv : forall st s, jinv st -> jinv (fst (impl_step DPok st (OpDrop s))).
Proof.
  intros st s J. rewrite (drop_state st s J).
  destruct (j_slots st J) as [S0 [S1 S2]].
  constructor; cbn [c_strong c_cache c_weak c_next c_ver c_slot0 c_slot1].
  - exact (j_strong st J).
  - intros x w H. destruct (j_cache st J x w H) as [I1 [I2 [I3 I4]]].
    split; [exact I1|]. split; [lia|]. split; [exact I3|exact I4].
  - exact (j_weak st J).
  - destruct s; lia.
Qed.

Lemma step_jinv : forall st o, jinv st -> jinv (fst (impl_step DPok st o)).
Proof.
  intros st o J. destruct o as [[s|]|[s|]|s| |s|s]; try exact J.
  - cbn [impl_step fst]. apply touch_jinv. exact J.
  - cbn [impl_step fst]. apply touch_jinv. exact J.
  - cbn [impl_step fst]. apply touch_jinv. exact J.
  - cbn [impl_step fst]. destruct J as [A B C D]. constructor; cbn; auto.
    intros x w H. destruct (B x w H) as [I1 [I2 [I3 I4]]]. repeat split; auto. cbn in *. lia.
  - apply drop_jinv. exact J.
Qed.

Lemma run_jinv : forall h st, jinv st -> jinv (run_state DPok st h).
Proof.
  induction h as [|o h IH]; intros st J; cbn [run_state]; [exact J|]. apply IH. apply step_jinv. exact J.
Qed.

(* ------------------------------------------------------------------ *)
(* reclamation, exactly                                                *)
(* ------------------------------------------------------------------ *)

Definition cached (st : cstate) (x : N) : bool :=
  match cache_find (c_cache st) x with Some _ => true | None => false end.

Lemma cached_false : forall st x, cached st x = false -> ~ In x (map fst (c_cache st)).
Proof.
  intros st x H. unfold cached in H. destruct (cache_find (c_cache st) x) eqn:E; [discriminate|].
  apply cache_find_None. exact E.
Qed.

Lemma drop_leaks : forall st s,
  jinv st -> cached st (slot_inst st s) = true ->
  o_reclaimed (snd (impl_step DPok st (OpDrop s))) = false.
Proof.
  intros st s J Hc. cbn [impl_step snd o_reclaimed].
  pose proof (collect_keeps st (drop_roots st s) J (or_introl eq_refl)) as Hck.
  unfold drop_roots in Hck. rewrite Hck. cbn [snd]. fold (drop_roots st s).
  apply negb_false_iff. apply mem_In.
  unfold cached in Hc. destruct (cache_find (c_cache st) (slot_inst st s)) as [w|] eqn:E; [|discriminate].
  apply cache_find_In in E.
  destruct (j_cache st J _ w E) as [_ [_ [_ [b [Hb [H1 H2]]]]]].
  destruct (keys_live st (drop_roots st s) (mkWE b (w_id w)) J (or_introl eq_refl) Hb) as [_ C3].
  cbn [we_val we_key] in C3.
  set (es := all_edges (c_strong st) (c_weak st)) in *.
  assert (A4 : In (w_id w, b) es) by (apply in_or_app; left; exact H1).
  assert (A5 : In (b, slot_inst st s) es) by (apply in_or_app; left; exact H2).
  pose proof (closure_edge _ _ _ _ _ C3 A4) as C4.
  pose proof (closure_edge _ _ _ _ _ C4 A5) as C5.
  unfold live. fold es. eapply closure_ge; [|exact C5].
  destruct (j_fixed_edges st J) as [_ [_ E3]].
  assert (1 <= length (c_weak st))%nat by (destruct (c_weak st); [destruct Hb | cbn; lia]).
  unfold es, all_edges. rewrite app_length. unfold weak_edges. rewrite map_length. lia.
Qed.

Lemma run_hinv : forall h st, hinv st -> hinv (run_state DPok st h).
Proof.
  induction h as [|o h IH]; intros st H; cbn [run_state]; [exact H|]. apply IH. apply step_hinv. exact H.
Qed.

(* C18_reclaim, exactly: the instance of a slot is reclaimed by drop +
   gc.collect() if and only if none of its bound functions is a key of insts *)
Theorem reclaim_exact : forall h s,
  let st := run_state DPok c_init h in
  o_reclaimed (snd (impl_step DPok st (OpDrop s))) = negb (cached st (slot_inst st s)).
Proof.
  intros h s st.
  assert (J : jinv st) by (apply run_jinv; apply jinv_init).
  assert (Hh : hinv st) by (apply run_hinv; apply hinv_init).
  destruct (cached st (slot_inst st s)) eqn:Ec; cbn [negb].
  - apply drop_leaks; assumption.
  - apply drop_reclaims; [exact Hh | apply cached_false; exact Ec].
Qed.

Example reclaim_exact_sat :
  let st := run_state DPok c_init [OpCall true; OpRedecorate; OpGet None] in
  cached st (slot_inst st true) = true /\ cached st (slot_inst st false) = false.
Proof. vm_compute. split; reflexivity. Qed.

(* ------------------------------------------------------------------ *)
(* refinement to the cache-less specification, exactly                 *)
(* ------------------------------------------------------------------ *)

(* per slot: the instance has no cached wrapper / a wrapper computed from the
   current decoration / a wrapper cached before a later re-decoration *)
Inductive sflag := SFresh | SCur | SStale.
Definition fget (f : sflag * sflag) (s : bool) : sflag := if s then snd f else fst f.
Definition fset (f : sflag * sflag) (s : bool) (v : sflag) : sflag * sflag :=
  if s then (fst f, v) else (v, snd f).
Definition touchf (v : sflag) : sflag := match v with SFresh => SCur | x => x end.
Definition age (v : sflag) : sflag := match v with SCur => SStale | x => x end.

(* the history never asks a stale wrapper for its signature.  Calls through a
   stale wrapper are allowed (the call behaviour does not depend on the
   annotations), and so is any access after the instance was dropped. *)
Fixpoint stale_free (f : sflag * sflag) (h : list op) : bool :=
  match h with
  | [] => true
  | o :: r =>
    match o with
    | OpGet (Some s) | OpRetrieve (Some s) =>
      match fget f s with
      | SStale => false
      | v => stale_free (fset f s (touchf v)) r
      end
    | OpCall s => stale_free (fset f s (touchf (fget f s))) r
    | OpRedecorate => stale_free (age (fst f), age (snd f)) r
    | OpDrop s => stale_free (fset f s SFresh) r
    | _ => stale_free f r
    end
  end.

Definition flag_ok (st : cstate) (s : bool) (v : sflag) : Prop :=
  match v with
  | SFresh => cache_find (c_cache st) (slot_inst st s) = None
  | SCur => exists w, cache_find (c_cache st) (slot_inst st s) = Some w /\ w_ver w = c_ver st
  | SStale => exists w, cache_find (c_cache st) (slot_inst st s) = Some w /\ w_ver w < c_ver st
  end.

Definition frel (st : cstate) (f : sflag * sflag) : Prop := forall s, flag_ok st s (fget f s).

Lemma frel_init : frel c_init (SFresh, SFresh).
Proof. intros s. destruct s; reflexivity. Qed.

Lemma slots_neq : forall st s s', jinv st -> s <> s' -> slot_inst st s <> slot_inst st s'.
Proof.
  intros st s s' J Hn. destruct (j_slots st J) as [_ [_ D]].
  destruct s; destruct s'; cbn; congruence.
Qed.

Lemma flag_ok_same_cache : forall st st' s v,
  c_cache st' = c_cache st -> c_ver st' = c_ver st -> slot_inst st' s = slot_inst st s ->
  flag_ok st s v -> flag_ok st' s v.
Proof.
  intros st st' s v Hc Hv Hs H. destruct v; unfold flag_ok in *; rewrite Hc, ?Hv, Hs; exact H.
Qed.

Lemma touch_flags : forall st f s keep,
  jinv st -> frel st f ->
  let r := touch DPok st (slot_inst st s) keep in
  frel (fst r) (fset f s (touchf (fget f s))) /\ c_ver (fst r) = c_ver st
  /\ w_inst (snd r) = slot_inst st s
  /\ match fget f s with
     | SStale => w_ver (snd r) < c_ver st
     | _ => w_ver (snd r) = c_ver st
     end.
Proof.
  intros st f s keep J R. pose proof (R s) as Rs.
  cbn [touch]. destruct (cache_find (c_cache st) (slot_inst st s)) as [w|] eqn:E; cbn [fst snd].
  - (* hit: the state only gains a local *)
    assert (Hi : w_inst w = slot_inst st s).
    { apply cache_find_In in E. apply (j_cache st J _ w E). }
    assert (Hf : touchf (fget f s) = fget f s).
    { destruct (fget f s); try reflexivity. unfold flag_ok in Rs. congruence. }
    rewrite Hf. split; [|split; [reflexivity|split; [exact Hi|]]].
    + intros s'. assert (Hg : fget (fset f s (fget f s)) s' = fget f s').
      { destruct f as [a b]; destruct s; destruct s'; reflexivity. }
      rewrite Hg. eapply flag_ok_same_cache; [| | |exact (R s')]; destruct s'; reflexivity.
    + destruct (fget f s); unfold flag_ok in Rs.
      * congruence.
      * destruct Rs as [w' [E' V]]. rewrite E in E'. inversion E'; subst w'. exact V.
      * destruct Rs as [w' [E' V]]. rewrite E in E'. inversion E'; subst w'. exact V.
  - (* miss: a new wrapper computed from the current decoration is cached *)
    assert (Hf : fget f s = SFresh).
    { destruct (fget f s); try reflexivity; unfold flag_ok in Rs; destruct Rs as [w' [E' _]]; congruence. }
    rewrite Hf. cbn [touchf w_ver w_inst].
    split; [|split; [reflexivity|split; reflexivity]].
    intros s'. destruct (Bool.bool_dec s' s) as [Es|Es].
    + subst s'. assert (Hg : fget (fset f s SCur) s = SCur) by (destruct f; destruct s; reflexivity).
      rewrite Hg. unfold flag_ok. cbn [c_cache c_ver].
      assert (Hs : slot_inst (mkC (N.succ (N.succ (c_next st))) (c_ver st) (c_slot0 st) (c_slot1 st)
                     ((slot_inst st s, mkW (N.succ (c_next st)) (slot_inst st s) (c_ver st)) :: c_cache st)
                     ((N.succ (c_next st), c_next st) :: (N.succ (c_next st), n_desc)
                      :: (c_next st, slot_inst st s) :: (c_next st, n_func) :: c_strong st)
                     (mkWE (c_next st) (N.succ (c_next st)) :: c_weak st)
                     ((c_next st, slot_inst st s) :: (N.succ (c_next st), slot_inst st s) :: c_owner st)
                     (if keep then N.succ (c_next st) :: c_locals st else c_locals st)) s
                 = slot_inst st s) by (destruct s; reflexivity).
      rewrite Hs. cbn [cache_find]. rewrite N.eqb_refl. eexists. split; reflexivity.
    + assert (Hg : fget (fset f s SCur) s' = fget f s').
      { destruct f; destruct s; destruct s'; try reflexivity; exfalso; apply Es; reflexivity. }
      rewrite Hg. pose proof (R s') as Rs'.
      assert (Hne : N.eqb (slot_inst st s') (slot_inst st s) = false).
      { apply N.eqb_neq. apply slots_neq; assumption. }
      destruct (fget f s'); unfold flag_ok in *; cbn [c_cache c_ver];
        replace (slot_inst _ s') with (slot_inst st s') by (destruct s'; reflexivity);
        cbn [cache_find]; rewrite Hne; exact Rs'.
Qed.

Lemma cache_find_fresh : forall c n,
  (forall x w, In (x, w) c -> x < n) -> cache_find c n = None.
Proof.
  induction c as [|[k w] c IH]; intros n H; cbn [cache_find]; [reflexivity|].
  assert (k < n) by (apply (H k w); left; reflexivity).
  destruct (N.eqb n k) eqn:E; [apply N.eqb_eq in E; lia|].
  apply IH. intros x w' Hin. apply (H x w'). right. exact Hin.
Qed.

Lemma drop_flags : forall st f s,
  jinv st -> frel st f -> frel (fst (impl_step DPok st (OpDrop s))) (fset f s SFresh).
Proof.
  intros st f s J R. rewrite (drop_state st s J). intros s'.
  destruct (Bool.bool_dec s' s) as [Es|Es].
  - subst s'. assert (Hg : fget (fset f s SFresh) s = SFresh) by (destruct f; destruct s; reflexivity).
    rewrite Hg. unfold flag_ok. cbn [c_cache].
    replace (slot_inst _ s) with (c_next st) by (destruct s; reflexivity).
    apply cache_find_fresh. intros x w H. apply (j_cache st J x w H).
  - assert (Hg : fget (fset f s SFresh) s' = fget f s').
    { destruct f; destruct s; destruct s'; try reflexivity; exfalso; apply Es; reflexivity. }
    rewrite Hg. eapply flag_ok_same_cache; [| | |exact (R s')]; try reflexivity.
    destruct s; destruct s'; try reflexivity; exfalso; apply Es; reflexivity.
Qed.

Lemma redecorate_flags : forall st f,
  frel st f -> frel (fst (impl_step DPok st OpRedecorate)) (age (fst f), age (snd f)).
Proof.
  intros st f R s'. pose proof (R s') as Rs. cbn [impl_step fst].
  assert (Hg : fget (age (fst f), age (snd f)) s' = age (fget f s')) by (destruct s'; reflexivity).
  rewrite Hg.
  destruct (fget f s'); unfold flag_ok in *; cbn [age c_cache c_ver];
    replace (slot_inst _ s') with (slot_inst st s') by (destruct s'; reflexivity).
  - exact Rs.
  - destruct Rs as [w [E V]]. exists w. split; [exact E|lia].
  - destruct Rs as [w [E V]]. exists w. split; [exact E|lia].
Qed.

Lemma cons_iff : forall (A : Type) (a b : A) l l', a :: l = b :: l' <-> a = b /\ l = l'.
Proof. intros. split; [intro H; inversion H; auto | intros [-> ->]; reflexivity]. Qed.

Lemma refines_exact_gen : forall h st f,
  jinv st -> frel st f ->
  (map obs_beh (run_impl DPok st h) = map obs_beh (run_spec DPok (c_ver st) h)
   <-> stale_free f h = true).
Proof.
  induction h as [|o h IH]; intros st f J R.
  - cbn. tauto.
  - cbn [run_impl run_spec map]. rewrite cons_iff. rewrite <- (step_ver DPok st o).
    pose proof (step_jinv st o J) as J'.
    destruct o as [[s|]|[s|]|s| |s|s].
    + (* OpGet (Some s) *)
      destruct (touch_flags st f s true J R) as [R' [V' [I' W']]].
      cbn [impl_step fst snd spec_step stale_free] in *.
      unfold obs_beh at 1 2. cbn [o_tag o_ok o_ver vis_ver]. rewrite I', N.eqb_refl.
      destruct (fget f s) eqn:Ef; cbn [touchf] in *.
      * rewrite W'. rewrite <- (IH _ _ J' R'). tauto.
      * rewrite W'. rewrite <- (IH _ _ J' R'). tauto.
      * split; [|discriminate]. intros [Hh _]. exfalso. apply (f_equal snd) in Hh. cbn [snd] in Hh. rewrite Hh in W'. lia.
    + (* OpGet None *)
      cbn [impl_step fst snd spec_step stale_free]. rewrite <- (IH st f J R). tauto.
    + (* OpRetrieve (Some s) *)
      destruct (touch_flags st f s false J R) as [R' [V' [I' W']]].
      cbn [impl_step fst snd spec_step stale_free] in *.
      unfold obs_beh at 1 2. cbn [o_tag o_ok o_ver vis_ver]. rewrite I', N.eqb_refl.
      destruct (fget f s) eqn:Ef; cbn [touchf] in *.
      * rewrite W'. rewrite <- (IH _ _ J' R'). tauto.
      * rewrite W'. rewrite <- (IH _ _ J' R'). tauto.
      * split; [|discriminate]. intros [Hh _]. exfalso. apply (f_equal snd) in Hh. cbn [snd] in Hh. rewrite Hh in W'. lia.
    + (* OpRetrieve None *)
      cbn [impl_step fst snd spec_step stale_free]. rewrite <- (IH st f J R). tauto.
    + (* OpCall s *)
      destruct (touch_flags st f s false J R) as [R' [V' [I' W']]].
      cbn [impl_step fst snd spec_step stale_free] in *.
      unfold obs_beh at 1 2. cbn [o_tag o_ok o_ver]. rewrite I', N.eqb_refl.
      rewrite <- (IH _ _ J' R'). tauto.
    + (* OpRedecorate *)
      pose proof (redecorate_flags st f R) as R'.
      cbn [stale_free]. rewrite <- (IH _ _ J' R').
      cbn [impl_step fst snd spec_step]. tauto.
    + (* OpDrop s *)
      pose proof (drop_flags st f s J R) as R'.
      cbn [stale_free]. rewrite <- (IH _ _ J' R').
      cbn [impl_step fst snd spec_step]. unfold obs_beh at 1 2. cbn [o_tag o_ok o_ver]. tauto.
    + (* OpConnect s *)
      cbn [impl_step fst snd spec_step stale_free]. rewrite <- (IH st f J R). tauto.
Qed.

(* C18_history, exactly: the weakest premise.  It is strictly weaker than
   no_redecorate_after_touch (re-decorations after accesses are harmless as long
   as no wrapper cached before them is asked for its signature again; calls,
   accesses through the class, accesses on the other instance and accesses after a
   drop are all fine) and it is necessary: whenever it fails the observations
   differ from the specification's. *)
Theorem refines_exact : forall h,
  map obs_beh (run_impl DPok c_init h) = map obs_beh (run_spec DPok 0 h)
  <-> stale_free (SFresh, SFresh) h = true.
Proof. intros h. apply (refines_exact_gen h c_init (SFresh, SFresh) jinv_init frel_init). Qed.

Lemma no_redecorate_implies_stale_free : forall h t f,
  no_redecorate_after_touch t h = true ->
  (t = false -> f = (SFresh, SFresh)) ->
  fst f <> SStale -> snd f <> SStale ->
  stale_free f h = true.
Proof.
  induction h as [|o h IH]; intros t f HN HT H0 H1; [reflexivity|].
  assert (Hns : forall s, fget f s <> SStale) by (intros s; destruct s; assumption).
  assert (Hset : forall s v, v <> SStale -> fst (fset f s v) <> SStale /\ snd (fset f s v) <> SStale).
  { intros s v Hv. destruct f; destruct s; cbn in *; auto. }
  assert (Htf : forall v, v <> SStale -> touchf v <> SStale) by (intros v Hv; destruct v; cbn; congruence).
  destruct o as [[s|]|[s|]|s| |s|s]; cbn [stale_free no_redecorate_after_touch] in *.
  - destruct (fget f s) eqn:Ef; [| |exfalso; apply (Hns s); exact Ef];
      destruct (Hset s (touchf (fget f s)) (Htf _ (Hns s))) as [A B]; rewrite Ef in A, B;
      apply (IH true); auto; discriminate.
  - apply (IH t); auto.
  - destruct (fget f s) eqn:Ef; [| |exfalso; apply (Hns s); exact Ef];
      destruct (Hset s (touchf (fget f s)) (Htf _ (Hns s))) as [A B]; rewrite Ef in A, B;
      apply (IH true); auto; discriminate.
  - apply (IH t); auto.
  - destruct (Hset s (touchf (fget f s)) (Htf _ (Hns s))) as [A B].
    apply (IH true); auto; discriminate.
  - destruct t; [discriminate|]. rewrite (HT eq_refl). cbn [fst snd age].
    apply (IH false); auto; discriminate.
  - destruct t.
    + destruct (Hset s SFresh ltac:(discriminate)) as [A B]. apply (IH true); auto; discriminate.
    + rewrite (HT eq_refl). destruct s; cbn [fset fst snd]; apply (IH false); auto; cbn; discriminate.
  - apply (IH t); auto.
Qed.

(* the exact premise subsumes the one of C18_history_partial ... *)
Corollary stale_free_weaker : forall h,
  no_redecorate_after_touch false h = true -> stale_free (SFresh, SFresh) h = true.
Proof.
  intros h H. apply (no_redecorate_implies_stale_free h false); auto; discriminate.
Qed.

(* ... strictly *)
Example stale_free_strictly_weaker :
  let h := [OpGet (Some false); OpRedecorate; OpCall false; OpRetrieve (Some true); OpDrop false;
            OpRetrieve (Some false)] in
  no_redecorate_after_touch false h = false /\ stale_free (SFresh, SFresh) h = true.
Proof. split; reflexivity. Qed.

Print Assumptions reclaim_exact.
Print Assumptions refines_exact.
Print Assumptions stale_free_weaker.
