(* SweepDefs2.v — boolean sweeps for mask (C03), functools.partial (C19) and
   embed (C02) over the finite universes; proved by vm_compute in
   Proofs/Sweep/M[KE]*.v and lifted in Proofs/Bounded2.v. *)
From Sigtools.Model Require Import Universe.
From Sigtools.Proofs Require Import SweepDefs.

Definition nohide := mkHide false false false false.

(* the name tuples of the sweep: every duplicate-free tuple over {a, b} *)
Definition name_tuples : list (list name) := [[]; [1]; [2]; [1; 2]; [2; 1]].
Definition counts : list nat := [0; 1; 2; 3; 4]%nat.

(* names drawn from the signature's own parameter names, none positional-only *)
Definition names_avoid_po (s : list param) (names0 : list name) : bool :=
  forallb (fun k => negb (existsb (fun p => is_kind PO p && N.eqb k (pname p)) s)) names0
  && forallb (fun k => mem k (names_of s)) names0.

(* C03: exact residual signature / raises exactly when nothing can be passed *)
Definition mask_check (s : list param) (n : nat) (names0 : list name) : bool :=
  negb (names_avoid_po s names0) ||
  match mask (mk s) n names0 nohide with
  | Ok r => isNone (mask_exact_cex (params r) s n names0)
  | Err ValueErr => isNone (mask_none_cex s n names0)
  | Err _ => false
  end.

Definition mask_sweep (la : list (list param)) : bool :=
  forallb (fun s => forallb (fun n => forallb (fun ns => mask_check s n ns) name_tuples) counts) la.

(* C19: signature of functools.partial(f, <n positionals>, **{names}) *)
Definition partial_check (s : list param) (n : nat) (names0 : list name) : bool :=
  negb (names_avoid_po s names0) ||
  match sig_partial (mk s) n (map (fun k => (k, 5)) names0) 200 with
  | Ok r => isNone (partial_exact_cex (params r) s n names0)
  | Err ValueErr => isNone (partial_none_cex s n names0)
  | Err _ => false
  end.

Definition partial_sweep (la : list (list param)) : bool :=
  forallb (fun s => forallb (fun n => forallb (fun ns => partial_check s n ns) name_tuples) counts) la.

(* C02: embed(outer, inner) against calling outer, which forwards its surplus *)
Definition has_default_pos (o : list param) : bool :=
  existsb (fun p => is_positional p && has_def p) o.

Definition embed_check (o i : list param) (uva uvk : bool) : bool :=
  match embed [mk o; mk i] uva uvk with
  | Ok r =>
      isNone (chain_sound_cex (params r) o i uva uvk 0 [] [])
      && (has_default_pos o || isNone (chain_exact_cex (params r) o i uva uvk 0 [] []))
  | Err Incompatible =>
      (* a same-named parameter, or no call at all could succeed *)
      existsb (fun p => is_named p && mem (pname p) (names_of (filter is_named i))) o
      || isNone (chain_none_cex o i uva uvk 0 [])
  | Err _ => true      (* plain ValueError: star named like a parameter (role-inconsistent) *)
  end.

Definition flagsets : list (bool * bool) := [(true, true); (true, false); (false, true); (false, false)].

Definition U1cd := universe 1 [3; 4] 9 10.

Definition embed_sweep (la : list (list param)) : bool :=
  forallb (fun o => forallb (fun i => forallb (fun f => embed_check o i (fst f) (snd f)) flagsets) U1cd) la.

Definition ECH := 14%nat.    (* 16 chunks of 14 cover the 220 signatures of U2ab *)

Lemma U2ab_echunks : flat_map (fun i => chunk ECH i U2ab) (seq 0 16) = U2ab.
Proof. vm_compute. reflexivity. Qed.
