(* Bounded.v — reflective theorems over the finite universes of Model/Universe.v.
   Each rests on boolean sweeps proved by computation (vm_compute) in
   Proofs/Sweep/*.v, lifted with forallb_forall and the decider-completeness
   theorems of SmallModel.v to statements about ALL calls.  The bound on the
   signatures is part of every statement. *)
From Sigtools.Model Require Import Universe.
From Sigtools.Proofs Require Import SmallModel SweepDefs.
From Sigtools.Proofs.Sweep Require MP0.
From Sigtools.Proofs.Sweep Require MP1.
From Sigtools.Proofs.Sweep Require MP2.
From Sigtools.Proofs.Sweep Require MP3.
From Sigtools.Proofs.Sweep Require MP4.
From Sigtools.Proofs.Sweep Require MP5.
From Sigtools.Proofs.Sweep Require MP6.
From Sigtools.Proofs.Sweep Require MP7.
From Sigtools.Proofs.Sweep Require MP8.
From Sigtools.Proofs.Sweep Require MP9.
From Sigtools.Proofs.Sweep Require MP10.
From Sigtools.Proofs.Sweep Require MP11.
From Sigtools.Proofs.Sweep Require MP12.
From Sigtools.Proofs.Sweep Require MP13.
From Sigtools.Proofs.Sweep Require MP14.
From Sigtools.Proofs.Sweep Require MP15.
From Sigtools.Proofs.Sweep Require MT0.
From Sigtools.Proofs.Sweep Require MT1.
From Sigtools.Proofs.Sweep Require MT2.
From Sigtools.Proofs.Sweep Require MT3.
From Sigtools.Proofs.Sweep Require MT4.
From Sigtools.Proofs.Sweep Require MT5.
From Sigtools.Proofs.Sweep Require MT6.
From Sigtools.Proofs.Sweep Require MT7.
From Sigtools.Proofs.Sweep Require MT8.
From Sigtools.Proofs.Sweep Require MT9.
From Sigtools.Proofs.Sweep Require MT10.
From Sigtools.Proofs.Sweep Require MT11.
From Sigtools.Proofs.Sweep Require MT12.

Lemma pairs_sweep_chunks (l : list (list param)) n :
  (forall i, In i (seq 0 n) -> pairs_sweep (chunk PCH i l) = true) ->
  pairs_sweep (flat_map (fun i => chunk PCH i l) (seq 0 n)) = true.
Proof.
  intros HH. unfold pairs_sweep. rewrite forallb_flat_map.
  apply forallb_forall. intros i Hi. apply (HH i Hi).
Qed.

Lemma triples_sweep_chunks (l : list (list param)) n :
  (forall i, In i (seq 0 n) -> triples_sweep (chunk TCH i l) = true) ->
  triples_sweep (flat_map (fun i => chunk TCH i l) (seq 0 n)) = true.
Proof.
  intros HH. unfold triples_sweep. rewrite forallb_flat_map.
  apply forallb_forall. intros i Hi. apply (HH i Hi).
Qed.

Lemma U2_chunks_sweep i : In i (seq 0 16) -> pairs_sweep (chunk PCH i U2ab) = true.
Proof.
  intros Hi. cbv [seq In] in Hi.
  destruct Hi as [<-|Hi]; [exact MP0.mp|].
  destruct Hi as [<-|Hi]; [exact MP1.mp|].
  destruct Hi as [<-|Hi]; [exact MP2.mp|].
  destruct Hi as [<-|Hi]; [exact MP3.mp|].
  destruct Hi as [<-|Hi]; [exact MP4.mp|].
  destruct Hi as [<-|Hi]; [exact MP5.mp|].
  destruct Hi as [<-|Hi]; [exact MP6.mp|].
  destruct Hi as [<-|Hi]; [exact MP7.mp|].
  destruct Hi as [<-|Hi]; [exact MP8.mp|].
  destruct Hi as [<-|Hi]; [exact MP9.mp|].
  destruct Hi as [<-|Hi]; [exact MP10.mp|].
  destruct Hi as [<-|Hi]; [exact MP11.mp|].
  destruct Hi as [<-|Hi]; [exact MP12.mp|].
  destruct Hi as [<-|Hi]; [exact MP13.mp|].
  destruct Hi as [<-|Hi]; [exact MP14.mp|].
  destruct Hi as [<-|Hi]; [exact MP15.mp|].
  destruct Hi.
Qed.

Lemma U1_chunks_sweep i : In i (seq 0 13) -> triples_sweep (chunk TCH i U1ab) = true.
Proof.
  intros Hi. cbv [seq In] in Hi.
  destruct Hi as [<-|Hi]; [exact MT0.mt|].
  destruct Hi as [<-|Hi]; [exact MT1.mt|].
  destruct Hi as [<-|Hi]; [exact MT2.mt|].
  destruct Hi as [<-|Hi]; [exact MT3.mt|].
  destruct Hi as [<-|Hi]; [exact MT4.mt|].
  destruct Hi as [<-|Hi]; [exact MT5.mt|].
  destruct Hi as [<-|Hi]; [exact MT6.mt|].
  destruct Hi as [<-|Hi]; [exact MT7.mt|].
  destruct Hi as [<-|Hi]; [exact MT8.mt|].
  destruct Hi as [<-|Hi]; [exact MT9.mt|].
  destruct Hi as [<-|Hi]; [exact MT10.mt|].
  destruct Hi as [<-|Hi]; [exact MT11.mt|].
  destruct Hi as [<-|Hi]; [exact MT12.mt|].
  destruct Hi.
Qed.

Lemma U2_pairs_sweep : pairs_sweep U2ab = true.
Proof.
  exact (eq_ind _ (fun l => pairs_sweep l = true)
                (pairs_sweep_chunks U2ab 16 U2_chunks_sweep) _ U2ab_chunks).
Qed.

Lemma U1_triples_sweep : triples_sweep U1ab = true.
Proof.
  exact (eq_ind _ (fun l => triples_sweep l = true)
                (triples_sweep_chunks U1ab 13 U1_chunks_sweep) _ U1ab_chunks).
Qed.

Lemma forallb2_in {A} (f : A -> A -> bool) la lb :
  forallb (fun a => forallb (fun b => f a b) lb) la = true ->
  forall a b, In a la -> In b lb -> f a b = true.
Proof.
  intros H a b Ha Hb. rewrite forallb_forall in H. specialize (H a Ha). cbv beta in H.
  rewrite forallb_forall in H. exact (H b Hb).
Qed.

Lemma forallb3_in {A} (f : A -> A -> A -> bool) la lb lc :
  forallb (fun a => forallb (fun b => forallb (fun c => f a b c) lc) lb) la = true ->
  forall a b c, In a la -> In b lb -> In c lc -> f a b c = true.
Proof.
  intros H a b c Ha Hb Hc. rewrite forallb_forall in H. specialize (H a Ha). cbv beta in H.
  rewrite forallb_forall in H. specialize (H b Hb). cbv beta in H.
  rewrite forallb_forall in H. exact (H c Hc).
Qed.

Lemma pairs_sweep_in l : pairs_sweep l = true ->
  forall a b, In a l -> In b U2ab -> pair_check a b = true.
Proof.
  unfold pairs_sweep. intros H a b Ha Hb.
  exact (forallb2_in pair_check l U2ab H a b Ha Hb).
Qed.

Lemma triples_sweep_in l : triples_sweep l = true ->
  forall a b c, In a l -> In b U1ab -> In c U1ab -> merge_sound_check [a; b; c] = true.
Proof.
  unfold triples_sweep. intros H a b c Ha Hb Hc.
  exact (forallb3_in (fun a b c => merge_sound_check [a; b; c]) l U1ab U1ab H a b c Ha Hb Hc).
Qed.

Lemma pair_check_all a b : In a U2ab -> In b U2ab -> pair_check a b = true.
Proof. intros Ha Hb. exact (pairs_sweep_in U2ab U2_pairs_sweep a b Ha Hb). Qed.

Lemma triple_check_all a b c : In a U1ab -> In b U1ab -> In c U1ab -> merge_sound_check [a; b; c] = true.
Proof. intros Ha Hb Hc. exact (triples_sweep_in U1ab U1_triples_sweep a b c Ha Hb Hc). Qed.

Lemma merge_sound_check_spec ss r :
  merge_sound_check ss = true -> merge (map mk ss) = Ok r ->
  (forall c, (npos c = 0%nat \/ kws c = []) -> accepts (params r) c = true ->
             forallb (fun s => accepts s c) ss = true) /\
  (role_consistent ss = true ->
   forall c, noncolliding c (params r) ss = true -> accepts (params r) c = true ->
             forallb (fun s => accepts s c) ss = true).
Proof.
  unfold merge_sound_check. intros H E. rewrite E in H.
  apply andb_true_iff in H. destruct H as [H1 H2]. split.
  - apply sound_pure_cex_complete. apply isNone_true. exact H1.
  - intros Hrc. rewrite Hrc in H2. cbn [negb orb] in H2.
    apply sound_cex_complete. apply isNone_true. exact H2.
Qed.

(* C01, bounded: all pairs of U(2,{a,b}), ALL calls *)
Theorem merge_sound_pairs_U2 a b r :
  In a U2ab -> In b U2ab -> merge [mk a; mk b] = Ok r ->
  (forall c, (npos c = 0%nat \/ kws c = []) -> accepts (params r) c = true ->
             accepts a c = true /\ accepts b c = true) /\
  (role_consistent [a; b] = true ->
   forall c, noncolliding c (params r) [a; b] = true -> accepts (params r) c = true ->
             accepts a c = true /\ accepts b c = true).
Proof.
  intros Ha Hb E.
  pose proof (pair_check_all a b Ha Hb) as H. unfold pair_check in H.
  apply andb_true_iff in H. destruct H as [H _].
  destruct (merge_sound_check_spec [a; b] r H E) as [P1 P2]. split.
  - intros c Hp Hc. specialize (P1 c Hp Hc). cbn [forallb] in P1.
    rewrite andb_true_r in P1. apply andb_true_iff in P1. exact P1.
  - intros Hrc c Hn Hc. specialize (P2 Hrc c Hn Hc). cbn [forallb] in P2.
    rewrite andb_true_r in P2. apply andb_true_iff in P2. exact P2.
Qed.

(* C01, bounded: all triples of U(1,{a,b}) through the n-ary fold, ALL calls *)
Theorem merge_sound_triples_U1 a b c0 r :
  In a U1ab -> In b U1ab -> In c0 U1ab -> merge [mk a; mk b; mk c0] = Ok r ->
  (forall c, (npos c = 0%nat \/ kws c = []) -> accepts (params r) c = true ->
             forallb (fun s => accepts s c) [a; b; c0] = true) /\
  (role_consistent [a; b; c0] = true ->
   forall c, noncolliding c (params r) [a; b; c0] = true -> accepts (params r) c = true ->
             forallb (fun s => accepts s c) [a; b; c0] = true).
Proof.
  intros Ha Hb Hc E.
  exact (merge_sound_check_spec [a; b; c0] r (triple_check_all a b c0 Ha Hb Hc) E).
Qed.

(* C09, bounded: exactness for name-aligned role-consistent pairs of U(2,{a,b}) *)
Theorem merge_exact_pairs_U2 a b :
  In a U2ab -> In b U2ab -> name_aligned a b = true -> role_consistent [a; b] = true ->
  match merge [mk a; mk b] with
  | Ok r => forall c, noncolliding c (params r) [a; b] = true ->
                      accepts (params r) c = accepts a c && accepts b c
  | Err e => e = Incompatible /\ forall c, accepts a c && accepts b c = false
  end.
Proof.
  intros Ha Hb Hal Hrc.
  pose proof (pair_check_all a b Ha Hb) as H. unfold pair_check in H.
  apply andb_true_iff in H. destruct H as [_ H].
  unfold merge_exact_check in H. rewrite Hal, Hrc in H. cbn [andb negb orb] in H.
  destruct (merge [mk a; mk b]) as [r|e].
  - intros c Hn. pose proof (exact_cex_complete _ _ (isNone_true _ H) c Hn) as X.
    cbn [forallb] in X. rewrite andb_true_r in X. exact X.
  - destruct e; try discriminate. split; [reflexivity|].
    intros c. pose proof (none_cex_complete _ (isNone_true _ H) c) as X.
    cbn [forallb] in X. rewrite andb_true_r in X. exact X.
Qed.
