(* AnnotWraps.v — C11, known finding C11:wraps-globals, on the model.

   A functools.wraps / update_wrapper wrapper carries the raw annotations of the
   function it wraps (copied __annotations__; inspect follows __wrapped__).
   sigtools upgrades every raw annotation against the object whose signature
   was asked for: `upgrade_sig <flag of the wrapper's code> <wrapper> <raw
   annotations of the wrapped function>`.  The defining context of these
   annotations is the wrapped function, so whenever the two functions' globals
   bind a spelling differently the value reported is not the one the
   annotation denotes where it was defined; the statement
     "source_value of a retrieved annotation = its denotation in the globals
      of the function that defined it"
   is false for this retrieval, while it holds (upgrade_defining_context) when
   the function is its own definer. *)
From Coq Require Import List NArith Bool.
From Sigtools.Model Require Import Base Bind Algebra Annot.
Import ListNotations.
Open Scope N_scope.

(* signatures.signature(wrapper): the wrapped function's raw parameters, upgraded
   against the wrapper (its flag, its identity) *)
Definition retrieve_through (wflag : option bool) (wrapper : N) (rps : list rawparam) (rawret : option N) : sigT :=
  upgrade_sig wflag wrapper rps rawret.

(* what the annotation [a] of a function compiled with the future flag denotes
   in the globals of the function [f] that defined it *)
Definition denotes (g : genv) (f : N) (a : N) : option N := g f a.

(* retrieval from the defining function itself is right, for every environment *)
Theorem upgrade_defining_context g f rps rr p :
  In p (params (upgrade_sig (Some true) f rps rr)) ->
  match pann p with
  | Some a => source_value g (puann p) = denotes g f a
  | None => source_value g (puann p) = None
  end.
Proof.
  unfold upgrade_sig; cbn [params]. intros H. apply in_map_iff in H.
  destruct H as [[[[x k] d] a] [Hp _]]. subst p. cbn [upgrade_param pann puann].
  destruct a as [a|]; reflexivity.
Qed.

(* retrieval through a wrapper reports the wrapper's globals: for every
   parameter the value is the denotation in the WRAPPER's context *)
Theorem wraps_reports_wrapper_context g wrapper rps rr p :
  In p (params (retrieve_through (Some true) wrapper rps rr)) ->
  match pann p with
  | Some a => source_value g (puann p) = denotes g wrapper a
  | None => source_value g (puann p) = None
  end.
Proof. apply upgrade_defining_context. Qed.

(* witness: `def wrapped(a: T) -> T` (function 100, T bound to object 1) wrapped by
   function 101 whose module binds T to object 2 *)
Definition g_wraps : genv := fun f raw =>
  if N.eqb raw 500 then (if N.eqb f 100 then Some 1 else Some 2) else None.

Theorem wraps_globals_refuted :
  exists (g : genv) (wrapped wrapper : N) (rps : list rawparam) (rr : option N) (p : param) (a : N),
    (exists raw, g wrapped raw <> g wrapper raw) /\          (* different globals *)
    In p (params (retrieve_through (Some true) wrapper rps rr)) /\ pann p = Some a /\
    source_value g (puann p) <> denotes g wrapped a /\
    source_value g (uret (retrieve_through (Some true) wrapper rps rr)) <>
      match rr with Some r => denotes g wrapped r | None => None end.
Proof.
  exists g_wraps, 100, 101, [(1, PK, None, Some 500)], (Some 500),
         (mkParam 1 PK None (Some 500) (UPost 500 101)), 500.
  split; [exists 500; vm_compute; discriminate|].
  split; [left; reflexivity|]. split; [reflexivity|].
  split; vm_compute; discriminate.
Qed.

(* an eager wrapper around a postponed function reports the spelling itself *)
Theorem wraps_eager_wrapper_reports_string :
  source_value g_wraps (puann (upgrade_param (Some false) 101 (1, PK, None, Some 500))) = Some 500.
Proof. reflexivity. Qed.

(* the eager twins are right: the copied annotation is already the object *)
Theorem wraps_eager_twin_right g :
  source_value g (puann (upgrade_param (Some false) 101 (1, PK, None, Some 1))) = Some 1.
Proof. reflexivity. Qed.

Print Assumptions upgrade_defining_context.
Print Assumptions wraps_reports_wrapper_context.
Print Assumptions wraps_globals_refuted.
Print Assumptions wraps_eager_wrapper_reports_string.
Print Assumptions wraps_eager_twin_right.
