(* Proofs/InvarianceNested.v -- C06, invariance of the walker's flags under irrelevant variation
   of the wrapper body, for the NESTED statement grammar [nstmt] of Model/ExecNested.v
   (any program, any insertion position in the block of the wrapper).

   (a) inserting an unrelated statement -- a nested definition whose body only calls unrelated
       functions, a call h() of a nested function, a lambda called in place around an unrelated
       call, or a neutral flat statement ( f(<constant>), f( *args ), y = args ) -- inserts all-false flag tuples, one per call
       expression of the wrapper's own scope at the position of the statement among the
       main-scope calls, one per nested call at its position among the deferred calls; the flags
       of every other call and the final abstract state are unchanged.
       [nested_insert_any] is the general form: ANY non-leaf statement (whatever its nested body
       forwards) leaves the flags of all other calls unchanged.
   (b) moving a forwarding call between the wrapper's own scope, NLeaf (SFwd c n kw pa pk), and
       a lambda called in place, NLam (NCFwd c n kw pa pk): the general form
       [move_to_lambda_gen] says exactly what changes (the call is judged against the FINAL
       state instead of the state at its position); when the stars are untouched in the whole
       program the call keeps its flags and the flag list is a permutation (plus the all-false
       tuple of the call of the lambda).  Without that hypothesis the statement is false
       ([move_to_lambda_unrestricted_refuted]). *)
From Sigtools.Model Require Import Base Visitor Exec ExecNested.
From Sigtools.Proofs Require Import VisitorTotal Exec ExecNested.
From Coq Require Import Lia Permutation.

(* ------------------------------------------------------------------ *)
(* the abstract interpretation of a concatenation                      *)

Lemma absint_n_app a b k :
  absint_n (a ++ b) k =
  (fst (absint_n b (fst (absint_n a k))),
   snd (absint_n a k) ++ snd (absint_n b (fst (absint_n a k)))).
Proof.
  revert k. induction a as [|x a IH]; intros k; cbn [app absint_n].
  - cbn [fst snd app]. now destruct (absint_n b k).
  - destruct x as [s|h body|h|c].
    + destruct (absint s k) as [k1 f1]. rewrite IH. destruct (absint_n a k1) as [k2 f2]. cbn [fst snd].
      destruct (absint_n b k2) as [k3 f3]. cbn [fst snd]. now rewrite app_assoc.
    + apply IH.
    + rewrite IH. destruct (absint_n a k) as [k2 f2]. cbn [fst snd].
      destruct (absint_n b k2) as [k3 f3]. reflexivity.
    + rewrite IH. destruct (absint_n a k) as [k2 f2]. cbn [fst snd].
      destruct (absint_n b k2) as [k3 f3]. reflexivity.
Qed.

Lemma deferred_app a b : deferred (a ++ b) = deferred a ++ deferred b.
Proof. unfold deferred. apply flat_map_app. Qed.

Lemma deferred_cons x l : deferred (x :: l) = deferred1 x ++ deferred l.
Proof. reflexivity. Qed.

Lemma deferred_one x : deferred [x] = deferred1 x.
Proof. unfold deferred. cbn [flat_map]. apply app_nil_r. Qed.

Lemma nblock_ok_app va vk a b : nblock_ok va vk (a ++ b) = nblock_ok va vk a && nblock_ok va vk b.
Proof. unfold nblock_ok. apply forallb_app. Qed.

Lemma nblock_ok_insert va vk l1 x l2 :
  nblock_ok va vk (l1 ++ l2) = true -> nnames_ok va vk x = true -> nblock_ok va vk (l1 ++ x :: l2) = true.
Proof.
  rewrite !nblock_ok_app. intros H Hx. apply Bool.andb_true_iff in H as [H1 H2].
  rewrite H1. unfold nblock_ok in *. cbn [forallb]. now rewrite Hx, H2.
Qed.

Lemma mcalls_block_app a b : mcalls_block (a ++ b) = (mcalls_block a + mcalls_block b)%nat.
Proof. induction a as [|x a IH]; [reflexivity|]. cbn [app mcalls_block]. rewrite IH. lia. Qed.

(* the flags of  l1 ++ mid ++ l2 , piece by piece *)
Definition k_after (l : list nstmt) (k : bool * bool) : bool * bool := fst (absint_n l k).
Definition f_of (l : list nstmt) (k : bool * bool) : list flags := snd (absint_n l k).

Lemma absflags_n_3 l1 mid l2 :
  let k1 := k_after l1 (true, true) in
  let k2 := k_after mid k1 in
  let kF := k_after l2 k2 in
  absflags_n (l1 ++ mid ++ l2) =
  (f_of l1 (true, true) ++ f_of mid k1 ++ f_of l2 k2)
  ++ (map (nflags kF) (deferred l1) ++ map (nflags kF) (deferred mid) ++ map (nflags kF) (deferred l2))
  /\ k_after (l1 ++ mid ++ l2) (true, true) = kF.
Proof.
  cbv zeta. unfold absflags_n, k_after, f_of. rewrite !absint_n_app. cbn [fst snd].
  rewrite !deferred_app, !map_app. split; reflexivity.
Qed.

(* ------------------------------------------------------------------ *)
(* (a) unrelated statements                                             *)

Definition is_other (c : ncall) : bool := match c with NCOther _ => true | NCFwd _ _ _ _ _ => false end.

(* flat statements that neither bind nor mutate nor hide anything: an unrelated call, a call
   f( *args ) handing the (immutable) tuple to other code, a read-only alias y = args *)
Definition leaf_neutral (s : stmt) : bool :=
  match s with SOther _ => true | SPass _ SA => true | SAlias _ SA => true | _ => false end.

(* a statement of the wrapper's own scope that is irrelevant for forwarding *)
Definition unrelated_n (x : nstmt) : bool :=
  match x with
  | NLeaf s => leaf_neutral s
  | NDef _ body => forallb is_other body
  | NCallH _ => true
  | NLam c => is_other c
  end.

(* statements that are transparent for the wrapper's own scope: every non-leaf statement (the
   walker only opens an empty frame and defers), and the neutral flat statements *)
Definition transparent_n (x : nstmt) : bool :=
  match x with
  | NLeaf s => leaf_neutral s
  | _ => true
  end.

Lemma unrelated_transparent x : unrelated_n x = true -> transparent_n x = true.
Proof. destruct x as [s|h body|h|c]; auto. Qed.

Lemma transparent_absint x k :
  transparent_n x = true -> absint_n [x] k = (k, repeat dflags (mcalls x)).
Proof.
  destruct x as [s|h body|h|c]; intros H; [|reflexivity..].
  destruct s as [| | | | | |f s|y s|f| |]; try discriminate H; try destruct s; try discriminate H; reflexivity.
Qed.

Lemma others_dflags kF body :
  forallb is_other body = true -> map (nflags kF) body = repeat dflags (length body).
Proof.
  induction body as [|c body IH]; intros H; [reflexivity|]. cbn [forallb] in H.
  apply Bool.andb_true_iff in H as [Hc Hb]. cbn [map length repeat]. rewrite (IH Hb).
  destruct c; [discriminate Hc|reflexivity].
Qed.

Lemma unrelated_deferred kF x :
  unrelated_n x = true -> map (nflags kF) (deferred1 x) = repeat dflags (dcalls x).
Proof.
  destruct x as [s|h body|h|c]; intros H; cbn [deferred1 dcalls].
  - reflexivity.
  - apply others_dflags. exact H.
  - reflexivity.
  - destruct c; [discriminate H|reflexivity].
Qed.

(* the general form: ANY transparent statement, whatever its nested body forwards.  The flags
   of the program without the statement are
        (fm1 ++ fm2) ++ (fd1 ++ fd2)
   (main-scope calls before / after the position, nested calls before / after it); with the
   statement they are
        (fm1 ++ <all-false, one per main-scope call of x> ++ fm2) ++ (fd1 ++ <flags of x's nested calls> ++ fd2)
   where a nested call of x is judged against the final state kF of the wrapper's own scope,
   which is the same with and without x *)
Theorem nested_insert_any va vk l1 l2 x :
  va <> vk -> nblock_ok va vk (l1 ++ l2) = true -> nnames_ok va vk x = true ->
  transparent_n x = true ->
  exists fm1 fm2 fd1 fd2 kF,
    visitor_flags_n va vk (l1 ++ l2) = Some ((fm1 ++ fm2) ++ (fd1 ++ fd2)) /\
    visitor_flags_n va vk (l1 ++ x :: l2)
      = Some ((fm1 ++ repeat dflags (mcalls x) ++ fm2) ++ (fd1 ++ map (nflags kF) (deferred1 x) ++ fd2)) /\
    length fm1 = mcalls_block l1 /\ length fm2 = mcalls_block l2 /\
    length fd1 = length (deferred l1) /\ length fd2 = length (deferred l2) /\
    fst (absint_n (l1 ++ l2) (true, true)) = kF /\
    fst (absint_n (l1 ++ x :: l2) (true, true)) = kF.
Proof.
  intros Hne Hok Hx Ht.
  pose proof (nblock_ok_insert va vk l1 x l2 Hok Hx) as Hok2.
  rewrite (visitor_flags_n_absint va vk _ Hne Hok), (visitor_flags_n_absint va vk _ Hne Hok2).
  destruct (absflags_n_3 l1 [] l2) as [A1 A2]. destruct (absflags_n_3 l1 [x] l2) as [B1 B2].
  cbn [app] in A1, A2, B1, B2. unfold k_after, f_of in *.
  cbn [absint_n fst snd deferred flat_map map app] in A1, A2.
  rewrite (transparent_absint x _ Ht) in B1, B2. cbn [fst snd] in B1, B2.
  set (k1 := fst (absint_n l1 (true, true))) in *. set (kF := fst (absint_n l2 k1)) in *.
  exists (snd (absint_n l1 (true, true))), (snd (absint_n l2 k1)),
         (map (nflags kF) (deferred l1)), (map (nflags kF) (deferred l2)), kF.
  rewrite A1, B1, deferred_one.
  split; [reflexivity|]. split; [reflexivity|].
  destruct (absint_n_shape l1 (true, true)) as [_ L1]. destruct (absint_n_shape l2 k1) as [_ L2].
  rewrite !map_length. repeat (split; [first [assumption|reflexivity]|]). assumption.
Qed.

(* (a): an unrelated statement inserts all-false tuples only *)
Theorem nested_unrelated_invariant va vk l1 l2 x :
  va <> vk -> nblock_ok va vk (l1 ++ l2) = true -> nnames_ok va vk x = true ->
  unrelated_n x = true ->
  exists fm1 fm2 fd1 fd2,
    visitor_flags_n va vk (l1 ++ l2) = Some ((fm1 ++ fm2) ++ (fd1 ++ fd2)) /\
    visitor_flags_n va vk (l1 ++ x :: l2)
      = Some ((fm1 ++ repeat dflags (mcalls x) ++ fm2) ++ (fd1 ++ repeat dflags (dcalls x) ++ fd2)) /\
    length fm1 = mcalls_block l1 /\ length fm2 = mcalls_block l2 /\
    length fd1 = length (deferred l1) /\ length fd2 = length (deferred l2) /\
    fst (absint_n (l1 ++ x :: l2) (true, true)) = fst (absint_n (l1 ++ l2) (true, true)).
Proof.
  intros Hne Hok Hx Hu.
  destruct (nested_insert_any va vk l1 l2 x Hne Hok Hx (unrelated_transparent x Hu))
    as (fm1 & fm2 & fd1 & fd2 & kF & A & B & L1 & L2 & L3 & L4 & K1 & K2).
  exists fm1, fm2, fd1, fd2. rewrite (unrelated_deferred kF x Hu) in B.
  repeat (split; [assumption|]). congruence.
Qed.

(* the same, call by call: where the call number j of the program without x is found in the
   program with x, and that the inserted positions are all-false *)
Definition reindex (l1 l2 : list nstmt) (x : nstmt) (j : nat) : nat :=
  if Nat.ltb j (mcalls_block l1) then j
  else if Nat.ltb j (mcalls_block (l1 ++ l2) + length (deferred l1)) then (j + mcalls x)%nat
  else (j + mcalls x + dcalls x)%nat.

Lemma nth_repeat_dflags n j : nth j (repeat dflags n) dflags = dflags.
Proof. revert j. induction n as [|n IH]; intros [|j]; cbn; auto. Qed.

Lemma nth_insert {A} (a ins b : list A) j d :
  nth (if Nat.ltb j (length a) then j else j + length ins) (a ++ ins ++ b) d = nth j (a ++ b) d.
Proof.
  destruct (Nat.ltb_spec j (length a)) as [H|H].
  - rewrite !app_nth1 by lia. reflexivity.
  - rewrite !(app_nth2 a) by lia. rewrite app_nth2 by lia. f_equal. lia.
Qed.

Corollary nested_unrelated_pointwise va vk l1 l2 x :
  va <> vk -> nblock_ok va vk (l1 ++ l2) = true -> nnames_ok va vk x = true ->
  unrelated_n x = true ->
  exists fls fls',
    visitor_flags_n va vk (l1 ++ l2) = Some fls /\
    visitor_flags_n va vk (l1 ++ x :: l2) = Some fls' /\
    length fls' = (length fls + mcalls x + dcalls x)%nat /\
    (forall j, (j < length fls)%nat -> nth (reindex l1 l2 x j) fls' dflags = nth j fls dflags) /\
    (forall i, (i < mcalls x)%nat -> nth (mcalls_block l1 + i) fls' dflags = dflags) /\
    (forall i, (i < dcalls x)%nat ->
       nth (mcalls_block (l1 ++ x :: l2) + length (deferred l1) + i) fls' dflags = dflags).
Proof.
  intros Hne Hok Hx Hu.
  destruct (nested_unrelated_invariant va vk l1 l2 x Hne Hok Hx Hu)
    as (fm1 & fm2 & fd1 & fd2 & A & B & L1 & L2 & L3 & L4 & _).
  eexists _, _. split; [exact A|]. split; [exact B|].
  assert (M : mcalls_block (l1 ++ l2) = (length fm1 + length fm2)%nat) by (rewrite mcalls_block_app; lia).
  assert (M' : mcalls_block (l1 ++ x :: l2) = (length fm1 + mcalls x + length fm2)%nat).
  { rewrite mcalls_block_app. cbn [mcalls_block]. lia. }
  split; [rewrite !app_length, !repeat_length; lia|].
  split; [|split].
  - intros j Hj.
    set (R1 := repeat dflags (mcalls x)). set (R2 := repeat dflags (dcalls x)).
    set (A' := fm1 ++ R1 ++ fm2 ++ fd1).
    assert (ER : reindex l1 l2 x j =
                 (if Nat.ltb (if Nat.ltb j (length fm1) then j else j + length R1) (length A')
                  then (if Nat.ltb j (length fm1) then j else j + length R1)
                  else (if Nat.ltb j (length fm1) then j else j + length R1) + length R2)%nat).
    { unfold reindex, A', R1, R2. rewrite M, <- L1, <- L3, !app_length, !repeat_length.
      repeat match goal with |- context [Nat.ltb ?a ?b] => destruct (Nat.ltb_spec a b) end; lia. }
    rewrite ER.
    replace ((fm1 ++ R1 ++ fm2) ++ fd1 ++ R2 ++ fd2) with (A' ++ R2 ++ fd2)
      by (unfold A'; rewrite <- !app_assoc; reflexivity).
    rewrite nth_insert. unfold A'.
    replace ((fm1 ++ R1 ++ fm2 ++ fd1) ++ fd2) with (fm1 ++ R1 ++ (fm2 ++ fd1 ++ fd2))
      by (rewrite <- !app_assoc; reflexivity).
    rewrite nth_insert. rewrite <- !app_assoc. reflexivity.
  - intros i Hi. rewrite <- L1.
    rewrite (app_nth1 (fm1 ++ _ ++ fm2)) by (rewrite !app_length, repeat_length; lia).
    rewrite app_nth2 by lia. rewrite app_nth1 by (rewrite repeat_length; lia). apply nth_repeat_dflags.
  - intros i Hi. rewrite M', <- L3.
    rewrite (app_nth2 (fm1 ++ _ ++ fm2)) by (rewrite !app_length, repeat_length; lia).
    rewrite !app_length, repeat_length. rewrite app_nth2 by lia.
    rewrite app_nth1 by (rewrite repeat_length; lia). apply nth_repeat_dflags.
Qed.

(* ------------------------------------------------------------------ *)
(* (b) a forwarding call in the wrapper's own scope / in a lambda called in place *)

(* what changes, in general: in its own scope the call is judged against the state k1 at its
   position, in the lambda against the final state kF; the call of the lambda is one more
   (all-false) main-scope call; every other call keeps its flags *)
Theorem move_to_lambda_gen va vk l1 l2 c n kw pa pk :
  va <> vk -> nblock_ok va vk (l1 ++ l2) = true -> name_ok va vk c = true ->
  exists fm1 fm2 fd1 fd2 k1 kF,
    visitor_flags_n va vk (l1 ++ NLeaf (SFwd c n kw pa pk) :: l2)
      = Some ((fm1 ++ nflags k1 (NCFwd c n kw pa pk) :: fm2) ++ (fd1 ++ fd2)) /\
    visitor_flags_n va vk (l1 ++ NLam (NCFwd c n kw pa pk) :: l2)
      = Some ((fm1 ++ dflags :: fm2) ++ (fd1 ++ nflags kF (NCFwd c n kw pa pk) :: fd2)) /\
    length fm1 = mcalls_block l1 /\ length fm2 = mcalls_block l2 /\
    length fd1 = length (deferred l1) /\ length fd2 = length (deferred l2) /\
    k1 = fst (absint_n l1 (true, true)) /\ kF = fst (absint_n l2 k1) /\
    fst (absint_n (l1 ++ NLeaf (SFwd c n kw pa pk) :: l2) (true, true)) = kF /\
    fst (absint_n (l1 ++ NLam (NCFwd c n kw pa pk) :: l2) (true, true)) = kF.
Proof.
  intros Hne Hok Hc.
  assert (HxA : nnames_ok va vk (NLeaf (SFwd c n kw pa pk)) = true) by exact Hc.
  assert (HxB : nnames_ok va vk (NLam (NCFwd c n kw pa pk)) = true) by exact Hc.
  rewrite (visitor_flags_n_absint va vk _ Hne (nblock_ok_insert va vk l1 _ l2 Hok HxA)),
          (visitor_flags_n_absint va vk _ Hne (nblock_ok_insert va vk l1 _ l2 Hok HxB)).
  destruct (absflags_n_3 l1 [NLeaf (SFwd c n kw pa pk)] l2) as [A1 A2].
  destruct (absflags_n_3 l1 [NLam (NCFwd c n kw pa pk)] l2) as [B1 B2].
  cbn [app] in A1, A2, B1, B2. unfold k_after, f_of in *.
  set (k1 := fst (absint_n l1 (true, true))) in *.
  cbn [absint_n absint fst snd app] in A1, A2, B1, B2.
  set (kF := fst (absint_n l2 k1)) in *.
  exists (snd (absint_n l1 (true, true))), (snd (absint_n l2 k1)),
         (map (nflags kF) (deferred l1)), (map (nflags kF) (deferred l2)), k1, kF.
  rewrite A1, B1, !deferred_one. cbn [deferred1 map app].
  split; [reflexivity|]. split; [reflexivity|].
  destruct (absint_n_shape l1 (true, true)) as [_ L1]. destruct (absint_n_shape l2 k1) as [_ L2].
  rewrite !map_length. fold k1 in L2. repeat (split; [first [assumption|reflexivity]|]). assumption.
Qed.

(* the flags at a position are below the flags before it *)
Lemma k_untouched_prefix l1 l2 :
  fst (absint_n (l1 ++ l2) (true, true)) = (true, true) ->
  fst (absint_n l1 (true, true)) = (true, true) /\
  fst (absint_n l2 (fst (absint_n l1 (true, true)))) = (true, true).
Proof.
  rewrite absint_n_app. cbn [fst]. intros H.
  destruct (absint_n_shape l2 (fst (absint_n l1 (true, true)))) as [[A B] _]. rewrite H in A, B.
  cbn [fst snd] in A, B. split; [|exact H].
  destruct (fst (absint_n l1 (true, true))) as [a b]. cbn [fst snd] in A, B.
  rewrite (A eq_refl), (B eq_refl). reflexivity.
Qed.

(* (b): the star variables are untouched in the whole program -- the walker's final abstract
   state is (true, true) -- then the call has the same use/hide flags in either place, namely
   (pa, pk, false, false), every other call keeps its flags, and the flag list with the lambda is
   a permutation of the other one plus the all-false tuple of the call of the lambda itself *)
Theorem move_to_lambda_invariant va vk l1 l2 c n kw pa pk :
  va <> vk -> nblock_ok va vk (l1 ++ l2) = true -> name_ok va vk c = true ->
  fst (absint_n (l1 ++ l2) (true, true)) = (true, true) ->
  exists fm1 fm2 fd1 fd2,
    visitor_flags_n va vk (l1 ++ NLeaf (SFwd c n kw pa pk) :: l2)
      = Some ((fm1 ++ (pa, pk, false, false) :: fm2) ++ (fd1 ++ fd2)) /\
    visitor_flags_n va vk (l1 ++ NLam (NCFwd c n kw pa pk) :: l2)
      = Some ((fm1 ++ dflags :: fm2) ++ (fd1 ++ (pa, pk, false, false) :: fd2)) /\
    length fm1 = mcalls_block l1 /\ length fm2 = mcalls_block l2 /\
    length fd1 = length (deferred l1) /\ length fd2 = length (deferred l2) /\
    Permutation (dflags :: (fm1 ++ (pa, pk, false, false) :: fm2) ++ (fd1 ++ fd2))
                ((fm1 ++ dflags :: fm2) ++ (fd1 ++ (pa, pk, false, false) :: fd2)).
Proof.
  intros Hne Hok Hc Hun.
  destruct (move_to_lambda_gen va vk l1 l2 c n kw pa pk Hne Hok Hc)
    as (fm1 & fm2 & fd1 & fd2 & k1 & kF & A & B & L1 & L2 & L3 & L4 & K1 & KF & _ & _).
  destruct (k_untouched_prefix l1 l2 Hun) as [U1 U2]. rewrite <- K1 in U2. rewrite U1 in K1. rewrite U2 in KF.
  subst k1 kF. cbn [nflags fst snd negb] in A, B. rewrite !Bool.andb_true_r, !Bool.andb_false_r in A, B.
  exists fm1, fm2, fd1, fd2. repeat (split; [assumption|]).
  set (g := (pa, pk, false, false)).
  (* dflags :: fm1 ++ g :: fm2 ++ fd1 ++ fd2  ~  fm1 ++ dflags :: fm2 ++ fd1 ++ g :: fd2 *)
  rewrite <- !app_assoc. cbn [app].
  apply Permutation_trans with (l' := fm1 ++ dflags :: g :: fm2 ++ fd1 ++ fd2).
  - apply (Permutation_middle fm1 (g :: fm2 ++ fd1 ++ fd2) dflags).
  - apply Permutation_app_head. apply perm_skip.
    apply Permutation_trans with (l' := g :: (fm2 ++ fd1) ++ fd2).
    + rewrite <- app_assoc. apply Permutation_refl.
    + rewrite (app_assoc fm2 fd1). apply Permutation_middle.
Qed.

(* without the hypothesis the statement is false:  def w( *a, **k ): f( *a, **k ); a = <const>
   marks the call as using *a, while  (lambda: f( *a, **k ))(); a = <const>  hides it (the
   deferred call is judged after the rebinding) *)
Theorem move_to_lambda_unrestricted_refuted :
  exists va vk l1 l2 c n kw pa pk f1 f2,
    va <> vk /\ nblock_ok va vk (l1 ++ l2) = true /\ name_ok va vk c = true /\
    visitor_flags_n va vk (l1 ++ NLeaf (SFwd c n kw pa pk) :: l2) = Some f1 /\
    visitor_flags_n va vk (l1 ++ NLam (NCFwd c n kw pa pk) :: l2) = Some f2 /\
    In (true, true, false, false) f1 /\ ~ In (true, true, false, false) f2.
Proof.
  exists 1%N, 2%N, [], [NLeaf (SRebind SA)], 5%N, 0%nat, [], true, true.
  eexists _, _. split; [discriminate|]. split; [reflexivity|]. split; [reflexivity|].
  split; [vm_compute; reflexivity|]. split; [vm_compute; reflexivity|].
  split; [left; reflexivity|]. intros [H|[H|[]]]; discriminate H.
Qed.

(* ------------------------------------------------------------------ *)
(* the hypotheses are satisfiable, on a program with every kind of statement *)

(* names: args=1 kwargs=2 callee=5 f=12 h=20 g=21 *)
Definition inv_l1 : list nstmt :=
  [NLeaf (SFwd 5 1 [] true true); NDef 20 [NCFwd 5 0 [7] true true; NCOther 12]; NCallH 20]%N.
Definition inv_l2 : list nstmt :=
  [NLeaf (SMethod SK 9); NLam (NCFwd 5 2 [] false true); NCallH 20; NLeaf (SFwd 5 0 [] true true)]%N.

Example nested_unrelated_example :
  (1 <> 2)%N /\ nblock_ok 1 2 (inv_l1 ++ inv_l2) = true /\
  nnames_ok 1 2 (NDef 21 [NCOther 12; NCOther 13]) = true /\ unrelated_n (NDef 21 [NCOther 12; NCOther 13]) = true /\
  nnames_ok 1 2 (NLam (NCOther 12)) = true /\ unrelated_n (NLam (NCOther 12)) = true /\
  nnames_ok 1 2 (NCallH 20) = true /\ unrelated_n (NCallH 20) = true /\
  visitor_flags_n 1 2 (inv_l1 ++ inv_l2) =
    Some [(true, true, false, false); dflags; dflags; dflags; dflags; (true, false, false, true);
          (true, false, false, true); dflags; (false, false, false, true)] /\
  visitor_flags_n 1 2 (inv_l1 ++ NDef 21 [NCOther 12; NCOther 13] :: inv_l2) =
    Some [(true, true, false, false); dflags; dflags; dflags; dflags; (true, false, false, true);
          (true, false, false, true); dflags; dflags; dflags; (false, false, false, true)] /\
  visitor_flags_n 1 2 (inv_l1 ++ NLam (NCOther 12) :: inv_l2) =
    Some [(true, true, false, false); dflags; dflags; dflags; dflags; dflags; (true, false, false, true);
          (true, false, false, true); dflags; dflags; (false, false, false, true)].
Proof. vm_compute. repeat split; discriminate. Qed.

(* (b): a program that never touches the stars *)
Definition mv_l1 : list nstmt := [NLeaf (SOther 12); NDef 20 [NCFwd 6 0 [] false true]; NCallH 20]%N.
Definition mv_l2 : list nstmt := [NLeaf (SAlias 11 SA); NLam (NCOther 12); NLeaf (SFwd 6 1 [] true false)]%N.

Example move_to_lambda_example :
  (1 <> 2)%N /\ nblock_ok 1 2 (mv_l1 ++ mv_l2) = true /\ name_ok 1 2 5 = true /\
  fst (absint_n (mv_l1 ++ mv_l2) (true, true)) = (true, true) /\
  visitor_flags_n 1 2 (mv_l1 ++ NLeaf (SFwd 5 0 [7%N] true true) :: mv_l2) =
    Some [dflags; dflags; (true, true, false, false); dflags; (true, false, false, false);
          (false, true, false, false); dflags] /\
  visitor_flags_n 1 2 (mv_l1 ++ NLam (NCFwd 5 0 [7%N] true true) :: mv_l2) =
    Some [dflags; dflags; dflags; dflags; (true, false, false, false);
          (false, true, false, false); (true, true, false, false); dflags].
Proof. vm_compute. repeat split; discriminate. Qed.

Print Assumptions absflags_n_3.
Print Assumptions nested_insert_any.
Print Assumptions nested_unrelated_invariant.
Print Assumptions nested_unrelated_pointwise.
Print Assumptions move_to_lambda_gen.
Print Assumptions move_to_lambda_invariant.
Print Assumptions move_to_lambda_unrestricted_refuted.
Print Assumptions nested_unrelated_example.
Print Assumptions move_to_lambda_example.
