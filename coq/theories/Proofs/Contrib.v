(* Contrib.v — C10: the contributor theorem for merge (and, from the same
   walk, C08's "exactly the callables declaring the name").

   Every parameter of `merge [a; b]` is, up to a legal kind restriction
   (PK -> PO or PK -> KO, nothing else), a parameter of a, a parameter of b, or
   `concile` of one parameter of each (in one of the two orders).  Hence its
   default, annotation and name are given by the `concile` rules of
   Props/C10.v applied to its contributors; in particular it is optional iff
   every contributor is.

   Part 1: one walk through every stage of the merger, for all classified
           signatures whose positional-or-keyword bucket holds PK parameters.
           Each result parameter is tied to the *event* that produced it: the
           one or two input parameters, where they stand in the positional
           sequences (same index / beyond the other side's last positional),
           and what the event guarantees about the provenance list of the name.
   Part 2: merge [a; b] for ALL signatures: contributors, and the rules for
           name / kind / default / annotation read off them.
   Part 3: consistently named inputs (name_aligned, role_consistent, valid):
           the contributors are the parameters of that very name, conciled left
           first (`merge2_by_name`), and the provenance list is exactly the
           union of the inputs' lists (`merge2_src_exact`).  Without the
           consistency hypotheses both are false
           (`merge2_by_name_needs_consistency`). *)
From Coq Require Import List NArith Bool Arith Lia Btauto.
From Sigtools.Model Require Import Base Bind Roles Algebra.
From Sigtools.Proofs Require Import SmallModel Basics Prov MaskLaws MaskExact MergeNeutral Annot ProvKeys.
Import ListNotations.
Open Scope N_scope.

(* the only kind changes: none, PK -> PO, PK -> KO *)
Definition kind_ok (k0 k : kind) : Prop := k = k0 \/ (k0 = PK /\ (k = PO \/ k = KO)).

(* p is b with a legally restricted kind *)
Definition restr (b p : param) : Prop := p = set_kind (pkind p) b /\ kind_ok (pkind b) (pkind p).

Lemma restr_refl b : restr b b.
Proof. split; [destruct b; reflexivity | left; reflexivity]. Qed.

Lemma restr_fields b p : restr b p ->
  pname p = pname b /\ pdef p = pdef b /\ pann p = pann b /\ puann p = puann b.
Proof. intros [E _]. rewrite E. cbn. auto. Qed.

Lemma set_kind_set_kind k k' p : set_kind k (set_kind k' p) = set_kind k p.
Proof. reflexivity. Qed.

Lemma pkind_set_kind k p : pkind (set_kind k p) = k.
Proof. reflexivity. Qed.

Lemma restr_set_kind b k : kind_ok (pkind b) k -> restr b (set_kind k b).
Proof. intros H. split; [reflexivity | exact H]. Qed.

Lemma restr_PK_to b k : pkind b = PK -> (k = PK \/ k = PO \/ k = KO) -> restr b (set_kind k b).
Proof.
  intros Hb Hk. apply restr_set_kind. rewrite Hb. destruct Hk as [->|[->| ->]]; [left | right | right]; auto.
Qed.

Lemma Forall_snoc {A} (P : A -> Prop) (xs : list A) (x : A) : Forall P xs -> P x -> Forall P (xs ++ [x]).
Proof. intros H1 H2. apply Forall_app. split; [exact H1 | constructor; [exact H2 | constructor]]. Qed.

Lemma oside_invol s : oside (oside s) = s.
Proof. destruct s; reflexivity. Qed.

(* ================================================================== *)
(* Part 1 — the walk                                                   *)
Section Walk.
Variables l r : sorted.
Hypothesis PKl : Forall (fun p => pkind p = PK) (pokargs l).
Hypothesis PKr : Forall (fun p => pkind p = PK) (pokargs r).

(* the positional sequence of an operand *)
Definition Pseq (s : side) : list param := posargs (my l r s) ++ pokargs (my l r s).

(* q1 of side s and q2 of the other side stand at the same positional index *)
Definition pairpos (s : side) (q1 q2 : param) : Prop :=
  exists d1 t1 d2 t2, Pseq s = d1 ++ q1 :: t1 /\ Pseq (oside s) = d2 ++ q2 :: t2 /\ length d1 = length d2.
(* q of side s stands beyond the last positional parameter of the other side *)
Definition leftover (s : side) (q : param) : Prop :=
  exists d t, Pseq s = d ++ q :: t /\ (length (Pseq (oside s)) <= length d)%nat.

(* how a result parameter came about *)
Inductive event :=
| EvLeft (s : side) (q : param)        (* positional parameter of s with no partner *)
| EvKwo (s : side) (q : param)         (* keyword-only parameter of s with no partner *)
| EvPos (s : side) (q1 q2 : param)     (* met by position; q1 (of s) gives name and kind *)
| EvKw (s : side) (q1 q2 : param).     (* q1 of s met the keyword-only q2 of the same name *)

Definition ev_ok (e : event) : Prop :=
  match e with
  | EvLeft s q => leftover s q
  | EvKwo s q => In q (kwoargs (my l r s)) /\ memn (pname q) (kwoargs (my l r (oside s))) = false
  | EvPos s q1 q2 => pairpos s q1 q2 /\ (s = L \/ (In q1 (posargs r) /\ In q2 (pokargs l)))
  | EvKw s q1 q2 => In q2 (kwoargs (my l r (oside s))) /\ pname q2 = pname q1 /\
                    ((s = L /\ In q1 (kwoargs l)) \/ In q1 (pokargs (my l r s)))
  end.

Definition ev_base (e : event) : param :=
  match e with
  | EvLeft _ q | EvKwo _ q => q
  | EvPos _ q1 q2 | EvKw _ q1 q2 => concile q1 q2
  end.

Definition ev_name (e : event) : name :=
  match e with
  | EvLeft _ q | EvKwo _ q => pname q
  | EvPos _ q1 _ | EvKw _ q1 _ => pname q1
  end.

Lemma ev_base_name e : pname (ev_base e) = ev_name e.
Proof. destruct e; reflexivity. Qed.

(* what the provenance list of the result parameter contains at least *)
Definition ev_src (e : event) (v : list N) : Prop :=
  match e with
  | EvLeft s q | EvKwo s q => incl (sside l r s (pname q)) v
  | EvPos s q1 q2 => incl (sside l r s (pname q1)) v /\
                     (pname q2 = pname q1 -> incl (sside l r (oside s) (pname q1)) v)
  | EvKw s q1 q2 => incl (sside l r s (pname q1)) v /\ incl (sside l r (oside s) (pname q1)) v
  end.

Lemma ev_src_mono e v v' : incl v v' -> ev_src e v -> ev_src e v'.
Proof.
  intros H. destruct e; cbn [ev_src].
  - intros A. eapply incl_tran; eauto.
  - intros A. eapply incl_tran; eauto.
  - intros [A B]. split; [eapply incl_tran; eauto | intros E; eapply incl_tran; [apply B; exact E | exact H]].
  - intros [A B]. split; eapply incl_tran; eauto.
Qed.

Lemma sside_in_full s x : incl (sside l r s x) (sside l r L x ++ sside l r R x).
Proof. destruct s; [apply incl_appl | apply incl_appr]; apply incl_refl. Qed.

Lemma ev_src_full e : ev_src e (sside l r L (ev_name e) ++ sside l r R (ev_name e)).
Proof. destruct e; cbn [ev_src ev_name]; repeat split; intros; apply sside_in_full. Qed.

Definition CP (m : srcmap) (p : param) : Prop :=
  exists e, ev_ok e /\ restr (ev_base e) p /\ ev_src e (src_get m (ev_name e)).
(* in the positional-or-keyword bucket: still PK or already PO, from a PK *)
Definition CPK (m : srcmap) (p : param) : Prop :=
  exists e, ev_ok e /\ pkind (ev_base e) = PK /\ restr (ev_base e) p /\ (pkind p = PK \/ pkind p = PO) /\
            ev_src e (src_get m (ev_name e)).

Lemma CPK_CP m p : CPK m p -> CP m p.
Proof. intros (e & A & _ & B & _ & C). exists e. auto. Qed.

Definition grows (m m' : srcmap) : Prop := forall y, incl (src_get m y) (src_get m' y).

Lemma grows_refl m : grows m m.
Proof. intros y. apply incl_refl. Qed.

Lemma grows_add m x v : grows m (src_add m x v).
Proof.
  intros y. rewrite src_get_add. destruct (N.eqb_spec y x) as [->|]; [apply incl_appl|]; apply incl_refl.
Qed.

Lemma CP_grows m m' p : grows m m' -> CP m p -> CP m' p.
Proof.
  intros H (e & A & B & C). exists e. split; [exact A|]. split; [exact B|].
  eapply ev_src_mono; [apply H | exact C].
Qed.

Lemma CPK_grows m m' p : grows m m' -> CPK m p -> CPK m' p.
Proof.
  intros H (e & A & K & B & D & C). exists e. split; [exact A|]. split; [exact K|]. split; [exact B|].
  split; [exact D|]. eapply ev_src_mono; [apply H | exact C].
Qed.

(* d[x] = l_src ++ r_src satisfies every requirement on x *)
Lemma CP_set m x p : CP m p -> CP (src_set m x (sside l r L x ++ sside l r R x)) p.
Proof.
  intros (e & A & B & C). exists e. split; [exact A|]. split; [exact B|]. rewrite src_get_set.
  destruct (N.eqb_spec (ev_name e) x) as [<-|]; [apply ev_src_full | exact C].
Qed.

Lemma CPK_set m x p : CPK m p -> CPK (src_set m x (sside l r L x ++ sside l r R x)) p.
Proof.
  intros (e & A & K & B & D & C). exists e. split; [exact A|]. split; [exact K|]. split; [exact B|].
  split; [exact D|]. rewrite src_get_set.
  destruct (N.eqb_spec (ev_name e) x) as [<-|]; [apply ev_src_full | exact C].
Qed.

Lemma CPK_to_PO m p : CPK m p -> CP m (set_kind PO p).
Proof.
  intros (e & A & K & [E _] & _ & C). exists e. split; [exact A|]. split; [|exact C]. split.
  - rewrite E. reflexivity.
  - cbn [pkind set_kind]. rewrite K. right. auto.
Qed.

Lemma CPK_to_PO_K m p : CPK m p -> CPK m (set_kind PO p).
Proof.
  intros (e & A & K & [E R] & _ & C). exists e. split; [exact A|]. split; [exact K|].
  split; [|split; [right; reflexivity | exact C]].
  split; [rewrite E; reflexivity | cbn [pkind set_kind]; rewrite K; right; auto].
Qed.

Lemma pok_kind s q : In q (pokargs (my l r s)) -> pkind q = PK.
Proof. destruct s; cbn [my]; intros H; [rewrite Forall_forall in PKl; auto | rewrite Forall_forall in PKr; auto]. Qed.

(* a new parameter: its event, with what the step adds for its name *)
Lemma CP_new m e k v :
  ev_ok e -> kind_ok (pkind (ev_base e)) k -> ev_src e v ->
  CP (src_add m (ev_name e) v) (set_kind k (ev_base e)).
Proof.
  intros A K C. exists e. split; [exact A|]. split; [apply restr_set_kind; exact K|].
  rewrite src_get_add, N.eqb_refl.
  eapply ev_src_mono; [|exact C]. apply incl_appr. apply incl_refl.
Qed.

Lemma CP_new_same m e v :
  ev_ok e -> ev_src e v -> CP (src_add m (ev_name e) v) (ev_base e).
Proof.
  intros A C. exists e. split; [exact A|]. split; [apply restr_refl|].
  rewrite src_get_add, N.eqb_refl. eapply ev_src_mono; [|exact C]. apply incl_appr. apply incl_refl.
Qed.

Lemma CPK_new m e k v :
  ev_ok e -> pkind (ev_base e) = PK -> (k = PK \/ k = PO) -> ev_src e v ->
  CPK (src_add m (ev_name e) v) (set_kind k (ev_base e)).
Proof.
  intros A K Hk C. exists e. split; [exact A|]. split; [exact K|].
  split; [apply restr_PK_to; [exact K | destruct Hk; auto]|]. split; [exact Hk|].
  rewrite src_get_add, N.eqb_refl. eapply ev_src_mono; [|exact C]. apply incl_appr. apply incl_refl.
Qed.

Lemma CPK_new_same m e v :
  ev_ok e -> pkind (ev_base e) = PK -> ev_src e v -> CPK (src_add m (ev_name e) v) (ev_base e).
Proof.
  intros A K C. pose proof (CPK_new m e PK v A K (or_introl eq_refl) C) as H.
  replace (set_kind PK (ev_base e)) with (ev_base e) in H; [exact H|].
  destruct (ev_base e) as [n k d a u]; cbn in *. subst k. reflexivity.
Qed.

(* merger state *)
Definition stC (st : mstate) : Prop :=
  Forall (CP (m_src st)) (m_pos st) /\ Forall (CPK (m_src st)) (m_pok st) /\ Forall (CP (m_src st)) (m_kwo st) /\
  (forall p, In p (m_lunm st) -> In p (kwoargs l) /\ memn (pname p) (kwoargs r) = false) /\
  (forall p, In p (m_runm st) -> In p (kwoargs r) /\ memn (pname p) (kwoargs l) = false).

Lemma Forall_CP_grows m m' xs : grows m m' -> Forall (CP m) xs -> Forall (CP m') xs.
Proof. intros H. apply Forall_impl. intros p. apply CP_grows. exact H. Qed.
Lemma Forall_CPK_grows m m' xs : grows m m' -> Forall (CPK m) xs -> Forall (CPK m') xs.
Proof. intros H. apply Forall_impl. intros p. apply CPK_grows. exact H. Qed.

(* ---- matched keyword-only parameters ---- *)
Lemma kwo_match_C lk : forall st,
  (forall p, In p lk -> In p (kwoargs l)) -> stC st -> stC (kwo_match l r lk st).
Proof.
  induction lk as [|p lk IH]; intros st Hlk Hst; cbn [kwo_match]; [exact Hst|].
  apply IH; [intros q Hq; apply Hlk; right; exact Hq|].
  destruct Hst as (C1 & C2 & C3 & C4 & C5).
  assert (Hp : In p (kwoargs l)) by (apply Hlk; left; reflexivity).
  destruct (find_param (pname p) (kwoargs r)) as [q|] eqn:E.
  - destruct (find_param_In _ _ _ E) as [Hq Hn].
    unfold stC. cbn [set_src set_kwo m_src m_pos m_pok m_kwo m_lunm m_runm].
    change (src_get (ssrc l) (pname p) ++ src_get (ssrc r) (pname p))
      with (sside l r L (pname p) ++ sside l r R (pname p)).
    split; [|split; [|split; [|split; assumption]]].
    + eapply Forall_impl; [|exact C1]. intros x. apply CP_set.
    + eapply Forall_impl; [|exact C2]. intros x. apply CPK_set.
    + apply od_set_P.
      * eapply Forall_impl; [|exact C3]. intros x. apply CP_set.
      * exists (EvKw L p q). split; [|split].
        -- cbn [ev_ok oside my]. repeat split; auto.
        -- apply restr_refl.
        -- cbn [ev_name]. rewrite src_get_set, N.eqb_refl. apply (ev_src_full (EvKw L p q)).
  - apply find_param_none in E.
    unfold stC. cbn [set_unm m_src m_pos m_pok m_kwo m_lunm m_runm].
    split; [exact C1|]. split; [exact C2|]. split; [exact C3|]. split; [|exact C5].
    intros q Hq. apply od_set_In in Hq. destruct Hq as [Hq| ->]; [apply C4; exact Hq | split; [exact Hp | exact E]].
Qed.

(* ---- positions ---- *)
Definition posinv (s : side) (restS restO : list param) : Prop :=
  exists dS dO, Pseq s = dS ++ restS /\ Pseq (oside s) = dO ++ restO /\
    (length dS = length dO \/ (restO = [] /\ (length dO <= length dS)%nat)
     \/ (restS = [] /\ (length dS <= length dO)%nat)).

Lemma posinv_sym s a b : posinv s a b -> posinv (oside s) b a.
Proof.
  intros (dS & dO & E1 & E2 & H). exists dO, dS. rewrite oside_invol. repeat split; auto.
  destruct H as [H|[H|H]]; [left; auto | right; right; exact H | right; left; exact H].
Qed.

Lemma posinv_sym' s a b : posinv (oside s) a b -> posinv s b a.
Proof. intros H. apply posinv_sym in H. rewrite oside_invol in H. exact H. Qed.

Lemma posinv_pair s e rest o conv :
  posinv s (e :: rest) (o :: conv) -> pairpos s e o /\ posinv s rest conv.
Proof.
  intros (dS & dO & E1 & E2 & H).
  assert (Hl : length dS = length dO).
  { destruct H as [H|[[H _]|[H _]]]; [exact H | discriminate H | discriminate H]. }
  split.
  - exists dS, rest, dO, conv. auto.
  - exists (dS ++ [e]), (dO ++ [o]). rewrite <- !app_assoc. cbn [app]. repeat split; auto.
    left. rewrite !app_length. cbn. lia.
Qed.

Lemma posinv_left s e rest : posinv s (e :: rest) [] -> leftover s e /\ posinv s rest [].
Proof.
  intros (dS & dO & E1 & E2 & H). rewrite app_nil_r in E2.
  assert (Hl : (length dO <= length dS)%nat).
  { destruct H as [H|[[_ H]|[H _]]]; [lia | exact H | discriminate H]. }
  split.
  - exists dS, rest. split; [exact E1|]. rewrite E2. exact Hl.
  - exists (dS ++ [e]), dO. rewrite <- !app_assoc, app_nil_r. cbn [app]. repeat split; auto.
    right; left. split; [reflexivity|]. rewrite app_length. cbn. lia.
Qed.

Lemma posinv_init : posinv L (posargs l ++ pokargs l) (posargs r ++ pokargs r).
Proof. exists [], []. cbn. auto. Qed.

Lemma stC_intro st' :
  Forall (CP (m_src st')) (m_pos st') -> Forall (CPK (m_src st')) (m_pok st') ->
  Forall (CP (m_src st')) (m_kwo st') ->
  (forall p, In p (m_lunm st') -> In p (kwoargs l) /\ memn (pname p) (kwoargs r) = false) ->
  (forall p, In p (m_runm st') -> In p (kwoargs r) /\ memn (pname p) (kwoargs l) = false) ->
  stC st'.
Proof. unfold stC. auto. Qed.

Lemma ev_src_pos_diff s e o : N.eqb (pname o) (pname e) = false ->
  ev_src (EvPos s e o) (sside l r s (pname e)).
Proof.
  intros H. cbn [ev_src]. split; [apply incl_refl|]. intros E. rewrite E, N.eqb_refl in H. discriminate H.
Qed.

Lemma ev_src_pos_same s e o a b : (a = s /\ b = oside s) \/ (a = oside s /\ b = s) ->
  ev_src (EvPos s e o) (sside l r a (pname e) ++ sside l r b (pname e)).
Proof.
  intros [[-> ->]|[-> ->]]; cbn [ev_src]; (split; [|intros _]);
    first [apply incl_appl; apply incl_refl | apply incl_appr; apply incl_refl].
Qed.

(* ---- positional-only zip ---- *)
Lemma unb_pos1_C s e rest conv st st' conv' :
  posinv s (e :: rest) conv ->
  (s = L \/ (In e (posargs r) /\ forall o, In o conv -> In o (pokargs l))) ->
  stC st -> unb_pos1 l r s e conv st = Ok (st', conv') ->
  stC st' /\ posinv s rest conv' /\ (forall o, In o conv' -> In o conv).
Proof.
  intros Hpos Hside Hst. unfold unb_pos1. destruct Hst as (C1 & C2 & C3 & C4 & C5).
  destruct conv as [|o conv].
  - destruct (posinv_left _ _ _ Hpos) as [Hleft Hpos'].
    destruct (isSome (varargs (other l r s))).
    + intros E; inversion E; subst. split; [|split; [exact Hpos' | auto]].
      assert (G : stC (add_src1 l r (set_pos st (m_pos st ++ [e])) (pname e) s)).
      { apply stC_intro; cbn [add_src1 set_src set_pos m_src m_pos m_pok m_kwo m_lunm m_runm]; try assumption.
        - apply Forall_snoc; [eapply Forall_CP_grows; [apply grows_add | exact C1]|].
          apply (CP_new_same (m_src st) (EvLeft s e)); [exact Hleft | apply incl_refl].
        - eapply Forall_CPK_grows; [apply grows_add | exact C2].
        - eapply Forall_CP_grows; [apply grows_add | exact C3]. }
      destruct s; exact G.
    + destruct (negb (has_def e)); [discriminate|]. intros E; inversion E; subst.
      split; [unfold stC; auto | split; [exact Hpos' | auto]].
  - destruct (posinv_pair _ _ _ _ _ Hpos) as [Hpair Hpos'].
    intros E; inversion E; subst. split; [|split; [exact Hpos' | intros x Hx; right; exact Hx]].
    assert (Hev : ev_ok (EvPos s e o)).
    { cbn [ev_ok]. split; [exact Hpair|]. destruct Hside as [->|[A B]]; [left; reflexivity|].
      right. split; [exact A | apply B; left; reflexivity]. }
    destruct (N.eqb (pname o) (pname e)) eqn:En.
    + apply stC_intro; cbn [add_src2 set_src set_pos m_src m_pos m_pok m_kwo m_lunm m_runm]; try assumption.
      * apply Forall_snoc; [eapply Forall_CP_grows; [apply grows_add | exact C1]|].
        apply (CP_new_same (m_src st) (EvPos s e o)); [exact Hev|].
        apply ev_src_pos_same. left. destruct s; auto.
      * eapply Forall_CPK_grows; [apply grows_add | exact C2].
      * eapply Forall_CP_grows; [apply grows_add | exact C3].
    + apply stC_intro; cbn [add_src1 set_src set_pos m_src m_pos m_pok m_kwo m_lunm m_runm]; try assumption.
      * apply Forall_snoc; [eapply Forall_CP_grows; [apply grows_add | exact C1]|].
        apply (CP_new_same (m_src st) (EvPos s e o)); [exact Hev | apply ev_src_pos_diff; exact En].
      * eapply Forall_CPK_grows; [apply grows_add | exact C2].
      * eapply Forall_CP_grows; [apply grows_add | exact C3].
Qed.

Lemma unb_pos_all_C s ps : forall iS conv st st' conv',
  posinv s (ps ++ iS) conv ->
  (s = L \/ ((forall p, In p ps -> In p (posargs r)) /\ forall o, In o conv -> In o (pokargs l))) ->
  stC st -> unb_pos_all l r s ps conv st = Ok (st', conv') ->
  stC st' /\ posinv s iS conv' /\ (forall o, In o conv' -> In o conv).
Proof.
  induction ps as [|p ps IH]; intros iS conv st st' conv' Hpos Hside Hst; cbn [unb_pos_all].
  - intros E; inversion E; subst. auto.
  - intros E. apply bind_ok in E. destruct E as [[st1 conv1] [E1 E2]]. cbn [fst snd] in E2.
    cbn [app] in Hpos.
    destruct (unb_pos1_C s p (ps ++ iS) conv st st1 conv1 Hpos) as (H1 & H2 & H3); [| exact Hst | exact E1 |].
    { destruct Hside as [->|[A B]]; [left; reflexivity | right; split; [apply A; left; reflexivity | exact B]]. }
    destruct (IH iS conv1 st1 st' conv' H2) as (G1 & G2 & G3); [| exact H1 | exact E2 |].
    { destruct Hside as [->|[A B]]; [left; reflexivity | right; split; [intros q Hq; apply A; right; exact Hq|]].
      intros o Ho. apply B. apply H3. exact Ho. }
    split; [exact G1 | split; [exact G2 | intros o Ho; apply H3; apply G3; exact Ho]].
Qed.

Lemma zip_pos_C lp : forall rp il ir st st' il' ir',
  posinv L (lp ++ il) (rp ++ ir) ->
  (forall p, In p rp -> In p (posargs r)) ->
  (forall p, In p il -> In p (pokargs l)) -> (forall p, In p ir -> In p (pokargs r)) -> stC st ->
  zip_pos l r lp rp il ir st = Ok (st', il', ir') ->
  stC st' /\ posinv L il' ir' /\
  (forall p, In p il' -> In p (pokargs l)) /\ (forall p, In p ir' -> In p (pokargs r)).
Proof.
  induction lp as [|a lp IH]; intros rp il ir st st' il' ir' Hpos Hrp Hil Hir Hst.
  - cbn [zip_pos]. intros E. apply bind_ok in E. destruct E as [[st1 c1] [E1 E2]].
    cbn [fst snd] in E2. injection E2 as X1 X2 X3. subst st' il' ir'. cbn [app] in Hpos.
    destruct (unb_pos_all_C R rp ir il st st1 c1) as (H1 & H2 & H3); [| | exact Hst | exact E1 |].
    { apply (posinv_sym L). exact Hpos. }
    { right. split; [exact Hrp | exact Hil]. }
    split; [exact H1|]. split; [apply (posinv_sym' L); exact H2|]. split; [intros p Hp; apply Hil; apply H3; exact Hp | exact Hir].
  - destruct rp as [|b rp].
    + cbn [zip_pos]. intros E. apply bind_ok in E. destruct E as [[st1 c1] [E1 E2]].
      cbn [fst snd] in E2. injection E2 as X1 X2 X3. subst st' il' ir'. cbn [app] in Hpos.
      destruct (unb_pos_all_C L (a :: lp) il ir st st1 c1) as (H1 & H2 & H3); [exact Hpos | left; reflexivity | exact Hst | exact E1 |].
      split; [exact H1|]. split; [exact H2|]. split; [exact Hil | intros p Hp; apply Hir; apply H3; exact Hp].
    + cbn [zip_pos]. cbn [app] in Hpos. destruct (posinv_pair _ _ _ _ _ Hpos) as [Hpair Hpos'].
      apply IH; try assumption; [intros p Hp; apply Hrp; right; exact Hp|].
      destruct Hst as (C1 & C2 & C3 & C4 & C5).
      assert (Hev : ev_ok (EvPos L a b)) by (cbn [ev_ok]; split; [exact Hpair | left; reflexivity]).
      destruct (N.eqb (pname a) (pname b)) eqn:En.
      * apply stC_intro; cbn [add_src2 set_src set_pos m_src m_pos m_pok m_kwo m_lunm m_runm]; try assumption.
        -- apply Forall_snoc; [eapply Forall_CP_grows; [apply grows_add | exact C1]|].
           apply (CP_new_same (m_src st) (EvPos L a b)); [exact Hev|]. apply ev_src_pos_same. left. auto.
        -- eapply Forall_CPK_grows; [apply grows_add | exact C2].
        -- eapply Forall_CP_grows; [apply grows_add | exact C3].
      * apply stC_intro; cbn [add_src1 set_src set_pos m_src m_pos m_pok m_kwo m_lunm m_runm]; try assumption.
        -- apply Forall_snoc; [eapply Forall_CP_grows; [apply grows_add | exact C1]|].
           apply (CP_new_same (m_src st) (EvPos L a b)); [exact Hev|]. apply ev_src_pos_diff.
           rewrite N.eqb_sym. exact En.
        -- eapply Forall_CPK_grows; [apply grows_add | exact C2].
        -- eapply Forall_CP_grows; [apply grows_add | exact C3].
Qed.

(* ---- positional-or-keyword zip ---- *)
Lemma unb_pok1_C s e rest st st' :
  posinv s (e :: rest) [] -> In e (pokargs (my l r s)) -> stC st ->
  unb_pok1 l r s e st = Ok st' -> stC st' /\ posinv s rest [].
Proof.
  intros Hpos He Hst. unfold unb_pok1. destruct Hst as (C1 & C2 & C3 & C4 & C5).
  destruct (posinv_left _ _ _ Hpos) as [Hleft Hpos'].
  pose proof (pok_kind s e He) as Hk.
  assert (Hu : forall p, In p (unm st (oside s)) -> In p (kwoargs (my l r (oside s)))).
  { destruct s; cbn [oside unm my]; intros p Hp; [apply C5 | apply C4]; exact Hp. }
  change (match s with L => R | R => L end) with (oside s).
  destruct (find_param (pname e) (unm st (oside s))) as [q|] eqn:E.
  - destruct (find_param_In _ _ _ E) as [Hq Hqn].
    intros E1; inversion E1; subst. clear E1. split; [|exact Hpos'].
    assert (Hev : ev_ok (EvKw s e q)).
    { cbn [ev_ok]. split; [apply Hu; exact Hq|]. split; [exact Hqn | right; exact He]. }
    assert (Hsrc : ev_src (EvKw s e q) (sside l r (oside s) (pname e) ++ sside l r s (pname e))).
    { cbn [ev_src]. split; [apply incl_appr | apply incl_appl]; apply incl_refl. }
    assert (Hnew : forall m, CP (src_add m (pname e) (sside l r (oside s) (pname e) ++ sside l r s (pname e)))
                            (set_kind KO (concile e q))).
    { intros m. apply (CP_new m (EvKw s e q) KO); [exact Hev | | exact Hsrc].
      cbn [ev_base]. change (pkind (concile e q)) with (pkind e). rewrite Hk. right. auto. }
    destruct s; cbn [oside] in *;
      apply stC_intro; cbn [add_src2 set_src set_kwo set_unm unm m_src m_pos m_pok m_kwo m_lunm m_runm] in *;
      try (eapply Forall_CP_grows; [apply grows_add | assumption]);
      try (eapply Forall_CPK_grows; [apply grows_add | assumption]);
      try (apply od_set_P; [eapply Forall_CP_grows; [apply grows_add | assumption] | apply Hnew]);
      try assumption;
      intros p Hp; apply remove_param_In in Hp; auto.
  - destruct (isSome (varargs (other l r s)) && isSome (varkwargs (other l r s))).
    { intros E1; inversion E1; subst. split; [|exact Hpos'].
      apply stC_intro; cbn [add_src1 set_src set_pok m_src m_pos m_pok m_kwo m_lunm m_runm]; try assumption.
      - eapply Forall_CP_grows; [apply grows_add | exact C1].
      - apply Forall_snoc; [eapply Forall_CPK_grows; [apply grows_add | exact C2]|].
        apply (CPK_new_same (m_src st) (EvLeft s e)); [exact Hleft | exact Hk | apply incl_refl].
      - eapply Forall_CP_grows; [apply grows_add | exact C3]. }
    destruct (isSome (varkwargs (other l r s))).
    { intros E1; inversion E1; subst. split; [|exact Hpos'].
      apply stC_intro; cbn [add_src1 set_src set_kwo m_src m_pos m_pok m_kwo m_lunm m_runm]; try assumption.
      - eapply Forall_CP_grows; [apply grows_add | exact C1].
      - eapply Forall_CPK_grows; [apply grows_add | exact C2].
      - apply od_set_P; [eapply Forall_CP_grows; [apply grows_add | exact C3]|].
        apply (CP_new (m_src st) (EvLeft s e) KO); [exact Hleft | | apply incl_refl].
        cbn [ev_base]. rewrite Hk. right. auto. }
    destruct (isSome (varargs (other l r s))).
    { intros E1; inversion E1; subst. split; [|exact Hpos'].
      apply stC_intro; cbn [add_src1 set_src set_pok set_pos m_src m_pos m_pok m_kwo m_lunm m_runm]; try assumption.
      - apply Forall_app. split; [eapply Forall_CP_grows; [apply grows_add | exact C1]|].
        apply Forall_app. split.
        + pose proof (Forall_CPK_grows _ _ _ (grows_add (m_src st) (pname e) (sside l r s (pname e))) C2) as C2'.
          clear -C2'. induction C2' as [|x xs Hx Hxs IHx]; cbn [map]; constructor; [apply CPK_to_PO; exact Hx | exact IHx].
        + constructor; [|constructor].
          apply (CP_new (m_src st) (EvLeft s e) PO); [exact Hleft | | apply incl_refl].
          cbn [ev_base]. rewrite Hk. right. auto.
      - constructor.
      - eapply Forall_CP_grows; [apply grows_add | exact C3]. }
    destruct (negb (has_def e)); [discriminate|]. intros E1; inversion E1; subst.
    split; [unfold stC; auto | exact Hpos'].
Qed.

Lemma unb_pok_all_C s ps : forall st st',
  posinv s ps [] -> (forall p, In p ps -> In p (pokargs (my l r s))) -> stC st ->
  unb_pok_all l r s ps st = Ok st' -> stC st'.
Proof.
  induction ps as [|p ps IH]; intros st st' Hpos Hps Hst; cbn [unb_pok_all].
  - intros E; inversion E; subst; exact Hst.
  - intros E. apply bind_ok in E. destruct E as [st1 [E1 E2]].
    destruct (unb_pok1_C s p ps st st1 Hpos (Hps p (or_introl eq_refl)) Hst E1) as [H1 H2].
    eapply IH; [exact H2 | intros q Hq; apply Hps; right; exact Hq | exact H1 | exact E2].
Qed.

Lemma zip_pok_C il : forall ir st st',
  posinv L il ir -> (forall p, In p il -> In p (pokargs l)) -> (forall p, In p ir -> In p (pokargs r)) ->
  stC st -> zip_pok l r il ir st = Ok st' -> stC st'.
Proof.
  induction il as [|a il IH]; intros ir st st' Hpos Hil Hir Hst.
  - cbn [zip_pok]. destruct ir as [|b ir].
    + cbn [unb_pok_all]. intros E; inversion E; subst; exact Hst.
    + apply (unb_pok_all_C R (b :: ir) st st'); [apply (posinv_sym L); exact Hpos | exact Hir | exact Hst].
  - destruct ir as [|b ir].
    + exact (unb_pok_all_C L (a :: il) st st' Hpos Hil Hst).
    + cbn [zip_pok]. destruct (posinv_pair _ _ _ _ _ Hpos) as [Hpair Hpos'].
      apply IH; try assumption; [intros p Hp; apply Hil; right; exact Hp | intros p Hp; apply Hir; right; exact Hp|].
      destruct Hst as (C1 & C2 & C3 & C4 & C5).
      assert (Hev : ev_ok (EvPos L a b)) by (cbn [ev_ok]; split; [exact Hpair | left; reflexivity]).
      assert (Hk : pkind (ev_base (EvPos L a b)) = PK) by (apply (pok_kind L a); apply Hil; left; reflexivity).
      destruct (N.eqb (pname a) (pname b)) eqn:En.
      * apply stC_intro; cbn [add_src2 set_src set_pok m_src m_pos m_pok m_kwo m_lunm m_runm]; try assumption.
        -- eapply Forall_CP_grows; [apply grows_add | exact C1].
        -- apply Forall_snoc; [eapply Forall_CPK_grows; [apply grows_add | exact C2]|].
           apply (CPK_new_same (m_src st) (EvPos L a b)); [exact Hev | exact Hk|].
           apply ev_src_pos_same. left. auto.
        -- eapply Forall_CP_grows; [apply grows_add | exact C3].
      * apply stC_intro; cbn [add_src1 set_src set_pok m_src m_pos m_pok m_kwo m_lunm m_runm]; try assumption.
        -- eapply Forall_CP_grows; [apply grows_add | exact C1].
        -- apply Forall_app. split.
           ++ pose proof (Forall_CPK_grows _ _ _ (grows_add (m_src st) (pname a) (sside l r L (pname a))) C2) as C2'.
              clear -C2'. induction C2' as [|x xs Hx Hxs IHx]; cbn [map]; constructor; [apply CPK_to_PO_K; exact Hx | exact IHx].
           ++ constructor; [|constructor].
              apply (CPK_new (m_src st) (EvPos L a b) PO); [exact Hev | exact Hk | right; reflexivity|].
              apply ev_src_pos_diff. rewrite N.eqb_sym. exact En.
        -- eapply Forall_CP_grows; [apply grows_add | exact C3].
Qed.

(* ---- unmatched keyword-only parameters ---- *)
Lemma grows_addall g u m : grows m (addall g u m).
Proof. intros y. apply addall_mono. Qed.

Lemma unmatched_kwo_C s st st' : stC st -> unmatched_kwo l r s st = Ok st' -> stC st'.
Proof.
  intros Hst. unfold unmatched_kwo. pose proof Hst as (C1 & C2 & C3 & C4 & C5).
  assert (Hu : forall p, In p (unm st s) ->
                 In p (kwoargs (my l r s)) /\ memn (pname p) (kwoargs (my l r (oside s))) = false).
  { destruct s; cbn [unm my oside]; assumption. }
  destruct (unm st s) as [|p0 u0] eqn:Eu.
  - intros E; inversion E; subst; exact Hst.
  - destruct (isSome (varkwargs (other l r s))).
    2:{ destruct (forallb has_def (p0 :: u0)); [|discriminate]. intros E; inversion E; subst; exact Hst. }
    intros E; inversion E; subst. clear E.
    set (u := p0 :: u0) in *.
    set (st1 := set_kwo st (od_update (m_kwo st) u)).
    set (st2 := fold_left (fun a p => add_src1 l r a (pname p) s) u st1).
    pose proof (shp_fold_src l r s u st1) as Hs. fold st2 in Hs.
    apply shp_inv in Hs. destruct Hs as (A1 & A2 & A3 & _ & _ & A6 & A7).
    pose proof (fold_add_src1_src l r s u st1) as Asrc. fold st2 in Asrc.
    change (m_src st1) with (m_src st) in Asrc.
    assert (Hg : grows (m_src st) (m_src st2)) by (rewrite Asrc; apply grows_addall).
    assert (G : stC st2).
    { apply stC_intro; rewrite ?A1, ?A2, ?A3, ?A6, ?A7; unfold st1;
        cbn [set_kwo m_pos m_pok m_kwo m_lunm m_runm]; try assumption.
      - eapply Forall_CP_grows; [exact Hg | exact C1].
      - eapply Forall_CPK_grows; [exact Hg | exact C2].
      - apply od_update_P; [eapply Forall_CP_grows; [exact Hg | exact C3]|].
        apply Forall_forall. intros p Hp. exists (EvKwo s p). split; [exact (Hu p Hp)|].
        split; [apply restr_refl|]. cbn [ev_src ev_name]. rewrite Asrc.
        apply (addall_in (sside l r s) u (m_src st) p Hp). }
    destruct G as (G1 & G2 & G3 & G4 & G5).
    destruct s; apply stC_intro; cbn [excl_vk m_src m_pos m_pok m_kwo m_lunm m_runm]; assumption.
Qed.

Lemma normalise_pok_C st : stC st -> stC (normalise_pok st).
Proof.
  intros (C1 & C2 & C3 & C4 & C5). unfold normalise_pok.
  pose proof (split_po_prefix_P (CPK (m_src st)) (m_pok st) C2) as [Ha Hb].
  destruct (split_po_prefix (m_pok st)) as [a b]. cbn [fst snd] in *.
  apply stC_intro; cbn [set_pok set_pos m_src m_pos m_pok m_kwo m_lunm m_runm]; try assumption.
  apply Forall_app. split; [exact C1|]. eapply Forall_impl; [|exact Ha]. intros p. apply CPK_CP.
Qed.

(* ---- star parameters ---- *)
Lemma add_star_shp xl xr osl osr st : shp (snd (add_star l r xl xr osl osr st)) = shp st.
Proof.
  unfold add_star. destruct osl as [a|]; [|reflexivity]. destruct osr as [b|]; [|reflexivity].
  destruct (negb xl && negb xr); [destruct (N.eqb (pname a) (pname b)); reflexivity|].
  destruct (negb xl); reflexivity.
Qed.

Lemma add_star_grows xl xr osl osr st : grows (m_src st) (m_src (snd (add_star l r xl xr osl osr st))).
Proof.
  unfold add_star. destruct osl as [a|]; [|apply grows_refl]. destruct osr as [b|]; [|apply grows_refl].
  destruct (negb xl && negb xr); [destruct (N.eqb (pname a) (pname b)); apply grows_add|].
  destruct (negb xl); apply grows_add.
Qed.

Lemma add_star_C xl xr osl osr st : stC st -> stC (snd (add_star l r xl xr osl osr st)).
Proof.
  intros (C1 & C2 & C3 & C4 & C5).
  pose proof (add_star_shp xl xr osl osr st) as Hs. apply shp_inv in Hs.
  destruct Hs as (A1 & A2 & A3 & _ & _ & A6 & A7).
  pose proof (add_star_grows xl xr osl osr st) as Hg.
  apply stC_intro; rewrite ?A1, ?A2, ?A3, ?A6, ?A7; try assumption.
  - eapply Forall_CP_grows; [exact Hg | exact C1].
  - eapply Forall_CPK_grows; [exact Hg | exact C2].
  - eapply Forall_CP_grows; [exact Hg | exact C3].
Qed.

(* the star result: conciled, or the one star left *)
Definition star_contrib (o osl osr : option param) : Prop :=
  match o with
  | None => True
  | Some p => (exists a b, osl = Some a /\ osr = Some b /\ p = concile a b) \/
              (exists a, osl = Some a /\ osr <> None /\ p = a) \/
              (exists b, osr = Some b /\ osl <> None /\ p = b)
  end.

Lemma add_star_contrib xl xr osl osr st : star_contrib (fst (add_star l r xl xr osl osr st)) osl osr.
Proof.
  unfold add_star. destruct osl as [a|]; [|exact I]. destruct osr as [b|]; [|exact I].
  destruct (negb xl && negb xr); [left; exists a, b; auto|].
  destruct (negb xl); cbn.
  - right; left. exists a. repeat split; discriminate.
  - right; right. exists b. repeat split; discriminate.
Qed.

(* C10_contrib for one run of the merger: every named parameter of the result
   with the event it came from and the provenance that event guarantees *)
Theorem merger_contrib s : merger l r = Ok s ->
  Forall (CP (ssrc s)) (posargs s) /\ Forall (CPK (ssrc s)) (pokargs s) /\ Forall (CP (ssrc s)) (kwoargs s) /\
  star_contrib (varargs s) (varargs l) (varargs r) /\
  star_contrib (varkwargs s) (varkwargs l) (varkwargs r).
Proof.
  unfold merger. intros E.
  assert (H0 : stC (mkM [] [] [] [] false false false false [] [])).
  { apply stC_intro; cbn [m_src m_pos m_pok m_kwo m_lunm m_runm];
      [constructor | constructor | constructor | intros p [] | intros p []]. }
  pose proof (kwo_match_C (kwoargs l) _ (fun p H => H) H0) as H1.
  set (st1 := kwo_match l r (kwoargs l) (mkM [] [] [] [] false false false false [] [])) in *.
  assert (H2 : stC (set_unm st1 R (r_unmatched l r))).
  { destruct H1 as (C1 & C2 & C3 & C4 & C5).
    apply stC_intro; cbn [set_unm m_src m_pos m_pok m_kwo m_lunm m_runm]; try assumption.
    unfold r_unmatched. intros p Hp. apply filter_In in Hp. destruct Hp as [Hp Hf]. split; [exact Hp|].
    destruct (find_param (pname p) (kwoargs l)) eqn:Ef; [discriminate Hf|]. apply find_param_none. exact Ef. }
  apply bind_ok in E. destruct E as [[[st3 il] ir] [E3 E]].
  destruct (zip_pos_C _ _ _ _ _ _ _ _ posinv_init (fun p H => H) (fun p H => H) (fun p H => H) H2 E3)
    as (H3 & Hpos & Hil & Hir).
  apply bind_ok in E. destruct E as [st4 [E4 E]].
  pose proof (zip_pok_C _ _ _ _ Hpos Hil Hir H3 E4) as H4.
  apply bind_ok in E. destruct E as [st5 [E5 E]].
  pose proof (unmatched_kwo_C _ _ _ H4 E5) as H5.
  apply bind_ok in E. destruct E as [st6 [E6 E]].
  pose proof (unmatched_kwo_C _ _ _ H5 E6) as H6.
  pose proof (normalise_pok_C _ H6) as H7.
  set (st7 := normalise_pok st6) in *.
  pose proof (add_star_contrib (m_xva_l st7) (m_xva_r st7) (varargs l) (varargs r) st7) as Sva.
  pose proof (add_star_C (m_xva_l st7) (m_xva_r st7) (varargs l) (varargs r) st7 H7) as H8.
  destruct (add_star l r (m_xva_l st7) (m_xva_r st7) (varargs l) (varargs r) st7) as [va st8].
  cbn [fst snd] in Sva, H8.
  pose proof (add_star_contrib (m_xvk_l st8) (m_xvk_r st8) (varkwargs l) (varkwargs r) st8) as Svk.
  pose proof (add_star_C (m_xvk_l st8) (m_xvk_r st8) (varkwargs l) (varkwargs r) st8 H8) as H9.
  destruct (add_star l r (m_xvk_l st8) (m_xvk_r st8) (varkwargs l) (varkwargs r) st8) as [vk st9].
  cbn [fst snd] in Svk, H9.
  inversion E; subst. clear E. cbn [posargs pokargs kwoargs varargs varkwargs ssrc].
  destruct H9 as (C1 & C2 & C3 & _). repeat split; assumption.
Qed.
End Walk.

(* ================================================================== *)
(* Part 2 — merge [a; b] for all signatures                            *)

(* how the second contributor was found: by position, (keyword-only) by name,
   or both are the star parameters of their kind *)
Definition partner_ok (q1 q2 : param) : Prop :=
  is_positional q2 = true \/ (pkind q2 = KO /\ pname q2 = pname q1) \/
  ((pkind q2 = VP \/ pkind q2 = VK) /\ pkind q1 = pkind q2).

Definition contrib_of (A B : list param) (p : param) : Prop :=
  exists b, restr b p /\
    ((exists q, In q A /\ b = q) \/
     (exists q, In q B /\ b = q) \/
     (exists q1 q2, In q1 A /\ In q2 B /\ b = concile q1 q2 /\ partner_ok q1 q2) \/
     (exists q1 q2, In q1 A /\ In q2 B /\ b = concile q2 q1 /\ partner_ok q2 q1)).

Definition sig_of (a b : sigT) (s : side) : sigT := match s with L => a | R => b end.

Lemma in_mid {A} (d t : list A) (q : A) : In q (d ++ q :: t).
Proof. apply in_or_app. right. left. reflexivity. Qed.

Lemma Pseq_flatten l r s q : In q (Pseq l r s) -> In q (flatten (my l r s)).
Proof.
  unfold Pseq, flatten. intros H. apply in_app_or in H. apply in_or_app.
  destruct H as [H|H]; [left; exact H | right; apply in_or_app; left; exact H].
Qed.

Lemma kwo_flatten (so : sorted) q : In q (kwoargs so) -> In q (flatten so).
Proof.
  unfold flatten. intros H. apply in_or_app; right. apply in_or_app; right. apply in_or_app; right.
  apply in_or_app; left. exact H.
Qed.

Lemma flatten_params a b s q :
  In q (flatten (my (sort_params a) (sort_params b) s)) -> In q (params (sig_of a b s)).
Proof. destruct s; cbn [my sig_of]; apply sort_params_In. Qed.

Lemma Pseq_positional a b s q : In q (Pseq (sort_params a) (sort_params b) s) -> is_positional q = true.
Proof.
  destruct (sort_params_kinds a) as (Ka1 & Ka2 & _). destruct (sort_params_kinds b) as (Kb1 & Kb2 & _).
  rewrite Forall_forall in Ka1, Ka2, Kb1, Kb2. unfold Pseq, is_positional. intros H. apply in_app_or in H.
  destruct s; cbn [my] in H; destruct H as [H|H];
    rewrite ?(Ka1 _ H), ?(Ka2 _ H), ?(Kb1 _ H), ?(Kb2 _ H); reflexivity.
Qed.

Lemma kwo_kind a b s q : In q (kwoargs (my (sort_params a) (sort_params b) s)) -> pkind q = KO.
Proof.
  destruct (sort_params_kinds a) as (_ & _ & _ & Ka4 & _). destruct (sort_params_kinds b) as (_ & _ & _ & Kb4 & _).
  rewrite Forall_forall in Ka4, Kb4. destruct s; cbn [my]; auto.
Qed.

(* the events, read on the two signatures *)
Lemma event_contrib a b e p :
  ev_ok (sort_params a) (sort_params b) e -> restr (ev_base e) p -> contrib_of (params a) (params b) p.
Proof.
  set (sa := sort_params a). set (sb := sort_params b). intros Hev Hr.
  exists (ev_base e). split; [exact Hr|]. destruct e as [s q | s q | s q1 q2 | s q1 q2]; cbn [ev_ok ev_base] in *.
  - destruct Hev as (d & t & Hd & _).
    assert (Hq : In q (params (sig_of a b s))).
    { apply flatten_params. apply Pseq_flatten. fold sa sb. rewrite Hd. apply in_mid. }
    destruct s; [left | right; left]; exists q; auto.
  - destruct Hev as [Hq _]. apply kwo_flatten in Hq. apply flatten_params in Hq.
    destruct s; [left | right; left]; exists q; auto.
  - destruct Hev as [(d1 & t1 & d2 & t2 & E1 & E2 & _) _].
    assert (H1 : In q1 (Pseq sa sb s)) by (rewrite E1; apply in_mid).
    assert (H2 : In q2 (Pseq sa sb (oside s))) by (rewrite E2; apply in_mid).
    pose proof (Pseq_positional a b _ _ H2) as P2.
    apply Pseq_flatten in H1. apply Pseq_flatten in H2. apply flatten_params in H1. apply flatten_params in H2.
    destruct s; cbn [oside sig_of] in *.
    + right; right; left. exists q1, q2. repeat split; auto. left. exact P2.
    + right; right; right. exists q2, q1. repeat split; auto. left. exact P2.
  - destruct Hev as (H2 & Hn & H1).
    pose proof (kwo_kind a b _ _ H2) as K2.
    apply kwo_flatten in H2. apply flatten_params in H2.
    assert (H1' : In q1 (params (sig_of a b s))).
    { destruct H1 as [[-> H1]|H1]; apply flatten_params.
      - apply kwo_flatten. exact H1.
      - apply Pseq_flatten. unfold Pseq. apply in_or_app. right. exact H1. }
    destruct s; cbn [oside sig_of] in *.
    + right; right; left. exists q1, q2. repeat split; auto. right; left. auto.
    + right; right; right. exists q2, q1. repeat split; auto. right; left. auto.
Qed.

Theorem merge2_contrib a b r :
  merge [a; b] = Ok r -> Forall (contrib_of (params a) (params b)) (params r).
Proof.
  cbn [merge merge_steps]. intros E.
  apply bind_ok in E. destruct E as [acc [E1 E2]].
  apply bind_ok in E1. destruct E1 as [acc1 [E0 E1]]. apply to_incompatible_ok in E0.
  inversion E1; subst. clear E1.
  destruct (apply_params_fields _ _ _ E2) as [Ep _]. rewrite Ep.
  set (sa := sort_params a) in *. set (sb := sort_params b) in *.
  destruct (sort_params_kinds a) as (Ka1 & Ka2 & Ka3 & Ka4 & Ka5). fold sa in Ka1, Ka2, Ka3, Ka4, Ka5.
  destruct (sort_params_kinds b) as (Kb1 & Kb2 & Kb3 & Kb4 & Kb5). fold sb in Kb1, Kb2, Kb3, Kb4, Kb5.
  destruct (merger_contrib sa sb Ka2 Kb2 acc E0) as (M1 & M2 & M3 & M4 & M5).
  assert (Hbase : forall p, CP sa sb (ssrc acc) p -> contrib_of (params a) (params b) p).
  { intros p (e & Hev & Hr & _). eapply event_contrib; eauto. }
  assert (Hstar : forall o oa ob, star_contrib o oa ob ->
            (forall x, oa = Some x -> In x (params a)) -> (forall x, ob = Some x -> In x (params b)) ->
            (forall x y, oa = Some x -> ob = Some y -> (pkind y = VP \/ pkind y = VK) /\ pkind x = pkind y) ->
            Forall (contrib_of (params a) (params b)) (opt_list o)).
  { intros o oa ob Hs Ha Hb Hk. destruct o as [p|]; [|constructor]. constructor; [|constructor].
    exists p. split; [apply restr_refl|]. cbn in Hs.
    destruct Hs as [(x & y & -> & -> & ->) | [(x & -> & _ & ->) | (y & -> & _ & ->)]].
    - right; right; left. exists x, y. repeat split; auto. right; right. apply (Hk x y); reflexivity.
    - left. exists x. auto.
    - right; left. exists y. auto. }
  unfold flatten. repeat (apply Forall_app; split).
  - eapply Forall_impl; [|exact M1]. exact Hbase.
  - eapply Forall_impl; [|exact M2]. intros p Hp. apply Hbase. eapply CPK_CP. exact Hp.
  - apply (Hstar _ _ _ M4).
    + intros x Hx. apply sort_params_In. apply opt_in_flatten_va. exact Hx.
    + intros x Hx. apply sort_params_In. apply opt_in_flatten_va. exact Hx.
    + intros x y Hx Hy. rewrite (Ka3 _ Hx), (Kb3 _ Hy). auto.
  - eapply Forall_impl; [|exact M3]. exact Hbase.
  - apply (Hstar _ _ _ M5).
    + intros x Hx. apply sort_params_In. apply opt_in_flatten_vk. exact Hx.
    + intros x Hx. apply sort_params_In. apply opt_in_flatten_vk. exact Hx.
    + intros x y Hx Hy. rewrite (Ka5 _ Hx), (Kb5 _ Hy). auto.
Qed.

(* ---- the rules, read off the contributors ---- *)
Lemma restr_has_def b p : restr b p -> has_def p = has_def b.
Proof. intros H. destruct (restr_fields _ _ H) as (_ & E & _). unfold has_def. rewrite E. reflexivity. Qed.

(* C10: name, kind, default presence, default value, annotation of every
   parameter of merge [a; b], from one or two contributors *)
Theorem merge2_rules a b r p :
  merge [a; b] = Ok r -> In p (params r) ->
  (* one contributor: everything but (possibly) the kind is the contributor's *)
  (exists q, (In q (params a) \/ In q (params b)) /\
     pname p = pname q /\ kind_ok (pkind q) (pkind p) /\ pdef p = pdef q /\
     pann p = pann q /\ puann p = puann q) \/
  (* two contributors q1 (whose name and kind it takes) and q2, one from each input *)
  (exists q1 q2, ((In q1 (params a) /\ In q2 (params b)) \/ (In q1 (params b) /\ In q2 (params a))) /\
     partner_ok q1 q2 /\
     pname p = pname q1 /\ kind_ok (pkind q1) (pkind p) /\
     has_def p = has_def q1 && has_def q2 /\
     (forall d, pdef p = Some d ->
        exists d1 d2, pdef q1 = Some d1 /\ pdef q2 = Some d2 /\
                      ((d1 = d2 /\ d = d1) \/ (d1 <> d2 /\ d = 0))) /\
     (pann p, puann p) =
       match pann q1, pann q2 with
       | Some x, Some y => if N.eqb x y then (Some x, puann q1) else (None, UEmpty)
       | Some x, None => (Some x, puann q1)
       | None, Some y => (Some y, puann q2)
       | None, None => (None, UEmpty)
       end).
Proof.
  intros E Hp. pose proof (merge2_contrib a b r E) as H. rewrite Forall_forall in H.
  destruct (H p Hp) as (bb & Hr & Hb). destruct (restr_fields _ _ Hr) as (F1 & F2 & F3 & F4).
  pose proof (restr_has_def _ _ Hr) as Fd. destruct Hr as [_ Hk].
  assert (Two : forall q1 q2, bb = concile q1 q2 ->
     pname p = pname q1 /\ kind_ok (pkind q1) (pkind p) /\
     has_def p = has_def q1 && has_def q2 /\
     (forall d, pdef p = Some d ->
        exists d1 d2, pdef q1 = Some d1 /\ pdef q2 = Some d2 /\
                      ((d1 = d2 /\ d = d1) \/ (d1 <> d2 /\ d = 0))) /\
     (pann p, puann p) =
       match pann q1, pann q2 with
       | Some x, Some y => if N.eqb x y then (Some x, puann q1) else (None, UEmpty)
       | Some x, None => (Some x, puann q1)
       | None, Some y => (Some y, puann q2)
       | None, None => (None, UEmpty)
       end).
  { intros q1 q2 ->. destruct (concile_name_kind q1 q2) as [N1 N2].
    rewrite F1, N1, Fd, (concile_optional_iff q1 q2), F2, F3, F4. rewrite N2 in Hk.
    repeat split; try assumption.
    - intros d Hd. apply (concile_default q1 q2 d Hd).
    - apply concile_annotation. }
  destruct Hb as [(q & Hq & ->) | [(q & Hq & ->) | [(q1 & q2 & H1 & H2 & Hbb & Hpo) | (q1 & q2 & H1 & H2 & Hbb & Hpo)]]].
  - left. exists q. repeat split; auto.
  - left. exists q. repeat split; auto.
  - right. exists q1, q2. split; [left; auto|]. split; [exact Hpo|]. apply Two. exact Hbb.
  - right. exists q2, q1. split; [right; auto|]. split; [exact Hpo|]. apply Two. exact Hbb.
Qed.

(* optional only if every contributor is; in particular a parameter both
   inputs contribute to is required as soon as one of them requires it *)
Corollary merge2_optional a b r p :
  merge [a; b] = Ok r -> In p (params r) -> has_def p = true ->
  exists q, (In q (params a) \/ In q (params b)) /\ pname p = pname q /\ has_def q = true.
Proof.
  intros E Hp Hd. destruct (merge2_rules a b r p E Hp) as [(q & Hq & Hn & _ & Hdef & _) | (q1 & q2 & Hq & _ & Hn & _ & Hdef & _)].
  - exists q. repeat split; auto. unfold has_def in *. rewrite <- Hdef. exact Hd.
  - rewrite Hd in Hdef. symmetry in Hdef. apply andb_true_iff in Hdef.
    exists q1. repeat split; [destruct Hq as [[A _]|[A _]]; auto | exact Hn | apply Hdef].
Qed.

(* the kind of a result parameter is the kind of its (first) contributor or a
   restriction PK -> PO / PK -> KO of it: never anything else *)
Corollary merge2_kind a b r p :
  merge [a; b] = Ok r -> In p (params r) ->
  exists q, (In q (params a) \/ In q (params b)) /\ pname p = pname q /\ kind_ok (pkind q) (pkind p).
Proof.
  intros E Hp. destruct (merge2_rules a b r p E Hp) as [(q & Hq & Hn & Hk & _) | (q1 & q2 & Hq & _ & Hn & Hk & _)].
  - exists q. auto.
  - exists q1. repeat split; [destruct Hq as [[A _]|[A _]]; auto | exact Hn | exact Hk].
Qed.

(* ================================================================== *)
(* Part 3 — consistently named inputs: contributors by name, exact     *)
(* provenance                                                          *)

Lemma aligned_pair A : forall B d1 q1 t1 d2 q2 t2,
  aligned_lists A B = true -> A = d1 ++ q1 :: t1 -> B = d2 ++ q2 :: t2 -> length d1 = length d2 ->
  pname q1 = pname q2.
Proof.
  induction A as [|a A IH]; intros B d1 q1 t1 d2 q2 t2 Hal EA EB Hlen.
  - destruct d1; discriminate EA.
  - destruct B as [|b B]; [destruct d2; discriminate EB|].
    cbn [aligned_lists] in Hal. apply andb_true_iff in Hal. destruct Hal as [Hab Hal].
    destruct d1 as [|x d1]; destruct d2 as [|y d2]; try discriminate Hlen.
    + cbn [app] in EA, EB. inversion EA; inversion EB; subst. apply N.eqb_eq. exact Hab.
    + cbn [app] in EA, EB. inversion EA; inversion EB; subst.
      eapply IH; [exact Hal | reflexivity | reflexivity |]. cbn in Hlen. lia.
Qed.

Lemma aligned_sym A : forall B, aligned_lists A B = true -> aligned_lists B A = true.
Proof.
  induction A as [|a A IH]; intros [|b B] H; try reflexivity.
  cbn [aligned_lists] in *. apply andb_true_iff in H. destruct H as [H1 H2].
  rewrite N.eqb_sym, H1, (IH B H2). reflexivity.
Qed.

(* a parameter beyond the other side's last positional is not named like any
   of the other side's positionals *)
Lemma aligned_left A : forall B d q t,
  aligned_lists A B = true -> NoDup (names_of A) -> A = d ++ q :: t -> (length B <= length d)%nat ->
  ~ In (pname q) (names_of B).
Proof.
  induction A as [|a A IH]; intros B d q t Hal Hn EA Hlen.
  - destruct d; discriminate EA.
  - destruct B as [|b B]; [intros []|].
    destruct d as [|x d]; [cbn in Hlen; lia|]. cbn [app] in EA. inversion EA; subst.
    cbn [aligned_lists] in Hal. apply andb_true_iff in Hal. destruct Hal as [Hab Hal]. apply N.eqb_eq in Hab.
    cbn [names_of map] in Hn. inversion Hn as [|? ? Hx Hn']; subst.
    cbn [names_of map]. intros [H|H].
    + apply Hx. rewrite Hab, H. unfold names_of. rewrite map_app. apply in_or_app. right. left. reflexivity.
    + revert H. eapply IH; [exact Hal | exact Hn' | reflexivity |]. cbn in Hlen. lia.
Qed.

Lemma memn_false_find x ps : memn x ps = false -> find_param x ps = None.
Proof.
  induction ps as [|p ps IH]; [reflexivity|]. rewrite memn_cons. cbn [find_param].
  destruct (N.eqb x (pname p)); [discriminate|]. exact IH.
Qed.

Lemma find_param_nodup lk p : NoDup (names_of lk) -> In p lk -> find_param (pname p) lk = Some p.
Proof.
  induction lk as [|q lk IH]; intros Hn Hp; [destruct Hp|]. cbn in Hn. inversion Hn as [|? ? Hq Hn']; subst.
  cbn [find_param]. destruct Hp as [->|Hp]; [rewrite N.eqb_refl; reflexivity|].
  destruct (N.eqb_spec (pname p) (pname q)) as [E|_]; [|apply IH; assumption].
  exfalso. apply Hq. rewrite <- E. unfold names_of. apply in_map. exact Hp.
Qed.

Section Consistent.
Variables l r : sorted.
Hypothesis Kl : kinds_ok l.
Hypothesis Kr : kinds_ok r.
Hypothesis Nl : NoDup (names_of (flatten l)).
Hypothesis Nr : NoDup (names_of (flatten r)).
Hypothesis Al : aligned_lists (posargs l ++ pokargs l) (posargs r ++ pokargs r) = true.
(* a name both operands declare has the same kind in both *)
Hypothesis HK : forall p q, In p (flatten l) -> In q (flatten r) -> pname p = pname q -> pkind p = pkind q.

Lemma HK_side s p q : In p (flatten (my l r s)) -> In q (flatten (my l r (oside s))) ->
  pname p = pname q -> pkind p = pkind q.
Proof. destruct s; cbn [my oside]; intros A B C; [apply HK; auto | symmetry; apply HK; auto]. Qed.

Lemma Al_side s : aligned_lists (Pseq l r s) (Pseq l r (oside s)) = true.
Proof. destruct s; cbn [oside]; unfold Pseq; cbn [my]; [exact Al | apply aligned_sym; exact Al]. Qed.

Lemma kinds_side s : kinds_ok (my l r s).
Proof. destruct s; assumption. Qed.

Lemma nodup_side s : NoDup (names_of (flatten (my l r s))).
Proof. destruct s; assumption. Qed.

Lemma nodup_Pseq s : NoDup (names_of (Pseq l r s)).
Proof.
  pose proof (nodup_side s) as H. unfold flatten in H. rewrite app_assoc in H. unfold names_of in H.
  rewrite map_app in H. apply nodup_app_l in H. exact H.
Qed.

Lemma Pseq_kind s q : In q (Pseq l r s) -> pkind q = PO \/ pkind q = PK.
Proof.
  destruct (kinds_side s) as (K1 & K2 & _). rewrite Forall_forall in K1, K2.
  unfold Pseq. intros H. apply in_app_or in H. destruct H as [H|H]; [left; apply K1 | right; apply K2]; exact H.
Qed.

(* a parameter of positional kind sits in the positional sequence *)
Lemma positional_kind_in_Pseq s q : In q (flatten (my l r s)) -> (pkind q = PO \/ pkind q = PK) -> In q (Pseq l r s).
Proof.
  destruct (kinds_side s) as (_ & _ & K3 & K4 & K5). rewrite Forall_forall in K4.
  unfold flatten, Pseq. intros H Hk. apply in_app_or in H. destruct H as [H|H]; [apply in_or_app; left; exact H|].
  apply in_app_or in H. destruct H as [H|H]; [apply in_or_app; right; exact H|].
  exfalso. apply in_app_or in H. destruct H as [H|H].
  - destruct (varargs (my l r s)) as [v|] eqn:Ev; [|destruct H]. destruct H as [<-|[]].
    rewrite (K3 v eq_refl) in Hk. destruct Hk; discriminate.
  - apply in_app_or in H. destruct H as [H|H].
    + rewrite (K4 _ H) in Hk. destruct Hk; discriminate.
    + destruct (varkwargs (my l r s)) as [v|] eqn:Ev; [|destruct H]. destruct H as [<-|[]].
      rewrite (K5 v eq_refl) in Hk. destruct Hk; discriminate.
Qed.

Lemma ko_kind_in_kwo s q : In q (flatten (my l r s)) -> pkind q = KO -> In q (kwoargs (my l r s)).
Proof.
  destruct (kinds_side s) as (K1 & K2 & K3 & _ & K5). rewrite Forall_forall in K1, K2.
  unfold flatten. intros H Hk. apply in_app_or in H. destruct H as [H|H]; [rewrite (K1 _ H) in Hk; discriminate|].
  apply in_app_or in H. destruct H as [H|H]; [rewrite (K2 _ H) in Hk; discriminate|].
  apply in_app_or in H. destruct H as [H|H].
  - destruct (varargs (my l r s)) as [v|] eqn:Ev; [|destruct H]. destruct H as [<-|[]].
    rewrite (K3 v eq_refl) in Hk. discriminate.
  - apply in_app_or in H. destruct H as [H|H]; [exact H|].
    destruct (varkwargs (my l r s)) as [v|] eqn:Ev; [|destruct H]. destruct H as [<-|[]].
    rewrite (K5 v eq_refl) in Hk. discriminate.
Qed.

(* an event with a single contributor: the other operand does not declare the name *)
Lemma left_absent s q : leftover l r s q -> memn (pname q) (flatten (my l r (oside s))) = false.
Proof.
  intros (d & t & Hd & Hlen).
  destruct (memn (pname q) (flatten (my l r (oside s)))) eqn:E; [|reflexivity]. exfalso.
  apply memn_In in E. destruct E as [q' [Hq' Hn]].
  assert (Hq : In q (Pseq l r s)) by (rewrite Hd; apply in_mid).
  pose proof (HK_side s q q' (Pseq_flatten l r s q Hq) Hq' (eq_sym Hn)) as Hkk.
  assert (Hq'' : In q' (Pseq l r (oside s))).
  { apply positional_kind_in_Pseq; [exact Hq'|]. rewrite <- Hkk. apply (Pseq_kind s q Hq). }
  apply (aligned_left _ _ d q t (Al_side s) (nodup_Pseq s) Hd Hlen).
  rewrite <- Hn. unfold names_of. apply in_map. exact Hq''.
Qed.

Lemma kwo_absent s q : In q (kwoargs (my l r s)) -> memn (pname q) (kwoargs (my l r (oside s))) = false ->
  memn (pname q) (flatten (my l r (oside s))) = false.
Proof.
  intros Hq Hno.
  destruct (memn (pname q) (flatten (my l r (oside s)))) eqn:E; [|reflexivity]. exfalso.
  apply memn_In in E. destruct E as [q' [Hq' Hn]].
  assert (Kq : pkind q = KO).
  { destruct (kinds_side s) as (_ & _ & _ & K4 & _). rewrite Forall_forall in K4. apply K4. exact Hq. }
  pose proof (HK_side s q q' (kwo_flatten _ q Hq) Hq' (eq_sym Hn)) as Hkk.
  assert (Hq'' : In q' (kwoargs (my l r (oside s)))) by (apply ko_kind_in_kwo; [exact Hq' | rewrite <- Hkk; exact Kq]).
  rewrite <- Hn in Hno. rewrite (memn_intro _ _ Hq'') in Hno. discriminate.
Qed.

(* what a result parameter is, under the consistency hypotheses *)
Definition by_name (m : srcmap) (p : param) : Prop :=
  let x := pname p in
  match find_param x (flatten l), find_param x (flatten r) with
  | Some ql, Some qr => restr (concile ql qr) p /\
                        incl (src_get (ssrc l) x) (src_get m x) /\ incl (src_get (ssrc r) x) (src_get m x)
  | Some ql, None => restr ql p /\ incl (src_get (ssrc l) x) (src_get m x)
  | None, Some qr => restr qr p /\ incl (src_get (ssrc r) x) (src_get m x)
  | None, None => False
  end.

Lemma single_by_name m s q p :
  In q (flatten (my l r s)) -> memn (pname q) (flatten (my l r (oside s))) = false ->
  restr q p -> incl (sside l r s (pname q)) (src_get m (pname q)) -> by_name m p.
Proof.
  intros Hq Habs Hr Hsrc. unfold by_name. destruct (restr_fields _ _ Hr) as (Hn & _). rewrite Hn.
  pose proof (find_param_nodup _ q (nodup_side s) Hq) as F1.
  pose proof (memn_false_find _ _ Habs) as F2.
  destruct s; cbn [my oside] in *; rewrite F1, F2; split; assumption.
Qed.

Lemma CP_by_name m p : CP l r m p -> by_name m p.
Proof.
  intros (e & Hev & Hr & Hsrc).
  destruct e as [s q | s q | s q1 q2 | s q1 q2]; cbn [ev_ok ev_base ev_name ev_src] in *.
  - apply (single_by_name m s q p); auto.
    + destruct Hev as (d & t & Hd & _). apply Pseq_flatten. rewrite Hd. apply in_mid.
    + apply left_absent. exact Hev.
  - destruct Hev as [Hq Hno]. apply (single_by_name m s q p); auto.
    + apply kwo_flatten. exact Hq.
    + apply kwo_absent; assumption.
  - destruct Hev as [Hpair Hs]. pose proof Hpair as (d1 & t1 & d2 & t2 & E1 & E2 & Hlen).
    pose proof (aligned_pair _ _ _ _ _ _ _ _ (Al_side s) E1 E2 Hlen) as Hn.
    assert (H1 : In q1 (Pseq l r s)) by (rewrite E1; apply in_mid).
    assert (H2 : In q2 (Pseq l r (oside s))) by (rewrite E2; apply in_mid).
    pose proof (HK_side s q1 q2 (Pseq_flatten _ _ _ _ H1) (Pseq_flatten _ _ _ _ H2) Hn) as Hkk.
    destruct Hs as [->|[P1 P2]].
    2:{ exfalso. destruct Kl as (_ & K2 & _). destruct Kr as (K1 & _). rewrite Forall_forall in K1, K2.
        rewrite (K1 _ P1), (K2 _ P2) in Hkk. discriminate. }
    cbn [oside my] in *. destruct Hsrc as [S1 S2]. specialize (S2 (eq_sym Hn)).
    unfold by_name. destruct (restr_fields _ _ Hr) as (Hpn & _). rewrite Hpn.
    change (pname (concile q1 q2)) with (pname q1).
    rewrite (find_param_nodup _ q1 Nl (Pseq_flatten l r L _ H1)).
    rewrite Hn, (find_param_nodup _ q2 Nr (Pseq_flatten l r R _ H2)), <- Hn.
    split; [exact Hr | split; assumption].
  - destruct Hev as (H2 & Hn & H1).
    assert (K2 : pkind q2 = KO).
    { destruct (kinds_side (oside s)) as (_ & _ & _ & K4 & _). rewrite Forall_forall in K4. apply K4. exact H2. }
    destruct H1 as [[-> H1]|H1].
    2:{ exfalso.
        assert (K1 : pkind q1 = PK).
        { destruct (kinds_side s) as (_ & K & _). rewrite Forall_forall in K. apply K. exact H1. }
        assert (F1 : In q1 (flatten (my l r s))).
        { apply Pseq_flatten. unfold Pseq. apply in_or_app. right. exact H1. }
        pose proof (HK_side s q1 q2 F1 (kwo_flatten _ _ H2) (eq_sym Hn)) as Hkk.
        rewrite K1, K2 in Hkk. discriminate. }
    cbn [oside my] in *. destruct Hsrc as [S1 S2].
    unfold by_name. destruct (restr_fields _ _ Hr) as (Hpn & _). rewrite Hpn.
    change (pname (concile q1 q2)) with (pname q1).
    rewrite (find_param_nodup _ q1 Nl (kwo_flatten _ _ H1)).
    rewrite <- Hn, (find_param_nodup _ q2 Nr (kwo_flatten _ _ H2)), Hn.
    split; [exact Hr | split; assumption].
Qed.

Theorem merger_by_name s : merger l r = Ok s ->
  Forall (by_name (ssrc s)) (posargs s ++ pokargs s ++ kwoargs s).
Proof.
  intros E. destruct Kl as (_ & K2l & _). destruct Kr as (_ & K2r & _).
  destruct (merger_contrib l r K2l K2r s E) as (M1 & M2 & M3 & _).
  repeat (apply Forall_app; split).
  - eapply Forall_impl; [|exact M1]. intros p. apply CP_by_name.
  - eapply Forall_impl; [|exact M2]. intros p Hp. apply CP_by_name. eapply CPK_CP. exact Hp.
  - eapply Forall_impl; [|exact M3]. intros p. apply CP_by_name.
Qed.
End Consistent.

(* ---- from the model's boolean side conditions ---- *)
Lemma role_aux_self ps : forall idx p,
  NoDup (names_of ps) -> In p ps -> exists i, role_aux ps idx (pname p) = Some (pkind p, i).
Proof.
  induction ps as [|q ps IH]; intros idx p Hn Hp; [destruct Hp|].
  cbn [names_of map] in Hn. inversion Hn as [|? ? Hq Hn']; subst. cbn [role_aux].
  destruct Hp as [->|Hp].
  - rewrite N.eqb_refl. eexists. reflexivity.
  - destruct (N.eqb_spec (pname p) (pname q)) as [E|_].
    + exfalso. apply Hq. rewrite <- E. unfold names_of. apply in_map. exact Hp.
    + apply IH; assumption.
Qed.

Lemma kind_eqb_eq k k' : kind_eqb k k' = true -> k = k'.
Proof. destruct k, k'; cbn; intros H; try reflexivity; discriminate H. Qed.

Lemma role_consistent_kinds A B :
  role_consistent [A; B] = true -> NoDup (names_of A) -> NoDup (names_of B) ->
  forall p q, In p A -> In q B -> pname p = pname q -> pkind p = pkind q.
Proof.
  intros H NA NB p q Hp Hq Hn. cbn [role_consistent forallb] in H.
  apply andb_true_iff in H. destruct H as [H _]. apply andb_true_iff in H. destruct H as [H _].
  apply andb_true_iff in H. destruct H as [H _]. unfold roles_agree in H. rewrite forallb_forall in H.
  specialize (H p Hp). unfold role in H.
  destruct (role_aux_self A 0%nat p NA Hp) as [i Ei]. rewrite Ei in H.
  destruct (role_aux_self B 0%nat q NB Hq) as [j Ej]. rewrite Hn, Ej in H.
  unfold role_eqb in H. cbn [fst snd] in H. apply andb_true_iff in H. destruct H as [H _].
  apply kind_eqb_eq. exact H.
Qed.

Lemma positional_sorted s : valid_sig (params s) = true ->
  positional (params s) = posargs (sort_params s) ++ pokargs (sort_params s).
Proof.
  intros Hv. rewrite <- (sort_flatten_roundtrip s Hv). destruct (kinds_split s) as [H1 H2].
  unfold flatten. rewrite app_assoc, positional_app, (positional_all _ H1), (positional_none _ H2), app_nil_r.
  reflexivity.
Qed.

Section Merge2.
Variables a b : sigT.
Hypothesis Va : valid_sig (params a) = true.
Hypothesis Vb : valid_sig (params b) = true.
Hypothesis Hal : name_aligned (params a) (params b) = true.
Hypothesis Hrc : role_consistent [params a; params b] = true.

Let sa := sort_params a.
Let sb := sort_params b.

Lemma merge2_named_by_name r p :
  merge [a; b] = Ok r -> In p (params r) -> is_named p = true ->
  by_name sa sb (srcs r) p.
Proof.
  cbn [merge merge_steps]. intros E Hp Hnm.
  apply bind_ok in E. destruct E as [acc [E1 E2]].
  apply bind_ok in E1. destruct E1 as [acc1 [E0 E1]]. apply to_incompatible_ok in E0.
  inversion E1; subst. clear E1.
  destruct (apply_params_fields _ _ _ E2) as [Ep Es]. rewrite Ep in Hp. rewrite Es.
  fold sa sb in E0.
  pose proof (sort_params_kinds a) as Ka. pose proof (sort_params_kinds b) as Kb. fold sa in Ka. fold sb in Kb.
  assert (Fa : flatten sa = params a) by (apply sort_flatten_roundtrip; exact Va).
  assert (Fb : flatten sb = params b) by (apply sort_flatten_roundtrip; exact Vb).
  assert (Na : NoDup (names_of (flatten sa))) by (apply sort_params_nodup; exact Va).
  assert (Nb : NoDup (names_of (flatten sb))) by (apply sort_params_nodup; exact Vb).
  assert (Al : aligned_lists (posargs sa ++ pokargs sa) (posargs sb ++ pokargs sb) = true).
  { unfold name_aligned in Hal. rewrite (positional_sorted a Va), (positional_sorted b Vb) in Hal. exact Hal. }
  assert (HK : forall x y, In x (flatten sa) -> In y (flatten sb) -> pname x = pname y -> pkind x = pkind y).
  { rewrite Fa, Fb. apply role_consistent_kinds; [exact Hrc | rewrite <- Fa; exact Na | rewrite <- Fb; exact Nb]. }
  pose proof (merger_by_name sa sb Ka Kb Na Nb Al HK acc E0) as Hby. rewrite Forall_forall in Hby.
  apply Hby.
  (* p is not one of the stars *)
  destruct Ka as (_ & K2a & K3a & _ & K5a). destruct Kb as (_ & K2b & K3b & _ & K5b).
  destruct (merger_contrib sa sb K2a K2b acc E0) as (_ & _ & _ & M4 & M5).
  assert (Hstar : forall o oa ob k, star_contrib o oa ob -> (forall x, oa = Some x -> pkind x = k) ->
            (forall x, ob = Some x -> pkind x = k) -> (k = VP \/ k = VK) -> ~ In p (opt_list o)).
  { intros o oa ob k Hs Ha Hb Hk Hin. destruct o as [q|]; [|destruct Hin]. destruct Hin as [->|[]]. cbn in Hs.
    assert (Hq : pkind p = k).
    { destruct Hs as [(x & y & Hx & _ & ->) | [(x & Hx & _ & ->) | (y & Hy & _ & ->)]];
        [apply (Ha x Hx) | apply (Ha x Hx) | apply (Hb y Hy)]. }
    unfold is_named in Hnm. rewrite Hq in Hnm. destruct Hk as [-> | ->]; discriminate Hnm. }
  unfold flatten in Hp. apply in_app_or in Hp. destruct Hp as [Hp|Hp]; [apply in_or_app; left; exact Hp|].
  apply in_app_or in Hp. destruct Hp as [Hp|Hp]; [apply in_or_app; right; apply in_or_app; left; exact Hp|].
  apply in_app_or in Hp. destruct Hp as [Hp|Hp]; [exfalso; apply (Hstar _ _ _ VP M4 K3a K3b (or_introl eq_refl) Hp)|].
  apply in_app_or in Hp. destruct Hp as [Hp|Hp]; [apply in_or_app; right; apply in_or_app; right; exact Hp|].
  exfalso. apply (Hstar _ _ _ VK M5 K5a K5b (or_intror eq_refl) Hp).
Qed.

(* C10: for consistently named inputs every named parameter of merge [a; b]
   is concile of the parameters of that name (the left one first) when both
   inputs declare it, else the parameter of the declaring input; up to a legal
   kind restriction *)
Theorem merge2_by_name r p :
  merge [a; b] = Ok r -> In p (params r) -> is_named p = true ->
  match find_param (pname p) (params a), find_param (pname p) (params b) with
  | Some qa, Some qb => restr (concile qa qb) p
  | Some qa, None => restr qa p
  | None, Some qb => restr qb p
  | None, None => False
  end.
Proof.
  intros E Hp Hnm. pose proof (merge2_named_by_name r p E Hp Hnm) as H. unfold by_name in H.
  unfold sa, sb in H. rewrite (sort_flatten_roundtrip a Va), (sort_flatten_roundtrip b Vb) in H.
  destruct (find_param (pname p) (params a)), (find_param (pname p) (params b)); tauto.
Qed.

(* C08_exact_named: the provenance list of a named parameter is exactly the
   union of the inputs' lists for that name *)
Theorem merge2_src_exact r p f :
  merge [a; b] = Ok r -> src_ok a -> src_ok b -> In p (params r) -> is_named p = true ->
  (In f (src_get (srcs r) (pname p)) <->
   In f (src_get (srcs a) (pname p)) \/ In f (src_get (srcs b) (pname p))).
Proof.
  intros E Sa Sb Hp Hnm. split.
  - intros Hf. destruct (merge_truthful _ _ _ _ E Hf) as [s [Hs Hin]].
    destruct Hs as [<-|[<-|[]]]; auto.
  - pose proof (merge2_named_by_name r p E Hp Hnm) as H. unfold by_name in H.
    unfold sa, sb in H. rewrite (sort_flatten_roundtrip a Va), (sort_flatten_roundtrip b Vb), !sort_params_ssrc in H.
    assert (Hnone : forall s, src_ok s -> find_param (pname p) (params s) = None -> src_get (srcs s) (pname p) = []).
    { intros s (_ & K & _) Hf. apply src_get_nomem. rewrite K. apply find_param_none in Hf. exact Hf. }
    destruct (find_param (pname p) (params a)) eqn:Fa, (find_param (pname p) (params b)) eqn:Fb.
    + destruct H as (_ & I1 & I2). intros [Hf|Hf]; [apply I1 | apply I2]; exact Hf.
    + destruct H as (_ & I1). rewrite (Hnone b Sb Fb). intros [Hf|[]]. apply I1. exact Hf.
    + destruct H as (_ & I2). rewrite (Hnone a Sa Fa). intros [[]|Hf]. apply I2. exact Hf.
    + destruct H.
Qed.
End Merge2.

(* ---- the hypotheses are satisfiable on a non-trivial input ---- *)
Definition ex_a : sigT :=
  dsig 100 [mkParam 1 PO None (Some 50) (UPre 50); mkParam 2 PK (Some 7) None UEmpty;
            mkParam 3 KO None None UEmpty; bp 10 VK].
Definition ex_b : sigT :=
  dsig 101 [mkParam 1 PO (Some 5) (Some 51) (UPre 51); mkParam 2 PK (Some 8) None UEmpty;
            bp 9 VP; mkParam 4 KO (Some 9) None UEmpty; bp 10 VK].

Example merge2_by_name_sat :
  valid_sig (params ex_a) = true /\ valid_sig (params ex_b) = true /\
  name_aligned (params ex_a) (params ex_b) = true /\ role_consistent [params ex_a; params ex_b] = true /\
  src_ok ex_a /\ src_ok ex_b /\
  exists r, merge [ex_a; ex_b] = Ok r /\
    map pname (params r) = [1; 2; 3; 4; 10] /\ map pdef (params r) = [None; Some 0; None; Some 9; None] /\
    map pann (params r) = [None; None; None; None; None] /\
    srcs r = [(1, [100; 101]); (2, [100; 101]); (3, [100]); (4, [101]); (10, [101])].
Proof.
  split; [vm_compute; reflexivity|]. split; [vm_compute; reflexivity|].
  split; [vm_compute; reflexivity|]. split; [vm_compute; reflexivity|].
  split; [apply dsig_src_ok; vm_compute; reflexivity|].
  split; [apply dsig_src_ok; vm_compute; reflexivity|].
  eexists. split; [vm_compute; reflexivity|]. repeat split.
Qed.

(* without the consistency hypotheses the contributors are found by position,
   not by name: (a=5, /) merged with (b, /, *, a=1) gives (a, /) = concile a b
   (required), and the second input's own `a` contributes nothing *)
Theorem merge2_by_name_needs_consistency :
  exists a b r p, valid_sig (params a) = true /\ valid_sig (params b) = true /\
    merge [a; b] = Ok r /\ In p (params r) /\ is_named p = true /\
    exists qa qb, find_param (pname p) (params a) = Some qa /\ find_param (pname p) (params b) = Some qb /\
                  ~ restr (concile qa qb) p /\
    src_get (srcs r) (pname p) = [100] /\ src_get (srcs b) (pname p) = [101].
Proof.
  exists (dsig 100 [mkParam 1 PO (Some 5) None UEmpty]), (dsig 101 [bp 2 PO; mkParam 1 KO (Some 1) None UEmpty]).
  eexists. exists (bp 1 PO).
  split; [vm_compute; reflexivity|]. split; [vm_compute; reflexivity|].
  split; [vm_compute; reflexivity|]. split; [left; reflexivity|]. split; [reflexivity|].
  eexists. eexists. split; [vm_compute; reflexivity|]. split; [vm_compute; reflexivity|].
  split; [|split; vm_compute; reflexivity].
  intros [H _]. vm_compute in H. discriminate H.
Qed.

Print Assumptions merger_contrib.
Print Assumptions merge2_contrib.
Print Assumptions merge2_rules.
Print Assumptions merge2_optional.
Print Assumptions merge2_kind.
Print Assumptions merger_by_name.
Print Assumptions merge2_by_name.
Print Assumptions merge2_src_exact.
Print Assumptions merge2_by_name_sat.
Print Assumptions merge2_by_name_needs_consistency.
