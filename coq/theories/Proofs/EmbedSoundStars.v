(* EmbedSoundStars.v -- closed form of the first step of _embed: the inner
   signature merged against a signature that has nothing but (some of) the
   outer's star parameters.  Which inner parameters stay reachable:
     stars = ( *a, **k )  every parameter, unchanged;
     stars = ( *a )       positional ones, all positional-only; keyword-only ones
                          must have defaults and disappear;
     stars = ( **k )      positional-or-keyword ones become keyword-only;
                          positional-only ones must have defaults and disappear;
     stars = ()           everything must have a default and disappears.
   For ALL classified inner signatures (C02). *)
From Sigtools.Model Require Import Base Bind Roles Algebra.
From Sigtools.Proofs Require Import SmallModel Basics MaskLaws MaskExact MergeNeutral MergeIdem
     MergeSoundBase MergeSoundInv.
From Coq Require Import Lia.

(* the part of the merger state the parameters depend on *)
Definition core (st : mstate) :=
  (m_pos st, m_pok st, m_kwo st, m_lunm st, m_runm st).

Lemma core_inv st a b c d e :
  core st = (a, b, c, d, e) ->
  m_pos st = a /\ m_pok st = b /\ m_kwo st = c /\ m_lunm st = d /\ m_runm st = e.
Proof. unfold core. intros H. injection H. intros. repeat split; assumption. Qed.

Lemma core_fold_src l r (s : side) u : forall st,
  core (fold_left (fun a p => add_src1 l r a (pname p) s) u st) = core st.
Proof. induction u as [|p u IH]; intros st; [reflexivity|]. cbn [fold_left]. rewrite IH. reflexivity. Qed.

Section Stars.
Variables (l r : sorted).
Hypothesis Hr1 : posargs r = [].
Hypothesis Hr2 : pokargs r = [].
Hypothesis Hr3 : kwoargs r = [].
Let hva := isSome (varargs r).
Let hvk := isSome (varkwargs r).

Lemma kwo_match_stars lk : forall st,
  core (kwo_match l r lk st) = (m_pos st, m_pok st, m_kwo st, od_update (m_lunm st) lk, m_runm st).
Proof.
  induction lk as [|p lk IH]; intros st; [reflexivity|].
  cbn [kwo_match]. rewrite Hr3. cbn [find_param]. rewrite IH. reflexivity.
Qed.

Lemma r_unmatched_stars : r_unmatched l r = [].
Proof. unfold r_unmatched. rewrite Hr3. reflexivity. Qed.

(* positional-only parameters of the inner signature *)
Lemma unb_pos_all_stars lp : forall st,
  if hva then
    exists st', unb_pos_all l r L lp [] st = Ok (st', []) /\
                core st' = (m_pos st ++ lp, m_pok st, m_kwo st, m_lunm st, m_runm st)
  else if forallb has_def lp then unb_pos_all l r L lp [] st = Ok (st, [])
  else unb_pos_all l r L lp [] st = Err ValueErr.
Proof.
  unfold hva. induction lp as [|p lp IH]; intros st.
  - destruct (isSome (varargs r)); [|reflexivity]. exists st. split; [reflexivity|].
    unfold core. rewrite app_nil_r. reflexivity.
  - cbn [unb_pos_all unb_pos1 other forallb]. destruct (isSome (varargs r)) eqn:Eva.
    + cbn [bind fst snd].
      match goal with |- context [unb_pos_all l r L lp [] ?s] => destruct (IH s) as [st' [E Hs]] end.
      exists st'. split; [exact E|]. rewrite Hs. unfold core. cbn. rewrite <- app_assoc. reflexivity.
    + destruct (has_def p) eqn:Ed; cbn [negb andb bind fst snd]; [|reflexivity].
      specialize (IH st). destruct (forallb has_def lp); rewrite IH; reflexivity.
Qed.

Lemma zip_pos_stars lp il st :
  zip_pos l r lp [] il [] st =
  bind (unb_pos_all l r L lp [] st) (fun sc => Ok (fst sc, il, snd sc)).
Proof. destruct lp as [|a lp]; [reflexivity|]. reflexivity. Qed.

(* positional-or-keyword parameters of the inner signature *)
Lemma unb_pok_all_stars il : forall st, m_runm st = [] -> m_pok st = [] \/ hva && hvk = true ->
  match hva, hvk with
  | true, true =>
      exists st', unb_pok_all l r L il st = Ok st' /\
                  core st' = (m_pos st, m_pok st ++ il, m_kwo st, m_lunm st, m_runm st)
  | true, false =>
      exists st', unb_pok_all l r L il st = Ok st' /\
                  core st' = (m_pos st ++ map (set_kind PO) il, m_pok st, m_kwo st, m_lunm st, m_runm st)
  | false, true =>
      exists st', unb_pok_all l r L il st = Ok st' /\
                  core st' = (m_pos st, m_pok st, od_update (m_kwo st) (map (set_kind KO) il),
                              m_lunm st, m_runm st)
  | false, false =>
      if forallb has_def il then unb_pok_all l r L il st = Ok st
      else unb_pok_all l r L il st = Err ValueErr
  end.
Proof.
  unfold hva, hvk. induction il as [|p il IH]; intros st Hru Hpk.
  - destruct (isSome (varargs r)), (isSome (varkwargs r)); try reflexivity;
      (exists st; split; [reflexivity|]; unfold core; cbn [map od_update fold_left]; rewrite ?app_nil_r; reflexivity).
  - cbn [unb_pok_all]. unfold unb_pok1. cbn [other unm]. rewrite Hru. cbn [find_param].
    destruct (isSome (varargs r)) eqn:Eva, (isSome (varkwargs r)) eqn:Evk; cbn [andb bind forallb].
    + match goal with |- context [unb_pok_all l r L il ?s] =>
        destruct (IH s) as [st' [E Hs]]; [exact Hru|right; reflexivity|] end.
      exists st'. split; [exact E|]. rewrite Hs. unfold core. cbn. rewrite <- app_assoc, Hru. reflexivity.
    + assert (Hp0 : m_pok st = []) by (destruct Hpk as [H|H]; [exact H|discriminate]).
      match goal with |- context [unb_pok_all l r L il ?s] =>
        destruct (IH s) as [st' [E Hs]]; [exact Hru|left; reflexivity|] end.
      exists st'. split; [exact E|]. rewrite Hs. unfold core. cbn. rewrite Hp0, Hru. cbn [map app].
      rewrite <- app_assoc. reflexivity.
    + match goal with |- context [unb_pok_all l r L il ?s] =>
        destruct (IH s) as [st' [E Hs]]; [exact Hru|exact Hpk|] end.
      exists st'. split; [exact E|]. rewrite Hs. unfold core. cbn. rewrite Hru. reflexivity.
    + destruct (has_def p) eqn:Ed; cbn [negb andb bind]; [|reflexivity].
      specialize (IH st Hru Hpk). destruct (forallb has_def il); rewrite IH; reflexivity.
Qed.

Lemma zip_pok_stars il st : zip_pok l r il [] st = unb_pok_all l r L il st.
Proof. destruct il; reflexivity. Qed.

(* keyword-only parameters of the inner signature *)
Lemma unmatched_L_stars st :
  match m_lunm st with
  | [] => unmatched_kwo l r L st = Ok st
  | _ =>
      if hvk then
        exists st', unmatched_kwo l r L st = Ok st' /\
                    core st' = (m_pos st, m_pok st, od_update (m_kwo st) (m_lunm st), m_lunm st, m_runm st)
      else if forallb has_def (m_lunm st) then unmatched_kwo l r L st = Ok st
      else unmatched_kwo l r L st = Err ValueErr
  end.
Proof.
  unfold hvk, unmatched_kwo. cbn [unm other]. destruct (m_lunm st) as [|q u] eqn:Eu; [reflexivity|].
  destruct (isSome (varkwargs r)).
  - eexists. split; [reflexivity|].
    change (core (excl_vk ?x R)) with (core x). rewrite core_fold_src. unfold core. cbn. rewrite Eu. reflexivity.
  - destruct (forallb has_def (q :: u)); reflexivity.
Qed.

Lemma unmatched_R_stars st : m_runm st = [] -> unmatched_kwo l r R st = Ok st.
Proof. intros H. unfold unmatched_kwo. cbn [unm]. rewrite H. reflexivity. Qed.

End Stars.

(* ------------------------------------------------------------------ *)
(* the whole merger against stars                                       *)

Definition starsig (sa sk : option param) (sr : srcmap) (dr : depths) : sorted :=
  mkSorted [] [] sa [] sk sr dr.

(* the named buckets of the result, as lists *)
Definition reach_pos (i : sorted) (hva hvk : bool) : list param :=
  if hva then posargs i ++ (if hvk then [] else map (set_kind PO) (pokargs i)) else [].
Definition reach_pok (i : sorted) (hva hvk : bool) : list param :=
  if hva && hvk then pokargs i else [].
Definition reach_kwo (i : sorted) (hva hvk : bool) : list param :=
  if hvk then (if hva then [] else map (set_kind KO) (pokargs i)) ++ kwoargs i else [].
(* what must have a default for the merge to succeed *)
Definition reach_ok (i : sorted) (hva hvk : bool) : bool :=
  (hva || forallb has_def (posargs i)) && (hva || hvk || forallb has_def (pokargs i))
  && (hvk || forallb has_def (kwoargs i)).

Lemma od_update_nil_fresh lst : NoDup (names_of lst) -> od_update [] lst = lst.
Proof. intros H. rewrite od_update_fresh; [reflexivity|exact H|intros x _ []]. Qed.

(* the end of _merge: kind normalisation and the two star parameters *)
Definition mtail (l r : sorted) (st6 : mstate) : res sorted :=
  let st7 := normalise_pok st6 in
  let '(va, st8) := add_star l r (m_xva_l st7) (m_xva_r st7) (varargs l) (varargs r) st7 in
  let '(vk, st9) := add_star l r (m_xvk_l st8) (m_xvk_r st8) (varkwargs l) (varkwargs r) st8 in
  Ok (mkSorted (m_pos st9) (m_pok st9) va (m_kwo st9) vk (m_src st9) (merge_depths (sdep l) (sdep r))).

Lemma merger_unfold l r :
  merger l r =
  bind (zip_pos l r (posargs l) (posargs r) (pokargs l) (pokargs r)
          (set_unm (kwo_match l r (kwoargs l) (mkM [] [] [] [] false false false false [] [])) R (r_unmatched l r)))
       (fun z => let '(st3, il, ir) := z in
          bind (zip_pok l r il ir st3) (fun st4 =>
          bind (unmatched_kwo l r L st4) (fun st5 =>
          bind (unmatched_kwo l r R st5) (fun st6 => mtail l r st6)))).
Proof. reflexivity. Qed.

Definition star_kinds (va vk : option param) : Prop :=
  (forall p, va = Some p -> pkind p = VP) /\ (forall p, vk = Some p -> pkind p = VK).

Lemma mtail_spec l r st :
  Forall (fun p => pkind p = PK) (m_pok st) ->
  star_kinds (varargs l) (varkwargs l) -> star_kinds (varargs r) (varkwargs r) ->
  exists res, mtail l r st = Ok res /\
    posargs res = m_pos st /\ pokargs res = m_pok st /\ kwoargs res = m_kwo st /\
    isSome (varargs res) = isSome (varargs l) && isSome (varargs r) /\
    isSome (varkwargs res) = isSome (varkwargs l) && isSome (varkwargs r) /\
    star_kinds (varargs res) (varkwargs res).
Proof.
  intros Hpk [Kl1 Kl2] [Kr1 Kr2]. unfold mtail.
  assert (N7 : m_pos (normalise_pok st) = m_pos st /\ m_pok (normalise_pok st) = m_pok st /\
               m_kwo (normalise_pok st) = m_kwo st).
  { unfold normalise_pok. rewrite (split_po_prefix_pk _ Hpk). cbn. rewrite app_nil_r. auto. }
  destruct N7 as (N1 & N2 & N3). set (st7 := normalise_pok st) in *.
  pose proof (add_star_fields l r (m_xva_l st7) (m_xva_r st7) (varargs l) (varargs r) st7) as A8.
  destruct (add_star l r (m_xva_l st7) (m_xva_r st7) (varargs l) (varargs r) st7) as [va st8].
  cbn [fst snd] in A8. destruct A8 as (A1 & A2 & A3 & _ & A5 & A6).
  pose proof (add_star_fields l r (m_xvk_l st8) (m_xvk_r st8) (varkwargs l) (varkwargs r) st8) as A9.
  destruct (add_star l r (m_xvk_l st8) (m_xvk_r st8) (varkwargs l) (varkwargs r) st8) as [vk st9].
  cbn [fst snd] in A9. destruct A9 as (G1 & G2 & G3 & _ & G5 & G6).
  eexists. split; [reflexivity|]. cbn [posargs pokargs kwoargs varargs varkwargs].
  rewrite G1, G2, G3, A1, A2, A3, N1, N2, N3. repeat split; auto.
  - intros p Hp. destruct (A6 p Hp) as [[a [Ha ->]]|[b [Hb ->]]]; auto.
  - intros p Hp. destruct (G6 p Hp) as [[a [Ha ->]]|[b [Hb ->]]]; auto.
Qed.

Theorem merger_stars_closed i sa sk sr dr :
  Forall (fun p => pkind p = PK) (pokargs i) ->
  NoDup (names_of (pokargs i ++ kwoargs i)) ->
  star_kinds (varargs i) (varkwargs i) -> star_kinds sa sk ->
  match merger i (starsig sa sk sr dr) with
  | Ok res =>
      reach_ok i (isSome sa) (isSome sk) = true /\
      posargs res = reach_pos i (isSome sa) (isSome sk) /\
      pokargs res = reach_pok i (isSome sa) (isSome sk) /\
      kwoargs res = reach_kwo i (isSome sa) (isSome sk) /\
      isSome (varargs res) = isSome (varargs i) && isSome sa /\
      isSome (varkwargs res) = isSome (varkwargs i) && isSome sk /\
      star_kinds (varargs res) (varkwargs res)
  | Err e => e = ValueErr /\ reach_ok i (isSome sa) (isSome sk) = false
  end.
Proof.
  intros Hpk Hnd Ki Ks. set (r := starsig sa sk sr dr).
  assert (Hr3 : kwoargs r = []) by reflexivity.
  assert (Nko : NoDup (names_of (kwoargs i))) by (rewrite names_app in Hnd; eapply nodup_app_r; exact Hnd).
  assert (Npk : NoDup (names_of (pokargs i))) by (rewrite names_app in Hnd; eapply nodup_app_l; exact Hnd).
  rewrite merger_unfold.
  set (st0 := mkM [] [] [] [] false false false false [] []).
  pose proof (kwo_match_stars i r Hr3 (kwoargs i) st0) as H1.
  set (st1 := kwo_match i r (kwoargs i) st0) in *.
  cbn [st0 m_pos m_pok m_kwo m_lunm m_runm] in H1. rewrite (od_update_nil_fresh _ Nko) in H1.
  rewrite (r_unmatched_stars i r Hr3).
  set (st2 := set_unm st1 R []).
  assert (H2 : core st2 = ([], [], [], kwoargs i, [])).
  { apply core_inv in H1. destruct H1 as (A1 & A2 & A3 & A4 & A5). unfold core, st2. cbn. rewrite A1, A2, A3, A4. reflexivity. }
  apply core_inv in H2. destruct H2 as (B1 & B2 & B3 & B4 & B5).
  change (posargs r) with (@nil param). change (pokargs r) with (@nil param).
  rewrite (zip_pos_stars i r).
  pose proof (unb_pos_all_stars i r (posargs i) st2) as HP. cbv zeta in HP.
  unfold reach_ok, reach_pos, reach_pok, reach_kwo.
  assert (Kr : star_kinds (varargs r) (varkwargs r)) by exact Ks.
  (* the final step, given the buckets *)
  assert (FIN : forall st, Forall (fun p => pkind p = PK) (m_pok st) ->
            exists res, mtail i r st = Ok res /\
              posargs res = m_pos st /\ pokargs res = m_pok st /\ kwoargs res = m_kwo st /\
              isSome (varargs res) = isSome (varargs i) && isSome sa /\
              isSome (varkwargs res) = isSome (varkwargs i) && isSome sk /\
              star_kinds (varargs res) (varkwargs res)).
  { intros st Hk. exact (mtail_spec i r st Hk Ki Kr). }
  destruct sa as [a|]; cbn [isSome varargs r starsig] in HP.
  - (* the stars have star-args: positional-only parameters are kept *)
    destruct HP as [st3 [E3 H3]]. rewrite E3. cbn [bind fst snd]. rewrite (zip_pok_stars i r).
    rewrite B1, B2, B3, B4, B5 in H3. cbn [app] in H3. apply core_inv in H3. destruct H3 as (C1 & C2 & C3 & C4 & C5).
    pose proof (unb_pok_all_stars i r (pokargs i) st3 C5 (or_introl C2)) as HK. cbv zeta in HK.
    pose proof (fun st => unmatched_L_stars i r st) as HUg. cbv zeta in HUg.
    destruct sk as [k|]; cbn [isSome varargs varkwargs r starsig orb andb app] in HK, HUg |- *.
    + (* both stars *)
      destruct HK as [st4 [E4 H4]]. rewrite E4. cbn [bind].
      rewrite C1, C2, C3, C4, C5 in H4. cbn [app] in H4. apply core_inv in H4. destruct H4 as (D1 & D2 & D3 & D4 & D5).
      pose proof (HUg st4) as HU. rewrite D4 in HU.
      assert (HU' : exists st5, unmatched_kwo i r L st4 = Ok st5 /\
                                core st5 = (posargs i, pokargs i, kwoargs i, kwoargs i, [])).
      { destruct (kwoargs i) as [|q u] eqn:Ek.
        - exists st4. split; [exact HU|]. unfold core. rewrite D1, D2, D3, D4, D5. reflexivity.
        - destruct HU as [st5 [E5 H5]]. exists st5. split; [exact E5|]. rewrite H5, D1, D2, D3, D5.
          rewrite (od_update_nil_fresh _ Nko). reflexivity. }
      destruct HU' as [st5 [E5 H5]]. rewrite E5. cbn [bind].
      apply core_inv in H5. destruct H5 as (F1 & F2 & F3 & F4 & F5).
      rewrite (unmatched_R_stars i r st5 F5). cbn [bind].
      destruct (FIN st5) as [res (ER & R1 & R2 & R3 & R4 & R5 & R6)]; [rewrite F2; exact Hpk|].
      rewrite ER. rewrite R1, R2, R3, F1, F2, F3, app_nil_r. cbn [isSome] in R4, R5. auto 10.
    + (* star-args only *)
      destruct HK as [st4 [E4 H4]]. rewrite E4. cbn [bind].
      rewrite C1, C2, C3, C4, C5 in H4. apply core_inv in H4. destruct H4 as (D1 & D2 & D3 & D4 & D5).
      pose proof (HUg st4) as HU. rewrite D4 in HU.
      assert (HU' : if forallb has_def (kwoargs i) then unmatched_kwo i r L st4 = Ok st4
                    else unmatched_kwo i r L st4 = Err ValueErr).
      { destruct (kwoargs i) as [|q u] eqn:Ek; [exact HU|]. exact HU. }
      destruct (forallb has_def (kwoargs i)) eqn:Edk.
      * rewrite HU'. cbn [bind]. rewrite (unmatched_R_stars i r st4 D5). cbn [bind].
        destruct (FIN st4) as [res (ER & R1 & R2 & R3 & R4 & R5 & R6)]; [rewrite D2; constructor|].
        rewrite ER. rewrite R1, R2, R3, D1, D2, D3. cbn [isSome] in R4, R5. auto 10.
      * rewrite HU'. cbn [bind]. auto.
  - (* no star-args: positional-only parameters need defaults and are dropped *)
    cbn [orb andb]. destruct (forallb has_def (posargs i)) eqn:Edp.
    2:{ rewrite HP. cbn [bind]. auto. }
    rewrite HP. cbn [bind fst snd]. rewrite (zip_pok_stars i r).
    pose proof (unb_pok_all_stars i r (pokargs i) st2 B5 (or_introl B2)) as HK. cbv zeta in HK.
    pose proof (fun st => unmatched_L_stars i r st) as HUg. cbv zeta in HUg.
    destruct sk as [k|]; cbn [isSome varargs varkwargs r starsig orb andb app] in HK, HUg |- *.
    + (* star-kwargs only *)
      destruct HK as [st4 [E4 H4]]. rewrite E4. cbn [bind].
      rewrite B1, B2, B3, B4, B5 in H4. apply core_inv in H4. destruct H4 as (D1 & D2 & D3 & D4 & D5).
      assert (Nkk : NoDup (names_of (map (set_kind KO) (pokargs i)))).
      { unfold names_of. rewrite map_map. exact Npk. }
      rewrite (od_update_nil_fresh _ Nkk) in D3.
      pose proof (HUg st4) as HU. rewrite D4 in HU.
      assert (HU' : exists st5, unmatched_kwo i r L st4 = Ok st5 /\
                                core st5 = ([], [], map (set_kind KO) (pokargs i) ++ kwoargs i, kwoargs i, [])).
      { destruct (kwoargs i) as [|q u] eqn:Ek.
        - exists st4. split; [exact HU|]. unfold core. rewrite D1, D2, D3, D4, D5, app_nil_r. reflexivity.
        - destruct HU as [st5 [E5 H5]]. exists st5. split; [exact E5|]. rewrite H5, D1, D2, D3, D5.
          rewrite od_update_fresh; [reflexivity|exact Nko|].
          intros x Hx Hc. unfold names_of in Hc. rewrite map_map in Hc.
          rewrite names_app in Hnd. exact (nodup_app_disjoint _ _ x Hnd Hc Hx). }
      destruct HU' as [st5 [E5 H5]]. rewrite E5. cbn [bind].
      apply core_inv in H5. destruct H5 as (F1 & F2 & F3 & F4 & F5).
      rewrite (unmatched_R_stars i r st5 F5). cbn [bind].
      destruct (FIN st5) as [res (ER & R1 & R2 & R3 & R4 & R5 & R6)]; [rewrite F2; constructor|].
      rewrite ER. rewrite R1, R2, R3, F1, F2, F3. cbn [isSome] in R4, R5. auto 10.
    + (* no star at all *)
      destruct (forallb has_def (pokargs i)) eqn:Edq.
      2:{ rewrite HK. cbn [bind]. auto. }
      rewrite HK. cbn [bind].
      pose proof (HUg st2) as HU. rewrite B4 in HU.
      assert (HU' : if forallb has_def (kwoargs i) then unmatched_kwo i r L st2 = Ok st2
                    else unmatched_kwo i r L st2 = Err ValueErr).
      { destruct (kwoargs i) as [|q u] eqn:Ek; [exact HU|]. exact HU. }
      destruct (forallb has_def (kwoargs i)) eqn:Edk.
      * rewrite HU'. cbn [bind]. rewrite (unmatched_R_stars i r st2 B5). cbn [bind].
        destruct (FIN st2) as [res (ER & R1 & R2 & R3 & R4 & R5 & R6)]; [rewrite B2; constructor|].
        rewrite ER. rewrite R1, R2, R3, B1, B2, B3. cbn [isSome] in R4, R5. auto 10.
      * rewrite HU'. cbn [bind]. auto.
Qed.

Print Assumptions merger_stars_closed.
