(* Proofs/InvarianceNestedDiscover.v -- C06 for the NESTED grammar [nstmt] of Model/ExecNested.v at
   the level of the walker's full call RECORDS and of the DISCOVERED SIGNATURE.

   1. [nested_main_walk]: the walk of the wrapper's own scope of a nested program is the walk of
      a list of trees WITHOUT nested scope ([mains]) in the single-frame state, plus the
      bookkeeping of empty frames and deferred calls (an equation, for every program).
   2. [drain_records]: a deferred call is recorded as a function [drec] of the FINAL names and
      taints of the wrapper's own scope and of the call alone -- not of the frame it was met in,
      of the other frames, of the pending list or of the calls recorded so far.
   3. [walker_records_nested]: the walker's output is  <main-scope records> ++ map drec <nested calls>.
   4. [walker_records_nested_unrelated] / [discover_nested_unrelated]: inserting an unrelated
      statement (a nested def whose body only calls unrelated functions, h(), a lambda called in
      place around an unrelated call, f(<constant>), f( *args )) anywhere in the block inserts records
      with all-false flags (main-scope ones, then deferred ones) and leaves every other record
      literally unchanged; the discovered signature is literally the same, for any way of
      resolving a record to a callee signature.
   5. moving a forwarding call into a lambda called in place does NOT preserve the discovered
      signature, even when the stars are untouched ([move_to_lambda_discover_refuted]): the
      callee name is resolved at the END of the wrapper's own scope. *)
From Sigtools.Model Require Import Base Bind Roles Algebra Visitor Discover Exec ExecNested.
From Sigtools.Proofs Require Import VisitorTotal Exec ExecNested Discover DiscoverSoundWalk DiscoverSound
     WalkRel InvarianceNested InvarianceDiscover.
From Coq Require Import Lia.

(* discovery ignores any number of records that forward nothing *)
Lemma discover_insert_list own plain have_ast cs : forall a b,
  Forall (fun c => relevant c = false) cs ->
  discover own plain have_ast (a ++ cs ++ b) = discover own plain have_ast (a ++ b).
Proof.
  induction cs as [|c cs IH]; intros a b H; [reflexivity|]. inversion H as [|? ? Hc Hcs]; subst.
  cbn [app]. rewrite (discover_insert own plain have_ast a c (cs ++ b) Hc). exact (IH a b Hcs).
Qed.

Definition discovered_n (va vk : N) (res : callrec -> resolved) (own plain : sigT) (have_ast : bool)
           (l : list nstmt) : option sigT :=
  match visit_function [] [] (Some va) (Some vk) (compile_nblock va vk l) with
  | Some recs => Some (discover own plain have_ast (map (fun c => info_of c (res c)) recs))
  | None => None
  end.

(* statements irrelevant for discovery (y = args is NOT among them, see discover_alias_refuted) *)
Definition unrelated_d (x : nstmt) : bool :=
  match x with
  | NLeaf s => neutral s
  | NDef _ body => forallb is_other body
  | NCallH _ => true
  | NLam c => is_other c
  end.

Section NWalk.
Variables va vk : N.
Hypothesis Hne : va <> vk.

Notation mst := (mst va vk).
Notation nst := (nst va vk).
Notation nstc := (nstc va vk).
Notation Good := (Good va vk).

(* ---- the wrapper's own scope as trees without nested scope ---- *)
Definition look (nm : list (N * marker)) (id : N) : marker :=
  match assoc id nm with Some m => m | None => MName id end.

Definition lamcall : node := NOpaque [NCall const [] []].
Definition lamrec : callrec := mkCallRec MUnknown [] [] None None false false false false.

Definition main_nodes (x : nstmt) : list node :=
  match x with
  | NLeaf s => [compile va vk s]
  | NDef _ _ => []
  | NCallH h => [compile_n va vk (NCallH h)]
  | NLam _ => [lamcall]
  end.
Definition mains (l : list nstmt) : list node := flat_map main_nodes l.

Lemma mains_app a b : mains (a ++ b) = mains a ++ mains b.
Proof. apply flat_map_app. Qed.

Lemma mains_simple l : nblock_ok va vk l = true -> simple_list (mains l) = true.
Proof.
  induction l as [|x l IH]; intros H; [reflexivity|]. cbn [nblock_ok forallb] in H.
  apply andb_true_iff in H as [Hx Hl]. unfold mains. cbn [flat_map]. fold (mains l).
  rewrite simple_list_app, (IH Hl), andb_true_r.
  destruct x as [s|h body|h|c]; cbn [main_nodes]; try reflexivity.
  rewrite simple_list_cons, (compile_simple va vk s (names_ok_flat va vk s Hx)). reflexivity.
Qed.

Lemma frame_simple X T n nm im calls tn nx : simple n = true ->
  walk false n (nst X T nm im calls tn nx) = ext X T (walk false n (mst nm im calls tn nx false)).
Proof.
  intros Hs. rewrite nst_ext. destruct (walk_frame X T n Hs) as [Hc _].
  destruct (Hc _ (Sh_mst va vk nm im calls tn nx false)) as [H1 _]. destruct (H1 false) as [A _]. exact A.
Qed.

Lemma callh_mst h nm im calls tn nx :
  W va vk nm ->
  exists c, walk false (compile_n va vk (NCallH h)) (mst nm im calls tn nx false)
            = mst nm im (calls ++ [c]) tn nx false /\ fl c = dflags.
Proof.
  intros HW. eexists. split.
  - cbn [compile_n]. rewrite walk_opaque_eq. cbn [walk_list]. rewrite walk_call_eq.
    cbn [Exec.mst v_rev v_frames v_cur get_frame nth f_parent is_some]. rewrite Bool.andb_false_r.
    fold (mst nm im calls tn nx false).
    unfold res_with. cbn [resolve_na]. unfold process_call.
    rewrite (ns_get_not_attr va vk nm im calls tn nx false h HW). reflexivity.
  - reflexivity.
Qed.

Lemma lamcall_mst nm im calls tn nx :
  walk false lamcall (mst nm im calls tn nx false) = mst nm im (calls ++ [lamrec]) tn nx false.
Proof. reflexivity. Qed.

Lemma lam_step_explicit c X T nm im calls tn nx :
  walk false (compile_n va vk (NLam c)) (nst X T nm im calls tn nx)
  = nst (X ++ [ef]) (T ++ [(ncall_node va vk c, S (length X))]) nm im (calls ++ [lamrec]) tn nx.
Proof.
  cbn [compile_n]. rewrite walk_opaque_eq. cbn [walk_list]. rewrite walk_call_eq.
  cbn [ExecNested.nst ExecNested.nstc v_rev v_frames v_cur get_frame nth f_parent is_some]. rewrite Bool.andb_false_r.
  fold (nstc X T 0 nm im calls tn nx false). fold (nst X T nm im calls tn nx).
  unfold res_with. rewrite enter_func. cbn [walk_list]. rewrite defer_call. cbv zeta.
  cbn [ExecNested.nstc v_frames v_cur]. rewrite get_new_frame. cbn [ef empty_frame f_parent set_cur].
  unfold process_call. cbn. reflexivity.
Qed.

(* 1. the wrapper's own scope of a nested program *)
Lemma nested_main_walk l : forall X T nm im calls tn nx k,
  Good nm im tn k -> nblock_ok va vk l = true ->
  exists nm' im' tn' cs,
    walk_list (mains l) (mst nm im calls tn nx false) = mst nm' im' (calls ++ cs) tn' nx false /\
    walk_list (compile_nblock va vk l) (nst X T nm im calls tn nx)
    = nst (X ++ repeat ef (nfr l)) (T ++ map (tnode va vk) (tod l (length X))) nm' im' (calls ++ cs) tn' nx /\
    Good nm' im' tn' (fst (absint_n l k)).
Proof.
  induction l as [|x l IH]; intros X T nm im calls tn nx k G Hok.
  - exists nm, im, tn, []. cbn. rewrite !app_nil_r. auto.
  - cbn [nblock_ok forallb] in Hok. apply andb_true_iff in Hok as [Hx Hl].
    cbn [compile_nblock map walk_list]. fold (compile_nblock va vk l).
    unfold mains. cbn [flat_map]. fold (mains l).
    destruct x as [s|h body|h|c]; cbn [nfr tod absint_n main_nodes app walk_list].
    + destruct (step_all va vk Hne s nm im calls tn nx false k G Hx) as (nm1 & im1 & tn1 & cs1 & E1 & G1 & _).
      cbn [compile_n].
      rewrite (frame_simple X T _ nm im calls tn nx (compile_simple va vk s (names_ok_flat va vk s Hx))), E1.
      rewrite <- nst_ext.
      destruct (IH X T nm1 im1 (calls ++ cs1) tn1 nx _ G1 Hl) as (nm2 & im2 & tn2 & cs2 & E2 & E3 & G2).
      exists nm2, im2, tn2, (cs1 ++ cs2). rewrite E2, E3, app_assoc. split; [reflexivity|]. split; [reflexivity|].
      destruct (absint s k) as [k1 f1]. cbn [fst snd] in *. destruct (absint_n l k1) as [k2 f2]. exact G2.
    + rewrite def_step.
      destruct (IH (X ++ [ef]) (T ++ map (fun c => (ncall_node va vk c, S (length X))) body) nm im calls tn nx k G Hl)
        as (nm2 & im2 & tn2 & cs2 & E2 & E3 & G2).
      exists nm2, im2, tn2, cs2. rewrite E2, E3. split; [reflexivity|]. split; [|exact G2].
      rewrite app_length. cbn [length]. rewrite Nat.add_1_r.
      rewrite <- !app_assoc. cbn [app repeat]. rewrite map_app, map_map. reflexivity.
    + pose proof G as (HW & _).
      destruct (callh_mst h nm im calls tn nx HW) as [c [E1 _]].
      rewrite (frame_simple X T (compile_n va vk (NCallH h)) nm im calls tn nx eq_refl), E1. rewrite <- nst_ext.
      destruct (IH X T nm im (calls ++ [c]) tn nx k G Hl) as (nm2 & im2 & tn2 & cs2 & E2 & E3 & G2).
      exists nm2, im2, tn2, (c :: cs2). rewrite E2, E3, <- app_assoc. split; [reflexivity|]. split; [reflexivity|].
      destruct (absint_n l k) as [k2 f2]. exact G2.
    + rewrite lam_step_explicit, lamcall_mst.
      destruct (IH (X ++ [ef]) (T ++ [(ncall_node va vk c, S (length X))]) nm im (calls ++ [lamrec]) tn nx k G Hl)
        as (nm2 & im2 & tn2 & cs2 & E2 & E3 & G2).
      exists nm2, im2, tn2, (lamrec :: cs2). rewrite E2, E3. split; [rewrite <- app_assoc; reflexivity|]. split.
      * rewrite app_length. cbn [length]. rewrite Nat.add_1_r.
        rewrite <- !app_assoc. cbn [app repeat map tnode fst snd]. reflexivity.
      * destruct (absint_n l k) as [k2 f2]. exact G2.
Qed.

(* ---- 2. the deferred calls ---- *)
Definition gu (tn : list nat) (m : marker) : marker :=
  match m with MArg u _ => if existsb (Nat.eqb u) tn then MUnknown else m | _ => m end.

(* the record of a nested call, from the final names / taints of the wrapper's own scope *)
Definition drec (nm : list (N * marker)) (tn : list nat) (c : ncall) : callrec :=
  match c with
  | NCFwd cal n kw pa pk =>
      let mva := if pa then Some (gu tn (look nm va)) else None in
      let mvk := if pk then Some (gu tn (look nm vk)) else None in
      mkCallRec (look nm cal) (repeat MUnknown n ++ []) (map (fun k => (k, MUnknown)) kw ++ []) mva mvk
                (fst (has_hide mva (Some (MArg 0 va)))) (fst (has_hide mvk (Some (MArg 1 vk))))
                (snd (has_hide mva (Some (MArg 0 va)))) (snd (has_hide mvk (Some (MArg 1 vk))))
  | NCOther f => mkCallRec (look nm f) [MUnknown] [] None None false false false false
  end.

Lemma drec_other nm tn c : is_other c = true -> fl (drec nm tn c) = dflags.
Proof. destruct c; [discriminate|reflexivity]. Qed.

Lemma look_nonattr nm id : W va vk nm -> is_attr (look nm id) = false.
Proof. exact (W_nonattr va vk nm id). Qed.

Lemma deferred_call_record X T idx nm im calls tn nx c :
  get_frame (mkFrame None nm [] im :: X) idx = ef -> W va vk nm ->
  walk true (ncall_node va vk c) (nstc X T idx nm im calls tn nx true)
  = nstc X T idx nm im (calls ++ [drec nm tn c]) tn nx true.
Proof.
  intros Hf HW.
  set (st := nstc X T idx nm im calls tn nx true).
  assert (Hget : forall id, ns_get st id = look nm id)
    by (intros id; apply ns_get_nested; assumption).
  destruct c as [c n kw pa pk|f]; cbn [ncall_node drec]; rewrite walk_call_eq; cbn [negb andb];
    unfold res_with; cbn [resolve_na]; unfold process_call; fold st; rewrite Hget;
    rewrite (look_nonattr nm _ HW).
  - assert (EA : forall s, args_loop (if pa then [NStarred (NName va Load)] else []) s = ([], s))
      by (intros s; destruct pa; reflexivity).
    assert (EK : forall s, kws_loop (if pk then [NKeyword None (NName vk Load)] else []) s = ([], s))
      by (intros s; destruct pk; reflexivity).
    assert (SA1 : star_one (if pa then [NStarred (NName va Load)] else []) 0 st =
                  (if pa then Some (gu tn (look nm va)) else None, st)).
    { destruct pa; [|reflexivity]. cbn [star_one starred_values is_empty]. unfold res_with. cbn [resolve_na fst snd].
      rewrite Hget. reflexivity. }
    assert (SK1 : dstar_one (if pk then [NKeyword None (NName vk Load)] else []) st =
                  (if pk then Some (gu tn (look nm vk)) else None, st)).
    { destruct pk; [|reflexivity]. cbn [dstar_one dstar_values is_empty]. unfold res_with. cbn [resolve_na fst snd].
      rewrite Hget. reflexivity. }
    rewrite args_loop_consts, EA. cbv beta iota. cbn [fst snd].
    rewrite kws_loop_consts, EK. cbv beta iota. cbn [fst snd].
    rewrite star_one_consts, SA1. cbv beta iota.
    rewrite dstar_one_consts, SK1. cbv beta iota.
    change (v_varargs st) with (Some (MArg 0 va)). change (v_varkwargs st) with (Some (MArg 1 vk)).
    destruct (has_hide (if pa then Some (gu tn (look nm va)) else None) (Some (MArg 0 va))) as [uva ha].
    destruct (has_hide (if pk then Some (gu tn (look nm vk)) else None) (Some (MArg 1 vk))) as [uvk hk].
    reflexivity.
  - reflexivity.
Qed.

Lemma drain_records X nm im tn nx : forall TL calls cur fuel,
  W va vk nm ->
  (forall p, In p TL -> get_frame (mkFrame None nm [] im :: X) (snd p) = ef) ->
  (length TL <= fuel)%nat ->
  exists cur', drain fuel (nstc X (map (tnode va vk) TL) cur nm im calls tn nx true)
               = Some (nstc X [] cur' nm im (calls ++ map (drec nm tn) (map fst TL)) tn nx true).
Proof.
  induction TL as [|[c idx] TL IH]; intros calls cur fuel HW Hf Hl.
  - exists cur. cbn [map]. rewrite app_nil_r. destruct fuel; reflexivity.
  - destruct fuel as [|fuel]; [cbn in Hl; lia|].
    assert (E0 : drain (S fuel) (nstc X (map (tnode va vk) ((c, idx) :: TL)) cur nm im calls tn nx true)
                 = drain fuel (walk true (ncall_node va vk c) (nstc X (map (tnode va vk) TL) idx nm im calls tn nx true)))
      by reflexivity.
    rewrite E0, (deferred_call_record X _ idx nm im calls tn nx c (Hf (c, idx) (or_introl eq_refl)) HW).
    assert (Hl' : (length TL <= fuel)%nat) by (cbn in Hl; lia).
    destruct (IH (calls ++ [drec nm tn c]) idx fuel HW (fun p Hp => Hf p (or_intror Hp)) Hl') as (cur' & E2).
    exists cur'. rewrite E2, <- app_assoc. reflexivity.
Qed.

(* ---- 3. the walker on a whole nested program ---- *)
Theorem walker_records_nested l :
  nblock_ok va vk l = true ->
  exists nmF imF tnF csF,
    walk_list (mains l) (st0 va vk) = mst nmF imF csF tnF 2%nat false /\
    Good nmF imF tnF (fst (absint_n l (true, true))) /\
    visit_function [] [] (Some va) (Some vk) (compile_nblock va vk l)
    = Some (csF ++ map (drec nmF tnF) (deferred l)).
Proof.
  intros Hok.
  destruct (nested_main_walk l [] [] _ _ [] _ 2%nat _ (G0 va vk Hne) Hok) as (nm' & im' & tn' & cs & E1 & E2 & G').
  cbn [app] in E1, E2.
  exists nm', im', tn', cs. split; [exact E1|]. split; [exact G'|].
  unfold visit_function.
  rewrite (E0 va vk Hne), fold_walk_list, fold_count. cbn [Nat.add].
  change (st0 va vk) with (nst [] [] (nm0 va vk) [va] [] [] 2%nat).
  pose proof (walk_list_keeps (compile_nblock va vk l) (Forall_P _)
                (nst [] [] (nm0 va vk) [va] [] [] 2%nat)) as [_ [_ Hlen]].
  rewrite E2 in *. cbn [app length ExecNested.nst ExecNested.nstc v_todo] in Hlen. rewrite map_length in Hlen.
  pose proof G' as (HW & _).
  destruct (drain_records (repeat ef (nfr l)) nm' im' tn' 2%nat (tod l 0) cs 0%nat
              (S (count_list (compile_nblock va vk l))) HW) as (cur' & E3).
  { intros p Hp. apply (get_ef_repeat va vk Hne). pose proof (tod_range va vk Hne l 0 p Hp). lia. }
  { lia. }
  assert (Es : set_rev (nst (repeat ef (nfr l)) (map (tnode va vk) (tod l (length (@nil frame)))) nm' im' cs tn' 2) true
               = nstc (repeat ef (nfr l)) (map (tnode va vk) (tod l 0)) 0 nm' im' cs tn' 2 true) by reflexivity.
  rewrite Es, E3. cbn [ExecNested.nstc v_calls]. rewrite tod_deferred. reflexivity.
Qed.

(* ---- 4. an unrelated statement in the wrapper's own scope ---- *)
Lemma unrelated_main_step x nm im calls tn nx k :
  Good nm im tn k -> Jinv va nm im -> unrelated_d x = true ->
  exists cx, walk_list (main_nodes x) (mst nm im calls tn nx false) = mst nm im (calls ++ cx) tn nx false
             /\ Forall (fun c => fl c = dflags) cx /\ length cx = mcalls x.
Proof.
  intros G HJ Hu. pose proof G as (HW & _). destruct x as [s|h body|h|c]; cbn [main_nodes walk_list].
  - destruct (neutral_step va vk s nm im calls tn nx false k G HJ Hu) as [c [E F]].
    exists [c]. rewrite E. split; [reflexivity|]. split; [constructor; [exact F|constructor]|].
    cbn [unrelated_d] in Hu. destruct s as [| | | | | |f s| |f| |]; try discriminate Hu; reflexivity.
  - exists []. rewrite app_nil_r. split; [reflexivity|]. split; [constructor|reflexivity].
  - destruct (callh_mst h nm im calls tn nx HW) as [c [E F]].
    exists [c]. rewrite E. split; [reflexivity|]. split; [constructor; [exact F|constructor]|reflexivity].
  - exists [lamrec]. rewrite lamcall_mst. split; [reflexivity|]. split; [constructor; [reflexivity|constructor]|reflexivity].
Qed.

Theorem walker_records_nested_unrelated l1 l2 x :
  nblock_ok va vk (l1 ++ l2) = true -> nnames_ok va vk x = true -> unrelated_d x = true ->
  exists rm1 rm2 rd1 rd2 cx dx,
    visit_function [] [] (Some va) (Some vk) (compile_nblock va vk (l1 ++ l2))
      = Some ((rm1 ++ rm2) ++ (rd1 ++ rd2)) /\
    visit_function [] [] (Some va) (Some vk) (compile_nblock va vk (l1 ++ x :: l2))
      = Some ((rm1 ++ cx ++ rm2) ++ (rd1 ++ dx ++ rd2)) /\
    Forall (fun c => fl c = dflags) cx /\ Forall (fun c => fl c = dflags) dx /\
    length cx = mcalls x /\ length dx = dcalls x /\
    length rd1 = length (deferred l1) /\ length rd2 = length (deferred l2).
Proof.
  intros Hok Hx Hu. pose proof (nblock_ok_insert va vk l1 x l2 Hok Hx) as HokB.
  destruct (walker_records_nested _ Hok) as (nmA & imA & tnA & csA & WA & GA & VA).
  destruct (walker_records_nested _ HokB) as (nmB & imB & tnB & csB & WB & GB & VB).
  rewrite VA, VB. clear VA VB.
  pose proof Hok as Hok'. rewrite nblock_ok_app in Hok'. apply andb_true_iff in Hok' as [H1 H2].
  (* the walk of the own scope, piece by piece *)
  rewrite mains_app, walk_list_app in WA.
  change (l1 ++ x :: l2) with (l1 ++ [x] ++ l2) in WB. rewrite !mains_app, !walk_list_app in WB.
  replace (mains [x]) with (main_nodes x) in WB by (unfold mains; cbn [flat_map]; rewrite app_nil_r; reflexivity).
  destruct (nested_main_walk l1 [] [] _ _ [] _ 2%nat _ (G0 va vk Hne) H1) as (nm1 & im1 & tn1 & cs1 & E1 & _ & G1).
  change (mst (nm0 va vk) [va] [] [] 2%nat false) with (st0 va vk) in E1. cbn [app] in E1.
  assert (HJ : Jinv va nm1 im1).
  { assert (HI : Iown (Jinv va) (walk_list (mains l1) (st0 va vk))).
    { apply (walk_list_inv (Jinv va) (Jinv_set va)); [exact (mains_simple l1 H1)|].
      exists (nm0 va vk), [va], [], [], [], 2%nat, (Some (MArg 0 va)), (Some (MArg 1 vk)), false.
      split; [reflexivity|]. intros H. cbn [mem] in H. rewrite N.eqb_refl in H. discriminate H. }
    destruct HI as (nm & im & calls & T & tn & nx & sa & sk & rv & E & HJ). rewrite E1 in E.
    unfold Exec.mst in E. inversion E; subst. exact HJ. }
  rewrite E1 in WA, WB.
  destruct (unrelated_main_step x nm1 im1 cs1 tn1 2%nat _ G1 HJ Hu) as (cx & Ex & Fx & Lx). rewrite Ex in WB.
  destruct (walk_list_calls_frame cs1 (cs1 ++ cx) (mains l2) (mst nm1 im1 cs1 tn1 2 false) []
              (mains_simple l2 H2)) as (D' & V1 & V2).
  { cbn [Exec.mst v_calls]. rewrite app_nil_r. reflexivity. }
  assert (Ew : withc (mst nm1 im1 cs1 tn1 2 false) ((cs1 ++ cx) ++ [])
               = mst nm1 im1 (cs1 ++ cx) tn1 2 false) by (rewrite app_nil_r; reflexivity).
  rewrite Ew in V2. rewrite V2, WA in WB. rewrite WA in V1. cbn [Exec.mst v_calls] in V1.
  unfold withc, Exec.mst in WB. cbn [v_frames v_cur v_calls v_todo v_taint v_next v_varargs v_varkwargs v_rev] in WB.
  inversion WB; subst nmB imB csB tnB. subst csA.
  exists cs1, D', (map (drec nmA tnA) (deferred l1)), (map (drec nmA tnA) (deferred l2)), cx,
         (map (drec nmA tnA) (deferred1 x)).
  rewrite !deferred_app, deferred_cons, !map_app, <- !app_assoc.
  split; [reflexivity|]. split; [reflexivity|]. split; [exact Fx|].
  split.
  { apply Forall_forall. intros r Hr. apply in_map_iff in Hr as (c & <- & Hc).
    apply drec_other. destruct x as [s|h body|h|c0]; cbn [deferred1] in Hc; cbn [unrelated_d] in Hu.
    - destruct Hc.
    - rewrite forallb_forall in Hu. exact (Hu c Hc).
    - destruct Hc.
    - destruct Hc as [<-|[]]. exact Hu. }
  rewrite !map_length. split; [exact Lx|]. split; [destruct x; reflexivity|]. split; reflexivity.
Qed.
End NWalk.

Theorem discover_nested_unrelated va vk res own plain have_ast l1 l2 x :
  va <> vk -> nblock_ok va vk (l1 ++ l2) = true -> nnames_ok va vk x = true -> unrelated_d x = true ->
  discovered_n va vk res own plain have_ast (l1 ++ x :: l2)
  = discovered_n va vk res own plain have_ast (l1 ++ l2).
Proof.
  intros Hne Hok Hx Hu.
  destruct (walker_records_nested_unrelated va vk Hne l1 l2 x Hok Hx Hu)
    as (rm1 & rm2 & rd1 & rd2 & cx & dx & A & B & Fx & Fd & _).
  unfold discovered_n. rewrite A, B. f_equal.
  set (g := fun c => info_of c (res c)).
  assert (Irr : forall cs, Forall (fun c => fl c = dflags) cs -> Forall (fun c => relevant c = false) (map g cs)).
  { intros cs H. induction H as [|c cs Hc _ IH]; cbn [map]; constructor; [|exact IH].
    apply dflags_irrelevant. exact Hc. }
  rewrite !map_app.
  (* remove dx, then cx *)
  replace ((map g rm1 ++ map g cx ++ map g rm2) ++ map g rd1 ++ map g dx ++ map g rd2)
    with (((map g rm1 ++ map g cx ++ map g rm2) ++ map g rd1) ++ map g dx ++ map g rd2)
    by (rewrite <- !app_assoc; reflexivity).
  rewrite (discover_insert_list own plain have_ast (map g dx) _ _ (Irr dx Fd)).
  replace (((map g rm1 ++ map g cx ++ map g rm2) ++ map g rd1) ++ map g rd2)
    with (map g rm1 ++ map g cx ++ (map g rm2 ++ map g rd1 ++ map g rd2))
    by (rewrite <- !app_assoc; reflexivity).
  rewrite (discover_insert_list own plain have_ast (map g cx) _ _ (Irr cx Fx)).
  rewrite <- !app_assoc. reflexivity.
Qed.

(* in the form of C05_end_to_end_discover: callee names resolved through an environment *)
Corollary C06_discover_nested_unrelated_env va vk (env : N -> sigT) own plain have_ast l1 l2 x recs recs' :
  va <> vk -> nblock_ok va vk (l1 ++ l2) = true -> nnames_ok va vk x = true -> unrelated_d x = true ->
  visit_function [] [] (Some va) (Some vk) (compile_nblock va vk (l1 ++ l2)) = Some recs ->
  visit_function [] [] (Some va) (Some vk) (compile_nblock va vk (l1 ++ x :: l2)) = Some recs' ->
  discover own plain have_ast (calls_of env recs') = discover own plain have_ast (calls_of env recs).
Proof.
  intros Hne Hok Hx Hu Hv Hv'.
  pose proof (discover_nested_unrelated va vk (resolve env) own plain have_ast l1 l2 x Hne Hok Hx Hu) as H.
  unfold discovered_n in H. rewrite Hv, Hv' in H. inversion H as [H']. exact H'.
Qed.

(* 5. (b) does not lift to the signature:  def w( *a, **k ): f5( *a, **k ); f5 = a   discovers the
   signature of f5, while  (lambda: f5( *a, **k ))(); f5 = a  -- the stars are untouched, the flags
   of the call are the same (move_to_lambda_invariant) -- records the callee as Unknown (the
   deferred call is resolved at the end of the wrapper's own scope) and falls back *)
Theorem move_to_lambda_discover_refuted :
  exists va vk l1 l2 c n kw pa pk env,
    va <> vk /\ nblock_ok va vk (l1 ++ l2) = true /\ name_ok va vk c = true /\
    fst (absint_n (l1 ++ l2) (true, true)) = (true, true) /\
    (forall x, valid_sig (params (env x)) = true) /\
    discovered_n va vk (resolve env) (own_sig va vk) plain0 true (l1 ++ NLam (NCFwd c n kw pa pk) :: l2)
    <> discovered_n va vk (resolve env) (own_sig va vk) plain0 true (l1 ++ NLeaf (SFwd c n kw pa pk) :: l2).
Proof.
  exists 9%N, 10%N, [], [NLeaf (SAlias 5 SA)]%N, 5%N, 0%nat, [], true, true, ex_env.
  split; [discriminate|]. split; [reflexivity|]. split; [reflexivity|]. split; [reflexivity|].
  split; [exact ex_env_valid|]. vm_compute. intros H. discriminate H.
Qed.

(* the hypotheses are satisfiable:
     def w( *args, **kwargs ):
         def h(): f6(k=<lit>, **kwargs)
         f5(<lit>, *args, **kwargs)
         [.]                               <- def g(): u(<lit>); v(<lit>)  /  (lambda: u(<lit>))()  /  h()
         h()
   discovery reports ( *, q=1 ) in every case *)
Definition nd_l1 : list nstmt := [NDef 20 [NCFwd 6 0 [7] false true]; NLeaf (SFwd 5 1 [] true true)]%N.
Definition nd_l2 : list nstmt := [NCallH 20]%N.

Example discover_nested_unrelated_example :
  (9 <> 10)%N /\ nblock_ok 9 10 (nd_l1 ++ nd_l2) = true /\
  nnames_ok 9 10 (NDef 21 [NCOther 12; NCOther 13]) = true /\ unrelated_d (NDef 21 [NCOther 12; NCOther 13]) = true /\
  nnames_ok 9 10 (NLam (NCOther 12)) = true /\ unrelated_d (NLam (NCOther 12)) = true /\
  nnames_ok 9 10 (NLeaf (SPass 12 SA)) = true /\ unrelated_d (NLeaf (SPass 12 SA)) = true /\
  exists r, params r = [mkParam 2 KO (Some 1%N) None UEmpty] /\
    discovered_n 9 10 (resolve ex_env) (own_sig 9 10) plain0 true (nd_l1 ++ nd_l2) = Some r /\
    discovered_n 9 10 (resolve ex_env) (own_sig 9 10) plain0 true (nd_l1 ++ NDef 21 [NCOther 12; NCOther 13] :: nd_l2) = Some r /\
    discovered_n 9 10 (resolve ex_env) (own_sig 9 10) plain0 true (nd_l1 ++ NLam (NCOther 12) :: nd_l2) = Some r /\
    discovered_n 9 10 (resolve ex_env) (own_sig 9 10) plain0 true (nd_l1 ++ NLeaf (SPass 12 SA) :: nd_l2) = Some r.
Proof.
  split; [discriminate|]. repeat (split; [reflexivity|]).
  eexists. split; [|split; [|split; [|split]]];
    [|vm_compute; reflexivity|vm_compute; reflexivity|vm_compute; reflexivity|vm_compute; reflexivity].
  reflexivity.
Qed.

Print Assumptions nested_main_walk.
Print Assumptions drain_records.
Print Assumptions walker_records_nested.
Print Assumptions walker_records_nested_unrelated.
Print Assumptions discover_nested_unrelated.
Print Assumptions C06_discover_nested_unrelated_env.
Print Assumptions move_to_lambda_discover_refuted.
Print Assumptions discover_nested_unrelated_example.
