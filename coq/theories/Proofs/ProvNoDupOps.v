(* ProvNoDupOps.v — C08 for mask / partial / embed / forwards and the n-ary merge:
   the provenance lists as LISTS (hence duplicate-freedom), and exactness of
   embed / forwards for inputs that share no name.

   Part 1  mask_gen: every list is the input's list for that name, or (partial)
           the one-element list of the partial object
   Part 2  embed [o; i]: every list is o's or i's list for that name
   Part 3  forwards
   Part 4  exactness of embed / forwards on inputs without shared names
   Part 5  the n-ary merge: a concatenation of distinct inputs' lists *)
From Coq Require Import List NArith Bool Arith Lia Btauto.
From Sigtools.Model Require Import Base Bind Roles Algebra.
From Sigtools.Proofs Require Import SmallModel Basics Prov MaskLaws MaskExact MergeNeutral Annot
     ProvKeys Contrib ProvNoDup ContribEmbed ValidateSpec RcValid FoldLaw RcValidN.
(* RcValid has a record field called k_pok: make the model's names win again *)
Import Base Bind Roles Algebra.
Import ListNotations.
Open Scope N_scope.

(* ================================================================== *)
(* Part 1 — mask / partial                                             *)

Definition mshape (pm : pmode) (m0 m : srcmap) : Prop :=
  forall x, src_get m x = src_get m0 x \/ src_get m x = [] \/ (exists pobj, pm = Some pobj /\ src_get m x = [pobj]).

Lemma mshape_of_sub pm m0 m : src_sub m0 m -> mshape pm m0 m.
Proof. intros H x. destruct (H x) as [A|A]; auto. Qed.

Lemma mshape_pop pm m0 m k : mshape pm m0 m -> mshape pm m0 (src_pop m k).
Proof. intros H x. rewrite src_get_pop. destruct (N.eqb x k); [right; left; reflexivity | apply H]. Qed.

Lemma mshape_set pm m0 m k pobj : pm = Some pobj -> mshape pm m0 m -> mshape pm m0 (src_set m k [pobj]).
Proof.
  intros E H x. rewrite src_get_set. destruct (N.eqb x k); [right; right; exists pobj; auto | apply H].
Qed.

Lemma mask_name_mshape pm m0 hv st kv st' :
  mshape pm m0 (k_src st) -> mask_name pm hv st kv = Ok st' -> mshape pm m0 (k_src st').
Proof.
  intros H. unfold mask_name. destruct (mem (fst kv) (k_consumed st)); [discriminate|].
  destruct (split_at_name (fst kv) (k_pok st)) as [[[before p] after]|].
  - intros E. apply Ok_inj in E. subst st'. cbn [k_src].
    assert (H1 : mshape pm m0 (match pm with Some _ => k_src st | None => src_pop (k_src st) (fst kv) end)).
    { destruct pm; [exact H | apply mshape_pop; exact H]. }
    destruct (k_va st) as [v|]; [|exact H1].
    destruct (isSome (find_param (pname v) _)); [exact H1 | apply mshape_pop; exact H1].
  - destruct (find_param (fst kv) (k_kwo st)) as [p|].
    + destruct pm; intros E; apply Ok_inj in E; subst st'; cbn [k_src]; [exact H | apply mshape_pop; exact H].
    + destruct (negb hv); [discriminate|].
      destruct pm as [pobj|] eqn:Epm; intros E; apply Ok_inj in E; subst st'; cbn [k_src]; [|exact H].
      apply mshape_set; [reflexivity | exact H].
Qed.

Lemma mask_names_mshape pm m0 hv kvs : forall st st',
  mshape pm m0 (k_src st) -> mask_names pm hv st kvs = Ok st' -> mshape pm m0 (k_src st').
Proof.
  induction kvs as [|kv kvs IH]; intros st st' H; cbn [mask_names].
  - intros E; apply Ok_inj in E; subst; exact H.
  - intros E. apply bind_ok in E. destruct E as [st1 [E1 E2]].
    eapply IH; [|exact E2]. eapply mask_name_mshape; eauto.
Qed.

(* C08: as a list, the provenance of a parameter of a _mask result is the
   input's list for that name, or the partial object alone; for ALL inputs *)
Theorem mask_gen_src_shape s n h named pm r x :
  mask_gen s n h named pm = Ok r ->
  src_get (srcs r) x = src_get (srcs s) x \/ src_get (srcs r) x = [] \/
  (exists pobj, pm = Some pobj /\ src_get (srcs r) x = [pobj]).
Proof.
  intros E. destruct (mask_gen_form s n h named pm r E)
    as (pos1 & pok2 & va1 & kwo2 & src3 & bound & named2 & st & vk3 & _ & _ & _ & _ & _ & _ & S3 & Est & _ & Hs).
  pose proof (fun H0 => mask_names_mshape pm (srcs s) _ _ _ _ H0 Est) as H. cbn [k_src] in H.
  specialize (H (mshape_of_sub pm _ _ S3)).
  destruct Hs as [-> | (v & _ & ->)]; [apply H | apply mshape_pop; exact H].
Qed.

Theorem mask_gen_nodup s n h named pm r x :
  mask_gen s n h named pm = Ok r -> NoDup (src_get (srcs s) x) -> NoDup (src_get (srcs r) x).
Proof.
  intros E Hn. destruct (mask_gen_src_shape s n h named pm r x E) as [-> | [-> | (pobj & _ & ->)]];
    [exact Hn | constructor | constructor; [intros [] | constructor]].
Qed.

Corollary mask_src_shape s n names0 h r x :
  mask s n names0 h = Ok r -> src_get (srcs r) x = src_get (srcs s) x \/ src_get (srcs r) x = [].
Proof.
  unfold mask. intros E. destruct (mask_gen_src_shape _ _ _ _ _ _ x E) as [A | [A | (p & B & _)]]; auto. discriminate B.
Qed.

Corollary mask_nodup s n names0 h r x :
  mask s n names0 h = Ok r -> NoDup (src_get (srcs s) x) -> NoDup (src_get (srcs r) x).
Proof. apply mask_gen_nodup. Qed.

Corollary sig_partial_nodup s n kw pobj r x :
  sig_partial s n kw pobj = Ok r -> NoDup (src_get (srcs s) x) -> NoDup (src_get (srcs r) x).
Proof. apply mask_gen_nodup. Qed.

(* ================================================================== *)
(* Part 2 — embed [o; i]                                               *)

Lemma od_set_nodup d p : NoDup (names_of d) -> NoDup (names_of (od_set d p)).
Proof.
  induction d as [|q d IH]; intros H; cbn [od_set]; [constructor; [intros []|constructor]|].
  cbn [names_of map] in H. inversion H as [|? ? Hq Hd]; subst.
  destruct (N.eqb_spec (pname p) (pname q)) as [E|E]; cbn [names_of map].
  - rewrite E. constructor; assumption.
  - constructor; [|apply IH; exact Hd]. intros Hin. apply mem_In in Hin. fold (names_of (od_set d p)) in Hin.
    fold (memn (pname q) (od_set d p)) in Hin. rewrite memn_od_set in Hin. apply orb_true_iff in Hin.
    destruct Hin as [Hin|Hin]; [apply Hq; apply mem_In; exact Hin | apply N.eqb_eq in Hin; congruence].
Qed.

Lemma od_update_nodup u : forall d, NoDup (names_of d) -> NoDup (names_of (od_update d u)).
Proof.
  unfold od_update. induction u as [|p u IH]; intros d H; cbn [fold_left]; [exact H|].
  apply IH. apply od_set_nodup. exact H.
Qed.

Lemma cntn_od_update_ge y u : forall d, NoDup (names_of u) -> (cntn y u <= cntn y (od_update d u))%nat.
Proof.
  intros d Hn. pose proof (nodup_cntn u y Hn) as H1.
  destruct (memn y u) eqn:E.
  - assert (H2 : memn y (od_update d u) = true) by (rewrite memn_od_update, E; apply orb_true_r).
    apply memn_cntn in H2. lia.
  - apply memn_false_cntn in E. lia.
Qed.

(* sort_params never duplicates a name *)
Lemma sort_aux_cntn y ps : forall acc,
  (cntn y (flatten (sort_aux ps acc)) <= cntn y (flatten acc) + cntn y ps)%nat.
Proof.
  induction ps as [|p ps IH]; intros acc; cbn [sort_aux]; [rewrite cntn_nil; lia|].
  rewrite cntn_cons.
  destruct (pkind p); (eapply Nat.le_trans; [apply IH|]); unfold flatten;
    cbn [posargs pokargs varargs kwoargs varkwargs]; rewrite !cntn_app.
  - rewrite cntn_cons, cntn_nil. lia.
  - rewrite cntn_cons, cntn_nil. lia.
  - cbn [opt_list]. rewrite cntn_cons, cntn_nil. lia.
  - pose proof (cntn_od_set_le y (kwoargs acc) p). lia.
  - cbn [opt_list]. rewrite cntn_cons, cntn_nil. lia.
Qed.

Lemma sort_params_nodup_of s : NoDup (names_of (params s)) -> NoDup (names_of (flatten (sort_params s))).
Proof.
  intros H. apply cntn_le_nodup. intros y. unfold sort_params.
  pose proof (sort_aux_cntn y (params s) (mkSorted [] [] None [] None (srcs s) (deps s))) as H1.
  pose proof (nodup_cntn _ y H) as H2. cbn in H1. lia.
Qed.

Lemma embed2_src_shape_gen o i uva uvk r x :
  embed [o; i] uva uvk = Ok r ->
  NoDup (keys (srcs o)) -> NoDup (names_of (flatten (sort_params o))) ->
  NoDup (names_of (flatten (sort_params i))) ->
  src_get (srcs r) x = src_get (srcs o) x \/ src_get (srcs r) x = src_get (srcs i) x \/ src_get (srcs r) x = [].
Proof.
  intros E Ko No Ni. pose proof (embed_wf _ _ _ _ E) as Hval. apply validate_nodup in Hval.
  destruct (embed2_form o i uva uvk r E) as (m & Em & Ep & Es & _).
  set (so := sort_params o) in *. set (si := sort_params i) in *.
  rewrite Es.
  set (o2 := pop_star uvk (varkwargs so) (pop_star uva (varargs so) (srcs o))).
  assert (N2 : NoDup (keys o2)) by (unfold o2; apply pop_star_nodup; apply pop_star_nodup; exact Ko).
  rewrite (overlay_get _ N2). destruct (src_mem o2 x).
  - unfold o2. rewrite !pop_star_get. destruct (popped uvk (varkwargs so) x); [right; right; reflexivity|].
    destruct (popped uva (varargs so) x); [right; right; reflexivity | left; reflexivity].
  - (* the list comes from the merged inner signature *)
    destruct (sort_params_kinds i) as (Ki1 & Ki2 & Ki3 & Ki4 & Ki5). fold si in Ki1, Ki2, Ki3, Ki4, Ki5.
    destruct (merger_stars si _ _ [] [] Ki2 m Em) as (_ & _ & M3 & _).
    destruct (merger_Inv si (estars uva uvk so) m Em) as (_ & _ & _ & _ & _ & _ & _ & Nva & Nvk).
    cbn [estars varargs varkwargs] in Nva, Nvk.
    assert (Nr : NoDup (names_of (flatten (estars uva uvk so)))).
    { apply cntn_le_nodup. intros y. pose proof (flatten_cnt so y No) as H. unfold flatten. cbn [estars posargs pokargs varargs kwoargs varkwargs app].
      rewrite ?app_nil_r, ?cntn_app. destruct uva, uvk; cbn [opt_if opt_list]; rewrite ?cntn_nil; lia. }
    assert (Nkm : NoDup (names_of (kwoargs m))).
    { rewrite M3. destruct (isSome _); [|constructor]. apply od_update_nodup. apply od_update_nodup. constructor. }
    assert (Hcnt : (cntn x (flatten m) <= 1)%nat).
    { pose proof (nodup_cntn _ x Hval) as H. rewrite Ep, !cntn_app in H. unfold flatten. rewrite !cntn_app.
      pose proof (cntn_od_update_ge x (kwoargs m) (od_update [] (kwoargs so)) Nkm) as Hk.
      assert (Ha : (cntn x (opt_list (varargs m)) <= cntn x (opt_list (if uva then varargs m else varargs so)))%nat).
      { destruct uva; [lia|]. rewrite Nva by (right; reflexivity). cbn. lia. }
      assert (Hb : (cntn x (opt_list (varkwargs m)) <= cntn x (opt_list (if uvk then varkwargs m else varkwargs so)))%nat).
      { destruct uvk; [lia|]. rewrite Nvk by (right; reflexivity). cbn. lia. }
      lia. }
    pose proof (merger_shape si (estars uva uvk so) Ni Nr m Em x Hcnt) as H.
    unfold shape, shape1, sside in H. cbn [my estars ssrc src_get] in H. rewrite !app_nil_r in H. cbn [app] in H.
    unfold si in H. rewrite sort_params_ssrc in H. tauto.
Qed.

(* C08: as a list, the provenance of every parameter of embed [o; i] is o's or
   i's list for that name: never a concatenation *)
Theorem embed2_src_shape o i uva uvk r x :
  embed [o; i] uva uvk = Ok r ->
  valid_sig (params o) = true -> src_ok o -> valid_sig (params i) = true ->
  src_get (srcs r) x = src_get (srcs o) x \/ src_get (srcs r) x = src_get (srcs i) x \/ src_get (srcs r) x = [].
Proof.
  intros E Vo So Vi. apply (embed2_src_shape_gen o i uva uvk r x E).
  - apply So.
  - apply sort_params_nodup. exact Vo.
  - apply sort_params_nodup. exact Vi.
Qed.

Theorem embed2_nodup o i uva uvk r x :
  embed [o; i] uva uvk = Ok r ->
  valid_sig (params o) = true -> src_ok o -> valid_sig (params i) = true ->
  NoDup (src_get (srcs o) x) -> NoDup (src_get (srcs i) x) -> NoDup (src_get (srcs r) x).
Proof.
  intros E Vo So Vi No Ni. destruct (embed2_src_shape o i uva uvk r x E Vo So Vi) as [-> | [-> | ->]];
    [exact No | exact Ni | constructor].
Qed.

(* ================================================================== *)
(* Part 3 — forwards                                                   *)

Lemma forwards_inv o i n names0 ha hk uva uvk pt r :
  forwards o i n names0 ha hk uva uvk pt = Ok r ->
  exists i' m, params i' = (if pt then map defaulted (params i) else params i) /\ srcs i' = srcs i /\
    mask i' n names0 (mkHide ha hk false false) = Ok m /\ embed [o; m] uva uvk = Ok r.
Proof.
  unfold forwards. intros E. apply bind_ok in E. destruct E as [m [Em E]].
  eexists. exists m. split; [|split; [|split; [exact Em | exact E]]]; destruct pt; reflexivity.
Qed.

Theorem forwards_src_shape o i n names0 ha hk uva uvk pt r x :
  forwards o i n names0 ha hk uva uvk pt = Ok r -> valid_sig (params o) = true -> src_ok o ->
  src_get (srcs r) x = src_get (srcs o) x \/ src_get (srcs r) x = src_get (srcs i) x \/ src_get (srcs r) x = [].
Proof.
  intros E Vo So. destruct (forwards_inv _ _ _ _ _ _ _ _ _ _ E) as (i' & m & _ & Es & Em & Ee).
  assert (Nm : NoDup (names_of (flatten (sort_params m)))).
  { apply sort_params_nodup_of. apply validate_nodup. eapply mask_wf. exact Em. }
  destruct (embed2_src_shape_gen o m uva uvk r x Ee (proj1 So) (sort_params_nodup o Vo) Nm) as [H | [H | H]]; auto.
  destruct (mask_src_shape _ _ _ _ _ x Em) as [A|A]; rewrite H, A; [rewrite Es|]; auto.
Qed.

Theorem forwards_nodup o i n names0 ha hk uva uvk pt r x :
  forwards o i n names0 ha hk uva uvk pt = Ok r -> valid_sig (params o) = true -> src_ok o ->
  NoDup (src_get (srcs o) x) -> NoDup (src_get (srcs i) x) -> NoDup (src_get (srcs r) x).
Proof.
  intros E Vo So No Ni. destruct (forwards_src_shape _ _ _ _ _ _ _ _ _ _ x E Vo So) as [-> | [-> | ->]];
    [exact No | exact Ni | constructor].
Qed.

(* ================================================================== *)
(* Part 4 — exactness without shared names                             *)

(* no named parameter of one is named like any parameter of the other *)
Definition names_apart (A B : list param) : bool :=
  disjointb (names_of (filter is_named A)) (names_of B) && disjointb (names_of (filter is_named B)) (names_of A).

Lemma names_apart_spec A B : names_apart A B = true ->
  (forall q, In q A -> is_named q = true -> ~ In (pname q) (names_of B)) /\
  (forall q, In q B -> is_named q = true -> ~ In (pname q) (names_of A)).
Proof.
  unfold names_apart. intros H. apply andb_true_iff in H. destruct H as [H1 H2].
  split; intros q Hq Hn; [apply (disjointb_spec _ _ H1) | apply (disjointb_spec _ _ H2)];
    unfold names_of; apply in_map; apply filter_In; auto.
Qed.

Lemma src_ok_absent s x : src_ok s -> ~ In x (names_of (params s)) -> src_get (srcs s) x = [].
Proof. intros (_ & K & _) H. apply src_get_nomem. rewrite K. apply mem_false_In. exact H. Qed.

Lemma restr_named q p : restr q p -> is_named p = is_named q.
Proof.
  intros [_ [E | [E1 [E2 | E2]]]]; unfold is_named; rewrite ?E, ?E1, ?E2; reflexivity.
Qed.

Theorem embed2_src_exact o i uva uvk r p f :
  embed [o; i] uva uvk = Ok r ->
  valid_sig (params o) = true -> src_ok o -> src_ok i ->
  names_apart (params o) (params i) = true ->
  In p (params r) -> is_named p = true ->
  (In f (src_get (srcs r) (pname p)) <->
   In f (src_get (srcs o) (pname p)) \/ In f (src_get (srcs i) (pname p))).
Proof.
  intros E Vo So Si Hap Hp Hnm. split; [apply (embed2_truthful o i uva uvk r _ f E Vo So)|].
  destruct (names_apart_spec _ _ Hap) as [Ap1 Ap2].
  pose proof (embed2_contrib o i uva uvk r E) as Hc. rewrite Forall_forall in Hc.
  destruct (embed2_form o i uva uvk r E) as (m & Em & Ep & Es & _).
  set (so := sort_params o) in *. set (si := sort_params i) in *.
  set (o2 := pop_star uvk (varkwargs so) (pop_star uva (varargs so) (srcs o))) in *.
  assert (N2 : NoDup (keys o2)) by (unfold o2; apply pop_star_nodup; apply pop_star_nodup; apply So).
  rewrite Es, (overlay_get _ N2).
  destruct (Hc p Hp) as [(q & Hq & Hr) | [(q & Hq & Hr) | (a & b & _ & _ & Hk & _ & ->)]].
  - (* from the outer signature *)
    assert (Hn : pname p = pname q /\ is_named q = true).
    { destruct Hr as [Hr|[_ Hr]]; destruct (restr_fields _ _ Hr) as (A & _); pose proof (restr_named _ _ Hr) as X;
        [|change (is_named (set_def None q)) with (is_named q) in X]; rewrite Hnm in X; split; auto. }
    destruct Hn as [Hn Hqn]. rewrite Hn.
    rewrite (src_ok_absent i (pname q) Si (Ap1 q Hq Hqn)).
    (* the entry of q is in the popped outer map *)
    assert (Hmem : src_mem o2 (pname q) = true).
    { unfold o2. rewrite !pop_star_mem. destruct So as (_ & K & _). rewrite K.
      assert (A : mem (pname q) (names_of (params o)) = true) by (apply mem_In; unfold names_of; apply in_map; exact Hq).
      rewrite A. cbn [andb].
      pose proof (sort_params_nodup o Vo) as No. fold so in No. rewrite <- (sort_flatten_roundtrip o Vo) in Hq. fold so in Hq.
      destruct (sort_params_kinds o) as (_ & _ & K3 & _ & K5). fold so in K3, K5.
      assert (Hstar : forall ov b, (forall v, ov = Some v -> In v (flatten so) /\ is_named v = false) -> popped b ov (pname q) = false).
      { intros ov b Hv. unfold popped. destruct ov as [v|]; [|reflexivity]. destruct (Hv v eq_refl) as [Hin Hnv].
        destruct (N.eqb_spec (pname q) (pname v)) as [En|]; [|apply andb_false_r].
        assert (q = v).
        { pose proof (find_param_nodup _ q No Hq) as F1. pose proof (find_param_nodup _ v No Hin) as F2.
          rewrite En in F1. congruence. }
        subst v. congruence. }
      rewrite (Hstar (varargs so) uva), (Hstar (varkwargs so) uvk); [reflexivity| |].
      - intros v Hv. split; [apply opt_in_flatten_vk; exact Hv | unfold is_named; rewrite (K5 v Hv); reflexivity].
      - intros v Hv. split; [apply opt_in_flatten_va; exact Hv | unfold is_named; rewrite (K3 v Hv); reflexivity]. }
    rewrite Hmem. unfold o2 in *. rewrite !pop_star_mem in Hmem. rewrite !pop_star_get.
    apply andb_true_iff in Hmem. destruct Hmem as [Hmem H2]. apply andb_true_iff in Hmem. destruct Hmem as [_ H1].
    apply negb_true_iff in H1. apply negb_true_iff in H2. rewrite H1, H2. intros [H|[]]. exact H.
  - (* from the inner signature *)
    destruct (restr_fields _ _ Hr) as (Hn & _). pose proof (restr_named _ _ Hr) as Hqn. rewrite Hnm in Hqn. symmetry in Hqn.
    rewrite Hn.
    assert (Hno : ~ In (pname q) (names_of (params o))) by (apply (Ap2 q Hq Hqn)).
    rewrite (src_ok_absent o (pname q) So Hno).
    assert (Hmem : src_mem o2 (pname q) = false).
    { unfold o2. rewrite !pop_star_mem. destruct So as (_ & K & _). rewrite K.
      apply mem_false_In in Hno. rewrite Hno. reflexivity. }
    rewrite Hmem. intros [[]|H].
    (* the whole inner list is in the merged inner signature's entry *)
    destruct (merger_Inv si (estars uva uvk so) m Em) as (_ & P2 & P3 & _).
    assert (Hk : src_mem (ssrc m) (pname q) = true).
    { rewrite P2. rewrite <- Hn.
      (* p is a parameter of m: it is in the result and not named like an outer one *)
      rewrite Ep in Hp.
      assert (Hout : forall l, (forall y, In y (names_of l) -> In y (names_of (params o))) -> ~ In p l).
      { intros l Hl Hin. apply Hno. rewrite <- Hn. apply Hl. unfold names_of. apply in_map. exact Hin. }
      assert (InO : forall z, In z (flatten so) -> In (pname z) (names_of (params o))).
      { intros z Hz. unfold names_of. apply in_map. apply sort_params_In. exact Hz. }
      unfold flatten. rewrite !memn_app.
      apply in_app_or in Hp. destruct Hp as [Hp|Hp].
      { exfalso. revert Hp. apply Hout. intros y Hy. rewrite names_clrl in Hy. unfold names_of in Hy.
        apply in_map_iff in Hy. destruct Hy as [z [<- Hz]]. apply InO. apply named_flatten. apply (pos_named so so L). exact Hz. }
      apply in_app_or in Hp. destruct Hp as [Hp|Hp].
      { exfalso. revert Hp. apply Hout. intros y Hy. rewrite names_clrl in Hy.
        assert (Hy' : In y (names_of (pokargs so))) by (destruct (isnil (posargs m)); [exact Hy | rewrite names_map_kind in Hy; exact Hy]).
        unfold names_of in Hy'. apply in_map_iff in Hy'. destruct Hy' as [z [<- Hz]]. apply InO. apply named_flatten. apply (pok_named so so L). exact Hz. }
      apply in_app_or in Hp. destruct Hp as [Hp|Hp]; [rewrite (memn_intro _ _ Hp); reflexivity|].
      apply in_app_or in Hp. destruct Hp as [Hp|Hp]; [rewrite (memn_intro _ _ Hp); btauto|].
      apply in_app_or in Hp. destruct Hp as [Hp|Hp].
      { destruct uva.
        - assert (A : memn (pname p) (opt_list (varargs m)) = true) by (apply memn_intro; exact Hp). rewrite A. btauto.
        - exfalso. revert Hp. apply Hout. intros y Hy. destruct (varargs so) as [v|] eqn:Ev; [|destruct Hy].
          destruct Hy as [<-|[]]. apply InO. apply opt_in_flatten_va. exact Ev. }
      apply in_app_or in Hp. destruct Hp as [Hp|Hp].
      { apply od_update_In in Hp. destruct Hp as [Hp|Hp].
        - exfalso. apply od_update_In in Hp. destruct Hp as [[]|Hp]. revert Hp. apply Hout. intros y Hy.
          unfold names_of in Hy. apply in_map_iff in Hy. destruct Hy as [z [<- Hz]]. apply InO. apply kwo_flatten. exact Hz.
        - rewrite (memn_intro _ _ Hp). btauto. }
      destruct uvk.
      - assert (A : memn (pname p) (opt_list (varkwargs m)) = true) by (apply memn_intro; exact Hp). rewrite A. btauto.
      - exfalso. revert Hp. apply Hout. intros y Hy. destruct (varkwargs so) as [v|] eqn:Ev; [|destruct Hy].
        destruct Hy as [<-|[]]. apply InO. apply opt_in_flatten_vk. exact Ev. }
    destruct (P3 _ Hk) as (sd & p' & Hside & _ & _ & Hincl).
    destruct sd; [|exfalso; apply Hside; reflexivity].
    apply Hincl. unfold sside. cbn [my]. unfold si. rewrite sort_params_ssrc. exact H.
  - (* a conciled star is not a named parameter *)
    exfalso. unfold is_named in Hnm. change (pkind (concile a b)) with (pkind a) in Hnm.
    destruct Hk as [Hk|Hk]; rewrite Hk in Hnm; discriminate.
Qed.

Lemma disjointb_intro a b : (forall x, In x a -> ~ In x b) -> disjointb a b = true.
Proof.
  intros H. unfold disjointb. apply forallb_forall. intros x Hx. apply negb_true_iff. apply mem_false_In. apply H. exact Hx.
Qed.

Lemma names_apart_intro A B :
  (forall q, In q A -> is_named q = true -> ~ In (pname q) (names_of B)) ->
  (forall q, In q B -> is_named q = true -> ~ In (pname q) (names_of A)) -> names_apart A B = true.
Proof.
  intros H1 H2. unfold names_apart. apply andb_true_iff. split; apply disjointb_intro; intros x Hx;
    unfold names_of in Hx; apply in_map_iff in Hx; destruct Hx as [q [<- Hq]]; apply filter_In in Hq; destruct Hq; auto.
Qed.

Theorem forwards_src_exact o i n names0 ha hk uva uvk pt r p f :
  forwards o i n names0 ha hk uva uvk pt = Ok r ->
  valid_sig (params o) = true -> src_ok o -> valid_sig (params i) = true -> src_ok i ->
  names_apart (params o) (params i) = true ->
  In p (params r) -> is_named p = true ->
  (In f (src_get (srcs r) (pname p)) <->
   In f (src_get (srcs o) (pname p)) \/ In f (src_get (srcs i) (pname p))).
Proof.
  intros E Vo So Vi Si Hap Hp Hnm.
  destruct (forwards_inv _ _ _ _ _ _ _ _ _ _ E) as (i' & m & Ep' & Es' & Em & Ee).
  destruct (names_apart_spec _ _ Hap) as [Ap1 Ap2].
  assert (Nn : names_of (params i') = names_of (params i)).
  { rewrite Ep'. destruct pt; [apply names_defaulted | reflexivity]. }
  assert (Vi' : valid_sig (params i') = true).
  { rewrite Ep'. destruct pt; [apply valid_sig_defaulted|]; exact Vi. }
  assert (Si' : src_ok i').
  { unfold src_ok. rewrite Es', Nn. exact Si. }
  pose proof (mask_src_ok _ _ _ _ _ Em Vi' Si') as Sm.
  (* parameters of the masked inner signature are parameters of i, same name, same named-ness *)
  assert (Hm : forall q, In q (params m) -> In (pname q) (names_of (params i)) /\
                 (is_named q = true -> exists q0, In q0 (params i) /\ pname q0 = pname q /\ is_named q0 = true)).
  { intros q Hq. destruct (mask_contrib _ _ _ _ _ Em q Hq) as (q0 & Hq0 & Hr).
    destruct (restr_fields _ _ Hr) as (Hn & _). pose proof (restr_named _ _ Hr) as Hnn.
    rewrite Ep' in Hq0. split.
    - rewrite Hn, <- Nn, Ep'. unfold names_of. apply in_map. exact Hq0.
    - intros Hqn. destruct pt.
      + apply in_map_iff in Hq0. destruct Hq0 as [q1 [<- Hq1]]. exists q1. split; [exact Hq1|].
        rewrite Hn, defaulted_name. split; [reflexivity|]. rewrite Hnn in Hqn. unfold is_named in *.
        rewrite defaulted_kind in Hqn. exact Hqn.
      + exists q0. repeat split; auto. congruence. }
  assert (Hap' : names_apart (params o) (params m) = true).
  { apply names_apart_intro.
    - intros q Hq Hqn Hin. unfold names_of in Hin. apply in_map_iff in Hin. destruct Hin as [q' [En Hq']].
      apply (Ap1 q Hq Hqn). rewrite <- En. apply (Hm q' Hq').
    - intros q Hq Hqn. destruct (Hm q Hq) as [_ H]. destruct (H Hqn) as (q0 & A & B & C). rewrite <- B. apply (Ap2 q0 A C). }
  rewrite (embed2_src_exact o m uva uvk r p f Ee Vo So Sm Hap' Hp Hnm).
  (* the masked signature's list for this name is i's *)
  pose proof (embed2_contrib o m uva uvk r Ee) as Hc. rewrite Forall_forall in Hc.
  assert (Hcase : (~ In (pname p) (names_of (params i)) /\ ~ In (pname p) (names_of (params m))) \/
                  In (pname p) (names_of (params m))).
  { destruct (Hc p Hp) as [(q & Hq & Hr) | [(q & Hq & Hr) | (a & b & _ & _ & Hk & _ & ->)]].
    - left. assert (Hn : pname p = pname q /\ is_named q = true).
      { destruct Hr as [Hr|[_ Hr]]; destruct (restr_fields _ _ Hr) as (A & _); pose proof (restr_named _ _ Hr) as X;
          [|change (is_named (set_def None q)) with (is_named q) in X]; rewrite Hnm in X; split; auto. }
      destruct Hn as [Hn Hqn]. rewrite Hn. split; [apply (Ap1 q Hq Hqn)|].
      intros Hin. unfold names_of in Hin. apply in_map_iff in Hin. destruct Hin as [q' [En Hq']].
      apply (Ap1 q Hq Hqn). rewrite <- En. apply (Hm q' Hq').
    - right. destruct (restr_fields _ _ Hr) as (Hn & _). rewrite Hn. unfold names_of. apply in_map. exact Hq.
    - exfalso. unfold is_named in Hnm. change (pkind (concile a b)) with (pkind a) in Hnm.
      destruct Hk as [Hk|Hk]; rewrite Hk in Hnm; discriminate. }
  destruct Hcase as [[Hni Hnm'] | Hin].
  - rewrite (src_ok_absent i _ Si Hni), (src_ok_absent m _ Sm Hnm'). reflexivity.
  - assert (Hne : src_get (srcs m) (pname p) <> []).
    { destruct Sm as (_ & _ & K). apply K. apply mem_In. exact Hin. }
    destruct (mask_src_shape _ _ _ _ _ (pname p) Em) as [A|A]; [|contradiction].
    rewrite A, Es'. reflexivity.
Qed.

(* ================================================================== *)
(* Part 5 — the n-ary merge                                            *)

(* merge2_src_shape with the hypotheses it really uses *)
Lemma merge2_src_shape_gen a b r x :
  merge [a; b] = Ok r ->
  NoDup (names_of (flatten (sort_params a))) -> NoDup (names_of (flatten (sort_params b))) ->
  src_get (srcs r) x = [] \/
  src_get (srcs r) x = src_get (srcs a) x \/
  src_get (srcs r) x = src_get (srcs b) x \/
  src_get (srcs r) x = src_get (srcs a) x ++ src_get (srcs b) x \/
  src_get (srcs r) x = src_get (srcs b) x ++ src_get (srcs a) x.
Proof.
  cbn [merge merge_steps]. intros E Na Nb.
  apply bind_ok in E. destruct E as [acc [E1 E2]].
  apply bind_ok in E1. destruct E1 as [acc1 [E0 E1]]. apply to_incompatible_ok in E0.
  apply Ok_inj in E1. subst acc1.
  pose proof (apply_params_valid _ _ _ E2) as Hval.
  destruct (apply_params_fields _ _ _ E2) as [Ep Es]. rewrite Ep in Hval. rewrite Es.
  pose proof (merger_shape (sort_params a) (sort_params b) Na Nb acc E0 x (nodup_cntn _ x (validate_nodup _ Hval))) as H.
  unfold shape, shape1, sside in H. cbn [my] in H. rewrite !sort_params_ssrc in H. exact H.
Qed.

Definition nosig : sigT := mkSig [] None UEmpty [] [].

(* the lists of the inputs with indices js, concatenated in that order *)
Definition cat_of (inputs : list sigT) (x : name) (js : list nat) : list N :=
  flat_map (fun j => src_get (srcs (nth j inputs nosig)) x) js.

Lemma merge_nested_from_shape x all rest : forall acc pre r,
  all = pre ++ rest ->
  NoDup (names_of (flatten (sort_params acc))) ->
  (exists js, NoDup js /\ (forall j, In j js -> (j < length pre)%nat) /\ src_get (srcs acc) x = cat_of all x js) ->
  Forall (fun s => valid_sig (params s) = true) rest ->
  merge_nested_from acc rest = Ok r ->
  exists js, NoDup js /\ (forall j, In j js -> (j < length all)%nat) /\ src_get (srcs r) x = cat_of all x js.
Proof.
  induction rest as [|s rest IH]; intros acc pre r Hall Hacc (js & J1 & J2 & J3) Hv; cbn [merge_nested_from].
  - intros E. apply Ok_inj in E. subst r. exists js. repeat split; auto.
    intros j Hj. rewrite Hall, app_nil_r. apply J2. exact Hj.
  - inversion Hv as [|? ? Vs Vr]; subst. intros E. apply bind_ok in E. destruct E as [acc' [E1 E2]].
    assert (Hs : nth (length pre) (pre ++ s :: rest) nosig = s) by (rewrite app_nth2, Nat.sub_diag by lia; reflexivity).
    assert (Hk : ~ In (length pre) js) by (intros H; apply J2 in H; lia).
    apply (IH acc' (pre ++ [s]) r); [rewrite <- app_assoc; reflexivity | | | exact Vr | exact E2].
    + apply sort_params_nodup_of. apply validate_nodup. eapply merge_wf. exact E1.
    + assert (Hb : src_get (srcs s) x = cat_of (pre ++ s :: rest) x [length pre]).
      { unfold cat_of. cbn [flat_map]. rewrite Hs, app_nil_r. reflexivity. }
      assert (Hlen : forall js', (forall j, In j js' -> In j js \/ j = length pre) ->
                                 forall j, In j js' -> (j < length (pre ++ [s]))%nat).
      { intros js' H j Hj. rewrite app_length. cbn. destruct (H j Hj) as [A| ->]; [apply J2 in A|]; lia. }
      destruct (merge2_src_shape_gen acc s acc' x E1 Hacc (sort_params_nodup s Vs)) as [H|[H|[H|[H|H]]]]; rewrite H.
      * exists []. split; [constructor | split; [intros j [] | reflexivity]].
      * exists js. split; [exact J1 | split; [apply Hlen; auto | exact J3]].
      * exists [length pre]. split; [constructor; [intros []|constructor] | split; [apply Hlen; intros j [<-|[]]; auto | exact Hb]].
      * exists (js ++ [length pre]). split; [|split].
        -- apply nodup_app_intro; [exact J1 | constructor; [intros []|constructor] | intros j Hj [<-|[]]; exact (Hk Hj)].
        -- apply Hlen. intros j Hj. apply in_app_or in Hj. destruct Hj as [Hj|[<-|[]]]; auto.
        -- unfold cat_of. rewrite flat_map_app. fold (cat_of (pre ++ s :: rest) x js) (cat_of (pre ++ s :: rest) x [length pre]).
           rewrite <- J3, <- Hb. reflexivity.
      * exists (length pre :: js). split; [|split].
        -- constructor; assumption.
        -- apply Hlen. intros j [<-|Hj]; auto.
        -- unfold cat_of. cbn [flat_map]. fold (cat_of (pre ++ s :: rest) x js). rewrite Hs, <- J3. reflexivity.
Qed.

(* C08: through nested merges the provenance list of a name is the
   concatenation of the lists of DISTINCT inputs, each taken whole *)
Theorem merge_nested_src_shape ss r x :
  merge_nested ss = Ok r -> Forall (fun s => valid_sig (params s) = true) ss ->
  exists js, NoDup js /\ (forall j, In j js -> (j < length ss)%nat) /\ src_get (srcs r) x = cat_of ss x js.
Proof.
  destruct ss as [|s0 rest]; [discriminate|]. cbn [merge_nested]. intros E Hv.
  inversion Hv as [|? ? V0 Vr]; subst.
  apply (merge_nested_from_shape x (s0 :: rest) rest s0 [s0] r); [reflexivity | apply sort_params_nodup; exact V0 | | exact Vr | exact E].
  exists [0%nat]. split; [constructor; [intros []|constructor] | split; [intros j [<-|[]]; cbn; lia |]].
  unfold cat_of. cbn. rewrite app_nil_r. reflexivity.
Qed.

(* the same for the n-ary fold, for role-consistent inputs (no intermediate
   result with two parameters of one name) *)
Theorem merge_src_shape_rc ss r x :
  merge ss = Ok r -> Forall (fun s => valid_sig (params s) = true) ss ->
  role_consistent (map params ss) = true ->
  exists js, NoDup js /\ (forall j, In j js -> (j < length ss)%nat) /\ src_get (srcs r) x = cat_of ss x js.
Proof.
  intros E Hv Hrc. rewrite <- (merge_nested_eq_rc ss Hv Hrc) in E. apply merge_nested_src_shape; assumption.
Qed.

Lemma cat_of_nodup inputs x js :
  NoDup js ->
  (forall j, In j js -> NoDup (src_get (srcs (nth j inputs nosig)) x)) ->
  (forall j k f, In j js -> In k js -> j <> k -> In f (src_get (srcs (nth j inputs nosig)) x) ->
                 ~ In f (src_get (srcs (nth k inputs nosig)) x)) ->
  NoDup (cat_of inputs x js).
Proof.
  unfold cat_of. induction js as [|j js IH]; intros Hn H1 H2; cbn [flat_map]; [constructor|].
  inversion Hn as [|? ? Hj Hn']; subst. apply nodup_app_intro.
  - apply H1. left. reflexivity.
  - apply IH; [exact Hn' | intros k Hk; apply H1; right; exact Hk |].
    intros a b f Ha Hb Hab. apply H2; [right; exact Ha | right; exact Hb | exact Hab].
  - intros f Hf Hin. apply in_flat_map in Hin. destruct Hin as [k [Hk Hfk]].
    apply (H2 j k f); [left; reflexivity | right; exact Hk | intros ->; exact (Hj Hk) | exact Hf | exact Hfk].
Qed.

(* C08_nodup for nested / role-consistent n-ary merges: pairwise disjoint
   duplicate-free input lists give a duplicate-free result list *)
Theorem merge_nested_nodup ss r x :
  merge_nested ss = Ok r -> Forall (fun s => valid_sig (params s) = true) ss ->
  (forall j, NoDup (src_get (srcs (nth j ss nosig)) x)) ->
  (forall j k f, j <> k -> In f (src_get (srcs (nth j ss nosig)) x) -> ~ In f (src_get (srcs (nth k ss nosig)) x)) ->
  NoDup (src_get (srcs r) x).
Proof.
  intros E Hv H1 H2. destruct (merge_nested_src_shape ss r x E Hv) as (js & J1 & _ & ->).
  apply cat_of_nodup; [exact J1 | intros j _; apply H1 | intros j k f _ _; apply H2].
Qed.

Example merge_nested_src_shape_sat :
  exists r, merge_nested [dsig 100 [bp 1 PK; bp 9 VP; bp 10 VK]; dsig 101 [bp 1 PK; bp 2 PK]; dsig 102 [bp 1 PK; bp 2 PK; bp 10 VK]] = Ok r /\
            srcs r = [(1, [100; 101; 102]); (2, [101; 102])].
Proof. eexists. split; vm_compute; reflexivity. Qed.

Example forwards_src_exact_sat :
  exists r, forwards (dsig 100 [bp 1 PK; bp 9 VP; bp 10 VK]) (dsig 101 [bp 2 PK; bp 3 PK; bp 4 KO]) 1 [4] false false true true false = Ok r /\
            names_apart (params (dsig 100 [bp 1 PK; bp 9 VP; bp 10 VK])) (params (dsig 101 [bp 2 PK; bp 3 PK; bp 4 KO])) = true /\
            srcs r = [(3, [101]); (1, [100])].
Proof. eexists. split; [vm_compute; reflexivity|]. split; vm_compute; reflexivity. Qed.

(* without names_apart exactness is false: embed((x), (x=1)) without forwarding
   stars is (x) with the outer callable only; the inner signature declares x
   too, but its optional x is never fed (same on the implementation) *)
Theorem embed2_src_exact_needs_apart :
  exists o i r p, valid_sig (params o) = true /\ src_ok o /\ valid_sig (params i) = true /\ src_ok i /\
    embed [o; i] false false = Ok r /\ In p (params r) /\ is_named p = true /\
    src_get (srcs r) (pname p) = [100] /\ src_get (srcs i) (pname p) = [101].
Proof.
  exists (dsig 100 [bp 1 PK]), (dsig 101 [mkParam 1 PK (Some 1) None UEmpty]). eexists. exists (bp 1 PK).
  split; [vm_compute; reflexivity|]. split; [apply dsig_src_ok; vm_compute; reflexivity|].
  split; [vm_compute; reflexivity|]. split; [apply dsig_src_ok; vm_compute; reflexivity|].
  split; [vm_compute; reflexivity|]. split; [left; reflexivity|]. split; [reflexivity|].
  split; vm_compute; reflexivity.
Qed.

Print Assumptions mask_gen_src_shape.
Print Assumptions mask_gen_nodup.
Print Assumptions mask_src_shape.
Print Assumptions embed2_src_shape_gen.
Print Assumptions embed2_src_shape.
Print Assumptions embed2_nodup.
Print Assumptions forwards_src_shape.
Print Assumptions forwards_nodup.
Print Assumptions embed2_src_exact.
Print Assumptions forwards_src_exact.
Print Assumptions embed2_src_exact_needs_apart.
Print Assumptions merge_nested_src_shape.
Print Assumptions merge_src_shape_rc.
Print Assumptions merge_nested_nodup.
Print Assumptions merge_nested_src_shape_sat.
Print Assumptions forwards_src_exact_sat.
