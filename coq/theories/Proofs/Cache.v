(* Proofs/Cache.v — theorems for property C18 over Model/Cache.v. *)
From Coq Require Import Lia Permutation.
From Sigtools.Model Require Import Base Cache.

(* ================================================================== *)
(* generic facts                                                       *)
(* ================================================================== *)

Lemma mem_In : forall x l, mem x l = true <-> In x l.
Proof.
  intros x l. induction l as [|a l IH]; simpl.
  - split; [discriminate | tauto].
  - rewrite orb_true_iff, IH, N.eqb_eq. split; intros [H|H]; auto.
Qed.

Lemma mem_false_In : forall x l, mem x l = false <-> ~ In x l.
Proof.
  intros x l. rewrite <- mem_In. destruct (mem x l); split; intro H; try reflexivity;
    try discriminate. exfalso. apply H. reflexivity.
Qed.

Lemma mem_ext_perm : forall l1 l2 x, Permutation l1 l2 -> mem x l1 = mem x l2.
Proof.
  intros l1 l2 x HP. destruct (mem x l1) eqn:E1; destruct (mem x l2) eqn:E2; auto.
  - apply mem_In in E1. apply mem_false_In in E2. exfalso. apply E2.
    eapply Permutation_in; eauto.
  - apply mem_In in E2. apply mem_false_In in E1. exfalso. apply E1.
    eapply Permutation_in; [apply Permutation_sym|]; eauto.
Qed.

Lemma mem_app : forall x a b, mem x (a ++ b) = mem x a || mem x b.
Proof.
  intros x a b. induction a as [|y a IH]; simpl; auto. rewrite IH, orb_assoc. reflexivity.
Qed.

Lemma forallb_ext_mem : forall (P : N -> bool) l1 l2,
  (forall x, mem x l1 = mem x l2) -> forallb P l1 = forallb P l2.
Proof.
  intros P l1 l2 H.
  assert (A : forall a b, (forall x, mem x a = mem x b) -> forallb P a = true -> forallb P b = true).
  { intros a b Hab Ha. rewrite forallb_forall in *. intros x Hx.
    apply Ha. apply mem_In. rewrite Hab. apply mem_In. exact Hx. }
  destruct (forallb P l1) eqn:E1; destruct (forallb P l2) eqn:E2; auto.
  - rewrite (A l1 l2 H E1) in E2. discriminate.
  - rewrite (A l2 l1 (fun x => eq_sym (H x)) E2) in E1. discriminate.
Qed.

(* ================================================================== *)
(* (c) heap: reachability                                              *)
(* ================================================================== *)

Inductive Reach (es : list edge) (roots : list N) : N -> Prop :=
| R_root : forall x, In x roots -> Reach es roots x
| R_step : forall x y, Reach es roots x -> In (x, y) es -> Reach es roots y.

Lemma Reach_closed : forall es roots (S : N -> Prop),
  (forall x, In x roots -> S x) ->
  (forall a b, In (a, b) es -> S a -> S b) ->
  forall y, Reach es roots y -> S y.
Proof.
  intros es roots S Hr Hc y HR. induction HR as [x Hx | x y HR IH He].
  - apply Hr; exact Hx.
  - eapply Hc; eauto.
Qed.

Lemma step_reach_sound : forall es roots seen,
  (forall z, In z seen -> Reach es roots z) ->
  forall y, In y (step_reach es seen) -> Reach es roots y.
Proof.
  intros es roots seen Hs y Hy. unfold step_reach in Hy. apply in_app_or in Hy.
  destruct Hy as [Hy|Hy]; [apply Hs; exact Hy|].
  apply filter_In in Hy. destruct Hy as [Hy _].
  apply in_map_iff in Hy. destruct Hy as [[a b] [Hb Hin]]. simpl in Hb. subst b.
  apply filter_In in Hin. destruct Hin as [Hin Hm]. simpl in Hm. apply mem_In in Hm.
  eapply R_step; [apply Hs; exact Hm | exact Hin].
Qed.

Lemma closure_sound_gen : forall fuel es roots seen,
  (forall z, In z seen -> Reach es roots z) ->
  forall y, In y (closure fuel es seen) -> Reach es roots y.
Proof.
  induction fuel as [|f IH]; intros es roots seen Hs y Hy; simpl in Hy.
  - apply Hs; exact Hy.
  - eapply IH; [|exact Hy]. intros z Hz. eapply step_reach_sound; eauto.
Qed.

(* what the fuel-bounded closure finds is reachable *)
Lemma closure_sound : forall fuel es roots y,
  In y (closure fuel es roots) -> Reach es roots y.
Proof.
  intros. eapply closure_sound_gen; [|eassumption]. intros z Hz. apply R_root; exact Hz.
Qed.

Lemma live_sound : forall strong ws roots y,
  In y (live strong ws roots) -> Reach (all_edges strong ws) roots y.
Proof. intros. unfold live in H. eapply closure_sound; eauto. Qed.

Lemma collect_shape : forall fuel strong ws roots,
  exists ws2, incl ws2 ws /\ collect fuel strong ws roots = (ws2, live strong ws2 roots).
Proof.
  induction fuel as [|f IH]; intros strong ws roots; simpl.
  - exists ws. split; [apply incl_refl | reflexivity].
  - destruct (Nat.eqb _ _).
    + exists ws. split; [apply incl_refl | reflexivity].
    + destruct (IH strong (filter (fun w => mem (we_key w) (live strong ws roots)) ws) roots)
        as [ws2 [Hi He]].
      exists ws2. split; [|exact He].
      intros w Hw. apply Hi in Hw. apply filter_In in Hw. tauto.
Qed.

(* ================================================================== *)
(* (b) the descriptor cache: invariants                                *)
(* ================================================================== *)

Lemma cache_find_In : forall c x w, cache_find c x = Some w -> In (x, w) c.
Proof.
  induction c as [|[k w'] c IH]; intros x w H; simpl in H; [discriminate|].
  destruct (N.eqb x k) eqn:E.
  - apply N.eqb_eq in E. inversion H. subst. left. reflexivity.
  - right. apply IH. exact H.
Qed.

Lemma cache_find_None : forall c x, cache_find c x = None -> ~ In x (map fst c).
Proof.
  induction c as [|[k w'] c IH]; intros x H; simpl in *; [tauto|].
  destruct (N.eqb x k) eqn:E; [discriminate|]. apply N.eqb_neq in E.
  intros [H1|H1]; [congruence | eapply IH; eauto].
Qed.

(* every cached wrapper is bound to the instance of its key *)
Definition cinv (st : cstate) : Prop :=
  forall x w, In (x, w) (c_cache st) -> w_inst w = x.

(* every cached wrapper was computed from the current decoration *)
Definition vinv (st : cstate) : Prop :=
  forall x w, In (x, w) (c_cache st) -> w_ver w = c_ver st.

Lemma touch_ok : forall k st x keep,
  cinv st -> w_inst (snd (touch k st x keep)) = x /\ cinv (fst (touch k st x keep)).
Proof.
  intros k st x keep HC. destruct k; simpl.
  - destruct (cache_find (c_cache st) x) as [w|] eqn:E; simpl.
    + split; [apply HC; apply cache_find_In; exact E | exact HC].
    + split; [reflexivity|]. intros x' w' [H|H]; [inversion H; reflexivity | apply HC; exact H].
  - split; [reflexivity | exact HC].
  - split; [reflexivity | exact HC].
Qed.

Lemma touch_ver : forall st x keep,
  vinv st -> w_ver (snd (touch DPok st x keep)) = c_ver st /\ vinv (fst (touch DPok st x keep))
             /\ c_ver (fst (touch DPok st x keep)) = c_ver st.
Proof.
  intros st x keep HV. simpl.
  destruct (cache_find (c_cache st) x) as [w|] eqn:E; simpl.
  - split; [eapply HV; apply cache_find_In; exact E | split; [exact HV | reflexivity]].
  - split; [reflexivity|]. split; [|reflexivity].
    intros x' w' [H|H]; [inversion H; reflexivity | apply (HV x' w'); exact H].
Qed.

Lemma touch_ver_other : forall k st x keep, k <> DPok ->
  w_ver (snd (touch k st x keep)) = vis_ver k (c_ver st)
  /\ c_ver (fst (touch k st x keep)) = c_ver st.
Proof. intros k st x keep Hk. destruct k; simpl; try tauto; split; reflexivity. Qed.

Lemma step_cinv : forall k st o, cinv st -> cinv (fst (impl_step k st o)).
Proof.
  intros k st o HC. destruct o as [[s|]|[s|]|s| |s|s]; simpl; try exact HC;
    try (apply touch_ok; exact HC).
  intros x w H. apply filter_In in H. apply HC. tauto.
Qed.

Lemma step_ver : forall k st o, c_ver (fst (impl_step k st o)) = fst (spec_step k (c_ver st) o).
Proof.
  intros k st o. destruct o as [[s|]|[s|]|s| |s|s]; simpl; try reflexivity;
    destruct k; simpl; try reflexivity;
    destruct (cache_find _ _); reflexivity.
Qed.

(* --- C18_history, binding part: every history, every kind ---------- *)
Definition obs_bind (o : obs) : N * bool := (o_tag o, o_ok o).

Lemma history_binding_gen : forall k h st v, cinv st ->
  map obs_bind (run_impl k st h) = map obs_bind (run_spec k v h).
Proof.
  intros k h. induction h as [|o h IH]; intros st v HC; [reflexivity|].
  simpl. f_equal.
  - destruct o as [[s|]|[s|]|s| |s|s]; simpl; unfold obs_bind; simpl; try reflexivity;
      destruct (touch_ok k st (slot_inst st s) true HC) as [H1 _];
      destruct (touch_ok k st (slot_inst st s) false HC) as [H2 _];
      try rewrite H1; try rewrite H2; rewrite N.eqb_refl; reflexivity.
  - apply IH. apply step_cinv. exact HC.
Qed.

Lemma cinv_init : cinv c_init.
Proof. intros x w H. inversion H. Qed.

Theorem history_binding : forall k h,
  map obs_bind (run_impl k c_init h) = map obs_bind (run_spec k 0 h).
Proof. intros. apply history_binding_gen. apply cinv_init. Qed.

(* --- C18_history, full behavioural refinement ---------------------- *)
Definition obs_beh (o : obs) : N * bool * N := (o_tag o, o_ok o, o_ver o).

Lemma history_refines_other : forall k h st, k <> DPok -> cinv st ->
  map obs_beh (run_impl k st h) = map obs_beh (run_spec k (c_ver st) h).
Proof.
  intros k h. induction h as [|o h IH]; intros st Hk HC; [reflexivity|].
  simpl. f_equal.
  - destruct o as [[s|]|[s|]|s| |s|s]; simpl; unfold obs_beh; simpl; try reflexivity;
      destruct (touch_ok k st (slot_inst st s) true HC) as [H1 _];
      destruct (touch_ok k st (slot_inst st s) false HC) as [H2 _];
      destruct (touch_ver_other k st (slot_inst st s) true Hk) as [V1 _];
      destruct (touch_ver_other k st (slot_inst st s) false Hk) as [V2 _];
      try rewrite H1; try rewrite H2; try rewrite V1; try rewrite V2;
      rewrite N.eqb_refl; reflexivity.
  - rewrite <- step_ver. apply IH; [exact Hk | apply step_cinv; exact HC].
Qed.

Lemma history_refines_pok : forall h st touched,
  cinv st -> vinv st -> (touched = false -> c_cache st = []) ->
  no_redecorate_after_touch touched h = true ->
  map obs_beh (run_impl DPok st h) = map obs_beh (run_spec DPok (c_ver st) h).
Proof.
  induction h as [|o h IH]; intros st touched HC HV HT HN; [reflexivity|].
  simpl. f_equal.
  - destruct o as [[s|]|[s|]|s| |s|s]; unfold obs_beh; try reflexivity.
    + destruct (touch_ok DPok st (slot_inst st s) true HC) as [H1 _].
      destruct (touch_ver st (slot_inst st s) true HV) as [V1 _].
      cbn [impl_step spec_step fst snd o_tag o_ok o_ver].
      rewrite H1, V1, N.eqb_refl. reflexivity.
    + destruct (touch_ok DPok st (slot_inst st s) false HC) as [H1 _].
      destruct (touch_ver st (slot_inst st s) false HV) as [V1 _].
      cbn [impl_step spec_step fst snd o_tag o_ok o_ver].
      rewrite H1, V1, N.eqb_refl. reflexivity.
    + destruct (touch_ok DPok st (slot_inst st s) false HC) as [H1 _].
      cbn [impl_step spec_step fst snd o_tag o_ok o_ver].
      rewrite H1, N.eqb_refl. reflexivity.
  - rewrite <- step_ver.
    destruct o as [[s|]|[s|]|s| |s|s].
    + apply (IH _ true); [apply step_cinv; exact HC | | discriminate | exact HN].
      cbn [impl_step fst]. apply touch_ver; exact HV.
    + apply (IH _ touched); auto.
    + apply (IH _ true); [apply step_cinv; exact HC | | discriminate | exact HN].
      cbn [impl_step fst]. apply touch_ver; exact HV.
    + apply (IH _ touched); auto.
    + apply (IH _ true); [apply step_cinv; exact HC | | discriminate | exact HN].
      cbn [impl_step fst]. apply touch_ver; exact HV.
    + simpl in HN. destruct touched; [discriminate|].
      apply (IH _ false); [exact HC | | | exact HN].
      * intros x w H. simpl in H. rewrite (HT eq_refl) in H. inversion H.
      * intros _. simpl. apply HT. reflexivity.
    + apply (IH _ touched); [apply step_cinv; exact HC | | | exact HN].
      * intros x w H. cbn [impl_step fst c_cache c_ver] in *. apply filter_In in H.
        apply (HV x w). tauto.
      * intros Ht. cbn [impl_step fst c_cache]. rewrite (HT Ht). reflexivity.
    + apply (IH _ touched); auto.
Qed.

Theorem history_refines : forall k h,
  k <> DPok \/ no_redecorate_after_touch false h = true ->
  map obs_beh (run_impl k c_init h) = map obs_beh (run_spec k 0 h).
Proof.
  intros k h [Hk|HN].
  - apply (history_refines_other k h c_init Hk cinv_init).
  - destruct k.
    + apply (history_refines_pok h c_init false); auto using cinv_init.
      intros x w H; inversion H.
    + apply (history_refines_other DFunc h c_init); [discriminate | apply cinv_init].
    + apply (history_refines_other DWrap h c_init); [discriminate | apply cinv_init].
Qed.

Example history_refines_sat :
  no_redecorate_after_touch false [OpRedecorate; OpGet (Some false); OpCall true; OpDrop false] = true.
Proof. reflexivity. Qed.

(* the premise cannot be dropped: a wrapper cached before a re-decoration
   keeps advertising the old signature *)
Theorem history_stale_refuted :
  exists h, map obs_beh (run_impl DPok c_init h) <> map obs_beh (run_spec DPok 0 h).
Proof.
  exists [OpGet (Some false); OpRedecorate; OpRetrieve (Some false)].
  vm_compute. discriminate.
Qed.

(* ================================================================== *)
(* (c) reclamation                                                     *)
(* ================================================================== *)

Record hinv (st : cstate) : Prop := mkHinv {
  hi_slot0 : 10 <= c_slot0 st /\ c_slot0 st < c_next st;
  hi_slot1 : 10 <= c_slot1 st /\ c_slot1 st < c_next st;
  hi_unowned : forall s o, ~ In (slot_inst st s, o) (c_owner st);
  hi_rng : forall y o, In (y, o) (c_owner st) ->
             10 <= y /\ y < c_next st /\ 10 <= o /\ o < c_next st;
  hi_fun : forall y o o', In (y, o) (c_owner st) -> In (y, o') (c_owner st) -> o = o';
  hi_inst : forall y o o', In (y, o) (c_owner st) -> ~ In (o, o') (c_owner st);
  hi_strong : forall a b, In (a, b) (c_strong st) ->
      (a < 10 /\ b < 10) \/
      (exists o, In (a, o) (c_owner st) /\ (b = o \/ In (b, o) (c_owner st) \/ b < 10));
  hi_weak : forall w, In w (c_weak st) ->
      exists o wr, In (o, wr) (c_cache st) /\ w_id wr = we_val w /\ In (we_val w, o) (c_owner st)
}.

Lemma hinv_init : hinv c_init.
Proof.
  constructor; simpl; try lia; try (intros; tauto).
  - intros a b [H|[H|[H|H]]]; try tauto; inversion H; subst; left; unfold n_class, n_desc, n_dict, n_func; lia.
Qed.

Lemma slot_rng : forall st s, hinv st -> 10 <= slot_inst st s /\ slot_inst st s < c_next st.
Proof. intros st s H. destruct s; simpl; [apply (hi_slot1 st H) | apply (hi_slot0 st H)]. Qed.

(* adding the objects created for instance x keeps the invariant; generic in
   the two shapes of new owner pairs *)
Lemma hinv_locals : forall st l,
  hinv st ->
  hinv (mkC (c_next st) (c_ver st) (c_slot0 st) (c_slot1 st) (c_cache st) (c_strong st)
            (c_weak st) (c_owner st) l).
Proof. intros st l H. destruct H. constructor; simpl; auto. Qed.

Ltac slot_unowned st H :=
  let s' := fresh "s" in let o := fresh "o" in let Hc := fresh "Hc" in
  intros s' o; destruct s'; simpl; intros Hc;
  repeat (destruct Hc as [Hc|Hc]; [inversion Hc; lia|]);
  [exact (hi_unowned st H true o Hc) | exact (hi_unowned st H false o Hc)].

Lemma touch_hinv : forall k st s keep,
  hinv st -> hinv (fst (touch k st (slot_inst st s) keep)).
Proof.
  intros k st s keep H.
  pose proof (slot_rng st s H) as Hx.
  pose proof (hi_slot0 st H) as H0. pose proof (hi_slot1 st H) as H1.
  set (x := slot_inst st s) in *.
  assert (Hxu : forall o, ~ In (x, o) (c_owner st)) by (intro o; apply (hi_unowned st H s o)).
  destruct k; simpl.
  - (* DPok *)
    destruct (cache_find (c_cache st) x) as [w|] eqn:E; simpl.
    + apply hinv_locals. exact H.
    + constructor; simpl.
      * lia.
      * lia.
      * slot_unowned st H.
      * intros y o [Hc|[Hc|Hc]]; try (inversion Hc; subst; lia).
        pose proof (hi_rng st H y o Hc). lia.
      * intros y o o' [Hc|[Hc|Hc]] [Hd|[Hd|Hd]];
          try (inversion Hc; inversion Hd; subst; try reflexivity; lia);
          try (inversion Hc; subst; pose proof (hi_rng st H _ _ Hd); lia);
          try (inversion Hd; subst; pose proof (hi_rng st H _ _ Hc); lia).
        eapply (hi_fun st H); eauto.
      * intros y o o' [Hc|[Hc|Hc]] [Hd|[Hd|Hd]];
          try (inversion Hc; inversion Hd; subst; lia);
          try (inversion Hc; subst; apply (Hxu o'); exact Hd);
          try (inversion Hd; subst; pose proof (hi_rng st H _ _ Hc); lia).
        exact (hi_inst st H y o o' Hc Hd).
      * intros a b [Hc|[Hc|[Hc|[Hc|Hc]]]].
        -- inversion Hc; subst. right. exists x. split; [right; left; reflexivity|].
           right. left. left. reflexivity.
        -- inversion Hc; subst. right. exists x. split; [right; left; reflexivity|].
           right. right. unfold n_desc. lia.
        -- inversion Hc; subst. right. exists x. split; [left; reflexivity|]. left. reflexivity.
        -- inversion Hc; subst. right. exists x. split; [left; reflexivity|].
           right. right. unfold n_func. lia.
        -- destruct (hi_strong st H a b Hc) as [Hf|[o [Ho Hb]]]; [left; exact Hf|].
           right. exists o. split; [right; right; exact Ho|].
           destruct Hb as [Hb|[Hb|Hb]]; simpl; tauto.
      * intros w [Hc|Hc].
        -- subst w. simpl. exists x, (mkW (N.succ (c_next st)) x (c_ver st)).
           split; [left; reflexivity|]. split; [reflexivity|]. right. left. reflexivity.
        -- destruct (hi_weak st H w Hc) as [o [wr [Ha [Hb Hd]]]].
           exists o, wr. split; [right; exact Ha|]. split; [exact Hb|]. right. right. exact Hd.
  - (* DFunc *)
    constructor; simpl.
    + lia.
    + lia.
    + slot_unowned st H.
    + intros y o [Hc|Hc]; try (inversion Hc; subst; lia).
      pose proof (hi_rng st H y o Hc). lia.
    + intros y o o' [Hc|Hc] [Hd|Hd];
        try (inversion Hc; inversion Hd; subst; try reflexivity; lia);
        try (inversion Hc; subst; pose proof (hi_rng st H _ _ Hd); lia);
        try (inversion Hd; subst; pose proof (hi_rng st H _ _ Hc); lia).
      eapply (hi_fun st H); eauto.
    + intros y o o' [Hc|Hc] [Hd|Hd];
        try (inversion Hc; inversion Hd; subst; lia);
        try (inversion Hc; subst; apply (Hxu o'); exact Hd);
        try (inversion Hd; subst; pose proof (hi_rng st H _ _ Hc); lia).
      exact (hi_inst st H y o o' Hc Hd).
    + intros a b [Hc|[Hc|Hc]].
      * inversion Hc; subst. right. exists x. split; [left; reflexivity|]. left. reflexivity.
      * inversion Hc; subst. right. exists x. split; [left; reflexivity|].
        right. right. unfold n_func. lia.
      * destruct (hi_strong st H a b Hc) as [Hf|[o [Ho Hb]]]; [left; exact Hf|].
        right. exists o. split; [right; exact Ho|].
        destruct Hb as [Hb|[Hb|Hb]]; simpl; tauto.
    + intros w Hc. destruct (hi_weak st H w Hc) as [o [wr [Ha [Hb Hd]]]].
      exists o, wr. split; [exact Ha|]. split; [exact Hb|]. right. exact Hd.
  - (* DWrap *)
    constructor; simpl.
    + lia.
    + lia.
    + slot_unowned st H.
    + intros y o [Hc|[Hc|Hc]]; try (inversion Hc; subst; lia).
      pose proof (hi_rng st H y o Hc). lia.
    + intros y o o' [Hc|[Hc|Hc]] [Hd|[Hd|Hd]];
        try (inversion Hc; inversion Hd; subst; try reflexivity; lia);
        try (inversion Hc; subst; pose proof (hi_rng st H _ _ Hd); lia);
        try (inversion Hd; subst; pose proof (hi_rng st H _ _ Hc); lia).
      eapply (hi_fun st H); eauto.
    + intros y o o' [Hc|[Hc|Hc]] [Hd|[Hd|Hd]];
        try (inversion Hc; inversion Hd; subst; lia);
        try (inversion Hc; subst; apply (Hxu o'); exact Hd);
        try (inversion Hd; subst; pose proof (hi_rng st H _ _ Hc); lia).
      exact (hi_inst st H y o o' Hc Hd).
    + intros a b [Hc|[Hc|[Hc|Hc]]].
      * inversion Hc; subst. right. exists x. split; [right; left; reflexivity|].
        right. left. left. reflexivity.
      * inversion Hc; subst. right. exists x. split; [left; reflexivity|]. left. reflexivity.
      * inversion Hc; subst. right. exists x. split; [left; reflexivity|].
        right. right. unfold n_func. lia.
      * destruct (hi_strong st H a b Hc) as [Hf|[o [Ho Hb]]]; [left; exact Hf|].
        right. exists o. split; [right; right; exact Ho|].
        destruct Hb as [Hb|[Hb|Hb]]; simpl; tauto.
    + intros w Hc. destruct (hi_weak st H w Hc) as [o [wr [Ha [Hb Hd]]]].
      exists o, wr. split; [exact Ha|]. split; [exact Hb|]. right. right. exact Hd.
Qed.

Lemma owned_by_false : forall st y x,
  owned_by st y x = false -> y <> x /\ ~ In (y, x) (c_owner st).
Proof.
  intros st y x Ho. unfold owned_by in Ho. apply orb_false_iff in Ho. destruct Ho as [Ha Hb].
  apply N.eqb_neq in Ha. split; [exact Ha|].
  intro Hin. assert (Hc : existsb (fun p => N.eqb (fst p) y && N.eqb (snd p) x) (c_owner st) = true).
  { apply existsb_exists. exists (y, x). split; [exact Hin|]. simpl. rewrite !N.eqb_refl. reflexivity. }
  rewrite Hc in Hb. discriminate.
Qed.

(* the heart of the lifetime argument: an instance none of whose bound
   functions is a key of the cache is not strongly reachable once the caller
   has dropped it and what it obtained from it *)
Lemma drop_unreachable : forall st s ws2,
  hinv st -> incl ws2 (c_weak st) ->
  ~ In (slot_inst st s) (map fst (c_cache st)) ->
  ~ Reach (all_edges (c_strong st) ws2)
          (n_class :: filter (fun y => negb (owned_by st y (slot_inst st s))) (c_locals st))
          (slot_inst st s).
Proof.
  intros st s ws2 H Hi Hnc HR.
  pose proof (slot_rng st s H) as Hx.
  set (x := slot_inst st s) in *.
  assert (Hxu : forall o, ~ In (x, o) (c_owner st)) by (intro o; apply (hi_unowned st H s o)).
  assert (HS : x <> x /\ ~ In (x, x) (c_owner st)); [|destruct HS as [HS _]; apply HS; reflexivity].
  apply (Reach_closed _ _ (fun y => y <> x /\ ~ In (y, x) (c_owner st))) in HR; [exact HR| |].
  - intros y [Hy|Hy].
    + subst y. unfold n_class. split; [lia|]. intro Hc. pose proof (hi_rng st H _ _ Hc). lia.
    + apply filter_In in Hy. destruct Hy as [_ Hy]. apply negb_true_iff in Hy.
      apply owned_by_false. exact Hy.
  - intros a b He [Sa1 Sa2]. unfold all_edges in He. apply in_app_or in He. destruct He as [He|He].
    + destruct (hi_strong st H a b He) as [[Ha Hb]|[o [Ho Hb]]].
      * split; [lia|]. intro Hc. pose proof (hi_rng st H _ _ Hc). lia.
      * assert (Hox : o <> x) by (intro; subst o; apply Sa2; exact Ho).
        destruct Hb as [Hb|[Hb|Hb]].
        -- subst b. split; [exact Hox|]. exact (hi_inst st H a o x Ho).
        -- split.
           ++ intro; subst b. exact (Hxu o Hb).
           ++ intro Hc. apply Hox. exact (hi_fun st H b o x Hb Hc).
        -- split; [lia|]. intro Hc. pose proof (hi_rng st H _ _ Hc). lia.
    + unfold weak_edges in He. apply in_map_iff in He. destruct He as [w [Hw Hin]].
      inversion Hw; subst a b. apply Hi in Hin.
      destruct (hi_weak st H w Hin) as [o [wr [Hc1 [Hc2 Hc3]]]].
      assert (Hox : o <> x).
      { intro; subst o. apply Hnc. apply in_map_iff. exists (x, wr). split; [reflexivity | exact Hc1]. }
      split.
      * intro Hc. rewrite Hc in Hc3. exact (Hxu o Hc3).
      * intro Hc. apply Hox. exact (hi_fun st H _ o x Hc3 Hc).
Qed.

Lemma drop_reclaims : forall k st s,
  hinv st -> ~ In (slot_inst st s) (map fst (c_cache st)) ->
  o_reclaimed (snd (impl_step k st (OpDrop s))) = true.
Proof.
  intros k st s H Hnc. cbn [impl_step snd o_reclaimed].
  destruct (collect_shape (length (c_weak st)) (c_strong st) (c_weak st)
              (n_class :: filter (fun y => negb (owned_by st y (slot_inst st s))) (c_locals st)))
    as [ws2 [Hi He]].
  rewrite He. cbn [snd]. apply negb_true_iff. apply mem_false_In. intro Hin.
  apply live_sound in Hin. eapply drop_unreachable; eauto.
Qed.

Lemma drop_hinv : forall k st s, hinv st -> hinv (fst (impl_step k st (OpDrop s))).
Proof.
  intros k st s H. cbn [impl_step fst].
  destruct (collect_shape (length (c_weak st)) (c_strong st) (c_weak st)
              (n_class :: filter (fun y => negb (owned_by st y (slot_inst st s))) (c_locals st)))
    as [ws2 [Hi He]].
  rewrite He. cbn [fst].
  pose proof (hi_slot0 st H) as H0. pose proof (hi_slot1 st H) as H1.
  constructor; simpl.
  - destruct s; lia.
  - destruct s; lia.
  - intros s' o Hc. destruct s; destruct s'; simpl in Hc;
      try (pose proof (hi_rng st H _ _ Hc); lia).
    + exact (hi_unowned st H false o Hc).
    + exact (hi_unowned st H true o Hc).
  - intros y o Hc. pose proof (hi_rng st H y o Hc). lia.
  - exact (hi_fun st H).
  - exact (hi_inst st H).
  - exact (hi_strong st H).
  - intros w Hw. destruct (hi_weak st H w (Hi w Hw)) as [o [wr [Hc1 [Hc2 Hc3]]]].
    exists o, wr. split; [|split; assumption].
    apply filter_In. split; [exact Hc1|]. simpl. apply existsb_exists. exists w.
    split; [exact Hw|]. rewrite Hc2. apply N.eqb_refl.
Qed.

Lemma step_hinv : forall k st o, hinv st -> hinv (fst (impl_step k st o)).
Proof.
  intros k st o H. destruct o as [[s|]|[s|]|s| |s|s]; try exact H.
  - cbn [impl_step fst]. apply touch_hinv; exact H.
  - cbn [impl_step fst]. apply touch_hinv; exact H.
  - cbn [impl_step fst]. apply touch_hinv; exact H.
  - cbn [impl_step fst]. destruct H. constructor; simpl; auto.
  - apply drop_hinv; exact H.
Qed.

(* kinds without the cache never populate it *)
Lemma step_nocache : forall k st o, k <> DPok -> c_cache st = [] ->
  c_cache (fst (impl_step k st o)) = [].
Proof.
  intros k st o Hk Hc. destruct o as [[s|]|[s|]|s| |s|s]; simpl; try exact Hc;
    try (destruct k; simpl; tauto).
  rewrite Hc. reflexivity.
Qed.

(* C18_reclaim_partial: for the descriptors that do not go through
   OverrideableDataDesc, the complete observation sequence (binding, advertised
   signature, reclamation after every drop) equals the specification's *)
Lemma full_refines_gen : forall k h st, k <> DPok -> cinv st -> hinv st -> c_cache st = [] ->
  run_impl k st h = run_spec k (c_ver st) h.
Proof.
  intros k h. induction h as [|o h IH]; intros st Hk HC HH Hc; [reflexivity|].
  simpl. f_equal.
  - destruct o as [[s|]|[s|]|s| |s|s]; try reflexivity;
      try (cbn [impl_step spec_step fst snd];
           destruct (touch_ok k st (slot_inst st s) true HC) as [H1 _];
           destruct (touch_ok k st (slot_inst st s) false HC) as [H2 _];
           destruct (touch_ver_other k st (slot_inst st s) true Hk) as [V1 _];
           destruct (touch_ver_other k st (slot_inst st s) false Hk) as [V2 _];
           try rewrite H1; try rewrite H2; try rewrite V1; try rewrite V2;
           rewrite N.eqb_refl; reflexivity).
    assert (Hr : o_reclaimed (snd (impl_step k st (OpDrop s))) = true).
    { apply drop_reclaims; [exact HH|]. rewrite Hc. simpl. tauto. }
    cbn [impl_step snd o_reclaimed spec_step] in *. rewrite Hr. reflexivity.
  - rewrite <- step_ver. apply IH; auto using step_cinv, step_hinv, step_nocache.
Qed.

Theorem reclaim_partial : forall k h, k <> DPok -> run_impl k c_init h = run_spec k 0 h.
Proof.
  intros k h Hk. apply (full_refines_gen k h c_init Hk cinv_init hinv_init). reflexivity.
Qed.

Example reclaim_partial_sat : DFunc <> DPok /\ DWrap <> DPok.
Proof. split; discriminate. Qed.

(* ... and for the caching descriptor: any instance that is not a cache key at
   the time it is dropped is reclaimed, after any history *)
Theorem reclaim_untouched : forall k h s,
  let st := run_state k c_init h in
  ~ In (slot_inst st s) (map fst (c_cache st)) ->
  o_reclaimed (snd (impl_step k st (OpDrop s))) = true.
Proof.
  intros k h s st Hn. apply drop_reclaims; [|exact Hn].
  unfold st. clear Hn st.
  assert (G : forall h st0, hinv st0 -> hinv (run_state k st0 h)).
  { induction h0 as [|o h0 IH]; intros st0 H0; simpl; [exact H0|]. apply IH. apply step_hinv. exact H0. }
  apply G. apply hinv_init.
Qed.

Example reclaim_untouched_sat :
  let st := run_state DPok c_init [OpGet (Some true); OpGet None] in
  ~ In (slot_inst st false) (map fst (c_cache st)).
Proof. vm_compute. intros [H|H]; [discriminate | exact H]. Qed.

(* C18_reclaim_refuted: on the faithful model the instance stays strongly
   reachable (insts -> wrapper -> wrapper.func = the weak key -> __self__)
   after the caller dropped every reference *)
Definition leak_witness : list op := [OpGet (Some false); OpDrop false].

Theorem reclaim_refuted :
  run_impl DPok c_init leak_witness <> run_spec DPok 0 leak_witness
  /\ (let st := run_state DPok c_init [OpGet (Some false)] in
      let x := slot_inst st false in
      Reach (all_edges (c_strong st) (c_weak st))
            (n_class :: filter (fun y => negb (owned_by st y x)) (c_locals st)) x).
Proof.
  split.
  - vm_compute. discriminate.
  - apply (closure_sound 6). apply mem_In. vm_compute. reflexivity.
Qed.

(* ================================================================== *)
(* (a) modifier stacking: order independence                           *)
(* ================================================================== *)

Lemma forallb_ext_fun : forall (A : Type) (f g : A -> bool) l,
  (forall x, f x = g x) -> forallb f l = forallb g l.
Proof. intros A f g l H. induction l as [|a l IH]; simpl; [reflexivity|]. rewrite H, IH. reflexivity. Qed.

Lemma existsb_ext_fun : forall (A : Type) (f g : A -> bool) l,
  (forall x, f x = g x) -> existsb f l = existsb g l.
Proof. intros A f g l H. induction l as [|a l IH]; simpl; [reflexivity|]. rewrite H, IH. reflexivity. Qed.

Lemma prep_step_ext : forall f f' g g' acc ip,
  (forall x, f x = f' x) -> (forall x, g x = g' x) ->
  prep_step f g acc ip = prep_step f' g' acc ip.
Proof.
  intros f f' g g' acc ip Hf Hg. unfold prep_step. destruct acc as [a|]; [|reflexivity].
  rewrite !Hf, !Hg. reflexivity.
Qed.

Lemma fold_prep_ext : forall f f' g g' l acc,
  (forall x, f x = f' x) -> (forall x, g x = g' x) ->
  fold_left (prep_step f g) l acc = fold_left (prep_step f' g') l acc.
Proof.
  intros f f' g g' l. induction l as [|ip l IH]; intros acc Hf Hg; simpl; [reflexivity|].
  rewrite (prep_step_ext f f' g g' acc ip Hf Hg). apply IH; assumption.
Qed.

(* _prepare depends on the name SETS only *)
Lemma prepare_ext : forall pos pos' kwo kwo' ps,
  (forall x, mem x pos = mem x pos') -> (forall x, mem x kwo = mem x kwo') ->
  prepare pos kwo ps = prepare pos' kwo' ps.
Proof.
  intros pos pos' kwo kwo' ps Hp Hk. unfold prepare.
  assert (Hd : disjoint pos kwo = disjoint pos' kwo').
  { unfold disjoint.
    rewrite (forallb_ext_fun _ (fun x => negb (mem x kwo)) (fun x => negb (mem x kwo')) pos)
      by (intro x; rewrite Hk; reflexivity).
    apply forallb_ext_mem. exact Hp. }
  rewrite Hd.
  rewrite (fold_prep_ext (fun x => mem x pos) (fun x => mem x pos')
                         (fun x => mem x kwo) (fun x => mem x kwo') _ _ Hp Hk).
  destruct (negb (disjoint pos' kwo')); [reflexivity|].
  destruct (fold_left _ _ _) as [a|]; [|reflexivity].
  assert (Hu : forallb (fun x => mem x (pa_used a)) (union pos kwo)
               = forallb (fun x => mem x (pa_used a)) (union pos' kwo')).
  { apply forallb_ext_mem. intro x. unfold union. rewrite !mem_app, Hp, Hk. reflexivity. }
  rewrite Hu. reflexivity.
Qed.

Lemma pok_call_with_ext : forall f f' kp a k,
  (forall x, f x = f' x) -> pok_call_with f kp a k = pok_call_with f' kp a k.
Proof.
  intros f f' kp a k H. unfold pok_call_with.
  rewrite (existsb_ext_fun _ (fun kv => f (fst kv)) (fun kv => f' (fst kv)) k)
    by (intro x; apply H).
  reflexivity.
Qed.

(* two decorated objects that agree on the innermost signature and on the name
   sets advertise the same signature and behave the same when called *)
Definition dequiv (d1 d2 : dobj) : Prop :=
  d_params d1 = d_params d2 /\ d_ret d1 = d_ret d2 /\
  (forall x, mem x (d_pos d1) = mem x (d_pos d2)) /\
  (forall x, mem x (d_kwo d1) = mem x (d_kwo d2)).

Lemma dequiv_advertised : forall d1 d2, dequiv d1 d2 -> advertised d1 = advertised d2.
Proof.
  intros d1 d2 [Hp [_ [H1 H2]]]. unfold advertised. rewrite Hp. apply prepare_ext; assumption.
Qed.

Lemma dequiv_call : forall d1 d2 a k, dequiv d1 d2 -> pok_call d1 a k = pok_call d2 a k.
Proof.
  intros d1 d2 a k H. unfold pok_call. rewrite (dequiv_advertised d1 d2 H).
  destruct (advertised d2) as [r|]; [|reflexivity].
  apply pok_call_with_ext. destruct H as [_ [_ [H1 _]]]. exact H1.
Qed.

(* --- what a successful run of explicit modifiers leaves behind ----- *)
Definition explicit (m : modifier) : Prop :=
  match m with MKwo _ | MPos _ | MAnn _ _ => True | _ => False end.
Definition mod_pos (m : modifier) : list name := match m with MPos ns => ns | _ => [] end.
Definition mod_kwo (m : modifier) : list name := match m with MKwo ns => ns | _ => [] end.
Definition mod_anns (m : modifier) : list (name * N) := match m with MAnn _ a => a | _ => [] end.
Definition mod_ret (m : modifier) : list N := match m with MAnn (Some r) _ => [r] | _ => [] end.
Definition all_pos (l : list modifier) := flat_map mod_pos l.
Definition all_kwo (l : list modifier) := flat_map mod_kwo l.
Definition all_anns (l : list modifier) := flat_map mod_anns l.
Definition all_rets (l : list modifier) := flat_map mod_ret l.

Definition final_param (l : list modifier) (p : param) : param :=
  fold_left (fun q m => ann_param (mod_anns m) q) l p.
Definition final_ret (l : list modifier) (r : option N) : option N :=
  fold_left (fun q m => match mod_ret m with x :: _ => Some x | [] => q end) l r.

Lemma mk_translator_sets : forall d pos kwo d',
  mk_translator d pos kwo = Some d' ->
  d_params d' = d_params d /\ d_ret d' = d_ret d /\
  (forall x, mem x (d_pos d') = mem x pos || mem x (d_pos d)) /\
  (forall x, mem x (d_kwo d') = mem x kwo || mem x (d_kwo d)).
Proof.
  intros d pos kwo d' H. unfold mk_translator in H.
  destruct pos as [|p0 pos]; destruct kwo as [|k0 kwo];
    try (inversion H; subst; simpl; auto; fail);
    destruct (prepare _ _ _); inversion H; subst; cbn [d_params d_ret d_pos d_kwo];
    repeat split; intro x; unfold union; cbn [app mem orb]; rewrite ?mem_app, ?orb_assoc; reflexivity.
Qed.

Lemma ann_param_nil : forall p, ann_param [] p = p.
Proof. reflexivity. Qed.

Lemma run_explicit : forall l d d',
  Forall explicit l -> run_mods d l = Some d' ->
  d_params d' = map (final_param l) (d_params d) /\
  d_ret d' = final_ret l (d_ret d) /\
  (forall x, mem x (d_pos d') = mem x (all_pos l) || mem x (d_pos d)) /\
  (forall x, mem x (d_kwo d') = mem x (all_kwo l) || mem x (d_kwo d)).
Proof.
  induction l as [|m l IH]; intros d d' HF HR.
  - simpl in HR. inversion HR; subst. simpl. rewrite map_id. auto.
  - inversion HF as [|m' l' Hm HF']; subst. simpl in HR.
    destruct (apply_mod d m) as [d1|] eqn:E; [|discriminate].
    destruct (IH d1 d' HF' HR) as [I1 [I2 [I3 I4]]].
    destruct m as [ns|ns| | | |ret anns]; simpl in Hm; try tauto.
    + (* MKwo *)
      unfold apply_mod in E. destruct (mk_translator_sets _ _ _ _ E) as [E1 [E2 [E3 E4]]].
      repeat split.
      * rewrite I1, E1. reflexivity.
      * rewrite I2, E2. reflexivity.
      * intro x. rewrite I3, E3. reflexivity.
      * intro x. rewrite I4, E4. unfold all_kwo. simpl. rewrite mem_app.
        destruct (mem x ns); destruct (mem x (flat_map mod_kwo l)); reflexivity.
    + (* MPos *)
      unfold apply_mod in E. destruct (mk_translator_sets _ _ _ _ E) as [E1 [E2 [E3 E4]]].
      repeat split.
      * rewrite I1, E1. reflexivity.
      * rewrite I2, E2. reflexivity.
      * intro x. rewrite I3, E3. unfold all_pos. simpl. rewrite mem_app.
        destruct (mem x ns); destruct (mem x (flat_map mod_pos l)); reflexivity.
      * intro x. rewrite I4, E4. reflexivity.
    + (* MAnn *)
      unfold apply_mod in E. destruct (forallb (fun a : N * N => mem (fst a) (names_of (d_params d))) anns); [|discriminate]. inversion E; subst d1. clear E.
      cbn [d_params d_ret d_pos d_kwo] in *.
      repeat split.
      * rewrite I1, map_map. reflexivity.
      * rewrite I2. unfold final_ret. simpl. destruct ret; reflexivity.
      * exact I3.
      * exact I4.
Qed.

(* annotations given by different annotate steps agree where they overlap *)
Definition ann_functional (A : list (name * N)) : Prop :=
  forall n v v', In (n, v) A -> In (n, v') A -> v = v'.
Definition rets_agree (R : list N) : Prop := forall r r', In r R -> In r' R -> r = r'.

Lemma ann_lookup_In : forall A n v, ann_lookup A n = Some v -> In (n, v) A.
Proof.
  induction A as [|[k w] A IH]; intros n v H; simpl in H; [discriminate|].
  destruct (N.eqb n k) eqn:E.
  - apply N.eqb_eq in E. inversion H; subst. left. reflexivity.
  - right. apply IH. exact H.
Qed.

Lemma ann_lookup_None : forall A n, ann_lookup A n = None -> forall v, ~ In (n, v) A.
Proof.
  induction A as [|[k w] A IH]; intros n H v; simpl in *; [tauto|].
  destruct (N.eqb n k) eqn:E; [discriminate|]. apply N.eqb_neq in E.
  intros [Hc|Hc]; [inversion Hc; congruence | eapply IH; eauto].
Qed.

Lemma ann_lookup_app : forall A B n,
  ann_lookup (A ++ B) n = match ann_lookup A n with Some v => Some v | None => ann_lookup B n end.
Proof.
  induction A as [|[k w] A IH]; intros B n; simpl; [reflexivity|].
  destruct (N.eqb n k); [reflexivity | apply IH].
Qed.

Lemma ann_lookup_perm : forall A B n,
  ann_functional A -> Permutation A B -> ann_lookup A n = ann_lookup B n.
Proof.
  intros A B n HF HP.
  destruct (ann_lookup A n) as [v|] eqn:EA; destruct (ann_lookup B n) as [v'|] eqn:EB; auto.
  - f_equal. apply ann_lookup_In in EA. apply ann_lookup_In in EB.
    eapply HF; [exact EA|]. eapply Permutation_in; [apply Permutation_sym; exact HP | exact EB].
  - exfalso. apply ann_lookup_In in EA. eapply (ann_lookup_None B n EB v).
    eapply Permutation_in; eauto.
  - exfalso. apply ann_lookup_In in EB. eapply (ann_lookup_None A n EA v').
    eapply Permutation_in; [apply Permutation_sym; exact HP | exact EB].
Qed.

Lemma pname_ann_param : forall A p, pname (ann_param A p) = pname p.
Proof. intros A p. unfold ann_param. destruct (ann_lookup A (pname p)); reflexivity. Qed.

Lemma final_param_spec : forall l p,
  ann_functional (all_anns l) -> final_param l p = ann_param (all_anns l) p.
Proof.
  induction l as [|m l IH]; intros p HF; [reflexivity|].
  unfold final_param in *. simpl. rewrite IH.
  2:{ intros n v v' H1 H2. apply (HF n v v'); unfold all_anns; simpl; apply in_or_app; right; assumption. }
  unfold all_anns at 2. simpl. fold (all_anns l).
  unfold ann_param at 1 3. rewrite pname_ann_param, ann_lookup_app.
  unfold ann_param.
  destruct (ann_lookup (mod_anns m) (pname p)) as [v|] eqn:E1;
    destruct (ann_lookup (all_anns l) (pname p)) as [v'|] eqn:E2; try reflexivity.
  assert (v = v').
  { apply ann_lookup_In in E1. apply ann_lookup_In in E2.
    apply (HF (pname p) v v'); unfold all_anns; simpl; apply in_or_app; [left|right]; assumption. }
  subst v'. reflexivity.
Qed.

Lemma final_ret_spec : forall l r,
  rets_agree (all_rets l) ->
  final_ret l r = match all_rets l with x :: _ => Some x | [] => r end.
Proof.
  induction l as [|m l IH]; intros r HA; [reflexivity|].
  unfold final_ret in *. simpl. rewrite IH.
  2:{ intros a b H1 H2. apply HA; unfold all_rets; simpl; apply in_or_app; right; assumption. }
  unfold all_rets at 2. simpl. fold (all_rets l).
  destruct (mod_ret m) as [|x xs] eqn:E1; simpl; [reflexivity|].
  destruct (all_rets l) as [|y ys] eqn:E2; [reflexivity|].
  f_equal. symmetry. apply HA; unfold all_rets; simpl; rewrite E1; fold (all_rets l); rewrite ?E2.
  - left. reflexivity.
  - apply in_or_app. right. left. reflexivity.
Qed.

Lemma rets_head_perm : forall (A B : list N) (r : option N),
  rets_agree A -> Permutation A B ->
  match A with x :: _ => Some x | [] => r end = match B with x :: _ => Some x | [] => r end.
Proof.
  intros A B r HA HP. destruct A as [|a A]; destruct B as [|b B]; auto.
  - apply Permutation_nil in HP. discriminate.
  - apply Permutation_sym in HP. apply Permutation_nil in HP. discriminate.
  - f_equal. apply HA; [left; reflexivity|].
    eapply Permutation_in; [apply Permutation_sym; exact HP | left; reflexivity].
Qed.

(* C18_order, explicit forms: every admissible order of the same decorator
   applications gives the same translator sets, the same innermost signature,
   the same advertised signature and the same call translation.  (Neither run
   needs to have admissible intermediate steps in common with the other.) *)
Theorem order_invariant : forall d l1 l2 d1 d2,
  Permutation l1 l2 -> Forall explicit l1 ->
  ann_functional (all_anns l1) -> rets_agree (all_rets l1) ->
  run_mods d l1 = Some d1 -> run_mods d l2 = Some d2 ->
  dequiv d1 d2 /\ advertised d1 = advertised d2 /\
  (forall a k, pok_call d1 a k = pok_call d2 a k).
Proof.
  intros d l1 l2 d1 d2 HP HE HF HR R1 R2.
  assert (HE2 : Forall explicit l2).
  { rewrite Forall_forall in *. intros m Hm. apply HE.
    eapply Permutation_in; [apply Permutation_sym; exact HP | exact Hm]. }
  assert (PA : Permutation (all_anns l1) (all_anns l2)) by (apply Permutation_flat_map; exact HP).
  assert (PR : Permutation (all_rets l1) (all_rets l2)) by (apply Permutation_flat_map; exact HP).
  assert (HF2 : ann_functional (all_anns l2)).
  { intros n v v' H1 H2. apply (HF n v v'); eapply Permutation_in;
      try (apply Permutation_sym; exact PA); assumption. }
  assert (HR2 : rets_agree (all_rets l2)).
  { intros a b H1 H2. apply HR; eapply Permutation_in;
      try (apply Permutation_sym; exact PR); assumption. }
  destruct (run_explicit l1 d d1 HE R1) as [A1 [A2 [A3 A4]]].
  destruct (run_explicit l2 d d2 HE2 R2) as [B1 [B2 [B3 B4]]].
  assert (DE : dequiv d1 d2).
  { repeat split.
    - rewrite A1, B1. apply map_ext. intro p.
      rewrite (final_param_spec l1 p HF), (final_param_spec l2 p HF2).
      unfold ann_param. rewrite (ann_lookup_perm _ _ (pname p) HF PA). reflexivity.
    - rewrite A2, B2, (final_ret_spec l1 _ HR), (final_ret_spec l2 _ HR2).
      apply rets_head_perm; assumption.
    - intro x. rewrite A3, B3. f_equal. apply mem_ext_perm. apply Permutation_flat_map. exact HP.
    - intro x. rewrite A4, B4. f_equal. apply mem_ext_perm. apply Permutation_flat_map. exact HP. }
  split; [exact DE|]. split; [apply dequiv_advertised; exact DE|].
  intros a k. apply dequiv_call. exact DE.
Qed.

Definition ex_base : dobj :=
  mkD [mkParam 1 PK None None UEmpty; mkParam 2 PK (Some 5) None UEmpty;
       mkParam 3 PK (Some 6) None UEmpty] None [] [].

Example order_invariant_sat :
  exists d1 d2,
    run_mods ex_base [MPos [1]; MKwo [3]; MAnn (Some 9) [(2, 7)]] = Some d1 /\
    run_mods ex_base [MAnn (Some 9) [(2, 7)]; MKwo [3]; MPos [1]] = Some d2.
Proof. eexists. eexists. split; vm_compute; reflexivity. Qed.

(* ================================================================== *)
(* annotate commutes with _prepare                                     *)
(* ================================================================== *)

Section MapPrepare.
  Variable f : param -> param.
  Hypothesis f_name : forall p, pname (f p) = pname p.
  Hypothesis f_kind : forall p, pkind (f p) = pkind p.
  Hypothesis f_setk : forall k p, f (set_kind k p) = set_kind k (f p).

  Definition map_ip (ip : nat * param) : nat * param := (fst ip, f (snd ip)).

  Definition map_acc (a : prep_acc) : prep_acc :=
    mkPA (map f (pa_params a)) (map f (pa_kwoparams a)) (map map_ip (pa_kwopos a))
         (pa_found_pok a) (pa_found_kws a) (pa_used a).

  Lemma prep_step_map : forall inP inK acc ip,
    prep_step inP inK (option_map map_acc acc) (map_ip ip)
    = option_map map_acc (prep_step inP inK acc ip).
  Proof.
    intros inP inK acc [i p]. destruct acc as [a|]; [|reflexivity].
    unfold prep_step, map_ip, map_acc.
    cbn [option_map fst snd pa_params pa_kwoparams pa_kwopos pa_found_pok pa_found_kws pa_used].
    rewrite f_name, f_kind.
    destruct (pkind p); cbn [kind_eqb kind_rank Nat.eqb andb orb negb];
      destruct (inP (pname p)); destruct (inK (pname p));
      cbn [andb orb negb option_map pa_params pa_kwoparams pa_kwopos pa_found_pok pa_found_kws pa_used];
      try reflexivity;
      destruct (pa_found_pok a);
      cbn [option_map pa_params pa_kwoparams pa_kwopos pa_found_pok pa_found_kws pa_used];
      rewrite ?map_app; cbn [map map_ip fst snd]; rewrite ?f_setk; reflexivity.
  Qed.

  Lemma fold_prep_map : forall inP inK l acc,
    fold_left (prep_step inP inK) (map map_ip l) (option_map map_acc acc)
    = option_map map_acc (fold_left (prep_step inP inK) l acc).
  Proof.
    intros inP inK l. induction l as [|ip l IH]; intro acc; [reflexivity|].
    cbn [map fold_left]. rewrite prep_step_map. apply IH.
  Qed.

  Lemma combine_map_r : forall (l : list nat) ps,
    combine l (map f ps) = map map_ip (combine l ps).
  Proof.
    induction l as [|i l IH]; intros ps; [reflexivity|].
    destruct ps as [|p ps]; [reflexivity|]. simpl. rewrite IH. reflexivity.
  Qed.

  Lemma prepare_map : forall pos kwo ps,
    prepare pos kwo (map f ps)
    = option_map (fun r => (map f (fst r), map map_ip (snd r))) (prepare pos kwo ps).
  Proof.
    intros pos kwo ps. unfold prepare. destruct (negb (disjoint pos kwo)); [reflexivity|].
    unfold indexed. rewrite map_length, combine_map_r.
    change (Some pa_init) with (option_map map_acc (Some pa_init)) at 1.
    rewrite fold_prep_map.
    destruct (fold_left _ _ (Some pa_init)) as [a|]; [|reflexivity].
    cbn [option_map map_acc pa_params pa_kwoparams pa_kwopos pa_found_pok pa_found_kws pa_used].
    destruct (forallb _ _); [|reflexivity].
    destruct (pa_found_kws a); cbn [option_map fst snd]; rewrite ?map_app; reflexivity.
  Qed.
End MapPrepare.

Lemma ann_param_kind : forall A p, pkind (ann_param A p) = pkind p.
Proof. intros A p. unfold ann_param. destruct (ann_lookup A (pname p)); reflexivity. Qed.

Lemma ann_param_setk : forall A k p, ann_param A (set_kind k p) = set_kind k (ann_param A p).
Proof.
  intros A k p. unfold ann_param. cbn [set_kind pname].
  destruct (ann_lookup A (pname p)); reflexivity.
Qed.

(* C18_annotate_updates: annotate applied AFTER keyword/positional modifiers
   changes what the translator advertises exactly as if the function had been
   annotated first: the advertised signature is the old one with the new
   annotations, and the call translation table follows *)
Theorem annotate_updates : forall d ret A d',
  apply_mod d (MAnn ret A) = Some d' ->
  advertised d' =
    option_map (fun r => (map (ann_param A) (fst r), map (map_ip (ann_param A)) (snd r)))
               (advertised d)
  /\ d_ret d' = match ret with Some r => Some r | None => d_ret d end
  /\ d_pos d' = d_pos d /\ d_kwo d' = d_kwo d.
Proof.
  intros d ret A d' H. unfold apply_mod in H.
  destruct (forallb (fun a : N * N => mem (fst a) (names_of (d_params d))) A); [|discriminate].
  inversion H; subst d'. clear H. unfold advertised. cbn [d_params d_ret d_pos d_kwo].
  split; [|auto].
  apply prepare_map.
  - apply pname_ann_param.
  - apply ann_param_kind.
  - apply ann_param_setk.
Qed.

(* ... in particular every advertised parameter named by the annotate call
   carries the new annotation *)
Corollary annotate_visible : forall d ret A d' p v,
  apply_mod d (MAnn ret A) = Some d' ->
  advertised d <> None ->
  In p (adv_params d') -> ann_lookup A (pname p) = Some v ->
  pann p = Some v /\ puann p = UPre v.
Proof.
  intros d ret A d' p v H Hadm Hin Hl.
  destruct (annotate_updates d ret A d' H) as [Ha _].
  unfold adv_params in Hin. rewrite Ha in Hin.
  destruct (advertised d) as [r|]; [|congruence]. cbn [option_map fst] in Hin.
  apply in_map_iff in Hin. destruct Hin as [q [Hq _]]. subst p.
  rewrite pname_ann_param in Hl. unfold ann_param. rewrite Hl. split; reflexivity.
Qed.

Example annotate_updates_sat :
  exists d1 d2, run_mods ex_base [MKwo [3]; MPos [1]] = Some d1
                /\ apply_mod d1 (MAnn None [(3, 8); (1, 7)]) = Some d2
                /\ advertised d1 <> None.
Proof. eexists. eexists. split; [vm_compute; reflexivity|]. split; [vm_compute; reflexivity|]. vm_compute. discriminate. Qed.
