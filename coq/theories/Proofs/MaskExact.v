(* MaskExact.v — C03 for ALL signatures, positional consumption:
   mask(sig, n) accepts a non-colliding call exactly when sig accepts it with n
   extra leading positional arguments; it raises exactly when sig cannot take n
   positional arguments. (Names and hide_* flags: bounded theorem in Bounded2.v
   and the per-run decision.) *)
From Sigtools.Model Require Import Base Bind Roles Algebra.
From Sigtools.Proofs Require Import SmallModel Basics MaskLaws.
From Coq Require Import Lia.

(* ---- the binding side: dropping n leading positional parameters ---- *)
Definition all_positional (l : list param) : Prop := forall p, In p l -> is_positional p = true.
Definition none_positional (l : list param) : Prop := forall p, In p l -> is_positional p = false.

Lemma positional_app a b : positional (a ++ b) = positional a ++ positional b.
Proof. unfold positional. apply filter_app. Qed.

Lemma positional_all a : all_positional a -> positional a = a.
Proof.
  induction a as [|p a IH]; intros H; [reflexivity|]. unfold positional in *. simpl.
  rewrite (H p) by (left; reflexivity). f_equal. apply IH. intros q Hq. apply H. right. exact Hq.
Qed.

Lemma positional_none b : none_positional b -> positional b = [].
Proof.
  induction b as [|p b IH]; intros H; [reflexivity|]. unfold positional in *. simpl.
  rewrite (H p) by (left; reflexivity). apply IH. intros q Hq. apply H. right. exact Hq.
Qed.

Lemma kwonly_positional a : all_positional a -> kwonly a = [].
Proof.
  induction a as [|p a IH]; intros H; [reflexivity|]. unfold kwonly in *. simpl.
  assert (Hp : is_positional p = true) by (apply H; left; reflexivity).
  unfold is_positional, is_kind, kind_eqb in *. destruct (pkind p); try discriminate; simpl;
    apply IH; intros q Hq; apply H; right; exact Hq.
Qed.

Lemma has_kind_positional k a : all_positional a -> (k = VP \/ k = VK \/ k = KO) -> has_kind k a = false.
Proof.
  intros H Hk. unfold has_kind. induction a as [|p a IH]; [reflexivity|]. simpl.
  assert (Hp : is_positional p = true) by (apply H; left; reflexivity).
  rewrite IH by (intros q Hq; apply H; right; exact Hq). rewrite orb_false_r.
  unfold is_positional, is_kind, kind_eqb in *.
  destruct (pkind p); try discriminate; destruct Hk as [E|[E|E]]; subst k; reflexivity.
Qed.

Lemma all_positional_skipn n a : all_positional a -> all_positional (skipn n a).
Proof.
  intros H p Hp. apply H. revert a H Hp. induction n as [|n IH]; intros a H Hp; [exact Hp|].
  destruct a as [|q a]; [destruct Hp|]. right. apply (IH a); [|exact Hp].
  intros r Hr. apply H. right. exact Hr.
Qed.

(* kw_class_pos after dropping n leading parameters whose names differ from k *)
Lemma kw_class_pos_skip a : forall n m k,
  ~ In k (names_of (firstn n a)) ->
  kw_class_pos (skipn n a) m k = kw_class_pos a (n + m) k.
Proof.
  induction a as [|p a IH]; intros n m k Hk.
  - destruct n; reflexivity.
  - destruct n as [|n]; [reflexivity|].
    cbn [skipn firstn names_of map] in *. cbn [kw_class_pos].
    destruct (N.eqb_spec k (pname p)) as [->|Hne]; [exfalso; apply Hk; left; reflexivity|].
    cbn [Nat.add Nat.pred]. apply IH. intros HH. apply Hk. right. exact HH.
Qed.

Lemma req_pos_skip a : forall n m ks, req_pos (skipn n a) m ks = req_pos a (n + m) ks.
Proof.
  induction a as [|p a IH]; intros n m ks.
  - destruct n; reflexivity.
  - destruct n as [|n]; [reflexivity|]. cbn [skipn Nat.add req_pos]. apply IH.
Qed.

Lemma firstn_skipn_names n (a : list param) x :
  In x (names_of a) -> In x (names_of (firstn n a)) \/ In x (names_of (skipn n a)).
Proof.
  intros H. rewrite <- (firstn_skipn n a) in H. unfold names_of in *. rewrite map_app in H.
  apply in_app_or in H. exact H.
Qed.

Section Consume.
Variables (a b : list param) (n : nat).
Hypothesis Ha : all_positional a.
Hypothesis Hb : none_positional b.
Hypothesis Hfit : (n <= length a)%nat \/ has_kind VP b = true.

Let ps := a ++ b.
Let ps' := skipn n a ++ b.

Lemma consume_positional : positional ps' = skipn n a /\ positional ps = a.
Proof.
  unfold ps, ps'. rewrite !positional_app, (positional_none b Hb), !app_nil_r.
  split; apply positional_all; auto using all_positional_skipn.
Qed.

Lemma consume_kwonly : kwonly ps' = kwonly ps.
Proof.
  unfold ps, ps', kwonly. rewrite !filter_app.
  pose proof (kwonly_positional (skipn n a) (all_positional_skipn n a Ha)) as E1.
  pose proof (kwonly_positional a Ha) as E2. unfold kwonly in E1, E2. rewrite E1, E2. reflexivity.
Qed.

Lemma consume_has_kind k : (k = VP \/ k = VK) -> has_kind k ps' = has_kind k ps.
Proof.
  intros Hk. unfold ps, ps', has_kind. rewrite !existsb_app.
  pose proof (has_kind_positional k (skipn n a) (all_positional_skipn n a Ha)) as E1.
  pose proof (has_kind_positional k a Ha) as E2. unfold has_kind in E1, E2.
  rewrite E1, E2 by tauto. reflexivity.
Qed.

(* a keyword that does not name one of the n consumed parameters is classified
   alike on both sides *)
Lemma consume_kw_class m k :
  ~ In k (names_of (firstn n a)) -> kw_class ps' m k = kw_class ps (n + m) k.
Proof.
  intros Hk. unfold kw_class. destruct consume_positional as [E1 E2]. rewrite E1, E2, consume_kwonly.
  rewrite (kw_class_pos_skip a n m k Hk). reflexivity.
Qed.

Theorem consume_accepts c :
  (forall k, In k (kws c) -> ~ In k (names_of (firstn n a))) ->
  accepts ps' c = accepts ps (mkCall (n + npos c) (kws c)).
Proof.
  intros Hk. unfold accepts. cbn [npos kws].
  destruct consume_positional as [E1 E2]. rewrite E1, E2.
  rewrite (consume_has_kind VP) by tauto.
  assert (F1 : (Nat.leb (npos c) (length (skipn n a)) || has_kind VP ps)
               = (Nat.leb (n + npos c) (length a) || has_kind VP ps)).
  { rewrite skipn_length. destruct Hfit as [Hle|Hvp].
    - f_equal. destruct (Nat.leb_spec (npos c) (length a - n)), (Nat.leb_spec (n + npos c) (length a)); try reflexivity; lia.
    - unfold ps, has_kind. rewrite existsb_app. fold (has_kind VP b). rewrite Hvp, !orb_true_r. reflexivity. }
  rewrite F1. f_equal; [f_equal; [f_equal|]|].
  - apply forallb_ext_in. intros k Hin. unfold kw_ok.
    rewrite (consume_kw_class (npos c) k (Hk k Hin)), (consume_has_kind VK) by tauto. reflexivity.
  - apply req_pos_skip.
  - unfold req_kwo. rewrite consume_kwonly. reflexivity.
Qed.
End Consume.

(* ---- the validating constructor accepts any suffix of a valid list ---- *)
Lemma validate_aux_weaken ps : forall top sd seen top' sd' seen',
  validate_aux ps top sd seen = true ->
  (top' <= top)%nat -> (sd' = true -> sd = true) -> incl seen' seen ->
  validate_aux ps top' sd' seen' = true.
Proof.
  induction ps as [|p ps IH]; intros top sd seen top' sd' seen' H Ht Hs Hi; [reflexivity|].
  cbn [validate_aux] in *.
  destruct (Nat.ltb (kind_rank (pkind p)) top) eqn:E1; [discriminate|]. apply Nat.ltb_ge in E1.
  assert (E1' : Nat.ltb (kind_rank (pkind p)) top' = false) by (apply Nat.ltb_ge; lia). rewrite E1'.
  destruct (is_positional p && negb (has_def p) && sd) eqn:E2; [discriminate|].
  assert (E2' : is_positional p && negb (has_def p) && sd' = false).
  { destruct sd'; [rewrite (Hs eq_refl) in E2; exact E2 | apply andb_false_r]. }
  rewrite E2'.
  destruct (mem (pname p) seen) eqn:E3; [discriminate|].
  assert (E3' : mem (pname p) seen' = false).
  { apply mem_false_In. intros HH. apply Hi in HH. apply mem_In in HH. congruence. }
  rewrite E3'. eapply IH; [exact H| | |].
  - lia.
  - intros X. apply orb_true_iff in X. apply orb_true_iff. destruct X as [X|X]; [left; apply Hs; exact X|right; exact X].
  - intros x [<-|Hx]; [left; reflexivity|right; apply Hi; exact Hx].
Qed.

Lemma validate_skipn n : forall ps, validate ps = true -> validate (skipn n ps) = true.
Proof.
  unfold validate. induction n as [|n IH]; intros ps H; [exact H|].
  destruct ps as [|p ps]; [exact H|]. cbn [skipn]. apply IH.
  cbn [validate_aux] in H.
  destruct (Nat.ltb (kind_rank (pkind p)) 0); [discriminate|].
  destruct (is_positional p && negb (has_def p) && false); [discriminate|].
  cbn [mem] in H.
  eapply validate_aux_weaken; [exact H| | |]; [lia|discriminate|intros x []].
Qed.

Lemma validate_nodup ps : validate ps = true -> NoDup (names_of ps).
Proof.
  unfold validate. revert ps.
  assert (G : forall ps top sd seen, validate_aux ps top sd seen = true ->
              NoDup (names_of ps) /\ forall x, In x (names_of ps) -> ~ In x seen).
  { induction ps as [|q ps IH]; intros top sd seen H; [split; [constructor|intros x []]|].
    cbn [validate_aux] in H.
    destruct (Nat.ltb (kind_rank (pkind q)) top); [discriminate|].
    destruct (is_positional q && negb (has_def q) && sd); [discriminate|].
    destruct (mem (pname q) seen) eqn:E; [discriminate|]. apply mem_false_In in E.
    apply IH in H. destruct H as [Hn Hd]. split.
    - cbn. constructor; [|exact Hn]. intros Hin. apply (Hd _ Hin). left. reflexivity.
    - intros x [<-|Hx]; [exact E|]. intros Hs. apply (Hd _ Hx). right. exact Hs. }
  intros ps H. exact (proj1 (G ps _ _ _ H)).
Qed.

(* ---- kinds of the classified buckets ---- *)
Definition kinds_ok (acc : sorted) : Prop :=
  Forall (fun p => pkind p = PO) (posargs acc) /\ Forall (fun p => pkind p = PK) (pokargs acc) /\
  (forall p, varargs acc = Some p -> pkind p = VP) /\
  Forall (fun p => pkind p = KO) (kwoargs acc) /\
  (forall p, varkwargs acc = Some p -> pkind p = VK).

Lemma od_set_forall (Pp : param -> Prop) d p : Forall Pp d -> Pp p -> Forall Pp (od_set d p).
Proof.
  induction 1 as [|q d Hq Hd IH]; intros Hp; cbn [od_set]; [constructor; auto|].
  destruct (N.eqb (pname p) (pname q)); constructor; auto.
Qed.

Lemma sort_aux_kinds ps : forall acc, kinds_ok acc -> kinds_ok (sort_aux ps acc).
Proof.
  induction ps as [|p ps IH]; intros acc H; [exact H|]. cbn [sort_aux]. apply IH.
  destruct H as (H1 & H2 & H3 & H4 & H5).
  destruct (pkind p) eqn:Hk; unfold kinds_ok; cbn [posargs pokargs varargs kwoargs varkwargs]; repeat split; auto.
  - apply Forall_app. split; [exact H1|constructor; auto].
  - apply Forall_app. split; [exact H2|constructor; auto].
  - intros q Hq. inversion Hq; subst. exact Hk.
  - apply od_set_forall; auto.
  - intros q Hq. inversion Hq; subst. exact Hk.
Qed.

Lemma sort_params_kinds s : kinds_ok (sort_params s).
Proof.
  unfold sort_params. apply sort_aux_kinds. unfold kinds_ok. cbn. repeat split; auto; discriminate.
Qed.

Lemma kinds_split s :
  let so := sort_params s in
  all_positional (posargs so ++ pokargs so) /\
  none_positional (opt_list (varargs so) ++ kwoargs so ++ opt_list (varkwargs so)).
Proof.
  cbv zeta. destruct (sort_params_kinds s) as (H1 & H2 & H3 & H4 & H5).
  rewrite Forall_forall in H1, H2, H4. split.
  - intros p Hp. apply in_app_or in Hp. unfold is_positional. destruct Hp as [Hp|Hp]; [rewrite (H1 p Hp)|rewrite (H2 p Hp)]; reflexivity.
  - intros p Hp. unfold is_positional. apply in_app_or in Hp. destruct Hp as [Hp|Hp].
    + destruct (varargs (sort_params s)) as [v|] eqn:E; [|destruct Hp]. destruct Hp as [<-|[]]. rewrite (H3 v eq_refl). reflexivity.
    + apply in_app_or in Hp. destruct Hp as [Hp|Hp]; [rewrite (H4 p Hp); reflexivity|].
      destruct (varkwargs (sort_params s)) as [v|] eqn:E; [|destruct Hp]. destruct Hp as [<-|[]]. rewrite (H5 v eq_refl). reflexivity.
Qed.

Lemma nodup_app_disjoint {A} (l l' : list A) x : NoDup (l ++ l') -> In x l -> In x l' -> False.
Proof.
  induction l as [|y l IH]; intros H Hl Hl'; [destruct Hl|].
  cbn in H. inversion H as [|? ? Hny Hnd]; subst. destruct Hl as [->|Hl].
  - apply Hny. apply in_or_app. right. exact Hl'.
  - apply IH; assumption.
Qed.

(* ---- mask(sig, n): unfolding for n > 0, no names, no hide flag ---- *)
Definition rest_of (so : sorted) : list param :=
  opt_list (varargs so) ++ kwoargs so ++ opt_list (varkwargs so).

Lemma flatten_split so : flatten so = (posargs so ++ pokargs so) ++ rest_of so.
Proof. unfold flatten, rest_of. rewrite <- !app_assoc. reflexivity. Qed.

Lemma mask_pos_unfold s n :
  n <> 0%nat ->
  mask s n [] nohide0 =
  let so := sort_params s in
  let allpos := posargs so ++ pokargs so in
  if Nat.ltb (length allpos) n && negb (isSome (varargs so)) then Err ValueErr
  else apply_params s (mkSorted (skipn n (posargs so)) (skipn (n - length (posargs so)) (pokargs so))
                                (varargs so) (kwoargs so) (varkwargs so)
                                (src_pop_all (ssrc so) (names_of (firstn n allpos))) (sdep so)).
Proof.
  intros Hn. unfold mask, mask_gen.
  cbn [h_args h_kwargs h_varargs h_varkwargs nohide0 map orb].
  destruct (Nat.eqb_spec n 0) as [E|_]; [contradiction|].
  cbv zeta.
  destruct (Nat.ltb (length (posargs (sort_params s) ++ pokargs (sort_params s))) n
            && negb (isSome (varargs (sort_params s)))); [reflexivity|].
  cbn [bind mask_names k_pok k_va k_kwo k_src]. reflexivity.
Qed.

Lemma has_vp_rest s :
  has_kind VP (rest_of (sort_params s)) = isSome (varargs (sort_params s)).
Proof.
  destruct (sort_params_kinds s) as (_ & _ & H3 & H4 & H5). unfold rest_of, has_kind.
  rewrite !existsb_app.
  assert (Ek : existsb (is_kind VP) (kwoargs (sort_params s)) = false).
  { rewrite Forall_forall in H4. induction (kwoargs (sort_params s)) as [|q l IH]; [reflexivity|].
    cbn. unfold is_kind at 1. rewrite (H4 q) by (left; reflexivity). cbn.
    apply IH. intros x Hx. apply H4. right. exact Hx. }
  rewrite Ek.
  destruct (varkwargs (sort_params s)) as [v|]; destruct (varargs (sort_params s)) as [w|]; cbn;
    unfold is_kind; try rewrite (H3 w eq_refl); try rewrite (H5 v eq_refl); reflexivity.
Qed.

(* C03 for ALL signatures and ALL calls, n leading positionals (n > 0; n = 0 is
   mask_zero_identity) *)
Theorem mask_positional_exact s n :
  valid_sig (params s) = true -> n <> 0%nat ->
  match mask s n [] nohide0 with
  | Ok r => forall c, noncolliding c (params r) [params s] = true ->
                      accepts (params r) c = accepts (params s) (shift_call n [] c)
  | Err e => e = ValueErr /\ forall c, accepts (params s) (shift_call n [] c) = false
  end.
Proof.
  intros Hv Hn. rewrite (mask_pos_unfold s n Hn). cbv zeta.
  pose proof (sort_flatten_roundtrip s Hv) as Hf. rewrite flatten_split in Hf.
  destruct (kinds_split s) as [Ha Hb]. fold (rest_of (sort_params s)) in Hb.
  set (so := sort_params s) in *. set (A := posargs so ++ pokargs so) in *. set (B := rest_of so) in *.
  assert (Hval : validate (params s) = true).
  { unfold valid_sig in Hv. apply andb_true_iff in Hv. destruct Hv as [Hv _].
    apply andb_true_iff in Hv. tauto. }
  destruct (Nat.ltb (length A) n && negb (isSome (varargs so))) eqn:Hc.
  - (* raises: sig cannot be passed n positional arguments *)
    split; [reflexivity|]. intros c. apply andb_true_iff in Hc. destruct Hc as [Hlt Hva].
    apply Nat.ltb_lt in Hlt. apply negb_true_iff in Hva.
    unfold shift_call, accepts. cbn [npos kws app]. rewrite <- Hf.
    rewrite positional_app, (positional_all A Ha), (positional_none B Hb), app_nil_r.
    unfold has_kind at 1. rewrite existsb_app.
    pose proof (has_kind_positional VP A Ha (or_introl eq_refl)) as E1. unfold has_kind in E1. rewrite E1.
    fold (has_kind VP B). pose proof (has_vp_rest s) as Hvp. fold so in Hvp. fold B in Hvp.
    rewrite Hvp, Hva.
    destruct (Nat.leb_spec (n + npos c) (length A)); [lia|]. reflexivity.
  - (* the residual signature *)
    unfold apply_params, flatten. cbn [posargs pokargs varargs kwoargs varkwargs].
    assert (Efl : skipn n (posargs so) ++ skipn (n - length (posargs so)) (pokargs so)
                  ++ opt_list (varargs so) ++ kwoargs so ++ opt_list (varkwargs so)
                  = skipn n A ++ B).
    { unfold A, B, rest_of. rewrite skipn_app, <- !app_assoc. reflexivity. }
    rewrite Efl.
    assert (Hvr : validate (skipn n A ++ B) = true).
    { destruct (Nat.le_gt_cases n (length A)) as [Hle|Hgt].
      - assert (E : skipn n A ++ B = skipn n (A ++ B)).
        { rewrite skipn_app. replace (n - length A)%nat with 0%nat by lia. reflexivity. }
        rewrite E, Hf. apply validate_skipn. exact Hval.
      - assert (E : skipn n A ++ B = skipn (length A) (A ++ B)).
        { rewrite skipn_app, !skipn_all2 by lia. rewrite Nat.sub_diag. reflexivity. }
        rewrite E, Hf. apply validate_skipn. exact Hval. }
    rewrite Hvr. cbn [params]. intros c Hnc.
    assert (Hfit : (n <= length A)%nat \/ has_kind VP B = true).
    { apply andb_false_iff in Hc. destruct Hc as [Hc|Hc].
      - left. apply Nat.ltb_ge in Hc. exact Hc.
      - right. pose proof (has_vp_rest s) as Hvp. fold so in Hvp. fold B in Hvp. rewrite Hvp.
        apply negb_false_iff in Hc. exact Hc. }
    unfold shift_call. cbn [app]. rewrite <- Hf.
    apply (consume_accepts A B n Ha Hb Hfit c).
    (* no keyword of a non-colliding call names a consumed parameter *)
    intros k Hk Hin.
    unfold noncolliding in Hnc. rewrite forallb_forall in Hnc. specialize (Hnc k Hk).
    pose proof (validate_nodup _ Hval) as Hnd. rewrite <- Hf in Hnd.
    assert (HinA : In k (names_of A)).
    { rewrite <- (firstn_skipn n A). unfold names_of. rewrite map_app. apply in_or_app. left. exact Hin. }
    apply orb_true_iff in Hnc. destruct Hnc as [Hkw|Hfor].
    + (* k would name a parameter of the residual too: names are unique *)
      apply kwpassable_name_In in Hkw.
      assert (Hdup : In k (names_of (skipn n A ++ B))) by exact Hkw.
      rewrite <- (firstn_skipn n A) in Hnd. unfold names_of in Hnd, Hdup, Hin.
      rewrite <- app_assoc, map_app in Hnd.
      exact (nodup_app_disjoint _ _ k Hnd Hin Hdup).
    + apply negb_true_iff in Hfor. apply mem_false_In in Hfor. apply Hfor.
      unfold all_names. cbn [flat_map]. rewrite app_nil_r, <- Hf.
      unfold names_of. rewrite map_app. apply in_or_app. left. exact HinA.
Qed.

(* ---- functools.partial with bound positionals only (C19) ---- *)
Lemma sig_partial_pos_params s n pobj :
  match sig_partial s n [] pobj, mask s n [] nohide0 with
  | Ok r1, Ok r2 => params r1 = params r2
  | Err e1, Err e2 => e1 = e2
  | _, _ => False
  end.
Proof.
  unfold sig_partial, mask, mask_gen.
  cbn [h_args h_kwargs h_varargs h_varkwargs nohide0 map orb].
  destruct (Nat.eqb n 0).
  - cbn [bind mask_names k_pok k_va k_kwo k_src]. unfold apply_params.
    cbn [flatten posargs pokargs varargs kwoargs varkwargs].
    destruct (validate _); reflexivity.
  - destruct (Nat.ltb (length (posargs (sort_params s) ++ pokargs (sort_params s))) n
              && negb (isSome (varargs (sort_params s)))); [reflexivity|].
    cbn [bind mask_names k_pok k_va k_kwo k_src]. unfold apply_params.
    cbn [flatten posargs pokargs varargs kwoargs varkwargs].
    destruct (validate _); reflexivity.
Qed.

Theorem partial_positional_exact s n pobj :
  valid_sig (params s) = true -> n <> 0%nat ->
  match sig_partial s n [] pobj with
  | Ok r => forall c, noncolliding c (params r) [params s] = true ->
                      accepts (params r) c = accepts (params s) (partial_call n [] c)
  | Err e => e = ValueErr /\ forall c, accepts (params s) (partial_call n [] c) = false
  end.
Proof.
  intros Hv Hn. pose proof (sig_partial_pos_params s n pobj) as E.
  pose proof (mask_positional_exact s n Hv Hn) as M.
  destruct (sig_partial s n [] pobj) as [r1|e1], (mask s n [] nohide0) as [r2|e2]; try contradiction.
  - rewrite E. exact M.
  - subst e1. exact M.
Qed.
