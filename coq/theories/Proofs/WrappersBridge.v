(* WrappersBridge.v -- C13: the bridge from acceptance at call-shape level
   (Proofs/WrappersSound.v: C13_stack_sound, C13_comb_sound) to the term-level
   evaluation of Model/Wrappers.v: a call whose shape the reported signature
   accepts evaluates (`call`) to a term that is not `Raise type_error`.

   1. bind_named_iff_accepts      value-level binding = shape-level accepts
   2. def_behaviour_no_type_error a generated def raises type_error exactly on
                                  the shapes its parameters do not accept
   3. wrapper_behaviour_spec      a generated wrapper body on an accepted call
   4. stack_call_no_type_error    stacks of any depth over a generated def
   5. comb_call_no_type_error     Combination of generated defs

   Calls are Python calls: the keyword names of a call are pairwise distinct
   (`f(a=1, a=2)` is a SyntaxError, `f( **{'a': 1}, **{'a': 2})` a TypeError
   raised before f is entered), hypothesis NoDup (map fst (vkws c)); and the
   argument terms are values, not escaping exceptions (`clean_call`). *)
From Coq Require Import List NArith Bool Arith Lia.
From Sigtools.Model Require Import Base Bind Roles Algebra Wrappers.
From Sigtools.Proofs Require Import SmallModel Basics Wrappers WrappersSound RcValidN.
From Sigtools.Proofs Require Import Support SupportFull SupportAccepts MaskLaws MaskExact.
Import ListNotations.
Open Scope N_scope.

(* the shape of a value-level call *)
Definition vshape (c : vcall) : Bind.call := mkCall (length (vpos c)) (map fst (vkws c)).

(* ------------------------------------------------------------------ *)
(* keyword lists                                                        *)

Lemma has_kw_mem k (kws : list (name * term)) : has_kw k kws = mem k (map fst kws).
Proof.
  induction kws as [|[k' v] kws IH]; [reflexivity|]. cbn [has_kw map fst mem]. rewrite IH. reflexivity.
Qed.

Lemma take_kw_none k kws : take_kw k kws = None <-> has_kw k kws = false.
Proof.
  induction kws as [|[k' v] kws IH]; cbn [take_kw has_kw]; [tauto|].
  destruct (N.eqb k k'); cbn [orb]; [split; discriminate|].
  destruct (take_kw k kws) as [[r rest]|].
  - split; [discriminate|]. intros H. apply IH in H. discriminate.
  - split; [intros _; apply IH; reflexivity|reflexivity].
Qed.

Definition not_key (k : name) (kv : name * term) : bool := negb (N.eqb k (fst kv)).

Lemma filter_not_key_id k (kws : list (name * term)) :
  has_kw k kws = false -> filter (not_key k) kws = kws.
Proof.
  induction kws as [|[k' v] kws IH]; [reflexivity|]. cbn [has_kw filter]. unfold not_key at 1. cbn [fst].
  intros H. apply orb_false_iff in H. destruct H as [H1 H2]. rewrite H1. cbn [negb]. rewrite (IH H2). reflexivity.
Qed.

(* for distinct keyword names, taking k out removes every entry named k *)
Lemma take_kw_filter k kws v kws' :
  NoDup (map fst kws) -> take_kw k kws = Some (v, kws') -> kws' = filter (not_key k) kws.
Proof.
  revert v kws'. induction kws as [|[k' v'] kws IH]; intros v kws' ND H; cbn [take_kw] in H; [discriminate|].
  cbn [map fst] in ND. inversion ND as [|? ? Hn ND']; subst.
  cbn [filter]. unfold not_key at 1. cbn [fst].
  destruct (N.eqb k k') eqn:E.
  - injection H as <- <-. cbn [negb]. apply N.eqb_eq in E. subst k'.
    symmetry. apply filter_not_key_id. rewrite has_kw_mem. apply mem_false_In. exact Hn.
  - destruct (take_kw k kws) as [[r rest]|] eqn:E2; [|discriminate].
    injection H as <- <-. cbn [negb]. rewrite (IH r rest ND' eq_refl). reflexivity.
Qed.

Lemma take_kw_in k kws v kws' : take_kw k kws = Some (v, kws') -> In (k, v) kws.
Proof.
  revert v kws'. induction kws as [|[k' v'] kws IH]; intros v kws' H; cbn [take_kw] in H; [discriminate|].
  destruct (N.eqb k k') eqn:E.
  - injection H as <- <-. apply N.eqb_eq in E. subst k'. left. reflexivity.
  - destruct (take_kw k kws) as [[r rest]|]; [|discriminate]. injection H as <- <-.
    right. exact (IH r rest eq_refl).
Qed.

Lemma NoDup_keys_filter (f : name * term -> bool) kws :
  NoDup (map fst kws) -> NoDup (map fst (filter f kws)).
Proof.
  induction kws as [|kv kws IH]; intros ND; [constructor|].
  cbn [map] in ND. inversion ND as [|? ? Hn ND']; subst. cbn [filter].
  destruct (f kv); [|exact (IH ND')]. cbn [map]. constructor; [|exact (IH ND')].
  intros Hin. apply Hn. apply in_map_iff in Hin. destruct Hin as [x [Ex Hx]].
  apply filter_In in Hx. apply in_map_iff. exists x. split; [exact Ex|exact (proj1 Hx)].
Qed.

Lemma mem_keys_not_key k k' (kws : list (name * term)) :
  N.eqb k k' = false -> mem k' (map fst (filter (not_key k) kws)) = mem k' (map fst kws).
Proof.
  intros E. induction kws as [|[k0 v0] kws IH]; [reflexivity|].
  cbn [filter]. unfold not_key at 1. cbn [fst]. destruct (N.eqb k k0) eqn:E0; cbn [negb map fst mem].
  - apply N.eqb_eq in E0. subst k0. rewrite N.eqb_sym, E. cbn [orb]. exact IH.
  - rewrite IH. reflexivity.
Qed.

Lemma filter_filter {A} (f g : A -> bool) l :
  filter f (filter g l) = filter (fun x => g x && f x) l.
Proof.
  induction l as [|x l IH]; [reflexivity|]. cbn [filter]. destruct (g x); cbn [andb filter]; rewrite IH; reflexivity.
Qed.

Lemma filter_ext_in' {A} (f g : A -> bool) l :
  (forall x, In x l -> f x = g x) -> filter f l = filter g l.
Proof.
  induction l as [|x l IH]; intros H; [reflexivity|]. cbn [filter].
  rewrite (H x (or_introl eq_refl)), IH; [reflexivity|]. intros y Hy. apply H. right. exact Hy.
Qed.

(* ------------------------------------------------------------------ *)
(* what bind_named leaves over                                          *)

(* the leftover positionals: every positional parameter consumed one *)
Lemma bind_named_rest ps : forall pos kws acc vals rest restk,
  bind_named ps pos kws acc = Some (vals, rest, restk) ->
  rest = skipn (length (positional ps)) pos.
Proof.
  induction ps as [|p ps IH]; intros pos kws acc vals rest restk H; cbn [bind_named] in H.
  - injection H as <- <- <-. reflexivity.
  - unfold positional. cbn [filter]. unfold is_positional at 1. fold (positional ps).
    destruct (pkind p).
    + destruct pos as [|v pos'].
      * destruct (default_of p); [|discriminate]. rewrite (IH _ _ _ _ _ _ H). cbn [length].
        destruct (length (positional ps)); reflexivity.
      * cbn [length skipn]. exact (IH _ _ _ _ _ _ H).
    + destruct pos as [|v pos'].
      * assert (G : rest = skipn (length (positional ps)) []).
        { destruct (take_kw (pname p) kws) as [[v kws']|]; [exact (IH _ _ _ _ _ _ H)|].
          destruct (default_of p); [|discriminate]. exact (IH _ _ _ _ _ _ H). }
        rewrite G. cbn [length]. destruct (length (positional ps)); reflexivity.
      * destruct (has_kw (pname p) kws); [discriminate|]. cbn [length skipn]. exact (IH _ _ _ _ _ _ H).
    + exact (IH _ _ _ _ _ _ H).
    + destruct (take_kw (pname p) kws) as [[v kws']|]; [exact (IH _ _ _ _ _ _ H)|].
      destruct (default_of p); [|discriminate]. exact (IH _ _ _ _ _ _ H).
    + exact (IH _ _ _ _ _ _ H).
Qed.

Definition extra_kw (ps : list param) (kv : name * term) : bool := negb (kwpassable_name ps (fst kv)).

Lemma kwpassable_name_cons p ps k :
  kwpassable_name (p :: ps) k = (is_kwpassable p && N.eqb k (pname p)) || kwpassable_name ps k.
Proof. reflexivity. Qed.

Lemma extra_kw_skip p ps kws :
  (is_kwpassable p = false \/ has_kw (pname p) kws = false) ->
  filter (extra_kw ps) kws = filter (extra_kw (p :: ps)) kws.
Proof.
  intros H. apply filter_ext_in'. intros [k v] Hin. unfold extra_kw. cbn [fst].
  rewrite kwpassable_name_cons. destruct H as [H|H]; [rewrite H; reflexivity|].
  destruct (N.eqb k (pname p)) eqn:E; [|rewrite andb_false_r; reflexivity].
  apply N.eqb_eq in E. subst k. exfalso. rewrite has_kw_mem in H. apply mem_false_In in H. apply H.
  apply in_map_iff. exists (pname p, v). split; [reflexivity|exact Hin].
Qed.

Lemma extra_kw_take p ps kws :
  is_kwpassable p = true ->
  filter (extra_kw ps) (filter (not_key (pname p)) kws) = filter (extra_kw (p :: ps)) kws.
Proof.
  intros Hp. rewrite filter_filter. apply filter_ext_in'. intros [k v] _. unfold extra_kw, not_key. cbn [fst].
  rewrite kwpassable_name_cons, Hp. cbn [andb]. rewrite (N.eqb_sym (pname p) k).
  destruct (N.eqb k (pname p)); reflexivity.
Qed.

(* the leftover keywords: those that name no regular / keyword-only parameter, in call order *)
Lemma bind_named_restk ps : forall pos kws acc vals rest restk,
  NoDup (map fst kws) ->
  bind_named ps pos kws acc = Some (vals, rest, restk) ->
  restk = filter (extra_kw ps) kws.
Proof.
  induction ps as [|p ps IH]; intros pos kws acc vals rest restk ND H; cbn [bind_named] in H.
  - injection H as <- <- <-. symmetry. apply filter_all. intros x _. reflexivity.
  - destruct (pkind p) eqn:K.
    + assert (G : restk = filter (extra_kw ps) kws).
      { destruct pos as [|v pos']; [destruct (default_of p); [|discriminate]|]; exact (IH _ _ _ _ _ _ ND H). }
      rewrite G. apply extra_kw_skip. left. unfold is_kwpassable. rewrite K. reflexivity.
    + destruct pos as [|v pos'].
      * destruct (take_kw (pname p) kws) as [[v kws']|] eqn:T.
        -- pose proof (take_kw_filter _ _ _ _ ND T) as Ek. subst kws'.
           rewrite (IH _ _ _ _ _ _ (NoDup_keys_filter _ _ ND) H).
           apply extra_kw_take. unfold is_kwpassable. rewrite K. reflexivity.
        -- apply take_kw_none in T. destruct (default_of p); [|discriminate].
           rewrite (IH _ _ _ _ _ _ ND H). apply extra_kw_skip. right. exact T.
      * destruct (has_kw (pname p) kws) eqn:T; [discriminate|].
        rewrite (IH _ _ _ _ _ _ ND H). apply extra_kw_skip. right. exact T.
    + rewrite (IH _ _ _ _ _ _ ND H). apply extra_kw_skip. left. unfold is_kwpassable. rewrite K. reflexivity.
    + destruct (take_kw (pname p) kws) as [[v kws']|] eqn:T.
      * pose proof (take_kw_filter _ _ _ _ ND T) as Ek. subst kws'.
        rewrite (IH _ _ _ _ _ _ (NoDup_keys_filter _ _ ND) H).
        apply extra_kw_take. unfold is_kwpassable. rewrite K. reflexivity.
      * apply take_kw_none in T. destruct (default_of p); [|discriminate].
        rewrite (IH _ _ _ _ _ _ ND H). apply extra_kw_skip. right. exact T.
    + rewrite (IH _ _ _ _ _ _ ND H). apply extra_kw_skip. left. unfold is_kwpassable. rewrite K. reflexivity.
Qed.

(* one value per named parameter *)
Lemma bind_named_vals_length ps : forall pos kws acc vals rest restk,
  bind_named ps pos kws acc = Some (vals, rest, restk) ->
  length vals = (length acc + length (filter is_named ps))%nat.
Proof.
  induction ps as [|p ps IH]; intros pos kws acc vals rest restk H; cbn [bind_named] in H.
  - injection H as <- <- <-. cbn [filter length]. lia.
  - cbn [filter]. unfold is_named at 1.
    destruct (pkind p).
    + assert (G : length vals = (length acc + 1 + length (filter is_named ps))%nat).
      { destruct pos as [|v pos']; [destruct (default_of p); [|discriminate]|];
          rewrite (IH _ _ _ _ _ _ H), app_length; reflexivity. }
      rewrite G. cbn [length]. lia.
    + assert (G : length vals = (length acc + 1 + length (filter is_named ps))%nat).
      { destruct pos as [|v pos'].
        - destruct (take_kw (pname p) kws) as [[v kws']|]; [|destruct (default_of p); [|discriminate]];
            rewrite (IH _ _ _ _ _ _ H), app_length; reflexivity.
        - destruct (has_kw (pname p) kws); [discriminate|]. rewrite (IH _ _ _ _ _ _ H), app_length; reflexivity. }
      rewrite G. cbn [length]. lia.
    + exact (IH _ _ _ _ _ _ H).
    + assert (G : length vals = (length acc + 1 + length (filter is_named ps))%nat).
      { destruct (take_kw (pname p) kws) as [[v kws']|]; [|destruct (default_of p); [|discriminate]];
          rewrite (IH _ _ _ _ _ _ H), app_length; reflexivity. }
      rewrite G. cbn [length]. lia.
    + exact (IH _ _ _ _ _ _ H).
Qed.

(* star parameters play no part in bind_named *)
Lemma bind_named_filter_named ps : forall pos kws acc,
  bind_named (filter is_named ps) pos kws acc = bind_named ps pos kws acc.
Proof.
  induction ps as [|p ps IH]; intros pos kws acc; [reflexivity|].
  cbn [filter]. unfold is_named at 1. destruct (pkind p) eqn:K; cbn [bind_named]; rewrite K;
    try (destruct pos as [|v pos']);
    try (destruct (take_kw (pname p) kws) as [[v2 kws']|]);
    try (destruct (default_of p));
    try (destruct (has_kw (pname p) kws));
    try reflexivity; apply IH.
Qed.

(* ------------------------------------------------------------------ *)
(* values stay values                                                   *)

Definition clean (ts : list term) : bool := forallb (fun t => negb (is_raise t)) ts.
Definition clean_kw (kws : list (name * term)) : bool := forallb (fun kv => negb (is_raise (snd kv))) kws.
Definition clean_call (c : vcall) : bool := clean (vpos c) && clean_kw (vkws c).

Lemma clean_app a b : clean (a ++ b) = clean a && clean b.
Proof. unfold clean. apply forallb_app. Qed.

Lemma clean_kw_app a b : clean_kw (a ++ b) = clean_kw a && clean_kw b.
Proof. unfold clean_kw. apply forallb_app. Qed.

Lemma take_kw_clean k kws v kws' :
  clean_kw kws = true -> take_kw k kws = Some (v, kws') -> is_raise v = false /\ clean_kw kws' = true.
Proof.
  revert v kws'. induction kws as [|[k' v'] kws IH]; intros v kws' C H; cbn [take_kw] in H; [discriminate|].
  cbn [clean_kw forallb snd] in C. apply andb_true_iff in C. destruct C as [C1 C2]. apply negb_true_iff in C1.
  destruct (N.eqb k k').
  - injection H as <- <-. split; assumption.
  - destruct (take_kw k kws) as [[r rest]|]; [|discriminate]. injection H as <- <-.
    destruct (IH r rest C2 eq_refl) as [H1 H2]. split; [exact H1|].
    cbn [clean_kw forallb snd]. rewrite C1. exact H2.
Qed.

Lemma default_of_clean p d : default_of p = Some d -> is_raise d = false.
Proof. unfold default_of. destruct (pdef p); [|discriminate]. intros H. injection H as <-. reflexivity. Qed.

Lemma clean_snoc acc v : clean acc = true -> is_raise v = false -> clean (acc ++ [v]) = true.
Proof. intros H1 H2. rewrite clean_app, H1. cbn. rewrite H2. reflexivity. Qed.

Lemma bind_named_clean ps : forall pos kws acc vals rest restk,
  clean acc = true -> clean pos = true -> clean_kw kws = true ->
  bind_named ps pos kws acc = Some (vals, rest, restk) ->
  clean vals = true /\ clean rest = true /\ clean_kw restk = true.
Proof.
  induction ps as [|p ps IH]; intros pos kws acc vals rest restk Ca Cp Ck H; cbn [bind_named] in H.
  - injection H as <- <- <-. auto.
  - destruct (pkind p).
    + destruct pos as [|v pos'].
      * destruct (default_of p) as [d|] eqn:D; [|discriminate].
        exact (IH _ _ _ _ _ _ (clean_snoc _ _ Ca (default_of_clean _ _ D)) Cp Ck H).
      * cbn [clean forallb] in Cp. apply andb_true_iff in Cp. destruct Cp as [Cv Cp]. apply negb_true_iff in Cv.
        exact (IH _ _ _ _ _ _ (clean_snoc _ _ Ca Cv) Cp Ck H).
    + destruct pos as [|v pos'].
      * destruct (take_kw (pname p) kws) as [[v kws']|] eqn:T.
        -- destruct (take_kw_clean _ _ _ _ Ck T) as [Cv Ck'].
           exact (IH _ _ _ _ _ _ (clean_snoc _ _ Ca Cv) Cp Ck' H).
        -- destruct (default_of p) as [d|] eqn:D; [|discriminate].
           exact (IH _ _ _ _ _ _ (clean_snoc _ _ Ca (default_of_clean _ _ D)) Cp Ck H).
      * destruct (has_kw (pname p) kws); [discriminate|].
        cbn [clean forallb] in Cp. apply andb_true_iff in Cp. destruct Cp as [Cv Cp]. apply negb_true_iff in Cv.
        exact (IH _ _ _ _ _ _ (clean_snoc _ _ Ca Cv) Cp Ck H).
    + exact (IH _ _ _ _ _ _ Ca Cp Ck H).
    + destruct (take_kw (pname p) kws) as [[v kws']|] eqn:T.
      * destruct (take_kw_clean _ _ _ _ Ck T) as [Cv Ck'].
        exact (IH _ _ _ _ _ _ (clean_snoc _ _ Ca Cv) Cp Ck' H).
      * destruct (default_of p) as [d|] eqn:D; [|discriminate].
        exact (IH _ _ _ _ _ _ (clean_snoc _ _ Ca (default_of_clean _ _ D)) Cp Ck H).
    + exact (IH _ _ _ _ _ _ Ca Cp Ck H).
Qed.

(* ------------------------------------------------------------------ *)
(* when bind_named succeeds                                             *)

(* every named parameter gets a value, no regular parameter gets two: n positional
   arguments are left, ks are the keyword names *)
Fixpoint named_ok (ps : list param) (n : nat) (ks : list name) : bool :=
  match ps with
  | [] => true
  | p :: ps' =>
      match pkind p with
      | PO => match n with S _ => true | O => has_def p end && named_ok ps' (Nat.pred n) ks
      | PK => match n with
              | S _ => negb (mem (pname p) ks)
              | O => mem (pname p) ks || has_def p
              end && named_ok ps' (Nat.pred n) ks
      | KO => (mem (pname p) ks || has_def p) && named_ok ps' n ks
      | VP | VK => named_ok ps' n ks
      end
  end.

Definition succeeds {A} (o : option A) : bool := match o with Some _ => true | None => false end.

Lemma named_ok_ext ps : forall n ks ks',
  (forall k, In k (names_of ps) -> mem k ks = mem k ks') -> named_ok ps n ks = named_ok ps n ks'.
Proof.
  induction ps as [|p ps IH]; intros n ks ks' H; [reflexivity|]. cbn [named_ok].
  assert (Hp : mem (pname p) ks = mem (pname p) ks') by (apply H; left; reflexivity).
  assert (Hr : forall m, named_ok ps m ks = named_ok ps m ks').
  { intros m. apply IH. intros k Hk. apply H. right. exact Hk. }
  rewrite Hp, !Hr. reflexivity.
Qed.

Lemma named_ok_take p ps n (kws : list (name * term)) :
  ~ In (pname p) (names_of ps) ->
  named_ok ps n (map fst (filter (not_key (pname p)) kws)) = named_ok ps n (map fst kws).
Proof.
  intros Hn. apply named_ok_ext. intros k Hk. apply mem_keys_not_key.
  apply N.eqb_neq. intros E. apply Hn. rewrite E. exact Hk.
Qed.

Lemma has_def_default p : has_def p = succeeds (default_of p).
Proof. unfold has_def, default_of. destruct (pdef p); reflexivity. Qed.

Lemma bind_named_succeeds ps : forall pos kws acc,
  NoDup (names_of ps) -> NoDup (map fst kws) ->
  succeeds (bind_named ps pos kws acc) = named_ok ps (length pos) (map fst kws).
Proof.
  induction ps as [|p ps IH]; intros pos kws acc NP NK; [reflexivity|].
  cbn [names_of map] in NP. inversion NP as [|? ? Hn NP']; subst.
  cbn [bind_named named_ok]. destruct (pkind p).
  - destruct pos as [|v pos']; cbn [length Nat.pred].
    + rewrite has_def_default. destruct (default_of p); cbn [succeeds andb]; [apply IH; assumption|reflexivity].
    + cbn [andb]. apply IH; assumption.
  - destruct pos as [|v pos']; cbn [length Nat.pred].
    + rewrite <- has_kw_mem. destruct (take_kw (pname p) kws) as [[v kws']|] eqn:T.
      * assert (Hk : has_kw (pname p) kws = true).
        { destruct (has_kw (pname p) kws) eqn:E; [reflexivity|]. apply take_kw_none in E. congruence. }
        rewrite Hk. cbn [orb andb]. rewrite (take_kw_filter _ _ _ _ NK T).
        rewrite (IH [] _ _ NP' (NoDup_keys_filter _ _ NK)). cbn [length]. apply named_ok_take. exact Hn.
      * apply take_kw_none in T. rewrite T. cbn [orb]. rewrite has_def_default.
        destruct (default_of p); cbn [succeeds andb]; [apply IH; assumption|reflexivity].
    + rewrite <- has_kw_mem. destruct (has_kw (pname p) kws); cbn [negb andb succeeds]; [reflexivity|].
      apply IH; assumption.
  - apply IH; assumption.
  - rewrite <- has_kw_mem. destruct (take_kw (pname p) kws) as [[v kws']|] eqn:T.
    + assert (Hk : has_kw (pname p) kws = true).
      { destruct (has_kw (pname p) kws) eqn:E; [reflexivity|]. apply take_kw_none in E. congruence. }
      rewrite Hk. cbn [orb andb]. rewrite (take_kw_filter _ _ _ _ NK T).
      rewrite (IH pos _ _ NP' (NoDup_keys_filter _ _ NK)). apply named_ok_take. exact Hn.
    + apply take_kw_none in T. rewrite T. cbn [orb]. rewrite has_def_default.
      destruct (default_of p); cbn [succeeds andb]; [apply IH; assumption|reflexivity].
  - apply IH; assumption.
Qed.

(* ------------------------------------------------------------------ *)
(* named_ok is the named part of accepts                                *)

Lemma positional_cons p ps :
  positional (p :: ps) = if is_positional p then p :: positional ps else positional ps.
Proof. reflexivity. Qed.

Lemma kwonly_cons p ps : kwonly (p :: ps) = if is_kind KO p then p :: kwonly ps else kwonly ps.
Proof. reflexivity. Qed.

Lemma dup_forall_PO p L n ks :
  pkind p = PO -> ~ In (pname p) (names_of L) ->
  forallb (fun k => negb (is_dup (p :: L) n k)) ks = forallb (fun k => negb (is_dup L (Nat.pred n) k)) ks.
Proof.
  intros K Hn. apply forallb_ext_in'. intros k _. unfold is_dup. cbn [kw_class_pos].
  destruct (N.eqb k (pname p)) eqn:E; [|reflexivity].
  apply N.eqb_eq in E. subst k. rewrite K, (kw_class_pos_foreign L _ _ Hn). reflexivity.
Qed.

Lemma dup_forall_PK p L n ks :
  pkind p = PK -> ~ In (pname p) (names_of L) ->
  forallb (fun k => negb (is_dup (p :: L) n k)) ks
  = match n with O => true | S _ => negb (mem (pname p) ks) end
    && forallb (fun k => negb (is_dup L (Nat.pred n) k)) ks.
Proof.
  intros K Hn.
  rewrite (forallb_point (fun k => negb (is_dup (p :: L) n k))
                         (fun k => negb (is_dup L (Nat.pred n) k)) (pname p)).
  - unfold is_dup at 1. cbn [kw_class_pos]. rewrite N.eqb_refl, K.
    destruct n; cbn [negb]; [rewrite orb_true_r|rewrite orb_false_r]; reflexivity.
  - intros k Hk. unfold is_dup. cbn [kw_class_pos].
    assert (E : N.eqb k (pname p) = false) by (apply N.eqb_neq; exact Hk). rewrite E. reflexivity.
  - intros _. unfold is_dup. rewrite (kw_class_pos_foreign L _ _ Hn). reflexivity.
Qed.

Lemma named_ok_accepts ps : NoDup (names_of ps) -> forall n ks,
  named_ok ps n ks
  = forallb (fun k => negb (is_dup (positional ps) n k)) ks
    && req_pos (positional ps) n ks && req_kwo ps ks.
Proof.
  induction ps as [|p ps IH]; intros NP n ks.
  - cbn [named_ok positional filter req_pos]. unfold req_kwo. cbn [kwonly filter forallb].
    assert (E : forallb (fun k => negb (is_dup [] n k)) ks = true)
      by (apply forallb_forall; intros; reflexivity).
    rewrite E. reflexivity.
  - cbn [names_of map] in NP. inversion NP as [|? ? Hn NP']; subst.
    assert (HnL : ~ In (pname p) (names_of (positional ps))).
    { intros H. apply Hn. exact (names_filter_incl _ _ _ H). }
    specialize (IH NP').
    cbn [named_ok]. rewrite positional_cons. unfold req_kwo. rewrite kwonly_cons.
    unfold is_positional, is_kind, kind_eqb. destruct (pkind p) eqn:K; cbn [kind_rank Nat.eqb].
    + rewrite (dup_forall_PO p _ n ks K HnL). rewrite (IH (Nat.pred n) ks). unfold req_kwo.
      destruct n; cbn [req_pos Nat.pred].
      * unfold is_kind, kind_eqb. rewrite K. cbn [kind_rank Nat.eqb andb]. rewrite orb_false_r.
        destruct (has_def p), (forallb (fun k => negb (is_dup (positional ps) 0 k)) ks),
          (req_pos (positional ps) 0 ks); reflexivity.
      * reflexivity.
    + rewrite (dup_forall_PK p _ n ks K HnL). rewrite (IH (Nat.pred n) ks). unfold req_kwo.
      destruct n; cbn [req_pos Nat.pred].
      * unfold is_kind, kind_eqb. rewrite K. cbn [kind_rank Nat.eqb andb]. rewrite (orb_comm (has_def p)).
        destruct (mem (pname p) ks || has_def p), (forallb (fun k => negb (is_dup (positional ps) 0 k)) ks),
          (req_pos (positional ps) 0 ks); reflexivity.
      * destruct (negb (mem (pname p) ks)); reflexivity.
    + exact (IH n ks).
    + cbn [forallb]. rewrite (IH n ks). unfold req_kwo. rewrite (orb_comm (has_def p)).
      destruct (mem (pname p) ks || has_def p), (forallb (fun k => negb (is_dup (positional ps) n k)) ks),
        (req_pos (positional ps) n ks); reflexivity.
    + exact (IH n ks).
Qed.

Lemma forallb_orb_const {A} (f : A -> bool) (h : bool) l :
  forallb (fun x => f x || h) l = forallb f l || h.
Proof.
  destruct h.
  - rewrite orb_true_r. apply forallb_forall. intros x _. apply orb_true_r.
  - rewrite orb_false_r. apply forallb_ext_in'. intros x _. apply orb_false_r.
Qed.

(* accepts, split into: positional surplus, keyword surplus, the named parameters *)
Lemma accepts_split ps n ks :
  valid_sig ps = true ->
  accepts ps (mkCall n ks)
  = (Nat.leb n (length (positional ps)) || has_kind VP ps)
    && (forallb (kwpassable_name ps) ks || has_kind VK ps)
    && named_ok ps n ks.
Proof.
  intros Hv.
  pose proof (valid_sig_nodup ps Hv) as ND.
  rewrite (named_ok_accepts ps ND n ks).
  destruct (valid_sig_shape ps Hv) as (O & P & V & K & W & E & HO & HP & HV & HK & HW & HlV & HlW).
  set (L := O ++ P).
  assert (HL : all_pos L).
  { intros p Hp. apply in_app_or in Hp. destruct Hp as [Hp|Hp]; [left; exact (HO p Hp)|right; exact (HP p Hp)]. }
  assert (E' : ps = L ++ V ++ K ++ W) by (unfold L; rewrite <- app_assoc; exact E).
  assert (ND' : NoDup (names_of (L ++ V ++ K ++ W))) by (rewrite <- E'; exact ND).
  unfold accepts. cbn [npos Bind.kws]. rewrite E'.
  rewrite (forallb_ext_in' _ _ _ (fun k _ => kw_ok_split L V K W HL HV HK HW ND' n k)).
  rewrite forallb_andb, forallb_orb_const.
  rewrite (pos_of_L L V K W HL HV HK HW), (has_vk L V K W HL HV HK HW).
  set (b1 := forallb (kwpassable_name (L ++ V ++ K ++ W)) ks || nonempty W).
  set (b2 := forallb (fun k => negb (is_dup L n k)) ks).
  set (b3 := req_pos L n ks).
  set (b4 := Nat.leb n (length L) || has_kind VP (L ++ V ++ K ++ W)).
  set (b5 := req_kwo (L ++ V ++ K ++ W) ks).
  destruct b1, b2, b3, b4, b5; reflexivity.
Qed.

(* ------------------------------------------------------------------ *)
(* 1. value-level binding is shape-level acceptance                     *)

(* what a def with parameters ps does with the outcome of bind_named: leftover positionals
   need *args, leftover keywords need **kwargs (def_behaviour's own test) *)
Definition binds (ps : list param) (pos : list term) (kws : list (name * term)) : bool :=
  match bind_named ps pos kws [] with
  | None => false
  | Some (_, rest, restk) =>
      negb ((negb (has_kind VP ps) && negb (is_nil rest)) || (negb (has_kind VK ps) && negb (is_nil restk)))
  end.

Lemma is_nil_skipn {A} (l : list A) n : is_nil (skipn n l) = Nat.leb (length l) n.
Proof.
  revert l. induction n as [|n IH]; intros l; destruct l as [|x l]; cbn [skipn is_nil length Nat.leb]; try reflexivity.
  apply IH.
Qed.

Lemma is_nil_extra ps (kws : list (name * term)) :
  is_nil (filter (extra_kw ps) kws) = forallb (kwpassable_name ps) (map fst kws).
Proof.
  induction kws as [|kv kws IH]; [reflexivity|]. cbn [filter map forallb]. unfold extra_kw at 1.
  destruct (kwpassable_name ps (fst kv)); cbn [negb andb is_nil]; [exact IH|reflexivity].
Qed.

(* the outcome of bind_named, completely: success is the named part of accepts, the leftovers
   are the surplus *)
Theorem bind_named_spec ps pos kws :
  valid_sig ps = true -> NoDup (map fst kws) ->
  match bind_named ps pos kws [] with
  | Some (vals, rest, restk) =>
      named_ok ps (length pos) (map fst kws) = true
      /\ length vals = length (filter is_named ps)
      /\ rest = skipn (length (positional ps)) pos
      /\ restk = filter (extra_kw ps) kws
  | None => named_ok ps (length pos) (map fst kws) = false
  end.
Proof.
  intros Hv NK. pose proof (valid_sig_nodup ps Hv) as ND.
  pose proof (bind_named_succeeds ps pos kws [] ND NK) as S.
  destruct (bind_named ps pos kws []) as [[[vals rest] restk]|] eqn:E; cbn [succeeds] in S.
  - split; [symmetry; exact S|]. split; [exact (bind_named_vals_length _ _ _ _ _ _ _ E)|].
    split; [exact (bind_named_rest _ _ _ _ _ _ _ E)|exact (bind_named_restk _ _ _ _ _ _ _ NK E)].
  - symmetry. exact S.
Qed.

Theorem bind_named_iff_accepts ps pos kws :
  valid_sig ps = true -> NoDup (map fst kws) ->
  binds ps pos kws = accepts ps (mkCall (length pos) (map fst kws)).
Proof.
  intros Hv NK. rewrite (accepts_split ps _ _ Hv). unfold binds.
  pose proof (bind_named_spec ps pos kws Hv NK) as S.
  destruct (bind_named ps pos kws []) as [[[vals rest] restk]|].
  - destruct S as (S1 & _ & S3 & S4). rewrite S1, S3, S4, is_nil_skipn, is_nil_extra.
    destruct (has_kind VP ps), (has_kind VK ps), (Nat.leb (length pos) (length (positional ps))),
      (forallb (kwpassable_name ps) (map fst kws)); reflexivity.
  - rewrite S. rewrite andb_false_r. reflexivity.
Qed.

(* the excluded calls: with a repeated keyword name the shape-level accepts (which sees a
   set of names) and the value-level binding differ; such a call cannot be written *)
Theorem bind_named_iff_accepts_dup_refuted :
  exists ps pos kws, valid_sig ps = true
    /\ binds ps pos kws <> accepts ps (mkCall (length pos) (map fst kws)).
Proof.
  exists [plain_param 1 PK], [], [(1, Val 5); (1, Val 6)]. split; [reflexivity|]. vm_compute. discriminate.
Qed.

Example bind_named_iff_accepts_sat :
  let ps := [plain_param 1 PO; mkParam 2 PK (Some 5) None UEmpty; plain_param n_args VP;
             plain_param 3 KO; plain_param n_kwargs VK] in
  valid_sig ps = true /\ NoDup (map fst [(3, Val 201); (1, Val 202)])
  /\ binds ps [Val 101; Val 102; Val 103] [(3, Val 201); (1, Val 202)] = true
  /\ bind_named ps [Val 101; Val 102; Val 103] [(3, Val 201); (1, Val 202)] []
     = Some ([Val 101; Val 102; Val 201], [Val 103], [(1, Val 202)]).
Proof.
  split; [reflexivity|]. split; [|split; reflexivity].
  constructor; [cbn; intros [H|[]]; discriminate|]. constructor; [intros []|constructor].
Qed.

(* ------------------------------------------------------------------ *)
(* 2. a generated def                                                   *)

Lemma def_behaviour_binds tag ps c :
  def_behaviour tag ps c
  = if binds ps (vpos c) (vkws c)
    then match bind_named ps (vpos c) (vkws c) [] with
         | Some (vals, rest, restk) =>
             Tup tag (vals ++ (if has_kind VP ps then [Tup 0 rest] else [])
                           ++ (if has_kind VK ps then [Kw restk] else []))
         | None => Raise type_error
         end
    else Raise type_error.
Proof.
  unfold def_behaviour, binds. destruct (bind_named ps (vpos c) (vkws c) []) as [[[vals rest] restk]|]; [|reflexivity].
  destruct ((negb (has_kind VP ps) && negb (is_nil rest)) || (negb (has_kind VK ps) && negb (is_nil restk)));
    reflexivity.
Qed.

(* the value: the named parameters in declaration order, then the surplus *)
Theorem def_behaviour_accepted tag ps c :
  valid_sig ps = true -> NoDup (map fst (vkws c)) ->
  accepts ps (vshape c) = true ->
  exists vals,
    bind_named ps (vpos c) (vkws c) []
    = Some (vals, skipn (length (positional ps)) (vpos c), filter (extra_kw ps) (vkws c))
    /\ length vals = length (filter is_named ps)
    /\ def_behaviour tag ps c
       = Tup tag (vals ++ (if has_kind VP ps then [Tup 0 (skipn (length (positional ps)) (vpos c))] else [])
                       ++ (if has_kind VK ps then [Kw (filter (extra_kw ps) (vkws c))] else [])).
Proof.
  intros Hv NK Ha. unfold vshape in Ha. rewrite <- (bind_named_iff_accepts ps _ _ Hv NK) in Ha.
  rewrite def_behaviour_binds, Ha. pose proof (bind_named_spec ps (vpos c) (vkws c) Hv NK) as S.
  unfold binds in Ha.
  destruct (bind_named ps (vpos c) (vkws c) []) as [[[vals rest] restk]|]; [|discriminate].
  destruct S as (_ & S2 & -> & ->). exists vals. repeat split. exact S2.
Qed.

Theorem def_behaviour_rejected tag ps c :
  valid_sig ps = true -> NoDup (map fst (vkws c)) ->
  accepts ps (vshape c) = false -> def_behaviour tag ps c = Raise type_error.
Proof.
  intros Hv NK Ha. unfold vshape in Ha. rewrite <- (bind_named_iff_accepts ps _ _ Hv NK) in Ha.
  rewrite def_behaviour_binds, Ha. reflexivity.
Qed.

(* no hypothesis on the argument terms is needed: the body builds a tuple of them without
   looking inside (Tup, not tup) *)
Theorem def_behaviour_no_type_error tag ps c :
  valid_sig ps = true -> NoDup (map fst (vkws c)) ->
  (def_behaviour tag ps c = Raise type_error <-> accepts ps (vshape c) = false).
Proof.
  intros Hv NK. split.
  - intros H. destruct (accepts ps (vshape c)) eqn:Ha; [|reflexivity].
    destruct (def_behaviour_accepted tag ps c Hv NK Ha) as (vals & _ & _ & E). rewrite E in H. discriminate.
  - exact (def_behaviour_rejected tag ps c Hv NK).
Qed.

Corollary def_behaviour_is_raise tag ps c :
  valid_sig ps = true -> NoDup (map fst (vkws c)) ->
  is_raise (def_behaviour tag ps c) = negb (accepts ps (vshape c)).
Proof.
  intros Hv NK. destruct (accepts ps (vshape c)) eqn:Ha.
  - destruct (def_behaviour_accepted tag ps c Hv NK Ha) as (vals & _ & _ & E). rewrite E. reflexivity.
  - rewrite (def_behaviour_rejected tag ps c Hv NK Ha). reflexivity.
Qed.

Example def_behaviour_no_type_error_sat :
  let ps := [plain_param 1 PK; mkParam 2 PK (Some 5) None UEmpty; plain_param n_args VP] in
  valid_sig ps = true
  /\ def_behaviour 100 ps (mkV [Val 7; Val 8; Val 9] []) = Tup 100 [Val 7; Val 8; Tup 0 [Val 9]]
  /\ accepts ps (vshape (mkV [Val 7; Val 8; Val 9] [])) = true
  /\ def_behaviour 100 ps (mkV [] [(2, Val 8)]) = Raise type_error
  /\ accepts ps (vshape (mkV [] [(2, Val 8)])) = false.
Proof. repeat split; reflexivity. Qed.

(* ------------------------------------------------------------------ *)
(* the surplus at value level is the surplus at shape level             *)

Lemma is_extra_valid ps n k :
  valid_sig ps = true -> is_extra ps n k = negb (kwpassable_name ps k).
Proof.
  intros Hv. pose proof (valid_sig_nodup ps Hv) as ND.
  destruct (valid_sig_shape ps Hv) as (O & P & V & K & W & E & HO & HP & HV & HK & HW & HlV & HlW).
  set (L := O ++ P).
  assert (HL : all_pos L).
  { intros p Hp. apply in_app_or in Hp. destruct Hp as [Hp|Hp]; [left; exact (HO p Hp)|right; exact (HP p Hp)]. }
  assert (E' : ps = L ++ V ++ K ++ W) by (unfold L; rewrite <- app_assoc; exact E).
  assert (ND' : NoDup (names_of (L ++ V ++ K ++ W))) by (rewrite <- E'; exact ND).
  rewrite E'. exact (extra_iff L V K W HL HV HK HW ND' n k).
Qed.

Lemma surplus_kws_keys ps n (kws : list (name * term)) :
  valid_sig ps = true ->
  map fst (filter (extra_kw ps) kws) = surplus_kws ps (mkCall n (map fst kws)).
Proof.
  intros Hv. unfold surplus_kws. cbn [npos Bind.kws].
  induction kws as [|kv kws IH]; [reflexivity|]. cbn [filter map].
  fold (is_extra ps n (fst kv)). rewrite (is_extra_valid ps n _ Hv). unfold extra_kw at 1.
  destruct (kwpassable_name ps (fst kv)); cbn [negb map]; rewrite IH; reflexivity.
Qed.

Lemma surplus_shape ps lits klits pos kws :
  valid_sig ps = true ->
  vshape (mkV (lits ++ skipn (length (positional ps)) pos) (klits ++ filter (extra_kw ps) kws))
  = inner_call ps (mkF (length lits) (map fst klits)) (mkCall (length pos) (map fst kws)).
Proof.
  intros Hv. unfold vshape, inner_call. cbn [vpos vkws f_n f_names].
  rewrite app_length, skipn_length, map_app, (surplus_kws_keys ps (length pos) kws Hv). reflexivity.
Qed.

Lemma extra_keys_incl ps (kws : list (name * term)) k :
  In k (map fst (filter (extra_kw ps) kws)) -> In k (map fst kws).
Proof.
  intros H. apply in_map_iff in H. destruct H as [x [Ex Hx]]. apply filter_In in Hx.
  apply in_map_iff. exists x. split; [exact Ex|exact (proj1 Hx)].
Qed.

Lemma NoDup_app_disj {A} (a b : list A) :
  NoDup a -> NoDup b -> (forall x, In x a -> ~ In x b) -> NoDup (a ++ b).
Proof.
  induction a as [|x a IH]; intros Ha Hb Hd; [exact Hb|].
  inversion Ha as [|? ? Hn Ha']; subst. cbn [app]. constructor.
  - intros Hin. apply in_app_or in Hin. destruct Hin as [Hin|Hin]; [exact (Hn Hin)|].
    exact (Hd x (or_introl eq_refl) Hin).
  - apply IH; [exact Ha'|exact Hb|]. intros y Hy. apply Hd. right. exact Hy.
Qed.

(* the call does not repeat the body's literal keywords *)
Lemma disjoint_no_clash ps (kws : list (name * term)) (klits : list (name * term)) :
  disjointb (map fst kws) (map fst klits) = true ->
  existsb (fun kv => has_kw (fst kv) (filter (extra_kw ps) kws)) klits = false.
Proof.
  intros Hd. destruct (existsb _ klits) eqn:E; [|reflexivity]. exfalso.
  apply existsb_exists in E. destruct E as [kv [Hin Hk]].
  rewrite has_kw_mem in Hk. apply mem_In in Hk. apply extra_keys_incl in Hk.
  unfold disjointb in Hd. rewrite forallb_forall in Hd. specialize (Hd _ Hk).
  apply negb_true_iff in Hd. apply mem_false_In in Hd. apply Hd. apply in_map. exact Hin.
Qed.

Lemma inner_keys_nodup ps (kws : list (name * term)) (klits : list (name * term)) :
  NoDup (map fst kws) -> NoDup (map fst klits) ->
  disjointb (map fst kws) (map fst klits) = true ->
  NoDup (map fst (klits ++ filter (extra_kw ps) kws)).
Proof.
  intros NK NL Hd. rewrite map_app. apply NoDup_app_disj; [exact NL|exact (NoDup_keys_filter _ _ NK)|].
  intros k Hk Hk'. apply extra_keys_incl in Hk'.
  unfold disjointb in Hd. rewrite forallb_forall in Hd. specialize (Hd _ Hk').
  apply negb_true_iff in Hd. apply mem_false_In in Hd. exact (Hd Hk).
Qed.

(* ------------------------------------------------------------------ *)
(* 3. a generated wrapper body                                          *)

(* the body does not itself raise the binding TypeError *)
Definition mode_ok (m : body_mode) : bool :=
  match m with
  | Return => true
  | RaiseBefore e | RaiseAfter e => negb (N.eqb e type_error)
  end.

(* what the body does with the result r of its inner call *)
Definition finish (tag : N) (mode : body_mode) (vals : list term) (r : term) : term :=
  match mode with
  | RaiseAfter e => if is_raise r then r else Raise e
  | _ => tup tag (vals ++ [r])
  end.

(* def w(fparam, <others>): fparam is supplied by partial(wrapper, wrapped); own are the
   named parameters among the others.  On a call c that the wrapper's parameters accept
   (with func prepended): the binding succeeds, and unless the body raises before, it
   performs exactly one inner call: its literals, then the surplus of the binding *)
Theorem wrapper_behaviour_accepted tag fparam others lits klits mode func c :
  valid_sig (fparam :: others) = true -> is_named fparam = true ->
  NoDup (map fst (vkws c)) ->
  accepts (fparam :: others) (succ_call (vshape c)) = true ->
  let rest := skipn (length (positional (fparam :: others))) (Val 0 :: vpos c) in
  let restk := filter (extra_kw (fparam :: others)) (vkws c) in
  exists v0 vals,
    bind_named (fparam :: filter is_named others) (Val 0 :: vpos c) (vkws c) [] = Some (v0 :: vals, rest, restk)
    /\ vshape (mkV (lits ++ rest) (klits ++ restk))
       = inner_call (fparam :: others) (mkF (length lits) (map fst klits)) (succ_call (vshape c))
    /\ wrapper_behaviour tag fparam (filter is_named others) lits klits mode func c
       = match mode with
         | RaiseBefore e => Raise e
         | _ =>
             if existsb (fun kv => has_kw (fst kv) restk) klits then Raise type_error
             else finish tag mode vals (func (mkV (lits ++ rest) (klits ++ restk)))
         end.
Proof.
  intros Hv Hf NK Ha rest restk.
  assert (Ef : filter is_named (fparam :: others) = fparam :: filter is_named others)
    by (cbn [filter]; rewrite Hf; reflexivity).
  unfold succ_call, vshape in Ha. cbn [npos Bind.kws] in Ha.
  rewrite (accepts_split (fparam :: others) (S (length (vpos c))) (map fst (vkws c)) Hv) in Ha.
  apply andb_true_iff in Ha. destruct Ha as [_ Hn].
  pose proof (bind_named_spec (fparam :: others) (Val 0 :: vpos c) (vkws c) Hv NK) as S.
  rewrite <- bind_named_filter_named, Ef in S. cbn [length] in S.
  unfold wrapper_behaviour.
  destruct (bind_named (fparam :: filter is_named others) (Val 0 :: vpos c) (vkws c) [])
    as [[[vals0 rest0] restk0]|]; [|congruence].
  destruct S as (_ & S2 & S3 & S4). cbn [length] in S2.
  destruct vals0 as [|v0 vals]; [discriminate|].
  exists v0, vals. subst rest0 restk0. fold rest restk.
  split; [reflexivity|]. split; [|destruct mode; reflexivity].
  unfold rest, restk. rewrite (surplus_shape (fparam :: others) lits klits (Val 0 :: vpos c) (vkws c) Hv).
  reflexivity.
Qed.

(* with *args and **kwargs among the others, a rejected call is the wrapper's own TypeError *)
Theorem wrapper_behaviour_rejected tag fparam others lits klits mode func c :
  valid_sig (fparam :: others) = true -> is_named fparam = true ->
  has_kind VP (fparam :: others) = true -> has_kind VK (fparam :: others) = true ->
  NoDup (map fst (vkws c)) ->
  accepts (fparam :: others) (succ_call (vshape c)) = false ->
  wrapper_behaviour tag fparam (filter is_named others) lits klits mode func c = Raise type_error.
Proof.
  intros Hv Hf HP HK NK Ha.
  assert (Ef : filter is_named (fparam :: others) = fparam :: filter is_named others)
    by (cbn [filter]; rewrite Hf; reflexivity).
  unfold succ_call, vshape in Ha. cbn [npos Bind.kws] in Ha.
  rewrite (accepts_split (fparam :: others) (S (length (vpos c))) (map fst (vkws c)) Hv) in Ha.
  rewrite HP, HK, !orb_true_r in Ha. cbn [andb] in Ha.
  pose proof (bind_named_spec (fparam :: others) (Val 0 :: vpos c) (vkws c) Hv NK) as S.
  rewrite <- bind_named_filter_named, Ef in S. cbn [length] in S.
  unfold wrapper_behaviour.
  destruct (bind_named (fparam :: filter is_named others) (Val 0 :: vpos c) (vkws c) [])
    as [[[vals0 rest0] restk0]|]; [|reflexivity].
  destruct S as (S1 & _). congruence.
Qed.

Lemma tup_clean tag vals r :
  clean vals = true -> tup tag (vals ++ [r]) = if is_raise r then r else Tup tag (vals ++ [r]).
Proof.
  intros Hc. unfold tup. rewrite (find_raise_app vals r Hc). destruct (is_raise r); reflexivity.
Qed.

(* the analogue of def_behaviour_no_type_error: on an accepted call whose keywords do not repeat
   the body's literal keywords, the layer raises type_error only if the inner call does *)
Theorem wrapper_behaviour_no_type_error tag fparam others lits klits mode func c :
  valid_sig (fparam :: others) = true -> is_named fparam = true ->
  NoDup (map fst (vkws c)) -> clean_call c = true -> mode_ok mode = true ->
  accepts (fparam :: others) (succ_call (vshape c)) = true ->
  disjointb (map fst (vkws c)) (map fst klits) = true ->
  wrapper_behaviour tag fparam (filter is_named others) lits klits mode func c = Raise type_error ->
  func (mkV (lits ++ skipn (length (positional (fparam :: others))) (Val 0 :: vpos c))
            (klits ++ filter (extra_kw (fparam :: others)) (vkws c))) = Raise type_error.
Proof.
  intros Hv Hf NK Hc Hm Ha Hd H.
  destruct (wrapper_behaviour_accepted tag fparam others lits klits mode func c Hv Hf NK Ha)
    as (v0 & vals & Eb & _ & E).
  rewrite E in H. clear E.
  unfold clean_call in Hc. apply andb_true_iff in Hc. destruct Hc as [Cp Ck].
  assert (Cv : clean vals = true).
  { assert (C0 : clean (Val 0 :: vpos c) = true) by (cbn [clean forallb is_raise negb andb]; exact Cp).
    destruct (bind_named_clean _ _ _ _ _ _ _ (eq_refl : clean [] = true) C0 Ck Eb) as [Cv _].
    cbn [clean forallb] in Cv. apply andb_true_iff in Cv. exact (proj2 Cv). }
  rewrite (disjoint_no_clash _ _ _ Hd) in H.
  set (r := func _) in *. unfold finish in H.
  destruct mode as [|e|e]; cbn [mode_ok] in Hm.
  - rewrite (tup_clean tag vals r Cv) in H. destruct (is_raise r); [exact H|discriminate].
  - injection H as H. subst e. discriminate.
  - destruct (is_raise r); [exact H|]. injection H as H. subst e. discriminate.
Qed.

Example wrapper_behaviour_sat :
  let fparam := plain_param 18 PK in
  let others := [plain_param 14 PK; plain_param n_args VP; plain_param 15 KO; plain_param n_kwargs VK] in
  let c := mkV [Val 5; Val 6] [(15, Val 7); (3, Val 8)] in
  valid_sig (fparam :: others) = true /\ accepts (fparam :: others) (succ_call (vshape c)) = true
  /\ wrapper_behaviour 1 fparam (filter is_named others) [Val 901] [(2, Val 952)] Return (app_behaviour 100) c
     = Tup 1 [Val 5; Val 7; App 100 [Val 901; Val 6] [(2, Val 952); (3, Val 8)]].
Proof. repeat split; reflexivity. Qed.

(* a body that itself raises the binding TypeError is outside: mode_ok is needed *)
Theorem wrapper_behaviour_mode_refuted :
  exists tag fparam others lits klits func c,
    valid_sig (fparam :: others) = true /\ accepts (fparam :: others) (succ_call (vshape c)) = true
    /\ wrapper_behaviour tag fparam (filter is_named others) lits klits (RaiseBefore type_error) func c
       = Raise type_error
    /\ func (mkV (lits ++ skipn (length (positional (fparam :: others))) (Val 0 :: vpos c))
                 (klits ++ filter (extra_kw (fparam :: others)) (vkws c))) <> Raise type_error.
Proof.
  exists 1, (plain_param 18 PK), [plain_param n_args VP; plain_param n_kwargs VK], [], [],
         (app_behaviour 100), (mkV [Val 5] []).
  repeat split; try reflexivity. vm_compute. discriminate.
Qed.

(* ------------------------------------------------------------------ *)
(* 4. stacks of generated wrappers over a def                           *)

(* a layer made from a generated wrapping function
     def w(fparam, <others>): ... func(<lits>, *args, <klits>, **kwargs) ...
   with the forwarding description the decorator was given / discovered *)
Definition gen_layer (l : layer) : Prop :=
  exists tag fparam others lits klits mode,
    params (w_sig (snd l)) = fparam :: others
    /\ is_positional fparam = true
    /\ w_run (snd l) = wrapper_behaviour tag fparam (filter is_named others) lits klits mode
    /\ f_n (snd (fst l)) = length lits
    /\ f_names (snd (fst l)) = map fst klits
    /\ clean lits = true /\ clean_kw klits = true /\ mode_ok mode = true.

(* what the body of the decorated function promises *)
Definition sound_body (s : sigT) (b : behaviour) : Prop :=
  forall c, NoDup (map fst (vkws c)) -> clean_call c = true ->
            accepts (params s) (vshape c) = true -> b c <> Raise type_error.

Lemma def_behaviour_sound_body tag s :
  valid_sig (params s) = true -> sound_body s (def_behaviour tag (params s)).
Proof.
  intros Hv c NK _ Ha H. apply (def_behaviour_no_type_error tag (params s) c Hv NK) in H. congruence.
Qed.

(* every layer described through its wrapping function's own parameters, func prepended *)
Fixpoint stack_exec_w (ls : list layer) (s : sigT) (c : Bind.call) : bool :=
  match ls with
  | [] => accepts (params s) c
  | (_, fa, w) :: ls' =>
      negb (mem n_self (kws c))
      && accepts (params (w_sig w)) (succ_call c)
      && disjointb (kws c) (f_names fa)
      && stack_exec_w ls' s (inner_call (params (w_sig w)) fa (succ_call c))
  end.

Lemma clean_skipn n l : clean l = true -> clean (skipn n l) = true.
Proof.
  revert l. induction n as [|n IH]; intros l H; [exact H|]. destruct l as [|x l]; [reflexivity|].
  cbn [skipn]. cbn [clean forallb] in H. apply andb_true_iff in H. exact (IH l (proj2 H)).
Qed.

Lemma clean_kw_filter f kws : clean_kw kws = true -> clean_kw (filter f kws) = true.
Proof.
  induction kws as [|kv kws IH]; intros H; [reflexivity|].
  cbn [clean_kw forallb] in H. apply andb_true_iff in H. destruct H as [H1 H2].
  cbn [filter]. destruct (f kv); [|exact (IH H2)]. cbn [clean_kw forallb]. rewrite H1. exact (IH H2).
Qed.

Theorem stack_exec_w_no_type_error ls id s b :
  Forall layer_ok ls -> Forall gen_layer ls -> sound_body s b ->
  forall c, NoDup (map fst (vkws c)) -> clean_call c = true ->
            stack_exec_w ls s (vshape c) = true ->
            call (stack ls (Plain id s b)) c <> Raise type_error.
Proof.
  intros HF HG Hb. induction ls as [|[[fl fa] w] ls IH]; intros c NK Hc He.
  - cbn [stack fold_right call]. cbn [stack_exec_w] in He. exact (Hb c NK Hc He).
  - inversion HF as [|? ? [Vw Hnd] HF']; subst. inversion HG as [|? ? Hg HG']; subst.
    cbn [fst snd] in Vw, Hnd.
    destruct Hg as (tag & fparam & others & lits & klits & mode & Ep & Hpos & Er & En & Ek & Cl & Ckl & Hm).
    cbn [fst snd] in Ep, Er, En, Ek.
    specialize (IH HF' HG').
    change (stack ((fl, fa, w) :: ls) (Plain id s b)) with (Deco fl fa w (stack ls (Plain id s b))).
    cbn [call]. unfold self_guard.
    cbn [stack_exec_w] in He.
    apply andb_true_iff in He. destruct He as [He Hin].
    apply andb_true_iff in He. destruct He as [He Hd].
    apply andb_true_iff in He. destruct He as [Hself Ha].
    apply negb_true_iff in Hself. unfold vshape in Hself at 1. cbn [Bind.kws] in Hself.
    rewrite has_kw_mem, Hself, Er.
    rewrite Ep in Vw, Ha, Hin. rewrite Ek in Hd, Hnd. unfold vshape in Hd at 1. cbn [Bind.kws] in Hd.
    assert (Hf : is_named fparam = true).
    { unfold is_positional in Hpos. unfold is_named. destruct (pkind fparam); try discriminate; reflexivity. }
    intros H.
    apply (wrapper_behaviour_no_type_error tag fparam others lits klits mode _ c Vw Hf NK Hc Hm Ha Hd) in H.
    revert H. apply IH.
    + cbn [vkws]. exact (inner_keys_nodup _ _ _ NK Hnd Hd).
    + unfold clean_call in *. cbn [vpos vkws]. apply andb_true_iff in Hc. destruct Hc as [Cp Ck].
      rewrite clean_app, Cl, clean_kw_app, Ckl. cbn [andb].
      rewrite (clean_skipn _ (Val 0 :: vpos c)) by (cbn [clean forallb is_raise negb andb]; exact Cp).
      exact (clean_kw_filter _ _ Ck).
    + rewrite (surplus_shape (fparam :: others) lits klits (Val 0 :: vpos c) (vkws c) Vw).
      unfold inner_call in *. cbn [f_n f_names]. rewrite En, Ek in Hin. exact Hin.
Qed.

(* ------------------------------------------------------------------ *)
(* from the layer descriptions of WrappersSound.v to the uniform one    *)

(* partial(wrapper, wrapped) has the wrapper's parameters minus the first *)
Lemma generic_partial_params w q fparam others :
  valid_sig (params (w_sig w)) = true -> params (w_sig w) = fparam :: others ->
  is_positional fparam = true -> generic_partial w = Ok q -> params q = others.
Proof.
  intros Vw Ep Hpos Eq.
  destruct (mask1_tl (w_sig w) fparam others Vw Ep Hpos) as [r [Em Er]].
  pose proof (sig_partial_pos_params (w_sig w) 1 (w_id w)) as H.
  unfold generic_partial in Eq. rewrite Eq in H.
  change nohide with nohide0 in Em. rewrite Em in H. rewrite H. exact Er.
Qed.

Lemma noncolliding_kwpassable c fparam others k :
  noncolliding c others [fparam :: others] = true -> In k (kws c) ->
  kwpassable_name (fparam :: others) k = kwpassable_name others k.
Proof.
  intros Hnc Hk. unfold noncolliding in Hnc. rewrite forallb_forall in Hnc. specialize (Hnc k Hk).
  rewrite kwpassable_name_cons. destruct (kwpassable_name others k); [apply orb_true_r|].
  cbn [orb] in Hnc. apply negb_true_iff in Hnc.
  unfold all_names in Hnc. cbn [flat_map names_of map app mem] in Hnc.
  apply orb_false_iff in Hnc. destruct Hnc as [Hnc _]. rewrite Hnc, andb_false_r. reflexivity.
Qed.

(* the call the body makes, seen from partial(wrapper, wrapped) or from the wrapper itself *)
Lemma inner_call_partial fparam others fa c :
  valid_sig (fparam :: others) = true -> valid_sig others = true -> is_positional fparam = true ->
  noncolliding c others [fparam :: others] = true ->
  inner_call others fa c = inner_call (fparam :: others) fa (succ_call c).
Proof.
  intros V1 V2 Hpos Hnc. unfold inner_call. f_equal.
  - f_equal. unfold surplus_pos, succ_call. cbn [npos]. rewrite positional_cons, Hpos. reflexivity.
  - f_equal. unfold surplus_kws, succ_call. cbn [npos Bind.kws].
    apply filter_ext_in'. intros k Hk.
    fold (is_extra others (npos c) k). fold (is_extra (fparam :: others) (S (npos c)) k).
    rewrite (is_extra_valid _ _ _ V1), (is_extra_valid _ _ _ V2).
    rewrite (noncolliding_kwpassable c fparam others k Hnc Hk). reflexivity.
Qed.

(* the hypothesis the bridge adds for wrapper_decorator layers: stack_exec describes such a layer
   through partial(wrapper, wrapped), whose signature no longer shows the first parameter, so
   a keyword named like it is invisible there; the call must be non-colliding with the wrapper's
   own parameters too (for wrappers.decorator layers stack_side already says so) *)
Fixpoint stack_func_side (ls : list layer) (c : Bind.call) : bool :=
  match ls with
  | [] => true
  | (Declared, fa, w) :: ls' =>
      match generic_partial w with
      | Ok q => noncolliding c (params q) [params (w_sig w)]
                && stack_func_side ls' (inner_call (params q) fa c)
      | Err _ => false
      end
  | (Simple, fa, w) :: ls' => stack_func_side ls' (inner_call (params (w_sig w)) fa (succ_call c))
  end.

Theorem stack_exec_uniform ls s :
  Forall layer_ok ls -> Forall gen_layer ls ->
  forall c, stack_side ls s c = true -> stack_func_side ls c = true ->
            stack_exec ls s c = true -> stack_exec_w ls s c = true.
Proof.
  intros HF HG. induction ls as [|[[fl fa] w] ls IH]; intros c Hside Hfs He; [exact He|].
  inversion HF as [|? ? [Vw Hnd] HF']; subst. inversion HG as [|? ? Hg HG']; subst.
  cbn [fst snd] in Vw, Hnd.
  destruct Hg as (tag & fparam & others & lits & klits & mode & Ep & Hpos & _).
  cbn [fst snd] in Ep. specialize (IH HF' HG').
  destruct fl.
  - (* wrappers.decorator *)
    cbn [stack_side] in Hside. cbn [stack_func_side] in Hfs. cbn [stack_exec] in He. cbn [stack_exec_w].
    destruct (stack_sig ls s) as [x|]; [|discriminate].
    destruct (simple_P w fa x) as [p|]; [|discriminate].
    destruct (simple_Q w p) as [q|]; [|discriminate].
    destruct (simple_R q) as [sR|]; [|discriminate].
    match type of Hside with (match ?X with Ok _ => _ | Err _ => _ end) = _ => destruct X as [r0|] end;
      [|discriminate].
    apply andb_true_iff in Hside. destruct Hside as [Hside Hrest].
    apply andb_true_iff in Hside. destruct Hside as [_ Hd].
    apply andb_true_iff in He. destruct He as [He Hin].
    rewrite He, Hd. cbn [andb]. exact (IH _ Hrest Hfs Hin).
  - (* wrappers.wrapper_decorator *)
    cbn [stack_side] in Hside. cbn [stack_func_side] in Hfs. cbn [stack_exec] in He. cbn [stack_exec_w].
    destruct (stack_sig ls s) as [x|]; [|discriminate].
    destruct (generic_partial w) as [q|] eqn:Eq; [|discriminate].
    destruct (forwards q x (f_n fa) (f_names fa) false false true true false) as [r0|]; [|discriminate].
    apply andb_true_iff in Hside. destruct Hside as [Hside Hrest].
    apply andb_true_iff in Hside. destruct Hside as [_ Hd].
    apply andb_true_iff in Hfs. destruct Hfs as [Hnc Hfs].
    apply andb_true_iff in He. destruct He as [He Hin].
    apply andb_true_iff in He. destruct He as [Hself Ha].
    rewrite (generic_partial_exact w q c Vw Eq Hnc) in Ha.
    rewrite Hself, Ha, Hd. cbn [andb].
    pose proof (generic_partial_valid w q Vw Eq) as Vq.
    pose proof (generic_partial_params w q fparam others Vw Ep Hpos Eq) as Eo.
    rewrite Ep in Vw, Hnc |- *. rewrite Eo in Vq, Hnc, Hrest, Hfs, Hin.
    rewrite <- (inner_call_partial fparam others fa c Vw Vq Hpos Hnc).
    exact (IH _ Hrest Hfs Hin).
Qed.

(* the bridge: under the hypotheses of C13_stack_sound (plus stack_func_side), an accepted call
   evaluates to something that is not the argument-binding TypeError, whatever the depth *)
Theorem stack_call_no_type_error_body ls id s b c r :
  Forall layer_ok ls -> Forall gen_layer ls ->
  valid_sig (params s) = true -> sound_body s b ->
  NoDup (map fst (vkws c)) -> clean_call c = true ->
  stack_side ls s (vshape c) = true -> stack_func_side ls (vshape c) = true ->
  sig_of (stack ls (Plain id s b)) = Ok r ->
  accepts (params r) (vshape c) = true ->
  call (stack ls (Plain id s b)) c <> Raise type_error.
Proof.
  intros HF HG Vs Hb NK Hc Hside Hfs E Ha.
  pose proof (C13_stack_sound ls id s b (vshape c) r HF Vs Hside E Ha) as He.
  pose proof (stack_exec_uniform ls s HF HG (vshape c) Hside Hfs He) as Hw.
  exact (stack_exec_w_no_type_error ls id s b HF HG Hb c NK Hc Hw).
Qed.

Theorem stack_call_no_type_error ls id s tag c r :
  Forall layer_ok ls -> Forall gen_layer ls ->
  valid_sig (params s) = true ->
  NoDup (map fst (vkws c)) -> clean_call c = true ->
  stack_side ls s (vshape c) = true -> stack_func_side ls (vshape c) = true ->
  sig_of (stack ls (Plain id s (def_behaviour tag (params s)))) = Ok r ->
  accepts (params r) (vshape c) = true ->
  call (stack ls (Plain id s (def_behaviour tag (params s)))) c <> Raise type_error.
Proof.
  intros HF HG Vs. apply stack_call_no_type_error_body; try assumption.
  exact (def_behaviour_sound_body tag s Vs).
Qed.

(* ---- the hypotheses are satisfiable: a 2-deep stack, both flavours, literals forwarded ---- *)

Definition bx_w1 : wrapperT :=      (* def w1(func, x, *args, **kwargs): return ('w1', x, func( *args, **kwargs)) *)
  mkW 1 (sig_of_params [plain_param 18 PK; plain_param 14 PK; plain_param n_args VP; plain_param n_kwargs VK])
      (wrapper_behaviour 1 (plain_param 18 PK)
         (filter is_named [plain_param 14 PK; plain_param n_args VP; plain_param n_kwargs VK]) [] [] Return).
Definition bx_w2 : wrapperT :=      (* def w2(func, *args, y, **kwargs): return ('w2', y, func(901, *args, c=953, **kwargs)) *)
  mkW 2 (sig_of_params [plain_param 18 PK; plain_param n_args VP; plain_param 15 KO; plain_param n_kwargs VK])
      (wrapper_behaviour 2 (plain_param 18 PK)
         (filter is_named [plain_param n_args VP; plain_param 15 KO; plain_param n_kwargs VK])
         [Val 901] [(3, Val 953)] Return).
Definition bx_f : sigT :=           (* def f(a, b=1, *, c=1) *)
  sig_of_params [plain_param 1 PK; mkParam 2 PK (Some 1) None UEmpty; mkParam 3 KO (Some 1) None UEmpty].
(* w1 through wrappers.decorator, w2 through wrappers.wrapper_decorator(1, 'c') *)
Definition bx_stack : list layer := [(Simple, mkF 0 [], bx_w1); (Declared, mkF 1 [3], bx_w2)].
Definition bx_obj : obj := stack bx_stack (Plain 100 bx_f (def_behaviour 100 (params bx_f))).
Definition bx_call : vcall := mkV [Val 5; Val 6] [(15, Val 7)].      (* obj(5, 6, y=7) *)

Lemma bx_gen : Forall gen_layer bx_stack.
Proof.
  constructor; [|constructor; [|constructor]].
  - exists 1, (plain_param 18 PK), [plain_param 14 PK; plain_param n_args VP; plain_param n_kwargs VK],
           [], [], Return. repeat split; reflexivity.
  - exists 2, (plain_param 18 PK), [plain_param n_args VP; plain_param 15 KO; plain_param n_kwargs VK],
           [Val 901], [(3, Val 953)], Return. repeat split; reflexivity.
Qed.

Example stack_call_no_type_error_sat :
  Forall layer_ok bx_stack /\ Forall gen_layer bx_stack /\ valid_sig (params bx_f) = true
  /\ NoDup (map fst (vkws bx_call)) /\ clean_call bx_call = true
  /\ stack_side bx_stack bx_f (vshape bx_call) = true /\ stack_func_side bx_stack (vshape bx_call) = true
  /\ shape (sig_of bx_obj) = Some [(14, 1%nat, false); (2, 1%nat, true); (15, 3%nat, false)]
  /\ (exists r, sig_of bx_obj = Ok r /\ accepts (params r) (vshape bx_call) = true)
  /\ call bx_obj bx_call = Tup 1 [Val 5; Tup 2 [Val 7; Tup 100 [Val 901; Val 6; Val 953]]].
Proof.
  split; [repeat constructor; intros []|]. split; [exact bx_gen|]. split; [reflexivity|].
  split; [repeat constructor; intros []|]. split; [reflexivity|].
  split; [vm_compute; reflexivity|]. split; [vm_compute; reflexivity|].
  split; [vm_compute; reflexivity|]. split; [|vm_compute; reflexivity].
  destruct (sig_of bx_obj) as [r|e] eqn:E; [|vm_compute in E; discriminate].
  exists r. split; [reflexivity|].
  assert (Er : Ok r = sig_of bx_obj) by (symmetry; exact E).
  vm_compute in Er. injection Er as ->. vm_compute. reflexivity.
Qed.

(* ---- the hypothesis the proof forced: stack_func_side ---- *)
(* @wrapper_decorator def w(func, *args, **kwargs) on def f(a, **kw): the reported signature
   (a, **kw) accepts obj(5, func=6), every hypothesis of C13_stack_sound holds and stack_exec
   is true, yet partial(w, f)(5, func=6) = w(f, 5, func=6) dies binding func twice *)
Definition fx_w : wrapperT :=
  mkW 1 (sig_of_params [plain_param 18 PK; plain_param n_args VP; plain_param n_kwargs VK])
      (wrapper_behaviour 1 (plain_param 18 PK) (filter is_named [plain_param n_args VP; plain_param n_kwargs VK])
         [] [] Return).
Definition fx_f : sigT := sig_of_params [plain_param 1 PK; plain_param n_kwargs VK].
Definition fx_stack : list layer := [(Declared, mkF 0 [], fx_w)].
Definition fx_call : vcall := mkV [Val 5] [(18, Val 6)].

Theorem stack_call_no_type_error_func_refuted :
  exists ls id s tag c r,
    Forall layer_ok ls /\ Forall gen_layer ls /\ valid_sig (params s) = true
    /\ NoDup (map fst (vkws c)) /\ clean_call c = true
    /\ stack_side ls s (vshape c) = true
    /\ sig_of (stack ls (Plain id s (def_behaviour tag (params s)))) = Ok r
    /\ accepts (params r) (vshape c) = true
    /\ stack_exec ls s (vshape c) = true
    /\ stack_func_side ls (vshape c) = false
    /\ call (stack ls (Plain id s (def_behaviour tag (params s)))) c = Raise type_error.
Proof.
  exists fx_stack, 100, fx_f, 100, fx_call.
  destruct (sig_of (stack fx_stack (Plain 100 fx_f (def_behaviour 100 (params fx_f))))) as [r|e] eqn:E;
    [|vm_compute in E; discriminate].
  exists r.
  split; [repeat constructor|]. split.
  { constructor; [|constructor].
    exists 1, (plain_param 18 PK), [plain_param n_args VP; plain_param n_kwargs VK], [], [], Return.
    repeat split; reflexivity. }
  split; [reflexivity|]. split; [repeat constructor; intros []|]. split; [reflexivity|].
  split; [vm_compute; reflexivity|]. split; [reflexivity|].
  split.
  { assert (Er : Ok r = sig_of (stack fx_stack (Plain 100 fx_f (def_behaviour 100 (params fx_f)))))
      by (symmetry; exact E).
    vm_compute in Er. injection Er as ->. vm_compute. reflexivity. }
  split; [vm_compute; reflexivity|]. split; vm_compute; reflexivity.
Qed.

(* the same call through wrappers.decorator is outside stack_side already *)
Example simple_func_keyword_outside :
  stack_side [(Simple, mkF 0 [], fx_w)] fx_f (vshape fx_call) = false.
Proof. vm_compute. reflexivity. Qed.

(* argument terms must be values: a generated body builds its tuple with `tup`, which lets the
   first exception among the items escape *)
Theorem stack_call_no_type_error_clean_refuted :
  exists ls id s tag c r,
    Forall layer_ok ls /\ Forall gen_layer ls /\ valid_sig (params s) = true
    /\ NoDup (map fst (vkws c)) /\ clean_call c = false
    /\ stack_side ls s (vshape c) = true /\ stack_func_side ls (vshape c) = true
    /\ sig_of (stack ls (Plain id s (def_behaviour tag (params s)))) = Ok r
    /\ accepts (params r) (vshape c) = true
    /\ call (stack ls (Plain id s (def_behaviour tag (params s)))) c = Raise type_error.
Proof.
  exists [(Simple, mkF 0 [], bx_w1)], 100, fx_f, 100, (mkV [Raise type_error; Val 6] []).
  destruct (sig_of (stack [(Simple, mkF 0 [], bx_w1)] (Plain 100 fx_f (def_behaviour 100 (params fx_f)))))
    as [r|e] eqn:E; [|vm_compute in E; discriminate].
  exists r.
  split; [repeat constructor|]. split.
  { constructor; [|constructor].
    exists 1, (plain_param 18 PK), [plain_param 14 PK; plain_param n_args VP; plain_param n_kwargs VK], [], [], Return.
    repeat split; reflexivity. }
  split; [reflexivity|]. split; [constructor|]. split; [reflexivity|].
  split; [vm_compute; reflexivity|]. split; [vm_compute; reflexivity|]. split; [reflexivity|].
  split; [|vm_compute; reflexivity].
  assert (Er : Ok r = sig_of (stack [(Simple, mkF 0 [], bx_w1)] (Plain 100 fx_f (def_behaviour 100 (params fx_f)))))
    by (symmetry; exact E).
  vm_compute in Er. injection Er as ->. vm_compute. reflexivity.
Qed.

(* ------------------------------------------------------------------ *)
(* 5. Combination                                                       *)

Lemma chained_absorb fs a rest kw : is_raise a = true -> chained fs a rest kw = a.
Proof. intros H. destruct fs; cbn [chained]; [reflexivity|]. rewrite H. reflexivity. Qed.

(* members whose own signature is sound for their own call *)
Definition sound_member (f : obj) : Prop := forall s, sig_of f = Ok s -> sound_body s (call f).

Lemma chained_no_type_error fs : forall ss rest kw,
  all_ok (map sig_of fs) = Ok ss -> Forall sound_member fs ->
  NoDup (map fst kw) -> clean rest = true -> clean_kw kw = true ->
  Forall (fun s => accepts (params s) (mkCall (S (length rest)) (map fst kw)) = true) ss ->
  forall a, a <> Raise type_error -> chained (map call fs) a rest kw <> Raise type_error.
Proof.
  induction fs as [|f fs IH]; intros ss rest kw Ess HS NK Cr Ck Hall a Ha; [exact Ha|].
  cbn [map all_ok] in Ess.
  apply bind_ok in Ess. destruct Ess as [s0 [E0 Ess]].
  apply bind_ok in Ess. destruct Ess as [ss' [Ess' Ess]]. injection Ess as <-.
  inversion HS as [|? ? Hf HS']; subst. inversion Hall as [|? ? Ha0 Hall']; subst.
  cbn [map chained]. destruct (is_raise a) eqn:Ra; [exact Ha|].
  apply (IH ss' rest kw Ess' HS' NK Cr Ck Hall').
  apply (Hf s0 E0 (mkV (a :: rest) kw)).
  - exact NK.
  - unfold clean_call. cbn [vpos vkws clean forallb]. rewrite Ra. cbn [negb andb].
    fold (clean rest). rewrite Cr. exact Ck.
  - exact Ha0.
Qed.

(* the first argument passed positionally (Combination.__call__(self, arg, *args, **kwargs));
   a keyword named self is the known finding C13:self-keyword and stays a hypothesis.
   Not covered: arg passed by keyword, where the members are called with another shape
   (one positional more, keyword arg less) than the one the merged signature was asked about *)
Theorem comb_call_no_type_error_members fs ss r c :
  all_ok (map sig_of fs) = Ok ss -> all_valid ss ->
  role_consistent (map params (comb_self_sig :: ss)) = true ->
  sig_of (Comb fs) = Ok r ->
  Forall sound_member fs ->
  NoDup (map fst (vkws c)) -> clean_call c = true ->
  vpos c <> [] -> mem n_self (map fst (vkws c)) = false ->
  noncolliding (vshape c) (params r) (map params (comb_self_sig :: ss)) = true ->
  accepts (params r) (vshape c) = true ->
  call (Comb fs) c <> Raise type_error.
Proof.
  intros Ess V Hrc E HS NK Hc Hp Hself Hnc Ha.
  destruct (comb_sound fs ss r (vshape c) Ess V Hrc E Hnc Ha) as [H0 Hall].
  destruct c as [[|arg rest] kw]; [contradiction|]. cbn [vpos vkws] in *.
  unfold vshape in H0, Hall. cbn [vpos vkws length] in H0, Hall.
  rewrite (accepts_split (params comb_self_sig) (S (length rest)) (map fst kw) eq_refl) in H0.
  apply andb_true_iff in H0. destruct H0 as [_ H0]. cbn [comb_self_sig sig_of_params params named_ok plain_param pkind pname] in H0.
  apply andb_true_iff in H0. destruct H0 as [H0 _]. apply negb_true_iff in H0.
  rewrite <- has_kw_mem in H0, Hself.
  rewrite (comb_call fs arg rest kw H0 Hself).
  unfold clean_call in Hc. cbn [vpos vkws clean forallb] in Hc.
  apply andb_true_iff in Hc. destruct Hc as [Hc Ck]. apply andb_true_iff in Hc. destruct Hc as [Ca Cr].
  apply (chained_no_type_error fs ss rest kw Ess HS NK Cr Ck Hall).
  intros ->. discriminate.
Qed.

(* Combination of generated defs *)
Definition gen_def (f : obj) : Prop := exists id s tag, f = Plain id s (def_behaviour tag (params s)).

Lemma gen_def_sound f : gen_def f -> forall s, sig_of f = Ok s -> valid_sig (params s) = true -> sound_body s (call f).
Proof.
  intros (id & s0 & tag & ->) s E Hv. cbn [sig_of] in E. injection E as <-. cbn [call].
  exact (def_behaviour_sound_body tag s0 Hv).
Qed.

Lemma all_ok_in fs : forall ss f s, all_ok (map sig_of fs) = Ok ss -> In f fs -> sig_of f = Ok s -> In s ss.
Proof.
  induction fs as [|g fs IH]; intros ss f s Ess Hin E; [contradiction|].
  cbn [map all_ok] in Ess.
  apply bind_ok in Ess. destruct Ess as [s0 [E0 Ess]].
  apply bind_ok in Ess. destruct Ess as [ss' [Ess' Ess]]. injection Ess as <-.
  destruct Hin as [->|Hin]; [left; congruence|right; exact (IH ss' f s Ess' Hin E)].
Qed.

Theorem comb_call_no_type_error fs ss r c :
  all_ok (map sig_of fs) = Ok ss -> all_valid ss ->
  role_consistent (map params (comb_self_sig :: ss)) = true ->
  sig_of (Comb fs) = Ok r ->
  Forall gen_def fs ->
  NoDup (map fst (vkws c)) -> clean_call c = true ->
  vpos c <> [] -> mem n_self (map fst (vkws c)) = false ->
  noncolliding (vshape c) (params r) (map params (comb_self_sig :: ss)) = true ->
  accepts (params r) (vshape c) = true ->
  call (Comb fs) c <> Raise type_error.
Proof.
  intros Ess V Hrc E HG. apply (comb_call_no_type_error_members fs ss r c Ess V Hrc E).
  apply Forall_forall. intros f Hin s Es.
  rewrite Forall_forall in HG. apply (gen_def_sound f (HG f Hin) s Es).
  unfold all_valid in V. rewrite Forall_forall in V. apply V. exact (all_ok_in fs ss f s Ess Hin Es).
Qed.

Example comb_call_no_type_error_sat :
  let s1 := sig_of_params [plain_param 1 PK; plain_param 2 PK] in
  let s2 := sig_of_params [plain_param 1 PK; plain_param 2 PK; plain_param n_kwargs VK] in
  let fs := [Plain 100 s1 (def_behaviour 100 (params s1)); Plain 101 s2 (def_behaviour 101 (params s2))] in
  let c := mkV [Val 5; Val 6] [] in
  Forall gen_def fs /\ NoDup (map fst (vkws c)) /\ clean_call c = true /\ vpos c <> []
  /\ mem n_self (map fst (vkws c)) = false
  /\ (exists ss r, all_ok (map sig_of fs) = Ok ss /\ all_valid ss
        /\ role_consistent (map params (comb_self_sig :: ss)) = true
        /\ sig_of (Comb fs) = Ok r
        /\ noncolliding (vshape c) (params r) (map params (comb_self_sig :: ss)) = true
        /\ accepts (params r) (vshape c) = true)
  /\ call (Comb fs) c = Tup 101 [Tup 100 [Val 5; Val 6]; Val 6; Kw []].
Proof.
  cbv zeta. split.
  { constructor; [eexists _, _, _; reflexivity|]. constructor; [eexists _, _, _; reflexivity|constructor]. }
  split; [constructor|]. split; [reflexivity|]. split; [discriminate|]. split; [reflexivity|].
  split; [|vm_compute; reflexivity].
  eexists. eexists. split; [reflexivity|]. split; [repeat constructor|].
  split; [vm_compute; reflexivity|]. split; [vm_compute; reflexivity|].
  split; vm_compute; reflexivity.
Qed.

(* arg passed by keyword: C(arg=v, **kw) is, at call level, C(v, **kw); the theorem above then
   applies to the positional form.  (That the merged signature accepts the positional form
   whenever it accepts the keyword form is not proved here: it needs merge to keep `arg`
   first among the positionals, which role_consistent is there for; k-ary merge internals.) *)
Lemma comb_call_kw_arg fs kw v kw' :
  NoDup (map fst kw) -> take_kw n_arg kw = Some (v, kw') ->
  call (Comb fs) (mkV [] kw) = call (Comb fs) (mkV [v] kw').
Proof.
  intros NK T. pose proof (take_kw_filter _ _ _ _ NK T) as Ek.
  assert (Hs : has_kw n_self kw' = has_kw n_self kw).
  { rewrite !has_kw_mem, Ek. apply mem_keys_not_key. reflexivity. }
  assert (Ha : has_kw n_arg kw' = false).
  { rewrite has_kw_mem, Ek. apply mem_false_In. intros Hin. apply in_map_iff in Hin.
    destruct Hin as [[k x] [Ex Hx]]. apply filter_In in Hx. destruct Hx as [_ Hx].
    unfold not_key in Hx. cbn [fst] in Ex, Hx. subst k. rewrite N.eqb_refl in Hx. discriminate. }
  cbn [call]. unfold self_guard. cbn [vkws]. rewrite Hs.
  destruct (has_kw n_self kw); [reflexivity|].
  unfold comb_bind. cbn [vpos vkws bind_named pkind pname]. rewrite T, Ha. reflexivity.
Qed.

Corollary comb_call_no_type_error_kw fs ss r kw v kw' :
  all_ok (map sig_of fs) = Ok ss -> all_valid ss ->
  role_consistent (map params (comb_self_sig :: ss)) = true ->
  sig_of (Comb fs) = Ok r ->
  Forall gen_def fs ->
  NoDup (map fst kw) -> clean_kw kw = true ->
  take_kw n_arg kw = Some (v, kw') -> mem n_self (map fst kw) = false ->
  noncolliding (vshape (mkV [v] kw')) (params r) (map params (comb_self_sig :: ss)) = true ->
  accepts (params r) (vshape (mkV [v] kw')) = true ->
  call (Comb fs) (mkV [] kw) <> Raise type_error.
Proof.
  intros Ess V Hrc E HG NK Ck T Hself Hnc Ha.
  rewrite (comb_call_kw_arg fs kw v kw' NK T).
  pose proof (take_kw_filter _ _ _ _ NK T) as Ek.
  destruct (take_kw_clean _ _ _ _ Ck T) as [Cv Ck'].
  apply (comb_call_no_type_error fs ss r (mkV [v] kw') Ess V Hrc E HG); cbn [vpos vkws].
  - rewrite Ek. exact (NoDup_keys_filter _ _ NK).
  - unfold clean_call. cbn [vpos vkws clean forallb]. rewrite Cv, Ck'. reflexivity.
  - discriminate.
  - rewrite Ek, mem_keys_not_key by reflexivity. exact Hself.
  - exact Hnc.
  - exact Ha.
Qed.

Example comb_call_no_type_error_kw_sat :
  let s1 := sig_of_params [plain_param n_arg PK; plain_param 2 PK] in
  let fs := [Plain 100 s1 (def_behaviour 100 (params s1))] in
  let kw := [(2, Val 6); (n_arg, Val 5)] in
  take_kw n_arg kw = Some (Val 5, [(2, Val 6)])
  /\ (exists r, sig_of (Comb fs) = Ok r /\ accepts (params r) (vshape (mkV [Val 5] [(2, Val 6)])) = true
                /\ accepts (params r) (vshape (mkV [] kw)) = true)
  /\ call (Comb fs) (mkV [] kw) = Tup 100 [Val 5; Val 6].
Proof.
  cbv zeta. split; [reflexivity|]. split; [|vm_compute; reflexivity].
  eexists. split; [vm_compute; reflexivity|]. split; vm_compute; reflexivity.
Qed.

(* the self keyword is a genuine hypothesis for Combination as well (C13:self-keyword) *)
Theorem comb_call_self_keyword_refuted :
  exists fs ss r c,
    all_ok (map sig_of fs) = Ok ss /\ all_valid ss
    /\ role_consistent (map params (comb_self_sig :: ss)) = true
    /\ sig_of (Comb fs) = Ok r /\ Forall gen_def fs
    /\ NoDup (map fst (vkws c)) /\ clean_call c = true /\ vpos c <> []
    /\ noncolliding (vshape c) (params r) (map params (comb_self_sig :: ss)) = true
    /\ accepts (params r) (vshape c) = true
    /\ call (Comb fs) c = Raise type_error.
Proof.
  exists [Plain 100 fx_f (def_behaviour 100 (params fx_f))].
  eexists. eexists. exists (mkV [Val 5] [(n_self, Val 6)]).
  split; [reflexivity|]. split; [repeat constructor|].
  split; [vm_compute; reflexivity|]. split; [vm_compute; reflexivity|].
  split; [constructor; [eexists _, _, _; reflexivity|constructor]|].
  split; [repeat constructor; intros []|]. split; [reflexivity|]. split; [discriminate|].
  split; [vm_compute; reflexivity|]. split; vm_compute; reflexivity.
Qed.

Print Assumptions bind_named_spec.
Print Assumptions bind_named_iff_accepts.
Print Assumptions bind_named_iff_accepts_dup_refuted.
Print Assumptions bind_named_iff_accepts_sat.
Print Assumptions def_behaviour_accepted.
Print Assumptions def_behaviour_no_type_error.
Print Assumptions def_behaviour_is_raise.
Print Assumptions def_behaviour_no_type_error_sat.
Print Assumptions wrapper_behaviour_accepted.
Print Assumptions wrapper_behaviour_rejected.
Print Assumptions wrapper_behaviour_no_type_error.
Print Assumptions wrapper_behaviour_sat.
Print Assumptions wrapper_behaviour_mode_refuted.
Print Assumptions stack_exec_w_no_type_error.
Print Assumptions stack_exec_uniform.
Print Assumptions stack_call_no_type_error_body.
Print Assumptions stack_call_no_type_error.
Print Assumptions stack_call_no_type_error_sat.
Print Assumptions stack_call_no_type_error_func_refuted.
Print Assumptions stack_call_no_type_error_clean_refuted.
Print Assumptions comb_call_no_type_error_members.
Print Assumptions comb_call_no_type_error.
Print Assumptions comb_call_no_type_error_sat.
Print Assumptions comb_call_kw_arg.
Print Assumptions comb_call_no_type_error_kw.
Print Assumptions comb_call_no_type_error_kw_sat.
Print Assumptions comb_call_self_keyword_refuted.
