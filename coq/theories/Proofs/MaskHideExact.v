(* MaskHideExact.v — C03_hide, the converse direction.
   The plain converse of mask_hide_sound ("a call is accepted by the masked
   signature as soon as SOME choice of hidden arguments lets the original accept
   it") is FALSE for each of the four flags (four refutations below): a hidden
   class of parameters cannot be used by the visible call.  What is true, and
   proved here for all valid signatures, is the exact acceptance condition:
   without hide_kwargs, mask(sig, n, names, flags) accepts a non-colliding call c
   (keywords disjoint from the names) iff sig accepts the extended call AND c
   does not itself use a hidden class — no positional at all under hide_args,
   no positional beyond the named parameters under hide_varargs, only keywords
   naming keyword-passable parameters of the result under hide_varkwargs;
   with hide_kwargs the result is sig's remaining positional-only parameters
   (and the star-args parameter), so it accepts exactly the keyword-less calls
   those accept. *)
From Sigtools.Model Require Import Base Bind Roles Algebra.
From Sigtools.Proofs Require Import SmallModel Basics MaskLaws MaskExact MergeNeutral
     MaskNamesLib MaskNamesStep MaskNames MaskAlgebra MaskHide.
From Coq Require Import Lia Btauto Permutation.

(* ------------------------------------------------------------------ *)
(* removing a star parameter: the exact loss                            *)

Lemma accepts_drop_va pos pok va kwo vk m K :
  kinds5 pos pok va kwo vk ->
  accepts (blk pos pok None kwo vk) (mkCall m K)
  = accepts (blk pos pok va kwo vk) (mkCall m K) && Nat.leb m (length (pos ++ pok)).
Proof.
  intros HK.
  assert (HK0 : kinds5 pos pok None kwo vk).
  { destruct HK as (H1 & H2 & H3 & H4 & H5). repeat split; auto. discriminate. }
  rewrite (accepts_blk _ _ _ _ _ HK0), (accepts_blk _ _ _ _ _ HK). cbn [isSome].
  destruct (Nat.leb m (length (pos ++ pok))), (isSome va); cbn [orb andb]; btauto.
Qed.

Lemma forallb_andb {A} (f g : A -> bool) l : forallb (fun x => f x && g x) l = forallb f l && forallb g l.
Proof. induction l as [|a l IH]; cbn [forallb]; [reflexivity|]. rewrite IH. btauto. Qed.

Lemma kw_class_pos_some_in l : forall m k c, kw_class_pos l m k = Some c -> In k (names_of l).
Proof.
  induction l as [|p l IH]; intros m k c H; cbn [kw_class_pos] in H; [discriminate|].
  destruct (N.eqb_spec k (pname p)) as [E|_]; [left; symmetry; exact E|right; exact (IH _ _ _ H)].
Qed.

Lemma kw_class_pos_pk l : Forall (fun p => pkind p = PK) l -> forall m k,
  (kw_class_pos l m k = None /\ ~ In k (names_of l)) \/
  (In k (names_of l) /\ (kw_class_pos l m k = Some KDirect \/ kw_class_pos l m k = Some KDup)).
Proof.
  induction 1 as [|p l Hp Hl IH]; intros m k; cbn [kw_class_pos]; [left; split; [reflexivity|intros []]|].
  destruct (N.eqb_spec k (pname p)) as [E|Hne].
  - right. split; [left; symmetry; exact E|]. rewrite Hp. destruct m; auto.
  - destruct (IH (Nat.pred m) k) as [[E Hn]|[Hi E]].
    + left. split; [exact E|]. intros [X|X]; [apply Hne; symmetry; exact X|exact (Hn X)].
    + right. split; [right; exact Hi|exact E].
Qed.

Lemma kwpassable_blk pos pok va kwo vk k :
  kinds5 pos pok va kwo vk ->
  kwpassable_name (blk pos pok va kwo vk) k = mem k (names_of pok) || mem k (names_of kwo).
Proof.
  intros (H1 & H2 & H3 & H4 & H5). unfold kwpassable_name, blk. rewrite !existsb_app.
  set (f := fun p => is_kwpassable p && N.eqb k (pname p)).
  assert (E0 : forall l, Forall (fun p => is_kwpassable p = false) l -> existsb f l = false).
  { intros l Hl. apply existsb_none. eapply Forall_impl; [|exact Hl]. cbv beta. intros p Hp. unfold f. rewrite Hp. reflexivity. }
  assert (E1 : forall l, Forall (fun p => is_kwpassable p = true) l -> existsb f l = mem k (names_of l)).
  { induction 1 as [|p l Hp Hl IH]; cbn [existsb names_of map mem]; [reflexivity|].
    fold (names_of l). rewrite IH. unfold f at 1. rewrite Hp. reflexivity. }
  rewrite (E0 pos), (E1 pok), (E0 (opt_list va)), (E1 kwo), (E0 (opt_list vk)).
  - rewrite !orb_false_r. reflexivity.
  - apply Forall_opt. intros v Hv. unfold is_kwpassable. rewrite (H5 v Hv). reflexivity.
  - eapply Forall_kind_f; [|exact H4]. intros p Hp. unfold is_kwpassable. rewrite Hp. reflexivity.
  - apply Forall_opt. intros v Hv. unfold is_kwpassable. rewrite (H3 v Hv). reflexivity.
  - eapply Forall_kind_f; [|exact H2]. intros p Hp. unfold is_kwpassable. rewrite Hp. reflexivity.
  - eapply Forall_kind_f; [|exact H1]. intros p Hp. unfold is_kwpassable. rewrite Hp. reflexivity.
Qed.

Lemma accepts_drop_vk pos pok va kwo vk m K :
  kinds5 pos pok va kwo vk -> NoDup (names_of (blk pos pok va kwo vk)) ->
  accepts (blk pos pok va kwo None) (mkCall m K)
  = accepts (blk pos pok va kwo vk) (mkCall m K)
    && forallb (kwpassable_name (blk pos pok va kwo None)) K.
Proof.
  intros HK Hn.
  assert (HK0 : kinds5 pos pok va kwo None).
  { destruct HK as (H1 & H2 & H3 & H4 & H5). repeat split; auto. discriminate. }
  rewrite (accepts_blk _ _ _ _ _ HK0), (accepts_blk _ _ _ _ _ HK). cbn [isSome].
  assert (E : forallb (kwok5 (pos ++ pok) kwo false m) K
              = forallb (kwok5 (pos ++ pok) kwo (isSome vk) m) K
                && forallb (kwpassable_name (blk pos pok va kwo None)) K).
  { rewrite <- forallb_andb. apply forallb_ext. intros k. rewrite (kwpassable_blk _ _ _ _ _ k HK0).
    destruct HK as (H1 & H2 & H3 & H4 & H5). unfold kwok5. rewrite kw_class_pos_app.
    unfold blk in Hn. rewrite !names_of_app in Hn.
    destruct (kw_class_pos pos m k) as [c|] eqn:Ep.
    - (* k names a positional-only parameter: no other parameter has this name *)
      destruct (kw_class_pos_po pos m k H1) as [X|X]; rewrite X in Ep; [discriminate|]. inversion Ep; subst c.
      pose proof (kw_class_pos_some_in pos m k KExtra X) as Hin.
      assert (M1 : mem k (names_of pok) = false).
      { apply mem_false_In. intros Y. apply (nodup_app_disjoint _ _ k Hn Hin). apply in_or_app. left. exact Y. }
      assert (M2 : mem k (names_of kwo) = false).
      { apply mem_false_In. intros Y. apply (nodup_app_disjoint _ _ k Hn Hin).
        apply in_or_app. right. apply in_or_app. right. apply in_or_app. left. exact Y. }
      rewrite M1, M2. cbn [orb]. rewrite andb_false_r. reflexivity.
    - destruct (kw_class_pos_pk pok H2 (m - length pos) k) as [[E Hni]|[Hi [E|E]]]; rewrite E.
      + assert (M1 : mem k (names_of pok) = false) by (apply mem_false_In; exact Hni). rewrite M1. cbn [orb].
        destruct (mem k (names_of kwo)); [reflexivity|rewrite andb_false_r; reflexivity].
      + assert (M1 : mem k (names_of pok) = true) by (apply mem_In; exact Hi). rewrite M1. reflexivity.
      + reflexivity. }
  rewrite E. btauto.
Qed.

(* ------------------------------------------------------------------ *)
(* the loop over the names, as an equation                              *)

Lemma exact_core s pos1 pok1 va1 (hvk : bool) bound src names0 :
  KInv pos1 (varkwargs (sort_params s)) (mkK pok1 va1 (kwoargs (sort_params s)) src bound) ->
  NoDup names0 ->
  (forall k, In k bound ->
     ~ In k (names_of (blk pos1 pok1 va1 (kwoargs (sort_params s)) (varkwargs (sort_params s))))) ->
  (forall k, In k bound -> In k (names_of (params s))) ->
  forall stf,
    mask_names None (isSome (varkwargs (sort_params s)))
               (mkK pok1 va1 (kwoargs (sort_params s)) src bound) (map (fun x => (x, 0)) names0) = Ok stf ->
    let vk3 := if hvk then None else varkwargs (sort_params s) in
    forall c, disjointb (kws c) names0 = true ->
              noncolliding c (kps pos1 vk3 stf) [params s] = true ->
              accepts (kps pos1 vk3 stf) c
              = accepts (blk pos1 pok1 va1 (kwoargs (sort_params s)) (varkwargs (sort_params s)))
                        (mkCall (npos c) (names0 ++ kws c))
                && (if hvk then forallb (kwpassable_name (kps pos1 vk3 stf)) (kws c) else true)
              /\ forall k, In k (names0 ++ kws c) -> ~ In k bound.
Proof.
  intros Hinv Hnd D2 D1 stf Hok vk3 c Hd Hnc.
  set (vk := varkwargs (sort_params s)) in *. set (kwo := kwoargs (sort_params s)) in *.
  set (st0 := mkK pok1 va1 kwo src bound) in *.
  pose proof (map_fst_pair (fun _ => 0) names0) as Emap.
  assert (Hnc0 : forall x, In x names0 -> ~ In x bound).
  { intros x Hx Hin.
    rewrite (mask_names_consumed_err None _ (map (fun x => (x, 0)) names0) st0 x) in Hok;
      [discriminate|rewrite Emap; exact Hx|exact Hin]. }
  assert (Hnd' : NoDup (map fst (map (fun x => (x, 0)) names0))) by (rewrite Emap; exact Hnd).
  assert (Hnc0' : forall x, In x (map fst (map (fun x => (x, 0)) names0)) -> ~ In x (k_consumed st0))
    by (rewrite Emap; exact Hnc0).
  pose proof (mask_names_chain None (isSome vk) pos1 vk (map (fun x => (x, 0)) names0) st0 Hinv eq_refl
                               Hnd' Hnc0' (fun H => False_ind _ (H eq_refl))) as Hch.
  rewrite Hok in Hch. destruct Hch as (Hinvf & Hnmf & Haccf). rewrite Emap in Hnmf, Haccf.
  destruct c as [m K]. cbn [npos kws] in *.
  assert (HdK : forall x, In x names0 -> ~ In x K).
  { intros x Hx Hin. unfold disjointb in Hd. rewrite forallb_forall in Hd.
    specialize (Hd x Hin). apply negb_true_iff in Hd. apply mem_false_In in Hd. exact (Hd Hx). }
  assert (Hsub : forall y, In y (names_of (kps pos1 vk3 stf)) -> In y (names_of (kps pos1 vk stf))).
  { unfold vk3. destruct hvk; [|auto]. intros y. unfold kps. apply names_blk_drop_vk. }
  split.
  - change (blk pos1 pok1 va1 kwo vk) with (kps pos1 vk st0).
    rewrite <- (Haccf m K (fun _ => HdK)). unfold vk3. destruct hvk; [|rewrite andb_true_r; reflexivity].
    unfold kps. destruct Hinvf as (HKf & Hnf & _). apply accepts_drop_vk; assumption.
  - intros k Hk. apply in_app_or in Hk. destruct Hk as [Hk|Hk]; [exact (Hnc0 k Hk)|].
    intros Hb. unfold noncolliding in Hnc. rewrite forallb_forall in Hnc. specialize (Hnc k Hk).
    apply orb_true_iff in Hnc. destruct Hnc as [Hkw|Hfor].
    + apply kwpassable_name_In in Hkw. apply Hsub in Hkw.
      destruct (Hnmf k Hkw) as [H0|[H0 _]]; [|exact (H0 eq_refl)].
      exact (D2 k Hb H0).
    + apply negb_true_iff in Hfor. apply mem_false_In in Hfor. apply Hfor.
      unfold all_names. cbn [flat_map]. rewrite app_nil_r. exact (D1 k Hb).
Qed.

(* ------------------------------------------------------------------ *)
(* the hidden leading positionals, as equations                         *)

Lemma positional_params s :
  valid_sig (params s) = true ->
  positional (params s) = posargs (sort_params s) ++ pokargs (sort_params s).
Proof.
  intros Hv. destruct (embed_facts s Hv) as (Hf & Ha & Hb & _).
  rewrite <- Hf, positional_app, (positional_all _ Ha), (positional_none _ Hb), app_nil_r. reflexivity.
Qed.

Lemma embed_n_eq s n m K :
  valid_sig (params s) = true -> fits s n ->
  (forall k, In k K ->
     ~ In k (names_of (firstn (n - length (posargs (sort_params s))) (pokargs (sort_params s))))) ->
  accepts (blk (skipn n (posargs (sort_params s)))
               (skipn (n - length (posargs (sort_params s))) (pokargs (sort_params s)))
               (varargs (sort_params s)) (kwoargs (sort_params s)) (varkwargs (sort_params s))) (mkCall m K)
  = accepts (params s) (mkCall (n + m) K).
Proof.
  intros Hv Hfit HK. destruct (embed_facts s Hv) as (Hf & Ha & Hb & Hn & (K1 & K2 & K3 & K4 & K5)).
  set (so := sort_params s) in *. set (A := posargs so ++ pokargs so) in *. set (B := rest_of so) in *.
  assert (E : blk (skipn n (posargs so)) (skipn (n - length (posargs so)) (pokargs so))
                  (varargs so) (kwoargs so) (varkwargs so) = skipn n A ++ B).
  { unfold blk, A, B, rest_of. rewrite skipn_app, <- !app_assoc. reflexivity. }
  rewrite E, <- Hf.
  apply (consume_accepts_po A B n m K Ha Hb Hn Hfit).
  intros k Hk q Hq Eq. unfold A in Hq. rewrite firstn_app in Hq. apply in_app_or in Hq.
  destruct Hq as [Hq|Hq].
  - rewrite Forall_forall in K1. apply K1. rewrite <- (firstn_skipn n (posargs so)).
    apply in_or_app. left. exact Hq.
  - exfalso. apply (HK k Hk). rewrite <- Eq. apply in_names. exact Hq.
Qed.

Lemma embed_args_eq s m K :
  valid_sig (params s) = true ->
  (forall k, In k K -> ~ In k (names_of (pokargs (sort_params s)))) ->
  accepts (blk [] [] (varargs (sort_params s)) (kwoargs (sort_params s)) (varkwargs (sort_params s)))
          (mkCall m K)
  = accepts (params s)
            (mkCall (length (posargs (sort_params s) ++ pokargs (sort_params s)) + m) K).
Proof.
  intros Hv HK. destruct (embed_facts s Hv) as (Hf & Ha & Hb & Hn & (K1 & K2 & K3 & K4 & K5)).
  set (so := sort_params s) in *. set (A := posargs so ++ pokargs so) in *. set (B := rest_of so) in *.
  assert (E : blk [] [] (varargs so) (kwoargs so) (varkwargs so) = skipn (length A) A ++ B).
  { rewrite skipn_all. reflexivity. }
  rewrite E, <- Hf.
  apply (consume_accepts_po A B (length A) m K Ha Hb Hn (or_introl (le_n _))).
  intros k Hk q Hq Eq. rewrite firstn_all in Hq. unfold A in Hq. apply in_app_or in Hq.
  destruct Hq as [Hq|Hq].
  - rewrite Forall_forall in K1. apply K1. exact Hq.
  - exfalso. apply (HK k Hk). rewrite <- Eq. apply in_names. exact Hq.
Qed.

(* hide_args off *)
Lemma exact_noargs s n (hva hvk : bool) src names0 :
  valid_sig (params s) = true -> NoDup names0 -> fits s n ->
  forall stf,
    mask_names None (isSome (varkwargs (sort_params s)))
               (mkK (skipn (n - length (posargs (sort_params s))) (pokargs (sort_params s)))
                    (if hva then None else varargs (sort_params s))
                    (kwoargs (sort_params s)) src
                    (names_of (firstn (n - length (posargs (sort_params s))) (pokargs (sort_params s)))))
               (map (fun x => (x, 0)) names0) = Ok stf ->
    let vk3 := if hvk then None else varkwargs (sort_params s) in
    let r := kps (skipn n (posargs (sort_params s))) vk3 stf in
    forall c, disjointb (kws c) names0 = true -> noncolliding c r [params s] = true ->
      accepts r c
      = accepts (params s) (shift_call n names0 c)
        && (if hva then Nat.leb (npos c) (length (positional (params s)) - n) else true)
        && (if hvk then forallb (kwpassable_name r) (kws c) else true).
Proof.
  intros Hv Hnd Hfit stf Hok. cbv zeta. intros c Hd Hnc.
  destruct (embed_facts s Hv) as (Hf & Ha & Hb & Hn & (K1 & K2 & K3 & K4 & K5)).
  pose proof (positional_params s Hv) as Epos.
  set (so := sort_params s) in *. set (j := (n - length (posargs so))%nat) in *.
  set (va1 := if hva then None else varargs so) in *.
  assert (Hva : va1 = varargs so \/ va1 = None) by (unfold va1; destruct hva; auto).
  assert (Hcons : forall k, In k (names_of (firstn j (pokargs so))) ->
                            In k (names_of (firstn n (posargs so ++ pokargs so)))).
  { intros k Hk. rewrite firstn_app, names_of_app. apply in_or_app. right. exact Hk. }
  destruct (exact_core s (skipn n (posargs so)) (skipn j (pokargs so)) va1 hvk
                       (names_of (firstn j (pokargs so))) src names0) with (stf := stf) (c := c)
    as [Eq Hkw]; try assumption.
  - apply KInv_n; assumption.
  - intros k Hk X. apply Hcons in Hk.
    assert (X' : In k (names_of (skipn n (posargs so ++ pokargs so) ++ rest_of so))).
    { unfold blk in X. rewrite skipn_app. fold j. unfold rest_of.
      rewrite !names_of_app in *. rewrite !in_app_iff in *.
      destruct X as [X|[X|[X|[X|X]]]]; try tauto.
      destruct Hva as [->| ->]; [tauto|destruct X]. }
    rewrite <- (firstn_skipn n (posargs so ++ pokargs so)), <- app_assoc, names_of_app in Hn.
    exact (nodup_app_disjoint _ _ k Hn Hk X').
  - intros k Hk. apply Hcons in Hk. rewrite <- Hf, names_of_app. apply in_or_app. left.
    rewrite <- (firstn_skipn n (posargs so ++ pokargs so)), names_of_app. apply in_or_app. left. exact Hk.
  - cbv zeta in Eq. fold so in Eq. rewrite Eq. f_equal. unfold shift_call.
    assert (HK5 : kinds5 (skipn n (posargs so)) (skipn j (pokargs so)) (varargs so) (kwoargs so) (varkwargs so))
      by (repeat split; auto using Forall_skipn).
    unfold va1. destruct hva.
    + rewrite (accepts_drop_va _ _ _ _ _ _ _ HK5), (embed_n_eq s n _ _ Hv Hfit Hkw). f_equal.
      rewrite <- skipn_app, skipn_length, Epos. reflexivity.
    + rewrite (embed_n_eq s n _ _ Hv Hfit Hkw), andb_true_r. reflexivity.
Qed.

(* hide_args on *)
Lemma exact_withargs s (hvk : bool) src names0 :
  valid_sig (params s) = true -> NoDup names0 ->
  forall stf,
    mask_names None (isSome (varkwargs (sort_params s)))
               (mkK [] None (kwoargs (sort_params s)) src (names_of (pokargs (sort_params s))))
               (map (fun x => (x, 0)) names0) = Ok stf ->
    let vk3 := if hvk then None else varkwargs (sort_params s) in
    let r := kps [] vk3 stf in
    forall c, disjointb (kws c) names0 = true -> noncolliding c r [params s] = true ->
      accepts r c
      = Nat.eqb (npos c) 0
        && accepts (params s) (mkCall (length (positional (params s))) (names0 ++ kws c))
        && (if hvk then forallb (kwpassable_name r) (kws c) else true).
Proof.
  intros Hv Hnd stf Hok. cbv zeta. intros c Hd Hnc.
  destruct (embed_facts s Hv) as (Hf & Ha & Hb & Hn & (K1 & K2 & K3 & K4 & K5)).
  pose proof (positional_params s Hv) as Epos.
  set (so := sort_params s) in *.
  destruct (exact_core s [] [] None hvk (names_of (pokargs so)) src names0) with (stf := stf) (c := c)
    as [Eq Hkw]; try assumption.
  - apply KInv_hide_args. exact Hv.
  - intros k Hk X.
    assert (X' : In k (names_of (rest_of so))).
    { unfold blk in X. unfold rest_of. cbn [app opt_list] in X. rewrite !names_of_app in *.
      rewrite !in_app_iff in *. tauto. }
    rewrite names_of_app in Hn. apply (nodup_app_disjoint _ _ k Hn); [|exact X'].
    rewrite names_of_app. apply in_or_app. right. exact Hk.
  - intros k Hk. rewrite <- Hf, !names_of_app. apply in_or_app. left. apply in_or_app. right. exact Hk.
  - cbv zeta in Eq. fold so in Eq. rewrite Eq. f_equal.
    assert (HK5 : kinds5 [] [] (varargs so) (kwoargs so) (varkwargs so)) by (repeat split; auto).
    rewrite (accepts_drop_va _ _ _ _ _ _ _ HK5), (embed_args_eq s _ _ Hv Hkw), Epos. cbn [app length].
    destruct (npos c) as [|m]; cbn [Nat.leb Nat.eqb andb].
    + rewrite Nat.add_0_r, andb_true_r. reflexivity.
    + apply andb_false_r.
Qed.

(* ------------------------------------------------------------------ *)
(* C03_hide, exact acceptance without hide_kwargs                       *)

Definition hide_rhs (s r : sigT) (n : nat) (names0 : list name) (h : hideflags) (c : call) : bool :=
  (if h_args h
   then Nat.eqb (npos c) 0
        && accepts (params s) (mkCall (length (positional (params s))) (names0 ++ kws c))
   else accepts (params s) (shift_call n names0 c)
        && (if h_varargs h then Nat.leb (npos c) (length (positional (params s)) - n) else true))
  && (if h_varkwargs h then forallb (kwpassable_name (params r)) (kws c) else true).

Ltac finish_exact E :=
  unfold apply_params in *;
  match goal with H : context [validate ?l] |- _ => destruct (validate l); [|discriminate] end;
  match goal with H : Ok _ = Ok _ |- _ => inversion H; subst; clear H end;
  cbn [params]; unfold hide_rhs; cbn [h_args h_varargs h_varkwargs params];
  intros c Hd Hnc; (etransitivity; [exact (E c Hd Hnc)|]); reflexivity.

Theorem mask_hide_exact_partial s n names0 h r :
  valid_sig (params s) = true -> NoDup names0 -> h_kwargs h = false ->
  mask s n names0 h = Ok r ->
  forall c, disjointb (kws c) names0 = true -> noncolliding c (params r) [params s] = true ->
            accepts (params r) c = hide_rhs s r n names0 h c.
Proof.
  intros Hv Hnd Hk H. unfold mask, mask_gen in H. destruct h as [ha hk hva hvk].
  cbn [h_args h_kwargs h_varargs h_varkwargs] in *. subst hk.
  destruct ha.
  - cbn [bind orb] in H.
    match type of H with context [mask_names None ?hv ?st0 ?l] =>
      destruct (mask_names None hv st0 l) as [stf|e] eqn:Hok end; cbn [bind] in H; [|discriminate].
    pose proof (exact_withargs s hvk _ names0 Hv Hnd stf Hok) as E. cbv zeta in E.
    destruct hvk; cbn [orb] in H; finish_exact E.
  - cbn [orb] in H. destruct (Nat.eqb n 0) eqn:E0.
    + apply Nat.eqb_eq in E0. subst n. assert (Hfit : fits s 0) by (left; lia).
      cbn [bind] in H.
      destruct hva;
      (match type of H with context [mask_names None ?hv ?st0 ?l] =>
         destruct (mask_names None hv st0 l) as [stf|e] eqn:Hok end; cbn [bind] in H; [|discriminate]).
      * pose proof (exact_noargs s 0 true hvk _ names0 Hv Hnd Hfit stf Hok) as E. cbv zeta in E.
        destruct hvk; cbn [orb] in H; finish_exact E.
      * pose proof (exact_noargs s 0 false hvk _ names0 Hv Hnd Hfit stf Hok) as E. cbv zeta in E.
        destruct hvk; cbn [orb] in H; finish_exact E.
    + match type of H with context [Nat.ltb ?a n && ?b] => destruct (Nat.ltb a n && b) eqn:Hc end; [discriminate|].
      apply fits_of_check in Hc. cbn [bind] in H.
      destruct hva;
      (match type of H with context [mask_names None ?hv ?st0 ?l] =>
         destruct (mask_names None hv st0 l) as [stf|e] eqn:Hok end; cbn [bind] in H; [|discriminate]).
      * pose proof (exact_noargs s n true hvk _ names0 Hv Hnd Hc stf Hok) as E. cbv zeta in E.
        destruct hvk; cbn [orb] in H; finish_exact E.
      * pose proof (exact_noargs s n false hvk _ names0 Hv Hnd Hc stf Hok) as E. cbv zeta in E.
        destruct hvk; cbn [orb] in H; finish_exact E.
Qed.

(* in the form of mask_hide_sound: without hide_args / hide_kwargs, a call that
   does not itself use a hidden star parameter is accepted iff the hidden
   arguments (exactly n positionals, the names) let sig accept it *)
Corollary mask_hide_exact_iff s n names0 h r :
  valid_sig (params s) = true -> NoDup names0 -> h_kwargs h = false -> h_args h = false ->
  mask s n names0 h = Ok r ->
  forall c, disjointb (kws c) names0 = true -> noncolliding c (params r) [params s] = true ->
    (h_varargs h = true -> (npos c <= length (positional (params s)) - n)%nat) ->
    (h_varkwargs h = true -> forallb (kwpassable_name (params r)) (kws c) = true) ->
    (accepts (params r) c = true <->
     exists m K, (h_args h = false -> m = n) /\ (h_kwargs h = false -> K = []) /\
                 disjointb K (kws c) = true /\
                 accepts (params s) (mkCall (m + npos c) (hide_names h names0 ++ kws c ++ K)) = true).
Proof.
  intros Hv Hnd Hk Ha H c Hd Hnc Hva Hvk.
  rewrite (mask_hide_exact_partial s n names0 h r Hv Hnd Hk H c Hd Hnc).
  unfold hide_rhs, hide_names. rewrite Ha, Hk. split.
  - intros E. exists n, []. split; [reflexivity|]. split; [reflexivity|]. split; [reflexivity|].
    rewrite app_nil_r. apply andb_true_iff in E. destruct E as [E _]. apply andb_true_iff in E. tauto.
  - intros (m & K & Hm & HK & _ & E). rewrite (Hm eq_refl), (HK eq_refl), app_nil_r in E.
    unfold shift_call. rewrite E. cbn [andb].
    apply andb_true_iff. split.
    + destruct (h_varargs h); [apply Nat.leb_le; exact (Hva eq_refl)|reflexivity].
    + destruct (h_varkwargs h); [exact (Hvk eq_refl)|reflexivity].
Qed.

(* hide_kwargs: the result is what is left of the positional-only parameters
   and possibly the star-args parameter *)
Theorem mask_hide_kwargs_exact s n names0 h r :
  valid_sig (params s) = true -> h_kwargs h = true -> mask s n names0 h = Ok r ->
  forall c, accepts (params r) c = true <->
            kws c = [] /\
            ((npos c <= length (hide_pos s n h))%nat \/ isSome (hide_va s h) = true) /\
            req_pos (hide_pos s n h) (npos c) [] = true.
Proof.
  intros Hv Hk H c. pose proof (mask_hide_shape s n names0 h r Hv H) as Sh. rewrite Hk in Sh. rewrite Sh.
  destruct (sort_params_kinds s) as (K1 & _ & K3 & _).
  assert (Hp : Forall (fun p => pkind p = PO) (hide_pos s n h)).
  { unfold hide_pos. destruct (h_args h); [constructor|apply Forall_skipn; exact K1]. }
  assert (Hva : forall v, hide_va s h = Some v -> pkind v = VP).
  { unfold hide_va. destruct (h_args h || h_varargs h); [discriminate|exact K3]. }
  destruct c as [m K]. cbn [npos kws]. split.
  - apply accepts_posonly; assumption.
  - intros (-> & Har & Hreq).
    assert (HK : kinds5 (hide_pos s n h) [] (hide_va s h) [] None) by (repeat split; auto; discriminate).
    rewrite (accepts_blk _ _ _ _ _ HK). rewrite app_nil_r. cbn [forallb]. rewrite Hreq, !andb_true_r.
    apply orb_true_iff. destruct Har as [X|X]; [left; apply Nat.leb_le; exact X|right; exact X].
Qed.

(* ------------------------------------------------------------------ *)
(* the plain converse of mask_hide_sound is false, flag by flag         *)

Definition converse_fails (h : hideflags) : Prop :=
  exists s n names0 r c m K,
    valid_sig (params s) = true /\ NoDup names0 /\ mask s n names0 h = Ok r /\
    disjointb (kws c) (hide_names h names0) = true /\ noncolliding c (params r) [params s] = true /\
    (h_args h = false -> m = n) /\ (h_kwargs h = false -> K = []) /\ disjointb K (kws c) = true /\
    accepts (params s) (mkCall (m + npos c) (hide_names h names0 ++ kws c ++ K)) = true /\
    accepts (params r) c = false.

(* hide_varargs: sig = ( *args ), the call passes a positional *)
Theorem mask_hide_exact_refuted_varargs : converse_fails (mkHide false false true false).
Proof.
  exists (mkSig [mkParam 9 VP None None UEmpty] None UEmpty [] []), 0%nat, [],
         (mkSig [] None UEmpty [] []), (mkCall 1 []), 0%nat, [].
  repeat split; try (vm_compute; reflexivity). constructor.
Qed.

(* hide_varkwargs: sig = ( **kwargs ), the call passes a foreign keyword *)
Theorem mask_hide_exact_refuted_varkwargs : converse_fails (mkHide false false false true).
Proof.
  exists (mkSig [mkParam 10 VK None None UEmpty] None UEmpty [] []), 0%nat, [],
         (mkSig [] None UEmpty [] []), (mkCall 0 [77]), 0%nat, [].
  repeat split; try (vm_compute; reflexivity). constructor.
Qed.

(* hide_args: sig = (a), the call passes a positional *)
Theorem mask_hide_exact_refuted_args : converse_fails (mkHide true false false false).
Proof.
  exists (mkSig [mkParam 1 PK None None UEmpty] None UEmpty [] []), 0%nat, [],
         (mkSig [] None UEmpty [] []), (mkCall 1 []), 0%nat, [].
  repeat split; try (vm_compute; reflexivity); try discriminate. constructor.
Qed.

(* hide_kwargs: sig = (a, b), the call passes a positionally, the hidden keyword set is {b} *)
Theorem mask_hide_exact_refuted_kwargs : converse_fails (mkHide false true false false).
Proof.
  exists (mkSig [mkParam 1 PK None None UEmpty; mkParam 2 PK None None UEmpty] None UEmpty [] []), 0%nat, [],
         (mkSig [] None UEmpty [] []), (mkCall 1 []), 0%nat, [2].
  repeat split; try (vm_compute; reflexivity); try discriminate. constructor.
Qed.

Theorem mask_hide_exact_refuted : exists h, converse_fails h.
Proof. eexists. exact mask_hide_exact_refuted_varargs. Qed.

Example mask_hide_exact_nonvacuous :
  valid_sig (params ex_sig) = true /\ NoDup [4] /\
  (exists r, mask ex_sig 1 [4] (mkHide false false true true) = Ok r /\
             disjointb (kws (mkCall 1 [3])) [4] = true /\
             noncolliding (mkCall 1 [3]) (params r) [params ex_sig] = true /\
             accepts (params r) (mkCall 1 [3]) = true /\
             hide_rhs ex_sig r 1 [4] (mkHide false false true true) (mkCall 1 [3]) = true).
Proof.
  split; [vm_compute; reflexivity|]. split; [constructor; [intros []|constructor]|].
  eexists. split; [vm_compute; reflexivity|]. repeat split; vm_compute; reflexivity.
Qed.

Print Assumptions mask_hide_exact_partial.
Print Assumptions mask_hide_exact_iff.
Print Assumptions mask_hide_kwargs_exact.
Print Assumptions mask_hide_exact_refuted_varargs.
Print Assumptions mask_hide_exact_refuted_varkwargs.
Print Assumptions mask_hide_exact_refuted_args.
Print Assumptions mask_hide_exact_refuted_kwargs.
Print Assumptions mask_hide_exact_refuted.
Print Assumptions mask_hide_exact_nonvacuous.
