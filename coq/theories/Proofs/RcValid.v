(* RcValid.v -- C15_rc_valid: for valid, role-consistent inputs the binary merge
   never fails in the final validating constructor.  The only failure is
   IncompatibleSignatures raised by a stage of the merger.

   Structure: an invariant on the merger state, stated on three projections
   (names of the positional output, optionality of the positional output, names of
   the keyword-only output) and the not-yet-consumed positional parameters of both
   sides, is walked through every stage of [merger]; a second, simpler invariant
   carries the kinds.  The final list is then valid by [validate_spec]. *)
From Sigtools.Model Require Import Base Bind Roles Algebra.
From Sigtools.Proofs Require Import SmallModel Basics MaskLaws MaskExact MergeNeutral Annot ValidateSpec.
From Coq Require Import Lia.

(* ================================================================== *)
(* 1. positional agreement and optional suffixes                       *)

(* a name shared by the two lists sits at the same index in both *)
Definition pos_agree (ra rb : list param) : Prop :=
  forall i j p q, nth_error ra i = Some p -> nth_error rb j = Some q -> pname p = pname q -> i = j.

Lemma pos_agree_sym ra rb : pos_agree ra rb -> pos_agree rb ra.
Proof. intros H i j p q Hp Hq E. symmetry. eapply H; eauto. Qed.

Lemma pos_agree_tail a ra b rb : pos_agree (a :: ra) (b :: rb) -> pos_agree ra rb.
Proof. intros H i j p q Hp Hq E. assert (S i = S j) by (eapply H; eauto). lia. Qed.

Lemma pos_agree_head a ra b rb : pos_agree (a :: ra) (b :: rb) -> ~ In (pname a) (names_of rb).
Proof.
  intros H Hin. apply in_map_iff in Hin. destruct Hin as [q [E Hq]].
  apply In_nth_error in Hq. destruct Hq as [j Hj].
  assert (0 = S j)%nat by (eapply (H 0%nat (S j) a q); [reflexivity|exact Hj|symmetry; exact E]). lia.
Qed.

Lemma pos_agree_nil_r ra : pos_agree ra [].
Proof. intros i j p q _ Hq. destruct j; discriminate. Qed.

Lemma pos_agree_nil_l rb : pos_agree [] rb.
Proof. intros i j p q Hp. destruct i; discriminate. Qed.

(* optional parameters form a suffix *)
Definition isopt (p : param) : Prop := has_def p = true.

Fixpoint dsuf (ps : list param) : Prop :=
  match ps with
  | [] => True
  | p :: ps' => (has_def p = true -> Forall isopt ps') /\ dsuf ps'
  end.

Fixpoint dsufb (bs : list bool) : Prop :=
  match bs with
  | [] => True
  | b :: bs' => (b = true -> Forall (fun c => c = true) bs') /\ dsufb bs'
  end.

Lemma dsufb_snoc bs b : dsufb bs -> (In true bs -> b = true) -> dsufb (bs ++ [b]).
Proof.
  induction bs as [|c bs IH]; intros H Hb; cbn [app dsufb].
  - split; [intros _; constructor|exact I].
  - destruct H as [H1 H2]. split.
    + intros ->. apply Forall_app. split; [apply H1; reflexivity|]. constructor; [|constructor].
      apply Hb. left. reflexivity.
    + apply IH; [exact H2|]. intros Hin. apply Hb. right. exact Hin.
Qed.

Lemma NoDup_app_snoc {A} (l : list A) x : NoDup l -> ~ In x l -> NoDup (l ++ [x]).
Proof.
  induction l as [|y l IH]; intros Hn Hx; cbn [app]; [constructor; [intros []|constructor]|].
  inversion Hn as [|? ? Hy Hn']; subst. constructor.
  - intros Hin. apply in_app_or in Hin. destruct Hin as [Hin|[<-|[]]]; [contradiction|]. apply Hx. left. reflexivity.
  - apply IH; [exact Hn'|]. intros Hin. apply Hx. right. exact Hin.
Qed.

(* ================================================================== *)
(* 2. the abstract invariant                                           *)

Lemma incl_app_comm_names (PA PB : list param) : incl (names_of (PB ++ PA)) (names_of (PA ++ PB)).
Proof.
  intros x Hx. unfold names_of in *. rewrite map_app in *. apply in_app_or in Hx. apply in_or_app. tauto.
Qed.

Section Abstract.
(* PA / PB: all positional parameters of the two sides; KN: every name a
   keyword-only output may carry *)
Variables (PA PB : list param) (KN : list name).
Hypothesis PN_KN : incl (names_of (PA ++ PB)) KN.

Record AInv (on : list name) (od : list bool) (kn : list name) (ra rb : list param) : Prop := {
  a_nd : NoDup on;
  a_rem : forall x, In x on \/ In x kn -> ~ In x (names_of ra) /\ ~ In x (names_of rb);
  a_dis : forall x, In x on -> ~ In x kn;
  a_pn : incl on (names_of (PA ++ PB));
  a_kn : incl kn KN;
  a_agree : pos_agree ra rb;
  a_ndl : NoDup (names_of ra);
  a_ndr : NoDup (names_of rb);
  a_inl : incl ra PA;
  a_inr : incl rb PB;
  a_ds : dsufb od;
  a_opt : In true od -> Forall isopt ra /\ Forall isopt rb;
  a_dl : dsuf ra;
  a_dr : dsuf rb
}.

(* one output parameter named after the head of the left list, both heads consumed *)
Lemma step_pair on od kn a ra b rb on' od' :
  AInv on od kn (a :: ra) (b :: rb) ->
  on' = on ++ [pname a] -> od' = od ++ [has_def a && has_def b] ->
  AInv on' od' kn ra rb.
Proof.
  intros H -> ->. destruct H.
  assert (Fa : ~ In (pname a) on).
  { intros Hin. destruct (a_rem0 _ (or_introl Hin)) as [X _]. apply X. left. reflexivity. }
  assert (Fk : ~ In (pname a) kn).
  { intros Hin. destruct (a_rem0 _ (or_intror Hin)) as [X _]. apply X. left. reflexivity. }
  cbn [names_of map] in a_ndl0, a_ndr0. inversion a_ndl0 as [|? ? Na Nl]; subst. inversion a_ndr0 as [|? ? Nb Nr]; subst.
  constructor; auto.
  - apply NoDup_app_snoc; assumption.
  - intros x [Hx|Hx].
    + apply in_app_or in Hx. destruct Hx as [Hx|[<-|[]]].
      * destruct (a_rem0 _ (or_introl Hx)) as [X Y]. split; intros Z; [apply X|apply Y]; right; exact Z.
      * split; [exact Na|]. eapply pos_agree_head. exact a_agree0.
    + destruct (a_rem0 _ (or_intror Hx)) as [X Y]. split; intros Z; [apply X|apply Y]; right; exact Z.
  - intros x Hx. apply in_app_or in Hx. destruct Hx as [Hx|[<-|[]]]; [apply a_dis0; exact Hx|exact Fk].
  - intros x Hx. apply in_app_or in Hx. destruct Hx as [Hx|[<-|[]]]; [apply a_pn0; exact Hx|].
    unfold names_of. rewrite map_app. apply in_or_app. left. apply in_map. apply a_inl0. left. reflexivity.
  - eapply pos_agree_tail. exact a_agree0.
  - intros x Hx. apply a_inl0. right. exact Hx.
  - intros x Hx. apply a_inr0. right. exact Hx.
  - apply dsufb_snoc; [exact a_ds0|]. intros Hin. destruct (a_opt0 Hin) as [X Y].
    pose proof (Forall_inv X) as X1. pose proof (Forall_inv Y) as Y1. unfold isopt in X1, Y1. rewrite X1, Y1. reflexivity.
  - intros Hin. apply in_app_or in Hin. destruct Hin as [Hin|[Hin|[]]].
    + destruct (a_opt0 Hin) as [X Y]. split; [exact (Forall_inv_tail X)|exact (Forall_inv_tail Y)].
    + apply andb_true_iff in Hin. destruct Hin as [Ha Hb].
      cbn [dsuf] in a_dl0, a_dr0. split; [apply a_dl0; exact Ha|apply a_dr0; exact Hb].
  - cbn [dsuf] in a_dl0. tauto.
  - cbn [dsuf] in a_dr0. tauto.
Qed.

Lemma AInv_drop on od kn a ra : AInv on od kn (a :: ra) [] -> AInv on od kn ra [].
Proof.
  intros H. destruct H. cbn [names_of map] in a_ndl0. inversion a_ndl0; subst.
  constructor; auto.
  - intros x Hx. destruct (a_rem0 x Hx) as [X Y]. split; [|exact Y]. intros Z. apply X. right. exact Z.
  - apply pos_agree_nil_r.
  - intros x Hx. apply a_inl0. right. exact Hx.
  - intros Hin. destruct (a_opt0 Hin) as [X Y]. split; [exact (Forall_inv_tail X)|exact Y].
  - cbn [dsuf] in a_dl0. tauto.
Qed.

(* the head of the left list is kept alone (the right side is exhausted) *)
Lemma step_keep on od kn a ra on' od' :
  AInv on od kn (a :: ra) [] ->
  on' = on ++ [pname a] -> od' = od ++ [has_def a] ->
  AInv on' od' kn ra [].
Proof.
  intros H E1 E2.
  (* reuse step_pair with a copy of the head on the right *)
  pose proof (AInv_drop _ _ _ _ _ H) as HD. destruct H, HD.
  assert (Fa : ~ In (pname a) on).
  { intros Hin. destruct (a_rem0 _ (or_introl Hin)) as [X _]. apply X. left. reflexivity. }
  assert (Fk : ~ In (pname a) kn).
  { intros Hin. destruct (a_rem0 _ (or_intror Hin)) as [X _]. apply X. left. reflexivity. }
  cbn [names_of map] in a_ndl0. inversion a_ndl0 as [|? ? Na Nl]; subst.
  constructor; auto.
  - apply NoDup_app_snoc; assumption.
  - intros x [Hx|Hx].
    + apply in_app_or in Hx. destruct Hx as [Hx|[<-|[]]].
      * apply a_rem1. left. exact Hx.
      * split; [exact Na|intros []].
    + apply a_rem1. right. exact Hx.
  - intros x Hx. apply in_app_or in Hx. destruct Hx as [Hx|[<-|[]]]; [apply a_dis0; exact Hx|exact Fk].
  - intros x Hx. apply in_app_or in Hx. destruct Hx as [Hx|[<-|[]]]; [apply a_pn0; exact Hx|].
    unfold names_of. rewrite map_app. apply in_or_app. left. apply in_map. apply a_inl0. left. reflexivity.
  - apply dsufb_snoc; [exact a_ds0|]. intros Hin. destruct (a_opt0 Hin) as [X Y]. exact (Forall_inv X).
  - intros Hin. apply in_app_or in Hin. destruct Hin as [Hin|[Hin|[]]].
    + apply a_opt1. exact Hin.
    + split; [|constructor]. cbn [dsuf] in a_dl0. apply a_dl0. exact Hin.
Qed.

(* the head of the left list becomes a keyword-only output *)
Lemma step_conv on od kn kn' a ra :
  AInv on od kn (a :: ra) [] ->
  (forall y, In y kn' <-> In y kn \/ y = pname a) ->
  AInv on od kn' ra [].
Proof.
  intros H Hk. pose proof (AInv_drop _ _ _ _ _ H) as HD. destruct H, HD.
  cbn [names_of map] in a_ndl0. inversion a_ndl0 as [|? ? Na Nl]; subst.
  constructor; auto.
  - intros x [Hx|Hx]; [apply a_rem1; left; exact Hx|]. apply Hk in Hx. destruct Hx as [Hx| ->].
    + apply a_rem1. right. exact Hx.
    + split; [exact Na|intros []].
  - intros x Hx Hx'. apply Hk in Hx'. destruct Hx' as [Hx'| ->]; [exact (a_dis0 _ Hx Hx')|].
    destruct (a_rem0 _ (or_introl Hx)) as [X _]. apply X. left. reflexivity.
  - intros x Hx. apply Hk in Hx. destruct Hx as [Hx| ->]; [apply a_kn0; exact Hx|].
    apply PN_KN. unfold names_of. rewrite map_app. apply in_or_app. left. apply in_map. apply a_inl0. left. reflexivity.
Qed.
End Abstract.

Lemma AInv_sym PA PB KN on od kn ra rb :
  AInv PA PB KN on od kn ra rb -> AInv PB PA KN on od kn rb ra.
Proof.
  intros H. destruct H. constructor; auto.
  - intros x Hx. destruct (a_rem0 x Hx). tauto.
  - intros x Hx. apply (incl_app_comm_names PB PA x). apply a_pn0. exact Hx.
  - apply pos_agree_sym. exact a_agree0.
  - intros Hin. destruct (a_opt0 Hin). tauto.
Qed.

(* ================================================================== *)
(* 3. the invariant on merger states                                   *)

Definition outs (st : mstate) : list param := m_pos st ++ m_pok st.
Definition pn (st : mstate) : list name := names_of (outs st).
Definition pd (st : mstate) : list bool := map has_def (outs st).
Definition kn (st : mstate) : list name := names_of (m_kwo st).

Lemma names_set_kind k ps : names_of (map (set_kind k) ps) = names_of ps.
Proof. unfold names_of. rewrite map_map. reflexivity. Qed.
Lemma defs_set_kind k ps : map has_def (map (set_kind k) ps) = map has_def ps.
Proof. rewrite map_map. reflexivity. Qed.

Lemma names_od_set d p y : In y (names_of (od_set d p)) <-> In y (names_of d) \/ y = pname p.
Proof.
  induction d as [|q d IH]; cbn [od_set names_of map In].
  - split; [intros [<-|[]]; auto|intros [[]| ->]; auto].
  - destruct (N.eqb_spec (pname p) (pname q)) as [E|E]; cbn [names_of map In].
    + rewrite E. split; [intros [<-|H]; auto|intros [[<-|H]| ->]; auto].
    + fold (names_of (od_set d p)). fold (names_of d). rewrite IH. split; [intros [<-|[H| ->]]; auto|intros [[<-|H]| ->]; auto].
Qed.

Lemma names_od_update u : forall d y, In y (names_of (od_update d u)) <-> In y (names_of d) \/ In y (names_of u).
Proof.
  unfold od_update. induction u as [|p u IH]; intros d y; cbn [fold_left names_of map In]; [tauto|].
  fold (names_of u). fold (names_of (fold_left od_set u (od_set d p))). rewrite IH, names_od_set. split.
  - intros [[H|H]|H]; auto.
  - intros [H|[H|H]]; auto.
Qed.

Lemma nodup_od_set d p : NoDup (names_of d) -> NoDup (names_of (od_set d p)).
Proof.
  induction d as [|q d IH]; intros H; cbn [od_set names_of map]; [constructor; [intros []|constructor]|].
  cbn [names_of map] in H. inversion H as [|? ? Hq Hd]; subst.
  destruct (N.eqb_spec (pname p) (pname q)) as [E|E]; cbn [names_of map].
  - rewrite E. constructor; assumption.
  - constructor; [|apply IH; exact Hd]. fold (names_of (od_set d p)). rewrite names_od_set.
    intros [Hin|Hin]; [contradiction|]. apply E. symmetry. exact Hin.
Qed.

Lemma nodup_od_update u : forall d, NoDup (names_of d) -> NoDup (names_of (od_update d u)).
Proof.
  unfold od_update. induction u as [|p u IH]; intros d H; cbn [fold_left]; [exact H|].
  apply IH. apply nodup_od_set. exact H.
Qed.

Section Walk.
Variables l r : sorted.
Let PA := posargs l ++ pokargs l.
Let PB := posargs r ++ pokargs r.
Let KN := names_of (PA ++ PB) ++ names_of (kwoargs l) ++ names_of (kwoargs r).

Lemma PN_KN : incl (names_of (PA ++ PB)) KN.
Proof. intros x Hx. unfold KN. apply in_or_app. left. exact Hx. Qed.
Lemma PN_KN' : incl (names_of (PB ++ PA)) KN.
Proof. intros x Hx. apply PN_KN. apply (incl_app_comm_names PA PB x). exact Hx. Qed.

Definition AI (st : mstate) (ra rb : list param) : Prop :=
  AInv PA PB KN (pn st) (pd st) (kn st) ra rb.
(* the list of the side being walked first *)
Definition AIs (s : side) (st : mstate) (mine oth : list param) : Prop :=
  match s with L => AI st mine oth | R => AI st oth mine end.

Lemma AIs_pair s st st' a x b y :
  AIs s st (a :: x) (b :: y) ->
  pn st' = pn st ++ [pname a] -> pd st' = pd st ++ [has_def a && has_def b] -> kn st' = kn st ->
  AIs s st' x y.
Proof.
  unfold AIs, AI. intros H E1 E2 E3. rewrite E3. destruct s.
  - eapply step_pair; eauto.
  - apply AInv_sym. eapply step_pair; [apply AInv_sym; exact H|exact E1|exact E2].
Qed.

Lemma AIs_keep s st st' a x :
  AIs s st (a :: x) [] ->
  pn st' = pn st ++ [pname a] -> pd st' = pd st ++ [has_def a] -> kn st' = kn st ->
  AIs s st' x [].
Proof.
  unfold AIs, AI. intros H E1 E2 E3. rewrite E3. destruct s.
  - eapply step_keep; eauto.
  - apply AInv_sym. eapply step_keep; [apply AInv_sym; exact H|exact E1|exact E2].
Qed.

Lemma AIs_drop s st st' a x :
  AIs s st (a :: x) [] -> pn st' = pn st -> pd st' = pd st -> kn st' = kn st -> AIs s st' x [].
Proof.
  unfold AIs, AI. intros H E1 E2 E3. rewrite E1, E2, E3. destruct s.
  - eapply AInv_drop; eauto.
  - apply AInv_sym. eapply AInv_drop. apply AInv_sym. exact H.
Qed.

Lemma AIs_conv s st st' a x :
  AIs s st (a :: x) [] -> pn st' = pn st -> pd st' = pd st ->
  (forall y, In y (kn st') <-> In y (kn st) \/ y = pname a) -> AIs s st' x [].
Proof.
  unfold AIs, AI. intros H E1 E2 E3. rewrite E1, E2. destruct s.
  - eapply step_conv; [exact PN_KN|exact H|exact E3].
  - apply AInv_sym. eapply step_conv; [exact PN_KN'|apply AInv_sym; exact H|exact E3].
Qed.

Lemma has_def_concile a b : has_def (concile a b) = has_def a && has_def b.
Proof. apply concile_optional_iff. Qed.
Lemma has_def_set_kind k p : has_def (set_kind k p) = has_def p.
Proof. reflexivity. Qed.
Lemma pnames_set_kind k ps : map pname (map (set_kind k) ps) = map pname ps.
Proof. rewrite map_map. reflexivity. Qed.

Ltac prj1 :=
  unfold pn, pd, kn, outs, names_of;
  cbn [m_pos m_pok m_kwo set_pos set_pok set_kwo set_src add_src1 add_src2 excl_va excl_vk set_unm].
Ltac prj2 :=
  rewrite ?app_nil_r, ?map_app, ?pnames_set_kind, ?defs_set_kind; cbn [map];
  rewrite ?has_def_set_kind, ?has_def_concile; cbn [pname set_kind concile];
  rewrite <- ?app_assoc, ?app_nil_r; try reflexivity.
Ltac prj Hk := prj1; rewrite ?Hk; prj2.
Ltac prj0 := prj1; prj2.

Lemma W_unb_pos1 s e x y st st' y' :
  m_pok st = [] -> AIs s st (e :: x) y ->
  unb_pos1 l r s e y st = Ok (st', y') ->
  AIs s st' x y' /\ m_pok st' = [].
Proof.
  intros Hk H E. unfold unb_pos1 in E. destruct y as [|o conv'].
  - destruct (isSome (varargs (other l r s))).
    + inversion E; subst. split; [|destruct s; exact Hk].
      eapply AIs_keep; [exact H| | | ]; destruct s; prj Hk.
    + destruct (negb (has_def e)); [discriminate|]. inversion E; subst. split; [|exact Hk].
      eapply AIs_drop; [exact H| | | ]; reflexivity.
  - inversion E; subst. split; [|destruct (N.eqb (pname o) (pname e)); destruct s; exact Hk].
    eapply AIs_pair; [exact H| | | ]; destruct (N.eqb (pname o) (pname e)); destruct s; prj Hk.
Qed.

Lemma W_unb_pos_all s ps : forall x y st st' y',
  m_pok st = [] -> AIs s st (ps ++ x) y ->
  unb_pos_all l r s ps y st = Ok (st', y') ->
  AIs s st' x y' /\ m_pok st' = [].
Proof.
  induction ps as [|p ps IH]; intros x y st st' y' Hk H E; cbn [unb_pos_all] in E.
  - inversion E; subst. auto.
  - apply bind_ok in E. destruct E as [[st1 y1] [E1 E2]]. cbn [fst snd] in E2.
    destruct (W_unb_pos1 s p (ps ++ x) y st st1 y1 Hk H E1) as [H1 Hk1].
    exact (IH x y1 st1 st' y' Hk1 H1 E2).
Qed.

Lemma W_zip_pos lp : forall rp il ir st st' il' ir',
  m_pok st = [] -> AI st (lp ++ il) (rp ++ ir) ->
  zip_pos l r lp rp il ir st = Ok (st', il', ir') ->
  AI st' il' ir' /\ m_pok st' = [].
Proof.
  induction lp as [|a lp IH]; intros rp il ir st st' il' ir' Hk H E.
  - cbn [zip_pos] in E. apply bind_ok in E. destruct E as [[st1 y1] [E1 E2]]. cbn [fst snd] in E2.
    inversion E2; subst.
    exact (W_unb_pos_all R rp ir' il st st' il' Hk H E1).
  - destruct rp as [|b rp]; cbn [zip_pos] in E.
    + apply bind_ok in E. destruct E as [[st1 y1] [E1 E2]]. cbn [fst snd] in E2. inversion E2; subst.
      exact (W_unb_pos_all L (a :: lp) il' ir st st' ir' Hk H E1).
    + eapply IH; [| |exact E].
      * destruct (N.eqb (pname a) (pname b)); exact Hk.
      * change (AIs L ?s ?x ?y) with (AI s x y).
        eapply (AIs_pair L); [exact H| | | ]; destruct (N.eqb (pname a) (pname b)); prj Hk.
Qed.

Lemma W_unb_pok1 s e x st st' :
  AIs s st (e :: x) [] -> unb_pok1 l r s e st = Ok st' -> AIs s st' x [].
Proof.
  intros H E. unfold unb_pok1 in E.
  destruct (find_param (pname e) (unm st match s with L => R | R => L end)) as [q|].
  - inversion E; subst. eapply AIs_conv; [exact H| | | ]; destruct s; prj0.
    + intros y. fold (names_of (od_set (m_kwo st) (set_kind KO (concile e q)))). fold (names_of (m_kwo st)).
      rewrite names_od_set. reflexivity.
    + intros y. fold (names_of (od_set (m_kwo st) (set_kind KO (concile e q)))). fold (names_of (m_kwo st)).
      rewrite names_od_set. reflexivity.
  - destruct (isSome (varargs (other l r s)) && isSome (varkwargs (other l r s))).
    { inversion E; subst. eapply AIs_keep; [exact H| | | ]; destruct s; prj0. }
    destruct (isSome (varkwargs (other l r s))).
    { inversion E; subst. eapply AIs_conv; [exact H| | | ]; destruct s; prj0.
      - intros y. fold (names_of (od_set (m_kwo st) (set_kind KO e))). fold (names_of (m_kwo st)).
        rewrite names_od_set. reflexivity.
      - intros y. fold (names_of (od_set (m_kwo st) (set_kind KO e))). fold (names_of (m_kwo st)).
        rewrite names_od_set. reflexivity. }
    destruct (isSome (varargs (other l r s))).
    { inversion E; subst. eapply AIs_keep; [exact H| | | ]; destruct s; prj0. }
    destruct (negb (has_def e)); [discriminate|]. inversion E; subst.
    eapply AIs_drop; [exact H| | | ]; reflexivity.
Qed.

Lemma W_unb_pok_all s ps : forall st st',
  AIs s st ps [] -> unb_pok_all l r s ps st = Ok st' -> AIs s st' [] [].
Proof.
  induction ps as [|p ps IH]; intros st st' H E; cbn [unb_pok_all] in E.
  - inversion E; subst. exact H.
  - apply bind_ok in E. destruct E as [st1 [E1 E2]].
    exact (IH st1 st' (W_unb_pok1 s p ps st st1 H E1) E2).
Qed.

Lemma W_zip_pok il : forall ir st st',
  AI st il ir -> zip_pok l r il ir st = Ok st' -> AI st' [] [].
Proof.
  induction il as [|a il IH]; intros ir st st' H E.
  - cbn [zip_pok] in E. exact (W_unb_pok_all R ir st st' H E).
  - destruct ir as [|b ir]; cbn [zip_pok] in E.
    + exact (W_unb_pok_all L (a :: il) st st' H E).
    + eapply IH; [|exact E].
      eapply (AIs_pair L); [exact H| | | ]; destruct (N.eqb (pname a) (pname b)); prj0.
Qed.

(* ---- the kinds of the output, duplicate-free keyword-only output, origin of
   the unmatched keyword-only parameters ---- *)
Definition isPO (p : param) : Prop := pkind p = PO.
Definition isPK (p : param) : Prop := pkind p = PK.
Definition isKO (p : param) : Prop := pkind p = KO.

Record KIc (pos pok kwo lu ru : list param) : Prop := {
  k_pos : Forall isPO pos;
  k_pok : exists a b, pok = a ++ b /\ Forall isPO a /\ Forall isPK b;
  k_kwo : Forall isKO kwo;
  k_nd : NoDup (names_of kwo);
  k_lu : incl lu (kwoargs l);
  k_ru : incl ru (kwoargs r)
}.
Definition KI (st : mstate) : Prop :=
  KIc (m_pos st) (m_pok st) (m_kwo st) (m_lunm st) (m_runm st).

Lemma Forall_map_set_kind k (P : param -> Prop) ps :
  (forall p, P (set_kind k p)) -> Forall P (map (set_kind k) ps).
Proof. intros H. induction ps; cbn; constructor; auto. Qed.

Lemma KIc_pos_snoc pos pok kwo lu ru c :
  KIc pos pok kwo lu ru -> pkind c = PO -> KIc (pos ++ [c]) pok kwo lu ru.
Proof. intros [] Hc. constructor; auto. apply Forall_app. split; [assumption|constructor; [exact Hc|constructor]]. Qed.

Lemma KIc_pok_snoc pos pok kwo lu ru c :
  KIc pos pok kwo lu ru -> pkind c = PK -> KIc pos (pok ++ [c]) kwo lu ru.
Proof.
  intros [] Hc. constructor; auto. destruct k_pok0 as [a [b [E [Ha Hb]]]]. exists a, (b ++ [c]).
  rewrite E, <- app_assoc. repeat split; auto. apply Forall_app. split; [assumption|constructor; [exact Hc|constructor]].
Qed.

Lemma KIc_pok_po pos pok kwo lu ru c :
  KIc pos pok kwo lu ru -> KIc pos (map (set_kind PO) pok ++ [set_kind PO c]) kwo lu ru.
Proof.
  intros []. constructor; auto. exists (map (set_kind PO) pok ++ [set_kind PO c]), []. rewrite app_nil_r.
  repeat split; [|constructor]. apply Forall_app. split; [apply Forall_map_set_kind; reflexivity|].
  constructor; [reflexivity|constructor].
Qed.

Lemma KIc_flush pos pok kwo lu ru c :
  KIc pos pok kwo lu ru -> KIc (pos ++ map (set_kind PO) pok ++ [set_kind PO c]) [] kwo lu ru.
Proof.
  intros []. constructor; auto.
  - apply Forall_app. split; [assumption|]. apply Forall_app. split; [apply Forall_map_set_kind; reflexivity|].
    constructor; [reflexivity|constructor].
  - exists [], []. repeat split; constructor.
Qed.

Lemma KIc_kwo_set pos pok kwo lu ru c :
  KIc pos pok kwo lu ru -> pkind c = KO -> KIc pos pok (od_set kwo c) lu ru.
Proof. intros [] Hc. constructor; auto. - apply od_set_forall; assumption. - apply nodup_od_set. assumption. Qed.

Lemma KIc_lu pos pok kwo lu ru lu' : KIc pos pok kwo lu ru -> incl lu' (kwoargs l) -> KIc pos pok kwo lu' ru.
Proof. intros [] H. constructor; auto. Qed.
Lemma KIc_ru pos pok kwo lu ru ru' : KIc pos pok kwo lu ru -> incl ru' (kwoargs r) -> KIc pos pok kwo lu ru'.
Proof. intros [] H. constructor; auto. Qed.

Lemma incl_remove_param x ps : incl (remove_param x ps) ps.
Proof.
  induction ps as [|p ps IH]; cbn [remove_param]; [apply incl_refl|].
  destruct (N.eqb x (pname p)); [apply incl_tl; exact IH|]. intros y [<-|Hy]; [left; reflexivity|right; apply IH; exact Hy].
Qed.

Lemma incl_od_set d p (X : list param) : incl d X -> In p X -> incl (od_set d p) X.
Proof.
  induction d as [|q d IH]; intros Hd Hp; cbn [od_set].
  - intros y [<-|[]]. exact Hp.
  - destruct (N.eqb (pname p) (pname q)).
    + intros y [<-|Hy]; [exact Hp|apply Hd; right; exact Hy].
    + intros y [<-|Hy]; [apply Hd; left; reflexivity|]. apply IH; [|exact Hp|exact Hy]. intros z Hz. apply Hd. right. exact Hz.
Qed.

Ltac kred := unfold KI;
  cbn [m_pos m_pok m_kwo m_lunm m_runm set_pos set_pok set_kwo set_src add_src1 add_src2 excl_va excl_vk set_unm].

Lemma K_unb_pos1 s e y st st' y' :
  KI st -> pkind e = PO -> unb_pos1 l r s e y st = Ok (st', y') -> KI st' /\ incl y' y.
Proof.
  intros H He E. unfold unb_pos1 in E. destruct y as [|o conv'].
  - destruct (isSome (varargs (other l r s))).
    + inversion E; subst. split; [|apply incl_refl]. destruct s; kred; apply KIc_pos_snoc; assumption.
    + destruct (negb (has_def e)); [discriminate|]. inversion E; subst. split; [exact H|apply incl_refl].
  - inversion E; subst. split; [|apply incl_tl, incl_refl].
    destruct (N.eqb (pname o) (pname e)); destruct s; kred; apply KIc_pos_snoc; assumption.
Qed.

Lemma K_unb_pos_all s ps : forall y st st' y',
  KI st -> Forall isPO ps -> unb_pos_all l r s ps y st = Ok (st', y') -> KI st' /\ incl y' y.
Proof.
  induction ps as [|p ps IH]; intros y st st' y' H HF E; cbn [unb_pos_all] in E.
  - inversion E; subst. split; [exact H|apply incl_refl].
  - apply bind_ok in E. destruct E as [[st1 y1] [E1 E2]]. cbn [fst snd] in E2.
    destruct (K_unb_pos1 s p y st st1 y1 H (Forall_inv HF) E1) as [H1 I1].
    destruct (IH y1 st1 st' y' H1 (Forall_inv_tail HF) E2) as [H2 I2].
    split; [exact H2|]. intros z Hz. apply I1, I2, Hz.
Qed.

Lemma K_zip_pos lp : forall rp il ir st st' il' ir',
  KI st -> Forall isPO lp -> Forall isPO rp ->
  zip_pos l r lp rp il ir st = Ok (st', il', ir') -> KI st' /\ incl il' il /\ incl ir' ir.
Proof.
  induction lp as [|a lp IH]; intros rp il ir st st' il' ir' H Hl Hr E.
  - cbn [zip_pos] in E. apply bind_ok in E. destruct E as [[st1 y1] [E1 E2]]. cbn [fst snd] in E2.
    inversion E2; subst. destruct (K_unb_pos_all R rp il st st' il' H Hr E1) as [X1 X2]. split; [exact X1|split; [exact X2|apply incl_refl]].
  - destruct rp as [|b rp]; cbn [zip_pos] in E.
    + apply bind_ok in E. destruct E as [[st1 y1] [E1 E2]]. cbn [fst snd] in E2. inversion E2; subst.
      destruct (K_unb_pos_all L (a :: lp) ir st st' ir' H Hl E1) as [X1 X2]. split; [exact X1|split; [apply incl_refl|exact X2]].
    + eapply IH; [|exact (Forall_inv_tail Hl)|exact (Forall_inv_tail Hr)|exact E].
      destruct (N.eqb (pname a) (pname b)); kred; apply KIc_pos_snoc; try assumption; exact (Forall_inv Hl).
Qed.

Lemma K_unb_pok1 s e st st' :
  KI st -> pkind e = PK -> unb_pok1 l r s e st = Ok st' -> KI st'.
Proof.
  intros H He E. unfold unb_pok1 in E.
  destruct (find_param (pname e) (unm st match s with L => R | R => L end)) as [q|].
  - inversion E; subst. destruct s; cbn [unm]; kred.
    + apply KIc_kwo_set; [|reflexivity]. eapply KIc_ru; [exact H|].
      intros z Hz. apply incl_remove_param in Hz. destruct H. apply k_ru0. exact Hz.
    + apply KIc_kwo_set; [|reflexivity]. eapply KIc_lu; [exact H|].
      intros z Hz. apply incl_remove_param in Hz. destruct H. apply k_lu0. exact Hz.
  - destruct (isSome (varargs (other l r s)) && isSome (varkwargs (other l r s))).
    { inversion E; subst. destruct s; kred; apply KIc_pok_snoc; assumption. }
    destruct (isSome (varkwargs (other l r s))).
    { inversion E; subst. destruct s; kred; apply KIc_kwo_set; try assumption; reflexivity. }
    destruct (isSome (varargs (other l r s))).
    { inversion E; subst. destruct s; kred; apply KIc_flush; assumption. }
    destruct (negb (has_def e)); [discriminate|]. inversion E; subst. exact H.
Qed.

Lemma K_unb_pok_all s ps : forall st st',
  KI st -> Forall isPK ps -> unb_pok_all l r s ps st = Ok st' -> KI st'.
Proof.
  induction ps as [|p ps IH]; intros st st' H HF E; cbn [unb_pok_all] in E.
  - inversion E; subst. exact H.
  - apply bind_ok in E. destruct E as [st1 [E1 E2]].
    exact (IH st1 st' (K_unb_pok1 s p st st1 H (Forall_inv HF) E1) (Forall_inv_tail HF) E2).
Qed.

Lemma K_zip_pok il : forall ir st st',
  KI st -> Forall isPK il -> Forall isPK ir -> zip_pok l r il ir st = Ok st' -> KI st'.
Proof.
  induction il as [|a il IH]; intros ir st st' H Hl Hr E.
  - cbn [zip_pok] in E. exact (K_unb_pok_all R ir st st' H Hr E).
  - destruct ir as [|b ir]; cbn [zip_pok] in E.
    + exact (K_unb_pok_all L (a :: il) st st' H Hl E).
    + eapply IH; [|exact (Forall_inv_tail Hl)|exact (Forall_inv_tail Hr)|exact E].
      destruct (N.eqb (pname a) (pname b)); kred; [apply KIc_pok_snoc|apply KIc_pok_po]; try assumption.
      exact (Forall_inv Hl).
Qed.

(* ---- what validity and role consistency of the inputs give ---- *)
Hypothesis HKl : kinds_ok l.
Hypothesis HKr : kinds_ok r.
Hypothesis HNl : NoDup (names_of (flatten l)).
Hypothesis HNr : NoDup (names_of (flatten r)).
Hypothesis HR1 : forall p q, In p (flatten l) -> In q (flatten r) -> pname p = pname q -> pkind p = pkind q.
Hypothesis HR2 : pos_agree PA PB.
Hypothesis HDl : dsuf PA.
Hypothesis HDr : dsuf PB.

Definition inab (p : param) : Prop := In p (flatten l) \/ In p (flatten r).

(* a name has one kind across both inputs *)
Lemma cls_sep p q : inab p -> inab q -> pname p = pname q -> pkind p = pkind q.
Proof.
  intros [Hp|Hp] [Hq|Hq] E.
  - rewrite (nodup_names_inj _ p q HNl Hp Hq E). reflexivity.
  - apply HR1; assumption.
  - symmetry. apply HR1; [assumption|assumption|symmetry; exact E].
  - rewrite (nodup_names_inj _ p q HNr Hp Hq E). reflexivity.
Qed.

Lemma in_PA p : In p PA -> In p (flatten l) /\ (pkind p = PO \/ pkind p = PK).
Proof.
  destruct HKl as (H1 & H2 & _). rewrite Forall_forall in H1, H2.
  unfold PA, flatten. intros H. apply in_app_or in H. destruct H as [H|H].
  - split; [apply in_or_app; left; exact H|left; apply H1; exact H].
  - split; [apply in_or_app; right; apply in_or_app; left; exact H|right; apply H2; exact H].
Qed.
Lemma in_PB p : In p PB -> In p (flatten r) /\ (pkind p = PO \/ pkind p = PK).
Proof.
  destruct HKr as (H1 & H2 & _). rewrite Forall_forall in H1, H2.
  unfold PB, flatten. intros H. apply in_app_or in H. destruct H as [H|H].
  - split; [apply in_or_app; left; exact H|left; apply H1; exact H].
  - split; [apply in_or_app; right; apply in_or_app; left; exact H|right; apply H2; exact H].
Qed.
Lemma in_kwo_l p : In p (kwoargs l) -> In p (flatten l) /\ pkind p = KO.
Proof.
  destruct HKl as (_ & _ & _ & H4 & _). rewrite Forall_forall in H4. intros H. split; [|apply H4; exact H].
  unfold flatten. do 3 (apply in_or_app; right). apply in_or_app. left. exact H.
Qed.
Lemma in_kwo_r p : In p (kwoargs r) -> In p (flatten r) /\ pkind p = KO.
Proof.
  destruct HKr as (_ & _ & _ & H4 & _). rewrite Forall_forall in H4. intros H. split; [|apply H4; exact H].
  unfold flatten. do 3 (apply in_or_app; right). apply in_or_app. left. exact H.
Qed.

Lemma PN_witness x : In x (names_of (PA ++ PB)) ->
  exists p, inab p /\ pname p = x /\ (pkind p = PO \/ pkind p = PK).
Proof.
  intros H. apply in_map_iff in H. destruct H as [p [E Hp]]. exists p. apply in_app_or in Hp.
  destruct Hp as [Hp|Hp]; [destruct (in_PA p Hp)|destruct (in_PB p Hp)]; unfold inab; auto.
Qed.

Lemma KN_witness x : In x KN ->
  exists p, inab p /\ pname p = x /\ (pkind p = PO \/ pkind p = PK \/ pkind p = KO).
Proof.
  unfold KN. intros H. apply in_app_or in H. destruct H as [H|H].
  - destruct (PN_witness x H) as [p [A [B C]]]. exists p. tauto.
  - apply in_app_or in H. destruct H as [H|H]; apply in_map_iff in H; destruct H as [p [E Hp]]; exists p;
      [destruct (in_kwo_l p Hp)|destruct (in_kwo_r p Hp)]; unfold inab; auto.
Qed.

(* ---- first loop: matched keyword-only parameters ---- *)
Lemma kwo_match_proj lk : forall st,
  m_pos (kwo_match l r lk st) = m_pos st /\ m_pok (kwo_match l r lk st) = m_pok st /\
  forall y, In y (kn (kwo_match l r lk st)) -> In y (kn st) \/ In y (names_of lk).
Proof.
  induction lk as [|p lk IH]; intros st; cbn [kwo_match]; [auto|].
  match goal with |- context [kwo_match l r lk ?s] => destruct (IH s) as (E1 & E2 & E3) end.
  rewrite E1, E2. destruct (find_param (pname p) (kwoargs r)) as [q|]; (split; [reflexivity|split; [reflexivity|]]);
    intros y Hy; apply E3 in Hy; cbn [names_of map In]; fold (names_of lk).
  - destruct Hy as [Hy|Hy]; [|tauto]. unfold kn in Hy. cbn [m_kwo set_kwo set_src] in Hy.
    apply names_od_set in Hy. cbn [pname concile] in Hy. destruct Hy as [Hy| ->]; [left; exact Hy|right; left; reflexivity].
  - destruct Hy as [Hy|Hy]; [left; exact Hy|tauto].
Qed.

Lemma K_kwo_match lk : forall st, KI st -> incl lk (kwoargs l) -> KI (kwo_match l r lk st).
Proof.
  induction lk as [|p lk IH]; intros st H Hi; cbn [kwo_match]; [exact H|].
  assert (Hp : In p (kwoargs l)) by (apply Hi; left; reflexivity).
  apply IH; [|intros z Hz; apply Hi; right; exact Hz].
  destruct (find_param (pname p) (kwoargs r)) as [q|]; kred.
  - apply KIc_kwo_set; [exact H|]. cbn [pkind concile]. apply (in_kwo_l p Hp).
  - eapply KIc_lu; [exact H|]. apply incl_od_set; [destruct H; assumption|exact Hp].
Qed.

Definition st0 : mstate := mkM [] [] [] [] false false false false [] [].

Lemma KI_st0 : KI st0.
Proof. constructor; cbn; try constructor. - exists [], []. repeat split; constructor. - intros x []. - intros x []. Qed.

Lemma r_unmatched_incl : incl (r_unmatched l r) (kwoargs r).
Proof. unfold r_unmatched. intros x Hx. apply filter_In in Hx. tauto. Qed.

Definition st2 : mstate := set_unm (kwo_match l r (kwoargs l) st0) R (r_unmatched l r).

Lemma KI_st2 : KI st2.
Proof.
  unfold st2. pose proof (K_kwo_match (kwoargs l) st0 KI_st0 (incl_refl _)) as H.
  kred. eapply KIc_ru; [exact H|apply r_unmatched_incl].
Qed.

Lemma nodup_PA : NoDup (names_of PA).
Proof.
  pose proof HNl as H. unfold flatten in H. rewrite app_assoc in H. unfold names_of in H. rewrite map_app in H.
  apply nodup_app_l in H. exact H.
Qed.
Lemma nodup_PB : NoDup (names_of PB).
Proof.
  pose proof HNr as H. unfold flatten in H. rewrite app_assoc in H. unfold names_of in H. rewrite map_app in H.
  apply nodup_app_l in H. exact H.
Qed.

Lemma AI_st2 : AI st2 PA PB /\ m_pok st2 = [].
Proof.
  destruct (kwo_match_proj (kwoargs l) st0) as (E1 & E2 & E3).
  assert (P1 : pn st2 = []) by (unfold pn, outs, st2; cbn [m_pos m_pok set_unm]; rewrite E1, E2; reflexivity).
  assert (P2 : pd st2 = []) by (unfold pd, outs, st2; cbn [m_pos m_pok set_unm]; rewrite E1, E2; reflexivity).
  assert (P3 : forall y, In y (kn st2) -> In y (names_of (kwoargs l))).
  { intros y Hy. unfold kn, st2 in Hy. cbn [m_kwo set_unm] in Hy. apply E3 in Hy. destruct Hy as [[]|Hy]. exact Hy. }
  split; [|unfold st2; cbn [m_pok set_unm]; exact E2].
  unfold AI. rewrite P1, P2. constructor; auto.
  - constructor.
  - intros x [[]|Hx]. apply P3 in Hx. apply in_map_iff in Hx. destruct Hx as [p [E Hp]].
    destruct (in_kwo_l p Hp) as [Fp Kp]. split; intros Hin; apply in_map_iff in Hin; destruct Hin as [q [E' Hq]].
    + destruct (in_PA q Hq) as [Fq Kq].
      assert (X : pkind q = pkind p) by (apply cls_sep; [left; exact Fq|left; exact Fp|congruence]).
      rewrite Kp in X. destruct Kq; congruence.
    + destruct (in_PB q Hq) as [Fq Kq].
      assert (X : pkind q = pkind p) by (apply cls_sep; [right; exact Fq|left; exact Fp|congruence]).
      rewrite Kp in X. destruct Kq; congruence.
  - intros x [].
  - intros x Hx. apply P3 in Hx. unfold KN. apply in_or_app. right. apply in_or_app. left. exact Hx.
  - exact nodup_PA.
  - exact nodup_PB.
  - apply incl_refl.
  - apply incl_refl.
  - exact I.
  - intros [].
Qed.

(* ---- after the two zips ---- *)
Record FI (st : mstate) : Prop := {
  f_nd : NoDup (pn st);
  f_dis : forall x, In x (pn st) -> ~ In x (kn st);
  f_pn : incl (pn st) (names_of (PA ++ PB));
  f_kn : incl (kn st) KN;
  f_ds : dsufb (pd st)
}.

Lemma FI_of_AI st : AI st [] [] -> FI st.
Proof. intros []. constructor; auto. Qed.

Lemma fold_src_fields (s : side) u : forall st,
  let st' := fold_left (fun a p => add_src1 l r a (pname p) s) u st in
  m_pos st' = m_pos st /\ m_pok st' = m_pok st /\ m_kwo st' = m_kwo st /\
  m_lunm st' = m_lunm st /\ m_runm st' = m_runm st.
Proof.
  induction u as [|p u IH]; intros st; cbn [fold_left]; [auto 10|].
  destruct (IH (add_src1 l r st (pname p) s)) as (A & B & C & D & E). cbv zeta. rewrite A, B, C, D, E. auto 10.
Qed.

Lemma unm_incl st s : KI st -> incl (unm st s) (kwoargs (my l r s)).
Proof. intros []. destruct s; assumption. Qed.

Lemma unmatched_kwo_cases s st st' :
  unmatched_kwo l r s st = Ok st' ->
  st' = st \/
  (m_pos st' = m_pos st /\ m_pok st' = m_pok st /\ m_kwo st' = od_update (m_kwo st) (unm st s) /\
   m_lunm st' = m_lunm st /\ m_runm st' = m_runm st).
Proof.
  unfold unmatched_kwo. destruct (unm st s) as [|q u] eqn:Eu; [intros E; inversion E; auto|].
  destruct (isSome (varkwargs (other l r s))).
  - intros E. inversion E; subst. right.
    destruct (fold_src_fields s (q :: u) (set_kwo st (od_update (m_kwo st) (q :: u)))) as (A & B & C & D & F).
    cbv zeta in *. destruct s; cbn [excl_vk m_pos m_pok m_kwo m_lunm m_runm]; rewrite ?A, ?B, ?C, ?D, ?F; auto 10.
  - destruct (forallb has_def (q :: u)); intros E; inversion E; auto.
Qed.

Lemma FI_unmatched s st st' : FI st -> KI st -> unmatched_kwo l r s st = Ok st' -> FI st'.
Proof.
  intros HF HK E. apply unmatched_kwo_cases in E. destruct E as [->|(A & B & C & _)]; [exact HF|].
  pose proof (unm_incl st s HK) as Hu.
  assert (Pn : pn st' = pn st) by (unfold pn, outs; rewrite A, B; reflexivity).
  assert (Pd : pd st' = pd st) by (unfold pd, outs; rewrite A, B; reflexivity).
  assert (Kn : forall y, In y (kn st') <-> In y (kn st) \/ In y (names_of (unm st s))).
  { intros y. unfold kn. rewrite C. apply names_od_update. }
  assert (W : forall y, In y (names_of (unm st s)) -> exists q, inab q /\ pname q = y /\ pkind q = KO).
  { intros y Hy. apply in_map_iff in Hy. destruct Hy as [q [Eq Hq]]. apply Hu in Hq. exists q.
    destruct s; cbn [my] in Hq; [destruct (in_kwo_l q Hq)|destruct (in_kwo_r q Hq)]; unfold inab; auto. }
  destruct HF. constructor; rewrite ?Pn, ?Pd; auto.
  - intros x Hx Hk. apply Kn in Hk. destruct Hk as [Hk|Hk]; [exact (f_dis0 x Hx Hk)|].
    destruct (W x Hk) as [q [Iq [Nq Kq]]]. destruct (PN_witness x (f_pn0 x Hx)) as [p [Ip [Np Kp]]].
    assert (X : pkind p = pkind q) by (apply cls_sep; congruence). rewrite Kq in X. destruct Kp; congruence.
  - intros x Hx. apply Kn in Hx. destruct Hx as [Hx|Hx]; [apply f_kn0; exact Hx|].
    apply in_map_iff in Hx. destruct Hx as [q [Eq Hq]]. apply Hu in Hq. unfold KN. apply in_or_app. right.
    apply in_or_app. destruct s; cbn [my] in Hq; [left|right]; rewrite <- Eq; apply in_map; exact Hq.
Qed.

Lemma K_unmatched s st st' : KI st -> unmatched_kwo l r s st = Ok st' -> KI st'.
Proof.
  intros HK E. pose proof (unm_incl st s HK) as Hu.
  apply unmatched_kwo_cases in E. destruct E as [->|(A & B & C & D & F)]; [exact HK|].
  unfold KI. rewrite A, B, C, D, F. destruct HK. constructor; auto.
  - apply od_update_P; [exact k_kwo0|]. apply Forall_forall. intros q Hq. apply Hu in Hq.
    destruct s; cbn [my] in Hq; [apply (in_kwo_l q Hq)|apply (in_kwo_r q Hq)].
  - apply nodup_od_update. exact k_nd0.
Qed.

(* ---- classification of positional-only-kinded parameters ---- *)
Lemma split_po_prefix_app a : forall b,
  Forall isPO a -> Forall isPK b -> split_po_prefix (a ++ b) = (a, b).
Proof.
  induction a as [|p a IH]; intros b Ha Hb; cbn [app].
  - apply split_po_prefix_pk. exact Hb.
  - cbn [split_po_prefix]. unfold is_kind, kind_eqb. rewrite (Forall_inv Ha). cbn.
    rewrite (IH b (Forall_inv_tail Ha) Hb). reflexivity.
Qed.

Lemma normalise_spec st : KI st ->
  Forall isPO (m_pos (normalise_pok st)) /\ Forall isPK (m_pok (normalise_pok st)) /\
  outs (normalise_pok st) = outs st /\ m_kwo (normalise_pok st) = m_kwo st.
Proof.
  intros []. destruct k_pok0 as [a [b [E [Ha Hb]]]]. unfold normalise_pok, outs.
  rewrite E, (split_po_prefix_app a b Ha Hb). cbn [m_pos m_pok m_kwo set_pos set_pok].
  repeat split; auto; [apply Forall_app; auto|rewrite app_assoc; reflexivity].
Qed.

(* ---- star parameters ---- *)
Lemma add_star_spec xl xr sl sr st o st' :
  add_star l r xl xr sl sr st = (o, st') ->
  m_pos st' = m_pos st /\ m_pok st' = m_pok st /\ m_kwo st' = m_kwo st /\
  forall v, o = Some v ->
    (exists a, sl = Some a /\ pname v = pname a /\ pkind v = pkind a) \/ sr = Some v.
Proof.
  unfold add_star. destruct sl as [a|], sr as [b|]; try (intros E; inversion E; subst; repeat split; auto; discriminate).
  destruct (negb xl && negb xr).
  - intros E. inversion E; subst. destruct (N.eqb (pname a) (pname b)); repeat split; auto;
      intros v Hv; inversion Hv; subst; left; exists a; auto.
  - destruct (negb xl); intros E; inversion E; subst; repeat split; auto; intros v Hv; inversion Hv; subst;
      first [left; exists v; auto | right; reflexivity].
Qed.

(* ---- assembling the final list ---- *)
Lemma ksorted_homog k ps : Forall (fun p => pkind p = k) ps -> ksorted ps.
Proof.
  induction 1 as [|p ps Hp Hps IH]; cbn [ksorted]; [exact I|]. split; [|exact IH].
  eapply Forall_impl; [|exact Hps]. cbv beta. intros q Hq. rewrite Hp, Hq. lia.
Qed.

Lemma ksorted_block k a b :
  Forall (fun p => pkind p = k) a -> ksorted b ->
  Forall (fun q => (kind_rank k <= kind_rank (pkind q))%nat) b -> ksorted (a ++ b).
Proof.
  intros Ha Hb Hab. apply ksorted_app. split; [eapply ksorted_homog; exact Ha|]. split; [exact Hb|].
  rewrite Forall_forall in Ha, Hab. intros p q Hp Hq. rewrite (Ha p Hp). apply Hab. exact Hq.
Qed.

Lemma opt_kind k o : (forall v : param, o = Some v -> pkind v = k) -> Forall (fun p => pkind p = k) (opt_list o).
Proof. intros H. destruct o as [v|]; cbn; [constructor; [apply H; reflexivity|constructor]|constructor]. Qed.

Lemma ksorted_blocks pos pok va kwo vk :
  Forall isPO pos -> Forall isPK pok -> (forall v, va = Some v -> pkind v = VP) ->
  Forall isKO kwo -> (forall v, vk = Some v -> pkind v = VK) ->
  ksorted (pos ++ pok ++ opt_list va ++ kwo ++ opt_list vk) /\
  Forall (fun q => is_positional q = false) (opt_list va ++ kwo ++ opt_list vk).
Proof.
  intros H1 H2 H3 H4 H5. apply opt_kind in H3. apply opt_kind in H5.
  assert (R5 : forall n, (n <= 4)%nat -> Forall (fun q => (n <= kind_rank (pkind q))%nat) (opt_list vk)).
  { intros n Hn. eapply Forall_impl; [|exact H5]. cbv beta. intros q ->. exact Hn. }
  assert (R4 : forall n, (n <= 3)%nat -> Forall (fun q => (n <= kind_rank (pkind q))%nat) (kwo ++ opt_list vk)).
  { intros n Hn. apply Forall_app. split; [|apply R5; lia]. eapply Forall_impl; [|exact H4]. cbv beta. unfold isKO. intros q ->. exact Hn. }
  assert (R3 : forall n, (n <= 2)%nat -> Forall (fun q => (n <= kind_rank (pkind q))%nat) (opt_list va ++ kwo ++ opt_list vk)).
  { intros n Hn. apply Forall_app. split; [|apply R4; lia]. eapply Forall_impl; [|exact H3]. cbv beta. intros q ->. exact Hn. }
  assert (R2 : forall n, (n <= 1)%nat -> Forall (fun q => (n <= kind_rank (pkind q))%nat) (pok ++ opt_list va ++ kwo ++ opt_list vk)).
  { intros n Hn. apply Forall_app. split; [|apply R3; lia]. eapply Forall_impl; [|exact H2]. cbv beta. unfold isPK. intros q ->. exact Hn. }
  split.
  - apply (ksorted_block PO); [exact H1| |apply R2; cbn; lia].
    apply (ksorted_block PK); [exact H2| |apply R3; cbn; lia].
    apply (ksorted_block VP); [exact H3| |apply R4; cbn; lia].
    apply (ksorted_block KO); [exact H4| |apply R5; cbn; lia].
    eapply ksorted_homog. exact H5.
  - eapply Forall_impl; [|apply (R3 2%nat); lia]. cbv beta. intros q Hq. unfold is_positional.
    destruct (pkind q); cbn in Hq; try reflexivity; lia.
Qed.

Lemma dsufb_dsuffix ps : dsufb (map has_def ps) -> dsuffix ps.
Proof.
  induction ps as [|p ps IH]; cbn [map dsufb dsuffix]; [auto|]. intros [H1 H2]. split; [|apply IH; exact H2].
  intros _ Hd. specialize (H1 Hd). apply Forall_forall. intros q Hq _.
  rewrite Forall_forall in H1. apply H1. apply in_map. exact Hq.
Qed.

Lemma NoDup_app_intro {A} (a b : list A) :
  NoDup a -> NoDup b -> (forall x, In x a -> ~ In x b) -> NoDup (a ++ b).
Proof.
  induction a as [|x a IH]; intros Ha Hb Hd; cbn [app]; [exact Hb|]. inversion Ha as [|? ? Hx Ha']; subst.
  constructor.
  - intros Hin. apply in_app_or in Hin. destruct Hin as [Hin|Hin]; [contradiction|]. apply (Hd x); [left; reflexivity|exact Hin].
  - apply IH; auto. intros y Hy. apply Hd. right. exact Hy.
Qed.

Lemma star_witness (k : kind) (sl sr o : option param) :
  (forall v, sl = Some v -> In v (flatten l) /\ pkind v = k) ->
  (forall v, sr = Some v -> In v (flatten r) /\ pkind v = k) ->
  (forall v, o = Some v -> (exists a, sl = Some a /\ pname v = pname a /\ pkind v = pkind a) \/ sr = Some v) ->
  forall v, o = Some v -> pkind v = k /\ exists w, inab w /\ pname w = pname v /\ pkind w = k.
Proof.
  intros Hl Hr Ho v Hv. destruct (Ho v Hv) as [[a [Ea [Na Ka]]]|Er].
  - destruct (Hl a Ea) as [Fa Kk]. split; [congruence|]. exists a. unfold inab. auto.
  - destruct (Hr v Er) as [Fv Kk]. split; [exact Kk|]. exists v. unfold inab. auto.
Qed.

Lemma in_va_l v : varargs l = Some v -> In v (flatten l) /\ pkind v = VP.
Proof.
  intros E. destruct HKl as (_ & _ & H3 & _). split; [|apply H3; exact E]. unfold flatten. rewrite E.
  do 2 (apply in_or_app; right). apply in_or_app. left. left. reflexivity.
Qed.
Lemma in_va_r v : varargs r = Some v -> In v (flatten r) /\ pkind v = VP.
Proof.
  intros E. destruct HKr as (_ & _ & H3 & _). split; [|apply H3; exact E]. unfold flatten. rewrite E.
  do 2 (apply in_or_app; right). apply in_or_app. left. left. reflexivity.
Qed.
Lemma in_vk_l v : varkwargs l = Some v -> In v (flatten l) /\ pkind v = VK.
Proof.
  intros E. destruct HKl as (_ & _ & _ & _ & H5). split; [|apply H5; exact E]. unfold flatten. rewrite E.
  do 4 (apply in_or_app; right). left. reflexivity.
Qed.
Lemma in_vk_r v : varkwargs r = Some v -> In v (flatten r) /\ pkind v = VK.
Proof.
  intros E. destruct HKr as (_ & _ & _ & _ & H5). split; [|apply H5; exact E]. unfold flatten. rewrite E.
  do 4 (apply in_or_app; right). left. reflexivity.
Qed.

(* the assembled list is what the constructor accepts *)
Theorem merger_rc_valid res : merger l r = Ok res -> validate (flatten res) = true.
Proof.
  unfold merger. fold st0. fold st2. intros E.
  apply bind_ok in E. destruct E as [[[st3 il] ir] [E3 E]].
  apply bind_ok in E. destruct E as [st4 [E4 E]].
  apply bind_ok in E. destruct E as [st5 [E5 E]].
  apply bind_ok in E. destruct E as [st6 [E6 E]].
  destruct (add_star l r (m_xva_l (normalise_pok st6)) (m_xva_r (normalise_pok st6)) (varargs l) (varargs r)
                     (normalise_pok st6)) as [va st8] eqn:E8.
  destruct (add_star l r (m_xvk_l st8) (m_xvk_r st8) (varkwargs l) (varkwargs r) st8) as [vk st9] eqn:E9.
  inversion E; subst res; clear E.
  (* the two invariants through the stages *)
  destruct AI_st2 as [A2 P2]. pose proof KI_st2 as K2.
  destruct HKl as (L1 & L2 & _). destruct HKr as (R1 & R2 & _).
  destruct (W_zip_pos (posargs l) (posargs r) (pokargs l) (pokargs r) st2 st3 il ir P2 A2 E3) as [A3 P3].
  destruct (K_zip_pos (posargs l) (posargs r) (pokargs l) (pokargs r) st2 st3 il ir K2 L1 R1 E3) as (K3 & Il & Ir).
  assert (Hil : Forall isPK il) by (apply Forall_forall; intros q Hq; rewrite Forall_forall in L2; apply L2, Il, Hq).
  assert (Hir : Forall isPK ir) by (apply Forall_forall; intros q Hq; rewrite Forall_forall in R2; apply R2, Ir, Hq).
  pose proof (W_zip_pok il ir st3 st4 A3 E4) as A4. pose proof (K_zip_pok il ir st3 st4 K3 Hil Hir E4) as K4.
  pose proof (FI_of_AI st4 A4) as F4.
  pose proof (FI_unmatched L st4 st5 F4 K4 E5) as F5. pose proof (K_unmatched L st4 st5 K4 E5) as K5.
  pose proof (FI_unmatched R st5 st6 F5 K5 E6) as F6. pose proof (K_unmatched R st5 st6 K5 E6) as K6.
  destruct (normalise_spec st6 K6) as (N1 & N2 & N3 & N4).
  destruct (add_star_spec _ _ _ _ _ _ _ E8) as (S1 & S2 & S3 & S4).
  destruct (add_star_spec _ _ _ _ _ _ _ E9) as (T1 & T2 & T3 & T4).
  pose proof (star_witness VP _ _ _ in_va_l in_va_r S4) as Wva.
  pose proof (star_witness VK _ _ _ in_vk_l in_vk_r T4) as Wvk.
  unfold flatten. cbn [posargs pokargs varargs kwoargs varkwargs].
  rewrite T1, T2, T3, S1, S2, S3, N4.
  destruct K6 as [_ _ Kkwo Knd _ _]. destruct F6 as [Fnd Fdis Fpn Fkn Fds].
  destruct (ksorted_blocks (m_pos (normalise_pok st6)) (m_pok (normalise_pok st6)) va (m_kwo st6) vk N1 N2
              (fun v Hv => proj1 (Wva v Hv)) Kkwo (fun v Hv => proj1 (Wvk v Hv))) as [KS NP].
  apply validate_spec. split; [exact KS|]. split.
  - (* defaults *)
    rewrite app_assoc. apply dsuffix_app. destruct (dsuffix_nonpos _ NP) as [D1 D2].
    split; [|split; [exact D1|intros _; exact D2]].
    apply dsufb_dsuffix. fold (outs (normalise_pok st6)). rewrite N3. exact Fds.
  - (* names *)
    rewrite app_assoc. unfold names_of. rewrite map_app. fold (outs (normalise_pok st6)). rewrite N3.
    fold (names_of (outs st6)). fold (pn st6).
    assert (Va : forall v, va = Some v -> ~ In (pname v) (pn st6) /\ ~ In (pname v) (kn st6)).
    { intros v Hv. destruct (Wva v Hv) as [_ [w [Iw [Nw Kw]]]]. split; intros Hin.
      - destruct (PN_witness _ (Fpn _ Hin)) as [p [Ip [Np Kp]]].
        assert (X : pkind p = pkind w) by (apply cls_sep; congruence). rewrite Kw in X. destruct Kp; congruence.
      - destruct (KN_witness _ (Fkn _ Hin)) as [p [Ip [Np Kp]]].
        assert (X : pkind p = pkind w) by (apply cls_sep; congruence). rewrite Kw in X. destruct Kp as [Kp|[Kp|Kp]]; congruence. }
    assert (Vk : forall v, vk = Some v -> ~ In (pname v) (pn st6) /\ ~ In (pname v) (kn st6)).
    { intros v Hv. destruct (Wvk v Hv) as [_ [w [Iw [Nw Kw]]]]. split; intros Hin.
      - destruct (PN_witness _ (Fpn _ Hin)) as [p [Ip [Np Kp]]].
        assert (X : pkind p = pkind w) by (apply cls_sep; congruence). rewrite Kw in X. destruct Kp; congruence.
      - destruct (KN_witness _ (Fkn _ Hin)) as [p [Ip [Np Kp]]].
        assert (X : pkind p = pkind w) by (apply cls_sep; congruence). rewrite Kw in X. destruct Kp as [Kp|[Kp|Kp]]; congruence. }
    assert (Vak : forall v w, va = Some v -> vk = Some w -> pname v <> pname w).
    { intros v w Hv Hw E. destruct (Wva v Hv) as [_ [a [Ia [Na Ka]]]]. destruct (Wvk w Hw) as [_ [b [Ib [Nb Kb]]]].
      assert (X : pkind a = pkind b) by (apply cls_sep; congruence). congruence. }
    rewrite !map_app. fold (names_of (m_kwo st6)). fold (kn st6).
    apply NoDup_app_intro; [exact Fnd| |].
    + apply NoDup_app_intro.
      * destruct va; cbn; repeat constructor. intros [].
      * apply NoDup_app_intro; [exact Knd|destruct vk; cbn; repeat constructor; intros []|].
        intros x Hx Hin. destruct vk as [w|]; [|destruct Hin]. destruct Hin as [<-|[]]. exact (proj2 (Vk w eq_refl) Hx).
      * intros x Hx Hin. destruct va as [v|]; [|destruct Hx]. destruct Hx as [<-|[]].
        apply in_app_or in Hin. destruct Hin as [Hin|Hin]; [exact (proj2 (Va v eq_refl) Hin)|].
        destruct vk as [w|]; [|destruct Hin]. destruct Hin as [Hin|[]]. exact (Vak v w eq_refl eq_refl (eq_sym Hin)).
    + intros x Hx Hin. apply in_app_or in Hin. destruct Hin as [Hin|Hin].
      * destruct va as [v|]; [|destruct Hin]. destruct Hin as [<-|[]]. exact (proj1 (Va v eq_refl) Hx).
      * apply in_app_or in Hin. destruct Hin as [Hin|Hin]; [exact (Fdis x Hx Hin)|].
        destruct vk as [w|]; [|destruct Hin]. destruct Hin as [<-|[]]. exact (proj1 (Vk w eq_refl) Hx).
Qed.
End Walk.

(* ================================================================== *)
(* 4. from validity and role consistency of the inputs                 *)

Lemma kind_eqb_eq a b : kind_eqb a b = true -> a = b.
Proof. destruct a, b; cbn; congruence. Qed.

Lemma role_aux_in ps : forall idx p,
  NoDup (names_of ps) -> In p ps -> exists i, role_aux ps idx (pname p) = Some (pkind p, i).
Proof.
  induction ps as [|x ps IH]; intros idx p Hn Hp; [destruct Hp|].
  cbn [names_of map] in Hn. inversion Hn as [|? ? Hx Hn']; subst. cbn [role_aux].
  destruct Hp as [->|Hp]; [rewrite N.eqb_refl; eauto|].
  destruct (N.eqb_spec (pname p) (pname x)) as [E|_]; [|apply IH; assumption].
  exfalso. apply Hx. rewrite <- E. apply in_map. exact Hp.
Qed.

Lemma role_aux_pos ps : forall idx i p,
  NoDup (names_of ps) -> nth_error (positional ps) i = Some p ->
  role_aux ps idx (pname p) = Some (pkind p, (idx + i)%nat).
Proof.
  induction ps as [|x ps IH]; intros idx i p Hn Hp; [destruct i; discriminate|].
  cbn [names_of map] in Hn. inversion Hn as [|? ? Hx Hn']; subst.
  unfold positional in Hp. cbn [filter] in Hp. fold (positional ps) in Hp. cbn [role_aux].
  assert (Hne : forall k q, nth_error (positional ps) k = Some q -> N.eqb (pname q) (pname x) = false).
  { intros k q Hq. apply N.eqb_neq. intros E. apply Hx. rewrite <- E. apply in_map.
    apply nth_error_In in Hq. unfold positional in Hq. apply filter_In in Hq. tauto. }
  destruct (is_positional x) eqn:Px.
  - destruct i as [|i]; cbn [nth_error] in Hp.
    + inversion Hp; subst. rewrite N.eqb_refl, Nat.add_0_r. reflexivity.
    + rewrite (Hne i p Hp). rewrite (IH (S idx) i p Hn' Hp). f_equal. f_equal. lia.
  - rewrite (Hne i p Hp). apply IH; assumption.
Qed.

Lemma roles_agree_spec a b x ra rb :
  roles_agree a b = true -> In x (names_of a) -> role a x = Some ra -> role b x = Some rb ->
  fst ra = fst rb /\ snd ra = snd rb.
Proof.
  unfold roles_agree. intros H Hx Ea Eb. rewrite forallb_forall in H.
  apply in_map_iff in Hx. destruct Hx as [p [E Hp]]. specialize (H p Hp). rewrite E, Ea, Eb in H.
  unfold role_eqb in H. apply andb_true_iff in H. destruct H as [H1 H2].
  split; [apply kind_eqb_eq; exact H1|apply Nat.eqb_eq; exact H2].
Qed.

Lemma positional_flatten so : kinds_ok so -> positional (flatten so) = posargs so ++ pokargs so.
Proof.
  intros (H1 & H2 & H3 & H4 & H5). unfold flatten. rewrite app_assoc, positional_app.
  rewrite positional_all, positional_none; [apply app_nil_r| |].
  - intros p Hp. unfold is_positional. apply in_app_or in Hp. destruct Hp as [Hp|Hp].
    + destruct (varargs so) as [v|] eqn:E; [|destruct Hp]. destruct Hp as [<-|[]]. rewrite (H3 v eq_refl). reflexivity.
    + apply in_app_or in Hp. rewrite Forall_forall in H4. destruct Hp as [Hp|Hp]; [rewrite (H4 p Hp); reflexivity|].
      destruct (varkwargs so) as [v|] eqn:E; [|destruct Hp]. destruct Hp as [<-|[]]. rewrite (H5 v eq_refl). reflexivity.
  - intros p Hp. unfold is_positional. rewrite Forall_forall in H1, H2. apply in_app_or in Hp.
    destruct Hp as [Hp|Hp]; [rewrite (H1 p Hp)|rewrite (H2 p Hp)]; reflexivity.
Qed.

Lemma dsuffix_dsuf ps : (forall p, In p ps -> is_positional p = true) -> dsuffix ps -> dsuf ps.
Proof.
  induction ps as [|p ps IH]; intros Hp; cbn [dsuffix dsuf]; [auto|]. intros [H1 H2]. split.
  - intros Hd. specialize (H1 (Hp p (or_introl eq_refl)) Hd). apply Forall_forall. intros q Hq.
    rewrite Forall_forall in H1. apply (H1 q Hq). apply Hp. right. exact Hq.
  - apply IH; [|exact H2]. intros q Hq. apply Hp. right. exact Hq.
Qed.

Lemma dsuf_of_valid s : valid_sig (params s) = true ->
  dsuf (posargs (sort_params s) ++ pokargs (sort_params s)).
Proof.
  intros Hv. pose proof (sort_flatten_roundtrip s Hv) as Hf. pose proof (sort_params_kinds s) as HK.
  destruct (valid_sig_parts _ Hv) as (Hval & _). apply validate_spec in Hval. destruct Hval as (_ & D & _).
  rewrite <- Hf in D. unfold flatten in D. rewrite app_assoc in D. apply dsuffix_app in D. destruct D as [D _].
  apply dsuffix_dsuf; [|exact D]. destruct HK as (H1 & H2 & _). rewrite Forall_forall in H1, H2.
  intros p Hp. unfold is_positional. apply in_app_or in Hp. destruct Hp as [Hp|Hp]; [rewrite (H1 p Hp)|rewrite (H2 p Hp)]; reflexivity.
Qed.

(* the merger never produces a list the constructor refuses (binary step, the
   left names only have to agree with the right ones: [roles_agree a b]) *)
Theorem merger_valid_of_roles a b acc :
  valid_sig (params a) = true -> valid_sig (params b) = true ->
  roles_agree (params a) (params b) = true ->
  merger (sort_params a) (sort_params b) = Ok acc -> validate (flatten acc) = true.
Proof.
  intros Va Vb Hr.
  pose proof (sort_flatten_roundtrip a Va) as Fa. pose proof (sort_flatten_roundtrip b Vb) as Fb.
  pose proof (sort_params_kinds a) as Ka. pose proof (sort_params_kinds b) as Kb.
  pose proof (validate_nodup _ (proj1 (valid_sig_parts _ Va))) as Na.
  pose proof (validate_nodup _ (proj1 (valid_sig_parts _ Vb))) as Nb.
  apply merger_rc_valid; auto.
  - rewrite Fa. exact Na.
  - rewrite Fb. exact Nb.
  - rewrite Fa, Fb. intros p q Hp Hq E.
    destruct (role_aux_in (params a) 0 p Na Hp) as [i Ei]. destruct (role_aux_in (params b) 0 q Nb Hq) as [j Ej].
    rewrite <- E in Ej.
    destruct (roles_agree_spec _ _ (pname p) _ _ Hr (in_map pname _ _ Hp) Ei Ej) as [X _]. exact X.
  - rewrite <- (positional_flatten _ Ka), <- (positional_flatten _ Kb), Fa, Fb.
    intros i j p q Hp Hq E.
    pose proof (role_aux_pos (params a) 0 i p Na Hp) as Ei. pose proof (role_aux_pos (params b) 0 j q Nb Hq) as Ej.
    rewrite <- E in Ej.
    assert (Hin : In (pname p) (names_of (params a))).
    { apply in_map. apply nth_error_In in Hp. unfold positional in Hp. apply filter_In in Hp. tauto. }
    destruct (roles_agree_spec _ _ (pname p) _ _ Hr Hin Ei Ej) as [_ X]. exact X.
  - apply dsuf_of_valid. exact Va.
  - apply dsuf_of_valid. exact Vb.
Qed.

Lemma rc_pair_agree a b : role_consistent [a; b] = true -> roles_agree a b = true.
Proof.
  cbn [role_consistent forallb]. intros H. apply andb_true_iff in H. destruct H as [H _].
  apply andb_true_iff in H. destruct H as [H _]. apply andb_true_iff in H. tauto.
Qed.

(* ---- C15_rc_valid ---- *)
Theorem merge_rc_valid a b :
  valid_sig (params a) = true -> valid_sig (params b) = true ->
  role_consistent [params a; params b] = true ->
  merge [a; b] <> Err ValueErr.
Proof.
  intros Va Vb Hr E. apply merge_value_error_only_from_validation in E. destruct E as [acc [E V]].
  cbn [merge_steps] in E. apply bind_ok in E. destruct E as [acc' [E1 E2]]. inversion E2; subst acc'.
  apply to_incompatible_ok in E1.
  rewrite (merger_valid_of_roles a b acc Va Vb (rc_pair_agree _ _ Hr) E1) in V. discriminate.
Qed.

(* the only failure is IncompatibleSignatures *)
Theorem merge_rc_only_incompatible a b e :
  valid_sig (params a) = true -> valid_sig (params b) = true ->
  role_consistent [params a; params b] = true ->
  merge [a; b] = Err e -> e = Incompatible.
Proof.
  intros Va Vb Hr E. pose proof (merge_only_value_errors a [b]) as B. rewrite E in B.
  destruct e as [| |t]; [reflexivity| |destruct B]. exfalso. exact (merge_rc_valid a b Va Vb Hr E).
Qed.

(* merge succeeds exactly when the merger stages succeed, and returns their result *)
Theorem merge_rc_ok_iff_merger a b :
  valid_sig (params a) = true -> valid_sig (params b) = true ->
  role_consistent [params a; params b] = true ->
  match merger (sort_params a) (sort_params b) with
  | Ok acc => merge [a; b] = Ok (mkSig (flatten acc) (ret a) (uret a) (ssrc acc) (sdep acc))
  | Err _ => merge [a; b] = Err Incompatible
  end.
Proof.
  intros Va Vb Hr. pose proof (merger_benign (sort_params a) (sort_params b)) as B.
  cbn [merge merge_steps]. destruct (merger (sort_params a) (sort_params b)) as [acc|e] eqn:E.
  - cbn [to_incompatible bind]. unfold apply_params.
    rewrite (merger_valid_of_roles a b acc Va Vb (rc_pair_agree _ _ Hr) E). reflexivity.
  - destruct e as [| |t]; cbn in *; [reflexivity|reflexivity|destruct B].
Qed.

(* ---- role consistency cannot be dropped: valid inputs, plain ValueError from
   the final constructor: merge((a, /, **kwargs), ( *args, a)) would have two parameters a ---- *)
Theorem merge_valid_without_rc_refuted :
  exists a b, valid_sig (params a) = true /\ valid_sig (params b) = true /\
              role_consistent [params a; params b] = false /\ merge [a; b] = Err ValueErr.
Proof.
  exists (mkSig [mkParam 1 PO None None UEmpty; mkParam 10 VK None None UEmpty] None UEmpty [] []),
         (mkSig [mkParam 9 VP None None UEmpty; mkParam 1 KO None None UEmpty] None UEmpty [] []).
  repeat split; vm_compute; reflexivity.
Qed.

(* the hypotheses are satisfiable on non-trivial inputs: a success and an
   IncompatibleSignatures case (names a=1 b=2 c=3 d=4 args=9 kwargs=10) *)
Example rc_valid_example :
  let a := mkSig [mkParam 1 PO None None UEmpty; mkParam 2 PK (Some 1) None UEmpty;
                  mkParam 9 VP None None UEmpty; mkParam 3 KO None None UEmpty] None UEmpty [] [] in
  let b := mkSig [mkParam 1 PO None None UEmpty; mkParam 2 PK None None UEmpty; mkParam 4 PK (Some 1) None UEmpty;
                  mkParam 10 VK None None UEmpty] None UEmpty [] [] in
  let c := mkSig [mkParam 1 PO None None UEmpty; mkParam 4 KO None None UEmpty] None UEmpty [] [] in
  valid_sig (params a) = true /\ valid_sig (params b) = true /\ valid_sig (params c) = true /\
  role_consistent [params a; params b] = true /\ role_consistent [params a; params c] = true /\
  (exists r, merge [a; b] = Ok r /\ length (params r) = 4%nat) /\ merge [a; c] = Err Incompatible.
Proof. cbv zeta. repeat split; try (vm_compute; reflexivity). eexists. split; vm_compute; reflexivity. Qed.

Print Assumptions merger_rc_valid.
Print Assumptions merger_valid_of_roles.
Print Assumptions merge_rc_valid.
Print Assumptions merge_rc_only_incompatible.
Print Assumptions merge_rc_ok_iff_merger.
Print Assumptions merge_valid_without_rc_refuted.
Print Assumptions rc_valid_example.
