(* RcValid.v -- C15_rc_valid: for valid, role-consistent inputs the binary merge
   never fails in the final validating constructor.  The only failure is
   IncompatibleSignatures raised by a stage of the merger.

   Structure: an invariant on the merger state, stated on three projections
   (names of the positional output, optionality of the positional output, names of
   the keyword-only output) and the not-yet-consumed positional parameters of both
   sides, is walked through every stage of [merger]; a second, simpler invariant
   carries the kinds.  The final list is then valid by [validate_spec]. *)
From Sigtools.Model Require Import Base Bind Roles Algebra.
From Sigtools.Proofs Require Import SmallModel Basics MaskLaws MaskExact MergeNeutral Annot ValidateSpec.
From Coq Require Import Lia.

(* ================================================================== *)
(* 1. positional agreement and optional suffixes                       *)

(* a name shared by the two lists sits at the same index in both *)
Definition pos_agree (ra rb : list param) : Prop :=
  forall i j p q, nth_error ra i = Some p -> nth_error rb j = Some q -> pname p = pname q -> i = j.

Lemma pos_agree_sym ra rb : pos_agree ra rb -> pos_agree rb ra.
Proof. intros H i j p q Hp Hq E. symmetry. eapply H; eauto. Qed.

Lemma pos_agree_tail a ra b rb : pos_agree (a :: ra) (b :: rb) -> pos_agree ra rb.
Proof. intros H i j p q Hp Hq E. assert (S i = S j) by (eapply H; eauto). lia. Qed.

Lemma pos_agree_head a ra b rb : pos_agree (a :: ra) (b :: rb) -> ~ In (pname a) (names_of rb).
Proof.
  intros H Hin. apply in_map_iff in Hin. destruct Hin as [q [E Hq]].
  apply In_nth_error in Hq. destruct Hq as [j Hj].
  assert (0 = S j)%nat by (eapply (H 0%nat (S j) a q); [reflexivity|exact Hj|symmetry; exact E]). lia.
Qed.

Lemma pos_agree_nil_r ra : pos_agree ra [].
Proof. intros i j p q _ Hq. destruct j; discriminate. Qed.

Lemma pos_agree_nil_l rb : pos_agree [] rb.
Proof. intros i j p q Hp. destruct i; discriminate. Qed.

(* optional parameters form a suffix *)
Definition isopt (p : param) : Prop := has_def p = true.

Fixpoint dsuf (ps : list param) : Prop :=
  match ps with
  | [] => True
  | p :: ps' => (has_def p = true -> Forall isopt ps') /\ dsuf ps'
  end.

Fixpoint dsufb (bs : list bool) : Prop :=
  match bs with
  | [] => True
  | b :: bs' => (b = true -> Forall (fun c => c = true) bs') /\ dsufb bs'
  end.

Lemma dsufb_snoc bs b : dsufb bs -> (In true bs -> b = true) -> dsufb (bs ++ [b]).
Proof.
  induction bs as [|c bs IH]; intros H Hb; cbn [app dsufb].
  - split; [intros _; constructor|exact I].
  - destruct H as [H1 H2]. split.
    + intros ->. apply Forall_app. split; [apply H1; reflexivity|]. constructor; [|constructor].
      apply Hb. left. reflexivity.
    + apply IH; [exact H2|]. intros Hin. apply Hb. right. exact Hin.
Qed.

Lemma NoDup_app_snoc {A} (l : list A) x : NoDup l -> ~ In x l -> NoDup (l ++ [x]).
Proof.
  induction l as [|y l IH]; intros Hn Hx; cbn [app]; [constructor; [intros []|constructor]|].
  inversion Hn as [|? ? Hy Hn']; subst. constructor.
  - intros Hin. apply in_app_or in Hin. destruct Hin as [Hin|[<-|[]]]; [contradiction|]. apply Hx. left. reflexivity.
  - apply IH; [exact Hn'|]. intros Hin. apply Hx. right. exact Hin.
Qed.

(* ================================================================== *)
(* 2. the abstract invariant                                           *)

Section Abstract.
(* PA / PB: all positional parameters of the two sides; KN: every name a
   keyword-only output may carry *)
Variables (PA PB : list param) (KN : list name).
Hypothesis PN_KN : incl (names_of (PA ++ PB)) KN.

Record AInv (on : list name) (od : list bool) (kn : list name) (ra rb : list param) : Prop := {
  a_nd : NoDup on;
  a_rem : forall x, In x on \/ In x kn -> ~ In x (names_of ra) /\ ~ In x (names_of rb);
  a_dis : forall x, In x on -> ~ In x kn;
  a_pn : incl on (names_of (PA ++ PB));
  a_kn : incl kn KN;
  a_agree : pos_agree ra rb;
  a_ndl : NoDup (names_of ra);
  a_ndr : NoDup (names_of rb);
  a_inl : incl ra PA;
  a_inr : incl rb PB;
  a_ds : dsufb od;
  a_opt : In true od -> Forall isopt ra /\ Forall isopt rb;
  a_dl : dsuf ra;
  a_dr : dsuf rb
}.

Lemma incl_app_comm_names : incl (names_of (PB ++ PA)) (names_of (PA ++ PB)).
Proof.
  intros x Hx. unfold names_of in *. rewrite map_app in *. apply in_app_or in Hx. apply in_or_app. tauto.
Qed.

(* one output parameter named after the head of the left list, both heads consumed *)
Lemma step_pair on od kn a ra b rb on' od' :
  AInv on od kn (a :: ra) (b :: rb) ->
  on' = on ++ [pname a] -> od' = od ++ [has_def a && has_def b] ->
  AInv on' od' kn ra rb.
Proof.
  intros H -> ->. destruct H.
  assert (Fa : ~ In (pname a) on).
  { intros Hin. destruct (a_rem0 _ (or_introl Hin)) as [X _]. apply X. left. reflexivity. }
  assert (Fk : ~ In (pname a) kn).
  { intros Hin. destruct (a_rem0 _ (or_intror Hin)) as [X _]. apply X. left. reflexivity. }
  cbn [names_of map] in a_ndl0, a_ndr0. inversion a_ndl0 as [|? ? Na Nl]; subst. inversion a_ndr0 as [|? ? Nb Nr]; subst.
  constructor; auto.
  - apply NoDup_app_snoc; assumption.
  - intros x [Hx|Hx].
    + apply in_app_or in Hx. destruct Hx as [Hx|[<-|[]]].
      * destruct (a_rem0 _ (or_introl Hx)) as [X Y]. split; intros Z; [apply X|apply Y]; right; exact Z.
      * split; [exact Na|]. eapply pos_agree_head. exact a_agree0.
    + destruct (a_rem0 _ (or_intror Hx)) as [X Y]. split; intros Z; [apply X|apply Y]; right; exact Z.
  - intros x Hx. apply in_app_or in Hx. destruct Hx as [Hx|[<-|[]]]; [apply a_dis0; exact Hx|exact Fk].
  - intros x Hx. apply in_app_or in Hx. destruct Hx as [Hx|[<-|[]]]; [apply a_pn0; exact Hx|].
    unfold names_of. rewrite map_app. apply in_or_app. left. apply in_map. apply a_inl0. left. reflexivity.
  - eapply pos_agree_tail. exact a_agree0.
  - intros x Hx. apply a_inl0. right. exact Hx.
  - intros x Hx. apply a_inr0. right. exact Hx.
  - apply dsufb_snoc; [exact a_ds0|]. intros Hin. destruct (a_opt0 Hin) as [X Y].
    pose proof (Forall_inv X) as X1. pose proof (Forall_inv Y) as Y1. unfold isopt in X1, Y1. rewrite X1, Y1. reflexivity.
  - intros Hin. apply in_app_or in Hin. destruct Hin as [Hin|[Hin|[]]].
    + destruct (a_opt0 Hin) as [X Y]. split; [exact (Forall_inv_tail X)|exact (Forall_inv_tail Y)].
    + symmetry in Hin. apply andb_true_iff in Hin. destruct Hin as [Ha Hb].
      cbn [dsuf] in a_dl0, a_dr0. split; [apply a_dl0; exact Ha|apply a_dr0; exact Hb].
  - cbn [dsuf] in a_dl0. tauto.
  - cbn [dsuf] in a_dr0. tauto.
Qed.

Lemma AInv_drop on od kn a ra : AInv on od kn (a :: ra) [] -> AInv on od kn ra [].
Proof.
  intros H. destruct H. cbn [names_of map] in a_ndl0. inversion a_ndl0; subst.
  constructor; auto.
  - intros x Hx. destruct (a_rem0 x Hx) as [X Y]. split; [|exact Y]. intros Z. apply X. right. exact Z.
  - apply pos_agree_nil_r.
  - intros x Hx. apply a_inl0. right. exact Hx.
  - intros Hin. destruct (a_opt0 Hin) as [X Y]. split; [exact (Forall_inv_tail X)|exact Y].
  - cbn [dsuf] in a_dl0. tauto.
Qed.

(* the head of the left list is kept alone (the right side is exhausted) *)
Lemma step_keep on od kn a ra on' od' :
  AInv on od kn (a :: ra) [] ->
  on' = on ++ [pname a] -> od' = od ++ [has_def a] ->
  AInv on' od' kn ra [].
Proof.
  intros H E1 E2.
  (* reuse step_pair with a copy of the head on the right *)
  pose proof (AInv_drop _ _ _ _ _ H) as HD. destruct H, HD.
  assert (Fa : ~ In (pname a) on).
  { intros Hin. destruct (a_rem0 _ (or_introl Hin)) as [X _]. apply X. left. reflexivity. }
  assert (Fk : ~ In (pname a) kn).
  { intros Hin. destruct (a_rem0 _ (or_intror Hin)) as [X _]. apply X. left. reflexivity. }
  cbn [names_of map] in a_ndl0. inversion a_ndl0 as [|? ? Na Nl]; subst.
  constructor; auto.
  - apply NoDup_app_snoc; assumption.
  - intros x [Hx|Hx].
    + apply in_app_or in Hx. destruct Hx as [Hx|[<-|[]]].
      * apply a_rem1. left. exact Hx.
      * split; [exact Na|intros []].
    + apply a_rem1. right. exact Hx.
  - intros x Hx. apply in_app_or in Hx. destruct Hx as [Hx|[<-|[]]]; [apply a_dis0; exact Hx|exact Fk].
  - intros x Hx. apply in_app_or in Hx. destruct Hx as [Hx|[<-|[]]]; [apply a_pn0; exact Hx|].
    unfold names_of. rewrite map_app. apply in_or_app. left. apply in_map. apply a_inl0. left. reflexivity.
  - apply dsufb_snoc; [exact a_ds0|]. intros Hin. destruct (a_opt0 Hin) as [X Y]. exact (Forall_inv X).
  - intros Hin. apply in_app_or in Hin. destruct Hin as [Hin|[Hin|[]]].
    + apply a_opt1. exact Hin.
    + split; [|constructor]. cbn [dsuf] in a_dl0. apply a_dl0. symmetry. exact Hin.
Qed.

(* the head of the left list becomes a keyword-only output *)
Lemma step_conv on od kn kn' a ra :
  AInv on od kn (a :: ra) [] ->
  (forall y, In y kn' <-> In y kn \/ y = pname a) ->
  AInv on od kn' ra [].
Proof.
  intros H Hk. pose proof (AInv_drop _ _ _ _ _ H) as HD. destruct H, HD.
  cbn [names_of map] in a_ndl0. inversion a_ndl0 as [|? ? Na Nl]; subst.
  constructor; auto.
  - intros x [Hx|Hx]; [apply a_rem1; left; exact Hx|]. apply Hk in Hx. destruct Hx as [Hx| ->].
    + apply a_rem1. right. exact Hx.
    + split; [exact Na|intros []].
  - intros x Hx Hx'. apply Hk in Hx'. destruct Hx' as [Hx'| ->]; [exact (a_dis0 _ Hx Hx')|].
    destruct (a_rem0 _ (or_introl Hx)) as [X _]. apply X. left. reflexivity.
  - intros x Hx. apply Hk in Hx. destruct Hx as [Hx| ->]; [apply a_kn0; exact Hx|].
    apply PN_KN. unfold names_of. rewrite map_app. apply in_or_app. left. apply in_map. apply a_inl0. left. reflexivity.
Qed.
End Abstract.
