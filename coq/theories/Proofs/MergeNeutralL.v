(* MergeNeutralL.v -- C09: a bare star-args / star-kwargs signature on the LEFT
   of merge, for ALL valid signatures.

   What holds exactly (theorem [merge_left_neutral]):
     merge [( *nva, **nvk ); s]  builds the parameter list  [lneutral nva nvk (params s)]
   and hands it to the validating constructor, where [lneutral] is [params s] with
     - the star-args parameter of s renamed to nva  unless s has a positional-only parameter,
     - the star-kwargs parameter of s renamed to nvk unless s has a keyword-only parameter
   (everything else -- order, kinds, defaults, annotations -- literally unchanged).
   So the parameters are equal "up to the names of the star parameters", and which
   name survives depends on the presence of positional-only / keyword-only parameters.

   Consequences proved below:
     - [merge_left_neutral_fresh]  star names foreign to s: Ok, parameters = lneutral;
     - [merge_left_neutral_same]   s calls its stars nva / nvk (or has none): parameters
                                   literally equal to those of s;
     - [merge_left_neutral_refuted] without a side condition on the star NAMES the law is
       false: merge [( *a, **k ); (a, *args)] is a plain ValueError (duplicate name a) raised by
       the final constructor, although both inputs are valid.  (On the right the bare
       signature's names are dropped, so C09_neutral_right needs no such condition.) *)
From Sigtools.Model Require Import Base Bind Roles Algebra.
From Sigtools.Proofs Require Import SmallModel Basics MaskLaws MaskExact MergeNeutral ValidateSpec.
From Coq Require Import Lia.

Definition rename (x : name) (p : param) : param :=
  mkParam x (pkind p) (pdef p) (pann p) (puann p).

Definition lneutral (nva nvk : name) (ps : list param) : list param :=
  map (fun p => match pkind p with
                | VP => if has_kind PO ps then p else rename nva p
                | VK => if has_kind KO ps then p else rename nvk p
                | _ => p
                end) ps.

Definition starsig (nva nvk : name) (sl : srcmap) (dl : depths) : sigT :=
  mkSig [mkParam nva VP None None UEmpty; mkParam nvk VK None None UEmpty] None UEmpty sl dl.

(* the part of the merger state the parameters depend on (both exclusion slots) *)
Definition shpL (st : mstate) :=
  (m_pos st, m_pok st, m_kwo st, (m_xva_l st, m_xva_r st), (m_xvk_l st, m_xvk_r st),
   m_lunm st, m_runm st).

Lemma shpL_inv st a b c d d' e e' f g :
  shpL st = (a, b, c, (d, d'), (e, e'), f, g) ->
  m_pos st = a /\ m_pok st = b /\ m_kwo st = c /\ m_xva_l st = d /\ m_xva_r st = d' /\
  m_xvk_l st = e /\ m_xvk_r st = e' /\ m_lunm st = f /\ m_runm st = g.
Proof. unfold shpL. intros H. injection H. intros. repeat split; assumption. Qed.

Lemma shpL_intro st a b c d d' e e' f g :
  m_pos st = a -> m_pok st = b -> m_kwo st = c -> m_xva_l st = d -> m_xva_r st = d' ->
  m_xvk_l st = e -> m_xvk_r st = e' -> m_lunm st = f -> m_runm st = g ->
  shpL st = (a, b, c, (d, d'), (e, e'), f, g).
Proof. unfold shpL. intros -> -> -> -> -> -> -> -> ->. reflexivity. Qed.

Section Left.
Variables (r : sorted) (va vk : param) (sl : srcmap) (dl : depths).
Let l := starsS va vk sl dl.

(* the left operand has no keyword-only parameter: every one of r's is unmatched *)
Lemma r_unmatched_left : r_unmatched l r = kwoargs r.
Proof.
  unfold r_unmatched. unfold l. cbn [starsS kwoargs find_param isSome negb].
  induction (kwoargs r) as [|p ks IH]; [reflexivity|]. cbn [filter]. rewrite IH. reflexivity.
Qed.

Lemma unb_pos_all_left rp : forall st,
  exists st', unb_pos_all l r R rp [] st = Ok (st', []) /\
    shpL st' = (m_pos st ++ rp, m_pok st, m_kwo st,
                (match rp with [] => m_xva_l st | _ => true end, m_xva_r st),
                (m_xvk_l st, m_xvk_r st), m_lunm st, m_runm st).
Proof.
  induction rp as [|p rp IH]; intros st.
  - exists st. split; [reflexivity|]. unfold shpL. rewrite app_nil_r. reflexivity.
  - cbn [unb_pos_all unb_pos1 bind other]. unfold l at 1. cbn [starsS varargs isSome]. cbn [bind fst snd].
    match goal with |- context [unb_pos_all l r R rp [] ?s] => destruct (IH s) as [st' [E Hs]] end.
    exists st'. split; [exact E|]. rewrite Hs. unfold shpL. cbn. rewrite <- app_assoc.
    destruct rp; reflexivity.
Qed.

Lemma unb_pok_all_left ir : forall st, m_lunm st = [] ->
  exists st', unb_pok_all l r R ir st = Ok st' /\
    shpL st' = (m_pos st, m_pok st ++ ir, m_kwo st, (m_xva_l st, m_xva_r st),
                (m_xvk_l st, m_xvk_r st), m_lunm st, m_runm st).
Proof.
  induction ir as [|p ir IH]; intros st Hl.
  - exists st. split; [reflexivity|]. unfold shpL. rewrite app_nil_r. reflexivity.
  - cbn [unb_pok_all]. unfold unb_pok1. cbn [other unm]. rewrite Hl. cbn [find_param].
    unfold l at 1 2. cbn [starsS varargs varkwargs isSome andb]. cbn [bind]. fold l.
    match goal with |- context [unb_pok_all l r R ir ?s] =>
      destruct (IH s) as [st' [E Hs]]; [exact Hl|] end.
    exists st'. split; [exact E|]. rewrite Hs. unfold shpL. cbn. rewrite <- app_assoc, Hl. reflexivity.
Qed.

Lemma shpL_fold_src (s : side) u : forall st,
  shpL (fold_left (fun a p => add_src1 l r a (pname p) s) u st) = shpL st.
Proof. induction u as [|p u IH]; intros st; [reflexivity|]. cbn [fold_left]. rewrite IH. reflexivity. Qed.

(* the unmatched keyword-only parameters of the right side are absorbed by the
   left star-kwargs, which is then no longer a source of the result's star-kwargs *)
Lemma unmatched_kwo_R_left st :
  exists st', unmatched_kwo l r R st = Ok st' /\
    shpL st' = (m_pos st, m_pok st,
                match m_runm st with [] => m_kwo st | _ => od_update (m_kwo st) (m_runm st) end,
                (m_xva_l st, m_xva_r st),
                (match m_runm st with [] => m_xvk_l st | _ => true end, m_xvk_r st),
                m_lunm st, m_runm st).
Proof.
  unfold unmatched_kwo. cbn [unm]. destruct (m_runm st) as [|q u] eqn:Eu.
  - exists st. split; [reflexivity|]. unfold shpL. rewrite Eu. reflexivity.
  - cbn [other]. unfold l at 1. cbn [starsS varkwargs isSome].
    set (x := fold_left (fun a p => add_src1 l r a (pname p) R) (q :: u)
                        (set_kwo st (od_update (m_kwo st) (q :: u)))).
    exists (excl_vk x L). split; [reflexivity|].
    change (shpL (excl_vk x L)) with
      (m_pos x, m_pok x, m_kwo x, (m_xva_l x, m_xva_r x), (true, m_xvk_r x), m_lunm x, m_runm x).
    pose proof (shpL_fold_src R (q :: u) (set_kwo st (od_update (m_kwo st) (q :: u)))) as HF.
    fold x in HF. unfold shpL at 2 in HF. apply shpL_inv in HF.
    destruct HF as (X1 & X2 & X3 & X4 & X5 & X6 & X7 & X8 & X9).
    rewrite X1, X2, X3, X4, X5, X7, X8, X9. cbn. rewrite Eu. reflexivity.
Qed.
End Left.

Lemma concile_bare_left nva k b :
  pdef b = None -> (pann b = None -> puann b = UEmpty) -> pkind b = k ->
  concile (mkParam nva k None None UEmpty) b = rename nva b.
Proof.
  intros Hd Ha Hk. unfold concile, rename. cbn [pname pkind pdef pann puann].
  destruct b as [n k' d an ua]; cbn in *. subst d k'.
  destruct an; cbn; [reflexivity|]. rewrite Ha by reflexivity. reflexivity.
Qed.

(* ---- the merger against bare stars on the left ---- *)
Theorem merger_left_neutral r nva nvk sl dl :
  let va := mkParam nva VP None None UEmpty in
  let vk := mkParam nvk VK None None UEmpty in
  Forall (fun p => pkind p = PK) (pokargs r) -> NoDup (names_of (kwoargs r)) ->
  star_plain (varargs r) -> star_plain (varkwargs r) ->
  (forall b, varargs r = Some b -> pkind b = VP) -> (forall b, varkwargs r = Some b -> pkind b = VK) ->
  exists res, merger (starsS va vk sl dl) r = Ok res /\
    posargs res = posargs r /\ pokargs res = pokargs r /\
    varargs res = option_map (fun b => match posargs r with [] => rename nva b | _ => b end) (varargs r) /\
    kwoargs res = kwoargs r /\
    varkwargs res = option_map (fun b => match kwoargs r with [] => rename nvk b | _ => b end) (varkwargs r).
Proof.
  intros va vk Hpk Hnd Hsa Hsk Hka Hkk. unfold merger.
  rewrite (r_unmatched_left r va vk sl dl).
  set (l := starsS va vk sl dl).
  set (st0 := mkM [] [] [] [] false false false false [] []).
  change (kwoargs l) with (@nil param). cbn [kwo_match].
  change (posargs l) with (@nil param). change (pokargs l) with (@nil param).
  set (st2 := set_unm st0 R (kwoargs r)).
  assert (Hkw : od_update [] (kwoargs r) = kwoargs r).
  { rewrite od_update_fresh; [reflexivity|exact Hnd|intros x _ []]. }
  (* positional zip: every positional-only parameter of r is unbalanced, taken by star-args *)
  assert (H3 : exists st3, zip_pos l r [] (posargs r) [] (pokargs r) st2 = Ok (st3, [], pokargs r) /\
             shpL st3 = (posargs r, [], [], (match posargs r with [] => false | _ => true end, false),
                         (false, false), [], kwoargs r)).
  { cbn [zip_pos]. destruct (unb_pos_all_left r va vk sl dl (posargs r) st2) as [st3 [E Hs]].
    fold l in E. rewrite E. cbn [bind fst snd]. exists st3. split; [reflexivity|]. rewrite Hs. reflexivity. }
  destruct H3 as [st3 [E3 H3]]. rewrite E3. cbn [bind].
  pose proof (shpL_inv _ _ _ _ _ _ _ _ _ _ H3) as (A1 & A2 & A3 & A4 & A5 & A6 & A7 & A8 & A9).
  (* positional-or-keyword zip: taken by star-args and star-kwargs together *)
  assert (H4 : exists st4, zip_pok l r [] (pokargs r) st3 = Ok st4 /\
             shpL st4 = (posargs r, pokargs r, [], (match posargs r with [] => false | _ => true end, false),
                         (false, false), [], kwoargs r)).
  { cbn [zip_pok]. destruct (unb_pok_all_left r va vk sl dl (pokargs r) st3 A8) as [st4 [E Hs]].
    fold l in E. exists st4. split; [exact E|]. rewrite Hs, A1, A2, A3, A4, A5, A6, A7, A8, A9. reflexivity. }
  destruct H4 as [st4 [E4 H4]]. rewrite E4. cbn [bind].
  pose proof (shpL_inv _ _ _ _ _ _ _ _ _ _ H4) as (B1 & B2 & B3 & B4 & B5 & B6 & B7 & B8 & B9).
  assert (E5 : unmatched_kwo l r L st4 = Ok st4).
  { unfold unmatched_kwo. cbn [unm]. rewrite B8. reflexivity. }
  rewrite E5. cbn [bind].
  destruct (unmatched_kwo_R_left r va vk sl dl st4) as [st6 [E6 H6]]. fold l in E6. rewrite E6. cbn [bind].
  rewrite B1, B2, B3, B4, B5, B6, B7, B8, B9 in H6.
  assert (H6' : shpL st6 = (posargs r, pokargs r, kwoargs r,
                            (match posargs r with [] => false | _ => true end, false),
                            (match kwoargs r with [] => false | _ => true end, false), [], kwoargs r)).
  { rewrite H6. destruct (kwoargs r) eqn:Ek; [reflexivity|]. rewrite Hkw. reflexivity. }
  clear H6. pose proof (shpL_inv _ _ _ _ _ _ _ _ _ _ H6') as (C1 & C2 & C3 & C4 & C5 & C6 & C7 & C8 & C9).
  (* classification of positional-only-kinded parameters: nothing to move *)
  assert (H7 : shpL (normalise_pok st6) = shpL st6).
  { unfold normalise_pok. rewrite C2, (split_po_prefix_pk _ Hpk). rewrite H6'.
    apply shpL_intro; cbn [set_pok set_pos m_pos m_pok m_kwo m_xva_l m_xva_r m_xvk_l m_xvk_r m_lunm m_runm];
      try assumption; try reflexivity. rewrite C1, app_nil_r. reflexivity. }
  set (st7 := normalise_pok st6) in *. rewrite H6' in H7.
  pose proof (shpL_inv _ _ _ _ _ _ _ _ _ _ H7) as (D1 & D2 & D3 & D4 & D5 & D6 & D7 & D8 & D9).
  change (varargs l) with (Some va). change (varkwargs l) with (Some vk).
  (* star-args *)
  assert (Hva : exists st8, add_star l r (m_xva_l st7) (m_xva_r st7) (Some va) (varargs r) st7
                  = (option_map (fun b => match posargs r with [] => rename nva b | _ => b end) (varargs r), st8)
                  /\ shpL st8 = shpL st7).
  { unfold add_star. rewrite D4, D5. destruct (varargs r) as [b|] eqn:Eb; [|exists st7; split; reflexivity].
    destruct (Hsa b eq_refl) as [Hd Hu]. cbn [option_map].
    destruct (posargs r); cbn [negb andb].
    - pose proof (concile_bare_left nva VP b Hd Hu (Hka b eq_refl)) as X. fold va in X. rewrite X.
      destruct (N.eqb _ _); eexists; split; reflexivity.
    - eexists; split; reflexivity. }
  destruct Hva as [st8 [E8 H8]]. rewrite E8.
  rewrite H7 in H8. pose proof (shpL_inv _ _ _ _ _ _ _ _ _ _ H8) as (F1 & F2 & F3 & F4 & F5 & F6 & F7 & F8 & F9).
  (* star-kwargs *)
  assert (Hvk : exists st9, add_star l r (m_xvk_l st8) (m_xvk_r st8) (Some vk) (varkwargs r) st8
                  = (option_map (fun b => match kwoargs r with [] => rename nvk b | _ => b end) (varkwargs r), st9)
                  /\ shpL st9 = shpL st8).
  { unfold add_star. rewrite F6, F7. destruct (varkwargs r) as [b|] eqn:Eb; [|exists st8; split; reflexivity].
    destruct (Hsk b eq_refl) as [Hd Hu]. cbn [option_map].
    destruct (kwoargs r); cbn [negb andb].
    - pose proof (concile_bare_left nvk VK b Hd Hu (Hkk b eq_refl)) as X. fold vk in X. rewrite X.
      destruct (N.eqb _ _); eexists; split; reflexivity.
    - eexists; split; reflexivity. }
  destruct Hvk as [st9 [E9 H9]]. rewrite E9.
  eexists. split; [reflexivity|]. cbn [posargs pokargs varargs kwoargs varkwargs].
  rewrite H8 in H9. apply shpL_inv in H9. destruct H9 as (G1 & G2 & G3 & _).
  rewrite G1, G2, G3. repeat split; reflexivity.
Qed.

(* ---- lneutral on a classified signature ---- *)
Lemma has_kind_other k k' ps : Forall (fun p => pkind p = k') ps -> k <> k' -> has_kind k ps = false.
Proof.
  intros H Hk. unfold has_kind. induction H as [|p ps Hp _ IH]; [reflexivity|]. cbn [existsb]. rewrite IH.
  unfold is_kind, kind_eqb. rewrite Hp. destruct k, k'; try reflexivity; congruence.
Qed.

Lemma has_kind_app k a b : has_kind k (a ++ b) = has_kind k a || has_kind k b.
Proof. unfold has_kind. apply existsb_app. Qed.

Lemma has_kind_opt k k' o : (forall p, o = Some p -> pkind p = k') -> k <> k' -> has_kind k (opt_list o) = false.
Proof.
  intros H Hk. destruct o as [p|]; [|reflexivity]. cbn. unfold is_kind, kind_eqb. rewrite (H p eq_refl).
  destruct k, k'; try reflexivity; congruence.
Qed.

Lemma has_kind_flatten so :
  kinds_ok so ->
  has_kind PO (flatten so) = match posargs so with [] => false | _ => true end /\
  has_kind KO (flatten so) = match kwoargs so with [] => false | _ => true end.
Proof.
  intros (H1 & H2 & H3 & H4 & H5). unfold flatten. rewrite !has_kind_app. split.
  - rewrite (has_kind_other PO PK _ H2), (has_kind_opt PO VP _ H3), (has_kind_other PO KO _ H4),
      (has_kind_opt PO VK _ H5) by discriminate. rewrite !orb_false_r.
    destruct (posargs so) as [|p ps]; [reflexivity|]. inversion H1; subst. cbn. unfold is_kind, kind_eqb.
    rewrite H6. reflexivity.
  - rewrite (has_kind_other KO PO _ H1), (has_kind_other KO PK _ H2), (has_kind_opt KO VP _ H3),
      (has_kind_opt KO VK _ H5) by discriminate. rewrite !orb_false_r. cbn [orb].
    destruct (kwoargs so) as [|p ps]; [reflexivity|]. inversion H4; subst. cbn. unfold is_kind, kind_eqb.
    rewrite H6. reflexivity.
Qed.

Lemma map_id_on {A} (f : A -> A) l : Forall (fun x => f x = x) l -> map f l = l.
Proof. induction 1 as [|x l Hx _ IH]; [reflexivity|]. cbn. rewrite Hx, IH. reflexivity. Qed.

Lemma lneutral_flatten so nva nvk :
  kinds_ok so ->
  lneutral nva nvk (flatten so) =
  posargs so ++ pokargs so ++
  opt_list (option_map (fun b => match posargs so with [] => rename nva b | _ => b end) (varargs so)) ++
  kwoargs so ++
  opt_list (option_map (fun b => match kwoargs so with [] => rename nvk b | _ => b end) (varkwargs so)).
Proof.
  intros HK. destruct (has_kind_flatten so HK) as [EP EK]. destruct HK as (H1 & H2 & H3 & H4 & H5).
  unfold lneutral. rewrite EP, EK. unfold flatten. rewrite !map_app.
  rewrite (map_id_on _ (posargs so)), (map_id_on _ (pokargs so)), (map_id_on _ (kwoargs so)).
  - f_equal. f_equal. f_equal; [|f_equal].
    + destruct (varargs so) as [b|]; [|reflexivity]. cbn. rewrite (H3 b eq_refl).
      destruct (posargs so); reflexivity.
    + destruct (varkwargs so) as [b|]; [|reflexivity]. cbn. rewrite (H5 b eq_refl).
      destruct (kwoargs so); reflexivity.
  - eapply Forall_impl; [|exact H4]. cbv beta. intros p ->. reflexivity.
  - eapply Forall_impl; [|exact H2]. cbv beta. intros p ->. reflexivity.
  - eapply Forall_impl; [|exact H1]. cbv beta. intros p ->. reflexivity.
Qed.

(* ---- C09: what merge does with a bare star signature on the left ---- *)
Theorem merge_left_neutral s nva nvk sl dl :
  valid_sig (params s) = true -> stars_plain (params s) ->
  exists src dep,
    merge [starsig nva nvk sl dl; s] =
    if validate (lneutral nva nvk (params s))
    then Ok (mkSig (lneutral nva nvk (params s)) None UEmpty src dep)
    else Err ValueErr.
Proof.
  intros Hv Hsp. destruct (sorted_facts s Hv Hsp) as (Hpk & Hnd & Hsa & Hsk & Hf).
  pose proof (sort_params_kinds s) as HK. pose proof HK as (_ & _ & K3 & _ & K5).
  cbn [merge merge_steps]. unfold starsig.
  change (sort_params (mkSig [mkParam nva VP None None UEmpty; mkParam nvk VK None None UEmpty] None UEmpty sl dl))
    with (starsS (mkParam nva VP None None UEmpty) (mkParam nvk VK None None UEmpty) sl dl).
  destruct (merger_left_neutral (sort_params s) nva nvk sl dl Hpk (nodup_kwo _ Hnd) Hsa Hsk K3 K5)
    as [res [E (E1 & E2 & E3 & E4 & E5)]].
  cbv zeta in E. rewrite E. cbn [to_incompatible bind]. unfold apply_params.
  assert (Efl : flatten res = lneutral nva nvk (params s)).
  { rewrite <- Hf, (lneutral_flatten _ nva nvk HK). unfold flatten. rewrite E1, E2, E3, E4, E5. reflexivity. }
  rewrite Efl. exists (ssrc res), (sdep res). reflexivity.
Qed.

(* ---- when the constructor accepts: star names foreign to s ---- *)
Lemma count_kind_unique k ps p q :
  (count_kind k ps <= 1)%nat -> In p ps -> In q ps -> pkind p = k -> pkind q = k -> p = q.
Proof.
  assert (Z : forall ps, count_kind k ps = 0%nat -> forall p, In p ps -> pkind p <> k).
  { induction ps0 as [|x ps0 IH]; intros Hc p0 Hp0; [destruct Hp0|]. rewrite count_kind_cons in Hc.
    destruct (is_kind k x) eqn:Ex; [lia|]. destruct Hp0 as [<-|Hp0]; [|apply IH; [lia|exact Hp0]].
    intros Hk. unfold is_kind in Ex. rewrite Hk in Ex. unfold kind_eqb in Ex. rewrite Nat.eqb_refl in Ex. discriminate. }
  induction ps as [|x ps IH]; intros Hc Hp Hq Kp Kq; [destruct Hp|]. rewrite count_kind_cons in Hc.
  destruct (is_kind k x) eqn:Ex.
  - assert (Hz : count_kind k ps = 0%nat) by lia.
    destruct Hp as [<-|Hp]; [|exfalso; exact (Z ps Hz p Hp Kp)].
    destruct Hq as [<-|Hq]; [reflexivity|exfalso; exact (Z ps Hz q Hq Kq)].
  - assert (Nx : forall y, pkind y = k -> x <> y).
    { intros y Ky ->. unfold is_kind in Ex. rewrite Ky in Ex. unfold kind_eqb in Ex. rewrite Nat.eqb_refl in Ex. discriminate. }
    destruct Hp as [Hp|Hp]; [exfalso; exact (Nx p Kp Hp)|].
    destruct Hq as [Hq|Hq]; [exfalso; exact (Nx q Kq Hq)|]. apply IH; auto; lia.
Qed.

(* "equal up to the names of the star parameters", as a relation *)
Lemma lneutral_upto_star_names nva nvk ps :
  Forall2 (fun p q => pkind q = pkind p /\ pdef q = pdef p /\ pann q = pann p /\ puann q = puann p /\
                      (pname q = pname p \/ (pkind p = VP /\ pname q = nva) \/ (pkind p = VK /\ pname q = nvk)))
          ps (lneutral nva nvk ps).
Proof.
  unfold lneutral. generalize (has_kind PO ps), (has_kind KO ps). intros b1 b2.
  induction ps as [|p ps IH]; [constructor|]. cbn [map]. constructor; [|exact IH].
  destruct (pkind p) eqn:E; try destruct b1; try destruct b2; cbn; rewrite ?E; auto 10.
Qed.

Lemma lneutral_shape nva nvk ps : Forall2 same_shape ps (lneutral nva nvk ps).
Proof.
  unfold lneutral. generalize (has_kind PO ps), (has_kind KO ps). intros b1 b2.
  induction ps as [|p ps IH]; [constructor|]. cbn [map]. constructor; [|exact IH].
  unfold same_shape, rename, has_def. destruct (pkind p) eqn:E; try destruct b1; try destruct b2; cbn; auto.
Qed.

Lemma lneutral_nodup nva nvk ps :
  valid_sig ps = true -> ~ In nva (names_of ps) -> ~ In nvk (names_of ps) -> nva <> nvk ->
  NoDup (names_of (lneutral nva nvk ps)).
Proof.
  intros Hv Ha Hk Hne. destruct (valid_sig_parts ps Hv) as (Hval & Cva & Cvk).
  pose proof (validate_nodup ps Hval) as Hn.
  unfold lneutral, names_of. rewrite map_map.
  generalize (has_kind PO ps), (has_kind KO ps). intros b1 b2.
  set (h := fun p => pname (match pkind p with
                            | VP => if b1 then p else rename nva p
                            | VK => if b2 then p else rename nvk p
                            | _ => p end)).
  assert (Hh : forall p, h p = pname p \/ (pkind p = VP /\ h p = nva) \/ (pkind p = VK /\ h p = nvk)).
  { intros p. unfold h. destruct (pkind p); auto; [destruct b1|destruct b2]; cbn; auto. }
  apply nodup_map_inj; [|apply nodup_of_names; exact Hn].
  intros p q Hp Hq E.
  assert (Np : In (pname p) (names_of ps)) by (apply in_map; exact Hp).
  assert (Nq : In (pname q) (names_of ps)) by (apply in_map; exact Hq).
  destruct (Hh p) as [P|[[P1 P2]|[P1 P2]]], (Hh q) as [Q|[[Q1 Q2]|[Q1 Q2]]]; rewrite ?P, ?P2, ?Q, ?Q2 in E.
  - apply (nodup_names_inj ps); assumption.
  - exfalso. apply Ha. rewrite <- E. exact Np.
  - exfalso. apply Hk. rewrite <- E. exact Np.
  - exfalso. apply Ha. rewrite E. exact Nq.
  - apply (count_kind_unique VP ps); assumption.
  - contradiction.
  - exfalso. apply Hk. rewrite E. exact Nq.
  - exfalso. apply Hne. symmetry. exact E.
  - apply (count_kind_unique VK ps); assumption.
Qed.

Theorem merge_left_neutral_fresh s nva nvk sl dl :
  valid_sig (params s) = true -> stars_plain (params s) ->
  ~ In nva (names_of (params s)) -> ~ In nvk (names_of (params s)) -> nva <> nvk ->
  exists r, merge [starsig nva nvk sl dl; s] = Ok r /\ params r = lneutral nva nvk (params s).
Proof.
  intros Hv Hsp Ha Hk Hne. destruct (merge_left_neutral s nva nvk sl dl Hv Hsp) as [src [dep E]].
  assert (V : validate (lneutral nva nvk (params s)) = true).
  { eapply validate_same_shape; [apply lneutral_shape|apply (valid_sig_parts _ Hv)|].
    apply lneutral_nodup; assumption. }
  rewrite V in E. eexists. split; [exact E|reflexivity].
Qed.

(* ---- literal equality: s calls its own stars nva / nvk ---- *)
Theorem merge_left_neutral_same s nva nvk sl dl :
  valid_sig (params s) = true -> stars_plain (params s) ->
  (forall p, In p (params s) -> pkind p = VP -> pname p = nva) ->
  (forall p, In p (params s) -> pkind p = VK -> pname p = nvk) ->
  exists r, merge [starsig nva nvk sl dl; s] = Ok r /\ params r = params s.
Proof.
  intros Hv Hsp Ha Hk. destruct (merge_left_neutral s nva nvk sl dl Hv Hsp) as [src [dep E]].
  assert (L : lneutral nva nvk (params s) = params s).
  { unfold lneutral. apply map_id_on. apply Forall_forall. intros p Hp.
    destruct (pkind p) eqn:Kp; try reflexivity.
    - destruct (has_kind PO (params s)); [reflexivity|]. unfold rename. rewrite <- (Ha p Hp Kp). destruct p; reflexivity.
    - destruct (has_kind KO (params s)); [reflexivity|]. unfold rename. rewrite <- (Hk p Hp Kp). destruct p; reflexivity. }
  rewrite L in E. rewrite (proj1 (valid_sig_parts _ Hv)) in E. eexists. split; [exact E|reflexivity].
Qed.

(* a signature with positional-only and keyword-only parameters keeps its own star
   names whatever the bare signature calls its stars *)
Theorem merge_left_neutral_po_ko s nva nvk sl dl :
  valid_sig (params s) = true -> stars_plain (params s) ->
  has_kind PO (params s) = true -> has_kind KO (params s) = true ->
  exists r, merge [starsig nva nvk sl dl; s] = Ok r /\ params r = params s.
Proof.
  intros Hv Hsp HP HKo. destruct (merge_left_neutral s nva nvk sl dl Hv Hsp) as [src [dep E]].
  assert (L : lneutral nva nvk (params s) = params s).
  { unfold lneutral. rewrite HP, HKo. apply map_id_on. apply Forall_forall. intros p _. destruct (pkind p); reflexivity. }
  rewrite L in E. rewrite (proj1 (valid_sig_parts _ Hv)) in E. eexists. split; [exact E|reflexivity].
Qed.

(* ---- the unconditional law is false: a star name of the bare signature may
   collide with a parameter of s; the failure is a plain ValueError raised by the
   final constructor (names: a=1, args=9, k=10) ---- *)
Theorem merge_left_neutral_refuted :
  exists s nva nvk,
    valid_sig (params s) = true /\ stars_plain (params s) /\
    merge [starsig nva nvk [] []; s] = Err ValueErr.
Proof.
  exists (mkSig [mkParam 1 PK None None UEmpty; mkParam 9 VP None None UEmpty] None UEmpty [] []), 1, 10.
  split; [vm_compute; reflexivity|]. split; [|vm_compute; reflexivity].
  intros p Hp _. cbn in Hp. destruct Hp as [<-|[<-|[]]]; cbn; auto.
Qed.

(* the hypotheses of the positive theorems are satisfiable on non-trivial inputs *)
Example left_neutral_example :
  let s := mkSig [mkParam 1 PO None None UEmpty; mkParam 2 PK (Some 1) (Some 5) (UPre 6);
                  mkParam 9 VP None (Some 5) (UPre 6); mkParam 3 KO None None UEmpty;
                  mkParam 10 VK None None UEmpty] None UEmpty [] [] in
  let t := mkSig [mkParam 2 PK (Some 1) None UEmpty; mkParam 9 VP None (Some 5) (UPre 6);
                  mkParam 10 VK None None UEmpty] None UEmpty [] [] in
  valid_sig (params s) = true /\ stars_plain (params s) /\
  (exists r, merge [starsig 7 8 [] []; s] = Ok r /\ params r = params s) /\
  valid_sig (params t) = true /\ stars_plain (params t) /\
  (exists r, merge [starsig 7 8 [] []; t] = Ok r /\
             params r = [mkParam 2 PK (Some 1) None UEmpty; mkParam 7 VP None (Some 5) (UPre 6);
                         mkParam 8 VK None None UEmpty]).
Proof.
  cbv zeta.
  assert (SP : forall ps, Forall (fun p => pdef p = None /\ (pann p = None -> puann p = UEmpty))
                                 (filter (fun p => is_kind VP p || is_kind VK p) ps) -> stars_plain ps).
  { intros ps HF p Hp Hk. rewrite Forall_forall in HF. apply HF. apply filter_In. split; [exact Hp|].
    unfold is_kind, kind_eqb. destruct Hk as [-> | ->]; reflexivity. }
  split; [vm_compute; reflexivity|]. split.
  { apply SP. cbn. repeat constructor; discriminate. }
  split; [eexists; split; vm_compute; reflexivity|].
  split; [vm_compute; reflexivity|]. split.
  { apply SP. cbn. repeat constructor; discriminate. }
  eexists; split; vm_compute; reflexivity.
Qed.

Print Assumptions merger_left_neutral.
Print Assumptions merge_left_neutral.
Print Assumptions lneutral_upto_star_names.
Print Assumptions merge_left_neutral_fresh.
Print Assumptions merge_left_neutral_same.
Print Assumptions merge_left_neutral_po_ko.
Print Assumptions merge_left_neutral_refuted.
Print Assumptions left_neutral_example.
