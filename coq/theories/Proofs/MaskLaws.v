(* MaskLaws.v — algebraic laws of mask proved for all signatures (C03). *)
From Sigtools.Model Require Import Base Bind Roles Algebra.
From Sigtools.Proofs Require Import SmallModel Basics.
From Coq Require Import Lia.

Definition nohide0 := mkHide false false false false.

(* mask(sig, 0) is sig: parameters, return annotation and provenance *)
Theorem mask_zero_identity s :
  valid_sig (params s) = true -> mask s 0 [] nohide0 = Ok s.
Proof.
  intros H. unfold mask, mask_gen. cbn [h_args h_kwargs h_varargs h_varkwargs nohide0 map orb Nat.eqb bind].
  cbn [names_of map]. unfold src_pop_all. cbn [fold_left mask_names bind k_pok k_va k_kwo k_src].
  pose proof (apply_sort_roundtrip s H) as R.
  unfold sort_params in *.
  destruct (sort_aux (params s) (mkSorted [] [] None [] None (srcs s) (deps s))) as [po pk va ko vk sr de] eqn:E.
  cbn [posargs pokargs varargs kwoargs varkwargs ssrc sdep] in *. exact R.
Qed.

(* the same for functools.partial with nothing bound, up to the provenance of
   the partial object itself (depth 0 for it, +1 for everything else) *)
Theorem partial_nothing_bound_params s pobj r :
  valid_sig (params s) = true -> sig_partial s 0 [] pobj = Ok r -> params r = params s.
Proof.
  intros H. unfold sig_partial, mask_gen.
  cbn [h_args h_kwargs h_varargs h_varkwargs map orb Nat.eqb bind].
  cbn [names_of map]. unfold src_pop_all. cbn [fold_left mask_names bind k_pok k_va k_kwo k_src].
  pose proof (sort_flatten_roundtrip s H) as R. unfold sort_params in *.
  destruct (sort_aux (params s) (mkSorted [] [] None [] None (srcs s) (deps s))) as [po pk va ko vk sr de] eqn:E.
  cbn [posargs pokargs varargs kwoargs varkwargs ssrc sdep] in *.
  unfold apply_params. cbn [flatten posargs pokargs varargs kwoargs varkwargs] in *.
  destruct (validate _); intros X; inversion X; subst. cbn [params]. exact R.
Qed.
