(* ProvEmbedN.v — C08 provenance theorems for the N-ARY embed, and the list shape of
   the plain n-ary merge fold with no hypothesis at all.

   Part 1  the stars of `merger l (bare star operand)` are l's stars, by name
   Part 2  stars_apart_fold: the star-name hypothesis, pairwise along the fold (much
           weaker than ProvKeys.stars_apart, which it subsumes: Part 6); embed_n_src_ok
   Part 3  embed_n_truthful (only: the first map is a dictionary) and the hypothesis-free
           embed_n_truthful_entries
   Part 4  embed_n_src_shape / embed_n_nodup WITHOUT any star-name hypothesis
   Part 5  merge_src_shape_n: the fold concatenates whole input lists, for ANY inputs
           (merge_src_shape_n_partial); "each at most once" is false
           (merge_src_shape_n_refuted)
   Part 6  stars_apart implies stars_apart_fold; examples
   Part 7  bounded cross-check: on all triples of a 35-signature universe with colliding
           spellings the hypothesis holds IFF the result map is well formed

   The hypothesis that is necessary AND sufficient for every input (it differs from
   stars_apart_fold only from four signatures on, where a dropped optional parameter
   matters) is stars_apart_exact in ProvEmbedNExact.v: embed_n_src_ok_iff. *)
From Coq Require Import List NArith Bool Arith Lia Btauto.
From Sigtools.Model Require Import Base Bind Roles Algebra.
From Sigtools.Proofs Require Import SmallModel Basics Prov MaskLaws MaskExact MergeNeutral Annot
     ProvKeys Contrib ProvNoDup ContribEmbed ProvNoDupOps ContribMore.
Import Base Bind Roles Algebra.
Import ListNotations.
Open Scope N_scope.

(* ================================================================== *)
(* Part 1 — the stars of merger l r when r has no named parameter      *)

Lemma merger_star_names l r s :
  merger l r = Ok s -> named r = [] ->
  (forall p, varargs s = Some p ->
     exists a b, varargs l = Some a /\ varargs r = Some b /\ pname p = pname a) /\
  (forall p, varkwargs s = Some p ->
     exists a b, varkwargs l = Some a /\ varkwargs r = Some b /\ pname p = pname a).
Proof.
  unfold merger. intros E Hr.
  pose proof (kwo_match_Inv l r [] (kwoargs l) _ (fun p H => H) (Inv_init l r)) as H1.
  set (st1 := kwo_match l r (kwoargs l) (mkM [] [] [] [] false false false false [] [])) in *.
  assert (H2 : Inv l r [] (set_unm st1 R (r_unmatched l r))).
  { apply (Inv_frame l r [] st1 _ H1); try reflexivity.
    - cbn. auto.
    - cbn. auto.
    - cbn. apply (Inv_lunm _ _ _ _ H1).
    - cbn [set_unm m_runm]. unfold r_unmatched. intros p Hp. apply filter_In in Hp. apply Hp. }
  apply bind_ok in E. destruct E as [[[st3 il] ir] [E3 E]].
  destruct (zip_pos_Inv l r [] _ _ _ _ _ _ _ _ (Forall_NS_pos l r L) (Forall_NS_pos l r R)
              (Forall_NS_pok l r L) (Forall_NS_pok l r R) H2 E3) as [H3 [Hil Hir]].
  apply bind_ok in E. destruct E as [st4 [E4 E]].
  pose proof (zip_pok_Inv l r [] _ _ _ _ Hil Hir H3 E4) as H4.
  apply bind_ok in E. destruct E as [st5 [E5 E]].
  pose proof (unmatched_kwo_Inv l r [] _ _ _ H4 E5) as H5.
  apply bind_ok in E. destruct E as [st6 [E6 E]].
  pose proof (unmatched_kwo_Inv l r [] _ _ _ H5 E6) as H6.
  pose proof (normalise_pok_Inv l r [] _ H6) as H7.
  set (st7 := normalise_pok st6) in *.
  destruct (add_star l r (m_xva_l st7) (m_xva_r st7) (varargs l) (varargs r) st7) as [va st8] eqn:E8.
  destruct (add_star_Inv l r [] _ _ _ _ _ _ _ H7 (opt_in_flatten_va l) (opt_in_flatten_va r)
              (proj1 (proj2 (proj2 (proj2 (proj2 H7))))) E8) as [H8 _].
  destruct (add_star l r (m_xvk_l st8) (m_xvk_r st8) (varkwargs l) (varkwargs r) st8) as [vk st9] eqn:E9.
  assert (X7 : m_xva_l st7 = false).
  { destruct (m_xva_l st7) eqn:X; [|reflexivity]. exfalso.
    apply (proj1 (proj2 (proj2 (proj2 (proj2 H7)))) X). exact Hr. }
  assert (X8 : m_xvk_l st8 = false).
  { destruct (m_xvk_l st8) eqn:X; [|reflexivity]. exfalso.
    apply (proj1 (proj2 (proj2 (proj2 (proj2 (proj2 H8))))) X). exact Hr. }
  inversion E; subst. clear E. cbn [varargs varkwargs].
  rewrite X7 in E8. rewrite X8 in E9. unfold add_star in E8, E9. cbn [negb andb] in E8, E9.
  split.
  - intros p Hp. subst va.
    destruct (varargs l) as [a|]; [|discriminate E8]. destruct (varargs r) as [b|]; [|discriminate E8].
    exists a, b. split; [reflexivity|]. split; [reflexivity|].
    destruct (negb (m_xva_r st7)); inversion E8; subst; reflexivity.
  - intros p Hp. subst vk.
    destruct (varkwargs l) as [a|]; [|discriminate E9]. destruct (varkwargs r) as [b|]; [|discriminate E9].
    exists a, b. split; [reflexivity|]. split; [reflexivity|].
    destruct (negb (m_xvk_r st8)); inversion E9; subst; reflexivity.
Qed.

(* ================================================================== *)
(* Part 2 — the star-name hypothesis along the fold                    *)

(* What one step of the fold needs of its accumulator, in terms of names only:
   nn = the names of the named parameters collected so far, va / vk = the name of the
   accumulator's star parameters.  A star that the step forwards (use flag on) must not
   be spelled like a collected named parameter, nor like the other star when that one
   is kept. *)
Definition fwd_okb (uva uvk : bool) (nn : list name) (va vk : option name) : bool :=
  match va with
  | Some a => negb uva || (negb (mem a nn)
                           && (uvk || match vk with Some k => negb (N.eqb a k) | None => true end))
  | None => true
  end &&
  match vk with
  | Some k => negb uvk || (negb (mem k nn)
                           && (uva || match va with Some a => negb (N.eqb k a) | None => true end))
  | None => true
  end.

(* the star of the accumulator after embedding a signature whose star is o: with the use
   flag on it is the embedded signature's star (by name) if both have one, no star
   otherwise; with the flag off the accumulator keeps its own *)
Definition next_star (use : bool) (cur : option name) (o : option param) : option name :=
  if use then match cur, o with Some _, Some p => Some (pname p) | _, _ => None end else cur.

Fixpoint apart_steps (uva uvk : bool) (nn : list name) (va vk : option name) (ss : list sigT) : bool :=
  match ss with
  | [] => true
  | s :: ss' =>
      fwd_okb uva uvk nn va vk &&
      apart_steps uva uvk (nn ++ names_of (named (sort_params s)))
                  (next_star uva va (varargs (sort_params s)))
                  (next_star uvk vk (varkwargs (sort_params s))) ss'
  end.

(* pairwise along the fold: before the k-th signature is embedded, the forwarded stars
   of what has been accumulated (the stars of signature k-1 as long as every earlier
   signature has them) are not spelled like a named parameter of signatures 0..k-1.
   Nothing is asked of the last signature's stars, nor of named parameters of LATER
   signatures. *)
Definition stars_apart_fold (uva uvk : bool) (ss : list sigT) : bool :=
  match ss with
  | [] => true
  | s0 :: ss' =>
      apart_steps uva uvk (names_of (named (sort_params s0)))
                  (option_map pname (varargs (sort_params s0)))
                  (option_map pname (varkwargs (sort_params s0))) ss'
  end.

Definition tracks (nn : list name) (va vk : option name) (acc : sorted) : Prop :=
  (forall y, memn y (named acc) = true -> In y nn) /\
  (forall p, varargs acc = Some p -> va = Some (pname p)) /\
  (forall p, varkwargs acc = Some p -> vk = Some (pname p)).

Lemma tracks_fwd_apart uva uvk nn va vk acc :
  tracks nn va vk acc -> fwd_okb uva uvk nn va vk = true -> fwd_apart uva uvk acc.
Proof.
  intros (T1 & T2 & T3) H. unfold fwd_okb in H. apply andb_true_iff in H. destruct H as [Ha Hk].
  split.
  - intros -> p Hp. rewrite (T2 p Hp) in Ha. cbn [negb orb] in Ha.
    apply andb_true_iff in Ha. destruct Ha as [A1 A2]. apply negb_true_iff in A1. split.
    + destruct (memn (pname p) (named acc)) eqn:E; [|reflexivity].
      apply T1 in E. apply mem_In in E. rewrite E in A1. discriminate A1.
    + intros ->. cbn [orb] in A2. rewrite memn_opt. destruct (varkwargs acc) as [q|] eqn:Eq; [|reflexivity].
      rewrite (T3 q eq_refl) in A2. apply negb_true_iff in A2. exact A2.
  - intros -> p Hp. rewrite (T3 p Hp) in Hk. cbn [negb orb] in Hk.
    apply andb_true_iff in Hk. destruct Hk as [A1 A2]. apply negb_true_iff in A1. split.
    + destruct (memn (pname p) (named acc)) eqn:E; [|reflexivity].
      apply T1 in E. apply mem_In in E. rewrite E in A1. discriminate A1.
    + intros ->. cbn [orb] in A2. rewrite memn_opt. destruct (varargs acc) as [q|] eqn:Eq; [|reflexivity].
      rewrite (T2 q eq_refl) in A2. apply negb_true_iff in A2. exact A2.
Qed.

(* the parts of an embed step *)
Lemma embed_step_inv outer inner uva uvk depth s :
  embed_step outer inner uva uvk depth = Ok s ->
  exists m, merger inner (estars uva uvk outer) = Ok m /\
    (forall y, memn y (named s) = true -> memn y (named outer) = true \/ memn y (named m) = true) /\
    varargs s = (if uva then varargs m else varargs outer) /\
    varkwargs s = (if uvk then varkwargs m else varkwargs outer) /\
    ssrc s = overlay (pop_star uvk (varkwargs outer) (pop_star uva (varargs outer) (ssrc outer))) (ssrc m).
Proof.
  unfold embed_step. intros E.
  apply bind_ok in E. destruct E as [i [Ei E]]. exists i. split; [exact Ei|].
  apply bind_ok in E. destruct E as [n1 [_ E]].
  apply bind_ok in E. destruct E as [n2 [_ E]].
  apply bind_ok in E. destruct E as [[[e_pos e_pok] n3] [Ee E]].
  assert (He : forall y, memn y (e_pos ++ e_pok ++ pokargs i) =
                         memn y (posargs outer) || memn y (pokargs outer)
                         || memn y (posargs i) || memn y (pokargs i)).
  { intros y. rewrite !memn_app. destruct (posargs i) as [|ip0 ips] eqn:Epi.
    - rewrite memn_nil. destruct (pokargs i) as [|ik0 iks] eqn:Epk.
      + inversion Ee; subst. btauto.
      + destruct (has_def ik0); inversion Ee; subst; rewrite ?memn_clear; btauto.
    - apply bind_ok in Ee. destruct Ee as [n3' [_ Ee]]. inversion Ee; subst.
      destruct (has_def ip0);
        repeat first [rewrite memn_clear | rewrite memn_app | rewrite memn_map_kind | rewrite memn_nil]; btauto. }
  apply bind_ok in E. destruct E as [n4 [_ E]].
  apply bind_ok in E. destruct E as [n5 [_ E]].
  apply bind_ok in E. destruct E as [n6 [_ E]].
  inversion E; subst. clear E. cbn [varargs varkwargs ssrc]. split; [|split; [reflexivity|split; [reflexivity|]]].
  - intros y. unfold named at 1. cbn [posargs pokargs kwoargs].
    rewrite app_assoc, memn_app, He, !memn_od_update, memn_nil. intros H.
    unfold named. rewrite !memn_app.
    destruct (memn y (posargs outer)), (memn y (pokargs outer)), (memn y (kwoargs outer)),
      (memn y (posargs i)), (memn y (pokargs i)), (memn y (kwoargs i)); cbn in *; auto.
  - unfold overlay, pop_star. destruct (varargs outer); destruct (varkwargs outer); reflexivity.
Qed.

Lemma named_estars uva uvk so : named (estars uva uvk so) = [].
Proof. reflexivity. Qed.

Lemma embed_step_tracks outer inner uva uvk depth s nn va vk :
  tracks nn va vk outer ->
  embed_step outer inner uva uvk depth = Ok s ->
  tracks (nn ++ names_of (named inner)) (next_star uva va (varargs inner))
         (next_star uvk vk (varkwargs inner)) s.
Proof.
  intros (T1 & T2 & T3) E.
  destruct (embed_step_inv _ _ _ _ _ _ E) as (m & Em & Hn & Hva & Hvk & _).
  destruct (merger_Inv _ _ _ Em) as (_ & _ & _ & _ & Pn & _).
  destruct (merger_star_names _ _ _ Em (named_estars uva uvk outer)) as [Sva Svk].
  cbn [estars varargs varkwargs] in Sva, Svk.
  split; [|split].
  - intros y Hy. apply in_or_app. destruct (Hn y Hy) as [H|H]; [left; apply T1; exact H|].
    right. apply Pn in H. rewrite named_estars, app_nil_r in H. apply mem_In. exact H.
  - intros p. rewrite Hva. unfold next_star. destruct uva; [|apply T2].
    intros Hp. destruct (Sva p Hp) as (a & b & Ea & Eb & En). cbn [opt_if] in Eb.
    rewrite (T2 b Eb), Ea, En. reflexivity.
  - intros p. rewrite Hvk. unfold next_star. destruct uvk; [|apply T3].
    intros Hp. destruct (Svk p Hp) as (a & b & Ea & Eb & En). cbn [opt_if] in Eb.
    rewrite (T3 b Eb), Ea, En. reflexivity.
Qed.

Lemma embed_steps_sorted_ok_fold ss : forall acc uva uvk depth r nn va vk,
  sorted_ok acc -> tracks nn va vk acc -> Forall src_nonempty ss ->
  apart_steps uva uvk nn va vk ss = true ->
  embed_steps acc ss uva uvk depth = Ok r -> sorted_ok r.
Proof.
  induction ss as [|s ss IH]; intros acc uva uvk depth r nn va vk Hacc Ht Hss Hap; cbn [embed_steps].
  - intros E; inversion E; subst; exact Hacc.
  - inversion Hss as [|s' ss' Hs Hss']; subst. intros E.
    cbn [apart_steps] in Hap. apply andb_true_iff in Hap. destruct Hap as [Hf Hap].
    apply bind_ok in E. destruct E as [acc' [E1 E2]]. apply to_incompatible_ok in E1.
    eapply IH; [| |exact Hss'|exact Hap|exact E2].
    + eapply embed_step_sorted_ok; [exact Hacc | eapply tracks_fwd_apart; [exact Ht|exact Hf] | | exact E1].
      apply sort_params_nonempty. exact Hs.
    + eapply embed_step_tracks; [exact Ht | exact E1].
Qed.

Lemma tracks_init s0 :
  tracks (names_of (named (sort_params s0))) (option_map pname (varargs (sort_params s0)))
         (option_map pname (varkwargs (sort_params s0))) (sort_params s0).
Proof.
  split; [|split].
  - intros y Hy. apply mem_In. exact Hy.
  - intros p ->. reflexivity.
  - intros p ->. reflexivity.
Qed.

(* (a) C08 keys / non-empty for the n-ary embed: exactly one non-empty entry per parameter
   of the result and nothing else, under the fold-wise star-name hypothesis *)
Theorem embed_n_src_ok s0 ss uva uvk r :
  embed (s0 :: ss) uva uvk = Ok r ->
  valid_sig (params s0) = true -> stars_apart_fold uva uvk (s0 :: ss) = true ->
  src_ok s0 -> Forall src_nonempty ss -> src_ok r.
Proof.
  cbn [embed stars_apart_fold]. intros E Hv Hap H0 Hss.
  apply bind_ok in E. destruct E as [acc [E1 E2]].
  eapply apply_params_src_ok; [|exact E2].
  eapply embed_steps_sorted_ok_fold; [| |exact Hss|exact Hap|exact E1].
  - apply sort_params_sorted_ok; assumption.
  - apply tracks_init.
Qed.

(* ================================================================== *)
(* Part 3 — truthful                                                   *)

Lemma embed_step_truthful outer inner uva uvk depth s x f :
  embed_step outer inner uva uvk depth = Ok s -> NoDup (keys (ssrc outer)) ->
  NoDup (keys (ssrc s)) /\
  (In f (src_get (ssrc s) x) -> In f (src_get (ssrc outer) x) \/ In f (src_get (ssrc inner) x)).
Proof.
  intros E O1. destruct (embed_step_inv _ _ _ _ _ _ E) as (m & Em & _ & _ & _ & Es).
  destruct (merger_Inv _ _ _ Em) as (M1 & _).
  rewrite Es. split; [apply overlay_nodup; exact M1|].
  set (o2 := pop_star uvk (varkwargs outer) (pop_star uva (varargs outer) (ssrc outer))).
  assert (N2 : NoDup (keys o2)) by (unfold o2; apply pop_star_nodup; apply pop_star_nodup; exact O1).
  rewrite (overlay_get _ N2). destruct (src_mem o2 x).
  - intros Hf. left. unfold o2 in Hf. rewrite !pop_star_get in Hf.
    destruct (popped uvk (varkwargs outer) x); [destruct Hf|].
    destruct (popped uva (varargs outer) x); [destruct Hf|]. exact Hf.
  - intros Hf. destruct (merger_truthful _ _ _ _ _ Em Hf) as [H|H]; [right; exact H|].
    cbn [estars ssrc src_get] in H. destruct H.
Qed.

Lemma embed_steps_truthful x f ss : forall acc uva uvk depth r,
  embed_steps acc ss uva uvk depth = Ok r -> NoDup (keys (ssrc acc)) ->
  In f (src_get (ssrc r) x) ->
  In f (src_get (ssrc acc) x) \/ exists s, In s ss /\ In f (src_get (srcs s) x).
Proof.
  induction ss as [|s ss IH]; intros acc uva uvk depth r; cbn [embed_steps].
  - intros E; inversion E; subst. auto.
  - intros E Hn Hf. apply bind_ok in E. destruct E as [acc' [E1 E2]]. apply to_incompatible_ok in E1.
    destruct (embed_step_truthful _ _ _ _ _ _ x f E1 Hn) as [Hn' Hstep].
    destruct (IH _ _ _ _ _ E2 Hn' Hf) as [H|[s' [Hs' H]]].
    + destruct (Hstep H) as [A|A]; [left; exact A|].
      right. exists s. split; [left; reflexivity|]. rewrite sort_params_ssrc in A. exact A.
    + right. exists s'. split; [right; exact Hs' | exact H].
Qed.

(* (b) every callable listed for x in the result of the n-ary embed is listed for x in one
   of the inputs.  No validity, no star-name hypothesis; the only thing asked is that the
   provenance map of the FIRST signature is a dictionary (no key twice) — see
   embed_n_truthful_needs_dict. *)
Theorem embed_n_truthful s0 ss uva uvk r x f :
  embed (s0 :: ss) uva uvk = Ok r -> NoDup (keys (srcs s0)) ->
  In f (src_get (srcs r) x) -> exists s, In s (s0 :: ss) /\ In f (src_get (srcs s) x).
Proof.
  cbn [embed]. intros E Hn Hf.
  apply bind_ok in E. destruct E as [acc [E1 E2]].
  destruct (apply_params_fields _ _ _ E2) as [_ Es]. rewrite Es in Hf.
  rewrite <- (sort_params_ssrc s0) in Hn.
  destruct (embed_steps_truthful _ _ _ _ _ _ _ _ E1 Hn Hf) as [H|[s [Hs H]]].
  - exists s0. split; [left; reflexivity|]. rewrite sort_params_ssrc in H. exact H.
  - exists s. split; [right; exact Hs | exact H].
Qed.

(* a list with the key 1 twice is not a Python dict: src_get reads the first entry,
   dict(i_src, **o_src) writes the last one *)
Theorem embed_n_truthful_needs_dict :
  exists s0 s1 r, embed [s0; s1] true true = Ok r /\ valid_sig (params s0) = true /\
    valid_sig (params s1) = true /\ src_get (srcs r) 1 = [200] /\
    src_get (srcs s0) 1 = [100] /\ src_get (srcs s1) 1 = [].
Proof.
  exists (mkSig [bp 1 PK; bp 9 VP; bp 10 VK] None UEmpty [(1, [100]); (1, [200])] []), (dsig 101 [bp 2 PK]).
  eexists. repeat split; vm_compute; reflexivity.
Qed.

(* ---- the same with NO hypothesis at all, in terms of the entries of the maps ---- *)
Definition listed (m : srcmap) (x : name) (f : N) : Prop := exists v, In (x, v) m /\ In f v.

Lemma src_get_In m x f : In f (src_get m x) -> listed m x f.
Proof.
  induction m as [|[k v] m IH]; cbn [src_get]; [intros []|].
  destruct (N.eqb_spec x k) as [->|]; intros H.
  - exists v. split; [left; reflexivity | exact H].
  - destruct (IH H) as (v' & A & B). exists v'. split; [right; exact A | exact B].
Qed.

Lemma src_get_entry m x v : NoDup (keys m) -> In (x, v) m -> src_get m x = v.
Proof.
  induction m as [|[k v'] m IH]; intros Hn H; [destruct H|]. cbn [src_get]. destruct H as [H|H].
  - inversion H; subst. rewrite N.eqb_refl. reflexivity.
  - cbn [keys map fst] in Hn. inversion Hn as [|? ? Hk Hn']; subst.
    destruct (N.eqb_spec x k) as [->|]; [|apply IH; assumption].
    exfalso. apply Hk. change k with (fst (k, v)). unfold keys. apply in_map. exact H.
Qed.

Lemma src_set_entry m k v x v' : In (x, v') (src_set m k v) -> In (x, v') m \/ (x, v') = (k, v).
Proof.
  induction m as [|[k0 v0] m IH]; cbn [src_set].
  - intros [H|[]]. right. symmetry. exact H.
  - destruct (N.eqb k k0).
    + intros [H|H]; [right; symmetry; exact H | left; right; exact H].
    + intros [H|H]; [left; left; exact H|].
      destruct (IH H) as [A|A]; [left; right; exact A | right; exact A].
Qed.

Lemma overlay_entry o : forall m x v, In (x, v) (overlay o m) -> In (x, v) m \/ In (x, v) o.
Proof.
  unfold overlay. induction o as [|[k v0] o IH]; intros m x v; cbn [fold_left fst snd]; [auto|].
  intros H. destruct (IH _ _ _ H) as [A|A]; [|right; right; exact A].
  destruct (src_set_entry _ _ _ _ _ A) as [B|B]; [left; exact B | right; left; symmetry; exact B].
Qed.

Lemma src_pop_entry m k x v : In (x, v) (src_pop m k) -> In (x, v) m.
Proof.
  induction m as [|[k0 v0] m IH]; cbn [src_pop]; [auto|].
  destruct (N.eqb k k0); [intros H; right; apply IH; exact H|].
  intros [H|H]; [left; exact H | right; apply IH; exact H].
Qed.

Lemma pop_star_entry b o m x v : In (x, v) (pop_star b o m) -> In (x, v) m.
Proof. unfold pop_star. destruct o; [|auto]. destruct b; [apply src_pop_entry | auto]. Qed.

Lemma embed_step_listed outer inner uva uvk depth s x f :
  embed_step outer inner uva uvk depth = Ok s ->
  listed (ssrc s) x f -> listed (ssrc outer) x f \/ listed (ssrc inner) x f.
Proof.
  intros E (v & Hv & Hf). destruct (embed_step_inv _ _ _ _ _ _ E) as (m & Em & _ & _ & _ & Es).
  destruct (merger_Inv _ _ _ Em) as (M1 & _).
  rewrite Es in Hv. destruct (overlay_entry _ _ _ _ Hv) as [A|A].
  - right. rewrite <- (src_get_entry _ _ _ M1 A) in Hf.
    destruct (merger_truthful _ _ _ _ _ Em Hf) as [H|H]; [apply src_get_In; exact H|].
    cbn [estars ssrc src_get] in H. destruct H.
  - left. exists v. split; [|exact Hf]. apply pop_star_entry in A. apply pop_star_entry in A. exact A.
Qed.

Lemma embed_steps_listed x f ss : forall acc uva uvk depth r,
  embed_steps acc ss uva uvk depth = Ok r -> listed (ssrc r) x f ->
  listed (ssrc acc) x f \/ exists s, In s ss /\ listed (srcs s) x f.
Proof.
  induction ss as [|s ss IH]; intros acc uva uvk depth r; cbn [embed_steps].
  - intros E; inversion E; subst. auto.
  - intros E Hf. apply bind_ok in E. destruct E as [acc' [E1 E2]]. apply to_incompatible_ok in E1.
    destruct (IH _ _ _ _ _ E2 Hf) as [H|[s' [Hs' H]]].
    + destruct (embed_step_listed _ _ _ _ _ _ _ _ E1 H) as [A|A]; [left; exact A|].
      right. exists s. split; [left; reflexivity|]. rewrite sort_params_ssrc in A. exact A.
    + right. exists s'. split; [right; exact Hs' | exact H].
Qed.

(* (b), hypothesis-free form: every callable listed for x in the result is listed, in an
   entry for x, by one of the inputs — any signatures, any maps *)
Theorem embed_n_truthful_entries s0 ss uva uvk r x f :
  embed (s0 :: ss) uva uvk = Ok r -> In f (src_get (srcs r) x) ->
  exists s v, In s (s0 :: ss) /\ In (x, v) (srcs s) /\ In f v.
Proof.
  cbn [embed]. intros E Hf.
  apply bind_ok in E. destruct E as [acc [E1 E2]].
  destruct (apply_params_fields _ _ _ E2) as [_ Es]. rewrite Es in Hf. apply src_get_In in Hf.
  destruct (embed_steps_listed _ _ _ _ _ _ _ _ E1 Hf) as [(v & A & B)|[s [Hs (v & A & B)]]].
  - exists s0, v. rewrite sort_params_ssrc in A. split; [left; reflexivity | split; assumption].
  - exists s, v. split; [right; exact Hs | split; assumption].
Qed.

(* ================================================================== *)
(* Part 4 — list shape and duplicate-freedom, no star-name hypothesis   *)

(* the two forwarded stars of the accumulator are not spelled alike *)
Definition fwd_distinct (uva uvk : bool) (acc : sorted) : Prop :=
  uva = true -> uvk = true -> forall a k, varargs acc = Some a -> varkwargs acc = Some k ->
  pname a <> pname k.

Lemma nodup_fwd_distinct uva uvk so : NoDup (names_of (flatten so)) -> fwd_distinct uva uvk so.
Proof.
  intros Hn _ _ a k Ha Hk E. pose proof (flatten_cnt so (pname a) Hn) as H.
  rewrite Ha, Hk in H. cbn [opt_list] in H. rewrite !cntn_cons, !cntn_nil, E, !N.eqb_refl in H. lia.
Qed.

Lemma cntn_opt_name y (o o' : option param) :
  (forall p, o = Some p -> exists a, o' = Some a /\ pname p = pname a) ->
  (cntn y (opt_list o) <= cntn y (opt_list o'))%nat.
Proof.
  intros H. destruct o as [p|]; [|cbn; lia]. destruct (H p eq_refl) as (a & -> & En).
  cbn [opt_list]. rewrite !cntn_cons, !cntn_nil, En. lia.
Qed.

Lemma embed_step_src_shape_gen outer inner uva uvk depth s x :
  NoDup (keys (ssrc outer)) -> fwd_distinct uva uvk outer ->
  Forall (fun p => pkind p = PK) (pokargs inner) -> NoDup (names_of (flatten inner)) ->
  embed_step outer inner uva uvk depth = Ok s ->
  (src_get (ssrc s) x = src_get (ssrc outer) x \/ src_get (ssrc s) x = src_get (ssrc inner) x \/
   src_get (ssrc s) x = []) /\
  NoDup (keys (ssrc s)) /\ fwd_distinct uva uvk s.
Proof.
  intros O1 Od PKi Ni E.
  destruct (embed_step_inv _ _ _ _ _ _ E) as (m & Em & _ & Hva & Hvk & Es).
  destruct (merger_Inv _ _ _ Em) as (M1 & _).
  destruct (merger_star_names _ _ _ Em (named_estars uva uvk outer)) as [Sva Svk].
  cbn [estars varargs varkwargs] in Sva, Svk.
  destruct (merger_stars inner _ _ [] [] PKi m Em) as (P1 & P2 & P3 & _).
  (* at most one parameter of the merged inner signature is called y *)
  assert (Hcnt : forall y, (cntn y (flatten m) <= 1)%nat).
  { intros y. pose proof (flatten_cnt inner y Ni) as Hi.
    assert (Hnamed : (cntn y (posargs m) + cntn y (pokargs m) + cntn y (kwoargs m)
                      <= cntn y (posargs inner) + cntn y (pokargs inner) + cntn y (kwoargs inner))%nat).
    { rewrite P1, P2, P3. set (hva := isSome (opt_if uva (varargs outer))). set (hvk := isSome (opt_if uvk (varkwargs outer))).
      pose proof (cntn_od_update_le y (od_update [] (kwoargs inner)) (od_update [] (if hva then [] else map (set_kind KO) (pokargs inner)))) as U1.
      pose proof (cntn_od_update_le y (kwoargs inner) []) as U2.
      pose proof (cntn_od_update_le y (if hva then [] else map (set_kind KO) (pokargs inner)) []) as U3.
      rewrite !cntn_nil in *.
      destruct hva, hvk; cbn [andb negb] in *; rewrite ?cntn_app, ?cntn_nil, ?cntn_map_kind in *; lia. }
    assert (Ha : (cntn y (opt_list (varargs m)) <= cntn y (opt_list (varargs inner)))%nat).
    { apply cntn_opt_name. intros p Hp. destruct (Sva p Hp) as (a & b & Ea & _ & En). exists a. auto. }
    assert (Hk : (cntn y (opt_list (varkwargs m)) <= cntn y (opt_list (varkwargs inner)))%nat).
    { apply cntn_opt_name. intros p Hp. destruct (Svk p Hp) as (a & b & Ea & _ & En). exists a. auto. }
    unfold flatten. rewrite !cntn_app. lia. }
  split; [|split].
  - rewrite Es.
    set (o2 := pop_star uvk (varkwargs outer) (pop_star uva (varargs outer) (ssrc outer))).
    assert (N2 : NoDup (keys o2)) by (unfold o2; apply pop_star_nodup; apply pop_star_nodup; exact O1).
    rewrite (overlay_get _ N2). destruct (src_mem o2 x).
    + unfold o2. rewrite !pop_star_get. destruct (popped uvk (varkwargs outer) x); [right; right; reflexivity|].
      destruct (popped uva (varargs outer) x); [right; right; reflexivity | left; reflexivity].
    + assert (Nr : NoDup (names_of (flatten (estars uva uvk outer)))).
      { apply cntn_le_nodup. intros y. unfold flatten. cbn [estars posargs pokargs varargs kwoargs varkwargs app].
        rewrite ?cntn_app.
        destruct (opt_if uva (varargs outer)) as [a|] eqn:Ea; destruct (opt_if uvk (varkwargs outer)) as [k|] eqn:Ek;
          cbn [opt_list app]; rewrite ?cntn_cons, ?cntn_nil; try (destruct (N.eqb y (pname a)); lia);
          try (destruct (N.eqb y (pname k)); lia); try lia.
        destruct uva; [|discriminate Ea]. destruct uvk; [|discriminate Ek]. cbn [opt_if] in Ea, Ek.
        pose proof (Od eq_refl eq_refl a k Ea Ek) as Hne.
        destruct (N.eqb_spec y (pname a)) as [->|]; destruct (N.eqb_spec (pname a) (pname k)); try contradiction; try lia.
        destruct (N.eqb y (pname k)); lia. }
      pose proof (merger_shape inner (estars uva uvk outer) Ni Nr m Em x (Hcnt x)) as H.
      unfold shape, shape1, sside in H. cbn [my estars ssrc src_get] in H. rewrite !app_nil_r in H. cbn [app] in H. tauto.
  - rewrite Es. apply overlay_nodup. exact M1.
  - intros -> -> a k Ha Hk E'. rewrite Hva in Ha. rewrite Hvk in Hk.
    pose proof (Hcnt (pname a)) as H. unfold flatten in H. rewrite !cntn_app, Ha, Hk in H.
    cbn [opt_list] in H. rewrite !cntn_cons, !cntn_nil, E', !N.eqb_refl in H. lia.
Qed.

Lemma embed_steps_src_shape_gen x ss : forall acc uva uvk depth r,
  NoDup (keys (ssrc acc)) -> fwd_distinct uva uvk acc ->
  Forall (fun s => valid_sig (params s) = true) ss ->
  embed_steps acc ss uva uvk depth = Ok r ->
  src_get (ssrc r) x = src_get (ssrc acc) x \/
  (exists s, In s ss /\ src_get (ssrc r) x = src_get (srcs s) x) \/ src_get (ssrc r) x = [].
Proof.
  induction ss as [|s ss IH]; intros acc uva uvk depth r Hacc Hd Hss; cbn [embed_steps].
  - intros E. apply Ok_inj in E. subst r. left. reflexivity.
  - inversion Hss as [|? ? Vs Hss']; subst. intros E.
    apply bind_ok in E. destruct E as [acc' [E1 E2]]. apply to_incompatible_ok in E1.
    destruct (sort_params_kinds s) as (_ & K2 & _).
    destruct (embed_step_src_shape_gen acc (sort_params s) uva uvk depth acc' x Hacc Hd K2
                (sort_params_nodup s Vs) E1) as (H1 & Hacc' & Hd').
    rewrite sort_params_ssrc in H1.
    destruct (IH acc' uva uvk (depth + 1) r Hacc' Hd' Hss' E2) as [H|[(s' & Hs' & H)|H]].
    + rewrite H. destruct H1 as [H1|[H1|H1]];
        [left; exact H1 | right; left; exists s; split; [left; reflexivity | exact H1] | right; right; exact H1].
    + right; left. exists s'. split; [right; exact Hs' | exact H].
    + right; right. exact H.
Qed.

(* (c) as a list, every provenance entry of the n-ary embed is the entry of one of the
   inputs for that name, or empty: embed never concatenates.  Valid inputs whose first map
   is a dictionary; NO star-name hypothesis, no src_ok, no non-emptiness (compare
   ContribMore.embed_src_shape). *)
Theorem embed_n_src_shape s0 ss uva uvk r x :
  embed (s0 :: ss) uva uvk = Ok r ->
  Forall (fun s => valid_sig (params s) = true) (s0 :: ss) -> NoDup (keys (srcs s0)) ->
  src_get (srcs r) x = [] \/ exists s, In s (s0 :: ss) /\ src_get (srcs r) x = src_get (srcs s) x.
Proof.
  cbn [embed]. intros E Hv Hn.
  apply bind_ok in E. destruct E as [acc [E1 E2]].
  destruct (apply_params_fields _ _ _ E2) as [_ Es]. rewrite Es.
  inversion Hv as [|? ? V0 Vr]; subst.
  rewrite <- (sort_params_ssrc s0) in Hn.
  destruct (embed_steps_src_shape_gen x ss (sort_params s0) uva uvk 1 acc Hn
              (nodup_fwd_distinct uva uvk _ (sort_params_nodup s0 V0)) Vr E1) as [H|[(s & Hs & H)|H]].
  - right. exists s0. split; [left; reflexivity|]. rewrite H, sort_params_ssrc. reflexivity.
  - right. exists s. split; [right; exact Hs | exact H].
  - left. exact H.
Qed.

(* hence duplicate-free when the inputs' lists are *)
Theorem embed_n_nodup s0 ss uva uvk r x :
  embed (s0 :: ss) uva uvk = Ok r ->
  Forall (fun s => valid_sig (params s) = true) (s0 :: ss) -> NoDup (keys (srcs s0)) ->
  (forall s, In s (s0 :: ss) -> NoDup (src_get (srcs s) x)) -> NoDup (src_get (srcs r) x).
Proof.
  intros E Hv Hk Hn. destruct (embed_n_src_shape s0 ss uva uvk r x E Hv Hk) as [-> | (s & Hs & ->)];
    [constructor | apply Hn; exact Hs].
Qed.

(* ================================================================== *)
(* Part 5 — the plain n-ary merge fold, ANY signatures                  *)

(* One merger step only ever writes `src[x] = l[x] + r[x]` or extends src[x] by l[x], by
   r[x] or by both: every list is a concatenation of whole operand lists for that very
   name, whatever the operands are (valid or not, names repeated or not). *)
Section Words.
Variables l r : sorted.

Definition wcat (w : list side) (x : name) : list N := flat_map (fun s => sside l r s x) w.
Definition Wd (m : srcmap) : Prop := forall x, exists w, src_get m x = wcat w x.
Definition WS (st : mstate) : Prop := Wd (m_src st).

Lemma wcat_app w w' x : wcat (w ++ w') x = wcat w x ++ wcat w' x.
Proof. unfold wcat. apply flat_map_app. Qed.

Lemma Wd_nil : Wd [].
Proof. intros x. exists []. reflexivity. Qed.

Lemma Wd_add1 m y s : Wd m -> Wd (src_add m y (sside l r s y)).
Proof.
  intros H x. rewrite src_get_add. destruct (N.eqb_spec x y) as [->|]; [|apply H].
  destruct (H y) as [w Hw]. exists (w ++ [s]). rewrite wcat_app, Hw. cbn. rewrite app_nil_r. reflexivity.
Qed.

Lemma Wd_add2 m y a b : Wd m -> Wd (src_add m y (sside l r a y ++ sside l r b y)).
Proof.
  intros H x. rewrite src_get_add. destruct (N.eqb_spec x y) as [->|]; [|apply H].
  destruct (H y) as [w Hw]. exists (w ++ [a; b]). rewrite wcat_app, Hw. cbn. rewrite app_nil_r. reflexivity.
Qed.

Lemma Wd_set m y a b : Wd m -> Wd (src_set m y (sside l r a y ++ sside l r b y)).
Proof.
  intros H x. rewrite src_get_set. destruct (N.eqb_spec x y) as [->|]; [|apply H].
  exists [a; b]. cbn. rewrite app_nil_r. reflexivity.
Qed.

Lemma WS_same st st' : m_src st' = m_src st -> WS st -> WS st'.
Proof. unfold WS. intros ->. auto. Qed.
Lemma WS_add1 st st' y s : m_src st' = src_add (m_src st) y (sside l r s y) -> WS st -> WS st'.
Proof. unfold WS. intros ->. apply Wd_add1. Qed.
Lemma WS_add2 st st' y a b :
  m_src st' = src_add (m_src st) y (sside l r a y ++ sside l r b y) -> WS st -> WS st'.
Proof. unfold WS. intros ->. apply Wd_add2. Qed.
Lemma WS_set st st' y a b :
  m_src st' = src_set (m_src st) y (sside l r a y ++ sside l r b y) -> WS st -> WS st'.
Proof. unfold WS. intros ->. apply Wd_set. Qed.

Lemma kwo_match_W lk : forall st, WS st -> WS (kwo_match l r lk st).
Proof.
  induction lk as [|p lk IH]; intros st H; cbn [kwo_match]; [exact H|]. apply IH.
  destruct (find_param (pname p) (kwoargs r)) as [q|].
  - apply (WS_set st _ (pname p) L R); [reflexivity | exact H].
  - apply (WS_same st); [reflexivity | exact H].
Qed.

Lemma unb_pos1_W s e conv st st' c : WS st -> unb_pos1 l r s e conv st = Ok (st', c) -> WS st'.
Proof.
  intros H. unfold unb_pos1. destruct conv as [|o conv'].
  - destruct (isSome (varargs (other l r s))).
    + intros E. inversion E; subst. apply (WS_add1 st _ (pname e) s); [destruct s; reflexivity | exact H].
    + destruct (negb (has_def e)); [discriminate|]. intros E. inversion E; subst. exact H.
  - intros E. inversion E; subst. destruct (N.eqb (pname o) (pname e)).
    + apply (WS_add2 st _ (pname e) s (match s with L => R | R => L end)); [destruct s; reflexivity | exact H].
    + apply (WS_add1 st _ (pname e) s); [destruct s; reflexivity | exact H].
Qed.

Lemma unb_pos_all_W s ps : forall conv st st' c,
  WS st -> unb_pos_all l r s ps conv st = Ok (st', c) -> WS st'.
Proof.
  induction ps as [|p ps IH]; intros conv st st' c H; cbn [unb_pos_all].
  - intros E. inversion E; subst. exact H.
  - intros E. apply bind_ok in E. destruct E as [[st1 c1] [E1 E2]]. cbn [fst snd] in E2.
    eapply IH; [|exact E2]. eapply unb_pos1_W; [exact H | exact E1].
Qed.

Lemma zip_pos_W lp : forall rp il ir st st' il' ir',
  WS st -> zip_pos l r lp rp il ir st = Ok (st', il', ir') -> WS st'.
Proof.
  induction lp as [|a lp IH]; intros rp il ir st st' il' ir' H.
  - cbn [zip_pos]. intros E. apply bind_ok in E. destruct E as [[st1 c1] [E1 E2]].
    inversion E2; subst. eapply unb_pos_all_W; [exact H | exact E1].
  - destruct rp as [|b rp]; cbn [zip_pos].
    + intros E. apply bind_ok in E. destruct E as [[st1 c1] [E1 E2]].
      inversion E2; subst. eapply unb_pos_all_W; [exact H | exact E1].
    + intros E. eapply IH; [|exact E]. destruct (N.eqb (pname a) (pname b)).
      * apply (WS_add2 st _ (pname a) L R); [reflexivity | exact H].
      * apply (WS_add1 st _ (pname a) L); [reflexivity | exact H].
Qed.

Lemma unb_pok1_W s e st st' : WS st -> unb_pok1 l r s e st = Ok st' -> WS st'.
Proof.
  intros H. unfold unb_pok1.
  destruct (find_param (pname e) (unm st (match s with L => R | R => L end))) as [q|].
  - intros E. inversion E; subst.
    apply (WS_add2 st _ (pname e) (match s with L => R | R => L end) s); [destruct s; reflexivity | exact H].
  - destruct (isSome (varargs (other l r s)) && isSome (varkwargs (other l r s))).
    { intros E. inversion E; subst. apply (WS_add1 st _ (pname e) s); [destruct s; reflexivity | exact H]. }
    destruct (isSome (varkwargs (other l r s))).
    { intros E. inversion E; subst. apply (WS_add1 st _ (pname e) s); [destruct s; reflexivity | exact H]. }
    destruct (isSome (varargs (other l r s))).
    { intros E. inversion E; subst. apply (WS_add1 st _ (pname e) s); [destruct s; reflexivity | exact H]. }
    destruct (negb (has_def e)); [discriminate|]. intros E. inversion E; subst. exact H.
Qed.

Lemma unb_pok_all_W s ps : forall st st', WS st -> unb_pok_all l r s ps st = Ok st' -> WS st'.
Proof.
  induction ps as [|p ps IH]; intros st st' H; cbn [unb_pok_all].
  - intros E. inversion E; subst. exact H.
  - intros E. apply bind_ok in E. destruct E as [st1 [E1 E2]].
    eapply IH; [|exact E2]. eapply unb_pok1_W; [exact H | exact E1].
Qed.

Lemma zip_pok_W il : forall ir st st', WS st -> zip_pok l r il ir st = Ok st' -> WS st'.
Proof.
  induction il as [|a il IH]; intros ir st st' H.
  - cbn [zip_pok]. apply unb_pok_all_W. exact H.
  - destruct ir as [|b ir]; cbn [zip_pok].
    + apply unb_pok_all_W. exact H.
    + intros E. eapply IH; [|exact E]. destruct (N.eqb (pname a) (pname b)).
      * apply (WS_add2 st _ (pname a) L R); [reflexivity | exact H].
      * apply (WS_add1 st _ (pname a) L); [reflexivity | exact H].
Qed.

Lemma fold_add_src1_W s u : forall st,
  WS st -> WS (fold_left (fun a p => add_src1 l r a (pname p) s) u st).
Proof.
  induction u as [|p u IH]; intros st H; cbn [fold_left]; [exact H|]. apply IH.
  apply (WS_add1 st _ (pname p) s); [reflexivity | exact H].
Qed.

Lemma unmatched_kwo_W s st st' : WS st -> unmatched_kwo l r s st = Ok st' -> WS st'.
Proof.
  intros H. unfold unmatched_kwo. destruct (unm st s) as [|q u] eqn:Eu.
  - intros E. inversion E; subst. exact H.
  - destruct (isSome (varkwargs (other l r s))).
    + intros E. apply Ok_inj in E. subst st'.
      apply (WS_same (fold_left (fun a p => add_src1 l r a (pname p) s) (q :: u)
                                (set_kwo st (od_update (m_kwo st) (q :: u))))).
      * destruct s; reflexivity.
      * apply fold_add_src1_W. apply (WS_same st); [reflexivity | exact H].
    + destruct (forallb has_def (q :: u)); [|discriminate]. intros E. inversion E; subst. exact H.
Qed.

Lemma normalise_pok_W st : WS st -> WS (normalise_pok st).
Proof.
  intros H. unfold normalise_pok. destruct (split_po_prefix (m_pok st)) as [a b].
  apply (WS_same st); [reflexivity | exact H].
Qed.

Lemma add_star_W xl xr sl sr st : WS st -> WS (snd (add_star l r xl xr sl sr st)).
Proof.
  intros H. unfold add_star. destruct sl as [a|]; [|exact H]. destruct sr as [b|]; [|exact H].
  destruct (negb xl && negb xr).
  - cbn [snd]. destruct (N.eqb (pname a) (pname b)).
    + apply (WS_add2 st _ (pname a) L R); [reflexivity | exact H].
    + apply (WS_add1 st _ (pname a) L); [reflexivity | exact H].
  - destruct (negb xl); cbn [snd].
    + apply (WS_add1 st _ (pname a) L); [reflexivity | exact H].
    + apply (WS_add1 st _ (pname b) R); [reflexivity | exact H].
Qed.

Theorem merger_words s : merger l r = Ok s -> Wd (ssrc s).
Proof.
  unfold merger. intros E.
  assert (H0 : WS (mkM [] [] [] [] false false false false [] [])) by exact Wd_nil.
  pose proof (kwo_match_W (kwoargs l) _ H0) as H1.
  set (st1 := kwo_match l r (kwoargs l) (mkM [] [] [] [] false false false false [] [])) in *.
  assert (H2 : WS (set_unm st1 R (r_unmatched l r))) by (apply (WS_same st1); [reflexivity | exact H1]).
  apply bind_ok in E. destruct E as [[[st3 il] ir] [E3 E]].
  pose proof (zip_pos_W _ _ _ _ _ _ _ _ H2 E3) as H3.
  apply bind_ok in E. destruct E as [st4 [E4 E]].
  pose proof (zip_pok_W _ _ _ _ H3 E4) as H4.
  apply bind_ok in E. destruct E as [st5 [E5 E]].
  pose proof (unmatched_kwo_W _ _ _ H4 E5) as H5.
  apply bind_ok in E. destruct E as [st6 [E6 E]].
  pose proof (unmatched_kwo_W _ _ _ H5 E6) as H6.
  pose proof (normalise_pok_W _ H6) as H7.
  set (st7 := normalise_pok st6) in *.
  pose proof (add_star_W (m_xva_l st7) (m_xva_r st7) (varargs l) (varargs r) st7 H7) as H8.
  destruct (add_star l r (m_xva_l st7) (m_xva_r st7) (varargs l) (varargs r) st7) as [va st8].
  cbn [snd] in H8.
  pose proof (add_star_W (m_xvk_l st8) (m_xvk_r st8) (varkwargs l) (varkwargs r) st8 H8) as H9.
  destruct (add_star l r (m_xvk_l st8) (m_xvk_r st8) (varkwargs l) (varkwargs r) st8) as [vk st9].
  cbn [snd] in H9. inversion E; subst. exact H9.
Qed.
End Words.

Lemma cat_of_flat_map inputs x (g : side -> list nat) w :
  cat_of inputs x (flat_map g w) = flat_map (fun sd => cat_of inputs x (g sd)) w.
Proof.
  unfold cat_of. induction w as [|sd w IH]; cbn [flat_map]; [reflexivity|].
  rewrite flat_map_app, IH. reflexivity.
Qed.

Lemma merge_steps_shape_n x all rest : forall acc pre r,
  all = pre ++ rest ->
  (exists js, (forall j, In j js -> (j < length pre)%nat) /\ src_get (ssrc acc) x = cat_of all x js) ->
  merge_steps acc rest = Ok r ->
  exists js, (forall j, In j js -> (j < length all)%nat) /\ src_get (ssrc r) x = cat_of all x js.
Proof.
  induction rest as [|s rest IH]; intros acc pre r Hall (js & J2 & J3); cbn [merge_steps].
  - intros E. apply Ok_inj in E. subst r. exists js. split; [|exact J3].
    intros j Hj. rewrite Hall, app_nil_r. apply J2. exact Hj.
  - intros E. apply bind_ok in E. destruct E as [acc' [E1 E2]]. apply to_incompatible_ok in E1.
    assert (Hs : nth (length pre) (pre ++ s :: rest) nosig = s)
      by (rewrite app_nth2, Nat.sub_diag by lia; reflexivity).
    apply (IH acc' (pre ++ [s]) r); [rewrite <- app_assoc; exact Hall | | exact E2].
    destruct (merger_words _ _ _ E1 x) as [w Hw].
    set (g := fun sd : side => match sd with L => js | R => [length pre] end).
    exists (flat_map g w). split.
    + intros j Hj. apply in_flat_map in Hj. destruct Hj as [sd [_ Hj]]. rewrite app_length. cbn [length].
      destruct sd; cbn [g] in Hj; [apply J2 in Hj; lia | destruct Hj as [<-|[]]; lia].
    + rewrite Hw, cat_of_flat_map. unfold wcat. apply flat_map_ext. intros sd.
      unfold sside. destruct sd; cbn [my g].
      * exact J3.
      * rewrite sort_params_ssrc. unfold cat_of. cbn [flat_map]. rewrite Hall, Hs, app_nil_r. reflexivity.
Qed.

(* (d) the plain n-ary merge fold, ANY signatures (not even valid ones), no role
   consistency: every provenance list of the result is a concatenation of whole input
   lists for that name.  This is the strongest true variant of merge_src_shape_rc without
   its hypotheses: what is lost is `NoDup js` (each input at most once), which is false —
   merge_src_shape_n_refuted. *)
Theorem merge_src_shape_n_partial ss r x :
  merge ss = Ok r ->
  exists js, (forall j, In j js -> (j < length ss)%nat) /\ src_get (srcs r) x = cat_of ss x js.
Proof.
  destruct ss as [|s0 rest]; [discriminate|]. cbn [merge]. intros E.
  apply bind_ok in E. destruct E as [acc [E1 E2]].
  destruct (apply_params_fields _ _ _ E2) as [_ Es]. rewrite Es.
  apply (merge_steps_shape_n x (s0 :: rest) rest (sort_params s0) [s0] acc); [reflexivity | | exact E1].
  exists [0%nat]. split; [intros j [<-|[]]; cbn; lia|].
  rewrite sort_params_ssrc. unfold cat_of. cbn. rewrite app_nil_r. reflexivity.
Qed.

(* the statement of merge_src_shape_rc without role consistency is false: four valid
   inputs with well-formed maps, merge((a=1, /, *args), (b=1, /, a=1), ( *args), (c=1, /))
   = (a=1, /) with a: [s1, s2, s1, s2] — no duplicate-free choice of inputs gives that list *)
Theorem merge_src_shape_n_refuted :
  exists s1 s2 s3 s4 r x,
    Forall (fun s => valid_sig (params s) = true) [s1; s2; s3; s4] /\
    Forall src_ok [s1; s2; s3; s4] /\
    merge [s1; s2; s3; s4] = Ok r /\
    ~ exists js, NoDup js /\ (forall j, In j js -> (j < length [s1; s2; s3; s4])%nat) /\
                 src_get (srcs r) x = cat_of [s1; s2; s3; s4] x js.
Proof.
  set (s1 := dsig 100 [mkParam 1 PO (Some 1) None UEmpty; bp 9 VP]).
  set (s2 := dsig 101 [mkParam 2 PO (Some 1) None UEmpty; mkParam 1 PK (Some 1) None UEmpty]).
  set (s3 := dsig 102 [bp 9 VP]). set (s4 := dsig 103 [mkParam 3 PO (Some 1) None UEmpty]).
  exists s1, s2, s3, s4. eexists. exists 1.
  split; [repeat constructor|].
  split.
  { constructor; [apply dsig_src_ok; vm_compute; reflexivity|].
    constructor; [apply dsig_src_ok; vm_compute; reflexivity|].
    constructor; [apply dsig_src_ok; vm_compute; reflexivity|].
    constructor; [apply dsig_src_ok; vm_compute; reflexivity|]. constructor. }
  split; [vm_compute; reflexivity|].
  assert (G : forall j, src_get (srcs (nth j [s1; s2; s3; s4] nosig)) 1 =
                        match j with 0%nat => [100] | 1%nat => [101] | _ => [] end).
  { intros [|[|[|[|j]]]]; try reflexivity. cbn [nth]. destruct j; reflexivity. }
  assert (A : forall ks, ~ In 0%nat ks -> cnt 100 (cat_of [s1; s2; s3; s4] 1 ks) = 0%nat).
  { intros ks. induction ks as [|j ks IH]; intros Hj; [reflexivity|]. unfold cat_of. cbn [flat_map].
    fold (cat_of [s1; s2; s3; s4] 1 ks). rewrite cnt_app, G, IH by (intros H; apply Hj; right; exact H).
    destruct j as [|[|j]]; [exfalso; apply Hj; left; reflexivity | reflexivity | reflexivity]. }
  assert (B : forall ks, NoDup ks -> (cnt 100%N (cat_of [s1; s2; s3; s4] 1%N ks) <= 1)%nat).
  { intros ks. induction ks as [|j ks IH]; intros Hd; [cbn; lia|]. inversion Hd as [|? ? Hj Hd']; subst.
    unfold cat_of. cbn [flat_map]. fold (cat_of [s1; s2; s3; s4] 1 ks). rewrite cnt_app, G.
    destruct j as [|[|j]].
    - rewrite (A ks Hj). cbn. lia.
    - specialize (IH Hd'). cbn. lia.
    - specialize (IH Hd'). cbn. lia. }
  intros (js & Hn & _ & Hc).
  specialize (B js Hn). rewrite <- Hc in B. vm_compute in B. lia.
Qed.

(* ================================================================== *)
(* Part 6 — stars_apart_fold is implied by stars_apart; examples        *)

Lemma apart_steps_of_apart (NN VA VK : list name)
  (NN_VA : forall x, In x NN -> ~ In x VA) (NN_VK : forall x, In x NN -> ~ In x VK)
  (VA_VK : forall x, In x VA -> ~ In x VK) uva uvk ss : forall nn va vk,
  (forall y, In y nn -> In y NN) -> (forall a, va = Some a -> In a VA) -> (forall k, vk = Some k -> In k VK) ->
  Forall (fun s => sorted_in NN VA VK (sort_params s)) ss ->
  apart_steps uva uvk nn va vk ss = true.
Proof.
  induction ss as [|s ss IH]; intros nn va vk Hnn Hva Hvk Hss; cbn [apart_steps]; [reflexivity|].
  inversion Hss as [|? ? (S1 & S2 & S3) Hss']; subst. apply andb_true_iff. split.
  - unfold fwd_okb. apply andb_true_iff. split.
    + destruct va as [a|]; [|reflexivity]. specialize (Hva a eq_refl).
      assert (E : mem a nn = false).
      { apply mem_false_In. intros H. exact (NN_VA a (Hnn a H) Hva). }
      rewrite E. cbn [negb andb]. destruct vk as [k|]; [|destruct uva, uvk; reflexivity].
      destruct (N.eqb_spec a k) as [->|]; [|destruct uva, uvk; reflexivity].
      exfalso. exact (VA_VK k Hva (Hvk k eq_refl)).
    + destruct vk as [k|]; [|reflexivity]. specialize (Hvk k eq_refl).
      assert (E : mem k nn = false).
      { apply mem_false_In. intros H. exact (NN_VK k (Hnn k H) Hvk). }
      rewrite E. cbn [negb andb]. destruct va as [a|]; [|destruct uva, uvk; reflexivity].
      destruct (N.eqb_spec k a) as [->|]; [|destruct uva, uvk; reflexivity].
      exfalso. exact (VA_VK a (Hva a eq_refl) Hvk).
  - apply IH; [| | |exact Hss'].
    + intros y Hy. apply in_app_or in Hy. destruct Hy as [Hy|Hy]; [apply Hnn; exact Hy|].
      apply S1. apply mem_In. exact Hy.
    + intros a. unfold next_star. destruct uva; [|apply Hva].
      destruct va as [a0|]; [|discriminate]. destruct (varargs (sort_params s)) as [p|] eqn:Ep; [|discriminate].
      intros E. inversion E; subst. apply S2. reflexivity.
    + intros k. unfold next_star. destruct uvk; [|apply Hvk].
      destruct vk as [k0|]; [|discriminate]. destruct (varkwargs (sort_params s)) as [p|] eqn:Ep; [|discriminate].
      intros E. inversion E; subst. apply S3. reflexivity.
Qed.

(* the global hypothesis of ProvKeys.embed_src_ok implies the fold-wise one, for any flags:
   embed_n_src_ok subsumes ProvKeys.embed_src_ok *)
Theorem stars_apart_fold_weaker uva uvk ss :
  stars_apart ss = true -> stars_apart_fold uva uvk ss = true.
Proof.
  destruct ss as [|s0 ss]; [reflexivity|]. intros Hap. cbn [stars_apart_fold].
  unfold stars_apart in Hap. apply andb_true_iff in Hap. destruct Hap as [Hap A3].
  apply andb_true_iff in Hap. destruct Hap as [A1 A2].
  pose proof (sort_params_sorted_in (s0 :: ss) s0 (or_introl eq_refl)) as (S1 & S2 & S3).
  apply (apart_steps_of_apart (named_names (s0 :: ss)) (va_names (s0 :: ss)) (vk_names (s0 :: ss))
           (disjointb_spec _ _ A1) (disjointb_spec _ _ A2) (disjointb_spec _ _ A3)).
  - intros y Hy. apply S1. apply mem_In. exact Hy.
  - intros a. destruct (varargs (sort_params s0)) as [p|] eqn:Ep; [|discriminate].
    intros E. inversion E; subst. apply S2. reflexivity.
  - intros k. destruct (varkwargs (sort_params s0)) as [p|] eqn:Ep; [|discriminate].
    intros E. inversion E; subst. apply S3. reflexivity.
  - apply Forall_forall. intros s Hs. apply sort_params_sorted_in. right. exact Hs.
Qed.

(* boolean form of src_ok *)
Fixpoint nodupb (ns : list N) : bool :=
  match ns with [] => true | x :: ns' => negb (mem x ns') && nodupb ns' end.

Lemma nodupb_spec ns : nodupb ns = true <-> NoDup ns.
Proof.
  induction ns as [|x ns IH]; cbn [nodupb]; [split; [constructor | reflexivity]|].
  rewrite andb_true_iff, negb_true_iff, IH. split.
  - intros [A B]. constructor; [apply mem_false_In; exact A | exact B].
  - intros H. inversion H as [|? ? A B]; subst. split; [apply mem_false_In; exact A | exact B].
Qed.

Definition src_okb (s : sigT) : bool :=
  nodupb (keys (srcs s)) &&
  forallb (fun x => mem x (names_of (params s))) (keys (srcs s)) &&
  forallb (fun x => src_mem (srcs s) x && match src_get (srcs s) x with [] => false | _ => true end)
          (names_of (params s)).

Lemma src_okb_spec s : src_okb s = true <-> src_ok s.
Proof.
  unfold src_okb, src_ok, wf_src. rewrite !andb_true_iff, nodupb_spec, !forallb_forall. split.
  - intros [[A B] C]. split; [exact A|]. split.
    + intros x. destruct (src_mem (srcs s) x) eqn:E1; destruct (mem x (names_of (params s))) eqn:E2; try reflexivity.
      * rewrite src_mem_keys in E1. apply mem_In in E1. rewrite (B x E1) in E2. discriminate E2.
      * apply mem_In in E2. specialize (C x E2). rewrite E1 in C. discriminate C.
    + intros x Hx. apply mem_In in Hx. specialize (C x Hx). apply andb_true_iff in C. destruct C as [_ C].
      intros E. rewrite E in C. discriminate C.
  - intros (A & B & C). split; [split; [exact A|]|].
    + intros x Hx. rewrite <- B, src_mem_keys. apply mem_In. exact Hx.
    + intros x Hx. apply mem_In in Hx. rewrite B, Hx. cbn [andb]. specialize (C x Hx).
      destruct (src_get (srcs s) x); [contradiction C; reflexivity | reflexivity].
Qed.

(* (a) the hypotheses are satisfiable where stars_apart is NOT: the last signature has
   named parameters spelled like the stars of the earlier ones *)
Example embed_n_src_ok_sat :
  exists r, embed [dsig 100 [bp 1 PK; bp 9 VP; bp 10 VK]; dsig 101 [bp 2 PK; bp 9 VP; bp 10 VK];
                   dsig 102 [bp 9 PK; bp 10 KO]] true true = Ok r /\
    valid_sig (params (dsig 100 [bp 1 PK; bp 9 VP; bp 10 VK])) = true /\
    stars_apart_fold true true [dsig 100 [bp 1 PK; bp 9 VP; bp 10 VK]; dsig 101 [bp 2 PK; bp 9 VP; bp 10 VK];
                                dsig 102 [bp 9 PK; bp 10 KO]] = true /\
    stars_apart [dsig 100 [bp 1 PK; bp 9 VP; bp 10 VK]; dsig 101 [bp 2 PK; bp 9 VP; bp 10 VK];
                 dsig 102 [bp 9 PK; bp 10 KO]] = false /\
    src_ok (dsig 100 [bp 1 PK; bp 9 VP; bp 10 VK]) /\
    Forall src_nonempty [dsig 101 [bp 2 PK; bp 9 VP; bp 10 VK]; dsig 102 [bp 9 PK; bp 10 KO]] /\
    srcs r = [(9, [102]); (10, [102]); (2, [101]); (1, [100])] /\ src_ok r.
Proof.
  eexists. split; [vm_compute; reflexivity|]. split; [vm_compute; reflexivity|].
  split; [vm_compute; reflexivity|]. split; [vm_compute; reflexivity|].
  split; [apply dsig_src_ok; vm_compute; reflexivity|].
  split; [constructor; [apply src_ok_nonempty; apply dsig_src_ok; vm_compute; reflexivity|];
          constructor; [apply src_ok_nonempty; apply dsig_src_ok; vm_compute; reflexivity|constructor]|].
  split; [reflexivity|]. apply src_okb_spec. vm_compute. reflexivity.
Qed.

(* the refutation witness of ProvKeys.embed_src_ok_refuted is excluded by the fold-wise
   hypothesis, at the step that embeds the third signature *)
Example stars_apart_fold_excludes_refutation :
  stars_apart_fold true true [dsig 100 [bp 1 PK; bp 9 VP; bp 10 VK]; dsig 101 [bp 1 VP; bp 10 VK];
                              dsig 102 [bp 11 VP]] = false /\
  stars_apart_fold true true [dsig 100 [bp 1 PK; bp 9 VP; bp 10 VK]; dsig 101 [bp 1 VP; bp 10 VK]] = true.
Proof. split; vm_compute; reflexivity. Qed.

(* the hypothesis is sufficient, not necessary, for four signatures or more: a named
   parameter that an earlier step DROPPED (an optional keyword-only parameter of a signature
   embedded into one without **kwargs) is still counted.
   embed(( *args), ( *args, a=1), ( *a), ( *args)) = ( *args), well-formed map. *)
Example stars_apart_fold_not_necessary :
  exists r, embed [dsig 100 [bp 9 VP]; dsig 101 [bp 9 VP; mkParam 1 KO (Some 1) None UEmpty];
                   dsig 102 [bp 1 VP]; dsig 103 [bp 9 VP]] true true = Ok r /\
    stars_apart_fold true true [dsig 100 [bp 9 VP]; dsig 101 [bp 9 VP; mkParam 1 KO (Some 1) None UEmpty];
                                dsig 102 [bp 1 VP]; dsig 103 [bp 9 VP]] = false /\
    src_ok r.
Proof.
  eexists. split; [vm_compute; reflexivity|]. split; [vm_compute; reflexivity|].
  apply src_okb_spec. vm_compute. reflexivity.
Qed.

(* (b), (c): satisfiable, also where the star names collide *)
Example embed_n_shape_sat :
  exists r, embed [dsig 100 [bp 1 PK; bp 9 VP; bp 10 VK]; dsig 101 [bp 1 VP; bp 10 VK];
                   dsig 102 [bp 11 VP]] true true = Ok r /\
    Forall (fun s => valid_sig (params s) = true)
           [dsig 100 [bp 1 PK; bp 9 VP; bp 10 VK]; dsig 101 [bp 1 VP; bp 10 VK]; dsig 102 [bp 11 VP]] /\
    NoDup (keys (srcs (dsig 100 [bp 1 PK; bp 9 VP; bp 10 VK]))) /\
    srcs r = [(11, [102])] /\ names_of (params r) = [1; 11].
Proof.
  eexists. split; [vm_compute; reflexivity|]. split; [repeat constructor|].
  split; [apply nodupb_spec; vm_compute; reflexivity|]. split; reflexivity.
Qed.

(* (d): no hypothesis to satisfy; a fold that is not role consistent *)
Example merge_src_shape_n_sat :
  exists r, merge [dsig 100 [mkParam 1 PO (Some 1) None UEmpty; bp 9 VP];
                   dsig 101 [mkParam 2 PO (Some 1) None UEmpty; mkParam 1 PK (Some 1) None UEmpty];
                   dsig 102 [bp 9 VP]; dsig 103 [mkParam 3 PO (Some 1) None UEmpty]] = Ok r /\
    role_consistent (map params [dsig 100 [mkParam 1 PO (Some 1) None UEmpty; bp 9 VP];
                   dsig 101 [mkParam 2 PO (Some 1) None UEmpty; mkParam 1 PK (Some 1) None UEmpty];
                   dsig 102 [bp 9 VP]; dsig 103 [mkParam 3 PO (Some 1) None UEmpty]]) = false /\
    src_get (srcs r) 1 = cat_of [dsig 100 [mkParam 1 PO (Some 1) None UEmpty; bp 9 VP];
                   dsig 101 [mkParam 2 PO (Some 1) None UEmpty; mkParam 1 PK (Some 1) None UEmpty];
                   dsig 102 [bp 9 VP]; dsig 103 [mkParam 3 PO (Some 1) None UEmpty]] 1 [0; 1; 0; 1]%nat.
Proof. eexists. split; [vm_compute; reflexivity|]. split; vm_compute; reflexivity. Qed.

(* ================================================================== *)
(* Part 7 — bounded cross-check: hypothesis <-> well-formed result      *)

(* 35 valid signatures: at most one named parameter (a, a=1, keyword-only a, or b), *args
   spelled args or a, **kwargs spelled kwargs, a or args — every way a star of one
   signature can be spelled like a parameter of another *)
Definition mkp (x : name) (k : kind) (d : option N) : param := mkParam x k d None UEmpty.
Definition Ux : list (list param) :=
  filter valid_sig
    (flat_map (fun n => flat_map (fun a => map (fun k =>
        match n with
        | [p] => if kind_eqb (pkind p) KO then a ++ n ++ k else n ++ a ++ k
        | _ => n ++ a ++ k
        end) [[]; [mkp 10 VK None]; [mkp 1 VK None]; [mkp 9 VK None]])
      [[]; [mkp 9 VP None]; [mkp 1 VP None]])
      [[]; [mkp 1 PK None]; [mkp 1 KO None]; [mkp 1 PK (Some 1)]; [mkp 2 PK None]]).

Definition exact_case (uva uvk : bool) (a b c : list param) : bool :=
  let ss := [dsig 100 a; dsig 101 b; dsig 102 c] in
  match embed ss uva uvk with
  | Ok r => Bool.eqb (src_okb r) (stars_apart_fold uva uvk ss)
  | Err _ => true
  end.

Definition exact_on (U : list (list param)) : bool :=
  forallb (fun uva => forallb (fun uvk =>
    forallb (fun a => forallb (fun b => forallb (fun c => exact_case uva uvk a b c) U) U) U)
    [true; false]) [true; false].

Lemma exact_on_spec U : exact_on U = true ->
  forall uva uvk a b c r, In a U -> In b U -> In c U ->
  embed [dsig 100 a; dsig 101 b; dsig 102 c] uva uvk = Ok r ->
  (src_ok r <-> stars_apart_fold uva uvk [dsig 100 a; dsig 101 b; dsig 102 c] = true).
Proof.
  unfold exact_on. intros H uva uvk a b c r Ha Hb Hc E.
  rewrite forallb_forall in H. specialize (H uva). rewrite forallb_forall in H.
  assert (Hf : forall v : bool, In v [true; false]) by (intros [|]; cbn; auto).
  specialize (H (Hf uva) uvk (Hf uvk)). rewrite forallb_forall in H. specialize (H a Ha).
  rewrite forallb_forall in H. specialize (H b Hb). rewrite forallb_forall in H. specialize (H c Hc).
  unfold exact_case in H. rewrite E in H. apply Bool.eqb_prop in H. rewrite <- H. symmetry. apply src_okb_spec.
Qed.

Lemma exact_on_Ux : exact_on Ux = true.
Proof. vm_compute. reflexivity. Qed.

(* on every triple of this universe and all four flag settings, whenever the embed
   succeeds, the result's provenance map is well formed IF AND ONLY IF the fold-wise
   hypothesis holds (171500 cases, 42179 successful embeds, 2407 of them ill-formed) *)
Theorem stars_apart_fold_iff_bounded :
  forall uva uvk a b c r, In a Ux -> In b Ux -> In c Ux ->
  embed [dsig 100 a; dsig 101 b; dsig 102 c] uva uvk = Ok r ->
  (src_ok r <-> stars_apart_fold uva uvk [dsig 100 a; dsig 101 b; dsig 102 c] = true).
Proof. exact (exact_on_spec Ux exact_on_Ux). Qed.

Example Ux_size : length Ux = 35%nat.
Proof. vm_compute. reflexivity. Qed.

Print Assumptions merger_star_names.
Print Assumptions embed_n_src_ok.
Print Assumptions embed_n_truthful.
Print Assumptions embed_n_truthful_entries.
Print Assumptions embed_n_truthful_needs_dict.
Print Assumptions embed_n_src_shape.
Print Assumptions embed_n_nodup.
Print Assumptions merger_words.
Print Assumptions merge_src_shape_n_partial.
Print Assumptions merge_src_shape_n_refuted.
Print Assumptions stars_apart_fold_weaker.
Print Assumptions src_okb_spec.
Print Assumptions embed_n_src_ok_sat.
Print Assumptions stars_apart_fold_excludes_refutation.
Print Assumptions stars_apart_fold_not_necessary.
Print Assumptions embed_n_shape_sat.
Print Assumptions merge_src_shape_n_sat.
Print Assumptions stars_apart_fold_iff_bounded.
