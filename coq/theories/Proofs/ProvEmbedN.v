(* ProvEmbedN.v — C08 provenance theorems for the N-ARY embed, and the list shape of
   the plain n-ary merge fold with no hypothesis at all.

   Part 1  the stars of `merger l (bare star operand)` are l's stars, by name
   Part 2  stars_apart_fold: the star-name hypothesis, pairwise along the fold
           (much weaker than ProvKeys.stars_apart; exact on the bounded universe of
           Part 7); embed_n_src_ok
   Part 3  embed_n_truthful (only: the first map is a dictionary)
   Part 4  embed_n_src_shape / embed_n_nodup WITHOUT any star-name hypothesis
   Part 5  merge_src_shape_n: the fold concatenates whole input lists, for ANY inputs
           (merge_src_shape_n_partial); "each at most once" is false
           (merge_src_shape_n_refuted)
   Part 6  stars_apart implies stars_apart_fold; examples
   Part 7  bounded evidence that stars_apart_fold is the weakest hypothesis *)
From Coq Require Import List NArith Bool Arith Lia Btauto.
From Sigtools.Model Require Import Base Bind Roles Algebra.
From Sigtools.Proofs Require Import SmallModel Basics Prov MaskLaws MaskExact MergeNeutral Annot
     ProvKeys Contrib ProvNoDup ContribEmbed ProvNoDupOps ContribMore.
Import Base Bind Roles Algebra.
Import ListNotations.
Open Scope N_scope.

(* ================================================================== *)
(* Part 1 — the stars of merger l r when r has no named parameter      *)

Lemma merger_star_names l r s :
  merger l r = Ok s -> named r = [] ->
  (forall p, varargs s = Some p ->
     exists a b, varargs l = Some a /\ varargs r = Some b /\ pname p = pname a) /\
  (forall p, varkwargs s = Some p ->
     exists a b, varkwargs l = Some a /\ varkwargs r = Some b /\ pname p = pname a).
Proof.
  unfold merger. intros E Hr.
  pose proof (kwo_match_Inv l r [] (kwoargs l) _ (fun p H => H) (Inv_init l r)) as H1.
  set (st1 := kwo_match l r (kwoargs l) (mkM [] [] [] [] false false false false [] [])) in *.
  assert (H2 : Inv l r [] (set_unm st1 R (r_unmatched l r))).
  { apply (Inv_frame l r [] st1 _ H1); try reflexivity.
    - cbn. auto.
    - cbn. auto.
    - cbn. apply (Inv_lunm _ _ _ _ H1).
    - cbn [set_unm m_runm]. unfold r_unmatched. intros p Hp. apply filter_In in Hp. apply Hp. }
  apply bind_ok in E. destruct E as [[[st3 il] ir] [E3 E]].
  destruct (zip_pos_Inv l r [] _ _ _ _ _ _ _ _ (Forall_NS_pos l r L) (Forall_NS_pos l r R)
              (Forall_NS_pok l r L) (Forall_NS_pok l r R) H2 E3) as [H3 [Hil Hir]].
  apply bind_ok in E. destruct E as [st4 [E4 E]].
  pose proof (zip_pok_Inv l r [] _ _ _ _ Hil Hir H3 E4) as H4.
  apply bind_ok in E. destruct E as [st5 [E5 E]].
  pose proof (unmatched_kwo_Inv l r [] _ _ _ H4 E5) as H5.
  apply bind_ok in E. destruct E as [st6 [E6 E]].
  pose proof (unmatched_kwo_Inv l r [] _ _ _ H5 E6) as H6.
  pose proof (normalise_pok_Inv l r [] _ H6) as H7.
  set (st7 := normalise_pok st6) in *.
  destruct (add_star l r (m_xva_l st7) (m_xva_r st7) (varargs l) (varargs r) st7) as [va st8] eqn:E8.
  destruct (add_star_Inv l r [] _ _ _ _ _ _ _ H7 (opt_in_flatten_va l) (opt_in_flatten_va r)
              (proj1 (proj2 (proj2 (proj2 (proj2 H7))))) E8) as [H8 _].
  destruct (add_star l r (m_xvk_l st8) (m_xvk_r st8) (varkwargs l) (varkwargs r) st8) as [vk st9] eqn:E9.
  assert (X7 : m_xva_l st7 = false).
  { destruct (m_xva_l st7) eqn:X; [|reflexivity]. exfalso.
    apply (proj1 (proj2 (proj2 (proj2 (proj2 H7)))) X). exact Hr. }
  assert (X8 : m_xvk_l st8 = false).
  { destruct (m_xvk_l st8) eqn:X; [|reflexivity]. exfalso.
    apply (proj1 (proj2 (proj2 (proj2 (proj2 (proj2 H8))))) X). exact Hr. }
  inversion E; subst. clear E. cbn [varargs varkwargs].
  rewrite X7 in E8. rewrite X8 in E9. unfold add_star in E8, E9. cbn [negb andb] in E8, E9.
  split.
  - intros p Hp. subst va.
    destruct (varargs l) as [a|]; [|discriminate E8]. destruct (varargs r) as [b|]; [|discriminate E8].
    exists a, b. split; [reflexivity|]. split; [reflexivity|].
    destruct (negb (m_xva_r st7)); inversion E8; subst; reflexivity.
  - intros p Hp. subst vk.
    destruct (varkwargs l) as [a|]; [|discriminate E9]. destruct (varkwargs r) as [b|]; [|discriminate E9].
    exists a, b. split; [reflexivity|]. split; [reflexivity|].
    destruct (negb (m_xvk_r st8)); inversion E9; subst; reflexivity.
Qed.

(* ================================================================== *)
(* Part 2 — the star-name hypothesis along the fold                    *)

(* What one step of the fold needs of its accumulator, in terms of names only:
   nn = the names of the named parameters collected so far, va / vk = the name of the
   accumulator's star parameters.  A star that the step forwards (use flag on) must not
   be spelled like a collected named parameter, nor like the other star when that one
   is kept. *)
Definition fwd_okb (uva uvk : bool) (nn : list name) (va vk : option name) : bool :=
  match va with
  | Some a => negb uva || (negb (mem a nn)
                           && (uvk || match vk with Some k => negb (N.eqb a k) | None => true end))
  | None => true
  end &&
  match vk with
  | Some k => negb uvk || (negb (mem k nn)
                           && (uva || match va with Some a => negb (N.eqb k a) | None => true end))
  | None => true
  end.

(* the star of the accumulator after embedding a signature whose star is o: with the use
   flag on it is the embedded signature's star (by name) if both have one, no star
   otherwise; with the flag off the accumulator keeps its own *)
Definition next_star (use : bool) (cur : option name) (o : option param) : option name :=
  if use then match cur, o with Some _, Some p => Some (pname p) | _, _ => None end else cur.

Fixpoint apart_steps (uva uvk : bool) (nn : list name) (va vk : option name) (ss : list sigT) : bool :=
  match ss with
  | [] => true
  | s :: ss' =>
      fwd_okb uva uvk nn va vk &&
      apart_steps uva uvk (nn ++ names_of (named (sort_params s)))
                  (next_star uva va (varargs (sort_params s)))
                  (next_star uvk vk (varkwargs (sort_params s))) ss'
  end.

(* pairwise along the fold: before the k-th signature is embedded, the forwarded stars
   of what has been accumulated (the stars of signature k-1 as long as every earlier
   signature has them) are not spelled like a named parameter of signatures 0..k-1.
   Nothing is asked of the last signature's stars, nor of named parameters of LATER
   signatures. *)
Definition stars_apart_fold (uva uvk : bool) (ss : list sigT) : bool :=
  match ss with
  | [] => true
  | s0 :: ss' =>
      apart_steps uva uvk (names_of (named (sort_params s0)))
                  (option_map pname (varargs (sort_params s0)))
                  (option_map pname (varkwargs (sort_params s0))) ss'
  end.

Definition tracks (nn : list name) (va vk : option name) (acc : sorted) : Prop :=
  (forall y, memn y (named acc) = true -> In y nn) /\
  (forall p, varargs acc = Some p -> va = Some (pname p)) /\
  (forall p, varkwargs acc = Some p -> vk = Some (pname p)).

Lemma tracks_fwd_apart uva uvk nn va vk acc :
  tracks nn va vk acc -> fwd_okb uva uvk nn va vk = true -> fwd_apart uva uvk acc.
Proof.
  intros (T1 & T2 & T3) H. unfold fwd_okb in H. apply andb_true_iff in H. destruct H as [Ha Hk].
  split.
  - intros -> p Hp. rewrite (T2 p Hp) in Ha. cbn [negb orb] in Ha.
    apply andb_true_iff in Ha. destruct Ha as [A1 A2]. apply negb_true_iff in A1. split.
    + destruct (memn (pname p) (named acc)) eqn:E; [|reflexivity].
      apply T1 in E. apply mem_In in E. rewrite E in A1. discriminate A1.
    + intros ->. cbn [orb] in A2. rewrite memn_opt. destruct (varkwargs acc) as [q|] eqn:Eq; [|reflexivity].
      rewrite (T3 q eq_refl) in A2. apply negb_true_iff in A2. exact A2.
  - intros -> p Hp. rewrite (T3 p Hp) in Hk. cbn [negb orb] in Hk.
    apply andb_true_iff in Hk. destruct Hk as [A1 A2]. apply negb_true_iff in A1. split.
    + destruct (memn (pname p) (named acc)) eqn:E; [|reflexivity].
      apply T1 in E. apply mem_In in E. rewrite E in A1. discriminate A1.
    + intros ->. cbn [orb] in A2. rewrite memn_opt. destruct (varargs acc) as [q|] eqn:Eq; [|reflexivity].
      rewrite (T2 q eq_refl) in A2. apply negb_true_iff in A2. exact A2.
Qed.

(* the parts of an embed step *)
Lemma embed_step_inv outer inner uva uvk depth s :
  embed_step outer inner uva uvk depth = Ok s ->
  exists m, merger inner (estars uva uvk outer) = Ok m /\
    (forall y, memn y (named s) = true -> memn y (named outer) = true \/ memn y (named m) = true) /\
    varargs s = (if uva then varargs m else varargs outer) /\
    varkwargs s = (if uvk then varkwargs m else varkwargs outer) /\
    ssrc s = overlay (pop_star uvk (varkwargs outer) (pop_star uva (varargs outer) (ssrc outer))) (ssrc m).
Proof.
  unfold embed_step. intros E.
  apply bind_ok in E. destruct E as [i [Ei E]]. exists i. split; [exact Ei|].
  apply bind_ok in E. destruct E as [n1 [_ E]].
  apply bind_ok in E. destruct E as [n2 [_ E]].
  apply bind_ok in E. destruct E as [[[e_pos e_pok] n3] [Ee E]].
  assert (He : forall y, memn y (e_pos ++ e_pok ++ pokargs i) =
                         memn y (posargs outer) || memn y (pokargs outer)
                         || memn y (posargs i) || memn y (pokargs i)).
  { intros y. rewrite !memn_app. destruct (posargs i) as [|ip0 ips] eqn:Epi.
    - rewrite memn_nil. destruct (pokargs i) as [|ik0 iks] eqn:Epk.
      + inversion Ee; subst. btauto.
      + destruct (has_def ik0); inversion Ee; subst; rewrite ?memn_clear; btauto.
    - apply bind_ok in Ee. destruct Ee as [n3' [_ Ee]]. inversion Ee; subst.
      destruct (has_def ip0);
        repeat first [rewrite memn_clear | rewrite memn_app | rewrite memn_map_kind | rewrite memn_nil]; btauto. }
  apply bind_ok in E. destruct E as [n4 [_ E]].
  apply bind_ok in E. destruct E as [n5 [_ E]].
  apply bind_ok in E. destruct E as [n6 [_ E]].
  inversion E; subst. clear E. cbn [varargs varkwargs ssrc]. split; [|split; [reflexivity|split; [reflexivity|]]].
  - intros y. unfold named at 1. cbn [posargs pokargs kwoargs].
    rewrite app_assoc, memn_app, He, !memn_od_update, memn_nil. intros H.
    unfold named. rewrite !memn_app.
    destruct (memn y (posargs outer)), (memn y (pokargs outer)), (memn y (kwoargs outer)),
      (memn y (posargs i)), (memn y (pokargs i)), (memn y (kwoargs i)); cbn in *; auto.
  - unfold overlay, pop_star. destruct (varargs outer); destruct (varkwargs outer); reflexivity.
Qed.

Lemma named_estars uva uvk so : named (estars uva uvk so) = [].
Proof. reflexivity. Qed.

Lemma embed_step_tracks outer inner uva uvk depth s nn va vk :
  tracks nn va vk outer ->
  embed_step outer inner uva uvk depth = Ok s ->
  tracks (nn ++ names_of (named inner)) (next_star uva va (varargs inner))
         (next_star uvk vk (varkwargs inner)) s.
Proof.
  intros (T1 & T2 & T3) E.
  destruct (embed_step_inv _ _ _ _ _ _ E) as (m & Em & Hn & Hva & Hvk & _).
  destruct (merger_Inv _ _ _ Em) as (_ & _ & _ & _ & Pn & _).
  destruct (merger_star_names _ _ _ Em (named_estars uva uvk outer)) as [Sva Svk].
  cbn [estars varargs varkwargs] in Sva, Svk.
  split; [|split].
  - intros y Hy. apply in_or_app. destruct (Hn y Hy) as [H|H]; [left; apply T1; exact H|].
    right. apply Pn in H. rewrite named_estars, app_nil_r in H. apply mem_In. exact H.
  - intros p. rewrite Hva. unfold next_star. destruct uva; [|apply T2].
    intros Hp. destruct (Sva p Hp) as (a & b & Ea & Eb & En). cbn [opt_if] in Eb.
    rewrite (T2 b Eb), Ea, En. reflexivity.
  - intros p. rewrite Hvk. unfold next_star. destruct uvk; [|apply T3].
    intros Hp. destruct (Svk p Hp) as (a & b & Ea & Eb & En). cbn [opt_if] in Eb.
    rewrite (T3 b Eb), Ea, En. reflexivity.
Qed.

Lemma embed_steps_sorted_ok_fold ss : forall acc uva uvk depth r nn va vk,
  sorted_ok acc -> tracks nn va vk acc -> Forall src_nonempty ss ->
  apart_steps uva uvk nn va vk ss = true ->
  embed_steps acc ss uva uvk depth = Ok r -> sorted_ok r.
Proof.
  induction ss as [|s ss IH]; intros acc uva uvk depth r nn va vk Hacc Ht Hss Hap; cbn [embed_steps].
  - intros E; inversion E; subst; exact Hacc.
  - inversion Hss as [|s' ss' Hs Hss']; subst. intros E.
    cbn [apart_steps] in Hap. apply andb_true_iff in Hap. destruct Hap as [Hf Hap].
    apply bind_ok in E. destruct E as [acc' [E1 E2]]. apply to_incompatible_ok in E1.
    eapply IH; [| |exact Hss'|exact Hap|exact E2].
    + eapply embed_step_sorted_ok; [exact Hacc | eapply tracks_fwd_apart; [exact Ht|exact Hf] | | exact E1].
      apply sort_params_nonempty. exact Hs.
    + eapply embed_step_tracks; [exact Ht | exact E1].
Qed.

Lemma tracks_init s0 :
  tracks (names_of (named (sort_params s0))) (option_map pname (varargs (sort_params s0)))
         (option_map pname (varkwargs (sort_params s0))) (sort_params s0).
Proof.
  split; [|split].
  - intros y Hy. apply mem_In. exact Hy.
  - intros p ->. reflexivity.
  - intros p ->. reflexivity.
Qed.

(* (a) C08 keys / non-empty for the n-ary embed: exactly one non-empty entry per parameter
   of the result and nothing else, under the fold-wise star-name hypothesis *)
Theorem embed_n_src_ok s0 ss uva uvk r :
  embed (s0 :: ss) uva uvk = Ok r ->
  valid_sig (params s0) = true -> stars_apart_fold uva uvk (s0 :: ss) = true ->
  src_ok s0 -> Forall src_nonempty ss -> src_ok r.
Proof.
  cbn [embed stars_apart_fold]. intros E Hv Hap H0 Hss.
  apply bind_ok in E. destruct E as [acc [E1 E2]].
  eapply apply_params_src_ok; [|exact E2].
  eapply embed_steps_sorted_ok_fold; [| |exact Hss|exact Hap|exact E1].
  - apply sort_params_sorted_ok; assumption.
  - apply tracks_init.
Qed.

(* ================================================================== *)
(* Part 3 — truthful                                                   *)

Lemma embed_step_truthful outer inner uva uvk depth s x f :
  embed_step outer inner uva uvk depth = Ok s -> NoDup (keys (ssrc outer)) ->
  NoDup (keys (ssrc s)) /\
  (In f (src_get (ssrc s) x) -> In f (src_get (ssrc outer) x) \/ In f (src_get (ssrc inner) x)).
Proof.
  intros E O1. destruct (embed_step_inv _ _ _ _ _ _ E) as (m & Em & _ & _ & _ & Es).
  destruct (merger_Inv _ _ _ Em) as (M1 & _).
  rewrite Es. split; [apply overlay_nodup; exact M1|].
  set (o2 := pop_star uvk (varkwargs outer) (pop_star uva (varargs outer) (ssrc outer))).
  assert (N2 : NoDup (keys o2)) by (unfold o2; apply pop_star_nodup; apply pop_star_nodup; exact O1).
  rewrite (overlay_get _ N2). destruct (src_mem o2 x).
  - intros Hf. left. unfold o2 in Hf. rewrite !pop_star_get in Hf.
    destruct (popped uvk (varkwargs outer) x); [destruct Hf|].
    destruct (popped uva (varargs outer) x); [destruct Hf|]. exact Hf.
  - intros Hf. destruct (merger_truthful _ _ _ _ _ Em Hf) as [H|H]; [right; exact H|].
    cbn [estars ssrc src_get] in H. destruct H.
Qed.

Lemma embed_steps_truthful x f ss : forall acc uva uvk depth r,
  embed_steps acc ss uva uvk depth = Ok r -> NoDup (keys (ssrc acc)) ->
  In f (src_get (ssrc r) x) ->
  In f (src_get (ssrc acc) x) \/ exists s, In s ss /\ In f (src_get (srcs s) x).
Proof.
  induction ss as [|s ss IH]; intros acc uva uvk depth r; cbn [embed_steps].
  - intros E; inversion E; subst. auto.
  - intros E Hn Hf. apply bind_ok in E. destruct E as [acc' [E1 E2]]. apply to_incompatible_ok in E1.
    destruct (embed_step_truthful _ _ _ _ _ _ x f E1 Hn) as [Hn' Hstep].
    destruct (IH _ _ _ _ _ E2 Hn' Hf) as [H|[s' [Hs' H]]].
    + destruct (Hstep H) as [A|A]; [left; exact A|].
      right. exists s. split; [left; reflexivity|]. rewrite sort_params_ssrc in A. exact A.
    + right. exists s'. split; [right; exact Hs' | exact H].
Qed.

(* (b) every callable listed for x in the result of the n-ary embed is listed for x in one
   of the inputs.  No validity, no star-name hypothesis; the only thing asked is that the
   provenance map of the FIRST signature is a dictionary (no key twice) — see
   embed_n_truthful_needs_dict. *)
Theorem embed_n_truthful s0 ss uva uvk r x f :
  embed (s0 :: ss) uva uvk = Ok r -> NoDup (keys (srcs s0)) ->
  In f (src_get (srcs r) x) -> exists s, In s (s0 :: ss) /\ In f (src_get (srcs s) x).
Proof.
  cbn [embed]. intros E Hn Hf.
  apply bind_ok in E. destruct E as [acc [E1 E2]].
  destruct (apply_params_fields _ _ _ E2) as [_ Es]. rewrite Es in Hf.
  rewrite <- (sort_params_ssrc s0) in Hn.
  destruct (embed_steps_truthful _ _ _ _ _ _ _ _ E1 Hn Hf) as [H|[s [Hs H]]].
  - exists s0. split; [left; reflexivity|]. rewrite sort_params_ssrc in H. exact H.
  - exists s. split; [right; exact Hs | exact H].
Qed.

(* a list with the key 1 twice is not a Python dict: src_get reads the first entry,
   dict(i_src, **o_src) writes the last one *)
Theorem embed_n_truthful_needs_dict :
  exists s0 s1 r, embed [s0; s1] true true = Ok r /\ valid_sig (params s0) = true /\
    valid_sig (params s1) = true /\ src_get (srcs r) 1 = [200] /\
    src_get (srcs s0) 1 = [100] /\ src_get (srcs s1) 1 = [].
Proof.
  exists (mkSig [bp 1 PK; bp 9 VP; bp 10 VK] None UEmpty [(1, [100]); (1, [200])] []), (dsig 101 [bp 2 PK]).
  eexists. repeat split; vm_compute; reflexivity.
Qed.

(* ================================================================== *)
(* Part 4 — list shape and duplicate-freedom, no star-name hypothesis   *)

(* the two forwarded stars of the accumulator are not spelled alike *)
Definition fwd_distinct (uva uvk : bool) (acc : sorted) : Prop :=
  uva = true -> uvk = true -> forall a k, varargs acc = Some a -> varkwargs acc = Some k ->
  pname a <> pname k.

Lemma nodup_fwd_distinct uva uvk so : NoDup (names_of (flatten so)) -> fwd_distinct uva uvk so.
Proof.
  intros Hn _ _ a k Ha Hk E. pose proof (flatten_cnt so (pname a) Hn) as H.
  rewrite Ha, Hk in H. cbn [opt_list] in H. rewrite !cntn_cons, !cntn_nil, E, !N.eqb_refl in H. lia.
Qed.

Lemma cntn_opt_name y (o o' : option param) :
  (forall p, o = Some p -> exists a, o' = Some a /\ pname p = pname a) ->
  (cntn y (opt_list o) <= cntn y (opt_list o'))%nat.
Proof.
  intros H. destruct o as [p|]; [|cbn; lia]. destruct (H p eq_refl) as (a & -> & En).
  cbn [opt_list]. rewrite !cntn_cons, !cntn_nil, En. lia.
Qed.

Lemma embed_step_src_shape_gen outer inner uva uvk depth s x :
  NoDup (keys (ssrc outer)) -> fwd_distinct uva uvk outer ->
  Forall (fun p => pkind p = PK) (pokargs inner) -> NoDup (names_of (flatten inner)) ->
  embed_step outer inner uva uvk depth = Ok s ->
  (src_get (ssrc s) x = src_get (ssrc outer) x \/ src_get (ssrc s) x = src_get (ssrc inner) x \/
   src_get (ssrc s) x = []) /\
  NoDup (keys (ssrc s)) /\ fwd_distinct uva uvk s.
Proof.
  intros O1 Od PKi Ni E.
  destruct (embed_step_inv _ _ _ _ _ _ E) as (m & Em & _ & Hva & Hvk & Es).
  destruct (merger_Inv _ _ _ Em) as (M1 & _).
  destruct (merger_star_names _ _ _ Em (named_estars uva uvk outer)) as [Sva Svk].
  cbn [estars varargs varkwargs] in Sva, Svk.
  destruct (merger_stars inner _ _ [] [] PKi m Em) as (P1 & P2 & P3 & _).
  (* at most one parameter of the merged inner signature is called y *)
  assert (Hcnt : forall y, (cntn y (flatten m) <= 1)%nat).
  { intros y. pose proof (flatten_cnt inner y Ni) as Hi.
    assert (Hnamed : (cntn y (posargs m) + cntn y (pokargs m) + cntn y (kwoargs m)
                      <= cntn y (posargs inner) + cntn y (pokargs inner) + cntn y (kwoargs inner))%nat).
    { rewrite P1, P2, P3. set (hva := isSome (opt_if uva (varargs outer))). set (hvk := isSome (opt_if uvk (varkwargs outer))).
      pose proof (cntn_od_update_le y (od_update [] (kwoargs inner)) (od_update [] (if hva then [] else map (set_kind KO) (pokargs inner)))) as U1.
      pose proof (cntn_od_update_le y (kwoargs inner) []) as U2.
      pose proof (cntn_od_update_le y (if hva then [] else map (set_kind KO) (pokargs inner)) []) as U3.
      rewrite !cntn_nil in *.
      destruct hva, hvk; cbn [andb negb] in *; rewrite ?cntn_app, ?cntn_nil, ?cntn_map_kind in *; lia. }
    assert (Ha : (cntn y (opt_list (varargs m)) <= cntn y (opt_list (varargs inner)))%nat).
    { apply cntn_opt_name. intros p Hp. destruct (Sva p Hp) as (a & b & Ea & _ & En). exists a. auto. }
    assert (Hk : (cntn y (opt_list (varkwargs m)) <= cntn y (opt_list (varkwargs inner)))%nat).
    { apply cntn_opt_name. intros p Hp. destruct (Svk p Hp) as (a & b & Ea & _ & En). exists a. auto. }
    unfold flatten. rewrite !cntn_app. lia. }
  split; [|split].
  - rewrite Es.
    set (o2 := pop_star uvk (varkwargs outer) (pop_star uva (varargs outer) (ssrc outer))).
    assert (N2 : NoDup (keys o2)) by (unfold o2; apply pop_star_nodup; apply pop_star_nodup; exact O1).
    rewrite (overlay_get _ N2). destruct (src_mem o2 x).
    + unfold o2. rewrite !pop_star_get. destruct (popped uvk (varkwargs outer) x); [right; right; reflexivity|].
      destruct (popped uva (varargs outer) x); [right; right; reflexivity | left; reflexivity].
    + assert (Nr : NoDup (names_of (flatten (estars uva uvk outer)))).
      { apply cntn_le_nodup. intros y. unfold flatten. cbn [estars posargs pokargs varargs kwoargs varkwargs app].
        rewrite ?cntn_app.
        destruct (opt_if uva (varargs outer)) as [a|] eqn:Ea; destruct (opt_if uvk (varkwargs outer)) as [k|] eqn:Ek;
          cbn [opt_list app]; rewrite ?cntn_cons, ?cntn_nil; try (destruct (N.eqb y (pname a)); lia);
          try (destruct (N.eqb y (pname k)); lia); try lia.
        destruct uva; [|discriminate Ea]. destruct uvk; [|discriminate Ek]. cbn [opt_if] in Ea, Ek.
        pose proof (Od eq_refl eq_refl a k Ea Ek) as Hne.
        destruct (N.eqb_spec y (pname a)) as [->|]; destruct (N.eqb_spec (pname a) (pname k)); try contradiction; try lia.
        destruct (N.eqb y (pname k)); lia. }
      pose proof (merger_shape inner (estars uva uvk outer) Ni Nr m Em x (Hcnt x)) as H.
      unfold shape, shape1, sside in H. cbn [my estars ssrc src_get] in H. rewrite !app_nil_r in H. cbn [app] in H. tauto.
  - rewrite Es. apply overlay_nodup. exact M1.
  - intros -> -> a k Ha Hk E'. rewrite Hva in Ha. rewrite Hvk in Hk.
    pose proof (Hcnt (pname a)) as H. unfold flatten in H. rewrite !cntn_app, Ha, Hk in H.
    cbn [opt_list] in H. rewrite !cntn_cons, !cntn_nil, E', !N.eqb_refl in H. lia.
Qed.

Lemma embed_steps_src_shape_gen x ss : forall acc uva uvk depth r,
  NoDup (keys (ssrc acc)) -> fwd_distinct uva uvk acc ->
  Forall (fun s => valid_sig (params s) = true) ss ->
  embed_steps acc ss uva uvk depth = Ok r ->
  src_get (ssrc r) x = src_get (ssrc acc) x \/
  (exists s, In s ss /\ src_get (ssrc r) x = src_get (srcs s) x) \/ src_get (ssrc r) x = [].
Proof.
  induction ss as [|s ss IH]; intros acc uva uvk depth r Hacc Hd Hss; cbn [embed_steps].
  - intros E. apply Ok_inj in E. subst r. left. reflexivity.
  - inversion Hss as [|? ? Vs Hss']; subst. intros E.
    apply bind_ok in E. destruct E as [acc' [E1 E2]]. apply to_incompatible_ok in E1.
    destruct (sort_params_kinds s) as (_ & K2 & _).
    destruct (embed_step_src_shape_gen acc (sort_params s) uva uvk depth acc' x Hacc Hd K2
                (sort_params_nodup s Vs) E1) as (H1 & Hacc' & Hd').
    rewrite sort_params_ssrc in H1.
    destruct (IH acc' uva uvk (depth + 1) r Hacc' Hd' Hss' E2) as [H|[(s' & Hs' & H)|H]].
    + rewrite H. destruct H1 as [H1|[H1|H1]];
        [left; exact H1 | right; left; exists s; split; [left; reflexivity | exact H1] | right; right; exact H1].
    + right; left. exists s'. split; [right; exact Hs' | exact H].
    + right; right. exact H.
Qed.

(* (c) as a list, every provenance entry of the n-ary embed is the entry of one of the
   inputs for that name, or empty: embed never concatenates.  Valid inputs whose first map
   is a dictionary; NO star-name hypothesis, no src_ok, no non-emptiness (compare
   ContribMore.embed_src_shape). *)
Theorem embed_n_src_shape s0 ss uva uvk r x :
  embed (s0 :: ss) uva uvk = Ok r ->
  Forall (fun s => valid_sig (params s) = true) (s0 :: ss) -> NoDup (keys (srcs s0)) ->
  src_get (srcs r) x = [] \/ exists s, In s (s0 :: ss) /\ src_get (srcs r) x = src_get (srcs s) x.
Proof.
  cbn [embed]. intros E Hv Hn.
  apply bind_ok in E. destruct E as [acc [E1 E2]].
  destruct (apply_params_fields _ _ _ E2) as [_ Es]. rewrite Es.
  inversion Hv as [|? ? V0 Vr]; subst.
  rewrite <- (sort_params_ssrc s0) in Hn.
  destruct (embed_steps_src_shape_gen x ss (sort_params s0) uva uvk 1 acc Hn
              (nodup_fwd_distinct uva uvk _ (sort_params_nodup s0 V0)) Vr E1) as [H|[(s & Hs & H)|H]].
  - right. exists s0. split; [left; reflexivity|]. rewrite H, sort_params_ssrc. reflexivity.
  - right. exists s. split; [right; exact Hs | exact H].
  - left. exact H.
Qed.

(* hence duplicate-free when the inputs' lists are *)
Theorem embed_n_nodup s0 ss uva uvk r x :
  embed (s0 :: ss) uva uvk = Ok r ->
  Forall (fun s => valid_sig (params s) = true) (s0 :: ss) -> NoDup (keys (srcs s0)) ->
  (forall s, In s (s0 :: ss) -> NoDup (src_get (srcs s) x)) -> NoDup (src_get (srcs r) x).
Proof.
  intros E Hv Hk Hn. destruct (embed_n_src_shape s0 ss uva uvk r x E Hv Hk) as [-> | (s & Hs & ->)];
    [constructor | apply Hn; exact Hs].
Qed.
