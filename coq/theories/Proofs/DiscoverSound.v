(* DiscoverSound.v -- C05 end to end: automatic discovery never reports a
   signature the function cannot honour.

   For every wrapper  def w( *va, **vk ): <block>  of the grammar of Model/Exec.v
   (any length, any nesting of branches, no mutation in a nested scope), every
   assignment of valid signatures to the callee names, if discovery reports the
   merge r of the collected forwards(...) signatures, then for every caller
   call c accepted by r and every forwarding call site whose written stars are
   both flagged "use" by the walker:
     - on every execution path, when that site is executed the callee receives
       the caller's untouched *args / **kwargs objects (Proofs/Exec.v), i.e.
       exactly <nlit literals> + the caller's positionals and the literal
       keywords + the caller's keywords;
     - the callee's signature accepts that call.
   Sites with a hidden star (the program rebinds / mutates the star before the
   call) receive program-chosen values: they are out of scope, as are calls that
   forward no star (discovery ignores them).

   The chain: walker records (DiscoverSoundWalk.v) -> forward_sigs_declared
   (Proofs/Discover.v) -> merge soundness (MergeSound.v, MergeSoundN.v) ->
   C04_exec_sound (ForwardsSound.v) -> flags_sound (Proofs/Exec.v). *)
From Sigtools.Model Require Import Base Bind Roles Algebra Visitor Discover Exec.
From Sigtools.Proofs Require Import SmallModel Basics MaskLaws MaskExact MaskNamesLib MaskNamesStep MaskNames
     MaskAlgebra MaskHide MergeNeutral MergeIdem FoldLaw SweepDefs2 RcValidN.
From Sigtools.Proofs Require Import VisitorTotal Exec Discover.
From Sigtools.Proofs Require Import MergeSoundBase MergeSoundInv MergeSound MergeSoundMixed MergeSoundN
     EmbedSoundStars EmbedSoundAcc EmbedSound EmbedSoundAssoc ForwardsSound DiscoverSoundWalk.
From Coq Require Import Lia Permutation.

(* ------------------------------------------------------------------ *)
(* every forwards(...) result is a valid signature, hide flags included  *)

Lemma Forall_takew {A} (P : A -> Prop) f l : Forall P l -> Forall P (takew f l).
Proof. induction 1 as [|x l Hx _ IH]; cbn [takew]; [constructor|]. destruct (f x); constructor; auto. Qed.

Lemma Forall_dropw {A} (P : A -> Prop) f l : Forall P l -> Forall P (dropw f l).
Proof. induction 1 as [|x l Hx Hl IH]; cbn [dropw]; [constructor|]. destruct (f x); [exact IH|constructor; auto]. Qed.

Lemma Forall_filter {A} (P : A -> Prop) f l : Forall P l -> Forall P (filter f l).
Proof. induction 1 as [|x l Hx _ IH]; cbn [filter]; [constructor|]. destruct (f x); [constructor|]; auto. Qed.

Lemma blk_valid pos pok va kwo vk :
  kinds5 pos pok va kwo vk -> validate (blk pos pok va kwo vk) = true -> valid_sig (blk pos pok va kwo vk) = true.
Proof.
  intros HK Hval. change (blk pos pok va kwo vk) with (flatten (mkSorted pos pok va kwo vk [] [])) in *.
  apply wk_valid_sig; [|exact Hval]. apply kinds_ok_wk. exact HK.
Qed.

Theorem mask_any_valid i n names0 h m :
  valid_sig (params i) = true -> mask i n names0 h = Ok m -> valid_sig (params m) = true.
Proof.
  intros Hv E. pose proof (mask_wf _ _ _ _ _ E) as Hval.
  pose proof (mask_hide_shape i n names0 h m Hv E) as Sh.
  destruct (sort_params_kinds i) as (K1 & K2 & K3 & K4 & K5).
  assert (P1 : Forall (fun p => pkind p = PO) (hide_pos i n h)).
  { unfold hide_pos. destruct (h_args h); [constructor|]. apply MaskNames.Forall_skipn. exact K1. }
  assert (P2 : Forall (fun p => pkind p = PK) (hide_pok i n h)).
  { unfold hide_pok. destruct (h_args h); [constructor|]. apply MaskNames.Forall_skipn. exact K2. }
  assert (P3 : forall v, hide_va i h = Some v -> pkind v = VP).
  { unfold hide_va. destruct (h_args h || h_varargs h); [discriminate|exact K3]. }
  assert (P5 : forall v, hide_vk i h = Some v -> pkind v = VK).
  { unfold hide_vk. destruct (h_kwargs h || h_varkwargs h); [discriminate|exact K5]. }
  destruct (h_kwargs h).
  - rewrite Sh in *. apply blk_valid; [|exact Hval]. repeat split; auto; try constructor. discriminate.
  - destruct Sh as [kwo_f [Sh Hperm]]. rewrite Sh in *. apply blk_valid; [|exact Hval].
    repeat split; auto.
    + apply Forall_takew. exact P2.
    + unfold va_form. destruct (forallb _ _); [exact P3|discriminate].
    + apply (Permutation_Forall (Permutation_sym Hperm)). unfold kwo_form. apply Forall_filter.
      apply Forall_app. split; [exact K4|]. apply Forall_map. apply Forall_forall. intros; reflexivity.
Qed.

Theorem forwards_valid o i n names0 ha hk uva uvk r :
  valid_sig (params i) = true ->
  forwards o i n names0 ha hk uva uvk false = Ok r -> valid_sig (params r) = true.
Proof.
  intros Vi E. rewrite forwards_def in E. apply bind_ok in E. destruct E as [m [Em Er]].
  exact (embed2_valid o m uva uvk r (mask_any_valid i n names0 _ m Vi Em) Er).
Qed.

(* ------------------------------------------------------------------ *)
(* the wrapper's own signature ( *va, **vk ) and the chain through it    *)

Definition own_sig (va vk : N) : sigT :=
  mkSig [mkParam va VP None None UEmpty; mkParam vk VK None None UEmpty] None UEmpty [] [].

Lemma own_valid va vk : va <> vk -> valid_sig (params (own_sig va vk)) = true.
Proof.
  intros Hne. assert (Eb : N.eqb vk va = false) by (apply N.eqb_neq; congruence).
  unfold valid_sig, validate, own_sig. cbn. rewrite Eb. reflexivity.
Qed.

Lemma chain_own va vk i uva uvk n names0 c :
  chain (params (own_sig va vk)) i uva uvk n names0 c =
  accepts i (mkCall (n + (if uva then npos c else 0)) (names0 ++ (if uvk then kws c else []))).
Proof.
  unfold chain.
  assert (Ea : accepts (params (own_sig va vk)) c = true).
  { unfold accepts, own_sig. cbn. rewrite orb_true_r. cbn.
    apply andb_true_iff. split; [|reflexivity]. apply andb_true_iff. split; [|reflexivity].
    apply forallb_forall. intros k _. reflexivity. }
  rewrite Ea. cbn [andb].
  assert (Es : surplus_pos (params (own_sig va vk)) c = npos c) by (unfold surplus_pos; cbn; apply Nat.sub_0_r).
  assert (Ek : surplus_kws (params (own_sig va vk)) c = kws c).
  { unfold surplus_kws. apply MergeSoundBase.filter_all. intros k _. reflexivity. }
  rewrite Es, Ek. reflexivity.
Qed.

(* ------------------------------------------------------------------ *)
(* the glue: the walker's records as the call descriptions of discovery  *)

(* a callee written as a plain name resolves through the environment; anything
   else (an attribute, a rebound name) is unresolvable *)
Definition resolve (env : N -> sigT) (c : callrec) : resolved :=
  match c_wrapped c with
  | MName x => RSig (env x) false
  | _ => RUnresolvable
  end.

Definition calls_of (env : N -> sigT) (recs : list callrec) : list callinfo :=
  map (fun c => info_of c (resolve env c)) recs.

Lemma Forall2_nth {A B} (R : A -> B -> Prop) l1 l2 : Forall2 R l1 l2 ->
  forall j a, nth_error l1 j = Some a -> exists b, nth_error l2 j = Some b /\ R a b.
Proof.
  induction 1 as [|x y l1 l2 Hxy _ IH]; intros [|j] a Hj; cbn [nth_error] in *; try discriminate.
  - inversion Hj; subst. eauto.
  - apply IH. exact Hj.
Qed.

Lemma Forall2_in_l {A B} (R : A -> B -> Prop) l1 l2 a :
  Forall2 R l1 l2 -> In a l1 -> exists b, In b l2 /\ R a b.
Proof.
  induction 1 as [|x y l1 l2 Hxy _ IH]; intros Hin; [destruct Hin|].
  destruct Hin as [->|Hin]; [exists y; split; [left; reflexivity|exact Hxy]|].
  destruct (IH Hin) as [b [Hb Hr]]. exists b. split; [right; exact Hb|exact Hr].
Qed.

Lemma Forall2_in_r {A B} (R : A -> B -> Prop) l1 l2 b :
  Forall2 R l1 l2 -> In b l2 -> exists a, In a l1 /\ R a b.
Proof.
  induction 1 as [|x y l1 l2 Hxy _ IH]; intros Hin; [destruct Hin|].
  destruct Hin as [->|Hin]; [exists x; split; [left; reflexivity|exact Hxy]|].
  destruct (IH Hin) as [a [Ha Hr]]. exists a. split; [right; exact Ha|exact Hr].
Qed.

(* every collected signature is a valid one *)
Lemma collected_valid va vk env recs sigs :
  (forall x, valid_sig (params (env x)) = true) ->
  forward_sigs (own_sig va vk) (calls_of env recs) = Some sigs ->
  Forall (fun s => valid_sig (params s) = true) sigs.
Proof.
  intros Venv Hf. apply forward_sigs_declared in Hf. apply Forall_forall. intros s Hs.
  destruct (Forall2_in_r _ _ _ s Hf Hs) as [ci [Hci Hd]].
  apply filter_In in Hci. destruct Hci as [Hci _]. unfold calls_of in Hci. apply in_map_iff in Hci.
  destruct Hci as [rc [<- _]]. unfold declared, info_of, resolve in Hd. cbn in Hd.
  destruct (c_wrapped rc); try discriminate. cbn in Hd. inversion Hd as [Hd'].
  exact (forwards_valid _ _ _ _ _ _ _ _ s (Venv id) Hd').
Qed.

(* ------------------------------------------------------------------ *)
(* C05, end to end                                                      *)

Theorem C05_end_to_end va vk l env recs sigs r c :
  va <> vk -> block_ok va vk l = true ->
  (forall x, valid_sig (params (env x)) = true) ->
  visit_function [] [] (Some va) (Some vk) (compile_block va vk l) = Some recs ->
  forward_sigs (own_sig va vk) (calls_of env recs) = Some sigs ->
  merge sigs = Ok r ->
  accepts (params r) c = true ->
  ((kws c = [] \/ npos c = 0%nat) \/
   (role_consistent (map params sigs) = true /\ noncolliding c (params r) (map params sigs) = true)) ->
  forall j cal nlit kw pa pk rc,
    nth_error (sites_block l) j = Some (Some (cal, nlit, kw, pa, pk)) ->
    nth_error recs j = Some rc ->
    pa || pk = true -> c_use_varargs rc = pa -> c_use_varkwargs rc = pk ->
    NoDup kw -> disjointb (kws c) kw = true ->
    (forall sj, forwards (own_sig va vk) (env cal) nlit kw false false pa pk false = Ok sj ->
                noncolliding c (params sj) [params (own_sig va vk); params (env cal)] = true) ->
    accepts (params (env cal))
            (mkCall (nlit + (if pa then npos c else 0)) (kw ++ (if pk then kws c else []))) = true /\
    forall fuel st' evs e,
      In (st', evs) (exec_block fuel l 0 (mkSem true true)) -> In e evs -> ev_site e = j ->
      ev_a e = (if pa then Some true else None) /\ ev_k e = (if pk then Some true else None).
Proof.
  intros Hne Hok Venv Hv Hf Hm Hc Hfam j cal nlit kw pa pk rc Hsite Hrc Hany Hua Huk Hnd Hdisj Hnc.
  set (own := own_sig va vk) in *.
  (* the walker's records *)
  destruct (walker_records va vk Hne l Hok) as [recs' (Hv' & Hfl & Hrec)].
  rewrite Hv in Hv'. inversion Hv'; subst recs'; clear Hv'.
  destruct (Forall2_nth _ _ _ Hrec j _ Hsite) as [rc' [Hrc' Hok']]. rewrite Hrc in Hrc'. inversion Hrc'; subst rc'; clear Hrc'.
  cbn [rec_ok] in Hok'. destruct Hok' as (Hargs & Hkws & Hwr).
  (* its flags *)
  destruct (Forall2_nth _ _ _ (flag_sites_block l (true, true)) j _ Hsite) as [f [Hf1 Hf2]].
  rewrite <- Hfl in Hf1. rewrite (map_nth_error fl j recs Hrc) in Hf1. inversion Hf1; subst f; clear Hf1.
  cbn [flag_ok] in Hf2. destruct Hf2 as [k Hk]. unfold fl in Hk. inversion Hk as [[F1 F2 F3 F4]].
  assert (Hha : c_hide_args rc = false).
  { rewrite F3. rewrite Hua in F1. destruct pa; [|reflexivity]. cbn in F1. rewrite <- F1. reflexivity. }
  assert (Hhk : c_hide_kwargs rc = false).
  { rewrite F4. rewrite Huk in F2. destruct pk; [|reflexivity]. cbn in F2. rewrite <- F2. reflexivity. }
  (* the call description is relevant, hence declared *)
  set (ci := info_of rc (resolve env rc)).
  assert (Hrel : relevant ci = true) by (unfold relevant, ci, info_of; cbn; rewrite Hua, Huk; exact Hany).
  assert (Hin : In ci (filter relevant (calls_of env recs))).
  { apply filter_In. split; [|exact Hrel]. unfold calls_of. apply in_map_iff. exists rc.
    split; [reflexivity|]. eapply nth_error_In. exact Hrc. }
  pose proof Hf as Hf'. apply forward_sigs_declared in Hf'.
  destruct (Forall2_in_l _ _ _ ci Hf' Hin) as [sj [Hsj Hdecl]].
  unfold declared, ci, info_of, resolve in Hdecl. cbn in Hdecl.
  destruct Hwr as [Hwr|Hwr]; rewrite Hwr in Hdecl; [|discriminate]. cbn in Hdecl.
  rewrite Hargs, Hkws, Hha, Hhk, Hua, Huk, Nat.sub_0_r in Hdecl. inversion Hdecl as [Hfw]. clear Hdecl.
  (* the merge accepts c, hence the site's signature does *)
  pose proof (collected_valid va vk env recs sigs Venv Hf) as Vs.
  assert (Hcj : accepts (params sj) c = true).
  { destruct Hfam as [Hpure|[Hrcs Hncs]].
    - pose proof (merge_sound_pos_kw sigs r c Vs Hm Hpure Hc) as HA. rewrite Forall_forall in HA. exact (HA sj Hsj).
    - pose proof (merge_sound_mixed_n sigs r c Vs Hrcs Hm Hncs Hc) as HA. rewrite Forall_forall in HA. exact (HA sj Hsj). }
  split.
  - pose proof (C04_exec_sound own (env cal) nlit kw pa pk sj c (own_valid va vk Hne) (Venv cal) Hnd Hfw
                  (Hnc sj Hfw) Hdisj Hcj) as HE.
    unfold wrapper_exec in HE. unfold own in HE. rewrite chain_own in HE. exact HE.
  - (* what the callee really receives *)
    intros fuel st' evs e Hex He Hej.
    assert (Hvf : visitor_flags va vk l = Some (map fl recs)).
    { unfold visitor_flags. rewrite Hv. reflexivity. }
    destruct (flags_sound va vk l _ Hne Hok Hvf fuel st' evs e Hex He) as [_ FS].
    rewrite Hej in FS. rewrite (nth_error_nth (map fl recs) j dflags (map_nth_error fl j recs Hrc)) in FS.
    unfold fl in FS. rewrite Hua, Huk, Hha, Hhk in FS. cbn [flag_sound] in FS.
    destruct FS as (A1 & A2 & A3 & A4). rewrite orb_false_r in A3, A4. split.
    + destruct pa; [apply A1; reflexivity|]. destruct (ev_a e); [discriminate|reflexivity].
    + destruct pk; [apply A2; reflexivity|]. destruct (ev_k e); [discriminate|reflexivity].
Qed.

(* in terms of [discover], for the two pure call families: whenever discovery
   does not fall back to the plain signature *)
Corollary C05_end_to_end_discover va vk l env plain recs c :
  va <> vk -> block_ok va vk l = true ->
  (forall x, valid_sig (params (env x)) = true) ->
  visit_function [] [] (Some va) (Some vk) (compile_block va vk l) = Some recs ->
  let r := discover (own_sig va vk) plain true (calls_of env recs) in
  r <> plain ->
  accepts (params r) c = true -> (kws c = [] \/ npos c = 0%nat) ->
  forall j cal nlit kw pa pk rc,
    nth_error (sites_block l) j = Some (Some (cal, nlit, kw, pa, pk)) ->
    nth_error recs j = Some rc ->
    pa || pk = true -> c_use_varargs rc = pa -> c_use_varkwargs rc = pk ->
    NoDup kw -> disjointb (kws c) kw = true ->
    (forall sj, forwards (own_sig va vk) (env cal) nlit kw false false pa pk false = Ok sj ->
                noncolliding c (params sj) [params (own_sig va vk); params (env cal)] = true) ->
    accepts (params (env cal))
            (mkCall (nlit + (if pa then npos c else 0)) (kw ++ (if pk then kws c else []))) = true /\
    forall fuel st' evs e,
      In (st', evs) (exec_block fuel l 0 (mkSem true true)) -> In e evs -> ev_site e = j ->
      ev_a e = (if pa then Some true else None) /\ ev_k e = (if pk then Some true else None).
Proof.
  intros Hne Hok Venv Hv r Hnp Hc Hpure.
  destruct (discover_spec (own_sig va vk) plain true (calls_of env recs))
    as [(sigs & r0 & _ & _ & _ & Hd & Hm & Hr)|Hr]; [|contradiction].
  fold r in Hr. subst r0. apply forward_sigs_declared in Hd.
  exact (C05_end_to_end va vk l env recs sigs r c Hne Hok Venv Hv Hd Hm Hc (or_introl Hpure)).
Qed.

(* ------------------------------------------------------------------ *)
(* a concrete wrapper with two forwarding calls on different branches:

     def w( *args, **kwargs ):          (args = 9, kwargs = 10)
         if <cond>:
             f5(<lit>, *args, **kwargs)        f5(p, q=1)
         else:
             del args
             f6(k=<lit>, **kwargs)             f6(q=1, *, k)

   discovery reports ( *, q=1 ); the call w(q=..) is accepted, and on either
   branch the callee accepts what it receives *)
Definition ex_prog : list stmt :=
  [SIf [SFwd 5 1 [] true true] [SDel SA; SFwd 6 0 [7] false true]]%N.
Definition ex_f5 : sigT := mkSig [mkParam 1 PK None None UEmpty; mkParam 2 PK (Some 1) None UEmpty] None UEmpty [] [].
Definition ex_f6 : sigT := mkSig [mkParam 2 PK (Some 1) None UEmpty; mkParam 7 KO None None UEmpty] None UEmpty [] [].
Definition ex_env (x : N) : sigT :=
  if N.eqb x 5 then ex_f5 else if N.eqb x 6 then ex_f6 else mkSig [] None UEmpty [] [].

Lemma ex_env_valid x : valid_sig (params (ex_env x)) = true.
Proof. unfold ex_env. destruct (N.eqb x 5); [reflexivity|]. destruct (N.eqb x 6); reflexivity. Qed.

Example C05_end_to_end_example :
  let c := mkCall 0 [2%N] in
  exists recs sigs r,
    visit_function [] [] (Some 9%N) (Some 10%N) (compile_block 9 10 ex_prog) = Some recs /\
    forward_sigs (own_sig 9 10) (calls_of ex_env recs) = Some sigs /\ length sigs = 2%nat /\
    merge sigs = Ok r /\ discover (own_sig 9 10) (own_sig 9 10) true (calls_of ex_env recs) = r /\
    params r = [mkParam 2 KO (Some 1) None UEmpty] /\
    accepts (params r) c = true /\
    (* first branch: f5 receives (<lit>, q=..) *)
    (accepts (params ex_f5) (mkCall 1 [2%N]) = true /\
     forall fuel st' evs e, In (st', evs) (exec_block fuel ex_prog 0 (mkSem true true)) -> In e evs ->
       ev_site e = 0%nat -> ev_a e = Some true /\ ev_k e = Some true) /\
    (* second branch: f6 receives (k=.., q=..) *)
    (accepts (params ex_f6) (mkCall 0 [7%N; 2%N]) = true /\
     forall fuel st' evs e, In (st', evs) (exec_block fuel ex_prog 0 (mkSem true true)) -> In e evs ->
       ev_site e = 1%nat -> ev_a e = None /\ ev_k e = Some true).
Proof.
  intros c.
  destruct (visit_function [] [] (Some 9%N) (Some 10%N) (compile_block 9 10 ex_prog)) as [recs|] eqn:Hv;
    [|vm_compute in Hv; discriminate].
  destruct (forward_sigs (own_sig 9 10) (calls_of ex_env recs)) as [sigs|] eqn:Hf;
    [|vm_compute in Hv; inversion Hv; subst recs; vm_compute in Hf; discriminate].
  destruct (merge sigs) as [r|e] eqn:Hm;
    [|vm_compute in Hv; inversion Hv; subst recs; vm_compute in Hf; inversion Hf; subst sigs; vm_compute in Hm; discriminate].
  exists recs, sigs, r.
  assert (Hne : (9 <> 10)%N) by discriminate.
  assert (Hok : block_ok 9 10 ex_prog = true) by reflexivity.
  assert (Hacc : accepts (params r) c = true).
  { vm_compute in Hv. inversion Hv; subst recs. vm_compute in Hf. inversion Hf; subst sigs.
    vm_compute in Hm. inversion Hm; subst r. reflexivity. }
  pose proof (C05_end_to_end 9 10 ex_prog ex_env recs sigs r c Hne Hok ex_env_valid Hv Hf Hm Hacc
                (or_introl (or_intror eq_refl))) as T.
  assert (R0 : exists rc, nth_error recs 0 = Some rc /\ c_use_varargs rc = true /\ c_use_varkwargs rc = true).
  { vm_compute in Hv. inversion Hv; subst recs. eexists. repeat split. }
  assert (R1 : exists rc, nth_error recs 1 = Some rc /\ c_use_varargs rc = false /\ c_use_varkwargs rc = true).
  { vm_compute in Hv. inversion Hv; subst recs. eexists. repeat split. }
  destruct R0 as [rc0 (N0 & U0 & K0)]. destruct R1 as [rc1 (N1 & U1 & K1)].
  split; [first [reflexivity|exact Hv]|]. split; [first [reflexivity|exact Hf]|].
  split; [vm_compute in Hv; inversion Hv; subst recs; vm_compute in Hf; inversion Hf; reflexivity|].
  split; [first [reflexivity|exact Hm]|].
  split; [unfold discover, autoforwards; cbn [has_star own_sig params existsb pkind orb negb]; rewrite Hf;
          vm_compute in Hv; inversion Hv; subst recs; vm_compute in Hf; inversion Hf; subst sigs; rewrite Hm; reflexivity|].
  split; [vm_compute in Hv; inversion Hv; subst recs; vm_compute in Hf; inversion Hf; subst sigs;
          vm_compute in Hm; inversion Hm; reflexivity|].
  split; [exact Hacc|].
  split.
  - apply (T 0%nat 5%N 1%nat [] true true rc0 eq_refl N0 eq_refl U0 K0 (NoDup_nil _) eq_refl).
    intros sj Hsj. vm_compute in Hsj. inversion Hsj; subst sj. reflexivity.
  - apply (T 1%nat 6%N 0%nat [7%N] false true rc1 eq_refl N1 eq_refl U1 K1).
    + constructor; [intros []|constructor].
    + reflexivity.
    + intros sj Hsj. vm_compute in Hsj. inversion Hsj; subst sj. reflexivity.
Qed.

Print Assumptions mask_any_valid.
Print Assumptions forwards_valid.
Print Assumptions C05_end_to_end.
Print Assumptions C05_end_to_end_discover.
Print Assumptions C05_end_to_end_example.
