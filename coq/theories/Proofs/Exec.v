(* Proofs/Exec.v — the walker's use/hide flags are a sound abstract
   interpretation of the execution semantics of Model/Exec.v, for every program
   of that grammar (any length, any nesting of branches). *)
From Sigtools.Model Require Import Base Visitor Exec.
From Sigtools.Proofs Require Import VisitorTotal.
From Coq Require Import Lia.

Definition fl (c : callrec) : flags :=
  (c_use_varargs c, c_use_varkwargs c, c_hide_args c, c_hide_kwargs c).

(* ---- induction principle for the nested inductive [stmt] ---- *)
Section StmtInd.
Variable P : stmt -> Prop.
Hypothesis HFwd : forall c n kw pa pk, P (SFwd c n kw pa pk).
Hypothesis HRebind : forall s, P (SRebind s).
Hypothesis HAug : forall s, P (SAug s).
Hypothesis HDel : forall s, P (SDel s).
Hypothesis HItem : P SItemSet.
Hypothesis HMeth : forall s m, P (SMethod s m).
Hypothesis HPass : forall f s, P (SPass f s).
Hypothesis HAlias : forall y s, P (SAlias y s).
Hypothesis HOther : forall f, P (SOther f).
Hypothesis HIf : forall a b, Forall P a -> Forall P b -> P (SIf a b).
Hypothesis HLam : forall m, P (SLambdaMut m).
Fixpoint stmt_ind' (s : stmt) : P s :=
  let fix all (l : list stmt) : Forall P l :=
    match l with [] => Forall_nil P | x :: l' => Forall_cons x (stmt_ind' x) (all l') end in
  match s with
  | SFwd c n kw pa pk => HFwd c n kw pa pk
  | SRebind s => HRebind s | SAug s => HAug s | SDel s => HDel s
  | SItemSet => HItem | SMethod s m => HMeth s m | SPass f s => HPass f s
  | SAlias y s => HAlias y s | SOther f => HOther f
  | SIf a b => HIf a b (all a) (all b)
  | SLambdaMut m => HLam m
  end.
End StmtInd.

(* ---- the nested loops of Model/Exec.v, named ---- *)
Lemma absint_if a b k :
  absint (SIf a b) k =
  let '(k1, f1) := absint_block a k in let '(k2, f2) := absint_block b k1 in (k2, f1 ++ f2).
Proof.
  assert (E : forall l k0,
    (fix go (l : list stmt) (k : bool * bool) : (bool * bool) * list flags :=
       match l with
       | [] => (k, [])
       | x :: l' => let '(k1, f1) := absint x k in let '(k2, f2) := go l' k1 in (k2, f1 ++ f2)
       end) l k0 = absint_block l k0).
  { induction l as [|x l IH]; intros k0; [reflexivity|]. cbn [absint_block].
    destruct (absint x k0) as [k1 f1]. rewrite IH. reflexivity. }
  cbn [absint]. rewrite !E. reflexivity.
Qed.

Section Compile.
Variables va vk : N.

Lemma compile_if a b :
  compile va vk (SIf a b) = NOpaque (const :: compile_block va vk a ++ compile_block va vk b).
Proof.
  assert (E : forall l, (fix go (l : list stmt) : list node :=
             match l with [] => [] | x :: l' => compile va vk x :: go l' end) l = compile_block va vk l).
  { induction l as [|x l IH]; [reflexivity|]. cbn [compile_block map]. now rewrite IH. }
  cbn [compile]. rewrite !E. reflexivity.
Qed.

Definition block_ok (l : list stmt) : bool := forallb (names_ok va vk) l.

Lemma names_ok_if a b : names_ok va vk (SIf a b) = block_ok a && block_ok b.
Proof.
  assert (E : forall l, (fix go (l : list stmt) : bool :=
             match l with [] => true | x :: l' => names_ok va vk x && go l' end) l = block_ok l).
  { induction l as [|x l IH]; [reflexivity|]. cbn [block_ok forallb]. now rewrite IH. }
  cbn [names_ok]. rewrite !E. reflexivity.
Qed.
End Compile.

Lemma flat_if a b : flat (SIf a b) = flat_block a && flat_block b.
Proof.
  assert (E : forall l, (fix go (l : list stmt) : bool :=
             match l with [] => true | x :: l' => flat x && go l' end) l = flat_block l).
  { induction l as [|x l IH]; [reflexivity|]. cbn [flat_block forallb]. now rewrite IH. }
  cbn [flat]. rewrite !E. reflexivity.
Qed.

(* ---- the walker's state while it walks the wrapper's own scope ---- *)
Section Main.
Variables va vk : N.
Hypothesis Hne : va <> vk.

Definition mst nm im calls tn nx rev : vstate :=
  mkV [mkFrame None nm [] im] 0 calls [] tn nx (Some (MArg 0 va)) (Some (MArg 1 vk)) rev.

Lemma ns_get_mst nm im calls tn nx rev id :
  ns_get (mst nm im calls tn nx rev) id = match assoc id nm with Some m => m | None => MName id end.
Proof. unfold ns_get, mst. cbn. destruct (assoc id nm); reflexivity. Qed.

Lemma visit_name_mst nm im calls tn nx rev id c :
  visit_name id c (mst nm im calls tn nx rev) =
  if mem id im && match c with Load => true | _ => false end then mst nm im calls tn nx rev
  else mst (assoc_set id MUnknown nm) (remove_N id im) calls tn nx rev.
Proof. reflexivity. Qed.

Lemma add_taint_mst nm im calls tn nx rev u :
  add_taint (mst nm im calls tn nx rev) u = mst nm im calls (u :: tn) nx rev.
Proof. reflexivity. Qed.

Lemma add_call_mst nm im calls tn nx rev c :
  add_call (mst nm im calls tn nx rev) c = mst nm im (calls ++ [c]) tn nx rev.
Proof. reflexivity. Qed.

Lemma get_untainted_mst nm im calls tn nx rev m :
  get_untainted (mst nm im calls tn nx rev) m =
  match m with MArg u _ => if existsb (Nat.eqb u) tn then MUnknown else m | _ => m end.
Proof. reflexivity. Qed.

(* association lists *)
Lemma assoc_set_same {A} k (v : A) l : assoc k (assoc_set k v l) = Some v.
Proof.
  induction l as [|[k' v'] l IH]; cbn.
  - now rewrite N.eqb_refl.
  - destruct (N.eqb k k') eqn:E; cbn; [now rewrite N.eqb_refl | now rewrite E].
Qed.

Lemma assoc_set_other {A} k k' (v : A) l : k <> k' -> assoc k (assoc_set k' v l) = assoc k l.
Proof.
  intros H. induction l as [|[k2 v2] l IH]; cbn.
  - destruct (N.eqb_spec k k'); [contradiction|reflexivity].
  - destruct (N.eqb_spec k' k2) as [->|E]; cbn.
    + destruct (N.eqb_spec k k2); [contradiction|reflexivity].
    + destruct (N.eqb k k2); [reflexivity|exact IH].
Qed.

Lemma mem_remove_same k l : mem k (remove_N k l) = false.
Proof.
  induction l as [|x l IH]; [reflexivity|]. cbn. destruct (N.eqb k x) eqn:E; [exact IH|].
  cbn. now rewrite E.
Qed.

Lemma mem_remove_other k k' l : k <> k' -> mem k (remove_N k' l) = mem k l.
Proof.
  intros H. induction l as [|x l IH]; [reflexivity|]. cbn.
  destruct (N.eqb_spec k' x) as [->|E]; cbn.
  - destruct (N.eqb_spec k x); [contradiction|exact IH].
  - now rewrite IH.
Qed.

(* every binding the walker can have made in this scope *)
Definition okm (p : N * marker) : Prop :=
  snd p = MUnknown \/ p = (va, MArg 0 va) \/ p = (vk, MArg 1 vk).
Definition W (nm : list (N * marker)) : Prop := Forall okm nm.

Lemma W_set nm x : W nm -> W (assoc_set x MUnknown nm).
Proof.
  intros H. induction H as [|[k v] l Hp Hl IH]; cbn.
  - constructor; [left; reflexivity|constructor].
  - destruct (N.eqb x k); constructor; auto. left; reflexivity.
Qed.

Lemma W_assoc nm x m : W nm -> assoc x nm = Some m -> okm (x, m).
Proof.
  intros H. induction H as [|[k v] l Hp Hl IH]; cbn; [discriminate|].
  destruct (N.eqb_spec x k) as [->|E]; [intros [= <-]; exact Hp|exact IH].
Qed.

(* what the walker sees of one star variable *)
Definition view (x : N) (u : nat) (nm : list (N * marker)) (tn : list nat) : bool :=
  match assoc x nm with
  | Some (MArg w _) => Nat.eqb w u && negb (existsb (Nat.eqb w) tn)
  | _ => false
  end.

Definition Good nm im tn (k : bool * bool) : Prop :=
  W nm /\ fst k = view va 0 nm tn /\ snd k = view vk 1 nm tn /\
  (fst k = true -> mem va im = true) /\ mem vk im = false.

Definition sname' (s : star) := sname va vk s.
Definition suid (s : star) : nat := match s with SA => 0 | SK => 1 end.

Lemma view_set_same x u nm tn : view x u (assoc_set x MUnknown nm) tn = false.
Proof. unfold view. now rewrite assoc_set_same. Qed.

Lemma view_set_other x y u nm tn : x <> y -> view x u (assoc_set y MUnknown nm) tn = view x u nm tn.
Proof. intros H. unfold view. now rewrite assoc_set_other. Qed.

(* rebinding a star variable *)
Lemma good_set_star s nm im tn k :
  Good nm im tn k -> Good (assoc_set (sname' s) MUnknown nm) (remove_N (sname' s) im) tn (taint_abs s k).
Proof.
  intros (HW & Ha & Hk & Hi & Hm). destruct s; unfold sname', sname, taint_abs; cbn [fst snd].
  - repeat split.
    + now apply W_set.
    + now rewrite view_set_same.
    + rewrite view_set_other by congruence. exact Hk.
    + discriminate.
    + rewrite mem_remove_other by congruence. exact Hm.
  - repeat split.
    + now apply W_set.
    + rewrite view_set_other by congruence. exact Ha.
    + now rewrite view_set_same.
    + intros H. rewrite mem_remove_other by congruence. auto.
    + apply mem_remove_same.
Qed.

(* binding any other name *)
Lemma good_set_other y nm im tn k :
  y <> va -> y <> vk -> Good nm im tn k ->
  Good (assoc_set y MUnknown nm) (remove_N y im) tn k.
Proof.
  intros H1 H2 (HW & Ha & Hk & Hi & Hm). repeat split.
  - now apply W_set.
  - rewrite view_set_other by congruence. exact Ha.
  - rewrite view_set_other by congruence. exact Hk.
  - intros H. rewrite mem_remove_other by congruence. auto.
  - rewrite mem_remove_other by congruence. exact Hm.
Qed.

(* tainting *)
Lemma good_taint s nm im tn k :
  Good nm im tn k -> Good nm im (suid s :: tn) (taint_abs s k).
Proof.
  intros (HW & Ha & Hk & Hi & Hm).
  assert (A : forall x u, view x u nm (u :: tn) = false).
  { intros x u. unfold view. destruct (assoc x nm) as [[| |w n|]|]; try reflexivity.
    cbn [existsb]. destruct (Nat.eqb_spec w u) as [->|E]; reflexivity. }
  assert (B : forall x u u', u <> u' -> view x u nm (u' :: tn) = view x u nm tn).
  { intros x u u' E. unfold view. destruct (assoc x nm) as [[| |w n|]|]; try reflexivity.
    cbn [existsb]. destruct (Nat.eqb_spec w u) as [->|E2]; [|reflexivity].
    destruct (Nat.eqb_spec u u'); [contradiction|reflexivity]. }
  destruct s; unfold taint_abs, suid; cbn [fst snd]; repeat split; cbn [fst snd]; auto;
    try (rewrite A; reflexivity); try (rewrite B by lia; assumption); try discriminate.
Qed.

Lemma taint_abs_idem_a k : fst k = false -> taint_abs SA k = k.
Proof. destruct k; cbn; now intros ->. Qed.
Lemma taint_abs_idem_k k : snd k = false -> taint_abs SK k = k.
Proof. destruct k; cbn; now intros ->. Qed.


(* ---- loops over constant arguments ---- *)
Lemma walk_list_app a b st : walk_list (a ++ b) st = walk_list b (walk_list a st).
Proof. revert st. induction a as [|x a IH]; intros st; [reflexivity|]. cbn. apply IH. Qed.

Lemma args_loop_consts n l st :
  args_loop (repeat const n ++ l) st = (repeat MUnknown n ++ fst (args_loop l st), snd (args_loop l st)).
Proof.
  induction n as [|n IH]; cbn [repeat app].
  - now destruct (args_loop l st).
  - unfold const at 1. cbn. rewrite IH. reflexivity.
Qed.

Lemma star_one_consts n l seen st : star_one (repeat const n ++ l) seen st = star_one l seen st.
Proof. induction n as [|n IH]; cbn [repeat app]; [reflexivity|]. unfold const at 1. cbn. exact IH. Qed.

Lemma kws_loop_consts kw l st :
  kws_loop (map (fun k => NKeyword (Some k) const) kw ++ l) st =
  (map (fun k => (k, MUnknown)) kw ++ fst (kws_loop l st), snd (kws_loop l st)).
Proof.
  induction kw as [|k kw IH]; cbn [map app].
  - now destruct (kws_loop l st).
  - cbn. rewrite IH. reflexivity.
Qed.

Lemma dstar_one_consts kw l st :
  dstar_one (map (fun k => NKeyword (Some k) const) kw ++ l) st = dstar_one l st.
Proof. induction kw as [|k kw IH]; cbn [map app]; [reflexivity|]. cbn. exact IH. Qed.

(* ---- what the walker reads ---- *)
Lemma same_object_view nm im calls tn nx rev x u y :
  same_object (get_untainted (mst nm im calls tn nx rev) (ns_get (mst nm im calls tn nx rev) x))
              (Some (MArg u y)) = view x u nm tn.
Proof.
  rewrite ns_get_mst, get_untainted_mst. unfold view.
  destruct (assoc x nm) as [[| |w n|]|]; try reflexivity.
  destruct (existsb (Nat.eqb w) tn); cbn; [now rewrite Bool.andb_false_r|now rewrite Bool.andb_true_r].
Qed.

Lemma ns_get_not_attr nm im calls tn nx rev id :
  W nm -> is_attr (ns_get (mst nm im calls tn nx rev) id) = false.
Proof.
  intros HW. rewrite ns_get_mst. destruct (assoc id nm) as [m|] eqn:E; [|reflexivity].
  destruct (W_assoc _ _ _ HW E) as [H|[H|H]]; cbn in H; [now rewrite H| |]; inversion H; reflexivity.
Qed.

(* reading a star variable (a Name in Load context that is visited) *)
Lemma good_load s nm im calls tn nx rev k :
  Good nm im tn k ->
  exists nm' im',
    visit_name (sname' s) Load (mst nm im calls tn nx rev) = mst nm' im' calls tn nx rev
    /\ Good nm' im' tn (match s with SA => k | SK => taint_abs SK k end).
Proof.
  intros G. rewrite visit_name_mst, Bool.andb_true_r.
  destruct s; unfold sname', sname.
  - destruct (mem va im) eqn:E.
    + exists nm, im. split; [reflexivity|exact G].
    + exists (assoc_set va MUnknown nm), (remove_N va im). split; [reflexivity|].
      pose proof (good_set_star SA _ _ _ _ G) as G'. unfold sname', sname in G'.
      rewrite taint_abs_idem_a in G'; [exact G'|].
      destruct G as (_ & _ & _ & Hi & _). destruct (fst k); [|reflexivity].
      rewrite Hi in E by reflexivity. discriminate.
  - destruct G as (HW & Ha & Hk & Hi & Hm). rewrite Hm.
    exists (assoc_set vk MUnknown nm), (remove_N vk im). split; [reflexivity|].
    exact (good_set_star SK _ _ _ _ (conj HW (conj Ha (conj Hk (conj Hi Hm))))).
Qed.

(* binding a star variable (Store / Del context) *)
Lemma good_store s c nm im calls tn nx rev k :
  c <> Load -> Good nm im tn k ->
  exists nm' im',
    visit_name (sname' s) c (mst nm im calls tn nx rev) = mst nm' im' calls tn nx rev
    /\ Good nm' im' tn (taint_abs s k).
Proof.
  intros Hc G. rewrite visit_name_mst.
  replace (mem (sname' s) im && match c with Load => true | _ => false end) with false
    by (destruct c; [contradiction| |]; now rewrite Bool.andb_false_r).
  eexists _, _. split; [reflexivity|]. now apply good_set_star.
Qed.

(* the attribute-call taint *)
Lemma good_method s nm im calls tn nx rev k :
  Good nm im tn k ->
  exists tn',
    match attr_base (ns_get (mst nm im calls tn nx rev) (sname' s)) with
    | MArg u _ => add_taint (mst nm im calls tn nx rev) u
    | _ => mst nm im calls tn nx rev
    end = mst nm im calls tn' nx rev
    /\ Good nm im tn' (taint_abs s k).
Proof.
  intros G. pose proof G as (HW & Ha & Hk & Hi & Hm). rewrite ns_get_mst.
  destruct (assoc (sname' s) nm) as [m|] eqn:E.
  - destruct (W_assoc _ _ _ HW E) as [H|[H|H]]; cbn in H.
    + subst m. cbn. exists tn. split; [reflexivity|].
      destruct s; unfold sname', sname in E.
      * rewrite taint_abs_idem_a; [exact G|]. rewrite Ha. unfold view. now rewrite E.
      * rewrite taint_abs_idem_k; [exact G|]. rewrite Hk. unfold view. now rewrite E.
    + inversion H; subst. destruct s; unfold sname', sname in *; [|congruence].
      cbn. exists (0%nat :: tn). split; [reflexivity|]. exact (good_taint SA _ _ _ _ G).
    + inversion H; subst. destruct s; unfold sname', sname in *; [congruence|].
      cbn. exists (1%nat :: tn). split; [reflexivity|]. exact (good_taint SK _ _ _ _ G).
  - cbn. exists tn. split; [reflexivity|].
    destruct s; unfold sname', sname in E.
    + rewrite taint_abs_idem_a; [exact G|]. rewrite Ha. unfold view. now rewrite E.
    + rewrite taint_abs_idem_k; [exact G|]. rewrite Hk. unfold view. now rewrite E.
Qed.


(* ---- one statement: the walker computes the abstract interpretation ---- *)
Definition Step (s : stmt) : Prop := forall nm im calls tn nx rev k,
  Good nm im tn k -> names_ok va vk s = true ->
  exists nm' im' tn' cs,
    walk false (compile va vk s) (mst nm im calls tn nx rev) = mst nm' im' (calls ++ cs) tn' nx rev
    /\ Good nm' im' tn' (fst (absint s k)) /\ map fl cs = snd (absint s k).

Definition StepB (l : list stmt) : Prop := forall nm im calls tn nx rev k,
  Good nm im tn k -> block_ok va vk l = true ->
  exists nm' im' tn' cs,
    walk_list (compile_block va vk l) (mst nm im calls tn nx rev) = mst nm' im' (calls ++ cs) tn' nx rev
    /\ Good nm' im' tn' (fst (absint_block l k)) /\ map fl cs = snd (absint_block l k).

Lemma step_block l : Forall Step l -> StepB l.
Proof.
  induction 1 as [|x l Hx Hl IH]; intros nm im calls tn nx rev k G Hok.
  - exists nm, im, tn, []. rewrite app_nil_r. cbn. auto.
  - cbn [block_ok forallb] in Hok. apply Bool.andb_true_iff in Hok as [Hx1 Hl1].
    destruct (Hx nm im calls tn nx rev k G Hx1) as (nm1 & im1 & tn1 & cs1 & E1 & G1 & F1).
    destruct (IH nm1 im1 (calls ++ cs1) tn1 nx rev _ G1 Hl1) as (nm2 & im2 & tn2 & cs2 & E2 & G2 & F2).
    exists nm2, im2, tn2, (cs1 ++ cs2).
    cbn [compile_block map walk_list]. fold (compile_block va vk l).
    change (walk_list (compile va vk x :: compile_block va vk l) (mst nm im calls tn nx rev))
      with (walk_list (compile_block va vk l) (walk false (compile va vk x) (mst nm im calls tn nx rev))).
    rewrite E1, E2, app_assoc. split; [reflexivity|].
    cbn [absint_block]. destruct (absint x k) as [k1 f1]. cbn [fst snd] in *.
    destruct (absint_block l k1) as [k2 f2]. cbn [fst snd] in *.
    split; [exact G2|]. now rewrite map_app, F1, F2.
Qed.

Ltac finish nm im tn cs := exists nm, im, tn, cs.

Lemma step_all : forall s, Step s.
Proof.
  apply stmt_ind'.
  - (* SFwd *)
    intros c n kw pa pk nm im calls tn nx rev k G _.
    pose proof G as (HW & Ha & Hk & Hi & Hm).
    cbn [compile]. rewrite walk_opaque_eq. cbn [walk_list]. rewrite walk_call_eq.
    cbn [mst v_rev v_frames v_cur get_frame nth f_parent is_some]. rewrite Bool.andb_false_r.
    fold (mst nm im calls tn nx rev).
    unfold res_with. cbn [resolve_na]. unfold process_call.
    rewrite (ns_get_not_attr nm im calls tn nx rev c HW).
    set (st := mst nm im calls tn nx rev).
    assert (EA : forall s, args_loop (if pa then [NStarred (NName va Load)] else []) s = ([], s))
      by (intros s; destruct pa; reflexivity).
    assert (EK : forall s, kws_loop (if pk then [NKeyword None (NName vk Load)] else []) s = ([], s))
      by (intros s; destruct pk; reflexivity).
    assert (SA1 : star_one (if pa then [NStarred (NName va Load)] else []) 0 st =
                  (if pa then Some (get_untainted st (ns_get st va)) else None, st))
      by (destruct pa; reflexivity).
    assert (SK1 : dstar_one (if pk then [NKeyword None (NName vk Load)] else []) st =
                  (if pk then Some (get_untainted st (ns_get st vk)) else None, st))
      by (destruct pk; reflexivity).
    assert (HA : has_hide (if pa then Some (get_untainted st (ns_get st va)) else None) (v_varargs st)
                 = (pa && fst k, pa && negb (fst k))).
    { destruct pa; [|reflexivity]. unfold has_hide. unfold st at 3. cbn [mst v_varargs].
      unfold st. rewrite same_object_view, <- Ha. now destruct (fst k). }
    assert (HK : has_hide (if pk then Some (get_untainted st (ns_get st vk)) else None) (v_varkwargs st)
                 = (pk && snd k, pk && negb (snd k))).
    { destruct pk; [|reflexivity]. unfold has_hide. unfold st at 3. cbn [mst v_varkwargs].
      unfold st. rewrite same_object_view, <- Hk. now destruct (snd k). }
    rewrite args_loop_consts, EA. cbv beta iota. cbn [fst snd].
    rewrite kws_loop_consts, EK. cbv beta iota. cbn [fst snd].
    rewrite star_one_consts, SA1. cbv beta iota.
    rewrite dstar_one_consts, SK1. cbv beta iota.
    rewrite HA, HK. unfold st. rewrite add_call_mst.
    eexists nm, im, tn, [_]. split; [reflexivity|]. split; [exact G|reflexivity].
  - (* SRebind *)
    intros s nm im calls tn nx rev k G _.
    destruct (good_store s Store nm im calls tn nx rev k ltac:(discriminate) G) as (nm' & im' & E & G').
    finish nm' im' tn (@nil callrec). rewrite app_nil_r. split; [|split; [exact G'|reflexivity]].
    cbn [compile]. rewrite walk_opaque_eq. cbn [walk_list walk]. exact E.
  - (* SAug *)
    intros s nm im calls tn nx rev k G _.
    destruct (good_store s Store nm im calls tn nx rev k ltac:(discriminate) G) as (nm' & im' & E & G').
    finish nm' im' tn (@nil callrec). rewrite app_nil_r. split; [|split; [exact G'|reflexivity]].
    cbn [compile]. rewrite walk_opaque_eq. cbn [walk_list walk]. fold (sname' s). rewrite E. reflexivity.
  - (* SDel *)
    intros s nm im calls tn nx rev k G _.
    destruct (good_store s Del nm im calls tn nx rev k ltac:(discriminate) G) as (nm' & im' & E & G').
    finish nm' im' tn (@nil callrec). rewrite app_nil_r. split; [|split; [exact G'|reflexivity]].
    cbn [compile]. rewrite walk_opaque_eq. cbn [walk_list walk]. exact E.
  - (* SItemSet *)
    intros nm im calls tn nx rev k G _.
    destruct (good_load SK nm im calls tn nx rev k G) as (nm' & im' & E & G').
    finish nm' im' tn (@nil callrec). rewrite app_nil_r. split; [|split; [exact G'|reflexivity]].
    cbn [compile]. rewrite walk_opaque_eq. cbn [walk_list]. rewrite walk_opaque_eq. cbn [walk_list walk].
    unfold sname', sname in E. rewrite E. reflexivity.
  - (* SMethod *)
    intros s m nm im calls tn nx rev k G _.
    destruct (good_method s nm im calls tn nx rev k G) as (tn' & E & G').
    eexists nm, im, tn', [_]. split; [|split].
    + cbn [compile]. rewrite walk_opaque_eq. cbn [walk_list]. rewrite walk_call_eq.
      cbn [mst v_rev v_frames v_cur get_frame nth f_parent is_some]. rewrite Bool.andb_false_r.
      fold (mst nm im calls tn nx rev).
      unfold res_with. cbn [resolve_na]. unfold process_call. cbn [is_attr attr_base].
      fold (sname' s). rewrite E. reflexivity.
    + exact G'.
    + reflexivity.
  - (* SPass *)
    intros f s nm im calls tn nx rev k G _.
    pose proof G as (HW & _).
    destruct (good_load s nm im calls tn nx rev k G) as (nm' & im' & E & G').
    eexists nm', im', tn, [_]. split; [|split].
    + cbn [compile]. rewrite walk_opaque_eq. cbn [walk_list]. rewrite walk_call_eq.
      cbn [mst v_rev v_frames v_cur get_frame nth f_parent is_some]. rewrite Bool.andb_false_r.
      fold (mst nm im calls tn nx rev).
      unfold res_with. cbn [resolve_na]. unfold process_call.
      rewrite (ns_get_not_attr nm im calls tn nx rev f HW).
      cbn [args_loop]. unfold res_with. cbn [resolve_na]. fold (sname' s). rewrite E.
      reflexivity.
    + destruct s; exact G'.
    + destruct s; reflexivity.
  - (* SAlias *)
    intros y s nm im calls tn nx rev k G Hok.
    cbn [names_ok] in Hok. apply Bool.andb_true_iff in Hok as [H1 H2].
    apply Bool.negb_true_iff in H1, H2. apply N.eqb_neq in H1, H2.
    pose proof (good_set_other y nm im tn k H1 H2 G) as G1.
    destruct (good_load s _ _ calls tn nx rev k G1) as (nm' & im' & E & G').
    finish nm' im' tn (@nil callrec). rewrite app_nil_r. split; [|split].
    + cbn [compile]. rewrite walk_opaque_eq. cbn [walk_list walk].
      rewrite (visit_name_mst nm im calls tn nx rev y Store), Bool.andb_false_r.
      fold (sname' s). exact E.
    + destruct s; exact G'.
    + destruct s; reflexivity.
  - (* SOther *)
    intros f nm im calls tn nx rev k G _.
    pose proof G as (HW & _).
    eexists nm, im, tn, [_]. split; [|split].
    + cbn [compile]. rewrite walk_opaque_eq. cbn [walk_list]. rewrite walk_call_eq.
      cbn [mst v_rev v_frames v_cur get_frame nth f_parent is_some]. rewrite Bool.andb_false_r.
      fold (mst nm im calls tn nx rev).
      unfold res_with. cbn [resolve_na]. unfold process_call.
      rewrite (ns_get_not_attr nm im calls tn nx rev f HW).
      reflexivity.
    + exact G.
    + reflexivity.
  - (* SIf *)
    intros a b Ha Hb nm im calls tn nx rev k G Hok.
    rewrite names_ok_if in Hok. apply Bool.andb_true_iff in Hok as [Hoa Hob].
    destruct (step_block a Ha nm im calls tn nx rev k G Hoa) as (nm1 & im1 & tn1 & cs1 & E1 & G1 & F1).
    destruct (step_block b Hb nm1 im1 (calls ++ cs1) tn1 nx rev _ G1 Hob) as (nm2 & im2 & tn2 & cs2 & E2 & G2 & F2).
    exists nm2, im2, tn2, (cs1 ++ cs2).
    rewrite compile_if, walk_opaque_eq.
    change (walk_list (const :: compile_block va vk a ++ compile_block va vk b) (mst nm im calls tn nx rev))
      with (walk_list (compile_block va vk a ++ compile_block va vk b) (mst nm im calls tn nx rev)).
    rewrite walk_list_app, E1, E2, app_assoc. split; [reflexivity|].
    rewrite absint_if. destruct (absint_block a k) as [k1 f1]. cbn [fst snd] in *.
    destruct (absint_block b k1) as [k2 f2]. cbn [fst snd] in *.
    split; [exact G2|]. now rewrite map_app, F1, F2.
  - (* SLambdaMut: outside the fragment *)
    intros m nm im calls tn nx rev k G Hok. discriminate Hok.
Qed.

End Main.

(* ---- the abstract interpretation is sound for the execution semantics ---- *)
Definition le_abs (k : bool * bool) (st : sem) : Prop :=
  (fst k = true -> pr_a st = true) /\ (snd k = true -> pr_k st = true).

Definition le_k (k' k : bool * bool) : Prop :=
  (fst k' = true -> fst k = true) /\ (snd k' = true -> snd k = true).

Definition flag_sound (f : flags) (e : event) : Prop :=
  let '(ua, uk, ha, hk) := f in
  (ua = true -> ev_a e = Some true) /\ (uk = true -> ev_k e = Some true) /\
  (ua || ha = is_some (ev_a e)) /\ (uk || hk = is_some (ev_k e)).

Definition dflags : flags := (false, false, false, false).

Lemma le_abs_mono k' k st : le_k k' k -> le_abs k st -> le_abs k' st.
Proof. intros [A B] [C D]. split; auto. Qed.

Lemma le_k_refl k : le_k k k. Proof. split; auto. Qed.
Lemma le_k_trans a b c : le_k a b -> le_k b c -> le_k a c.
Proof. intros [A B] [C D]. split; auto. Qed.

Lemma le_k_taint s k : le_k (taint_abs s k) k.
Proof. destruct s; split; cbn; auto; discriminate. Qed.

Lemma ncalls_if a b : ncalls (SIf a b) = (ncalls_block a + ncalls_block b)%nat.
Proof.
  assert (E : forall l, (fix go (l : list stmt) : nat :=
             match l with [] => O | x :: l' => (ncalls x + go l')%nat end) l = ncalls_block l).
  { induction l as [|x l IH]; [reflexivity|]. cbn [ncalls_block]. now rewrite IH. }
  cbn [ncalls]. now rewrite !E.
Qed.

(* decreasing, and one flag tuple per call expression *)
Definition Shape (s : stmt) : Prop :=
  forall k, le_k (fst (absint s k)) k /\ length (snd (absint s k)) = ncalls s.

Lemma shape_block l : Forall Shape l ->
  forall k, le_k (fst (absint_block l k)) k /\ length (snd (absint_block l k)) = ncalls_block l.
Proof.
  induction 1 as [|x l Hx Hl IH]; intros k; cbn [absint_block ncalls_block].
  - split; [apply le_k_refl|reflexivity].
  - destruct (Hx k) as [A B]. destruct (absint x k) as [k1 f1]. cbn [fst snd] in *.
    destruct (IH k1) as [C D]. destruct (absint_block l k1) as [k2 f2]. cbn [fst snd] in *.
    split; [eapply le_k_trans; eauto|]. rewrite app_length. lia.
Qed.

Lemma shape_all : forall s, Shape s.
Proof.
  apply stmt_ind'; unfold Shape.
  - intros c n kw pa pk k0. cbn. split; [apply le_k_refl|reflexivity].
  - intros s k0. cbn. split; [apply le_k_taint|reflexivity].
  - intros s k0. cbn. split; [apply le_k_taint|reflexivity].
  - intros s k0. cbn. split; [apply le_k_taint|reflexivity].
  - intros k0. cbn. split; [apply (le_k_taint SK)|reflexivity].
  - intros s m k0. cbn. split; [apply le_k_taint|reflexivity].
  - intros f s k0. destruct s; cbn; split; try reflexivity; [apply le_k_refl|apply (le_k_taint SK)].
  - intros y s k0. destruct s; cbn; split; try reflexivity; [apply le_k_refl|apply (le_k_taint SK)].
  - intros f k0. cbn. split; [apply le_k_refl|reflexivity].
  - intros a b Ha Hb k. rewrite absint_if, ncalls_if.
    destruct (shape_block a Ha k) as [A B]. destruct (absint_block a k) as [k1 f1]. cbn [fst snd] in *.
    destruct (shape_block b Hb k1) as [C D]. destruct (absint_block b k1) as [k2 f2]. cbn [fst snd] in *.
    split; [eapply le_k_trans; eauto|]. rewrite app_length. lia.
  - intros m k0. cbn. split; [apply le_k_refl|reflexivity].
Qed.

Lemma Forall_all {A} (P : A -> Prop) (H : forall x, P x) l : Forall P l.
Proof. induction l; constructor; auto. Qed.

Definition shape_b l := shape_block l (Forall_all _ shape_all l).

(* the statement of soundness for one outcome *)
Definition Sound_out (off n : nat) (k' : bool * bool) (fs : list flags) (r : sem * list event) : Prop :=
  le_abs k' (fst r) /\
  forall e, In e (snd r) ->
    (off <= ev_site e < off + n)%nat /\ flag_sound (nth (ev_site e - off) fs dflags) e.

Lemma exec_if fuel off a b st :
  exec_stmt (S fuel) off (SIf a b) st =
  exec_block fuel a off st ++ exec_block fuel b (off + ncalls_block a) st.
Proof.
  assert (E : forall l o s,
    (fix go (l : list stmt) (off : nat) (st : sem) : list (sem * list event) :=
       match l with
       | [] => [(st, [])]
       | x :: l' =>
           flat_map (fun r1 => map (fun r2 => (fst r2, snd r1 ++ snd r2))
                                   (go l' (off + ncalls x)%nat (fst r1)))
                    (exec_stmt fuel off x st)
       end) l o s = exec_block fuel l o s).
  { induction l as [|x l IH]; intros o s; [reflexivity|]. cbn [exec_block].
    apply flat_map_ext. intros r1. now rewrite IH. }
  cbn [exec_stmt]. now rewrite !E.
Qed.

Definition SoundS (fuel : nat) : Prop := forall s off k st r,
  flat s = true -> le_abs k st -> In r (exec_stmt fuel off s st) ->
  Sound_out off (ncalls s) (fst (absint s k)) (snd (absint s k)) r.

Lemma sound_block fuel : SoundS fuel -> forall l off k st r,
  flat_block l = true -> le_abs k st -> In r (exec_block fuel l off st) ->
  Sound_out off (ncalls_block l) (fst (absint_block l k)) (snd (absint_block l k)) r.
Proof.
  intros HS. induction l as [|x l IH]; intros off k st r Hfl Hle Hin.
  - cbn in Hin. destruct Hin as [<-|[]]. split; [exact Hle|intros e []].
  - cbn [flat_block forallb] in Hfl. apply Bool.andb_true_iff in Hfl as [Hfx Hfl].
    cbn [exec_block] in Hin. apply in_flat_map in Hin as (r1 & H1 & Hin).
    apply in_map_iff in Hin as (r2 & <- & H2).
    destruct (HS x off k st r1 Hfx Hle H1) as [L1 E1].
    destruct (shape_all x k) as [_ Len1].
    cbn [absint_block ncalls_block]. destruct (absint x k) as [k1 f1]. cbn [fst snd] in *.
    destruct (IH (off + ncalls x)%nat k1 (fst r1) r2 Hfl L1 H2) as [L2 E2].
    destruct (absint_block l k1) as [k2 f2]. cbn [fst snd] in *.
    split; [exact L2|]. intros e He. apply in_app_or in He as [He|He].
    + destruct (E1 e He) as [R F]. split; [lia|]. rewrite app_nth1 by lia. exact F.
    + destruct (E2 e He) as [R F]. split; [lia|]. rewrite app_nth2 by lia.
      replace (ev_site e - off - length f1)%nat with (ev_site e - (off + ncalls x))%nat by lia. exact F.
Qed.

Lemma sound_all : forall fuel, SoundS fuel.
Proof.
  induction fuel as [|fuel IH]; intros s off k st r Hfl Hle Hin; [destruct Hin|].
  destruct Hle as [La Lk].
  assert (one : forall pa pk : bool, Sound_out off 1 k
            [(pa && fst k, pk && snd k, pa && negb (fst k), pk && negb (snd k))]
            (st, [mkEvent off (if pa then Some (pr_a st) else None) (if pk then Some (pr_k st) else None)])).
  { intros pa pk. split; [split; assumption|]. intros e [<-|[]]. cbn [ev_site]. split; [lia|].
    rewrite Nat.sub_diag. cbn [nth flag_sound ev_a ev_k].
    destruct pa, pk, (fst k), (snd k); cbn; repeat split; try discriminate;
      try (rewrite La by reflexivity); try (rewrite Lk by reflexivity); reflexivity. }
  assert (plain : forall k' st', le_abs k' st' -> Sound_out off 1 k' [dflags] (st', [mkEvent off None None])).
  { intros k' st' L. split; [exact L|]. intros e [<-|[]]. cbn [ev_site]. split; [lia|].
    rewrite Nat.sub_diag. cbn. repeat split; discriminate. }
  assert (quiet : forall k' st', le_abs k' st' -> Sound_out off 0 k' [] (st', [])).
  { intros k' st' L. split; [exact L|]. intros e []. }
  assert (TA : forall x, le_abs (taint_abs x k) (taint_sem x st)).
  { intros x. destruct x; split; cbn; auto; discriminate. }
  assert (TK : le_abs (taint_abs SK k) st).
  { split; cbn; auto; discriminate. }
  assert (TAA : le_abs (taint_abs SA k) st).
  { split; cbn; auto; discriminate. }
  destruct s as [c n kw pa pk|x|x|x| |x m|f x|y x|f|a b|m]; [| | | | | | | | | |discriminate Hfl].
  - cbn in Hin. destruct Hin as [<-|[]]. apply one.
  - cbn in Hin. destruct Hin as [<-|[]]. apply quiet, TA.
  - cbn in Hin. destruct Hin as [<-|[]]. apply quiet, TA.
  - cbn in Hin. destruct Hin as [<-|[]]. apply quiet, TA.
  - cbn in Hin. destruct Hin as [<-|[]]. apply quiet, (TA SK).
  - destruct x; cbn in Hin; destruct Hin as [<-|[]]; apply plain; [exact TAA|apply (TA SK)].
  - destruct x; cbn in Hin; destruct Hin as [<-|[]]; apply plain; [split; assumption|apply (TA SK)].
  - destruct x; cbn in Hin; destruct Hin as [<-|[]]; apply quiet; [split; assumption|exact TK].
  - cbn in Hin. destruct Hin as [<-|[]]. apply plain. split; assumption.
  - rewrite flat_if in Hfl. apply Bool.andb_true_iff in Hfl as [Hfa Hfb].
    rewrite exec_if in Hin. rewrite absint_if, ncalls_if.
    destruct (shape_b a k) as [Da Lena].
    pose proof (sound_block fuel IH a off k st) as SA_.
    pose proof (sound_block fuel IH b (off + ncalls_block a)%nat (fst (absint_block a k)) st) as SB_.
    destruct (absint_block a k) as [k1 f1]. cbn [fst snd] in *.
    destruct (shape_b b k1) as [Db Lenb].
    destruct (absint_block b k1) as [k2 f2]. cbn [fst snd] in *.
    apply in_app_or in Hin as [Hin|Hin].
    + destruct (SA_ r Hfa (conj La Lk) Hin) as [L E]. split.
      * eapply le_abs_mono; [exact Db|exact L].
      * intros e He. destruct (E e He) as [R F]. split; [lia|]. rewrite app_nth1 by lia. exact F.
    + assert (L0 : le_abs k1 st) by (eapply le_abs_mono; [exact Da|split; assumption]).
      destruct (SB_ r Hfb L0 Hin) as [L E]. split; [exact L|].
      intros e He. destruct (E e He) as [R F]. split; [lia|]. rewrite app_nth2 by lia.
      replace (ev_site e - off - length f1)%nat with (ev_site e - (off + ncalls_block a))%nat by lia. exact F.
Qed.

(* ---- the walker on a whole wrapper ---- *)
Theorem visitor_flags_absint va vk l :
  va <> vk -> block_ok va vk l = true ->
  visitor_flags va vk l = Some (snd (absint_block l (true, true))).
Proof.
  intros Hne Hok. unfold visitor_flags, visit_function.
  assert (E0 : process_parameters true [] [] (Some va) (Some vk) init_state =
               mst va vk [(va, MArg 0 va); (vk, MArg 1 vk)] [va] [] [] 2%nat false).
  { assert (Eb : N.eqb vk va = false) by (apply N.eqb_neq; congruence).
    cbv -[N.eqb]. rewrite !Eb. reflexivity. }
  rewrite E0, fold_walk_list.
  assert (G0 : Good va vk [(va, MArg 0 va); (vk, MArg 1 vk)] [va] [] (true, true)).
  { assert (Eb : N.eqb vk va = false) by (apply N.eqb_neq; congruence).
    unfold Good, W, view. cbn [assoc mem fst snd]. rewrite !N.eqb_refl, !Eb. cbn.
    split; [|repeat split; auto].
    constructor; [right; left; reflexivity|constructor; [right; right; reflexivity|constructor]]. }
  destruct (step_block va vk l (Forall_all _ (step_all va vk Hne) l) _ _ [] _ 2%nat false _ G0 Hok)
    as (nm' & im' & tn' & cs & E & _ & F).
  rewrite E.
  cbn [app]. unfold set_rev, mst. cbn [v_frames v_cur v_calls v_todo v_taint v_next v_varargs v_varkwargs].
  cbn [drain v_todo v_calls]. rewrite <- F. reflexivity.
Qed.

Lemma names_ok_flat va vk : forall s, names_ok va vk s = true -> flat s = true.
Proof.
  apply (stmt_ind' (fun s => names_ok va vk s = true -> flat s = true)); try (intros; reflexivity).
  - intros a b Ha Hb H. rewrite names_ok_if in H. apply Bool.andb_true_iff in H as [H1 H2].
    rewrite flat_if. apply Bool.andb_true_iff. split.
    + unfold block_ok in H1. unfold flat_block. rewrite forallb_forall in *. intros x Hx.
      rewrite Forall_forall in Ha. apply Ha; auto.
    + unfold block_ok in H2. unfold flat_block. rewrite forallb_forall in *. intros x Hx.
      rewrite Forall_forall in Hb. apply Hb; auto.
  - intros m H. discriminate H.
Qed.

Lemma block_ok_flat va vk l : block_ok va vk l = true -> flat_block l = true.
Proof.
  unfold block_ok, flat_block. rewrite !forallb_forall. intros H x Hx.
  apply (names_ok_flat va vk). auto.
Qed.

(* C05, flag soundness: for every wrapper body of the grammar, of any length
   and nesting, every execution path and every call it executes:
   - a star argument the walker marks as used is the caller's untouched object
     when the callee receives it;
   - a star argument written in the call is marked used or hidden, never neither. *)
Theorem flags_sound va vk l fls :
  va <> vk -> block_ok va vk l = true ->
  visitor_flags va vk l = Some fls ->
  forall fuel st' evs e,
    In (st', evs) (exec_block fuel l 0 (mkSem true true)) -> In e evs ->
    (ev_site e < length fls)%nat /\ flag_sound (nth (ev_site e) fls dflags) e.
Proof.
  intros Hne Hok Hv fuel st' evs e Hin He.
  rewrite (visitor_flags_absint va vk l Hne Hok) in Hv. injection Hv as <-.
  assert (L0 : le_abs (true, true) (mkSem true true)) by (split; reflexivity).
  destruct (sound_block fuel (sound_all fuel) l 0 (true, true) _ _ (block_ok_flat va vk l Hok) L0 Hin) as [_ E].
  destruct (E e He) as [R F]. cbn [snd] in *. rewrite Nat.sub_0_r in F.
  destruct (shape_b l (true, true)) as [_ Len]. split; [lia|exact F].
Qed.

(* with enough fuel every program has an execution (the statement is not vacuous) *)
Lemma depth_if a b : depth (SIf a b) = S (Nat.max (depth_block a) (depth_block b)).
Proof.
  assert (E : forall l, (fix go (l : list stmt) : nat :=
             match l with [] => O | x :: l' => Nat.max (depth x) (go l') end) l = depth_block l).
  { induction l as [|x l IH]; [reflexivity|]. cbn [depth_block]. now rewrite IH. }
  cbn [depth]. now rewrite !E.
Qed.

Definition Runs (s : stmt) : Prop :=
  forall fuel off st, (depth s <= fuel)%nat -> exec_stmt fuel off s st <> [].

Lemma runs_block l : Forall Runs l ->
  forall fuel off st, (depth_block l <= fuel)%nat -> exec_block fuel l off st <> [].
Proof.
  induction 1 as [|x l Hx Hl IH]; intros fuel off st Hd; cbn [exec_block]; [discriminate|].
  cbn [depth_block] in Hd.
  destruct (exec_stmt fuel off x st) as [|r1 rs] eqn:E1; [exfalso; apply (Hx fuel off st); [lia|exact E1]|].
  cbn [flat_map].
  destruct (exec_block fuel l (off + ncalls x) (fst r1)) as [|r2 rs2] eqn:E2;
    [exfalso; apply (IH fuel (off + ncalls x)%nat (fst r1)); [lia|exact E2]|].
  discriminate.
Qed.

Lemma runs_all : forall s, Runs s.
Proof.
  apply stmt_ind'; unfold Runs;
    try (intros; match goal with H : (_ <= ?f)%nat |- _ => destruct f; [cbn in H; lia|] end;
         cbn; try match goal with |- context [match ?s with SA => _ | SK => _ end] => destruct s end; discriminate).
  intros a b Ha Hb fuel off st Hd. rewrite depth_if in Hd. destruct fuel as [|fuel]; [lia|].
  rewrite exec_if. intros E. apply app_eq_nil in E as [E _].
  apply (runs_block a Ha fuel off st); [lia|exact E].
Qed.

Theorem exec_total l st : exec_block (depth_block l) l 0 st <> [].
Proof. apply runs_block; [apply Forall_all, runs_all|lia]. Qed.

(* a concrete program meeting every hypothesis, with both kinds of outcome *)
Definition sample : list stmt :=
  [SFwd 5 2 [7] true true; SMethod SK 9; SFwd 5 0 [] true true;
   SIf [SRebind SA] [SAlias 11 SK; SOther 12]; SFwd 5 1 [] true false]%N.

Example sample_ok :
  block_ok 1 2 sample = true /\
  visitor_flags 1 2 sample =
    Some [(true, true, false, false); (false, false, false, false); (true, false, false, true);
          (false, false, false, false); (false, false, true, false)] /\
  length (exec_block 2 sample 0 (mkSem true true)) = 2%nat.
Proof. vm_compute. repeat split. Qed.

(* outside the fragment the statement is FALSE of the faithful walker model: a
   mutation of **kwargs in a nested scope that runs before the forwarding call is
   processed only after it (deferred), so the later call is still marked as used.
   Witness:  def w( *args, **kwargs ): (lambda: kwargs.m(c, c))(); callee( **kwargs )  *)
Definition nested_witness : list stmt := [SLambdaMut 9; SFwd 5 0 [] false true]%N.

Theorem flags_sound_nested_refuted :
  exists fls st' evs e,
    visitor_flags 1 2 nested_witness = Some fls /\
    In (st', evs) (exec_block 1 nested_witness 0 (mkSem true true)) /\ In e evs /\
    ~ flag_sound (nth (ev_site e) fls dflags) e.
Proof.
  exists [(false, false, false, false); (false, true, false, false); (false, false, false, false)],
         (mkSem true false),
         [mkEvent 0 None None; mkEvent 1 None (Some false)], (mkEvent 1 None (Some false)).
  split; [vm_compute; reflexivity|]. split; [vm_compute; auto|]. split; [cbn; auto|].
  cbn. intros (_ & H & _). specialize (H eq_refl). discriminate H.
Qed.

(* ---- C06: irrelevant variation of the source does not change what the walker extracts ---- *)
Lemma absint_block_app a b k :
  absint_block (a ++ b) k =
  (fst (absint_block b (fst (absint_block a k))),
   snd (absint_block a k) ++ snd (absint_block b (fst (absint_block a k)))).
Proof.
  revert k. induction a as [|x a IH]; intros k; cbn [app absint_block].
  - cbn. now destruct (absint_block b k).
  - destruct (absint x k) as [k1 f1]. rewrite IH.
    destruct (absint_block a k1) as [k2 f2]. cbn [fst snd].
    destruct (absint_block b k2) as [k3 f3]. cbn [fst snd]. now rewrite app_assoc.
Qed.

Lemma block_ok_app va vk a b : block_ok va vk (a ++ b) = block_ok va vk a && block_ok va vk b.
Proof. unfold block_ok. apply forallb_app. Qed.

(* an unrelated call f(<constant>) inserted anywhere: the other calls keep their flags, the new
   call forwards nothing *)
Theorem unrelated_call_invariant va vk l1 l2 f :
  va <> vk -> block_ok va vk (l1 ++ l2) = true -> names_ok va vk (SOther f) = true ->
  exists f1 f2,
    visitor_flags va vk (l1 ++ l2) = Some (f1 ++ f2) /\
    visitor_flags va vk (l1 ++ SOther f :: l2) = Some (f1 ++ dflags :: f2) /\
    length f1 = ncalls_block l1.
Proof.
  intros Hne Hok Hf. rewrite block_ok_app in Hok. apply Bool.andb_true_iff in Hok as [H1 H2].
  assert (Hok2 : block_ok va vk (l1 ++ SOther f :: l2) = true).
  { rewrite block_ok_app. rewrite H1. unfold block_ok in *. cbn [forallb]. now rewrite Hf, H2. }
  rewrite (visitor_flags_absint va vk (l1 ++ l2) Hne) by (rewrite block_ok_app; now rewrite H1, H2).
  rewrite (visitor_flags_absint va vk _ Hne Hok2).
  rewrite !absint_block_app. cbn [snd fst absint_block absint].
  destruct (shape_b l1 (true, true)) as [_ Len].
  destruct (absint_block l1 (true, true)) as [k1 f1]. cbn [fst snd] in *.
  destruct (absint_block l2 k1) as [k2 f2]. cbn [fst snd].
  exists f1, f2. split; [reflexivity|]. split; [reflexivity|exact Len].
Qed.

(* a local alias of *args (read only): nothing changes *)
Theorem alias_args_invariant va vk l1 l2 y :
  va <> vk -> block_ok va vk (l1 ++ l2) = true -> names_ok va vk (SAlias y SA) = true ->
  visitor_flags va vk (l1 ++ SAlias y SA :: l2) = visitor_flags va vk (l1 ++ l2).
Proof.
  intros Hne Hok Hy. pose proof Hok as Hok0.
  rewrite block_ok_app in Hok. apply Bool.andb_true_iff in Hok as [H1 H2].
  assert (Hok2 : block_ok va vk (l1 ++ SAlias y SA :: l2) = true).
  { rewrite block_ok_app. rewrite H1. unfold block_ok in *. cbn [forallb]. now rewrite Hy, H2. }
  rewrite (visitor_flags_absint va vk (l1 ++ l2) Hne Hok0), (visitor_flags_absint va vk _ Hne Hok2).
  rewrite !absint_block_app. cbn [snd fst absint_block absint].
  destruct (absint_block l1 (true, true)) as [k1 f1]. cbn [fst snd].
  destruct (absint_block l2 k1) as [k2 f2]. reflexivity.
Qed.

(* statement context: the same statements under a branch `if <constant>:` (with the following
   ones in the else branch or after it) give the same flags, in the same order *)
Theorem branch_context_invariant va vk l1 a b l2 :
  va <> vk -> block_ok va vk (l1 ++ a ++ b ++ l2) = true ->
  visitor_flags va vk (l1 ++ SIf a b :: l2) = visitor_flags va vk (l1 ++ a ++ b ++ l2).
Proof.
  intros Hne Hok. pose proof Hok as Hok0.
  rewrite !block_ok_app in Hok. apply Bool.andb_true_iff in Hok as [H1 Hok].
  apply Bool.andb_true_iff in Hok as [Ha Hok]. apply Bool.andb_true_iff in Hok as [Hb H2].
  assert (Hok2 : block_ok va vk (l1 ++ SIf a b :: l2) = true).
  { rewrite block_ok_app. rewrite H1. unfold block_ok at 1. cbn [forallb]. rewrite names_ok_if, Ha, Hb.
    unfold block_ok in H2. now rewrite H2. }
  rewrite (visitor_flags_absint va vk _ Hne Hok0), (visitor_flags_absint va vk _ Hne Hok2).
  rewrite !absint_block_app. cbn [snd fst absint_block]. rewrite absint_if.
  destruct (absint_block l1 (true, true)) as [k1 f1]. cbn [fst snd].
  destruct (absint_block a k1) as [k2 f2]. cbn [fst snd].
  destruct (absint_block b k2) as [k3 f3]. cbn [fst snd].
  destruct (absint_block l2 k3) as [k4 f4]. cbn [fst snd]. now rewrite !app_assoc.
Qed.
