(* ContribForwards.v — C10 for `forwards`, as the composition mask-then-embed.

   forwards_made        every parameter of forwards(outer, inner, ...) is a parameter of
                        outer, a parameter of inner, or a conciliation (three readable cases,
                        composing mask_gen_contrib and embed2_contrib)
   mask_gen_valid       a _mask result is a valid signature (no hypothesis on the input)
   forwards_order       positional parameters: the outer ones first, in the outer order, then
                        the surviving inner ones in the inner order (composing mask_gen_order
                        and embed2_order); keyword-only: the outer ones first
   forwards_order_pairwise   the same as a statement on pairs of positions *)
From Coq Require Import List NArith Bool Arith Lia Btauto.
From Sigtools.Model Require Import Base Bind Roles Algebra.
From Sigtools.Proofs Require Import SmallModel Basics Prov MaskLaws MaskExact MergeNeutral Annot
     ProvKeys Contrib ProvNoDup ContribEmbed ProvNoDupOps ContribMore.
Import Base Bind Roles Algebra.
Import ListNotations.
Open Scope N_scope.

(* ================================================================== *)
(* 1. contributors                                                     *)

(* the parameter list forwards masks: the inner one, all-optional in partial mode *)
Lemma finner_spec pt I q : In q (finner pt I) ->
  exists q0, In q0 I /\ q = (if pt then defaulted q0 else q0).
Proof.
  unfold finner. destruct pt; intros H.
  - apply in_map_iff in H. destruct H as [q0 [<- H]]. exists q0. auto.
  - exists q. auto.
Qed.

(* C10_contrib for forwards, read on the two inputs themselves: every parameter p of
   forwards(outer, inner, n, names, ...) is
   (1) a parameter of outer: same name, annotation, kind PK possibly restricted to PO,
       default kept or (positional parameters only) dropped;
   (2) a parameter of inner that survived the mask: same name and annotation, kind
       possibly restricted (PK to PO or KO), default kept (or, in partial mode, the
       all-optional variant `defaulted`);
   (3) the conciliation of inner's star parameter with outer's star of the same kind. *)
Theorem forwards_made o i n names0 ha hk uva uvk pt r p :
  forwards o i n names0 ha hk uva uvk pt = Ok r -> In p (params r) ->
  (exists q, In q (params o) /\ pname p = pname q /\ pann p = pann q /\ puann p = puann q /\
             kind_ok (pkind q) (pkind p) /\
             (pdef p = pdef q \/ (is_positional q = true /\ pdef p = None))) \/
  (exists q, In q (params i) /\ pname p = pname q /\ pann p = pann q /\ puann p = puann q /\
             kind_ok (pkind q) (pkind p) /\
             pdef p = pdef (if pt then defaulted q else q)) \/
  (exists a b, In a (params i) /\ In b (params o) /\ (pkind a = VP \/ pkind a = VK) /\
               pkind b = pkind a /\ p = concile a b).
Proof.
  intros E Hp. pose proof (forwards_contrib _ _ _ _ _ _ _ _ _ _ E) as H. rewrite Forall_forall in H.
  destruct (H p Hp) as [(q & Hq & [Hr | [Hpos Hr]]) | [(q & Hq & Hr) | (a & b & Ha & Hb & Hk & Hkb & ->)]].
  - left. exists q. destruct (restr_fields _ _ Hr) as (A & B & C & D). destruct Hr as [_ K].
    repeat split; auto.
  - left. exists q. destruct (restr_fields _ _ Hr) as (A & B & C & D). destruct Hr as [_ K].
    cbn [set_def pname pdef pann puann pkind] in *. repeat split; auto.
  - right; left. destruct (finner_spec pt _ q Hq) as (q0 & Hq0 & ->).
    exists q0. destruct (restr_fields _ _ Hr) as (A & B & C & D). destruct Hr as [_ K].
    split; [exact Hq0|]. destruct pt.
    + rewrite defaulted_name in A. rewrite defaulted_kind in K.
      assert (An : pann (defaulted q0) = pann q0 /\ puann (defaulted q0) = puann q0)
        by (unfold defaulted; destruct (pkind q0); split; reflexivity).
      destruct An as [An1 An2]. rewrite An1 in C. rewrite An2 in D. repeat split; auto.
    + repeat split; auto.
  - right; right. destruct (finner_spec pt _ a Ha) as (a0 & Ha0 & Ea).
    assert (Ea' : a = a0).
    { destruct pt; [|exact Ea]. subst a. rewrite defaulted_kind in Hk. unfold defaulted.
      destruct Hk as [Hk|Hk]; rewrite Hk; reflexivity. }
    subst a0. exists a, b. repeat split; auto.
Qed.

(* ================================================================== *)
(* 2. a _mask result is a valid signature                              *)

Lemma count_kind_app k a b : count_kind k (a ++ b) = (count_kind k a + count_kind k b)%nat.
Proof. unfold count_kind. rewrite filter_app, app_length. reflexivity. Qed.

Lemma count_kind_other k k' ps : k' <> k -> Forall (fun p => pkind p = k') ps -> count_kind k ps = 0%nat.
Proof.
  intros Hne. unfold count_kind. induction 1 as [|p ps Hp _ IH]; [reflexivity|]. cbn [filter].
  unfold is_kind at 1. rewrite Hp. destruct k, k'; try contradiction; cbn; exact IH.
Qed.

Lemma count_kind_opt k (o : option param) : (count_kind k (opt_list o) <= 1)%nat.
Proof. unfold count_kind. destruct o as [p|]; cbn [opt_list filter]; [destruct (is_kind k p)|]; cbn; lia. Qed.

Theorem mask_gen_valid s n h named pm r :
  mask_gen s n h named pm = Ok r -> valid_sig (params r) = true.
Proof.
  intros E. pose proof (mask_gen_wf _ _ _ _ _ _ E) as Hw.
  destruct (mask_gen_MC s n h named pm r E) as (pos1 & st & vk3 & [k Hk1] & Hvk & ((a & b & Hseg) & Hk & Hva) & Hp).
  set (so := sort_params s) in *.
  destruct (sort_params_kinds s) as (K1 & K2 & K3 & K4 & K5). fold so in K1, K2, K3, K4, K5.
  assert (P1 : Forall (fun p => pkind p = PO) pos1) by (subst pos1; apply Forall_skipn'; exact K1).
  assert (P2 : Forall (fun p => pkind p = PK) (k_pok st)).
  { rewrite Hseg in K2. apply Forall_app in K2. destruct K2 as [_ K2]. apply Forall_app in K2. apply K2. }
  assert (P3 : Forall (fun p => pkind p = KO) (k_kwo st)).
  { eapply Forall_impl; [|exact Hk]. intros p Hp'. eapply kclass_kind; [|exact Hp']. rewrite Forall_forall in K4. exact K4. }
  assert (P4 : Forall (fun p => pkind p = VP) (opt_list (k_va st))).
  { apply opt_forall. intros v Hv0. destruct Hva as [Hva|Hva]; [congruence|]. rewrite Hva in Hv0. apply K3. exact Hv0. }
  assert (P5 : Forall (fun p => pkind p = VK) (opt_list vk3)).
  { apply opt_forall. intros v Hv0. destruct Hvk as [Hvk|Hvk]; [congruence|]. rewrite Hvk in Hv0. apply K5. exact Hv0. }
  unfold valid_sig. rewrite Hw. cbn [andb]. rewrite Hp, !count_kind_app.
  rewrite (count_kind_other VP PO pos1), (count_kind_other VP PK (k_pok st)), (count_kind_other VP KO (k_kwo st)),
          (count_kind_other VP VK (opt_list vk3)),
          (count_kind_other VK PO pos1), (count_kind_other VK PK (k_pok st)), (count_kind_other VK KO (k_kwo st)),
          (count_kind_other VK VP (opt_list (k_va st))); try assumption; try discriminate.
  pose proof (count_kind_opt VP (k_va st)). pose proof (count_kind_opt VK vk3).
  apply andb_true_iff. split; apply Nat.leb_le; lia.
Qed.

(* ================================================================== *)
(* 3. order                                                            *)

Lemma filter_filter_imp {A} (f g : A -> bool) ls :
  (forall x, In x ls -> f x = true -> g x = true) -> filter f (filter g ls) = filter f ls.
Proof.
  intros H. induction ls as [|x ls IH]; [reflexivity|]. cbn [filter].
  assert (IH' : filter f (filter g ls) = filter f ls) by (apply IH; intros y Hy; apply H; right; exact Hy).
  destruct (g x) eqn:Eg; cbn [filter].
  - rewrite IH'. reflexivity.
  - destruct (f x) eqn:Ef; [|exact IH'].
    rewrite (H x (or_introl eq_refl) Ef) in Eg. discriminate Eg.
Qed.

Lemma positional_defaulted ps : names_of (positional (map defaulted ps)) = names_of (positional ps).
Proof.
  induction ps as [|p ps IH]; [reflexivity|]. unfold positional in *. cbn [map filter].
  assert (E : is_positional (defaulted p) = is_positional p) by (unfold is_positional; rewrite defaulted_kind; reflexivity).
  rewrite E. destruct (is_positional p); cbn [names_of map]; [rewrite defaulted_name; f_equal|]; exact IH.
Qed.

(* C10_order for forwards: within the positional parameters the outer signature's come
   first, in their own order; then those inner positional parameters that survive (the
   mask and the embedding), in the inner signature's own order.  Within the keyword-only
   parameters the outer signature's come first, in their own order, then parameters of
   the masked inner signature in the order (positional, then keyword-only). *)
Theorem forwards_order o i n names0 ha hk uva uvk pt r :
  forwards o i n names0 ha hk uva uvk pt = Ok r ->
  valid_sig (params o) = true -> valid_sig (params i) = true ->
  names_of (positional (params r)) =
    names_of (positional (params o))
    ++ filter (fun x => mem x (names_of (positional (params r))) && negb (mem x (names_of (positional (params o)))))
              (names_of (positional (params i))) /\
  exists m, mask (mkSig (finner pt (params i)) (ret i) (uret i) (srcs i) (deps i)) n names0 (mkHide ha hk false false) = Ok m /\
    names_of (positional (params m)) =
      filter (fun x => mem x (names_of (positional (params m)))) (names_of (positional (params i))) /\
    names_of (kwonly (params r)) =
      names_of (kwonly (params o))
      ++ filter (fun x => mem x (names_of (kwonly (params r))) && negb (mem x (names_of (kwonly (params o)))))
                (names_of (positional (params m) ++ kwonly (params m))).
Proof.
  intros E Vo Vi. unfold forwards in E. apply bind_ok in E. destruct E as [m [Em Ee]].
  set (i' := if pt then _ else i) in Em.
  assert (Ei' : i' = mkSig (finner pt (params i)) (ret i) (uret i) (srcs i) (deps i)).
  { unfold i', finner. destruct pt; [reflexivity | destruct i; reflexivity]. }
  rewrite Ei' in Em. clear Ei' i'.
  set (i' := mkSig (finner pt (params i)) (ret i) (uret i) (srcs i) (deps i)) in *.
  assert (Vi' : valid_sig (params i') = true).
  { cbn [i' params]. unfold finner. destruct pt; [apply valid_sig_defaulted|]; exact Vi. }
  assert (Ni' : names_of (positional (params i')) = names_of (positional (params i))).
  { cbn [i' params]. unfold finner. destruct pt; [apply positional_defaulted | reflexivity]. }
  pose proof (mask_gen_valid _ _ _ _ _ _ Em) as Vm.
  pose proof (mask_gen_order _ _ _ _ _ _ Em Vi') as Om. rewrite Ni' in Om.
  destruct (embed2_order o m uva uvk r Ee Vo Vm) as [Op Ok'].
  split; [|exists m; split; [exact Em | split; [exact Om | exact Ok']]].
  rewrite Op at 1. f_equal. rewrite Om. apply filter_filter_imp.
  intros x _ Hx. apply andb_true_iff in Hx. destruct Hx as [H1 H2].
  rewrite Op in H1. rewrite mem_names_app in H1. apply negb_true_iff in H2. rewrite H2 in H1. cbn [orb] in H1.
  apply mem_In in H1. apply filter_In in H1. apply mem_In. apply H1.
Qed.

(* the same on pairs: x stands before y among the positional parameters of the result
   when both are outer names in that order, when both are surviving inner names in that
   order, or when x is an outer name and y is not *)
Definition before (x y : name) (l : list name) : Prop := exists d m t, l = d ++ x :: m ++ y :: t.

Lemma before_app_l x y l l' : before x y l -> before x y (l ++ l').
Proof. intros (d & m & t & ->). exists d, m, (t ++ l'). repeat (rewrite <- app_assoc; cbn [app]). reflexivity. Qed.

Lemma before_app_r x y l l' : before x y l' -> before x y (l ++ l').
Proof. intros (d & m & t & ->). exists (l ++ d), m, t. rewrite <- app_assoc. reflexivity. Qed.

Lemma before_app_lr x y l l' : In x l -> In y l' -> before x y (l ++ l').
Proof.
  intros Hx Hy. apply in_split in Hx. destruct Hx as (d & t & ->). apply in_split in Hy. destruct Hy as (d' & t' & ->).
  exists d, (t ++ d'), t'. repeat (rewrite <- app_assoc; cbn [app]). reflexivity.
Qed.

Lemma before_filter f x y l : before x y l -> f x = true -> f y = true -> before x y (filter f l).
Proof.
  intros (d & m & t & ->) Hx Hy. exists (filter f d), (filter f m), (filter f t).
  rewrite filter_app. cbn [filter]. rewrite Hx, filter_app. cbn [filter]. rewrite Hy. reflexivity.
Qed.

Corollary forwards_order_pairwise o i n names0 ha hk uva uvk pt r x y :
  forwards o i n names0 ha hk uva uvk pt = Ok r ->
  valid_sig (params o) = true -> valid_sig (params i) = true ->
  let RP := names_of (positional (params r)) in
  let OP := names_of (positional (params o)) in
  let IP := names_of (positional (params i)) in
  In x RP -> In y RP ->
  (before x y OP -> before x y RP) /\
  (~ In x OP -> ~ In y OP -> before x y IP -> before x y RP) /\
  (In x OP -> ~ In y OP -> before x y RP).
Proof.
  intros E Vo Vi RP OP IP Hx Hy. destruct (forwards_order _ _ _ _ _ _ _ _ _ _ E Vo Vi) as [H _].
  fold RP OP IP in H.
  assert (Hsurv : forall z, In z RP -> ~ In z OP ->
            (fun z => mem z RP && negb (mem z OP)) z = true).
  { intros z Hz Hnz. cbn beta. rewrite (proj2 (mem_In _ _) Hz). apply mem_false_In in Hnz. rewrite Hnz. reflexivity. }
  split; [|split].
  - intros Hb. rewrite H. apply before_app_l. exact Hb.
  - intros Hnx Hny Hb. rewrite H. apply before_app_r. apply before_filter; [exact Hb | apply Hsurv; assumption | apply Hsurv; assumption].
  - intros Hox Hny. rewrite H. apply before_app_lr; [exact Hox|].
    rewrite H in Hy. apply in_app_or in Hy. destruct Hy as [Hy|Hy]; [contradiction | exact Hy].
Qed.

(* ---- the hypotheses are satisfiable ---- *)
Example forwards_order_sat :
  exists r,
    valid_sig [mkParam 1 PK (Some 5) None UEmpty; bp 9 VP; bp 6 KO; bp 10 VK] = true /\
    valid_sig [bp 2 PO; bp 3 PK; mkParam 4 PK (Some 7) None UEmpty; bp 5 KO] = true /\
    forwards (dsig 100 [mkParam 1 PK (Some 5) None UEmpty; bp 9 VP; bp 6 KO; bp 10 VK])
             (dsig 101 [bp 2 PO; bp 3 PK; mkParam 4 PK (Some 7) None UEmpty; bp 5 KO])
             1 [] false false true true false = Ok r /\
    map pname (params r) = [1; 3; 4; 6; 5] /\ map pkind (params r) = [PK; PK; PK; KO; KO] /\
    map pdef (params r) = [None; None; Some 7; None; None].
Proof. eexists. split; [vm_compute; reflexivity|]. split; [vm_compute; reflexivity|]. split; [vm_compute; reflexivity|]. repeat split. Qed.

Print Assumptions forwards_made.
Print Assumptions mask_gen_valid.
Print Assumptions forwards_order.
Print Assumptions forwards_order_pairwise.
Print Assumptions forwards_order_sat.
