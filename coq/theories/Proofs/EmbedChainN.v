(* EmbedChainN.v — C02 for the flat n-ary chain, ALL valid signatures.
   embed(s1, ..., sn) against "calling s1, which forwards its surplus (the
   positionals beyond its positional parameters through *args when use_varargs,
   the keywords naming none of its keyword-passable parameters through **kwargs
   when use_varkwargs) to s2, which forwards its surplus to s3, ...":
     C02_chain_sound   every call accepted by the result, non-colliding at each
                       level of the fold, is accepted by the chain;
     C02_chain_exact   and conversely when at no level a default of the
                       accumulated outer positionals was cleared.
   Route: induction over the fold with C02_assoc (EmbedSoundAssoc.v), C02_sound
   / C02_exact_defaults_kept (EmbedSound.v) at each level, and the key lemma
   surplus_embed2: the surplus of embed(a, b) on a call is the surplus of b on
   the surplus of a. *)
From Sigtools.Model Require Import Base Bind Roles Algebra.
From Sigtools.Proofs Require Import SmallModel Basics MaskLaws MaskExact MergeNeutral MergeIdem
     MaskNamesLib MergeSoundBase MergeSoundInv MergeSound SweepDefs2 EmbedSoundStars EmbedSoundAcc
     EmbedSound EmbedSoundAssoc.
From Coq Require Import Lia.

(* ------------------------------------------------------------------ *)
(* the chain                                                            *)

(* what a signature forwards: as ForwardsSound.surplus_call *)
Definition surplus (o : list param) (uva uvk : bool) (c : call) : call :=
  mkCall (if uva then surplus_pos o c else 0%nat) (if uvk then surplus_kws o c else []).

Fixpoint chain_n (ss : list (list param)) (uva uvk : bool) (c : call) : bool :=
  match ss with
  | [] => true
  | s :: ss' =>
      accepts s c && match ss' with
                     | [] => true
                     | _ :: _ => chain_n ss' uva uvk (surplus s uva uvk c)
                     end
  end.

Lemma chain_n_cons2 a b rest uva uvk c :
  chain_n (a :: b :: rest) uva uvk c = accepts a c && chain_n (b :: rest) uva uvk (surplus a uva uvk c).
Proof. reflexivity. Qed.

Lemma chain_n_pair a b uva uvk c : chain_n [a; b] uva uvk c = chain a b uva uvk 0 [] c.
Proof. cbn [chain_n]. rewrite andb_true_r. reflexivity. Qed.

(* ------------------------------------------------------------------ *)
(* the named parameters of embed(a, b)                                  *)

Lemma od_set_in d p q : In q (od_set d p) -> In q d \/ q = p.
Proof.
  induction d as [|x d IH]; cbn [od_set]; [intros [<-|[]]; auto|].
  destruct (N.eqb (pname p) (pname x)).
  - intros [<-|H]; [auto|left; right; exact H].
  - intros [<-|H]; [left; left; reflexivity|]. destruct (IH H) as [H'|H']; [left; right; exact H'|auto].
Qed.

Lemma od_update_in l : forall d q, In q (od_update d l) -> In q d \/ In q l.
Proof.
  unfold od_update. induction l as [|p l IH]; intros d q H; cbn [fold_left] in H; [auto|].
  destruct (IH _ _ H) as [H'|H']; [|right; right; exact H'].
  destruct (od_set_in _ _ _ H') as [H''| ->]; [auto|right; left; reflexivity].
Qed.

Lemma in_clear_defaults q l : In q (clear_defaults l) -> exists q0, In q0 l /\ pname q = pname q0 /\ pkind q = pkind q0.
Proof.
  unfold clear_defaults. intros H. apply in_map_iff in H. destruct H as [q0 [<- H]]. exists q0. auto.
Qed.

Section Struct.
Variables (a b : sigT) (uva uvk : bool) (ab : sigT).
Hypothesis Va : valid_sig (params a) = true.
Hypothesis Vb : valid_sig (params b) = true.
Hypothesis E : embed [a; b] uva uvk = Ok ab.

Let O := sort_params a.
Let I := sort_params b.
Let hva := uva && isSome (varargs O).
Let hvk := uvk && isSome (varkwargs O).

(* every named parameter of the result carries the name of a named parameter of
   a or b, and a keyword-passable one the name of a keyword-passable one; the
   positional parameters are those of a followed by the reachable ones of b *)
Lemma embed2_struct :
  length (positional (params ab)) = (length (Pz O) + (if hva then length (Pz I) else 0))%nat /\
  (forall q, In q (positional (params ab) ++ kwonly (params ab)) ->
     In (pname q) (names_of (Pz O ++ kwoargs O)) \/ In (pname q) (names_of (Pz I ++ kwoargs I))) /\
  (forall q, In q (params ab) -> is_kwpassable q = true ->
     In (pname q) (names_of (pokargs O ++ kwoargs O)) \/ In (pname q) (names_of (pokargs I ++ kwoargs I))).
Proof.
  destruct (embed2_ok a b uva uvk ab E) as [res [Es Hr]].
  pose proof (sort_params_kinds a) as KO_. pose proof (sort_params_kinds b) as KI. fold O in KO_. fold I in KI.
  pose proof (sorted_named_nodup a Va) as NO_. pose proof (sorted_named_nodup b Vb) as NI. fold O in NO_. fold I in NI.
  pose proof (embed_step_kinds O I uva uvk 1 res KO_ KI NI Es) as Kres.
  pose proof (kinds_ok_wk _ Kres) as Wres.
  destruct (embed_step_ok O I uva uvk 1 res Es) as (Y & EY & HP & HKw & _ & _ & _).
  destruct (closedY O I uva uvk KO_ KI NI Y EY) as (_ & Y1 & Y2 & Y3 & _).
  fold hva hvk in Y1, Y2, Y3.
  destruct KO_ as (Q1 & Q2 & Q3 & Q4 & Q5). destruct KI as (R1 & R2 & R3 & R4 & R5).
  rewrite Forall_forall in Q1, Q2, Q4, R1, R2, R4.
  rewrite Hr, (flat_positional res Wres), (flat_kwonly res Wres). fold (Pz res).
  assert (HPY : Pz Y = reach_pos I hva hvk ++ reach_pok I hva hvk) by (unfold Pz; rewrite Y1, Y2; reflexivity).
  (* the outer part of the positionals *)
  assert (HX : forall q, In q (if clr Y then clear_defaults (xpos O Y) else xpos O Y) ->
             exists q0, In q0 (Pz O) /\ pname q = pname q0 /\ (pkind q = PK -> pkind q0 = PK)).
  { intros q Hq.
    assert (Hq' : exists q1, In q1 (xpos O Y) /\ pname q = pname q1 /\ pkind q = pkind q1).
    { destruct (clr Y); [apply in_clear_defaults; exact Hq|exists q; auto]. }
    destruct Hq' as (q1 & Hq1 & En & Ek). unfold xpos in Hq1.
    destruct (posargs Y).
    - exists q1. split; [exact Hq1|]. split; [exact En|]. rewrite Ek. auto.
    - apply in_app_or in Hq1. destruct Hq1 as [Hq1|Hq1].
      + exists q1. split; [apply in_or_app; left; exact Hq1|]. split; [exact En|]. rewrite Ek. auto.
      + apply in_map_iff in Hq1. destruct Hq1 as [q0 [<- Hq0]]. exists q0.
        split; [apply in_or_app; right; exact Hq0|]. split; [exact En|]. rewrite Ek. cbn. discriminate. }
  (* the inner part *)
  assert (HYp : forall q, In q (Pz Y) ->
             In (pname q) (names_of (Pz I)) /\ (pkind q = PK -> In (pname q) (names_of (pokargs I)))).
  { intros q Hq. rewrite HPY in Hq. unfold reach_pos, reach_pok in Hq. apply in_app_or in Hq.
    destruct Hq as [Hq|Hq].
    - destruct hva; [|destruct Hq]. apply in_app_or in Hq. destruct Hq as [Hq|Hq].
      + split; [unfold Pz; rewrite names_app; apply in_or_app; left; apply in_names; exact Hq|].
        rewrite (R1 q Hq). discriminate.
      + destruct hvk; [destruct Hq|]. apply in_map_iff in Hq. destruct Hq as [q0 [<- Hq0]].
        split; [unfold Pz; rewrite names_app; apply in_or_app; right; apply (in_names _ q0); exact Hq0|].
        cbn. discriminate.
    - destruct (hva && hvk); [|destruct Hq].
      split; [unfold Pz; rewrite names_app; apply in_or_app; right; apply in_names; exact Hq|].
      intros _. apply in_names. exact Hq. }
  assert (HYk : forall q, In q (kwoargs Y) -> In (pname q) (names_of (pokargs I ++ kwoargs I))).
  { intros q Hq. rewrite Y3 in Hq. unfold reach_kwo in Hq. destruct hvk; [|destruct Hq].
    rewrite names_app. apply in_app_or in Hq. destruct Hq as [Hq|Hq].
    - destruct hva; [destruct Hq|]. apply in_map_iff in Hq. destruct Hq as [q0 [<- Hq0]].
      apply in_or_app. left. apply (in_names _ q0). exact Hq0.
    - apply in_or_app. right. apply in_names. exact Hq. }
  assert (HKin : forall q, In q (kwoargs res) -> In q (kwoargs O) \/ In q (kwoargs Y)).
  { intros q Hq. rewrite HKw in Hq. destruct (od_update_in _ _ _ Hq) as [H|H]; [|auto].
    destruct (od_update_in _ _ _ H) as [[]|H']. auto. }
  split; [|split].
  - rewrite HP, app_length.
    assert (L1 : length (if clr Y then clear_defaults (xpos O Y) else xpos O Y) = length (Pz O)).
    { assert (L0 : length (xpos O Y) = length (Pz O)).
      { unfold xpos, Pz. destruct (posargs Y); rewrite !app_length, ?map_length; reflexivity. }
      destruct (clr Y); [rewrite clear_length|]; exact L0. }
    rewrite L1, HPY. f_equal. unfold reach_pos, reach_pok, Pz.
    destruct hva, hvk; cbn [andb]; rewrite ?app_length, ?map_length; cbn [length]; lia.
  - intros q Hq. apply in_app_or in Hq. destruct Hq as [Hq|Hq].
    + rewrite HP in Hq. apply in_app_or in Hq. destruct Hq as [Hq|Hq].
      * destruct (HX q Hq) as (q0 & Hq0 & En & _). left. rewrite En, names_app. apply in_or_app. left.
        apply in_names. exact Hq0.
      * right. rewrite names_app. apply in_or_app. left. exact (proj1 (HYp q Hq)).
    + destruct (HKin q Hq) as [H|H].
      * left. rewrite names_app. apply in_or_app. right. apply in_names. exact H.
      * right. pose proof (HYk q H) as X. rewrite names_app in X. rewrite names_app. apply in_app_or in X.
        destruct X as [X|X]; apply in_or_app; [left|right; exact X].
        unfold Pz. rewrite names_app. apply in_or_app. right. exact X.
  - intros q Hq Hkp. rewrite flatten_regroup in Hq. fold (Pz res) in Hq.
    destruct Wres as (W1 & W2 & W3 & W4).
    apply in_app_or in Hq. destruct Hq as [Hq|Hq]; [|apply in_app_or in Hq; destruct Hq as [Hq|Hq];
      [|apply in_app_or in Hq; destruct Hq as [Hq|Hq]]].
    + (* positional: a positional-or-keyword parameter *)
      assert (Hpk : pkind q = PK).
      { pose proof (W1 q Hq) as Hpos. unfold is_positional in Hpos. unfold is_kwpassable in Hkp.
        destruct (pkind q); try discriminate; reflexivity. }
      rewrite HP in Hq. apply in_app_or in Hq. destruct Hq as [Hq|Hq].
      * destruct (HX q Hq) as (q0 & Hq0 & En & Ek). left. rewrite En, names_app. apply in_or_app. left.
        specialize (Ek Hpk). unfold Pz in Hq0. apply in_app_or in Hq0. destruct Hq0 as [Hq0|Hq0].
        -- rewrite (Q1 q0 Hq0) in Ek. discriminate.
        -- apply in_names. exact Hq0.
      * right. rewrite names_app. apply in_or_app. left. exact (proj2 (HYp q Hq) Hpk).
    + apply opt_list_in in Hq. unfold is_kwpassable in Hkp. rewrite (W3 q Hq) in Hkp. discriminate.
    + destruct (HKin q Hq) as [H|H].
      * left. rewrite names_app. apply in_or_app. right. apply in_names. exact H.
      * right. exact (HYk q H).
    + apply opt_list_in in Hq. unfold is_kwpassable in Hkp. rewrite (W4 q Hq) in Hkp. discriminate.
Qed.
End Struct.

(* ------------------------------------------------------------------ *)
(* classification of a keyword                                          *)

Lemma kw_class_pos_extra l : forall n k, kw_class_pos l n k = Some KExtra ->
  exists p, In p l /\ pname p = k /\ pkind p <> PK.
Proof.
  induction l as [|p l IH]; intros n k H; cbn [kw_class_pos] in H; [discriminate|].
  destruct (N.eqb_spec k (pname p)) as [E|_].
  - exists p. split; [left; reflexivity|]. split; [symmetry; exact E|]. intros Hk. rewrite Hk in H.
    destruct n; discriminate.
  - destruct (IH _ _ H) as (q & Hq & E1 & E2). exists q. split; [right; exact Hq|auto].
Qed.

Lemma kw_class_pos_none_notin l : forall n k, kw_class_pos l n k = None -> ~ In k (names_of l).
Proof.
  induction l as [|p l IH]; intros n k H; cbn [kw_class_pos] in H; [intros []|].
  destruct (N.eqb_spec k (pname p)) as [E|Hne]; [discriminate|].
  intros [X|X]; [apply Hne; symmetry; exact X|exact (IH _ _ H X)].
Qed.

(* a keyword naming a keyword-passable parameter is never surplus *)
Lemma kw_class_not_extra ps n q :
  NoDup (names_of ps) -> In q ps -> is_kwpassable q = true -> kw_class ps n (pname q) <> KExtra.
Proof.
  intros Hn Hq Hkp Hcl. unfold kw_class in Hcl.
  destruct (kw_class_pos (positional ps) n (pname q)) as [c|] eqn:Ec.
  - subst c. destruct (kw_class_pos_extra _ _ _ Ec) as (p & Hp & En & Ek).
    unfold positional in Hp. apply filter_In in Hp. destruct Hp as [Hp Hpos].
    pose proof (names_inj ps p q Hn Hp Hq En) as Epq. subst p.
    unfold is_positional in Hpos. unfold is_kwpassable in Hkp. destruct (pkind q); try discriminate. apply Ek. reflexivity.
  - apply kw_class_pos_none_notin in Ec.
    destruct (mem (pname q) (names_of (kwonly ps))) eqn:Em; [discriminate|]. apply mem_false_In in Em.
    unfold is_kwpassable in Hkp. destruct (pkind q) eqn:Ek; try discriminate.
    + apply Ec. apply in_names. unfold positional. apply filter_In. split; [exact Hq|].
      unfold is_positional. rewrite Ek. reflexivity.
    + apply Em. apply in_names. unfold kwonly. apply filter_In. split; [exact Hq|].
      unfold is_kind. rewrite Ek. reflexivity.
Qed.

(* a keyword naming no named parameter is surplus *)
Lemma kw_class_extra_named ps n k :
  ~ In k (names_of (positional ps ++ kwonly ps)) -> kw_class ps n k = KExtra.
Proof.
  intros H. rewrite names_app in H. unfold kw_class.
  rewrite kw_class_pos_foreign by (intros X; apply H; apply in_or_app; left; exact X).
  assert (Em : mem k (names_of (kwonly ps)) = false).
  { apply mem_false_In. intros X. apply H. apply in_or_app. right. exact X. }
  rewrite Em. reflexivity.
Qed.

Lemma filter_filter {A} (f g : A -> bool) l : filter f (filter g l) = filter (fun x => g x && f x) l.
Proof.
  induction l as [|x l IH]; cbn [filter]; [reflexivity|].
  destruct (g x); cbn [filter andb]; [destruct (f x); rewrite IH; reflexivity|exact IH].
Qed.

Definition is_extra (ps : list param) (n : nat) (k : name) : bool :=
  match kw_class ps n k with KExtra => true | _ => false end.

Lemma surplus_kws_filter o c : surplus_kws o c = filter (is_extra o (npos c)) (kws c).
Proof. reflexivity. Qed.

(* names of the classified buckets are names of the signature *)
Lemma sorted_names_in s x :
  valid_sig (params s) = true ->
  In x (names_of (Pz (sort_params s) ++ kwoargs (sort_params s))) -> In x (names_of (params s)).
Proof.
  intros V H. rewrite <- (sort_flatten_roundtrip s V), flatten_regroup. fold (Pz (sort_params s)).
  rewrite names_app in H. rewrite !names_app. apply in_app_or in H.
  destruct H as [H|H]; apply in_or_app; [left; exact H|right].
  apply in_or_app. right. apply in_or_app. left. exact H.
Qed.

Lemma sorted_kwpassable_in s x :
  valid_sig (params s) = true ->
  In x (names_of (pokargs (sort_params s) ++ kwoargs (sort_params s))) ->
  exists q, In q (params s) /\ is_kwpassable q = true /\ pname q = x.
Proof.
  intros V H. apply names_in in H. destruct H as [q [Hq En]]. exists q.
  destruct (sort_params_kinds s) as (_ & K2 & _ & K4 & _). rewrite Forall_forall in K2, K4.
  rewrite <- (sort_flatten_roundtrip s V). unfold flatten. unfold is_kwpassable.
  apply in_app_or in Hq. destruct Hq as [Hq|Hq].
  - split; [apply in_or_app; right; apply in_or_app; left; exact Hq|]. rewrite (K2 q Hq). auto.
  - split; [|rewrite (K4 q Hq); auto].
    apply in_or_app. right. apply in_or_app. right. apply in_or_app. right. apply in_or_app. left. exact Hq.
Qed.

(* ------------------------------------------------------------------ *)
(* the key lemma: what embed(a, b) forwards is what b forwards of what a forwards *)

Theorem surplus_embed2 a b uva uvk ab c :
  valid_sig (params a) = true -> valid_sig (params b) = true ->
  embed [a; b] uva uvk = Ok ab ->
  noncolliding c (params ab) [params a; params b] = true ->
  accepts (params a) c = true ->
  surplus (params ab) uva uvk c = surplus (params b) uva uvk (surplus (params a) uva uvk c).
Proof.
  intros Va Vb E Hnc Ha.
  destruct (embed2_struct a b uva uvk ab Va Vb E) as (S1 & S2 & S3).
  pose proof (kinds_ok_wk _ (sort_params_kinds a)) as Wa. pose proof (kinds_ok_wk _ (sort_params_kinds b)) as Wb.
  assert (Pa : positional (params a) = Pz (sort_params a)).
  { rewrite <- (sort_flatten_roundtrip a Va) at 1. apply (flat_positional _ Wa). }
  assert (Pb : positional (params b) = Pz (sort_params b)).
  { rewrite <- (sort_flatten_roundtrip b Vb) at 1. apply (flat_positional _ Wb). }
  pose proof (validate_nodup _ (embed_wf _ _ _ _ E)) as Nab.
  pose proof (validate_nodup _ (valid_sig_validate _ Va)) as Na.
  pose proof (validate_nodup _ (valid_sig_validate _ Vb)) as Nb.
  unfold surplus. f_equal.
  - (* positionals *)
    destruct uva; [|reflexivity]. unfold surplus_pos. cbn [npos andb] in *. rewrite S1, Pa, Pb.
    destruct (isSome (varargs (sort_params a))) eqn:Eva; [lia|].
    (* a has no star-args parameter: it accepts at most its positional parameters *)
    unfold accepts in Ha. rewrite <- (sort_flatten_roundtrip a Va) in Ha at 2.
    rewrite (flat_vp _ Wa), Eva, Pa, orb_false_r in Ha.
    apply andb_true_iff in Ha. destruct Ha as [Ha _]. apply andb_true_iff in Ha. destruct Ha as [Ha _].
    apply andb_true_iff in Ha. destruct Ha as [Ha _]. apply Nat.leb_le in Ha. lia.
  - (* keywords *)
    destruct uvk; [|reflexivity]. rewrite !surplus_kws_filter. cbn [npos kws]. rewrite filter_filter.
    apply filter_ext_in. intros k Hk.
    unfold noncolliding in Hnc. rewrite forallb_forall in Hnc. specialize (Hnc k Hk).
    apply orb_true_iff in Hnc. destruct Hnc as [Hkw|Hfor].
    + (* k names a keyword-passable parameter of embed(a, b): of a, or of b *)
      unfold kwpassable_name in Hkw. apply existsb_exists in Hkw. destruct Hkw as [q [Hq Hqk]].
      apply andb_true_iff in Hqk. destruct Hqk as [Hkp En]. apply N.eqb_eq in En. subst k.
      assert (L : is_extra (params ab) (npos c) (pname q) = false).
      { unfold is_extra. pose proof (kw_class_not_extra _ (npos c) q Nab Hq Hkp) as X.
        destruct (kw_class (params ab) (npos c) (pname q)); try reflexivity. contradiction. }
      rewrite L. symmetry. apply andb_false_iff.
      destruct (S3 q Hq Hkp) as [X|X].
      * left. destruct (sorted_kwpassable_in a _ Va X) as (q' & Hq' & Hkp' & En').
        unfold is_extra. rewrite <- En'. pose proof (kw_class_not_extra _ (npos c) q' Na Hq' Hkp') as Y.
        destruct (kw_class (params a) (npos c) (pname q')); try reflexivity. contradiction.
      * right. destruct (sorted_kwpassable_in b _ Vb X) as (q' & Hq' & Hkp' & En').
        unfold is_extra. rewrite <- En'.
        match goal with |- context [kw_class (params b) ?m (pname q')] =>
          pose proof (kw_class_not_extra _ m q' Nb Hq' Hkp') as Y;
          destruct (kw_class (params b) m (pname q')); try reflexivity; contradiction end.
    + (* k names no parameter of a or b *)
      apply negb_true_iff in Hfor. apply mem_false_In in Hfor.
      unfold all_names in Hfor. cbn [flat_map] in Hfor. rewrite app_nil_r in Hfor.
      assert (Hna : ~ In k (names_of (params a))) by (intros X; apply Hfor; apply in_or_app; left; exact X).
      assert (Hnb : ~ In k (names_of (params b))) by (intros X; apply Hfor; apply in_or_app; right; exact X).
      unfold is_extra. rewrite (kw_class_foreign _ _ _ Hna), (kw_class_foreign _ _ _ Hnb).
      rewrite kw_class_extra_named; [reflexivity|].
      intros X. apply names_in in X. destruct X as [q [Hq En]]. subst k.
      destruct (S2 q Hq) as [Y|Y]; [apply Hna; exact (sorted_names_in a _ Va Y)|apply Hnb; exact (sorted_names_in b _ Vb Y)].
Qed.

(* ------------------------------------------------------------------ *)
(* the fold, level by level                                             *)

(* embed(a, s1, ..., sn) folds from the left: ab = embed(a, s1), then
   embed(ab, s2), ...  At each level the partial result must exist as a
   signature of its own (C02_assoc_error_clause_refuted: it need not, for a star
   named like a parameter) and the call must be non-colliding for that level. *)
Fixpoint levels (a : sigT) (rest : list sigT) (uva uvk : bool) (c : call) : Prop :=
  match rest with
  | [] => True
  | b :: rest' =>
      exists ab, embed [a; b] uva uvk = Ok ab /\
                 noncolliding c (params ab) [params a; params b] = true /\
                 levels ab rest' uva uvk c
  end.

(* ... and no default of the accumulated outer positionals is cleared *)
Fixpoint levels_kept (a : sigT) (rest : list sigT) (uva uvk : bool) (c : call) : Prop :=
  match rest with
  | [] => True
  | b :: rest' =>
      exists ab, embed [a; b] uva uvk = Ok ab /\
                 noncolliding c (params ab) [params a; params b] = true /\
                 map has_def (firstn (length (positional (params a))) (positional (params ab)))
                 = map has_def (positional (params a)) /\
                 levels_kept ab rest' uva uvk c
  end.

Lemma levels_kept_levels rest : forall a uva uvk c, levels_kept a rest uva uvk c -> levels a rest uva uvk c.
Proof.
  induction rest as [|b rest IH]; intros a uva uvk c H; [exact I|]. cbn [levels levels_kept] in *.
  destruct H as (ab & E & N & _ & L). exists ab. split; [exact E|]. split; [exact N|]. apply IH. exact L.
Qed.

Lemma embed_single a uva uvk r : embed [a] uva uvk = Ok r -> params r = flatten (sort_params a).
Proof.
  cbn [embed embed_steps bind]. unfold apply_params. destruct (validate _); intros H; inversion H; reflexivity.
Qed.

Lemma chain_pair_surplus a b uva uvk c :
  chain a b uva uvk 0 [] c = accepts a c && accepts b (surplus a uva uvk c).
Proof. reflexivity. Qed.

(* one level of the fold: the chain through embed(a, b) is the chain through a, then b *)
Lemma chain_n_level a b ab R uva uvk c :
  valid_sig (params a) = true -> valid_sig (params b) = true ->
  embed [a; b] uva uvk = Ok ab ->
  noncolliding c (params ab) [params a; params b] = true ->
  accepts (params ab) c = accepts (params a) c && accepts (params b) (surplus (params a) uva uvk c) ->
  chain_n (params ab :: R) uva uvk c = chain_n (params a :: params b :: R) uva uvk c.
Proof.
  intros Va Vb E Hnc Hacc. rewrite chain_n_cons2. cbn [chain_n]. rewrite Hacc.
  destruct (accepts (params a) c) eqn:Ea; cbn [andb]; [|reflexivity].
  rewrite (surplus_embed2 a b uva uvk ab c Va Vb E Hnc Ea). reflexivity.
Qed.

(* C02, flat n-ary chain: soundness *)
Theorem C02_chain_sound rest : forall a uva uvk r c,
  valid_sig (params a) = true -> Forall (fun s => valid_sig (params s) = true) rest ->
  embed (a :: rest) uva uvk = Ok r ->
  levels a rest uva uvk c ->
  accepts (params r) c = true ->
  chain_n (map params (a :: rest)) uva uvk c = true.
Proof.
  induction rest as [|b rest IH]; intros a uva uvk r c Va Vrest Er Hlev Hacc.
  - cbn [map chain_n]. rewrite andb_true_r.
    rewrite (embed_single a uva uvk r Er), (sort_flatten_roundtrip a Va) in Hacc. exact Hacc.
  - cbn [levels] in Hlev. destruct Hlev as (ab & Eab & Hnc & Hlev).
    inversion Vrest as [|? ? Vb Vrest']; subst.
    pose proof (C02_assoc a b rest uva uvk ab Vb Eab) as HA. rewrite Er in HA.
    destruct (embed (ab :: rest) uva uvk) as [r'|e] eqn:Er'; [|contradiction]. cbn [same_sig] in HA.
    rewrite HA in Hacc.
    pose proof (IH ab uva uvk r' c (embed2_valid a b uva uvk ab Vb Eab) Vrest' Er' Hlev Hacc) as Hch.
    cbn [map] in *.
    assert (Hab : accepts (params ab) c = true).
    { cbn [chain_n] in Hch. apply andb_true_iff in Hch. tauto. }
    pose proof (C02_sound a b uva uvk ab c Va Vb Eab Hnc Hab) as H2. rewrite chain_pair_surplus in H2.
    rewrite <- (chain_n_level a b ab (map params rest) uva uvk c Va Vb Eab Hnc); [exact Hch|].
    rewrite Hab, H2. reflexivity.
Qed.

(* C02, flat n-ary chain: exactness when no default is cleared at any level *)
Theorem C02_chain_exact rest : forall a uva uvk r c,
  valid_sig (params a) = true -> Forall (fun s => valid_sig (params s) = true) rest ->
  embed (a :: rest) uva uvk = Ok r ->
  levels_kept a rest uva uvk c ->
  accepts (params r) c = chain_n (map params (a :: rest)) uva uvk c.
Proof.
  induction rest as [|b rest IH]; intros a uva uvk r c Va Vrest Er Hlev.
  - cbn [map chain_n]. rewrite andb_true_r.
    rewrite (embed_single a uva uvk r Er), (sort_flatten_roundtrip a Va). reflexivity.
  - cbn [levels_kept] in Hlev. destruct Hlev as (ab & Eab & Hnc & Hkept & Hlev).
    inversion Vrest as [|? ? Vb Vrest']; subst.
    pose proof (C02_assoc a b rest uva uvk ab Vb Eab) as HA. rewrite Er in HA.
    destruct (embed (ab :: rest) uva uvk) as [r'|e] eqn:Er'; [|contradiction]. cbn [same_sig] in HA.
    rewrite HA.
    rewrite (IH ab uva uvk r' c (embed2_valid a b uva uvk ab Vb Eab) Vrest' Er' Hlev).
    cbn [map]. apply (chain_n_level a b ab (map params rest) uva uvk c Va Vb Eab Hnc).
    rewrite (C02_exact_defaults_kept a b uva uvk ab c Va Vb Eab Hkept Hnc). apply chain_pair_surplus.
Qed.

(* the three-signature instance, flat: embed(a, b, c) accepted => a accepts, b
   accepts what a forwards, c accepts what b forwards of that *)
Corollary C02_sound3 a b c uva uvk ab r c0 :
  valid_sig (params a) = true -> valid_sig (params b) = true -> valid_sig (params c) = true ->
  embed [a; b] uva uvk = Ok ab -> embed [a; b; c] uva uvk = Ok r ->
  noncolliding c0 (params ab) [params a; params b] = true ->
  noncolliding c0 (params r) [params ab; params c] = true ->
  accepts (params r) c0 = true ->
  accepts (params a) c0 = true /\
  accepts (params b) (surplus (params a) uva uvk c0) = true /\
  accepts (params c) (surplus (params b) uva uvk (surplus (params a) uva uvk c0)) = true.
Proof.
  intros Va Vb Vc Eab Er N1 N2 Hacc.
  pose proof (C02_assoc3 a b c uva uvk ab Vb Eab) as HA. rewrite Er in HA.
  destruct (embed [ab; c] uva uvk) as [r'|e] eqn:Er'; [|contradiction]. cbn [same_sig] in HA.
  assert (Hlev : levels a [b; c] uva uvk c0).
  { cbn [levels]. exists ab. split; [exact Eab|]. split; [exact N1|]. exists r'. split; [exact Er'|].
    split; [rewrite <- HA; exact N2|exact I]. }
  pose proof (C02_chain_sound [b; c] a uva uvk r c0 Va
                (Forall_cons _ Vb (Forall_cons _ Vc (Forall_nil _))) Er Hlev Hacc) as H.
  cbn [map chain_n] in H. rewrite andb_true_r in H.
  apply andb_true_iff in H. destruct H as [H1 H]. apply andb_true_iff in H. tauto.
Qed.

(* the statements are not vacuous *)
Definition ex_a : sigT :=
  mkSig [mkParam 1 PK None None UEmpty; mkParam 9 VP None None UEmpty; mkParam 10 VK None None UEmpty]
        None UEmpty [] [].
Definition ex_b : sigT :=
  mkSig [mkParam 2 PK (Some 1) None UEmpty; mkParam 9 VP None None UEmpty; mkParam 10 VK None None UEmpty]
        None UEmpty [] [].
Definition ex_c : sigT := mkSig [mkParam 3 KO None None UEmpty] None UEmpty [] [].

Example C02_chain_nonvacuous :
  valid_sig (params ex_a) = true /\ valid_sig (params ex_b) = true /\ valid_sig (params ex_c) = true /\
  (exists r, embed [ex_a; ex_b; ex_c] true true = Ok r /\ accepts (params r) (mkCall 2 [3]) = true) /\
  levels_kept ex_a [ex_b; ex_c] true true (mkCall 2 [3]) /\
  chain_n (map params [ex_a; ex_b; ex_c]) true true (mkCall 2 [3]) = true /\
  surplus (params ex_a) true true (mkCall 2 [3]) = mkCall 1 [3].
Proof.
  split; [vm_compute; reflexivity|]. split; [vm_compute; reflexivity|]. split; [vm_compute; reflexivity|].
  split; [eexists; split; vm_compute; reflexivity|]. split.
  - cbn [levels_kept]. eexists. split; [vm_compute; reflexivity|]. split; [vm_compute; reflexivity|].
    split; [vm_compute; reflexivity|]. eexists. split; [vm_compute; reflexivity|].
    split; [vm_compute; reflexivity|]. split; [vm_compute; reflexivity|exact I].
  - split; vm_compute; reflexivity.
Qed.

Print Assumptions embed2_struct.
Print Assumptions surplus_embed2.
Print Assumptions C02_chain_sound.
Print Assumptions C02_chain_exact.
Print Assumptions C02_sound3.
Print Assumptions C02_chain_nonvacuous.
