(* WrappersSound.v — C13, acceptance soundness of the reported signatures.

   A call accepted by the signature the model computes for a stack of
   wrappers.decorator / wrapper_decorator layers binds at every layer of the
   composition: the decorator function of each layer accepts what reaches it
   (func supplied by partial), the surplus plus the literal arguments of its body
   reach the next layer, and the decorated function accepts what reaches it.
   For Combination: every member signature accepts the call.

   By induction over the depth of the stack from C04_exec_sound (ForwardsSound.v),
   the exactness of mask / partial with positionals (MaskExact.v), merge [s] = s
   (Basics.v) and merge soundness for any arity (MergeSoundN.v).

   The side conditions are those the general theorems force, collected in the
   boolean `stack_side`: non-collision of the call with every intermediate
   signature, literal keywords not repeated by the call, and for
   wrappers.decorator: discovery did not fall back to the generic signature.
   How the known findings fall outside:
   * C13:self-collision — the retrieval dies (sig_of = Err crash): the theorems
     speak about sig_of = Ok r only;  simple_layer_self_refuted shows the Err.
   * C13:self-keyword — a call with a keyword named self is never accepted by
     the signature of a wrappers.decorator layer (call_sig already binds self),
     and stack_exec demands its absence; for a wrapper_decorator layer the
     signature can accept such a call although the real __call__ refuses it:
     declared_self_keyword_refuted; stack_side carries the hypothesis.
   * C13:combination-inspect — inspect_sig (Comb _) is comb_self_sig, which is
     not the merge: comb_sound is about sig_of; comb_inspect_refuted. *)
From Sigtools.Model Require Import Base Bind Roles Algebra Wrappers.
From Sigtools.Proofs Require Import SmallModel Basics MaskLaws MaskExact MaskNamesLib MaskNamesStep MaskNames
     MergeNeutral MergeIdem FoldLaw SweepDefs2.
From Sigtools.Proofs Require Import MergeSoundBase MergeSoundInv MergeSound MergeSoundMixed
     EmbedSoundStars EmbedSoundAcc EmbedSound EmbedSoundAssoc ForwardsSound RcValidN MergeSoundN.
From Coq Require Import Lia.

(* ------------------------------------------------------------------ *)
(* what executing a stack means on call shapes                          *)

(* partial(wrapper, wrapped) prepends one positional argument *)
Definition succ_call (c : Bind.call) : Bind.call := mkCall (S (npos c)) (kws c).

(* the call a layer's body makes: its literal positionals, the surplus positionals,
   its literal keywords, the surplus keywords; q = the parameters that bound c *)
Definition inner_call (q : list param) (fa : fwd) (c : Bind.call) : Bind.call :=
  mkCall (f_n fa + surplus_pos q c) (f_names fa ++ surplus_kws q c).

(* the signature of a stack over a plain function, layer by layer *)
Fixpoint stack_sig (ls : list layer) (s : sigT) : res sigT :=
  match ls with
  | [] => Ok s
  | (Simple, fa, w) :: ls' => simple_sig w fa (stack_sig ls' s)
  | (Declared, fa, w) :: ls' => declared_sig w fa (stack_sig ls' s)
  end.

Lemma stack_sig_eq ls id s b : sig_of (stack ls (Plain id s b)) = stack_sig ls s.
Proof.
  induction ls as [|[[fl fa] w] ls IH]; [reflexivity|].
  cbn [stack fold_right decorate fst snd sig_of]. fold (stack ls (Plain id s b)). rewrite IH.
  destruct fl; reflexivity.
Qed.

(* binding at every layer.  A wrapper_decorator layer is described through the
   parameters of partial(wrapper, wrapped) (the wrapper's minus func); a
   wrappers.decorator layer through the wrapper's own parameters on the call
   with func prepended, after __call__(self, ...) let the call through *)
Fixpoint stack_exec (ls : list layer) (s : sigT) (c : Bind.call) : bool :=
  match ls with
  | [] => accepts (params s) c
  | (Declared, fa, w) :: ls' =>
      match generic_partial w with
      | Ok q => negb (mem n_self (kws c))
                && accepts (params q) c && stack_exec ls' s (inner_call (params q) fa c)
      | Err _ => false
      end
  | (Simple, fa, w) :: ls' =>
      negb (mem n_self (kws c))
      && accepts (params (w_sig w)) (succ_call c)
      && stack_exec ls' s (inner_call (params (w_sig w)) fa (succ_call c))
  end.

(* the intermediate signatures of a wrappers.decorator layer *)
Definition simple_P (w : wrapperT) (fa : fwd) (x : sigT) : res sigT :=
  forwards (w_sig w) x (f_n fa) (f_names fa) false false true true false.
Definition simple_Q (w : wrapperT) (p : sigT) : res sigT := sig_partial p 1 [] (w_id w).
Definition simple_R (q : sigT) : res sigT := forwards call_sig q 0 [] false false true true false.

(* the side conditions of the general theorems along the chain of calls *)
Fixpoint stack_side (ls : list layer) (s : sigT) (c : Bind.call) : bool :=
  match ls with
  | [] => true
  | (Declared, fa, w) :: ls' =>
      match stack_sig ls' s, generic_partial w with
      | Ok x, Ok q =>
          match forwards q x (f_n fa) (f_names fa) false false true true false with
          | Ok r => negb (mem n_self (kws c))     (* __call__(self, ...): C13:self-keyword *)
                    && noncolliding c (params r) [params q; params x]
                    && disjointb (kws c) (f_names fa)
                    && stack_side ls' s (inner_call (params q) fa c)
          | Err _ => false
          end
      | _, _ => false
      end
  | (Simple, fa, w) :: ls' =>
      match stack_sig ls' s with
      | Ok x =>
          match simple_P w fa x with
          | Ok p =>
              match simple_Q w p with
              | Ok q =>
                  match simple_R q with
                  | Ok sR =>
                      match mask sR 1 [] nohide with
                      | Ok r => noncolliding c (params r) [params sR]
                                && noncolliding c (params sR) [params call_sig; params q]
                                && noncolliding c (params q) [params p]
                                && noncolliding c (params p) [params (w_sig w); params x]
                                && disjointb (kws c) (f_names fa)
                                && stack_side ls' s (inner_call (params (w_sig w)) fa (succ_call c))
                      | Err _ => false
                      end
                  | Err _ => false
                  end
              | Err _ => false
              end
          | Err _ => false    (* discovery gave up: the generic signature promises nothing *)
          end
      | Err _ => false
      end
  end.

(* static well-formedness of the layers *)
Definition layer_ok (l : layer) : Prop :=
  valid_sig (params (w_sig (snd l))) = true /\ NoDup (f_names (snd (fst l))).

(* ------------------------------------------------------------------ *)
(* validity of every intermediate signature                             *)

Lemma forwards_valid o i n names0 uva uvk r :
  valid_sig (params i) = true -> NoDup names0 ->
  forwards o i n names0 false false uva uvk false = Ok r -> valid_sig (params r) = true.
Proof.
  intros Vi Hnd E. destruct (forwards_inv o i n names0 uva uvk r E) as [m [Em Er]].
  destruct (mask_keeps i n names0 m Vi Hnd Em) as [Vm _].
  exact (embed2_valid o m uva uvk r Vm Er).
Qed.

Lemma mask1_valid s r : valid_sig (params s) = true -> mask s 1 [] nohide = Ok r -> valid_sig (params r) = true.
Proof.
  intros V E. change nohide with nohide0 in E.
  destruct (mask_keeps s 1 [] r V (NoDup_nil _) E) as [Vr _]. exact Vr.
Qed.

Lemma partial1_valid s pobj r :
  valid_sig (params s) = true -> sig_partial s 1 [] pobj = Ok r -> valid_sig (params r) = true.
Proof.
  intros V E. pose proof (sig_partial_pos_params s 1 pobj) as H. rewrite E in H.
  destruct (mask s 1 [] nohide0) as [r2|e2] eqn:E2; [|contradiction].
  rewrite H. destruct (mask_keeps s 1 [] r2 V (NoDup_nil _) E2) as [Vr _]. exact Vr.
Qed.

Lemma call_sig_valid : valid_sig (params call_sig) = true.
Proof. reflexivity. Qed.

(* a wrappers.decorator layer whose discovery succeeded, step by step *)
Lemma simple_sig_unfold w fa x p q sR :
  valid_sig (params x) = true -> NoDup (f_names fa) ->
  simple_P w fa x = Ok p -> simple_Q w p = Ok q -> simple_R q = Ok sR ->
  simple_sig w fa (Ok x) = match mask sR 1 [] nohide with Ok r => Ok r | Err _ => Err crash end.
Proof.
  intros Vx Hnd Ep Eq ER.
  pose proof (forwards_valid _ _ _ _ _ _ _ Vx Hnd Ep) as Vp.
  pose proof (partial1_valid _ _ _ Vp Eq) as Vq.
  pose proof (forwards_valid _ _ _ _ _ _ _ Vq (NoDup_nil _) ER) as VR.
  unfold simple_sig, via_call. cbn [is_crash bind].
  unfold simple_P in Ep. rewrite Ep. cbn [bind]. rewrite (merge_single p Vp). cbn [bind].
  unfold simple_Q in Eq. rewrite Eq. cbn [bind].
  unfold simple_R in ER. rewrite ER. cbn [bind]. rewrite (merge_single sR VR). cbn [bind].
  reflexivity.
Qed.

Lemma generic_partial_valid w q :
  valid_sig (params (w_sig w)) = true -> generic_partial w = Ok q -> valid_sig (params q) = true.
Proof. intros V E. exact (partial1_valid _ _ _ V E). Qed.

Lemma simple_sig_valid w fa xs r :
  valid_sig (params (w_sig w)) = true ->
  simple_sig w fa xs = Ok r -> valid_sig (params r) = true.
Proof.
  intros Vw E. unfold simple_sig in E. destruct (is_crash xs); [discriminate|].
  match type of E with (match ?X with Ok _ => _ | Err _ => _ end) = _ => destruct X as [r0|e] eqn:E0 end;
    [|discriminate].
  injection E as <-.
  apply bind_ok in E0. destruct E0 as [q' [Eq' E0]].
  assert (Vq : valid_sig (params q') = true).
  { match type of Eq' with (match ?D with Ok _ => _ | Err _ => _ end) = _ => destruct D as [d|e] eqn:ED end.
    - injection Eq' as <-.
      apply bind_ok in ED. destruct ED as [x [_ ED]].
      apply bind_ok in ED. destruct ED as [p [Ep ED]].
      apply bind_ok in ED. destruct ED as [p' [Ep' ED]].
      assert (Vp' : valid_sig (params p') = true).
      { (* merge [p] goes through apply_params (sort_params p): same parameters when it validates *)
        cbn [merge merge_steps bind] in Ep'. unfold apply_params in Ep'.
        destruct (validate (flatten (sort_params p))) eqn:Ev; [|discriminate].
        injection Ep' as <-. cbn [params].
        apply wk_valid_sig; [|exact Ev]. apply kinds_ok_wk. apply sort_params_kinds. }
      exact (partial1_valid _ _ _ Vp' ED).
    - exact (generic_partial_valid w q' Vw Eq'). }
  unfold via_call in E0.
  apply bind_ok in E0. destruct E0 as [r1 [E1 E0]].
  apply bind_ok in E0. destruct E0 as [r2 [E2 E0]].
  pose proof (forwards_valid _ _ _ _ _ _ _ Vq (NoDup_nil _) E1) as V1.
  rewrite (merge_single r1 V1) in E2. injection E2 as <-.
  exact (mask1_valid _ _ V1 E0).
Qed.

Lemma declared_sig_valid w fa xs r :
  (forall x, xs = Ok x -> valid_sig (params x) = true) -> NoDup (f_names fa) ->
  declared_sig w fa xs = Ok r -> valid_sig (params r) = true.
Proof.
  intros Vx Hnd E. unfold declared_sig in E.
  apply bind_ok in E. destruct E as [q [_ E]].
  apply bind_ok in E. destruct E as [x [Ex E]].
  exact (forwards_valid _ _ _ _ _ _ _ (Vx x Ex) Hnd E).
Qed.

Theorem stack_sig_valid ls s r :
  Forall layer_ok ls -> valid_sig (params s) = true ->
  stack_sig ls s = Ok r -> valid_sig (params r) = true.
Proof.
  intros HF Vs. revert r. induction HF as [|[[fl fa] w] ls [Vw Hnd] HF IH]; intros r E.
  - injection E as <-. exact Vs.
  - cbn [fst snd] in Vw, Hnd. destruct fl; cbn [stack_sig] in E.
    + exact (simple_sig_valid w fa _ r Vw E).
    + apply (declared_sig_valid w fa (stack_sig ls s) r); [|exact Hnd|exact E].
      intros x Ex. exact (IH x Ex).
Qed.

(* ------------------------------------------------------------------ *)
(* __call__(self, *args, **kwargs) on a call with one more positional   *)

Lemma call_sig_kw_class n k :
  kw_class (params call_sig) (S n) k = if N.eqb k n_self then KDup else KExtra.
Proof. unfold kw_class. cbn. destruct (N.eqb k n_self); reflexivity. Qed.

Lemma call_sig_accepts c :
  accepts (params call_sig) (succ_call c) = negb (mem n_self (kws c)).
Proof.
  destruct c as [n ks]. unfold accepts, succ_call. cbn [npos kws].
  assert (E : forallb (kw_ok (params call_sig) (S n)) ks = negb (mem n_self ks)).
  { induction ks as [|k ks IH]; [reflexivity|]. cbn [forallb mem]. rewrite IH.
    unfold kw_ok. rewrite call_sig_kw_class. rewrite (N.eqb_sym n_self k).
    destruct (N.eqb k n_self); [reflexivity|]. cbn. reflexivity. }
  rewrite E. cbn. destruct (n <=? 0)%nat; destruct (negb (mem n_self ks)); reflexivity.
Qed.

Lemma call_sig_surplus_kws c :
  mem n_self (kws c) = false -> surplus_kws (params call_sig) (succ_call c) = kws c.
Proof.
  destruct c as [n ks]. unfold surplus_kws, succ_call. cbn [npos kws].
  induction ks as [|k ks IH]; intros H; [reflexivity|].
  cbn [mem] in H. apply orb_false_iff in H. destruct H as [H1 H2].
  cbn [filter]. rewrite call_sig_kw_class. rewrite N.eqb_sym in H1. rewrite H1. rewrite (IH H2). reflexivity.
Qed.

Lemma call_sig_surplus_pos c : surplus_pos (params call_sig) (succ_call c) = npos c.
Proof. unfold surplus_pos. cbn. lia. Qed.

Lemma disjointb_nil ks : disjointb ks [] = true.
Proof. unfold disjointb. induction ks as [|k ks IH]; [reflexivity|]. cbn. exact IH. Qed.

(* ------------------------------------------------------------------ *)
(* one layer                                                            *)

Theorem declared_layer_sound w fa x q r c :
  valid_sig (params (w_sig w)) = true -> valid_sig (params x) = true -> NoDup (f_names fa) ->
  generic_partial w = Ok q ->
  forwards q x (f_n fa) (f_names fa) false false true true false = Ok r ->
  noncolliding c (params r) [params q; params x] = true ->
  disjointb (kws c) (f_names fa) = true ->
  accepts (params r) c = true ->
  accepts (params q) c = true /\ accepts (params x) (inner_call (params q) fa c) = true.
Proof.
  intros Vw Vx Hnd Eq E Hnc Hd Hc.
  pose proof (generic_partial_valid w q Vw Eq) as Vq.
  pose proof (C04_exec_sound q x (f_n fa) (f_names fa) true true r c Vq Vx Hnd E Hnc Hd Hc) as H.
  unfold wrapper_exec, chain in H. apply andb_true_iff in H. exact H.
Qed.

(* what partial(wrapper, wrapped) accepts is what the wrapper accepts with func prepended *)
Theorem generic_partial_exact w q c :
  valid_sig (params (w_sig w)) = true -> generic_partial w = Ok q ->
  noncolliding c (params q) [params (w_sig w)] = true ->
  accepts (params q) c = accepts (params (w_sig w)) (succ_call c).
Proof.
  intros Vw Eq Hnc. pose proof (partial_positional_exact (w_sig w) 1 (w_id w) Vw (Nat.neq_succ_0 0)) as H.
  unfold generic_partial in Eq. rewrite Eq in H. exact (H c Hnc).
Qed.

Theorem simple_layer_sound w fa x p q sR r c :
  valid_sig (params (w_sig w)) = true -> valid_sig (params x) = true -> NoDup (f_names fa) ->
  simple_P w fa x = Ok p -> simple_Q w p = Ok q -> simple_R q = Ok sR ->
  mask sR 1 [] nohide = Ok r ->
  noncolliding c (params r) [params sR] = true ->
  noncolliding c (params sR) [params call_sig; params q] = true ->
  noncolliding c (params q) [params p] = true ->
  noncolliding c (params p) [params (w_sig w); params x] = true ->
  disjointb (kws c) (f_names fa) = true ->
  accepts (params r) c = true ->
  mem n_self (kws c) = false /\
  accepts (params (w_sig w)) (succ_call c) = true /\
  accepts (params x) (inner_call (params (w_sig w)) fa (succ_call c)) = true.
Proof.
  intros Vw Vx Hnd Ep Eq ER Em N1 N2 N3 N4 Hd Hc.
  pose proof (forwards_valid _ _ _ _ _ _ _ Vx Hnd Ep) as Vp.
  pose proof (partial1_valid _ _ _ Vp Eq) as Vq.
  pose proof (forwards_valid _ _ _ _ _ _ _ Vq (NoDup_nil _) ER) as VR.
  (* the bound method dropped self *)
  pose proof (mask_positional_exact sR 1 VR (Nat.neq_succ_0 0)) as M.
  change nohide with nohide0 in Em. rewrite Em in M. rewrite (M c N1) in Hc.
  change (shift_call 1 [] c) with (succ_call c) in Hc.
  (* __call__ forwards everything to self.func *)
  pose proof (C04_exec_sound call_sig q 0 [] true true sR (succ_call c) call_sig_valid Vq (NoDup_nil _) ER N2
                (disjointb_nil _) Hc) as H2.
  unfold wrapper_exec, chain in H2. apply andb_true_iff in H2. destruct H2 as [Hself Hq].
  rewrite call_sig_accepts in Hself. apply negb_true_iff in Hself.
  rewrite call_sig_surplus_pos, (call_sig_surplus_kws c Hself) in Hq.
  change (mkCall (0 + npos c) ([] ++ kws c)) with (mkCall (npos c) (kws c)) in Hq.
  assert (Ec : mkCall (npos c) (kws c) = c) by (destruct c; reflexivity). rewrite Ec in Hq.
  (* partial(wrapper, wrapped) supplied func *)
  pose proof (partial_positional_exact p 1 (w_id w) Vp (Nat.neq_succ_0 0)) as P.
  unfold simple_Q in Eq. rewrite Eq in P. rewrite (P c N3) in Hq.
  change (partial_call 1 [] c) with (succ_call c) in Hq.
  (* the body forwards to the wrapped callable *)
  pose proof (C04_exec_sound (w_sig w) x (f_n fa) (f_names fa) true true p (succ_call c) Vw Vx Hnd Ep N4 Hd Hq) as H4.
  unfold wrapper_exec, chain in H4. apply andb_true_iff in H4. destruct H4 as [Hw Hx].
  repeat split; assumption.
Qed.

(* ------------------------------------------------------------------ *)
(* any depth                                                            *)

Theorem stack_sound ls s :
  Forall layer_ok ls -> valid_sig (params s) = true ->
  forall c r, stack_side ls s c = true -> stack_sig ls s = Ok r ->
              accepts (params r) c = true -> stack_exec ls s c = true.
Proof.
  intros HF Vs. induction HF as [|[[fl fa] w] ls [Vw Hnd] HF IH]; intros c r Hside E Hc.
  - injection E as <-. exact Hc.
  - cbn [fst snd] in Vw, Hnd. destruct fl.
    + (* wrappers.decorator *)
      cbn [stack_side] in Hside. cbn [stack_sig] in E. cbn [stack_exec].
      destruct (stack_sig ls s) as [x|] eqn:Ex; [|discriminate].
      pose proof (stack_sig_valid ls s x HF Vs Ex) as Vx.
      destruct (simple_P w fa x) as [p|] eqn:Ep; [|discriminate].
      destruct (simple_Q w p) as [q|] eqn:Eq; [|discriminate].
      destruct (simple_R q) as [sR|] eqn:ER; [|discriminate].
      rewrite (simple_sig_unfold w fa x p q sR Vx Hnd Ep Eq ER) in E.
      destruct (mask sR 1 [] nohide) as [r0|] eqn:Em; [|discriminate].
      injection E as <-.
      apply andb_true_iff in Hside. destruct Hside as [Hside Hrest].
      apply andb_true_iff in Hside. destruct Hside as [Hside Hd].
      apply andb_true_iff in Hside. destruct Hside as [Hside N4].
      apply andb_true_iff in Hside. destruct Hside as [Hside N3].
      apply andb_true_iff in Hside. destruct Hside as [N1 N2].
      destruct (simple_layer_sound w fa x p q sR r0 c Vw Vx Hnd Ep Eq ER Em N1 N2 N3 N4 Hd Hc)
        as [Hself [Hw Hx]].
      rewrite Hself, Hw. cbn [negb andb].
      exact (IH _ x Hrest eq_refl Hx).
    + (* wrappers.wrapper_decorator *)
      cbn [stack_side] in Hside. cbn [stack_sig] in E. cbn [stack_exec].
      destruct (stack_sig ls s) as [x|] eqn:Ex; [|discriminate].
      pose proof (stack_sig_valid ls s x HF Vs Ex) as Vx.
      destruct (generic_partial w) as [q|] eqn:Eq; [|discriminate].
      destruct (forwards q x (f_n fa) (f_names fa) false false true true false) as [r0|] eqn:Ef; [|discriminate].
      unfold declared_sig in E. rewrite Eq in E. cbn [bind] in E. rewrite Ef in E. injection E as <-.
      apply andb_true_iff in Hside. destruct Hside as [Hside Hrest].
      apply andb_true_iff in Hside. destruct Hside as [Hside Hd].
      apply andb_true_iff in Hside. destruct Hside as [Hself Hnc].
      destruct (declared_layer_sound w fa x q r0 c Vw Vx Hnd Eq Ef Hnc Hd Hc) as [Hq Hx].
      rewrite Hself, Hq. cbn [andb].
      exact (IH _ x Hrest eq_refl Hx).
Qed.

(* the statement about the model's objects *)
Theorem C13_stack_sound ls id s b c r :
  Forall layer_ok ls -> valid_sig (params s) = true ->
  stack_side ls s c = true ->
  sig_of (stack ls (Plain id s b)) = Ok r ->
  accepts (params r) c = true ->
  stack_exec ls s c = true.
Proof.
  intros HF Vs Hside E Hc. rewrite stack_sig_eq in E. exact (stack_sound ls s HF Vs c r Hside E Hc).
Qed.

(* ------------------------------------------------------------------ *)
(* Combination                                                          *)

(* every member signature (and Combination.__call__'s own) accepts the call *)
Theorem comb_sound fs ss r c :
  all_ok (map sig_of fs) = Ok ss ->
  all_valid ss ->
  role_consistent (map params (comb_self_sig :: ss)) = true ->
  sig_of (Comb fs) = Ok r ->
  noncolliding c (params r) (map params (comb_self_sig :: ss)) = true ->
  accepts (params r) c = true ->
  accepts (params comb_self_sig) c = true /\ Forall (fun s => accepts (params s) c = true) ss.
Proof.
  intros Ess V Hrc E Hnc Hc. cbn [sig_of] in E. rewrite Ess in E. cbn [bind] in E.
  assert (V' : all_valid (comb_self_sig :: ss)) by (constructor; [reflexivity|exact V]).
  pose proof (merge_sound_mixed_n (comb_self_sig :: ss) r c V' Hrc E Hnc Hc) as H.
  inversion H; subst. split; assumption.
Qed.

(* members that are decorated stacks: the member's own layers bind as well *)
Corollary comb_member_stack_sound fs ss r c ls id s b m :
  all_ok (map sig_of fs) = Ok ss -> all_valid ss ->
  role_consistent (map params (comb_self_sig :: ss)) = true ->
  sig_of (Comb fs) = Ok r ->
  noncolliding c (params r) (map params (comb_self_sig :: ss)) = true ->
  accepts (params r) c = true ->
  In m ss -> sig_of (stack ls (Plain id s b)) = Ok m ->
  Forall layer_ok ls -> valid_sig (params s) = true -> stack_side ls s c = true ->
  stack_exec ls s c = true.
Proof.
  intros Ess V Hrc E Hnc Hc Hin Em HF Vs Hside.
  destruct (comb_sound fs ss r c Ess V Hrc E Hnc Hc) as [_ Hall].
  rewrite Forall_forall in Hall.
  exact (C13_stack_sound ls id s b c m HF Vs Hside Em (Hall m Hin)).
Qed.

(* ------------------------------------------------------------------ *)
(* the hypotheses are satisfiable: a 2-deep stack                        *)

Definition ex_w1 : wrapperT :=      (* def w1(func, x, *args, **kwargs) through wrappers.decorator *)
  mkW 1 (sig_of_params [plain_param 18 PK; plain_param 14 PK; plain_param n_args VP; plain_param n_kwargs VK])
      (fun g => g).
Definition ex_w2 : wrapperT :=      (* def w2(func, *args, y, **kwargs) through wrappers.wrapper_decorator *)
  mkW 2 (sig_of_params [plain_param 18 PK; plain_param n_args VP; plain_param 15 KO; plain_param n_kwargs VK])
      (fun g => g).
Definition ex_f : sigT :=           (* def f(a, b=1) *)
  sig_of_params [plain_param 1 PK; mkParam 2 PK (Some 1) None UEmpty].
Definition ex_stack : list layer := [(Simple, mkF 0 [], ex_w1); (Declared, mkF 0 [], ex_w2)].
Definition ex_call : Bind.call := mkCall 2 [15].     (* obj(x, a, y=...) *)

Example stack_sound_sat :
  Forall layer_ok ex_stack /\ valid_sig (params ex_f) = true
  /\ stack_side ex_stack ex_f ex_call = true
  /\ shape (sig_of (stack ex_stack (Plain 100 ex_f (app_behaviour 100))))
     = Some [(14, 1%nat, false); (1, 1%nat, false); (2, 1%nat, true); (15, 3%nat, false)]
  /\ (exists r, sig_of (stack ex_stack (Plain 100 ex_f (app_behaviour 100))) = Ok r
                /\ accepts (params r) ex_call = true)
  /\ stack_exec ex_stack ex_f ex_call = true.
Proof.
  assert (HF : Forall layer_ok ex_stack).
  { repeat constructor. }
  assert (Hside : stack_side ex_stack ex_f ex_call = true) by (vm_compute; reflexivity).
  destruct (sig_of (stack ex_stack (Plain 100 ex_f (app_behaviour 100)))) as [r|e] eqn:E;
    [|vm_compute in E; discriminate].
  assert (Hc : accepts (params r) ex_call = true).
  { assert (Er : Ok r = sig_of (stack ex_stack (Plain 100 ex_f (app_behaviour 100)))) by (symmetry; exact E).
    vm_compute in Er. injection Er as ->. vm_compute. reflexivity. }
  repeat split; try assumption; try reflexivity.
  - rewrite <- E. vm_compute. reflexivity.
  - exists r. split; [reflexivity|exact Hc].
Qed.

Example comb_sound_sat :
  let g1 := Plain 100 (sig_of_params [plain_param 1 PK; plain_param 2 PK]) (app_behaviour 100) in
  let g2 := Plain 101 (sig_of_params [plain_param 1 PK; plain_param 2 PK; plain_param n_kwargs VK]) (app_behaviour 101) in
  exists ss r, all_ok (map sig_of [g1; g2]) = Ok ss /\ all_valid ss
    /\ role_consistent (map params (comb_self_sig :: ss)) = true
    /\ sig_of (Comb [g1; g2]) = Ok r
    /\ noncolliding (mkCall 2 []) (params r) (map params (comb_self_sig :: ss)) = true
    /\ accepts (params r) (mkCall 2 []) = true.
Proof.
  eexists. eexists. split; [reflexivity|]. split; [repeat constructor|].
  split; [vm_compute; reflexivity|]. split; [vm_compute; reflexivity|].
  split; vm_compute; reflexivity.
Qed.

(* ------------------------------------------------------------------ *)
(* what fails without the hypotheses                                    *)

(* without stack_side (discovery fell back because the wrapper's own parameter is named like
   the function's): the generic signature accepts a call the function rejects *)
Theorem stack_sound_nofallback_refuted :
  exists ls s c r, Forall layer_ok ls /\ valid_sig (params s) = true
    /\ stack_sig ls s = Ok r /\ accepts (params r) c = true /\ stack_exec ls s c = false.
Proof.
  exists [(Simple, mkF 0 [],
           mkW 1 (sig_of_params [plain_param 18 PK; plain_param 1 PK; plain_param n_args VP; plain_param n_kwargs VK])
               (fun g => g))],
         (sig_of_params [plain_param 1 PK]), (mkCall 1 []).
  eexists. split; [repeat constructor|]. split; [reflexivity|].
  split; [vm_compute; reflexivity|]. split; vm_compute; reflexivity.
Qed.

(* C13:self-keyword: the signature of a wrapper_decorator layer accepts a keyword named self,
   which __call__(self, ...) refuses *)
Theorem declared_self_keyword_refuted :
  exists ls s c r, Forall layer_ok ls /\ valid_sig (params s) = true
    /\ stack_sig ls s = Ok r /\ accepts (params r) c = true
    /\ stack_exec ls s c = false /\ stack_side ls s c = false.
Proof.
  exists [(Declared, mkF 0 [],
           mkW 1 (sig_of_params [plain_param 18 PK; plain_param n_args VP; plain_param n_kwargs VK]) (fun g => g))],
         (sig_of_params [plain_param n_self PK; plain_param 1 PK]), (mkCall 0 [n_self; 1]).
  eexists. split; [repeat constructor|]. split; [reflexivity|].
  split; [vm_compute; reflexivity|]. repeat split; vm_compute; reflexivity.
Qed.

(* C13:self-collision: no signature at all, the theorems are vacuous there *)
Theorem simple_layer_self_refuted :
  exists ls s, Forall layer_ok ls /\ valid_sig (params s) = true /\ stack_sig ls s = Err crash.
Proof.
  exists [(Simple, mkF 0 [],
           mkW 1 (sig_of_params [plain_param 18 PK; plain_param 14 PK; plain_param n_args VP; plain_param n_kwargs VK])
               (fun g => g))],
         (sig_of_params [plain_param n_self PK; plain_param 1 PK]).
  split; [repeat constructor|]. split; [reflexivity|]. vm_compute. reflexivity.
Qed.

(* C13:combination-inspect: what inspect.signature sees is not the merge *)
Theorem comb_inspect_refuted :
  exists fs c r s, inspect_sig (Comb fs) = Ok r /\ accepts (params r) c = true
    /\ all_ok (map sig_of fs) = Ok [s] /\ accepts (params s) c = false.
Proof.
  exists [Plain 100 (sig_of_params [plain_param 1 PK; plain_param 2 PK]) (app_behaviour 100)], (mkCall 1 []).
  eexists. eexists. split; [reflexivity|]. split; [vm_compute; reflexivity|].
  split; [reflexivity|]. vm_compute. reflexivity.
Qed.

Print Assumptions stack_sig_eq.
Print Assumptions stack_sig_valid.
Print Assumptions generic_partial_exact.
Print Assumptions declared_layer_sound.
Print Assumptions simple_layer_sound.
Print Assumptions stack_sound.
Print Assumptions C13_stack_sound.
Print Assumptions comb_sound.
Print Assumptions comb_member_stack_sound.
Print Assumptions stack_sound_sat.
Print Assumptions comb_sound_sat.
Print Assumptions stack_sound_nofallback_refuted.
Print Assumptions declared_self_keyword_refuted.
Print Assumptions simple_layer_self_refuted.
Print Assumptions comb_inspect_refuted.
